import ALock.Event
import ALock.Lemmas.Event
import ALock.Sem
import ALock.Lemmas.Sem
import ALock.Props.C03
import ALock.Props.C07
