import ALock.Markers
import ALock.Generated.Markers

/-! Report for C16: evaluates the same executable definitions the theorems of `Props/C16.lean`
are about and prints every row of rustc's table that the model rejects (run with
`lake env lean --run MarkersMain.lean`). -/

open ALock.Markers ALock.Markers.Gen

def kindName (k : Kind) : String :=
  match k.send, k.sync with
  | true, true => "sendsync" | true, false => "sendonly" | false, true => "synconly" | _, _ => "neither"

def trName : Tr → String | .send => "Send" | .sync => "Sync"

def nodeName (n : Node) : String :=
  (repr n.1).pretty.replace "ALock.Markers.Ty." "" ++ (if n.2 == Mode.own then "(owned)" else "(shared)")

/-- a witness path to a node whose atoms are not allowed (depth-first, fuel-bounded) -/
def findPath (k : Kind) : Nat → List Node → Node → Option (List Node)
  | 0, _, _ => none
  | f + 1, seen, n =>
    if !atomsOK facts k n then some [n]
    else
      (succs facts k n).foldl (fun acc m =>
        match acc with
        | some p => some p
        | none => if seen.contains m then none else
            (findPath k f (n :: seen) m).map (n :: ·)) none

def main : IO Unit := do
  for x in Ty.all do
    for tr in [Tr.send, Tr.sync] do
      for k in Kind.all do
        let nd := need facts k x tr
        let acc := facts.accepted x tr k
        let ok := soundB facts k x tr
        IO.println s!"row {repr x |>.pretty} {trName tr} {kindName k} accepted={acc} sound={ok} needSend={nd.1} needSync={nd.2}"
        if acc && !ok then
          -- the offending node
          let path := (findPath k 12 [] (start x tr)).getD []
          IO.println s!"BAD marker {repr x |>.pretty} {trName tr} {kindName k} via={" -> ".intercalate (path.map nodeName)}"
  for x in Ty.all do
    IO.println s!"variance {repr x |>.pretty} covariant={facts.covariant x} canMut={canMutB x}"
    if facts.covariant x && !noMutB x then
      IO.println s!"BAD variance {repr x |>.pretty}"
  for n in facts.outlives do IO.println s!"BAD outlives {n}"
  for n in facts.broken do IO.println s!"BAD broken {n}"
  for n in facts.foreignBounds do IO.println s!"BAD foreign {n}"
