import ALock.Atomic.Accept

/-!
`alock-accept`: reads one trace per line (written by `harness/src/bin/inject.rs`), replays it in the
acceptor of the primitive's atomic-granularity model and prints, for every rejected trace,
`reject <event index> <event> :: <reason> || <header> <replay key>`, and at the end
`TOTAL <traces> accepted <accepted>`.
-/

open ALock ALock.Accept

def parseInt (s : String) : Option Int :=
  if s.startsWith "-" then (s.drop 1).toNat?.map fun n => -(n : Int) else s.toNat?.map fun n => (n : Int)

def parseOp : String → Option AOp
  | "load" => some .load | "store" => some .store | "cas" => some .cas | "casw" => some .casw
  | "fadd" => some .fadd | "fsub" => some .fsub | "for" => some .for_ | "fand" => some .fand
  | _ => none

def parseEv (t : String) : Option TEv :=
  match t.splitOn ":" with
  | [h, call] =>
    if h.startsWith "B" then (h.drop 1).toNat?.map fun i => .beg i call
    else if h.startsWith "R" then (h.drop 1).toNat?.map fun i => .ret i call
    else none
  | [h, w, op, a, b, kind, ret] =>
    if h.startsWith "A" then do
      let i ← (h.drop 1).toNat?
      let w ← w.toNat?
      let op ← parseOp op
      let a ← parseInt a
      let b ← parseInt b
      let r ← ret.toNat?
      let ret ← match kind with
        | "none" => some ARet.none | "val" => some (.val r) | "ok" => some (.ok r) | "err" => some (.err r)
        | _ => none
      pure (.atom i { w := w, op := op, a := a, b := b, ord := "", ret := ret })
    else none
  | _ => none

/-- runs an acceptor over the tokens; the index of the first rejected event and the reason -/
def runTokens {σ : Type} (acc : σ → TEv → Except String σ) (st : σ) (toks : List String) : String :=
  let rec go (st : σ) (n : Nat) : List String → String
    | [] => "ok"
    | t :: ts =>
      if t.startsWith "S" || t.startsWith "V" || t.isEmpty then go st n ts
      else match parseEv t with
        | none => s!"reject {n} {t} :: malformed event"
        | some e => match acc st e with
          | .ok st' => go st' (n + 1) ts
          | .error m => s!"reject {n} {t} :: {m}"
  go st 0 toks

def handle (line : String) : String :=
  match line.splitOn " | " with
  | [hd, body] =>
    let toks := body.splitOn " "
    match hd.splitOn " " with
    | "mutex" :: n :: _ =>
      match n.toNat? with
      | some n => runTokens Mutex.accept (Mutex.init n) toks
      | none => "bad-header"
    | "sem" :: n :: p :: _ =>
      match n.toNat?, p.toNat? with
      | some n, some p => runTokens Sem.accept (Sem.init n p) toks
      | _, _ => "bad-header"
    | "rwlock" :: n :: _ =>
      match n.toNat? with
      | some n => runTokens RwLock.accept (RwLock.init n) toks
      | none => "bad-header"
    | "barrier" :: n :: _ =>
      match n.toNat? with
      | some n => runTokens Barrier.accept (Mutex.init n) toks
      | none => "bad-header"
    | "once" :: n :: _ =>
      match n.toNat? with
      | some n => runTokens Once.accept (Once.init n) toks
      | none => "bad-header"
    | _ => "bad-header"
  | _ => "bad-line"

/-- the replay key of a scenario line -/
def keyOf (line : String) : String :=
  match line.splitOn " | " with
  | [hd, body] => hd ++ " " ++ ((body.splitOn " ").headD "")
  | _ => ""

partial def loop (h : IO.FS.Stream) (out : IO.FS.Stream) (n ok : Nat) : IO Unit := do
  let line ← h.getLine
  if line.isEmpty then
    out.putStrLn s!"TOTAL {n} accepted {ok}"
    return ()
  let l := line.trimAscii.toString
  let r := handle l
  if r == "ok" then
    loop h out (n + 1) (ok + 1)
  else
    -- only rejections are printed, with the scenario's replay key
    out.putStrLn s!"{r} || {keyOf l}"
    loop h out (n + 1) ok

def main : IO Unit := do
  let i ← IO.getStdin
  let o ← IO.getStdout
  loop i o 0 0
