import ALock.Lemmas.Barrier
import ALock.Atomic.Calls
import ALock.Lemmas.Accept
import ALock.Props.C01

/-!
# C09 — Barrier: a generation releases exactly when its n-th waiter arrives

Statement (properties.jsonl): for a Barrier created with n, no wait()/wait_blocking() returns
before n waits of the current generation have arrived (been polled or called), and once the n-th
has arrived every wait of that generation that is still alive completes; exactly one of them —
the last to arrive — reports is_leader() == true. The barrier is then reusable for the next
generation with the same guarantees, and waits of different generations never release each other.

Proved for **every** `n` and **every** finite history of the poll-granular Barrier model (any
number of waits, spurious polls, polls with new wakers, cancellation at any point, any number of
generations).  `arrived` counts arrivals (the poll that increments `count`, cancelled waits
included), `leaders` counts `is_leader() == true` results; `max n 1` is the effective size
(`n = 0` and `n = 1` behave alike: every wait is the leader of its own generation).

With atomic polls the inner mutex is free between operations (checked by the differential run),
so the slow path of the embedded `Lock` is not exercised here; `generation_id` wrap-around
(2^64 generations) is outside the model (`Nat`).
-/

namespace ALock.Barrier

/-- **C09 (accounting).** Completed generations account for exactly `max n 1` arrivals each, the
current one for `count < max n 1`; one leader per completed generation. -/
theorem C09_accounting (n : Nat) (ops : List Op) :
    let s := run { n := n } ops
    s.arrived = s.gen * max n 1 + s.count ∧ s.count < max n 1 ∧ s.leaders = s.gen := by
  intro s
  have h := reachable_binv n ops
  have hn : (run { n := n } ops).n = n := by
    have : ∀ (s0 : Sys) (ops : List Op), (run s0 ops).n = s0.n := by
      intro s0 ops
      induction ops generalizing s0 with
      | nil => rfl
      | cons op ops ih =>
        simp only [run, List.foldl_cons] at ih ⊢
        rw [ih]
        unfold next
        cases op <;> simp only [step] <;> (repeat' split) <;>
          simp [pollWait, Sys.notifyAll, Sys.dropEv] <;> (repeat' split) <;> simp [Sys.notifyAll]
    exact this _ _
  have h1 := h.arrivedEq
  have h2 := h.countLt
  rw [hn] at h1 h2
  exact ⟨h1, h2, h.leadersGen⟩

/-- **C09 (no early return).** A wait that returns as a follower arrived in a generation that is
already complete: `generation > its arrival generation`, i.e. at least `(lg+1)·max n 1` waits have
arrived. A wait that returns as leader is the arrival that completes its generation. -/
theorem C09_no_early (n : Nat) (ops : List Op) (f t : Nat) (fu : Fut)
    (hf : findFut (run { n := n } ops) f = some fu) :
    let s := run { n := n } ops
    ((step s (.poll f t)).2 = .follower →
        ∃ lg, fu.pc = .waiting lg ∧ lg < s.gen ∧ (lg + 1) * max s.n 1 ≤ s.arrived) ∧
    ((step s (.poll f t)).2 = .leader →
        fu.pc = .initial ∧ s.count + 1 = max s.n 1 ∧ (next s (.poll f t)).gen = s.gen + 1 ∧
        (next s (.poll f t)).arrived = (s.gen + 1) * max s.n 1) := by
  intro s
  have h := reachable_binv n ops
  obtain ⟨hmem, hid⟩ := findFut_mem hf
  have hcl := h.countLt
  have hae := h.arrivedEq
  simp only [step, next, hf, s]
  constructor
  · intro hout
    split at hout
    · cases hout
    · unfold pollWait at hout
      cases hpc : fu.pc with
      | initial => simp only [hpc] at hout; split at hout <;> simp at hout
      | done => simp only [hpc] at hout; simp at hout
      | waiting lg =>
        simp only [hpc] at hout
        split at hout
        · simp at hout
        · split at hout
          · simp at hout
          · rename_i hcond
            simp only [Bool.and_eq_true, decide_eq_true_eq, not_and] at hcond
            obtain ⟨hle, hn2⟩ := h.waitingGen fu hmem lg hpc
            have hlt : lg < (run { n := n } ops).gen := by
              by_cases he : lg = (run { n := n } ops).gen
              · have := hcond he; omega
              · omega
            refine ⟨lg, rfl, hlt, ?_⟩
            rw [hae]
            calc (lg + 1) * max (run { n := n } ops).n 1
                ≤ (run { n := n } ops).gen * max (run { n := n } ops).n 1 :=
                  Nat.mul_le_mul_right _ hlt
              _ ≤ _ := Nat.le_add_right _ _
  · intro hout
    split at hout
    · cases hout
    · rename_i hnd
      simp only [hnd, if_false]
      unfold pollWait at hout ⊢
      cases hpc : fu.pc with
      | done => simp only [hpc] at hout; simp at hout
      | waiting lg => simp only [hpc] at hout; (repeat' split at hout) <;> simp at hout
      | initial =>
        simp only [hpc] at hout ⊢
        split at hout
        · simp at hout
        · rename_i hge
          simp only [hge, if_false]
          have hcount : (run { n := n } ops).count + 1 = max (run { n := n } ops).n 1 := by omega
          refine ⟨trivial, hcount, by simp [Sys.notifyAll], ?_⟩
          simp only [Sys.notifyAll]
          rw [hae, Nat.add_mul, ← hcount]; omega

/-- **C09 (release).** Once every woken task has been polled again, no live wait of a completed
generation is still pending: every remaining registered wait belongs to the current generation. -/
theorem C09_release (n : Nat) (ops : List Op) (hq : (run { n := n } ops).woken = []) :
    ∀ fu ∈ (run { n := n } ops).futs, ∀ lg, fu.pc = .waiting lg → lg = (run { n := n } ops).gen := by
  have h := reachable_binv n ops
  intro fu hfu lg hpc
  have hle := (h.waitingGen fu hfu lg hpc).1
  by_cases hlt : lg < (run { n := n } ops).gen
  · exfalso
    have hn := h.relN fu hfu lg hpc hlt
    obtain ⟨e, he, ho, hne⟩ := Ev.isNotified_iff.mp hn
    have := h.wake e he hne
    rw [hq] at this; cases this
  · omega

/-- **C09 (isolation).** A wait of the current (incomplete) generation never completes, whatever
notification reaches it: polling it returns `Pending`. -/
theorem C09_isolation (n : Nat) (ops : List Op) (f t : Nat) (fu : Fut)
    (hf : findFut (run { n := n } ops) f = some fu) (hpc : fu.pc = .waiting (run { n := n } ops).gen) :
    (step (run { n := n } ops) (.poll f t)).2 = .pending := by
  have h := reachable_binv n ops
  obtain ⟨hmem, _⟩ := findFut_mem hf
  have hn2 := (h.waitingGen fu hmem _ hpc).2
  have hcl := h.countLt
  have hc : (run { n := n } ops).count < (run { n := n } ops).n := by omega
  simp only [step, hf, hpc, pollWait]
  split
  · rename_i hc'; cases hc'
  · split
    · rfl
    · simp [hc]

/-- Non-vacuity: `n = 2`, two generations, a cancelled waiter whose forwarded notification
reaches a waiter of the next generation (which keeps waiting), and a spurious poll. -/
example :
    let s := run { n := 2 }
      [.start 0, .start 1, .start 2, .start 3, .poll 0 0, .poll 1 4, .poll 2 8, .dropFut 0,
       .poll 2 8, .poll 2 9, .poll 3 12, .poll 2 8]
    s.gen = 2 ∧ s.leaders = 2 ∧ s.arrived = 4 ∧ s.count = 0 ∧ pendingPolled s = [] ∧ s.woken = [] := by
  decide

end ALock.Barrier

/-! ## Where the notifications are sent (generated site table) -/

namespace ALock.Barrier

/-! ### `wait_blocking`: a parked thread is a re-polled task

`wait_blocking` runs the same `poll_with_strategy` with the `Blocking` strategy.  A thread parked in
`WaitState::Waiting` resumes *inside* `strategy.poll(evl)` — its listener has fired and `wait()` has
consumed it —, then takes the state mutex (`Reacquiring`), and either returns as a follower or
listens again and parks on the new listener (the unparker plays the part of the waker `t`).
`resumeBlocking` is that code path, written from the source; `C09_blocking_is_poll` proves that it
changes the barrier exactly as the poll of a notified `wait()` future does, so every theorem about
histories of polls also covers threads parked in `wait_blocking`.  The arrival (`Initial`) is the
same code for both strategies: parking on the fresh listener registers the unparker, which is what
`Ev.setTask (Ev.listen …)` says. -/

/-- a thread parked in `wait_blocking` (arrived in generation `lg`) resumes -/
def resumeBlocking (s : Sys) (f lg t : Nat) : PRes :=
  -- `listener.wait()` returned: the entry is gone from the list
  let s1 := { s with q := Ev.erase s.q f }
  -- `Reacquiring`: the state mutex is taken (free between operations), the guard dropped at the end
  if lg = s.gen && s.count < s.n then
    -- `evl = event.listen()`, back to `Waiting`: park on the new listener
    ⟨{ s1 with q := Ev.setTask (Ev.listen s1.q f) f t }, .waiting lg, .pending⟩
  else ⟨s1, .done, .follower⟩

/-- **C09 (blocking form is covered).** For a waiter whose listener is notified — the only
situation in which a parked thread resumes — the blocking code path and the poll of the
corresponding future are the same transformation of the barrier. -/
theorem C09_blocking_is_poll (s : Sys) (fu : Fut) (lg t : Nat) (hpc : fu.pc = .waiting lg)
    (hn : Ev.isNotified s.q fu.id = true) :
    resumeBlocking s fu.id lg t = pollWait s fu t := by
  unfold resumeBlocking pollWait
  simp only [hpc, hn, Bool.not_true, Bool.false_eq_true, if_false]

/-- and a parked thread whose listener is *not* notified does not run at all: the poll that stands
for it (a spurious wake-up) leaves count, generation and the set of registered waiters unchanged -/
theorem C09_blocking_spurious (s : Sys) (fu : Fut) (lg t : Nat) (hpc : fu.pc = .waiting lg)
    (hn : Ev.isNotified s.q fu.id = false) :
    (pollWait s fu t).out = .pending ∧ (pollWait s fu t).s.count = s.count ∧
    (pollWait s fu t).s.gen = s.gen ∧ (pollWait s fu t).pc = .waiting lg ∧
    (pollWait s fu t).s.woken = s.woken := by
  unfold pollWait
  simp [hpc, hn]

/-- non-vacuity: n = 2, wait 0 parked, wait 1 arrives as leader; the parked thread resumes as follower -/
example :
    let s := run { n := 2 } [.start 0, .poll 0 0, .start 1, .poll 1 4]
    Ev.isNotified s.q 0 = true ∧ (resumeBlocking s 0 0 0).out = .follower ∧
    (resumeBlocking s 0 0 0).s.q = [] := by decide

end ALock.Barrier

namespace ALock.Atomic.Calls

/-- every `listen` / `notify` of `src/barrier.rs`, in source order (generated table) -/
theorem C09_calls_ok : fileShapes "src/barrier.rs" = barrierExpected := by decide

end ALock.Atomic.Calls

namespace ALock.Accept.Barrier
open ALock.Atomic.Mutex

/-- **C09 (executions of the real crate with injected preemptions).** The Barrier's only state word
is its state mutex's; a recorded trace of `wait` polls and cancellations, preempted before any of
their atomic operations by other polls, that the acceptor accepts is a run of the
atomic-granularity Mutex model: the counters `count` / `generation_id` are only ever touched by the
one holder of that mutex (the serialisation the poll-granular theorems assume), and no call
returns holding it. -/
theorem C09_accepted (n : Nat) (tr : List TEv) (st' : Mutex.St)
    (h : acceptAll (Mutex.init n) tr = .ok st') :
    holders st'.sys ≤ 1 ∧ st'.sys.st = holders st'.sys + 2 * starvedN st'.sys := by
  obtain ⟨l, e⟩ := accepted_reachable h
  rw [e]
  exact C01_interleaved ords l

end ALock.Accept.Barrier
