import ALock.Lemmas.Mutex
import ALock.Atomic.Calls

/-!
# C05 — Mutex: no lost wake-up: a free mutex never leaves a waiter asleep

Statement (properties.jsonl): whenever a Mutex is unlocked and every task whose waker has been
called has been polled again, no `lock`/`lock_arc` future that has been polled is still pending.
This holds whichever waiter is cancelled, re-polled spuriously or re-polled with a new waker,
however long completed futures are kept alive (...).

`C05` is that statement for **every** finite history of the poll-granular model `ALock.Mutex`:
any number of lock futures (borrowed and Arc), polls with any waker and either outcome of the
0.5 ms starvation test at its evaluation point, `dropFut` at any moment of a future's life
(unpolled, pending, notified-but-not-repolled, completed-but-not-dropped), `try_lock` bargers and
guard drops in any order.  The invariant is `MInv` (`Lemmas/Mutex.lean`): the state word equals
guards + 2·(starved live operations); a live operation is registered exactly while it waits; a
notified entry's owner has an outstanding wake-up; an unlocked mutex with registered waiters has
a notified entry ("baton").

Not covered by this theorem: interleavings of atomic operations of several threads (polls are
atomic here).  Threads parked in `lock_blocking` enter through `C05_blocking_is_poll` below (the
resume path of a parked thread equals the poll of a notified future; that `parking` unparks the
right thread is assumed).
-/

namespace ALock.Mutex

/-- **C05.** Unlocked + no outstanding wake-up ⇒ no polled lock future is pending. -/
theorem C05 (ops : List Op) :
    let s := run {} ops
    s.c.woken = [] → s.c.st % 2 = 0 → pendingPolled s = [] := by
  intro s hw hfree
  have inv := reachable_inv ops
  refine Classical.byContradiction fun hne => ?_
  obtain ⟨fu, hfu⟩ := List.exists_mem_of_ne_nil _ hne
  simp only [pendingPolled, List.mem_filter, Bool.and_eq_true, Bool.not_eq_true'] at hfu
  have hslow := (inv.flags fu hfu.1).polledSlow hfu.2.1 hfu.2.2
  have hreg := inv.reg fu hfu.1
  simp only [LockSt.waiting, hslow, hfu.2.2, Bool.not_false, Bool.and_self] at hreg
  have hq := Ev.has_ne_nil hreg
  have := inv.baton hfree hq
  obtain ⟨e, he, hn⟩ := (cnt_pos_iff _).mp this
  have := inv.wake e he hn
  simp only [s] at hw
  rw [hw] at this
  cases this

/-- The lock bit is exactly "a guard is alive", so "unlocked" may be read either way. -/
theorem C05_unlocked_iff (ops : List Op) :
    (run {} ops).c.st % 2 = 0 ↔ (run {} ops).guards = [] := by
  have inv := reachable_inv ops
  have hw := inv.word
  have hev := ticks_even (run {} ops)
  have hx := inv.excl
  constructor
  · intro h
    have : (run {} ops).guards.length = 0 := by omega
    exact List.length_eq_zero_iff.mp this
  · intro h
    rw [h] at hw
    simp only [List.length_nil, Nat.zero_add] at hw
    omega

/-- "The most recent waker is the one that gets called": after a poll that returns `Pending`, the
waker stored in the future's listener is the one given to that poll (so that is the one a later
`notify` calls; see `notifyT`). -/
theorem C05_latest_waker (s : Sys) (f t : Nat) (fire : Bool)
    (hp : (step s (.poll f t fire)).2 = .pending) :
    ∀ e ∈ (next s (.poll f t fire)).c.q, e.owner = f → e.task = some t := by
  cases hf : findFut s f with
  | none => simp [step, hf] at hp
  | some fu =>
    simp only [next, step, hf] at hp ⊢
    by_cases hd : fu.l.done = true
    · simp [hd] at hp
    · simp only [hd, Bool.false_eq_true, if_false] at hp ⊢
      by_cases hr : (lockPoll (s.c.polled f) fu.l f t fire).ready = true
      · simp [hr] at hp
      · simp only [hr, Bool.false_eq_true, if_false]
        exact lockPoll_pending_task _ _ _ _ _ (by simpa using hr)

/-! ### Non-vacuity and the racy completion path -/

/-- A non-trivial state satisfying the premises: a starved waiter, a hot waiter and a barger;
after the hand-overs everything is acquired and released. -/
example :
    let s := run {}
      [.tryLock 0 false, .start 1 false, .start 2 true, .poll 1 4 false, .poll 2 8 false,
       .dropGuard 0, .tryLock 3 false, .poll 1 4 true, .dropGuard 3, .poll 2 8 false,
       .poll 1 4 false, .dropGuard 1, .poll 2 8 false, .dropGuard 2]
    s.c.woken = [] ∧ s.c.st % 2 = 0 ∧ pendingPolled s = [] ∧ s.c.st = 0 ∧ s.c.q = [] := by decide

/-- Cancelling the notified waiter hands the notification on (the next waiter is woken). -/
example :
    let s := run {}
      [.tryLock 0 false, .start 1 false, .start 2 false, .poll 1 4 false, .poll 2 8 false,
       .dropGuard 0, .dropFut 1]
    s.c.woken = [2] ∧ s.c.st = 0 := by decide

end ALock.Mutex

/-! ### `lock_blocking`: a parked thread is a re-polled task

`lock_blocking` / `lock_arc_blocking` drive the same `AcquireSlow::poll_with_strategy` with the
`Blocking` strategy.  A thread parked in it resumes after `strategy.poll(listener)` has returned —
its listener has fired and been consumed — in whichever of the two loops it parked.
`lockResumeBlocking` is that code path, written from the source of the two loops;
`C05_blocking_is_poll` proves that it changes the mutex exactly as the poll of the corresponding
notified future does, so every theorem about histories of polls (C01, C05, C10, C13, C17 for the
Mutex) also covers threads parked in the blocking forms (parking on a fresh listener registers the
unparker, which is what `setTask` says). -/

namespace ALock

/-- a thread parked in `AcquireSlow` (blocking strategy) resumes; `fire` is the 0.5 ms test -/
def lockResumeBlocking (c : Core) (l : LockSt) (f t : Nat) (fire : Bool) : PollRes :=
  -- `strategy.poll(listener)` returned: the entry is gone from the list
  let c0 := c.consume f
  if !l.starved then
    -- hot loop: CAS(0,1)
    if c.st = 0 then ⟨{ c0 with st := 1 }, { l with done := true }, true, 5⟩
    else if c.st = 1 then
      if fire then
        -- break; fetch_add(2); fair loop: listen; CAS(2,3) fails (odd); park
        ⟨((c0.starve).listen f).setTask f t, { l with starved := true }, false, 6⟩
      else
        -- continue: listen; CAS(0,1) fails with 1; park
        ⟨(c0.listen f).setTask f t, l, false, 7⟩
    else
      -- somebody is starved: notify(1); break; fetch_add(2); fair loop: listen; CAS(2,3) fails
      let c1 := (((c0.notify 1).starve).listen f)
      if c.st % 2 = 1 then ⟨c1.setTask f t, { l with starved := true }, false, 8⟩
      else
        -- lock is available: be fair, notify(1); wait on the fresh listener
        let c2 := c1.notify 1
        if Ev.isNotified c2.q f then
          -- it was our own: `wait()` returns at once; fetch_or(1) acquires; take_mutex: fetch_sub(2)
          ⟨{ c2.consume f with st := c.st + 1 }, { l with starved := true, done := true }, true, 9⟩
        else ⟨c2.setTask f t, { l with starved := true }, false, 10⟩
  else
    -- fair loop: fetch_or(1)
    if c.st % 2 = 0 then ⟨{ c0 with st := c.st + 1 - 2 }, { l with done := true }, true, 12⟩
    else ⟨(c0.listen f).setTask f t, l, false, 13⟩

/-- **C05 (blocking forms are covered).** For a slow-path waiter whose listener is notified — the
only situation in which a parked thread resumes — the blocking code path and the poll of the
corresponding future are the same transformation of the mutex. -/
theorem C05_blocking_is_poll (c : Core) (l : LockSt) (f t : Nat) (fire : Bool)
    (hs : l.slow = true) (hn : Ev.isNotified c.q f = true) :
    lockResumeBlocking c l f t fire = lockPoll c l f t fire := by
  unfold lockResumeBlocking lockPoll
  simp only [hs, hn, Bool.not_true, Bool.false_eq_true, if_false]

/-- non-vacuity: guard 0 held, waiter 1 parked in the hot loop; the guard is dropped: 1 is notified
and its blocking resume acquires the mutex -/
example :
    let s := Mutex.run {} [.tryLock 0 false, .start 1 false, .poll 1 4 false, .dropGuard 0]
    let l : LockSt := { slow := true }
    Ev.isNotified s.c.q 1 = true ∧ (lockResumeBlocking s.c l 1 4 false).ready = true ∧
    (lockResumeBlocking s.c l 1 4 false).c.st = 1 ∧ (lockResumeBlocking s.c l 1 4 false).c.q = [] := by
  decide

end ALock

/-! ## Where the notifications are sent (generated site table) -/

namespace ALock.Atomic.Calls

/-- every operation of `src/mutex.rs` on the state word and every `listen` / `notify` on `lock_ops`,
function by function in source order, is what the model's `lockPoll` / `unlock` / `lockDrop` were
written against (table extracted from /repo's sources on every run) -/
theorem C05_calls_ok : fileShapes "src/mutex.rs" = mutexExpected := by decide

end ALock.Atomic.Calls
