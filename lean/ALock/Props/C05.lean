import ALock.Lemmas.Mutex
import ALock.Atomic.Calls

/-!
# C05 — Mutex: no lost wake-up: a free mutex never leaves a waiter asleep

Statement (properties.jsonl): whenever a Mutex is unlocked and every task whose waker has been
called has been polled again, no `lock`/`lock_arc` future that has been polled is still pending.
This holds whichever waiter is cancelled, re-polled spuriously or re-polled with a new waker,
however long completed futures are kept alive (...).

`C05` is that statement for **every** finite history of the poll-granular model `ALock.Mutex`:
any number of lock futures (borrowed and Arc), polls with any waker and either outcome of the
0.5 ms starvation test at its evaluation point, `dropFut` at any moment of a future's life
(unpolled, pending, notified-but-not-repolled, completed-but-not-dropped), `try_lock` bargers and
guard drops in any order.  The invariant is `MInv` (`Lemmas/Mutex.lean`): the state word equals
guards + 2·(starved live operations); a live operation is registered exactly while it waits; a
notified entry's owner has an outstanding wake-up; an unlocked mutex with registered waiters has
a notified entry ("baton").

Not covered by this theorem: interleavings of atomic operations of several threads (polls are
atomic here) and threads parked in `lock_blocking` (a parked thread is a task that is re-polled
when woken, under the assumption that `parking` unparks the right thread).
-/

namespace ALock.Mutex

/-- **C05.** Unlocked + no outstanding wake-up ⇒ no polled lock future is pending. -/
theorem C05 (ops : List Op) :
    let s := run {} ops
    s.c.woken = [] → s.c.st % 2 = 0 → pendingPolled s = [] := by
  intro s hw hfree
  have inv := reachable_inv ops
  refine Classical.byContradiction fun hne => ?_
  obtain ⟨fu, hfu⟩ := List.exists_mem_of_ne_nil _ hne
  simp only [pendingPolled, List.mem_filter, Bool.and_eq_true, Bool.not_eq_true'] at hfu
  have hslow := (inv.flags fu hfu.1).polledSlow hfu.2.1 hfu.2.2
  have hreg := inv.reg fu hfu.1
  simp only [LockSt.waiting, hslow, hfu.2.2, Bool.not_false, Bool.and_self] at hreg
  have hq := Ev.has_ne_nil hreg
  have := inv.baton hfree hq
  obtain ⟨e, he, hn⟩ := (cnt_pos_iff _).mp this
  have := inv.wake e he hn
  simp only [s] at hw
  rw [hw] at this
  cases this

/-- The lock bit is exactly "a guard is alive", so "unlocked" may be read either way. -/
theorem C05_unlocked_iff (ops : List Op) :
    (run {} ops).c.st % 2 = 0 ↔ (run {} ops).guards = [] := by
  have inv := reachable_inv ops
  have hw := inv.word
  have hev := ticks_even (run {} ops)
  have hx := inv.excl
  constructor
  · intro h
    have : (run {} ops).guards.length = 0 := by omega
    exact List.length_eq_zero_iff.mp this
  · intro h
    rw [h] at hw
    simp only [List.length_nil, Nat.zero_add] at hw
    omega

/-- "The most recent waker is the one that gets called": after a poll that returns `Pending`, the
waker stored in the future's listener is the one given to that poll (so that is the one a later
`notify` calls; see `notifyT`). -/
theorem C05_latest_waker (s : Sys) (f t : Nat) (fire : Bool)
    (hp : (step s (.poll f t fire)).2 = .pending) :
    ∀ e ∈ (next s (.poll f t fire)).c.q, e.owner = f → e.task = some t := by
  cases hf : findFut s f with
  | none => simp [step, hf] at hp
  | some fu =>
    simp only [next, step, hf] at hp ⊢
    by_cases hd : fu.l.done = true
    · simp [hd] at hp
    · simp only [hd, Bool.false_eq_true, if_false] at hp ⊢
      by_cases hr : (lockPoll (s.c.polled f) fu.l f t fire).ready = true
      · simp [hr] at hp
      · simp only [hr, Bool.false_eq_true, if_false]
        exact lockPoll_pending_task _ _ _ _ _ (by simpa using hr)

/-! ### Non-vacuity and the racy completion path -/

/-- A non-trivial state satisfying the premises: a starved waiter, a hot waiter and a barger;
after the hand-overs everything is acquired and released. -/
example :
    let s := run {}
      [.tryLock 0 false, .start 1 false, .start 2 true, .poll 1 4 false, .poll 2 8 false,
       .dropGuard 0, .tryLock 3 false, .poll 1 4 true, .dropGuard 3, .poll 2 8 false,
       .poll 1 4 false, .dropGuard 1, .poll 2 8 false, .dropGuard 2]
    s.c.woken = [] ∧ s.c.st % 2 = 0 ∧ pendingPolled s = [] ∧ s.c.st = 0 ∧ s.c.q = [] := by decide

/-- Cancelling the notified waiter hands the notification on (the next waiter is woken). -/
example :
    let s := run {}
      [.tryLock 0 false, .start 1 false, .start 2 false, .poll 1 4 false, .poll 2 8 false,
       .dropGuard 0, .dropFut 1]
    s.c.woken = [2] ∧ s.c.st = 0 := by decide

end ALock.Mutex

/-! ## Where the notifications are sent (generated site table) -/

namespace ALock.Atomic.Calls

/-- every operation of `src/mutex.rs` on the state word and every `listen` / `notify` on `lock_ops`,
function by function in source order, is what the model's `lockPoll` / `unlock` / `lockDrop` were
written against (table extracted from /repo's sources on every run) -/
theorem C05_calls_ok : fileShapes "src/mutex.rs" = mutexExpected := by decide

end ALock.Atomic.Calls
