import ALock.Lemmas.Mutex
import ALock.Lemmas.Sem
import ALock.Props.C03
import ALock.Lemmas.RwLockWake

/-!
# C10 — Cancelling an acquisition at any point leaves no trace

Statement (properties.jsonl): dropping a lock, read, upgradable_read, write, upgrade or acquire
future (borrowed or Arc form) at any moment — never polled, pending, already notified, or
completed — gives back everything the operation had obtained or reserved (queue position,
starvation ticket, writer intent, hand-over notification); a cancelled upgrade also releases the
upgradable read lock it consumed. Afterwards the primitive behaves as if the operation had never
been started: in particular, once all guards are gone and nothing is pending, try_lock / try_write
succeed and every permit of a semaphore can be taken with try_acquire.

How this is proved.  All invariants of the three models are stated over the futures and guards
that are **alive**: the state words are *exactly* guards + tickets + writer intents of live
operations (`MInv.word`, `WordInv.mword/word`, `C03_conservation`), and every registered listener
belongs to a live operation (`regRev`, `RegRev`, `RegInv.*rev`).  Since `dropFut` is an operation
of the step relations at every moment of a future's life, these invariants say that whatever a
future had reserved is gone the moment it is dropped.  The theorems below spell out the
consequence the property names ("drain"): when nothing is alive any more, the words are zero
(resp. the permit count is everything that was ever issued), all three queues are empty, and the
`try_*` operations succeed.  The liveness half (a hand-over notification held by the cancelled
future is given back) is C05/C06/C07, whose histories contain `dropFut` at every moment.

"As if never started" is claimed in this sense (same resources, same grants), not as trace
equality: a cancelled, notified waiter legitimately causes one extra wake-up of the next waiter.
-/

namespace ALock

theorem nil_of_no_has {q : List Entry} (h : ∀ g, Ev.has q g = false) : q = [] := by
  cases q with
  | nil => rfl
  | cons e t =>
    have := h e.owner
    simp [Ev.has] at this

/-- **C10 (Mutex).** Whatever happened before — any futures started, polled, starved, notified,
cancelled at any point — once no future and no guard is alive the mutex is exactly as new:
word 0, no listener, and `try_lock` succeeds. -/
theorem C10_mutex (ops : List Mutex.Op) (hf : (Mutex.run {} ops).futs = [])
    (hg : (Mutex.run {} ops).guards = []) :
    (Mutex.run {} ops).c.st = 0 ∧ (Mutex.run {} ops).c.q = [] ∧
    ∀ g arc, 0 < (Mutex.run {} ops).handles → (Mutex.step (Mutex.run {} ops) (.tryLock g arc)).2 = .some := by
  have inv := Mutex.reachable_inv ops
  have hw := inv.word
  have hq : (Mutex.run {} ops).c.q = [] := by
    apply nil_of_no_has
    intro g
    cases hh : Ev.has (Mutex.run {} ops).c.q g
    · rfl
    · obtain ⟨fu, hfu, _⟩ := inv.regRev g hh
      rw [hf] at hfu; cases hfu
  have hst : (Mutex.run {} ops).c.st = 0 := by
    simp only [Mutex.ticks, hf, hg] at hw
    simpa using hw
  refine ⟨hst, hq, ?_⟩
  intro g arc hh
  simp [Mutex.step, Mutex.fresh, Mutex.findFut, Mutex.findGuard, hf, hg, hst, hh]

/-- **C10 (Mutex, at every moment).** Even while other operations are still alive, the word
accounts for the *live* ones only: dropping a future removes its ticket in the same step. -/
theorem C10_mutex_word (ops : List Mutex.Op) (f : Nat) :
    let s := Mutex.next (Mutex.run {} ops) (.dropFut f)
    s.c.st = s.guards.length + Mutex.ticks s ∧ ∀ fu ∈ s.futs, fu.id ≠ f := by
  intro s
  have inv := Mutex.reachable_inv (ops ++ [.dropFut f])
  have hrun : Mutex.run {} (ops ++ [.dropFut f]) = s := by
    simp [Mutex.run, List.foldl_append, s]
  rw [hrun] at inv
  refine ⟨inv.word, ?_⟩
  intro fu hfu
  simp only [s, Mutex.next, Mutex.step] at hfu
  split at hfu
  · simp only [List.mem_filter, bne_iff_ne, ne_eq] at hfu; exact hfu.2
  · rename_i hnone
    intro hid
    have : Mutex.findFut (Mutex.run {} ops) f ≠ none := by
      unfold Mutex.findFut
      intro hc
      rw [List.find?_eq_none] at hc
      exact hc fu hfu (by simp [hid])
    exact this hnone

/-- **C10 (Semaphore).** Once no future and no guard is alive, no listener is left and every
permit that was ever issued and not forgotten is available again. -/
theorem C10_sem (n : Nat) (ops : List Sem.Op) (hf : (Sem.run (Sem.Sys.new n) ops).futs = [])
    (hg : (Sem.run (Sem.Sys.new n) ops).guards = []) :
    (Sem.run (Sem.Sys.new n) ops).q = [] ∧
    (Sem.run (Sem.Sys.new n) ops).count + (Sem.run (Sem.Sys.new n) ops).forgotten
      = (Sem.run (Sem.Sys.new n) ops).init + (Sem.run (Sem.Sys.new n) ops).added := by
  have hrev := Sem.run_regRev (Sem.Sys.new n) ops (by intro g hg; simp [Sem.Sys.new, Ev.has] at hg)
  have hc := Sem.C03_conservation n ops
  constructor
  · apply nil_of_no_has
    intro g
    cases hh : Ev.has (Sem.run (Sem.Sys.new n) ops).q g
    · rfl
    · obtain ⟨fu, hfu, _⟩ := hrev g hh
      rw [hf] at hfu; cases hfu
  · simp only [hg, List.length_nil, Nat.add_zero] at hc
    exact hc

/-- every available permit can be taken with `try_acquire`, one after the other -/
theorem C10_sem_take_all (s : Sem.Sys) (hf : s.futs = []) (hg : s.guards = []) :
    ∀ k, k ≤ s.count → ∃ s', s'.count = s.count - k ∧ s'.guards.length = k ∧
      ∃ ops : List Sem.Op, ops.length = k ∧ Sem.run s ops = s' ∧
        ∀ op ∈ ops, ∃ g, op = .tryAcq g false := by
  intro k
  induction k with
  | zero => intro _; exact ⟨s, by simp, by simp [hg], [], rfl, rfl, by simp⟩
  | succ k ih =>
    intro hk
    obtain ⟨s', hc, hl, ops, hol, hrun, hall⟩ := ih (by omega)
    -- pick an id not used so far
    have hfresh : ∃ g, Sem.fresh s' g = true := by
      -- guards were created by tryAcq only; futs are still empty; any id above all guard ids works
      refine ⟨(s'.guards.map (·.id)).foldl max 0 + 1 + (s'.futs.map (·.id)).foldl max 0, ?_⟩
      have hle : ∀ (l : List Nat) (x : Nat), x ∈ l → x ≤ l.foldl max 0 := by
        intro l
        have gen : ∀ (l : List Nat) (a x : Nat), (x ∈ l ∨ x ≤ a) → x ≤ l.foldl max a := by
          intro l
          induction l with
          | nil => intro a x h; rcases h with h | h; cases h; simpa using h
          | cons b t ih =>
            intro a x h
            simp only [List.foldl_cons]
            apply ih
            rcases h with h | h
            · rcases List.mem_cons.mp h with rfl | h
              · right; omega
              · left; exact h
            · right; omega
        intro x hx; exact gen l 0 x (Or.inl hx)
      simp only [Sem.fresh, Sem.findFut, Sem.findGuard, Bool.and_eq_true, Option.isNone_iff_eq_none,
        List.find?_eq_none]
      constructor
      · intro x hx
        have := hle (s'.futs.map (·.id)) x.id (List.mem_map.mpr ⟨x, hx, rfl⟩)
        simp; omega
      · intro x hx
        have := hle (s'.guards.map (·.id)) x.id (List.mem_map.mpr ⟨x, hx, rfl⟩)
        simp; omega
    obtain ⟨g, hg'⟩ := hfresh
    have hpos : 0 < s'.count := by omega
    refine ⟨Sem.next s' (.tryAcq g false), ?_, ?_, ops ++ [.tryAcq g false], by simp [hol], ?_, ?_⟩
    · simp [Sem.next, Sem.step, hg', hpos]; omega
    · simp [Sem.next, Sem.step, hg', hpos, hl]
    · simp [Sem.run, List.foldl_append] at hrun ⊢; rw [hrun]
    · intro op hop
      rcases List.mem_append.mp hop with h | h
      · exact hall op h
      · simp at h; exact ⟨g, h⟩

/-- **C10 (RwLock).** Once no future and no guard is alive — whatever was started, polled,
upgraded, downgraded or cancelled before, at whatever point — both words are zero, the three
queues are empty, and `try_write` (hence every other `try_*`) succeeds. In particular a cancelled
upgrade has released the upgradable lock it consumed and a cancelled waiting writer its intent. -/
theorem C10_rwlock (ops : List RwLock.Op) (hf : (RwLock.run {} ops).futs = [])
    (hg : (RwLock.run {} ops).guards = []) :
    (RwLock.run {} ops).state = 0 ∧ (RwLock.run {} ops).m.st = 0 ∧
    (RwLock.run {} ops).m.q = [] ∧ (RwLock.run {} ops).nr = [] ∧ (RwLock.run {} ops).nw = [] ∧
    ∀ g arc, 0 < (RwLock.run {} ops).handles →
      (RwLock.step (RwLock.run {} ops) (.try_ g .write arc)).2 = .some := by
  obtain ⟨hw, hr, _⟩ := RwLock.reachable_all ops
  have h1 := hw.mword
  have h2 := hw.word
  simp only [RwLock.owners, RwLock.ticks, RwLock.nG, RwLock.nPW, RwLock.nPU, hf, hg, List.map_nil,
    List.sum_nil, Nat.add_zero, Nat.mul_zero] at h1 h2
  have e1 : (RwLock.run {} ops).m.q = [] := by
    apply nil_of_no_has; intro g
    cases hh : Ev.has (RwLock.run {} ops).m.q g
    · rfl
    · obtain ⟨fu, hfu, _⟩ := hr.mrev g hh; rw [hf] at hfu; cases hfu
  have e2 : (RwLock.run {} ops).nr = [] := by
    apply nil_of_no_has; intro g
    cases hh : Ev.has (RwLock.run {} ops).nr g
    · rfl
    · obtain ⟨fu, hfu, _⟩ := hr.nrrev g hh; rw [hf] at hfu; cases hfu
  have e3 : (RwLock.run {} ops).nw = [] := by
    apply nil_of_no_has; intro g
    cases hh : Ev.has (RwLock.run {} ops).nw g
    · rfl
    · obtain ⟨fu, hfu, _⟩ := hr.nwrev g hh; rw [hf] at hfu; cases hfu
  refine ⟨h2, h1, e1, e2, e3, ?_⟩
  intro g arc hh
  simp [RwLock.step, RwLock.fresh, RwLock.findFut, RwLock.findGuard, hf, hg, h1, h2, hh]

/-- **C10 (a cancelled upgrade releases what it consumed).** Dropping a pending upgrade future
frees the slot and clears the writer bit in the same step. -/
example :
    let s := RwLock.run {} [.try_ 0 .uread true, .try_ 1 .read false, .upgrade 0 2, .poll 2 8 false]
    s.state = 3 ∧ s.m.st = 1 ∧
    (RwLock.next s (.dropFut 2)).state = 2 ∧ (RwLock.next s (.dropFut 2)).m.st = 0 ∧
    (RwLock.next s (.dropFut 2)).nr = [] ∧ (RwLock.next s (.dropFut 2)).strong = 1 := by decide

/-- Non-vacuity for the drain theorems: histories with cancellations at different moments. -/
example :
    let s := Mutex.run {}
      [.tryLock 0 false, .start 1 false, .start 2 true, .start 3 false, .poll 1 4 false,
       .poll 2 8 false, .dropGuard 0, .tryLock 4 false, .poll 1 4 true, .dropFut 2, .dropGuard 4,
       .dropFut 1, .dropFut 3]
    s.futs = [] ∧ s.guards = [] ∧ s.c.st = 0 ∧ s.c.q = [] := by decide

end ALock
