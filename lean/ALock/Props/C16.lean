import ALock.Markers
import ALock.Generated.Markers

/-!
# C16 — Thread-safety markers and variance of public types are sound

Statement (properties.jsonl): no public lock, guard or future type is Send or Sync for a parameter
type T unless using it from another thread that way is sound: whatever can hand out `&mut T` or
drop `T` on another thread requires `T: Send`, and whatever can let two threads hold `&T` at once
requires `T: Sync` — in particular RwLock write guards and the write/upgrade futures, which can be
downgraded into shared access, require both.  Guards that can give `&mut T` are invariant in `T`
(only the read guards are covariant), borrowed guards and futures cannot outlive their lock, and
`MutexGuardArc::source` requires `T: Send`.

The quantifier is a finite table — (public type, marker trait or subtyping question, kind of `T`) —
and `Gen.facts` is that table as rustc decides it for /repo's working tree, regenerated on every run.
`Sound` (ALock/Markers.lean) is reachability in the capability graph of the public API: the
theorems below hold for *every* row of the table; the kernel evaluates the closed-set check.

Trusted here: rustc's answers are transcribed faithfully by tools/c16.py; the capability table
(`own`, `shr`) accounts for the whole public API (the API inventory is compared on every run);
the bounds of the marker impls mention only Send/Sync (`C16_complete`), which makes the four kinds
of `T` a complete case split.
-/

namespace ALock.Markers
open Gen

/-- every row of rustc's table, checked by the executable closed-set criterion -/
theorem table_sound :
    (Ty.all.all fun x => [Tr.send, Tr.sync].all fun tr => Kind.all.all fun k =>
      !facts.accepted x tr k || soundB facts k x tr) = true := by decide +kernel

/-- **C16 (markers).** If rustc accepts `X<T>: Send` (resp. `Sync`) for a `T` of kind `k`, then
nothing a thread can reach by owning (resp. sharing) an `X<T>` — through guard conversions, future
outputs, `source`, the `Arc` it holds — needs `T: Send` or `T: Sync` unless `T` has it. -/
theorem C16_markers (x : Ty) (tr : Tr) (k : Kind) (h : facts.accepted x tr k = true) :
    Sound facts k x tr := by
  have ht := table_sound
  simp only [List.all_eq_true] at ht
  have := ht x (Ty.mem_all x) tr (by cases tr <;> simp) k (Kind.mem_all k)
  rw [h] at this
  exact sound_of_soundB facts k (by simpa using this)

/-- the model: owning a write guard, or a future that resolves to one, reaches both `&mut T` and
`&T` next to other readers (downgrade) -/
theorem write_reaches_both (F : Facts) (k : Kind) (x : Ty)
    (hx : x ∈ [Ty.RwLockWriteGuard, .RwLockWriteGuardArc, .Write, .WriteArc, .Upgrade, .UpgradeArc,
      .RwLockUpgradableReadGuard, .RwLockUpgradableReadGuardArc, .UpgradableRead, .UpgradableReadArc])
    (h : Sound F k x .send) : k.send = true ∧ k.sync = true := by
  have hw : ∀ y, Reach F k (start x .send) (y, .own) → ({ cap := .excl } : Access) ∈ own y →
      k.send = true := by
    intro y hr he
    have := h _ hr
    simp only [atomsOK, List.all_eq_true, List.mem_filter] at this
    exact this ⟨.excl, none⟩ ⟨he, rfl⟩
  have hs : ∀ y, Reach F k (start x .send) (y, .own) → ({ cap := .shared } : Access) ∈ own y →
      k.sync = true := by
    intro y hr he
    have := h _ hr
    simp only [atomsOK, List.all_eq_true, List.mem_filter] at this
    exact this ⟨.shared, none⟩ ⟨he, rfl⟩
  have st : ∀ {a : Node} {b : Ty} {c : Ty}, Reach F k a (b, .own) →
      ({ cap := .val c } : Access) ∈ own b → Reach F k a (c, .own) := by
    intro a b c hr hm
    refine .step hr ?_
    simp only [succs, accesses, List.mem_flatMap, List.mem_filter]
    exact ⟨⟨.val c, none⟩, ⟨hm, rfl⟩, by simp [Cap.succ]⟩
  simp only [List.mem_cons, List.mem_nil_iff, or_false] at hx
  have r0 : Reach F k (start x .send) (x, .own) := .refl _
  rcases hx with rfl | rfl | rfl | rfl | rfl | rfl | rfl | rfl | rfl | rfl
  · exact ⟨hw _ r0 (by decide), hs _ (st r0 (c := .RwLockReadGuard) (by decide)) (by decide)⟩
  · exact ⟨hw _ r0 (by decide), hs _ (st r0 (c := .RwLockReadGuardArc) (by decide)) (by decide)⟩
  · have r1 := st r0 (c := .RwLockWriteGuard) (by decide)
    exact ⟨hw _ r1 (by decide), hs _ (st r1 (c := .RwLockReadGuard) (by decide)) (by decide)⟩
  · have r1 := st r0 (c := .RwLockWriteGuardArc) (by decide)
    exact ⟨hw _ r1 (by decide), hs _ (st r1 (c := .RwLockReadGuardArc) (by decide)) (by decide)⟩
  · have r1 := st r0 (c := .RwLockWriteGuard) (by decide)
    exact ⟨hw _ r1 (by decide), hs _ (st r1 (c := .RwLockReadGuard) (by decide)) (by decide)⟩
  · have r1 := st r0 (c := .RwLockWriteGuardArc) (by decide)
    exact ⟨hw _ r1 (by decide), hs _ (st r1 (c := .RwLockReadGuardArc) (by decide)) (by decide)⟩
  · exact ⟨hw _ (st r0 (c := .RwLockWriteGuard) (by decide)) (by decide), hs _ r0 (by decide)⟩
  · exact ⟨hw _ (st r0 (c := .RwLockWriteGuardArc) (by decide)) (by decide), hs _ r0 (by decide)⟩
  · have r1 := st r0 (c := .RwLockUpgradableReadGuard) (by decide)
    exact ⟨hw _ (st r1 (c := .RwLockWriteGuard) (by decide)) (by decide), hs _ r1 (by decide)⟩
  · have r1 := st r0 (c := .RwLockUpgradableReadGuardArc) (by decide)
    exact ⟨hw _ (st r1 (c := .RwLockWriteGuardArc) (by decide)) (by decide), hs _ r1 (by decide)⟩

/-- **C16 (write side needs both).** RwLock write and upgradable guards and the write / upgrade /
upgradable-read futures are `Send` only for `T: Send + Sync`. -/
theorem C16_write_needs_both (x : Ty) (k : Kind)
    (hx : x ∈ [Ty.RwLockWriteGuard, .RwLockWriteGuardArc, .Write, .WriteArc, .Upgrade, .UpgradeArc,
      .RwLockUpgradableReadGuard, .RwLockUpgradableReadGuardArc, .UpgradableRead, .UpgradableReadArc])
    (h : facts.accepted x .send k = true) : k.send = true ∧ k.sync = true :=
  write_reaches_both facts k x hx (C16_markers x .send k h)

/-- the model: a shared `&MutexGuard<T>` / `&MutexGuardArc<T>` whose `source` is callable leads to
a mutex shared between threads, hence to `&mut T` on the other thread -/
theorem source_reaches_excl (F : Facts) (k : Kind) :
    (F.callable .mutexGuardSource k = true → Sound F k .MutexGuard .sync → k.send = true) ∧
    (F.callable .mutexGuardArcSource k = true → Sound F k .MutexGuardArc .sync → k.send = true) := by
  have fin : ∀ a : Node, Reach F k a (.Mutex, .shr) → (∀ n, Reach F k a n → atomsOK F k n = true) →
      k.send = true := by
    intro a hr h
    have r1 : Reach F k a (.MutexGuard, .own) := by
      refine .step hr ?_
      simp only [succs, accesses, shr, List.mem_flatMap, List.mem_filter]
      exact ⟨⟨.val .MutexGuard, none⟩, ⟨by simp, rfl⟩, by simp [Cap.succ]⟩
    have := h _ r1
    simp only [atomsOK, List.all_eq_true, List.mem_filter] at this
    exact this ⟨.excl, none⟩ ⟨by simp [accesses, own], rfl⟩
  constructor
  · intro hc h
    refine fin _ (.step (.refl _) ?_) h
    simp only [succs, start, accesses, shr, List.mem_flatMap, List.mem_filter]
    exact ⟨⟨.ref .Mutex, some .mutexGuardSource⟩, ⟨by simp, by simp [open_, hc]⟩, by simp [Cap.succ]⟩
  · intro hc h
    refine fin _ (.step (.refl _) ?_) h
    simp only [succs, start, accesses, shr, List.mem_flatMap, List.mem_filter]
    exact ⟨⟨.arc .Mutex, some .mutexGuardArcSource⟩, ⟨by simp, by simp [open_, hc]⟩, by simp [Cap.succ]⟩

/-- **C16 (`source`).** Wherever the guard is `Sync`, `MutexGuardArc::source` (and
`MutexGuard::source`, which has the same effect through `&Mutex<T>`) is callable only for `T: Send`. -/
theorem C16_source (k : Kind) :
    (facts.accepted .MutexGuardArc .sync k = true → facts.callable .mutexGuardArcSource k = true →
      k.send = true) ∧
    (facts.accepted .MutexGuard .sync k = true → facts.callable .mutexGuardSource k = true →
      k.send = true) :=
  ⟨fun ha hc => (source_reaches_excl facts k).2 hc (C16_markers _ _ _ ha),
   fun ha hc => (source_reaches_excl facts k).1 hc (C16_markers _ _ _ ha)⟩

/-- every type rustc treats as covariant in `T`, checked on a closed set of conversions -/
theorem variance_table : (Ty.all.all fun x => !facts.covariant x || noMutB x) = true := by
  decide +kernel

/-- **C16 (variance).** A type that is covariant in `T` never leads — through any chain of guard
conversions and future outputs — to `&mut T`: guards that can give `&mut T` are invariant. -/
theorem C16_variance (x : Ty) (h : facts.covariant x = true) : ¬ CanMut x := by
  have ht := variance_table
  simp only [List.all_eq_true] at ht
  have := ht x (Ty.mem_all x)
  rw [h] at this
  exact not_canMut_of_noMutB (by simpa using this)

/-- **C16 (lifetimes).** rustc rejects every program in which a borrowed guard or future outlives
its lock; all borrowed guards and futures of the crate are probed. -/
theorem C16_lifetimes :
    facts.outlives = [] ∧
    ∀ n ∈ ["MutexGuard", "Lock", "RwLockReadGuard", "RwLockUpgradableReadGuard", "RwLockWriteGuard",
           "Read", "UpgradableRead", "Write", "Upgrade", "ReadArc", "UpgradableReadArc", "WriteArc",
           "SemaphoreGuard", "Acquire", "BarrierWait", "OnceCell_get", "OnceCell_wait",
           "OnceCell_get_or_init", "OnceCell_set", "MutexGuard_source"], n ∈ facts.borrowed := by
  decide

/-- **C16 (the case split is complete and the probes are valid).** Every `unsafe impl Send/Sync`
header mentions only `Send`, `Sync` and `?Sized`; every negative probe has a compiling control and
fails for the expected reason. -/
theorem C16_complete : facts.foreignBounds = [] ∧ facts.broken = [] := by decide

/-! ### Non-vacuity: the table is not empty and the model does demand things -/

example : facts.accepted .RwLockWriteGuard .send ⟨true, true⟩ = true ∧
    facts.accepted .RwLockWriteGuard .send ⟨true, false⟩ = false ∧
    facts.accepted .RwLockReadGuard .send ⟨false, true⟩ = true := by decide

example : canMutB .Upgrade = true ∧ canMutB .RwLockUpgradableReadGuard = true ∧
    canMutB .RwLockReadGuard = false ∧ facts.covariant .RwLockReadGuard = true := by decide

/-- a marker the model rejects: were `RwLockReadGuardArc` `Send` for `T: Sync` only … -/
example : soundB facts ⟨false, true⟩ .RwLockReadGuardArc .send = false := by decide

end ALock.Markers
