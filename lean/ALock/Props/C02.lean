import ALock.Lemmas.RwLockWord
import ALock.Lemmas.AtomicRwLock
import ALock.Lemmas.AtomicRwLockHB
import ALock.Lemmas.AtomTraceRw
import ALock.Lemmas.Accept
import ALock.Props.C01

/-!
# C02 — RwLock: many readers xor one writer, at most one upgradable reader

Statement (properties.jsonl): for any RwLock, at every instant either at most one write guard is
alive and no other guard is, or any number of read guards plus at most one upgradable-read guard
are alive; this holds across every way of obtaining a guard (read, upgradable_read, write, try_*,
blocking, Arc forms, upgrade, try_upgrade and the three downgrades). (...happens-before clause...)

Proved here for **every** finite history of the poll-granular model `ALock.RwLock` over the full
alphabet: start/poll/cancel of the four future kinds (borrowed and Arc), `try_*`, `upgrade`,
`try_upgrade`, the three downgrades, guard drops — in any order, any number of futures and guards.
The invariant is `WordInv` (`Lemmas/RwLock.lean`): both words are *exactly* determined by who holds
what:  `mutex.state = (W + U + PW + PU) + 2·starved`,  `state = (W + PW + PU) + 2·(R + U)`,
`W + U + PW + PU ≤ 1`, and a write guard is alone.

Part 2 (`ALock.Atomic.RwLock`) proves the exclusion clause for **every interleaving of the atomic
operations** of `src/rwlock/raw.rs` on `RawRwLock::state` (and acquisitions / releases of the inner
mutex) by any number of threads, including the states *inside* an operation.  It is tied to the code
by the site table extracted from /repo's sources on every run (`C02_shape_ok`).

The happens-before clause is `C02_hb` (`Atomic/RwLockHB.lean`): the agents of that model decorated
with release/acquire views; which operations acquire and which release is read from the site table
(`C02_ord_ok`).  Every critical section under a write guard happens-before every later access
(shared or exclusive), and every critical section under shared access happens-before every later
write guard.  The inner mutex is not used for synchronisation in that model (it could only add
edges).
-/

namespace ALock.RwLock

/-- **C02 (exclusion).** At most one write guard, and then no other guard; at most one upgradable
guard. -/
theorem C02_exclusion (ops : List Op) :
    let s := run {} ops
    nG s .write ≤ 1 ∧ (nG s .write = 1 → nG s .read = 0 ∧ nG s .uread = 0) ∧ nG s .uread ≤ 1 := by
  intro s
  simp only [s]
  have inv := reachable_word ops
  have hs := inv.slot
  have ha := inv.alone
  simp only [owners] at hs
  refine ⟨by omega, ?_, by omega⟩
  intro h1
  have := ha (by omega)
  omega

/-- **C02 (state word).** The lock word is exactly writer-bit + 2·readers, where the bit is owed by
a write guard, a writer waiting for readers or a pending upgrade, and the readers are the read and
upgradable guards alive. -/
theorem C02_word (ops : List Op) :
    let s := run {} ops
    s.state = nG s .write + nPW s + nPU s + 2 * (nG s .read + nG s .uread) :=
  (reachable_word ops).word

/-- **C02 (a write guard is only granted to a lock without readers; a reader only without a
writer).** If an operation hands out a guard, the guards alive afterwards still satisfy the
exclusion — this is just `C02_exclusion` one step later, stated for emphasis on *every* way of
obtaining a guard (the operation is arbitrary). -/
theorem C02_every_grant (ops : List Op) (op : Op) :
    let s := next (run {} ops) op
    nG s .write ≤ 1 ∧ (nG s .write = 1 → nG s .read = 0 ∧ nG s .uread = 0) ∧ nG s .uread ≤ 1 := by
  have := C02_exclusion (ops ++ [op])
  simpa [run, List.foldl_append] using this

/-- Non-vacuity: readers and an upgradable reader coexist; the upgrade waits for the reader and
then holds alone; downgrading re-admits readers. -/
example :
    let s := run {}
      [.try_ 0 .read false, .try_ 1 .uread true, .start 2 .read false, .poll 2 8 false,
       .upgrade 1 3, .poll 3 12 false, .start 4 .read false, .poll 4 16 false,
       .dropGuard 0, .dropGuard 2, .poll 3 12 false]
    nG s .write = 1 ∧ nG s .read = 0 ∧ nG s .uread = 0 ∧ s.state = 1 ∧ s.m.st = 1 := by decide

example :
    let s := run {}
      [.try_ 0 .write false, .conv 0 .toUpgradable, .try_ 1 .read false, .try_ 2 .read true,
       .conv 0 .downgrade]
    nG s .write = 0 ∧ nG s .read = 3 ∧ nG s .uread = 0 ∧ s.state = 6 ∧ s.m.st = 0 := by decide

end ALock.RwLock

/-! ## Part 2 — every interleaving of the atomic operations -/

namespace ALock.Atomic.RwLock

/-- the model's steps are the operations the code performs on `RawRwLock::state` and the inner
mutex, function by function, in source order (generated table) -/
theorem C02_shape_ok : sites.map Site.shape = expectedShapes := by decide

def upgradables (l : List Pc) : Nat := (l.map fun p => if p = .u then 1 else 0).sum

/-- **C02 (exclusion under every interleaving).** After any sequence of atomic steps by any number
of agents: at most one write guard; while one exists nobody has shared access (no read guard, no
upgradable guard, no write guard in the middle of being downgraded); at most one upgradable guard. -/
theorem C02_interleaved (l : List Step) :
    writers (run {} l).ags ≤ 1 ∧
    (1 ≤ writers (run {} l).ags → readers (run {} l).ags = 0) ∧
    upgradables (run {} l).ags ≤ 1 := by
  have h := run_inv {} l init_inv
  have h1 := sum_le_of_pointwise (run {} l).ags Pc.wr Pc.bt wr_le_bt
  have h2 := sum_le_of_pointwise (run {} l).ags Pc.bt Pc.mh bt_le_mh
  have h3 := sum_le_of_pointwise (run {} l).ags (fun p => if p = .u then 1 else 0) Pc.mh
    (by intro p; cases p <;> simp [Pc.mh])
  have := h.mex
  refine ⟨?_, h.alone, ?_⟩ <;> simp only [writers, bits, mholders, upgradables] at * <;> omega

/-- the word says who is inside: writer bit + 2 · readers, at every interleaving point -/
theorem C02_interleaved_word (l : List Step) :
    (run {} l).state = bits (run {} l).ags + 2 * readers (run {} l).ags :=
  (run_inv {} l init_inv).word

/-- the orderings at the ten synchronising sites of `src/rwlock/raw.rs` are at least Acquire /
Release (generated table) -/
theorem C02_ord_ok : ords.ok := by unfold Ords.ok; decide

/-- **C02 (happens-before).** Under every interleaving: whoever has access — a read guard, an
upgradable guard, a write guard (also one that is being downgraded) — has every critical section
completed under a write guard in its view; a write guard moreover has every critical section
completed under shared access in its view.  So everything done under a write guard happens-before
everything done under any later guard, and everything done under a read guard happens-before
everything done under a later write guard. -/
theorem C02_hb (l : List StepV) :
    ∀ a ∈ (runV ords {} l).ags, (a.pc.sh = 1 ∨ a.pc = .w) →
      (∀ k ∈ (runV ords {} l).doneW, k ∈ a.view) ∧
      (a.pc = .w → ∀ k ∈ (runV ords {} l).doneR, k ∈ a.view) := by
  have h := (runV_vi ords C02_ord_ok {} l init_inv init_vi).2
  intro a ha hacc
  refine ⟨h.A a ha ?_, fun hw => h.B a ha hw⟩
  rcases hacc with h1 | h1
  · exact Or.inl h1
  · rw [h1]; exact acc_w

/-- non-vacuity: a write section, the writer downgrades and reads, a second reader, both leave,
a second writer (through `write().await`: fetch_or, then the check) — it has all three sections -/
example :
    let s := runV ords {} [.op .spawn, .op .spawn, .op .spawn,
      .op (.mLock 0), .op (.wCas0 0), .wcrit 0, .op (.dgW1 0), .op (.rLoad 1), .op (.rCas 1),
      .rcrit 1, .op (.dgW2 0), .rcrit 0, .op (.mLock 2), .op (.wFetchOr 2), .op (.rUnlock 0),
      .op (.wCheck 2), .op (.rUnlock 1), .op (.wCheck 2), .wcrit 2]
    s.doneW = [3, 0] ∧ s.doneR = [2, 1] ∧ (s.ags.map (·.view)).getLast? = some [3, 0, 0, 2, 0, 1, 0] := by
  decide

/-- with a relaxed `read_unlock` the writer does not see the read section: the model distinguishes -/
example :
    let o : Ords := { ords with relReadUnlock := false }
    let s := runV o {} [.op .spawn, .op .spawn, .op (.rLoad 0), .op (.rCas 0), .rcrit 0,
      .op (.rUnlock 0), .op (.mLock 1), .op (.wCas0 1)]
    s.doneR = [0] ∧ (s.ags.map (·.view)) = [[0], []] := by decide

/-- non-vacuity: a reader races with a writer that waits for it; an upgradable reader upgrades;
the write guard is downgraded step by step -/
example :
    let s := run {} [.spawn, .spawn, .spawn, .rLoad 0, .mLock 1, .rCas 0, .wFetchOr 1, .wCheck 1,
      .rLoad 2, .rUnlock 0, .wCheck 1, .dgW1 1, .rLoad 2, .dgW2 1, .rCas 2, .mLock 0, .uLoad 0, .uCas 0,
      .upgrade 0]
    s.ags = [.pu, .r, .r] ∧ s.state = 5 := by decide

end ALock.Atomic.RwLock

namespace ALock.RwLock

/-- **C02 (the word arithmetic of the model is what the recorded atomic operations compute).**
`stepAtoms s op` is the list of atomic operations on the two words of a `RawRwLock` (`w = 0`:
`state`, `w = 1`: the inner mutex) that the differential check compares with what the real crate
executed.  For every state and operation, on each word: replaying the list is consistent and ends
in the model's new value of that word. -/
theorem C02_step_atoms (s : Sys) (op : Op) :
    Atom.wordOK 0 s.state (next s op).state (stepAtoms s op) ∧
    Atom.wordOK 1 s.m.st (next s op).m.st (stepAtoms s op) :=
  step_atoms_words s op

/-- the same for every history -/
theorem C02_run_atoms (ops : List Op) :
    Atom.wordOK 0 0 (run {} ops).state (runAtoms {} ops) ∧
    Atom.wordOK 1 0 (run {} ops).m.st (runAtoms {} ops) :=
  run_atoms_words {} ops

/-- non-vacuity: a read lock, a refused `try_write` (which takes and releases the inner mutex), the
read unlock -/
example :
    runAtoms {} [.try_ 1 .read false, .try_ 2 .write false, .dropGuard 1] =
      [ld "Acquire" 0, casR 0 0] ++ (onW 1 [cas01 0] ++ [cas0W 2] ++ onW 1 [fsub1 1]) ++ [fsubR 2 2] := by
  decide

end ALock.RwLock

namespace ALock.Accept.RwLock
open ALock.Atomic.RwLock

/-- **C02 (executions of the real crate with injected preemptions).** An accepted trace is a run of
the atomic-granularity RwLock model (and, on the inner mutex's word, of the Mutex model): at its
end at most one agent has write access and then nobody has read access, and at most one agent
holds an upgradable guard; the inner mutex has at most one holder. -/
theorem C02_accepted (n : Nat) (tr : List TEv) (st' : St)
    (h : acceptAll (init n) tr = .ok st') :
    writers st'.sys.ags ≤ 1 ∧ (1 ≤ writers st'.sys.ags → readers st'.sys.ags = 0) ∧
    upgradables st'.sys.ags ≤ 1 ∧ ALock.Atomic.Mutex.holders st'.mx ≤ 1 := by
  obtain ⟨⟨l, e⟩, ⟨m, f⟩⟩ := accepted_reachable h
  rw [e, f]
  obtain ⟨a, b, c⟩ := ALock.Atomic.RwLock.C02_interleaved l
  exact ⟨a, b, c, (ALock.Atomic.Mutex.C01_interleaved _ m).1⟩

end ALock.Accept.RwLock
