import ALock.Lemmas.Sem
import ALock.Atomic.Sem
import ALock.Lemmas.AtomTraceSem
import ALock.Lemmas.Accept

/-!
# C03 — Semaphore: never over-issues permits and conserves them

Statement (properties.jsonl): the number of outstanding permits (guards alive plus guards
forgotten) never exceeds the initial count plus everything added with `add_permits`;
`try_acquire` returns a guard exactly when a permit is available at that moment. Dropping a
guard returns exactly one permit, `forget` returns none, and `add_permits(n)` adds exactly `n`.

The theorems quantify over **every** initial count and **every** finite operation sequence
(`List Op`: any length, any number of futures and guards, cancellation at any point, borrowed and
Arc flavours) of the poll-granular model `ALock.Sem`; nothing is bounded.  `usize` wrap-around of
`count` is outside the model (`Nat`): the tie to the code holds for histories with
`init + added < 2^64`.

Part 2 (`ALock.Atomic.Sem`) proves conservation and no-over-issue for **every interleaving of the
atomic operations** on `Semaphore::count` by any number of threads (one step = one `load`, one
`compare_exchange_weak` — spurious failure included — or one `fetch_add`).  That model is tied to the
code by the site table extracted from /repo's sources on every run (`C03_shape_ok`): the operations
on the counter, with their operands, in source order, are the ones the model has steps for.
-/

set_option linter.unusedSimpArgs false
set_option linter.unusedVariables false

namespace ALock.Sem

/-- One step preserves conservation. -/
theorem step_conserved (s : Sys) (op : Op) (h : Conserved s) : Conserved (next s op) := by
  unfold next
  cases op with
  | start f arc =>
    simp only [step]; split
    · simpa [Conserved] using h
    · exact h
  | poll f t =>
    simp only [step]
    split
    · rename_i fu hfu
      split
      · exact h
      · simp only [poll]
        split
        · rename_i hc
          simp only [Conserved, Sys.dropListener, List.length_cons] at h ⊢ hc
          omega
        · split
          · split <;> simpa [Conserved] using h
          · simpa [Conserved] using h
    · exact h
  | dropFut f =>
    simp only [step]; split
    · simpa [Conserved, Sys.dropListener] using h
    · exact h
  | tryAcq g arc =>
    simp only [step]; split
    · split
      · rename_i hc
        simp only [Conserved, List.length_cons] at h ⊢
        omega
      · exact h
    · exact h
  | dropGuard g =>
    simp only [step]; split
    · rename_i gu hgu
      have := eraseP_guard_length hgu
      simp only [Conserved, Sys.doNotify] at h ⊢
      omega
    · exact h
  | forget g =>
    simp only [step]; split
    · rename_i gu hgu
      have := eraseP_guard_length hgu
      simp only [Conserved] at h ⊢
      omega
    · exact h
  | add n =>
    simp only [step, Conserved, Sys.doNotify] at h ⊢
    omega
  | hclone => simpa [step, Conserved] using h
  | hdrop =>
    simp only [step]; split
    · simpa [Conserved] using h
    · exact h

theorem run_conserved (s : Sys) (ops : List Op) (h : Conserved s) : Conserved (run s ops) := by
  induction ops generalizing s with
  | nil => exact h
  | cons op ops ih => exact ih _ (step_conserved s op h)

/-- **C03 (conservation).** After any history from `Semaphore::new(n)`:
available + alive + forgotten = initial + added. -/
theorem C03_conservation (n : Nat) (ops : List Op) :
    let s := run (Sys.new n) ops
    s.count + s.guards.length + s.forgotten = s.init + s.added :=
  run_conserved _ ops (by simp [Conserved, Sys.new])

/-- **C03 (no over-issue).** Outstanding permits never exceed initial + added. -/
theorem C03_no_overissue (n : Nat) (ops : List Op) :
    let s := run (Sys.new n) ops
    s.guards.length + s.forgotten ≤ n + s.added := by
  intro s
  have h := C03_conservation n ops
  have hi : s.init = n := by
    have : ∀ (s0 : Sys) (ops : List Op), (run s0 ops).init = s0.init := by
      intro s0 ops
      induction ops generalizing s0 with
      | nil => rfl
      | cons op ops ih =>
        simp only [run, List.foldl_cons] at ih ⊢
        rw [ih]
        unfold next
        cases op <;> simp only [step] <;> (repeat' split) <;>
          simp [poll, Sys.dropListener, Sys.doNotify] <;> (repeat' split) <;> simp
    exact this _ _
  simp only [s] at h hi ⊢
  omega

/-- **C03 (try_acquire is exact).** In any state, `try_acquire` / `try_acquire_arc` with a fresh
guard id returns a guard iff a permit is available at that moment; on success it takes exactly
one permit, on failure it changes nothing. -/
theorem C03_try_exact (s : Sys) (g : Nat) (arc : Bool) (hf : fresh s g = true) :
    ((step s (.tryAcq g arc)).2 = .some ↔ 0 < s.count) ∧
    ((step s (.tryAcq g arc)).2 = .none ↔ s.count = 0) ∧
    ((step s (.tryAcq g arc)).2 = .some →
        (next s (.tryAcq g arc)).count + 1 = s.count ∧
        (next s (.tryAcq g arc)).guards.length = s.guards.length + 1) ∧
    ((step s (.tryAcq g arc)).2 = .none → next s (.tryAcq g arc) = s) := by
  simp only [next, step, hf, if_true]
  by_cases hc : 0 < s.count
  · simp [hc]; omega
  · simp [hc]; omega

/-- **C03 (guard drop returns exactly one permit).** -/
theorem C03_drop_one (s : Sys) (g : Nat) (gu : Guard) (h : findGuard s g = some gu) :
    (next s (.dropGuard g)).count = s.count + 1 ∧
    (next s (.dropGuard g)).guards.length + 1 = s.guards.length := by
  refine ⟨by simp [next, step, h, Sys.doNotify], ?_⟩
  simpa [next, step, h, Sys.doNotify] using eraseP_guard_length h

/-- **C03 (forget returns none).** -/
theorem C03_forget_none (s : Sys) (g : Nat) (gu : Guard) (h : findGuard s g = some gu) :
    (next s (.forget g)).count = s.count ∧
    (next s (.forget g)).forgotten = s.forgotten + 1 ∧
    (next s (.forget g)).guards.length + 1 = s.guards.length := by
  refine ⟨by simp [next, step, h], by simp [next, step, h], ?_⟩
  simpa [next, step, h] using eraseP_guard_length h

/-- **C03 (add_permits adds exactly n).** -/
theorem C03_add_exact (s : Sys) (n : Nat) :
    (next s (.add n)).count = s.count + n ∧ (next s (.add n)).guards = s.guards := by
  simp [next, step, Sys.doNotify]

/-- Non-vacuity: a concrete history that exercises acquire, cancel, forget, add and drop. -/
example :
    let s := run (Sys.new 1)
      [.tryAcq 1 false, .start 2 true, .poll 2 7, .add 2, .poll 2 7, .forget 1, .start 3 false,
       .poll 3 8, .dropFut 3, .dropGuard 2]
    s.count = 1 ∧ s.guards.length = 1 ∧ s.forgotten = 1 ∧ s.added = 2 := by decide

end ALock.Sem

/-! ## Part 2 — every interleaving of the atomic operations -/

namespace ALock.Atomic.Sem

/-- the model's steps are the operations the code performs on `Semaphore::count` -/
theorem C03_shape_ok : sites.map Site.shape = expectedShapes := by decide

/-- **C03 (conservation under every interleaving).** For every initial count and every sequence of
atomic steps by any number of agents — loads, (weak) CASes of racing `try_acquire`s, concurrent
`add_permits`, guard drops and `forget`s — permits are neither lost nor invented. -/
theorem C03_interleaved_conservation (n : Nat) (l : List Step) :
    (run (Sys.new n) l).count + issued (run (Sys.new n) l) + (run (Sys.new n) l).forgotten
      = n + (run (Sys.new n) l).added := by
  have h := run_conserved (Sys.new n) l (by simp [Conserved, Sys.new, issued])
  have hi : (run (Sys.new n) l).init = n := by
    have : ∀ (s : Sys) (st : Step), (step s st).init = s.init := by
      intro s st
      cases st <;> simp only [step] <;> (repeat' split) <;> rfl
    have hr : ∀ (l : List Step) (s : Sys), (run s l).init = s.init := by
      intro l
      induction l with
      | nil => intro s; rfl
      | cons x t ih => intro s; simp only [run, List.foldl_cons] at ih ⊢; rw [ih, this]
    rw [hr]; rfl
  simp only [Conserved] at h
  omega

/-- **C03 (no over-issue under every interleaving).** -/
theorem C03_interleaved_no_overissue (n : Nat) (l : List Step) :
    issued (run (Sys.new n) l) + (run (Sys.new n) l).forgotten ≤ n + (run (Sys.new n) l).added := by
  have := C03_interleaved_conservation n l
  omega

/-- non-vacuity: two racing `try_acquire`s on one permit — one CAS fails, re-reads 0 and gives up —
while a third agent adds a permit concurrently -/
example :
    let s := run (Sys.new 1) [.spawn, .spawn, .load 0, .load 1, .cas 0 false, .cas 1 false,
      .add 1, .giveUp 1, .load 1, .cas 1 true, .cas 1 false, .release 0]
    s.count = 1 ∧ s.ags.map (·.held) = [0, 1] ∧ s.added = 1 := by decide

end ALock.Atomic.Sem

namespace ALock.Sem

/-- **C03 (the count arithmetic of the model is what the recorded atomic operations compute).**
`stepAtoms s op` is the list of atomic operations on `Semaphore::count` that the differential check
compares, operation by operation, with what the real crate executed (atomic-operation log).  For
every state and every operation: replaying that list on the old count is consistent — each
operation sees the value its predecessor left and a CAS succeeds exactly when the word holds its
expected value — and ends in the model's new count. -/
theorem C03_step_atoms (s : Sys) (op : Op) :
    Atom.consistent s.count (stepAtoms s op) = true ∧
    Atom.run s.count (stepAtoms s op) = (next s op).count :=
  step_atoms_word s op

/-- the same for every history (and so for the harness's `settle`, which is a history) -/
theorem C03_run_atoms (n : Nat) (ops : List Op) :
    Atom.consistent n (runAtoms (Sys.new n) ops) = true ∧
    Atom.run n (runAtoms (Sys.new n) ops) = (run (Sys.new n) ops).count :=
  run_atoms_word (Sys.new n) ops

/-- non-vacuity: a history with a failed and a successful acquisition and a release -/
example :
    runAtoms (Sys.new 1) [.tryAcq 1 false, .tryAcq 2 false, .dropGuard 1] =
      [loadA 1, caswA 1, loadA 0, faddA 1 0] := by decide

end ALock.Sem

namespace ALock.Accept.Sem
open ALock.Atomic.Sem

/-- **C03 (executions of the real crate with injected preemptions).** An accepted trace is a run of
the atomic-granularity model, so permits are conserved at its end. -/
theorem C03_accepted (n p : Nat) (tr : List TEv) (st' : St)
    (h : acceptAll (init n p) tr = .ok st') :
    st'.sys.count + issued st'.sys + st'.sys.forgotten = p + st'.sys.added := by
  obtain ⟨l, e⟩ := accepted_reachable h
  rw [e]
  exact C03_interleaved_conservation p l

end ALock.Accept.Sem
