import ALock.Lemmas.OnceCell
import ALock.Lemmas.OnceCellSer
import ALock.Atomic.OnceCell
import ALock.Lemmas.Accept

/-!
# C04 — OnceCell: initialised at most once, and only a complete value is ever visible

Statement (properties.jsonl): a OnceCell goes from empty to initialised at most once (until
take/into_inner through &mut self); at most one initialiser closure/future runs at any time and
none is started once the cell is initialised. Every get, wait, get_or_init, get_or_try_init or
set (async or blocking), on any thread, either reports the cell empty or yields a reference to
the one value produced by the single successful initialiser, fully written; set hands its
argument back exactly when it was not the one that initialised the cell. The stored value is
dropped exactly once — by the cell's own drop or by whoever removes it with take/into_inner,
after which the cell is empty and can be initialised again.

Proved on the poll-granular model for **every** history (any number of callers of the four kinds;
initialisers completing `ok`, failing `err`, panicking or cancelled at any await point, in any
order; `take` between epochs):

* `C04_single_runner` — at most one initialiser runs at any time, none while initialised, and the
  cell is in state 1 exactly while one runs;
* `C04_value_stable` — once a value is stored it stays the same value until `take`/drop: the
  cell is initialised at most once per epoch;
* `C04_reads` — whatever a completed `wait`/`get_or_init`/`get_or_try_init`/`set`/`get` reports is
  the stored value;
* `C04_set_back_iff` — `set` hands its argument back exactly when its own closure did not run;
* `C04_take` — `take` empties the cell and a new epoch can begin;
* `C04_accounting`, `C04_dropped_once` — every payload instance ever created (an initialiser's
  result, a `set` argument) is at every moment in exactly one place: in the cell, still owned by
  its `set` future, or in the drop log — once; when the cell and all futures are gone, every
  instance has been dropped exactly once.

"Fully written" is Part 2 (`ALock.Atomic.Once`): one step = one atomic operation on
`OnceCell::state` or the plain `ptr::write` of the value, any number of threads, any interleaving,
release/acquire views.  `C04_interleaved_single` — at most one agent holds the initialisation guard,
under every interleaving; `C04_publication` — whoever reads `state == Initialized` has the write of
the stored value in its view (it happens-before every read of the value), given that the store is
at least `Release` and the loads at least `Acquire`, which `C04_ord_ok` reads off the site table
extracted from /repo's sources on every run.  The blocking forms are not in these models.
-/

namespace ALock.Once

/-- **C04 (at most one initialiser runs; none once initialised).** -/
theorem C04_single_runner (ops : List Op) :
    nRun (run {} ops) ≤ 1 ∧ ((run {} ops).state = 2 → nRun (run {} ops) = 0) ∧
    ((run {} ops).state = 1 ↔ nRun (run {} ops) = 1) := by
  have h := (reachable_all ops).1.run1
  refine ⟨?_, ?_, ?_⟩
  · split at h <;> omega
  · intro h2; simp [h2] at h; exact h
  · constructor
    · intro h1; simp [h1] at h; exact h
    · intro h1; by_cases hs : (run {} ops).state = 1
      · exact hs
      · simp [hs] at h; omega

/-- a value is visible exactly in state 2 -/
theorem C04_visible_iff (ops : List Op) :
    (run {} ops).state = 2 ↔ (run {} ops).value.isSome = true := (reachable_all ops).1.val

theorem pollInit_value_state2 (s : Sys) (fu : Fut) (t : Nat) (i : Input) (h2 : s.state = 2)
    (hnr : fu.pc ≠ .running) : (pollInit s fu t i).s.value = s.value := by
  unfold pollInit
  cases hpc : fu.pc <;> simp only [] <;> (try exact absurd hpc hnr) <;> (repeat' split) <;> simp_all

theorem dropFutS_value (s : Sys) (fu : Fut) : (dropFutS s fu).value = s.value := by
  unfold dropFutS
  cases fu.kind <;> cases fu.pc <;> rfl

/-- **C04 (initialised at most once per epoch).** Once a value is stored, every operation other
than `take` and the cell's own drop leaves exactly that value in place: no second initialiser can
overwrite it. -/
theorem C04_value_stable (ops : List Op) (v : Val) (hv : (run {} ops).value = some v) (op : Op) :
    (next (run {} ops) op).value = some v ∨ op = .take ∨ op = .dropCell := by
  obtain ⟨hw, _, _⟩ := reachable_all ops
  have h2 : (run {} ops).state = 2 := hw.val.mpr (by simp [hv])
  cases op with
  | start f k =>
    left; simp only [next, step]; split
    · split <;> exact hv
    · exact hv
  | poll f t i =>
    left
    simp only [next, step]
    cases hf : findFut (run {} ops) f with
    | none => exact hv
    | some fu =>
      simp only []
      split
      · exact hv
      · obtain ⟨hm, _⟩ := findFut_mem hf
        by_cases hkw : fu.kind = .wait
        · simp only [hkw, if_true]
          rw [(pollWait_word _ fu t).2.2.2.1]; exact hv
        · simp only [hkw, if_false]
          have hnr : fu.pc ≠ .running := fun hc => by have := running_state hw hm hc; omega
          have := pollInit_value_state2 { (run {} ops) with woken := (run {} ops).woken.filter (· != f) }
            fu t i h2 hnr
          rw [this]; exact hv
  | dropFut f =>
    left
    simp only [next, step]
    split
    · simp only [dropFutS_value]; exact hv
    · exact hv
  | get => left; simp only [next, step]; (repeat' split) <;> exact hv
  | take => right; left; rfl
  | dropCell => right; right; rfl

/-- the `set` argument carried by a caller was produced by that caller -/
def ArgBy (s : Sys) : Prop := ∀ fu ∈ s.futs, ∀ w, fu.arg = some w → w.by_ = fu.id

theorem step_argby (s : Sys) (op : Op) (h : ArgBy s) : ArgBy (next s op) := by
  unfold next
  cases op with
  | start f k =>
    simp only [step]; split
    · split
      · intro fu hfu w hw
        rcases List.mem_cons.mp hfu with rfl | hfu
        · simp at hw; rw [← hw]
        · exact h fu hfu w hw
      · intro fu hfu w hw
        rcases List.mem_cons.mp hfu with rfl | hfu
        · simp at hw
        · exact h fu hfu w hw
    · exact h
  | poll f t i =>
    simp only [step]
    split
    · rename_i fu0 hfu0
      split
      · exact h
      · have hfuts : ∀ r : PRes, r.s.futs = s.futs →
            ∀ fu ∈ setFut r.s.futs f (upd r.pc t), ∀ w, fu.arg = some w → w.by_ = fu.id := by
          intro r hr fu hfu w hw
          rw [hr] at hfu
          obtain ⟨y, hy, rfl⟩ := mem_map_update.mp hfu
          by_cases hyf : (y.id == f) = true
          · simp only [hyf, if_true, upd] at hw ⊢
            split at hw
            · cases hw
            · exact h y hy w hw
          · simp only [hyf, Bool.false_eq_true, if_false] at hw ⊢
            exact h y hy w hw
        by_cases hkw : fu0.kind = .wait
        · simp only [hkw, if_true]
          exact hfuts _ (pollWait_word _ fu0 t).1
        · simp only [hkw, if_false]
          have : (pollInit { s with woken := s.woken.filter (· != f) } fu0 t i).s.futs = s.futs := by
            unfold pollInit runInit
            cases fu0.pc <;> simp only [] <;> (repeat' split) <;> simp
          exact hfuts _ this
    · exact h
  | dropFut f =>
    simp only [step]; split
    · rename_i fu0 _
      intro fu hfu w hw
      have : (dropFutS { s with woken := s.woken.filter (· != f) } fu0).futs = s.futs := by
        unfold dropFutS
        cases fu0.kind <;> cases fu0.pc <;> rfl
      simp only [this] at hfu
      exact h fu (List.mem_filter.mp hfu).1 w hw
    · exact h
  | get => simp only [step]; (repeat' split) <;> exact h
  | take => simp only [step]; (repeat' split) <;> exact h
  | dropCell => simp only [step]; (repeat' split) <;> exact h

theorem reachable_argby (ops : List Op) : ArgBy (run {} ops) := by
  have : ∀ s : Sys, ArgBy s → ArgBy (run s ops) := by
    induction ops with
    | nil => intro s h; exact h
    | cons op ops ih => intro s h; exact ih _ (step_argby s op h)
  exact this _ (by intro fu hfu; simp at hfu)

theorem report_val (k : Kind) (x : Nat) (ran : Bool) (v : Nat)
    (h : report k x ran = .readyVal v ∨ report k x ran = .setBack v) : x = v := by
  unfold report at h
  cases k <;> cases ran <;> simp at h <;> exact h

theorem valBy_of_some {s : Sys} (h : s.value.isSome = true) :
    s.value.map (·.by_) = some (valBy s) := by
  cases hv : s.value with
  | none => simp [hv] at h
  | some w => simp [valBy, hv]

theorem pollInit_reads (s : Sys) (fu : Fut) (t : Nat) (i : Input)
    (hs2 : s.state = 2 → s.value.isSome = true) (hby : ∀ w, fu.arg = some w → w.by_ = fu.id) (v : Nat)
    (ho : (pollInit s fu t i).out = .readyVal v ∨ (pollInit s fu t i).out = .setBack v) :
    (pollInit s fu t i).s.value.map (·.by_) = some v := by
  have hrun : ∀ s1 : Sys,
      ((runInit s1 fu i).out = .readyVal v ∨ (runInit s1 fu i).out = .setBack v) →
      (runInit s1 fu i).s.value.map (·.by_) = some v := by
    intro s1 ho1
    unfold runInit report at ho1
    unfold runInit produced
    cases hk : fu.kind <;> cases hi : i <;> cases ha : fu.arg <;> cases hp : fu.pc <;>
      simp_all <;> (try (have := hby _ ha; simp_all))
  have hrep : ∀ (q : Sys), q.value = s.value → s.state = 2 →
      (report fu.kind (valBy s) false = .readyVal v ∨ report fu.kind (valBy s) false = .setBack v) →
      q.value.map (·.by_) = some v := by
    intro q hq h2 hr
    rw [hq, valBy_of_some (hs2 h2), report_val _ _ _ _ hr]
  unfold pollInit at ho ⊢
  cases hpc : fu.pc <;> simp only [hpc] at ho ⊢
  · split at ho
    · rename_i h2; simp only [h2, if_true]; exact hrep _ rfl h2 ho
    · split at ho
      · simp at ho
      · rename_i h2 h1; simp only [h2, h1, if_false]; exact hrun _ ho
  · split at ho
    · simp at ho
    · rename_i hn
      split at ho
      · rename_i h2; simp only [hn, h2, if_true, if_false]; exact hrep _ rfl h2 ho
      · split at ho
        · simp at ho
        · rename_i h2 h1; simp only [hn, h2, h1, if_false]; exact hrun _ ho
  · exact hrun _ ho
  · simp at ho

/-- **C04 (every read yields the stored value).** Whatever a completing `wait`, `get_or_init`,
`get_or_try_init` or `set` reports is (produced by the caller recorded in) the value stored in the
cell at that moment; `get` is `C04_get`. -/
theorem C04_reads (ops : List Op) (f t : Nat) (i : Input) (v : Nat)
    (hout : (step (run {} ops) (.poll f t i)).2 = .readyVal v ∨
            (step (run {} ops) (.poll f t i)).2 = .setBack v) :
    (next (run {} ops) (.poll f t i)).value.map (·.by_) = some v := by
  obtain ⟨hw, hr, hk⟩ := reachable_all ops
  have hpas := reachable_pas ops
  have hab := reachable_argby ops
  have hval := hw.val
  generalize run {} ops = s at *
  simp only [next, step] at hout ⊢
  cases hf : findFut s f with
  | none => simp [hf] at hout
  | some fu =>
    obtain ⟨hm, hid⟩ := findFut_mem hf
    simp only [hf] at hout ⊢
    by_cases hd : fu.pc = .done
    · simp [hd] at hout
    · simp only [hd, if_false] at hout ⊢
      by_cases hkw : fu.kind = .wait
      · simp only [hkw, if_true] at hout ⊢
        -- wait(): Ready only in state 2 (directly, or because its listener was notified)
        have hv := (pollWait_word { s with woken := s.woken.filter (· != f) } fu t).2.2.2.1
        rw [hv]
        have hst2 : s.state = 2 := by
          unfold pollWait at hout
          cases hpc : fu.pc <;> simp only [hpc] at hout
          · split at hout
            · assumption
            · simp at hout
          · split at hout
            · simp at hout
            · rename_i hn
              simp only [Bool.not_eq_true', Bool.not_eq_false] at hn
              obtain ⟨e, he, _, hne⟩ := Ev.isNotified_iff.mp hn
              exact hpas ((cnt_pos_iff _).mpr ⟨e, he, hne⟩)
          · simp at hout
          · simp at hout
        have hvb : v = valBy s := by
          unfold pollWait at hout
          cases hpc : fu.pc <;> simp only [hpc] at hout <;> (repeat' split at hout) <;>
            simp_all [valBy]
        rw [hvb]
        exact valBy_of_some (hval.mp hst2)
      · simp only [hkw, if_false] at hout ⊢
        exact pollInit_reads { s with woken := s.woken.filter (· != f) } fu t i
          (fun h2 => hval.mp h2) (hab fu hm) v hout

/-- `get()` returns the stored value, or `None` when the cell is not initialised -/
theorem C04_get (ops : List Op) :
    let s := run {} ops
    (s.state = 2 → (step s .get).2 = .some (valBy s) ∨ s.gone = true) ∧
    (s.state ≠ 2 → (step s .get).2 = .none ∨ s.gone = true) := by
  intro s
  simp only [step]
  constructor <;> intro h <;> by_cases hg : s.gone = true <;> simp [hg, h]

/-- **C04 (`set` hands its argument back exactly when its closure did not run).** -/
theorem C04_set_back_iff (v : Nat) (ran : Bool) :
    (report .set v ran = .setBack v ↔ ran = false) ∧ (report .set v ran = .readyVal v ↔ ran = true) := by
  cases ran <;> simp [report]

/-- **C04 (`take` empties the cell; a new epoch can begin).** -/
theorem C04_take (s : Sys) (hf : s.futs = []) (hg : s.gone = false) (h2 : s.state = 2) :
    (next s .take).state = 0 ∧ (next s .take).value = none ∧
    (next s .take).dropped = valSerial s :: s.dropped := by
  simp [next, step, hf, hg, h2]

/-- **C04 (every instance is in exactly one place).** After any history, the drop log, the value in
the cell and the arguments still owned by `set` futures list every payload instance created so far
exactly once. -/
theorem C04_accounting (ops : List Op) :
    (allSerials (run {} ops)).Nodup ∧
    ∀ k, k < (run {} ops).nextSerial ↔ k ∈ allSerials (run {} ops) :=
  have h := (reachable_ser ops).ser
  ⟨h.nodup, fun k => ⟨h.complete k, h.bound k⟩⟩

/-- **C04 (dropped exactly once).** No instance is dropped twice; the stored value has not been
dropped; and once the cell is gone and no future is left, every instance ever created has been
dropped exactly once. -/
theorem C04_dropped_once (ops : List Op) :
    (run {} ops).dropped.Nodup ∧
    (∀ v, (run {} ops).value = some v → v.serial ∉ (run {} ops).dropped) ∧
    ((run {} ops).futs = [] → (run {} ops).value = none →
      ∀ k, k < (run {} ops).nextSerial → (run {} ops).dropped.count k = 1) := by
  have h := (reachable_ser ops).ser
  have hn := h.nodup
  simp only [allSerials] at hn
  refine ⟨(List.nodup_append.mp hn).1, ?_, ?_⟩
  · intro v hv hm
    have := (List.nodup_append.mp hn).2.2 v.serial hm v.serial
      (by simp [hv, optL])
    exact this rfl
  · intro hf hv k hk
    have hmem := h.complete k hk
    simp only [allSerials, hf, hv, optL, argSerials, List.flatMap_nil, List.append_nil] at hmem
    rw [List.Nodup.count (List.nodup_append.mp hn).1, if_pos hmem]

/-! ### Non-vacuity -/

example :
    let s := run {}
      [.start 0 .init, .start 1 .set, .poll 0 0 .pend, .poll 1 4 .pend, .poll 0 0 .ok,
       .poll 1 4 .pend, .dropFut 0, .dropFut 1, .take, .start 2 .set, .poll 2 8 .pend]
    s.state = 2 ∧ valBy s = 2 ∧ s.dropped.length = 2 ∧ nRun s = 0 := by decide

end ALock.Once

/-! ## Part 2 — every interleaving of the atomic operations; publication -/

namespace ALock.Atomic.Once

/-- the model's steps are the operations the code performs on `OnceCell::state` (generated table) -/
theorem C04_shape_ok : sites.map Site.shape = expectedShapes := by decide

/-- `store(Initialized)` is at least Release, every load of `state` at least Acquire (generated table) -/
theorem C04_ord_ok : ords.ok := by unfold Ords.ok; decide

/-- **C04 (one initialiser under every interleaving).** -/
theorem C04_interleaved_single (l : List Step) :
    runners (run ords {} l).ags ≤ 1 ∧ ((run ords {} l).state = 1 ↔ runners (run ords {} l).ags = 1) := by
  have h := run_inv ords C04_ord_ok {} l init_inv
  by_cases h1 : (run ords {} l).state = 1
  · have := h.runA h1; exact ⟨by omega, fun _ => this, fun _ => h1⟩
  · have := h.runB h1; exact ⟨by omega, fun hh => absurd hh h1, fun hh => by omega⟩

/-- **C04 (only complete values are visible).** Under every interleaving, an agent that has read
`state == Initialized` has the `ptr::write` of the value the cell holds in its view: the write
happens-before every access through `get`, `wait`, `get_or_init`, … on any thread. -/
theorem C04_publication (l : List Step) :
    ∀ a ∈ (run ords {} l).ags, a.seen2 = true →
      ∃ k, (run ords {} l).cur = some k ∧ k ∈ a.view := fun a ha hs =>
  ((run_inv ords C04_ord_ok {} l init_inv).seen a ha hs).2

/-- with a relaxed store the reader's view does not contain the write: the model distinguishes -/
example :
    let o : Ords := { ords with relStore := false }
    let s := run o {} [.spawn, .spawn, .cas01 0, .writeVal 0, .store2 0, .load 1]
    s.cur = some 0 ∧ s.ags.map (·.view) = [[0], []] := by decide

/-- non-vacuity: a failed attempt, a second initialiser, a reader -/
example :
    let s := run ords {} [.spawn, .spawn, .spawn, .cas01 0, .cas01 1, .fail 0, .cas01 1, .writeVal 1,
      .load 2, .store2 1, .load 2, .cas01 0]
    s.state = 2 ∧ s.cur = some 0 ∧ s.ags.map (·.seen2) = [false, false, true] ∧
    s.ags.map (·.view) = [[], [0], [0]] := by decide

end ALock.Atomic.Once

namespace ALock.Accept.Once
open ALock.Atomic.Once

/-- **C04 (executions of the real crate with injected preemptions).** An accepted trace is a run of
the atomic-granularity model: at most one agent is initialising, and who has seen `Initialized` has
the value's write in its view. -/
theorem C04_accepted (n : Nat) (tr : List TEv) (st' : St)
    (h : acceptAll (init n) tr = .ok st') :
    runners st'.sys.ags ≤ 1 ∧
    ∀ a ∈ st'.sys.ags, a.seen2 = true → ∃ k, st'.sys.cur = some k ∧ k ∈ a.view := by
  obtain ⟨l, e⟩ := accepted_reachable h
  rw [e]
  exact ⟨(C04_interleaved_single l).1, C04_publication l⟩

end ALock.Accept.Once
