import ALock.Props.C01
import ALock.Props.C03
import ALock.Lemmas.RwLockWake
import ALock.Props.C02

/-!
# C14 — `try_*` operations are exact when uncontended and never wait

Statement (properties.jsonl): try_lock, try_read, try_upgradable_read, try_write, try_upgrade,
try_acquire (and Arc forms) return immediately without registering anything. They fail only for
a reason visible in the lock's documented state: a conflicting guard is alive, a writer/upgrader
is waiting, or other operations are queued; with no conflicting guard and nothing pending they
always succeed, try_upgrade fails exactly when another reader is alive, and try_acquire succeeds
exactly when a permit is available.

Each `try_*` is characterised *exactly* in terms of what is alive (guards, waiting writers,
pending upgrades, starved lock operations) at **every** reachable state of the three models —
i.e. after any history, with any stale internal state a cancellation, conversion or hand-over
could have left behind (there is none: that is the content of the word invariants).
"Return immediately" is structural: a `try_*` is one `step`; it contains no poll and no `listen`.
"Without registering anything": `*_no_register` — the set of registered owners of every event is
unchanged.
-/

namespace ALock

/-! ### Mutex -/

/-- **C14 (try_lock).** `try_lock`/`try_lock_arc` succeeds iff no guard is alive and no lock
operation is starved. -/
theorem C14_try_lock (ops : List Mutex.Op) (g : Nat) (arc : Bool)
    (hf : Mutex.fresh (Mutex.run {} ops) g = true) (hh : 0 < (Mutex.run {} ops).handles) :
    (Mutex.step (Mutex.run {} ops) (.tryLock g arc)).2 = .some ↔
      ((Mutex.run {} ops).guards = [] ∧ Mutex.starvedLive (Mutex.run {} ops) = 0) := by
  have hw := Mutex.C01_word ops
  simp only at hw
  simp only [Mutex.step, hf, hh, decide_true, Bool.and_self, if_true]
  constructor
  · intro h
    split at h
    · rename_i h0
      rw [h0] at hw
      have : (Mutex.run {} ops).guards.length = 0 := by omega
      exact ⟨List.length_eq_zero_iff.mp this, by omega⟩
    · cases h
  · intro ⟨h1, h2⟩
    rw [h1, h2] at hw
    simp at hw
    simp [hw]

theorem C14_try_lock_no_register (s : Mutex.Sys) (g : Nat) (arc : Bool) :
    (Mutex.next s (.tryLock g arc)).c.q = s.c.q ∧ (Mutex.next s (.tryLock g arc)).c.woken = s.c.woken := by
  simp only [Mutex.next, Mutex.step]
  split
  · split <;> simp
  · simp

/-! ### Semaphore (exactness is `Sem.C03_try_exact`) -/

theorem C14_try_acquire_no_register (s : Sem.Sys) (g : Nat) (arc : Bool) :
    (Sem.next s (.tryAcq g arc)).q = s.q ∧ (Sem.next s (.tryAcq g arc)).woken = s.woken := by
  simp only [Sem.next, Sem.step]
  split
  · split <;> simp
  · simp

/-! ### RwLock -/

open RwLock in
/-- **C14 (try_read).** Succeeds iff no write guard is alive, no writer waits for readers and no
upgrade is pending. -/
theorem C14_try_read (ops : List Op) (g : Nat) (arc : Bool)
    (hf : fresh (run {} ops) g = true) (hh : 0 < (run {} ops).handles) :
    (step (run {} ops) (.try_ g .read arc)).2 = .some ↔
      nG (run {} ops) .write + nPW (run {} ops) + nPU (run {} ops) = 0 := by
  obtain ⟨hw, _, _⟩ := reachable_all ops
  have hwd := hw.word
  have hsl := hw.slot
  simp only [owners] at hsl
  simp only [step, hf, hh, decide_true, Bool.and_self, if_true]
  constructor
  · intro h
    split at h
    · omega
    · cases h
  · intro h
    have : (run {} ops).state % 2 = 0 := by omega
    simp [this]

open RwLock in
/-- **C14 (try_upgradable_read).** Succeeds iff the slot is free (no write guard, no upgradable
guard, no writer waiting for readers, no pending upgrade) and no operation on the inner mutex is
starved. -/
theorem C14_try_upgradable_read (ops : List Op) (g : Nat) (arc : Bool)
    (hf : fresh (run {} ops) g = true) (hh : 0 < (run {} ops).handles) :
    (step (run {} ops) (.try_ g .uread arc)).2 = .some ↔
      (owners (run {} ops) = 0 ∧ ticks (run {} ops) = 0) := by
  obtain ⟨hw, _, _⟩ := reachable_all ops
  have hmw := hw.mword
  simp only [step, hf, hh, decide_true, Bool.and_self, if_true]
  constructor
  · intro h
    split at h
    · omega
    · cases h
  · intro ⟨h1, h2⟩
    have : (run {} ops).m.st = 0 := by omega
    simp [this]

open RwLock in
/-- **C14 (try_write).** Succeeds iff, in addition, no read guard is alive. -/
theorem C14_try_write (ops : List Op) (g : Nat) (arc : Bool)
    (hf : fresh (run {} ops) g = true) (hh : 0 < (run {} ops).handles) :
    (step (run {} ops) (.try_ g .write arc)).2 = .some ↔
      (owners (run {} ops) = 0 ∧ ticks (run {} ops) = 0 ∧ nG (run {} ops) .read = 0) := by
  obtain ⟨hw, _, _⟩ := reachable_all ops
  have hmw := hw.mword
  have hwd := hw.word
  simp only [owners] at hmw ⊢
  simp only [step, hf, hh, decide_true, Bool.and_self, if_true]
  constructor
  · intro h
    split at h
    · split at h
      · refine ⟨by omega, by omega, by omega⟩
      · cases h
    · cases h
  · intro ⟨h1, h2, h3⟩
    have e1 : (run {} ops).m.st = 0 := by omega
    have e2 : (run {} ops).state = 0 := by omega
    simp [e1, e2]

open RwLock in
/-- **C14 (try_upgrade).** Given an upgradable guard, fails exactly when another reader is
alive. -/
theorem C14_try_upgrade (ops : List Op) (g : Nat) (gu : Guard)
    (hg : findGuard (run {} ops) g = some gu) (hk : gu.kind = .uread) :
    (step (run {} ops) (.conv g .tryUpgrade)).2 = .ok ↔ nG (run {} ops) .read = 0 := by
  obtain ⟨hw, _, _⟩ := reachable_all ops
  have hwd := hw.word
  have hsl := hw.slot
  simp only [owners] at hsl
  have hu := ind_le_nGL _ gu .uread (findGuard_mem hg).1
  simp [ind, hk] at hu
  simp only [nG_eq] at hwd hsl ⊢
  simp only [step, hg, hk]
  constructor
  · intro h
    split at h
    · omega
    · cases h
  · intro h
    have : (run {} ops).state = 2 := by omega
    simp [this]

open RwLock in
/-- **C14 (no `try_*` registers anything).** The owners registered on the three events are the
same before and after (a failing `try_write` releases the inner mutex it briefly took, which
*notifies* `lock_ops`, but registers nothing). -/
theorem C14_rw_no_register (s : Sys) (g : Nat) (k : GKind) (arc : Bool) (x : Nat) :
    Ev.has (next s (.try_ g k arc)).m.q x = Ev.has s.m.q x ∧
    Ev.has (next s (.try_ g k arc)).nr x = Ev.has s.nr x ∧
    Ev.has (next s (.try_ g k arc)).nw x = Ev.has s.nw x := by
  simp only [next, step]
  split
  · cases k <;> simp only [] <;> (repeat' split) <;> simp [unlock_has]
  · simp

open RwLock in
/-- **C14 (free lock: everything succeeds).** With no guard alive and no operation alive at all,
every `try_*` succeeds — whatever happened before. -/
theorem C14_free_succeeds (ops : List Op) (g : Nat) (k : GKind) (arc : Bool)
    (hf : (run {} ops).futs = []) (hg : (run {} ops).guards = []) (hh : 0 < (run {} ops).handles) :
    (step (run {} ops) (.try_ g k arc)).2 = .some := by
  obtain ⟨hw, _, _⟩ := reachable_all ops
  have h1 := hw.mword
  have h2 := hw.word
  simp only [owners, ticks, nG, nPW, nPU, hf, hg, List.map_nil, List.sum_nil, Nat.add_zero,
    Nat.mul_zero] at h1 h2
  cases k <;> simp [step, fresh, findFut, findGuard, hf, hg, h1, h2, hh]

/-- Non-vacuity: probes after a cancellation, a conversion and a hand-over. -/
example :
    let s := RwLock.run {}
      [.try_ 0 .write false, .start 1 .write false, .poll 1 4 false, .conv 0 .toUpgradable,
       .try_ 2 .read true, .dropFut 1]
    (RwLock.step s (.try_ 9 .read false)).2 = .some ∧ (RwLock.step s (.try_ 9 .uread false)).2 = .none ∧
    (RwLock.step s (.try_ 9 .write false)).2 = .none ∧ (RwLock.step s (.conv 0 .tryUpgrade)).2 = .err ∧
    (RwLock.step (RwLock.next s (.dropGuard 2)) (.conv 0 .tryUpgrade)).2 = .ok := by decide

end ALock

namespace ALock.Accept

/-- **C14 ("never succeeds in conflict", executions of the real crate with injected preemptions).**
Whatever `try_*` calls (and polls, drops, conversions) of up to `n` agents are interleaved at the
granularity of single atomic operations: if the recorded trace is accepted, no conflicting guards
exist at its end — one mutex holder; one writer and then no reader, one upgradable reader; no more
permits out than exist. -/
theorem C14_accepted_mutex (n : Nat) (tr : List TEv) (st' : Mutex.St)
    (h : Mutex.acceptAll (Mutex.init n) tr = .ok st') : ALock.Atomic.Mutex.holders st'.sys ≤ 1 :=
  (Mutex.C01_accepted n tr st' h).1

theorem C14_accepted_rwlock (n : Nat) (tr : List TEv) (st' : RwLock.St)
    (h : RwLock.acceptAll (RwLock.init n) tr = .ok st') :
    ALock.Atomic.RwLock.writers st'.sys.ags ≤ 1 ∧
    (1 ≤ ALock.Atomic.RwLock.writers st'.sys.ags → ALock.Atomic.RwLock.readers st'.sys.ags = 0) ∧
    ALock.Atomic.RwLock.upgradables st'.sys.ags ≤ 1 :=
  let ⟨a, b, c, _⟩ := RwLock.C02_accepted n tr st' h
  ⟨a, b, c⟩

theorem C14_accepted_sem (n p : Nat) (tr : List TEv) (st' : Sem.St)
    (h : Sem.acceptAll (Sem.init n p) tr = .ok st') :
    ALock.Atomic.Sem.issued st'.sys + st'.sys.forgotten ≤ p + st'.sys.added := by
  have := Sem.C03_accepted n p tr st' h
  omega

end ALock.Accept
