import ALock.Lemmas.RwLockWord
import ALock.Lemmas.AtomicRwLock
import ALock.Lemmas.AtomTraceRw
import ALock.Lemmas.Accept

/-!
# C11 — RwLock: upgrade, try_upgrade and the downgrades are atomic transitions

Statement (properties.jsonl): converting a guard never opens a window in which another writer can
get in: from the moment an upgradable-read guard is obtained until the write guard produced by
upgrade/try_upgrade is dropped, and from a write guard through downgrade or
downgrade_to_upgradable to the drop of the resulting guard, no other write guard exists and the
value changes only through the converting task. While an upgrade is pending, the upgrader still
excludes other writers and upgradable readers.

The "slot" is the inner mutex: a write guard, an upgradable guard, a writer waiting for readers
and a pending upgrade all *are* its owner.  `C11_slot` says that at every state of every history
at most one of them exists; `C11_*_keeps_slot` say that `try_upgrade`, `upgrade` and
`downgrade_to_upgradable` do not touch the inner mutex at all (it never changes hands inside a
conversion); `C11_pending_upgrade_excludes` is the last sentence.  The two downgrades to a plain
read guard are the only conversions that release the slot, and they do so in the same atomic
step that turns the guard into a read guard.

That last sentence is about the poll-granular model, where a call is one step.  Part 2
(`ALock.Atomic.RwLock`) looks *inside* the conversions: one step = one atomic operation, any number
of threads, any interleaving.  `try_upgrade`, `upgrade` and `downgrade_to_upgradable` are a single
atomic operation on the word (site table, `C11_shape_ok`); `downgrade_write` is two — the
`fetch_add` and then the release of the inner mutex — and `C11_interleaved_downgrade` covers the
state in between.
-/

namespace ALock.RwLock

/-- **C11 (one slot).** At most one of: write guard, upgradable guard, writer waiting for readers,
pending upgrade — at every state of every history. -/
theorem C11_slot (ops : List Op) :
    let s := run {} ops
    nG s .write + nG s .uread + nPW s + nPU s ≤ 1 :=
  (reachable_word ops).slot

/-- the inner mutex word says exactly whether the slot is taken -/
theorem C11_slot_word (ops : List Op) :
    let s := run {} ops
    s.m.st % 2 = nG s .write + nG s .uread + nPW s + nPU s := by
  intro s
  simp only [s]
  have inv := reachable_word ops
  have h1 := inv.mword
  have h2 := inv.slot
  have h3 := ticks_even (run {} ops)
  simp only [owners] at h1 h2
  omega

/-- **C11 (conversions that keep write access in the family do not release the slot).**
`try_upgrade`, `downgrade_to_upgradable` and `upgrade()` leave the inner mutex untouched, so no
other writer, upgradable reader or upgrader can take it in between: the slot never changes hands
inside a conversion. -/
theorem C11_conv_keeps_slot (s : Sys) (g : Nat) :
    (next s (.conv g .tryUpgrade)).m.st = s.m.st ∧ (next s (.conv g .toUpgradable)).m.st = s.m.st ∧
    ∀ f, (next s (.upgrade g f)).m.st = s.m.st := by
  refine ⟨?_, ?_, ?_⟩
  · simp only [next, step]
    split
    · rename_i gu _
      cases gu.kind <;> simp
      split <;> rfl
    · rfl
  · simp only [next, step]
    split
    · rename_i gu _
      cases gu.kind <;> simp
    · rfl
  · intro f
    simp only [next, step]
    split
    · split <;> rfl
    · rfl

/-- **C11 (a pending upgrade still excludes writers and upgradable readers).** While an upgrade
future is alive and uncompleted, `try_write` and `try_upgradable_read` fail, no write guard and no
other upgradable guard exists, and no `write()`/`upgradable_read()` future gets past the mutex. -/
theorem C11_pending_upgrade_excludes (ops : List Op) (g : Nat) (arc : Bool)
    (hpu : 1 ≤ nPU (run {} ops)) :
    let s := run {} ops
    nG s .write = 0 ∧ nG s .uread = 0 ∧ nPW s = 0 ∧ s.m.st % 2 = 1 ∧
    (step s (.try_ g .write arc)).2 ≠ .some ∧ (step s (.try_ g .uread arc)).2 ≠ .some := by
  intro s
  simp only [s]
  have inv := reachable_word ops
  have h1 := inv.mword
  have h2 := inv.slot
  have h3 := ticks_even (run {} ops)
  simp only [owners] at h1 h2
  have hm : ¬ (run {} ops).m.st = 0 := by omega
  refine ⟨by omega, by omega, by omega, by omega, ?_, ?_⟩
  · simp only [step]; split <;> simp [hm]
  · simp only [step]; split <;> simp [hm]

/-- Non-vacuity: an upgradable guard is obtained, a competing `write()` and `try_write` are
started at every point, the guard is upgraded (pending on a reader), completes, is downgraded
to upgradable and dropped; only then does the competing writer get in. -/
example :
    let ops : List Op :=
      [.try_ 0 .uread false, .try_ 1 .read false, .start 2 .write false, .poll 2 8 false,
       .try_ 9 .write false, .upgrade 0 3, .poll 3 12 false, .try_ 9 .write false,
       .poll 2 8 false, .dropGuard 1, .poll 3 12 false, .try_ 9 .write false,
       .conv 3 .toUpgradable, .poll 2 8 false, .try_ 9 .uread false]
    let s := run {} ops
    nG s .uread = 1 ∧ nG s .write = 0 ∧ (pendingPolled s).length = 1 ∧
    nG (next s (.dropGuard 3)) .uread = 0 := by decide

end ALock.RwLock

/-! ## Part 2 — inside the conversions: every interleaving of the atomic operations -/

namespace ALock.Atomic.RwLock

/-- the conversions are the atomic operations the model has steps for, in this order (generated
table): in particular `downgrade_write` clears the bit *before* it releases the inner mutex -/
theorem C11_shape_ok : sites.map Site.shape = expectedShapes := by decide

/-- **C11 (one slot, under every interleaving).** The inner mutex — held by a write guard, an
upgradable guard, a writer waiting for readers, a pending upgrade, and by a thread in the middle
of a conversion or an unlock — never has two holders. -/
theorem C11_interleaved_slot (l : List Step) : mholders (run {} l).ags ≤ 1 :=
  (run_inv {} l init_inv).mex

/-- **C11 (no window inside a conversion).** While some agent is between the two atomic steps of
`downgrade_write` (or holds an upgradable guard, or has an upgrade pending), no other agent holds
or can obtain a write guard: there is no writer, and the inner mutex, which every writer must take
first, is not available. -/
theorem C11_interleaved_downgrade (l : List Step) (i : Nat)
    (h : (run {} l).ags[i]? = some .dw ∨ (run {} l).ags[i]? = some .u ∨ (run {} l).ags[i]? = some .pu) :
    writers (run {} l).ags = 0 ∧ mholders (run {} l).ags = 1 := by
  have hi := run_inv {} l init_inv
  rcases h with h | h | h <;>
  · obtain ⟨_, hw⟩ := others_zero hi.mex h (by simp [Pc.mh])
    have := mh_le_mholders h
    have := hi.mex
    simp only [Pc.wr, Pc.mh] at *
    exact ⟨hw, by omega⟩

/-- non-vacuity: a writer queues (it cannot take the inner mutex) while a write guard is being
downgraded; it gets in only after both steps, and then has to wait for the new reader -/
example :
    let s := run {} [.spawn, .spawn, .mLock 0, .wCas0 0, .mLock 1, .dgW1 0, .mLock 1, .dgW2 0,
      .mLock 1, .wFetchOr 1, .wCheck 1]
    s.ags = [.r, .ww] ∧ s.state = 3 := by decide

end ALock.Atomic.RwLock

namespace ALock.RwLock

/-- **C11 (the conversions' word effects are what their atomic operations compute).**  The four guard
conversions and `upgrade()`: replaying the recorded operations of the step on each word yields the
model's new word. -/
theorem C11_conv_atoms (s : Sys) (g : Nat) (c : Conv) :
    Atom.wordOK 0 s.state (next s (.conv g c)).state (stepAtoms s (.conv g c)) ∧
    Atom.wordOK 1 s.m.st (next s (.conv g c)).m.st (stepAtoms s (.conv g c)) :=
  step_atoms_words s (.conv g c)

theorem C11_upgrade_atoms (s : Sys) (g f : Nat) :
    Atom.wordOK 0 s.state (next s (.upgrade g f)).state (stepAtoms s (.upgrade g f)) ∧
    Atom.wordOK 1 s.m.st (next s (.upgrade g f)).m.st (stepAtoms s (.upgrade g f)) :=
  step_atoms_words s (.upgrade g f)

end ALock.RwLock

namespace ALock.Accept.RwLock
open ALock.Atomic.RwLock

/-- **C11 (executions of the real crate under preemption).** In every accepted execution the inner
mutex has at most one holder, and while an agent is between the two atomic steps of
`downgrade_write`, holds an upgradable guard or has an upgrade pending, nobody has a write guard and
the inner mutex — which every writer must take first — is taken. -/
theorem C11_accepted (n : Nat) (tr : List TEv) (st' : St) (h : acceptAll (init n) tr = .ok st') :
    mholders st'.sys.ags ≤ 1 ∧
    ∀ i : Nat, (st'.sys.ags[i]? = some Pc.dw ∨ st'.sys.ags[i]? = some Pc.u ∨ st'.sys.ags[i]? = some Pc.pu) →
      writers st'.sys.ags = 0 ∧ mholders st'.sys.ags = 1 := by
  obtain ⟨⟨l, e⟩, _⟩ := accepted_reachable h
  rw [e]
  exact ⟨ALock.Atomic.RwLock.C11_interleaved_slot l, fun i hi => ALock.Atomic.RwLock.C11_interleaved_downgrade l i hi⟩

end ALock.Accept.RwLock
