import ALock.Lemmas.Sem
import ALock.Atomic.Calls

/-!
# C07 — Semaphore: every available permit reaches a waiter

Statement (properties.jsonl): whenever a Semaphore has at least one available permit and every
task whose waker has been called has been polled again, no `acquire`/`acquire_arc` future that has
been polled is still pending. This holds for permits returned by several guards in a row, added
by `add_permits(n)`, or handed back because a notified waiter was cancelled, and however long
completed acquire futures are kept alive.

`C07` below is that statement for **every** initial count and **every** finite history of the
poll-granular model (`List Op`: any number of futures, polls with any waker — spurious polls and
new wakers are just polls —, `dropFut` at any moment of a future's life, completed futures kept
alive simply by not dropping them, `add n` for any `n`).  Proof: the invariant `WInv`
(a notified entry's owner has an outstanding wake-up; every entry carries a waker; a free permit
and a non-empty queue imply a notified entry) plus `Own` (a polled, uncompleted future is
registered) is inductive.

Thread interleavings are not covered by this theorem (polls are atomic here).

**Blocking waiters** (`acquire_blocking`, `acquire_arc_blocking`): a parked thread resumes *inside*
the loop of `poll_with_strategy`, after its listener has fired and been consumed — not at the top
of the loop as a re-polled future does.  `resumeBlocking` is that code path (consume the entry; try
to acquire; on success forward the consumed notification, as the code does since fix 196e88b; on
failure listen again).  `C07_blocking_is_poll` proves that, for a notified waiter, it transforms
the semaphore exactly as a poll does — so every theorem about histories of polls (C03, C07, C10,
C17) also covers threads parked in the blocking forms.  `C07_blocking_unfixed` shows that without
the forwarding the two differ (the defect F10 of DESIGN.md).
-/

set_option linter.unusedSimpArgs false
set_option linter.unusedVariables false

namespace ALock.Sem

theorem woken_filter_wake (s : Sys) (f : Nat) (hw : WakeOK s.q s.woken) :
    WakeOK s.q (f :: s.woken.filter (· != f)) := wakeOK_filter _ _ _ hw

/-- The wake-up invariant is preserved by every operation. -/
theorem step_winv (s : Sys) (op : Op) (h : WInv s) : WInv (next s op) := by
  obtain ⟨hw, ht, hp⟩ := h
  unfold next
  cases op with
  | start f arc =>
    simp only [step]; split
    · exact ⟨hw, ht, hp⟩
    · exact ⟨hw, ht, hp⟩
  | poll f t =>
    simp only [step]
    split
    · rename_i fu hfu
      have hid := (findFut_mem hfu).2
      split
      · exact ⟨hw, ht, hp⟩
      · simp only [poll]
        split
        · -- acquires; listener dropped
          rename_i hc
          have := dropListener_winv
            { s with woken := s.woken.filter (· != fu.id),
                     futs := setFut s.futs fu.id fun x => { x with polled := true },
                     count := s.count - 1 } fu.id
            (wakeOK_filter _ _ _ hw) ht (fun hc' hq => hp (by simp at hc'; omega) hq)
          exact ⟨this.wake, this.task, this.permit⟩
        · rename_i hc0
          have hc0' : s.count = 0 := by simp at hc0; omega
          split
          · split
            · -- notified: consumed, re-registered at the tail
              refine ⟨?_, ?_, ?_⟩
              · intro e he hn
                simp only [List.mem_append, List.mem_singleton] at he
                rcases he with he | he
                · have hm := Ev.mem_erase.mp he
                  have := hw e hm.1 hn
                  simp [List.mem_filter, this, hm.2]
                · subst he; simp at hn
              · intro e he
                simp only [List.mem_append, List.mem_singleton] at he
                rcases he with he | he
                · exact ht e (Ev.mem_erase.mp he).1
                · subst he; rfl
              · intro hc; simp [hc0'] at hc
            · -- spurious poll / new waker
              rename_i hnn
              simp only [Bool.not_eq_true] at hnn
              refine ⟨?_, Ev.setTask_allTask _ _ ht, ?_⟩
              · intro e he hn
                simp only [Ev.setTask, List.mem_map] at he
                obtain ⟨e0, he0, rfl⟩ := he
                by_cases hf : e0.owner = fu.id
                · exfalso
                  have h1 := Ev.isNotified_false_iff.mp hnn e0 he0 hf
                  simp [hf, h1] at hn
                · have hn0 : e0.notified = true := by simpa [hf] using hn
                  have := hw e0 he0 hn0
                  simp [hf, List.mem_filter, this]
              · intro hc; simp [hc0'] at hc
          · -- first registration
            rename_i hne
            simp only [Bool.not_eq_true] at hne
            refine ⟨?_, ?_, ?_⟩
            · intro e he hn
              simp only [List.mem_append, List.mem_singleton] at he
              rcases he with he | he
              · have := hw e he hn
                have hf : e.owner ≠ fu.id := Ev.has_false_iff.mp hne e he
                simp [List.mem_filter, this, hf]
              · subst he; simp at hn
            · intro e he
              simp only [List.mem_append, List.mem_singleton] at he
              rcases he with he | he
              · exact ht e he
              · subst he; rfl
            · intro hc; simp [hc0'] at hc
    · exact ⟨hw, ht, hp⟩
  | dropFut f =>
    simp only [step]; split
    · have := dropListener_winv { s with woken := s.woken.filter (· != f) } f
        (wakeOK_filter _ _ _ hw) ht hp
      exact ⟨this.wake, this.task, this.permit⟩
    · exact ⟨hw, ht, hp⟩
  | tryAcq g arc =>
    simp only [step]; split
    · split
      · exact ⟨hw, ht, fun hc hq => hp (by simp at hc; omega) hq⟩
      · exact ⟨hw, ht, hp⟩
    · exact ⟨hw, ht, hp⟩
  | dropGuard g =>
    simp only [step]; split
    · have := doNotify_winv
        { s with count := s.count + 1, guards := s.guards.eraseP (·.id == g) } 1 hw ht
        (Or.inl (by omega))
      exact ⟨this.wake, this.task, this.permit⟩
    · exact ⟨hw, ht, hp⟩
  | forget g =>
    simp only [step]; split
    · exact ⟨hw, ht, hp⟩
    · exact ⟨hw, ht, hp⟩
  | add n =>
    simp only [step]
    by_cases hn : 0 < n
    · exact doNotify_winv _ n hw ht (Or.inl hn)
    · have : n = 0 := by omega
      subst this
      exact doNotify_winv _ 0 hw ht (Or.inr (fun hc hq => hp (by simpa using hc) hq))
  | hclone => exact ⟨hw, ht, hp⟩
  | hdrop =>
    simp only [step]; split
    · exact ⟨hw, ht, hp⟩
    · exact ⟨hw, ht, hp⟩

/-- A polled, uncompleted future keeps a registered listener. -/
theorem step_own (s : Sys) (op : Op) (h : Own s) : Own (next s op) := by
  unfold next
  cases op with
  | start f arc =>
    simp only [step]; split
    · intro fu hfu hp hd
      simp only [List.mem_cons] at hfu
      rcases hfu with rfl | hfu
      · simp at hp
      · exact h fu hfu hp hd
    · exact h
  | poll f t =>
    simp only [step]
    split
    · rename_i fu0 hfu0
      have hid := (findFut_mem hfu0).2
      split
      · exact h
      · simp only [poll]
        split
        · -- completes
          intro fu hfu hp hd
          simp only [Sys.dropListener] at hfu ⊢
          obtain ⟨y, hy, rfl⟩ := mem_setFut.mp hfu
          obtain ⟨z, hz, rfl⟩ := mem_setFut.mp hy
          by_cases hzf : z.id = fu0.id
          · simp [hzf] at hd
          · have hzp : z.polled = true := by simpa [hzf] using hp
            have hzd : z.done = false := by simpa [hzf] using hd
            simp only [hzf, beq_iff_eq, if_false]
            rw [Ev.drop_has_ne _ hzf]
            exact h z hz hzp hzd
        · split
          · split
            · intro fu hfu hp hd
              obtain ⟨z, hz, rfl⟩ := mem_setFut.mp hfu
              by_cases hzf : z.id = fu0.id
              · simp [hzf, Ev.has]
              · have hzp : z.polled = true := by simpa [hzf] using hp
                have hzd : z.done = false := by simpa [hzf] using hd
                have := h z hz hzp hzd
                simp only [hzf, beq_iff_eq, if_false]
                simp only [Ev.has, List.any_append, Bool.or_eq_true]
                left
                have h2 := Ev.has_erase_ne s.q hzf
                simp only [Ev.has] at h2 this
                rw [h2]; exact this
            · intro fu hfu hp hd
              obtain ⟨z, hz, rfl⟩ := mem_setFut.mp hfu
              rename_i hhas _
              by_cases hzf : z.id = fu0.id
              · simp only [hzf, beq_self_eq_true, if_true]
                rw [Ev.has_setTask]; simpa using hhas
              · have hzp : z.polled = true := by simpa [hzf] using hp
                have hzd : z.done = false := by simpa [hzf] using hd
                simp only [hzf, beq_iff_eq, if_false]
                rw [Ev.has_setTask]; exact h z hz hzp hzd
          · intro fu hfu hp hd
            obtain ⟨z, hz, rfl⟩ := mem_setFut.mp hfu
            by_cases hzf : z.id = fu0.id
            · simp [hzf, Ev.has]
            · have hzp : z.polled = true := by simpa [hzf] using hp
              have hzd : z.done = false := by simpa [hzf] using hd
              have := h z hz hzp hzd
              simp only [hzf, beq_iff_eq, if_false]
              simp only [Ev.has, List.any_append, Bool.or_eq_true] at this ⊢
              left; exact this
    · exact h
  | dropFut f =>
    simp only [step]; split
    · intro fu hfu hp hd
      simp only [Sys.dropListener, List.mem_filter] at hfu ⊢
      have hne : fu.id ≠ f := by simpa using hfu.2
      rw [Ev.drop_has_ne _ hne]
      exact h fu hfu.1 hp hd
    · exact h
  | tryAcq g arc =>
    simp only [step]; split
    · split
      · exact h
      · exact h
    · exact h
  | dropGuard g =>
    simp only [step]; split
    · intro fu hfu hp hd
      simp only [Sys.doNotify] at hfu ⊢
      rw [Ev.has_notify]; exact h fu hfu hp hd
    · exact h
  | forget g =>
    simp only [step]; split
    · exact h
    · exact h
  | add n =>
    simp only [step]
    intro fu hfu hp hd
    simp only [Sys.doNotify] at hfu ⊢
    rw [Ev.has_notify]; exact h fu hfu hp hd
  | hclone => exact h
  | hdrop =>
    simp only [step]; split
    · exact h
    · exact h

theorem run_inv (s : Sys) (ops : List Op) (h : WInv s) (ho : Own s) :
    WInv (run s ops) ∧ Own (run s ops) := by
  induction ops generalizing s with
  | nil => exact ⟨h, ho⟩
  | cons op ops ih => exact ih _ (step_winv s op h) (step_own s op ho)

theorem init_inv (n : Nat) : WInv (Sys.new n) ∧ Own (Sys.new n) := by
  refine ⟨⟨?_, ?_, ?_⟩, ?_⟩
  · intro e he; simp [Sys.new] at he
  · intro e he; simp [Sys.new] at he
  · simp [Sys.new]
  · intro fu hfu; simp [Sys.new] at hfu

/-- **C07.** For every initial count `n` and every history `ops`: if every woken task has been
polled again (`woken = []`) and a permit is available, no polled acquire future is pending. -/
theorem C07 (n : Nat) (ops : List Op) :
    let s := run (Sys.new n) ops
    s.woken = [] → 0 < s.count → pendingPolled s = [] := by
  intro s hw hc
  obtain ⟨inv, own⟩ := run_inv _ ops (init_inv n).1 (init_inv n).2
  refine Classical.byContradiction fun hne => ?_
  obtain ⟨fu, hfu⟩ := List.exists_mem_of_ne_nil _ hne
  simp only [pendingPolled, List.mem_filter, Bool.and_eq_true, Bool.not_eq_true'] at hfu
  have hhas := own fu hfu.1 hfu.2.1 hfu.2.2
  obtain ⟨e0, he0, _⟩ := Ev.has_iff.mp hhas
  have hq : (run (Sys.new n) ops).q ≠ [] := List.ne_nil_of_mem he0
  have := inv.permit hc hq
  obtain ⟨e, he, hn⟩ := (cnt_pos_iff _).mp this
  have := inv.wake e he hn
  simp only [s] at hw
  rw [hw] at this
  cases this

/-- Corollary in the property's own words: the waiter is not merely "not pending" — the queue is
empty, i.e. nobody is left registered. -/
theorem C07_queue_empty (n : Nat) (ops : List Op) :
    let s := run (Sys.new n) ops
    s.woken = [] → 0 < s.count → s.q = [] := by
  intro s hw hc
  obtain ⟨inv, _⟩ := run_inv _ ops (init_inv n).1 (init_inv n).2
  refine Classical.byContradiction fun hq => ?_
  have := inv.permit hc hq
  obtain ⟨e, he, hn⟩ := (cnt_pos_iff _).mp this
  have := inv.wake e he hn
  simp only [s] at hw
  rw [hw] at this
  cases this

/-! ### Non-vacuity and the historical defect -/

/-- The premises are satisfiable in a non-trivial state: two permits released in a row reach two
waiters (the second through the forwarding done when the first waiter's listener is dropped). -/
example :
    let s := run (Sys.new 1)
      [.tryAcq 0 false, .start 1 false, .start 2 true, .poll 1 11, .poll 2 12,
       .dropGuard 0, .tryAcq 3 false, .dropGuard 3, .poll 1 11, .dropGuard 1, .poll 2 12, .add 1]
    s.woken = [] ∧ 0 < s.count ∧ pendingPolled s = [] ∧ s.guards.length = 1 := by decide

/-- F3 (DESIGN §3): history on which the *unrepaired* code lost a wake-up — `a1` completes and is
kept alive, `a2` waits, the permit is released. On the repaired model `a2` is woken. -/
example :
    let s := run (Sys.new 1)
      [.tryAcq 0 false, .start 1 false, .poll 1 11, .dropGuard 0, .poll 1 11,
       .start 2 false, .poll 2 12, .dropGuard 1]
    s.woken = [2] ∧ 0 < s.count := by decide

/-! ### Blocking waiters -/

/-- a thread parked in `acquire_blocking` resumes after its listener has fired: the listener is
gone (consumed), `try_acquire` runs, and on success the consumed notification is passed on by hand
(`forward = true`: the code since fix 196e88b; `false`: the code before) -/
def resumeBlocking (forward : Bool) (s : Sys) (fu : Fut) (t : Nat) : Sys × Out :=
  let f := fu.id
  let s := { s with woken := s.woken.filter (· != f),
                    futs := setFut s.futs f fun x => { x with polled := true, waker := t },
                    q := Ev.erase s.q f }
  if 0 < s.count then
    let s := { s with count := s.count - 1 }
    let s := if forward then s.doNotify 1 else s
    ({ s with guards := { id := f, arc := fu.arc } :: s.guards,
              futs := setFut s.futs f fun x => { x with done := true },
              strong := if fu.arc then s.strong + 1 else s.strong }, .ready)
  else
    ({ s with q := s.q ++ [{ owner := f, task := some t }] }, .pending)

/-- **C07 (blocking forms are covered).** For a waiter whose entry is notified — the only situation
in which a parked thread resumes — the blocking code path changes the semaphore exactly as the
poll of the corresponding future does. -/
theorem C07_blocking_is_poll (s : Sys) (fu : Fut) (t : Nat) (hn : Ev.isNotified s.q fu.id = true)
    (hna : Ev.addOf s.q fu.id = false) :
    resumeBlocking true s fu t = poll s fu t := by
  have hh : Ev.has s.q fu.id = true := by
    obtain ⟨e, he, ho, _⟩ := Ev.isNotified_iff.mp hn
    exact Ev.has_iff.mpr ⟨e, he, ho⟩
  unfold resumeBlocking poll
  simp only [hn, hh, if_true]
  split
  · simp only [Sys.doNotify, Sys.dropListener, Ev.drop, Ev.dropOwners, Ev.dropTasks, hn, hna, if_true]
  · rfl

/-- the code before the fix did not forward: a notified waiter next in line stays un-notified -/
example :
    let s := run (Sys.new 0) [.start 0 false, .poll 0 0, .start 1 false, .poll 1 4, .add 1, .add 1]
    let fu : Fut := { id := 0, arc := false, polled := true, waker := 0 }
    ((resumeBlocking false s fu 0).1.q.map (·.notified)) = [false] ∧
    ((resumeBlocking true s fu 0).1.q.map (·.notified)) = [true] ∧
    (resumeBlocking false s fu 0).1.count = 1 := by decide

end ALock.Sem
