import ALock.Lemmas.RwLockWake
import ALock.Lemmas.RwLockNrSingle
import ALock.Atomic.Calls

/-!
# C06 — RwLock: no lost wake-up on any release, downgrade, upgrade or cancellation

Statement (properties.jsonl): whenever every task whose waker has been called has been polled
again, no polled RwLock acquisition is left pending although the guards that are alive allow it:
with no guard alive nothing is pending; with no write guard alive and no writer or upgrader
waiting, no read() is pending; with no write or upgradable guard alive, a pending
upgradable_read() has completed unless a writer is waiting, and a pending write() or upgrade has
completed once no reader is left. This holds after every way a guard or future can go away —
drop, the three downgrades, upgrade, try_upgrade, cancellation at any point — and however long
completed futures are kept alive.

The four clauses are `C06_i … C06_iv`, each for **every** finite history of the poll-granular
RwLock model over the full alphabet (borrowed and Arc flavours, completed futures dropped or kept
alive, cancellation at every point, spurious polls, new wakers, both outcomes of the inner mutex's
starvation test).  They rest on three inductive invariants proved in `Lemmas/RwLock*.lean`:
`WordInv` (who holds what, from the two words), `RegInv` (which future is registered on which of
the three events) and `WakeInv` (a notified listener's owner has an outstanding wake-up; the inner
mutex, `no_writer` and `no_readers` each hold a notification whenever a registered waiter could
proceed).

Reading of "no guard alive": an `upgrade()` future holds the upgradable lock it consumed from the
moment it is created (that is what `upgrade` does: it sets the writer bit at once), so a live
upgrade future that has **never been polled** counts as a holder — nobody has been asked to
drive it yet.  Clause (i) says so explicitly.

Not covered by these theorems: interleavings of atomic operations of several threads.
-/

namespace ALock.RwLock

theorem sum_zero_of_forall {α : Type} (l : List α) (h : α → Nat) (h0 : ∀ x ∈ l, h x = 0) :
    (l.map h).sum = 0 := by
  induction l with
  | nil => rfl
  | cons a t ih =>
    simp only [List.map_cons, List.sum_cons, h0 a List.mem_cons_self,
      ih (fun x hx => h0 x (List.mem_cons_of_mem _ hx))]

/-- a queue with a registered waiter and no outstanding wake-up holds no notification -/
theorem no_notification {q : List Entry} {w : List Nat} (hw : WakeOK q w) (he : w = []) :
    ¬ 0 < cnt q := by
  intro hc
  obtain ⟨e, hm, hn⟩ := (cnt_pos_iff _).mp hc
  have := hw e hm hn
  rw [he] at this
  cases this

section
variable (ops : List Op)

/-- (A) a polled, pending `read()` at quiescence means the writer bit is set -/
theorem pending_read_bit (hq : (run {} ops).m.woken = []) (fu : Fut)
    (hfu : fu ∈ (run {} ops).futs) (hk : fu.kind = .read) (hp : fu.polled = true)
    (hs : fu.stage ≠ .done) : (run {} ops).state % 2 = 1 := by
  obtain ⟨hw, hr, hk'⟩ := reachable_all ops
  have hfl := hw.flags fu hfu
  have hst : fu.stage = .init := by
    have := hfl.rstage (Or.inl hk)
    cases h : fu.stage <;> simp_all
  have hreg := hr.nwreg fu hfu
  simp only [Fut.onNw, hk, hp, hst, beq_self_eq_true, Bool.and_self] at hreg
  have hne := Ev.has_ne_nil hreg
  by_cases hev : (run {} ops).state % 2 = 0
  · exact absurd (hk'.nwI hev hne) (no_notification hk'.wt.ww hq)
  · omega

/-- (B) a polled `upgradable_read()`/`write()` still waiting for the inner mutex at quiescence
means the inner mutex is held -/
theorem pending_lock_held (hq : (run {} ops).m.woken = []) (fu : Fut)
    (hfu : fu ∈ (run {} ops).futs) (hk : fu.kind = .uread ∨ fu.kind = .write)
    (hp : fu.polled = true) (hs : fu.stage = .init) : (run {} ops).m.st % 2 = 1 := by
  obtain ⟨hw, hr, hk'⟩ := reachable_all ops
  have hfl := hw.flags fu hfu
  have hslow := hfl.polledSlow hp hs hk
  have hdn : fu.l.done = false := by
    rcases hk with hk | hk
    · cases hd : fu.l.done
      · rfl
      · have := (hfl.ustage hk).1.mpr hd; rw [hs] at this; cases this
    · exact (hfl.wstage hk).mp hs
  have hreg := hr.mreg fu hfu
  simp only [LockSt.waiting, hslow, hdn, Bool.not_false, Bool.and_self] at hreg
  have hne := Ev.has_ne_nil hreg
  by_cases hev : (run {} ops).m.st % 2 = 0
  · exact absurd (hk'.baton hev hne) (no_notification hk'.wt.wm hq)
  · omega

/-- (C) a writer waiting for readers, or a polled pending upgrade, at quiescence means a reader
is left -/
theorem pending_writer_reader_left (hq : (run {} ops).m.woken = []) (fu : Fut)
    (hfu : fu ∈ (run {} ops).futs) (hon : fu.onNr = true) : 1 ≤ (run {} ops).state / 2 := by
  obtain ⟨hw, hr, hk'⟩ := reachable_all ops
  have hreg := hr.nrreg fu hfu
  rw [hon] at hreg
  have hne := Ev.has_ne_nil hreg
  by_cases hev : (run {} ops).state / 2 = 0
  · exact absurd (hk'.nrI hev hne) (no_notification hk'.wt.wr hq)
  · omega

/-- **C06 (iv).** Once no reader is left (no read guard, no upgradable guard), no writer waits
for readers and no polled upgrade is pending. -/
theorem C06_iv (hq : (run {} ops).m.woken = [])
    (hR : nG (run {} ops) .read = 0) (hU : nG (run {} ops) .uread = 0) :
    ∀ fu ∈ (run {} ops).futs, fu.onNr = false := by
  intro fu hfu
  cases hon : fu.onNr
  · rfl
  · have h1 := pending_writer_reader_left ops hq fu hfu hon
    obtain ⟨hw, _, _⟩ := reachable_all ops
    have hwd := hw.word
    have hsl := hw.slot
    simp only [owners] at hsl
    omega

/-- **C06 (i).** With no guard alive — and no never-polled upgrade future holding one — nothing
that has been polled is pending. -/
theorem C06_i (hq : (run {} ops).m.woken = [])
    (hR : nG (run {} ops) .read = 0) (hU : nG (run {} ops) .uread = 0)
    (hW : nG (run {} ops) .write = 0)
    (hup : ∀ fu ∈ (run {} ops).futs, fu.kind = .upgrade → fu.stage ≠ .done → fu.polled = true) :
    pendingPolled (run {} ops) = [] := by
  obtain ⟨hw, hr, hk'⟩ := reachable_all ops
  have hiv := C06_iv ops hq hR hU
  -- no writer waits for readers, no upgrade is pending
  have hPW : nPW (run {} ops) = 0 := by
    apply sum_zero_of_forall
    intro x hx
    have := hiv x hx
    simp only [Fut.onNr, Bool.or_eq_false_iff] at this
    simp [ind, this.1]
  have hPU : nPU (run {} ops) = 0 := by
    apply sum_zero_of_forall
    intro x hx
    cases hpu : x.isPU
    · simp [ind]
    · exfalso
      simp only [Fut.isPU, Bool.and_eq_true, beq_iff_eq, bne_iff_ne, ne_eq] at hpu
      have hp := hup x hx hpu.1 hpu.2
      have := hiv x hx
      simp [Fut.onNr, Fut.isPU, hpu.1, hpu.2, hp] at this
  have hmw := hw.mword
  have hwd := hw.word
  have hev := ticks_even (run {} ops)
  simp only [owners] at hmw
  refine Classical.byContradiction fun hne => ?_
  obtain ⟨fu, hfu⟩ := List.exists_mem_of_ne_nil _ hne
  simp only [pendingPolled, List.mem_filter, Bool.and_eq_true, bne_iff_ne, ne_eq] at hfu
  obtain ⟨hmem, hp, hs⟩ := hfu
  have hfl := hw.flags fu hmem
  cases hk : fu.kind with
  | read =>
    have := pending_read_bit ops hq fu hmem hk hp hs
    omega
  | uread =>
    have hst : fu.stage = .init := by
      have := (hfl.ustage hk).2
      cases h : fu.stage <;> simp_all
    have := pending_lock_held ops hq fu hmem (Or.inl hk) hp hst
    omega
  | write =>
    cases hst : fu.stage with
    | init =>
      have := pending_lock_held ops hq fu hmem (Or.inr hk) hp hst
      omega
    | waitReaders =>
      have := hiv fu hmem
      simp [Fut.onNr, Fut.isPW, hk, hst] at this
    | done => exact hs hst
  | upgrade =>
    have := hiv fu hmem
    simp [Fut.onNr, Fut.isPU, hk, hs, hp] at this

/-- **C06 (ii).** With no write guard alive and no writer or upgrader waiting (no polled pending
`write()`, no live upgrade future), no polled `read()` is pending. -/
theorem C06_ii (hq : (run {} ops).m.woken = [])
    (hW : nG (run {} ops) .write = 0)
    (hwr : ∀ fu ∈ (run {} ops).futs, fu.kind = .write → fu.polled = true → fu.stage = .done)
    (hup : nPU (run {} ops) = 0) :
    ∀ fu ∈ pendingPolled (run {} ops), fu.kind ≠ .read := by
  intro fu hfu hk
  obtain ⟨hw, _, _⟩ := reachable_all ops
  simp only [pendingPolled, List.mem_filter, Bool.and_eq_true, bne_iff_ne, ne_eq] at hfu
  obtain ⟨hmem, hp, hs⟩ := hfu
  have hbit := pending_read_bit ops hq fu hmem hk hp hs
  have hPW : nPW (run {} ops) = 0 := by
    apply sum_zero_of_forall
    intro x hx
    cases hpw : x.isPW
    · simp [ind]
    · exfalso
      simp only [Fut.isPW, Bool.and_eq_true, beq_iff_eq] at hpw
      have hpx := (hw.flags x hx).donePolled (by rw [hpw.2]; decide)
      have := hwr x hx hpw.1 hpx
      rw [hpw.2] at this; cases this
  have hwd := hw.word
  omega

/-- **C06 (iii).** With no write or upgradable guard alive and no writer waiting (no polled
pending `write()`, no live upgrade future), no polled `upgradable_read()` is pending. -/
theorem C06_iii (hq : (run {} ops).m.woken = [])
    (hW : nG (run {} ops) .write = 0) (hU : nG (run {} ops) .uread = 0)
    (hwr : ∀ fu ∈ (run {} ops).futs, fu.kind = .write → fu.polled = true → fu.stage = .done)
    (hup : nPU (run {} ops) = 0) :
    ∀ fu ∈ pendingPolled (run {} ops), fu.kind ≠ .uread := by
  intro fu hfu hk
  obtain ⟨hw, _, _⟩ := reachable_all ops
  simp only [pendingPolled, List.mem_filter, Bool.and_eq_true, bne_iff_ne, ne_eq] at hfu
  obtain ⟨hmem, hp, hs⟩ := hfu
  have hfl := hw.flags fu hmem
  have hst : fu.stage = .init := by
    have := (hfl.ustage hk).2
    cases h : fu.stage <;> simp_all
  have hheld := pending_lock_held ops hq fu hmem (Or.inl hk) hp hst
  have hPW : nPW (run {} ops) = 0 := by
    apply sum_zero_of_forall
    intro x hx
    cases hpw : x.isPW
    · simp [ind]
    · exfalso
      simp only [Fut.isPW, Bool.and_eq_true, beq_iff_eq] at hpw
      have hpx := (hw.flags x hx).donePolled (by rw [hpw.2]; decide)
      have := hwr x hx hpw.1 hpx
      rw [hpw.2] at this; cases this
  have hmw := hw.mword
  have hev := ticks_even (run {} ops)
  simp only [owners] at hmw
  omega

end

/-! ### Non-vacuity; the repaired defects as regression histories -/

/-- F1 (DESIGN §3): `downgrade_to_upgradable` now wakes the waiting reader. -/
example :
    let s := run {} [.try_ 0 .write false, .start 1 .read false, .poll 1 4 false, .conv 0 .toUpgradable]
    s.m.woken = [1] := by decide

/-- F2: a completed `write()` future kept alive no longer absorbs the last-reader notification. -/
example :
    let s := run {}
      [.start 0 .write false, .poll 0 0 false, .dropGuard 0, .try_ 1 .read false,
       .start 2 .write false, .poll 2 8 false, .dropGuard 1]
    s.m.woken = [2] ∧ s.nr.length = 1 := by decide

/-- The completed-upgrade variant (fixed in 2aef011). -/
example :
    let s := run {}
      [.try_ 0 .uread false, .try_ 1 .read false, .upgrade 0 2, .poll 2 8 false, .dropGuard 1,
       .poll 2 8 false, .dropGuard 2, .try_ 3 .read false, .start 4 .write false, .poll 4 16 false,
       .dropGuard 3]
    s.m.woken = [4] := by decide

/-- A quiescent state in which the premises of all four clauses hold non-trivially: everything
has been handed over and released. -/
example :
    let s := run {}
      [.try_ 0 .write false, .start 1 .read false, .start 2 .uread true, .start 3 .write false,
       .poll 1 4 false, .poll 2 8 false, .poll 3 12 false, .dropGuard 0,
       .poll 1 4 false, .poll 2 8 false, .dropGuard 1, .dropGuard 2, .poll 3 12 false, .dropGuard 3]
    s.m.woken = [] ∧ pendingPolled s = [] ∧ s.state = 0 ∧ s.m.st = 0 := by decide

/-! ### Blocking forms: a parked thread is a re-polled task

`read_blocking`, `write_blocking`, `upgrade_blocking` (and the Arc forms) drive the same
`poll_with_strategy` functions with the `Blocking` strategy; a parked thread resumes after
`strategy.poll(listener)` has returned, its listener consumed.  For `RawRead` that *is* the notified
branch of the poll.  For `RawWrite` (`WaitingReaders`) and `RawUpgrade` it is not: a re-polled future
first re-reads the state word and, if the readers are gone, returns *dropping* its notified listener
(which re-issues the notification), whereas the resumed thread has *consumed* it.  The two agree
when nobody else is registered on `no_readers` — which is the case in every reachable state, because
a waiter on `no_readers` holds the inner mutex (`write`) or the upgradable guard (`upgrade`); that
uniqueness is the hypothesis `honly` of the `_partial` theorem and is discharged for every reachable
state by `nr_single` (`Lemmas/RwLockNrSingle.lean`) in `C06_blocking_write_is_poll`.  (`upgradable_read_blocking` and the first stage of `write_blocking` park in
the inner mutex's `AcquireSlow`: `C05_blocking_is_poll`.) -/

/-- a thread parked in `RawRead` (blocking strategy) resumes -/
def resumeReadBlocking (s : Sys) (fu : Fut) (t : Nat) : RRes :=
  let f := fu.id
  -- `strategy.poll(listener)` returned: the entry is gone; `state = lock.state.load()`
  let s1 := { s with nw := Ev.erase s.nw f }
  if s.state % 2 = 0 then
    -- `no_writer.notify(1)`; continue; the CAS succeeds
    let s2 := s1.notifyNw
    ⟨{ s2 with state := s.state + 2 }, { fu with seen := s.state, stage := .done }, true, 4⟩
  else
    -- continue; writer bit set, no listener: listen, reload; next iteration: park on it
    ⟨{ s1 with nw := Ev.setTask (Ev.listen s1.nw f) f t }, { fu with seen := s.state }, false, 5⟩

/-- a thread parked in `RawWrite::WaitingReaders` (blocking strategy) resumes -/
def resumeWaitReadersBlocking (s : Sys) (fu : Fut) (t : Nat) (base : Nat) : RRes :=
  let f := fu.id
  -- `strategy.poll(no_readers)` returned: the entry is gone; next iteration: `state.load()`
  let s1 := { s with nr := Ev.erase s.nr f }
  if s.state = 1 then ⟨s1, { fu with stage := .done }, true, base + 1⟩
  else ⟨{ s1 with nr := Ev.setTask (Ev.listen s1.nr f) f t }, { fu with stage := .waitReaders },
         false, base + 3⟩

/-- **C06 (`read_blocking` is covered).** -/
theorem C06_blocking_read_is_poll (s : Sys) (fu : Fut) (t : Nat)
    (hh : Ev.has s.nw fu.id = true) (hn : Ev.isNotified s.nw fu.id = true) :
    resumeReadBlocking s fu t = pollRead s fu t := by
  unfold resumeReadBlocking pollRead
  simp only [hh, hn, Bool.not_true, Bool.false_eq_true, if_false]

/-- **C06 (`write_blocking`, second stage; partial: `honly` assumed, see above).** -/
theorem C06_blocking_write_is_poll_partial (s : Sys) (fu : Fut) (t base : Nat)
    (hn : Ev.isNotified s.nr fu.id = true) (honly : Ev.erase s.nr fu.id = []) :
    resumeWaitReadersBlocking s fu t base = pollWaitReaders s fu t base := by
  unfold resumeWaitReadersBlocking pollWaitReaders
  simp only [hn, Bool.not_true, Bool.false_eq_true, if_false]
  split
  · simp [Sys.dropNr, Ev.drop, Ev.dropOwners, Ev.dropTasks, hn, honly, Ev.notify_nil,
      Ev.notifyOwners, Ev.notifyTasks]
    cases notifyK (Ev.addOf s.nr fu.id) 1 [] <;> simp [notifyO, notifyT]
  · rfl

/-- **C06 (`write_blocking` / `upgrade`-style waiters on `no_readers` are covered).** In every
reachable state the hypothesis `honly` holds (`nr_single`: a waiter on `no_readers` owns the slot
of the inner mutex, and `WordInv.slot` says there is at most one owner), so the resume path of a
parked writer equals the poll of its notified future. -/
theorem C06_blocking_write_is_poll (ops : List Op) (fu : Fut) (t base : Nat)
    (hn : Ev.isNotified (run {} ops).nr fu.id = true) :
    resumeWaitReadersBlocking (run {} ops) fu t base = pollWaitReaders (run {} ops) fu t base := by
  obtain ⟨e, he, ho, _⟩ := Ev.isNotified_iff.mp hn
  exact C06_blocking_write_is_poll_partial _ fu t base hn
    (nr_single ops fu.id (Ev.has_iff.mpr ⟨e, he, ho⟩))

/-- a thread parked in `RawUpgrade` (blocking strategy: `upgrade_blocking`) resumes -/
def resumeUpgradeBlocking (s : Sys) (fu : Fut) (t : Nat) : RRes :=
  let f := fu.id
  -- `strategy.poll(listener)` returned: the entry is gone; next iteration: `state.load()`
  let s1 := { s with nr := Ev.erase s.nr f }
  if s.state = 1 then ⟨s1, { fu with stage := .done }, true, 60⟩      -- break; listener = None; Ready
  else ⟨{ s1 with nr := Ev.setTask (Ev.listen s1.nr f) f t }, fu, false, 63⟩

/-- **C06 (`upgrade_blocking` is covered).** -/
theorem C06_blocking_upgrade_is_poll (ops : List Op) (fu : Fut) (t : Nat)
    (hn : Ev.isNotified (run {} ops).nr fu.id = true) :
    resumeUpgradeBlocking (run {} ops) fu t = pollUpgrade (run {} ops) fu t := by
  obtain ⟨e, he, ho, _⟩ := Ev.isNotified_iff.mp hn
  have hh : Ev.has (run {} ops).nr fu.id = true := Ev.has_iff.mpr ⟨e, he, ho⟩
  have honly := nr_single ops fu.id hh
  generalize run {} ops = s at *
  unfold resumeUpgradeBlocking pollUpgrade
  simp only [hn, hh, Bool.not_true, Bool.false_eq_true, if_false]
  split
  · simp [Sys.dropNr, Ev.drop, Ev.dropOwners, Ev.dropTasks, hn, honly, Ev.notify_nil,
      Ev.notifyOwners, Ev.notifyTasks]
    cases notifyK (Ev.addOf s.nr fu.id) 1 [] <;> simp [notifyO, notifyT]
  · rfl

/-- without `honly` the two differ: the poll forwards the notification, the resumed thread has
consumed it (harmless only because no second waiter on `no_readers` can exist) -/
example :
    let s : Sys := { state := 1, nr := [{ owner := 0, notified := true, task := some 0 },
                                         { owner := 7, task := some 28 }] }
    let fu : Fut := { id := 0, kind := .write, arc := false, stage := .waitReaders }
    ((pollWaitReaders s fu 0 50).s.nr.map (·.notified)) = [true] ∧
    ((resumeWaitReadersBlocking s fu 0 50).s.nr.map (·.notified)) = [false] := by decide

end ALock.RwLock

/-! ## Where the notifications are sent (generated site table) -/

namespace ALock.Atomic.Calls

/-- every operation of `src/rwlock/raw.rs` on the state word and the inner mutex and every `listen` /
`notify` on `no_writer` / `no_readers`, function by function in source order (generated table) -/
theorem C06_calls_ok : fileShapes "src/rwlock/raw.rs" = rwlockRawExpected := by decide

end ALock.Atomic.Calls
