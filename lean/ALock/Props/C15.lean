import ALock.Lemmas.Sem
import ALock.Lemmas.Mutex
import ALock.Lemmas.RwLockReg

/-!
# C15 — Arc-owned guards and futures neither leak nor over-release the lock

Statement (properties.jsonl): for every sequence of Arc-flavoured operations (lock_arc, read_arc,
upgradable_read_arc, write_arc, acquire_arc, their try_/blocking forms, upgrade/try_upgrade/
downgrades of Arc guards, forget, cancellation), the strong count of the Arc always equals the
user's handles plus the owned guards alive plus the futures that still own a handle (a lock_arc
or upgrade future until it completes, an acquire_arc future until it is dropped). The lock and
its value are dropped exactly once, after the last of them is gone, and an owned guard stays
valid after every user handle is dropped.

In the three models `strong` is a *counter*, updated exactly where the code clones, moves or
drops the `Arc` (`lock_arc()` clones; the fast path of `LockArc` clones into the guard and drops
its own clone; the slow path moves it; `read_arc`/`write_arc`/`upgradable_read_arc` futures borrow
and clone at completion; `UpgradeArc` moves the guard's `Arc` in and out; `forget` drops it; ...).
The theorems say that after **every** history this counter equals handles + owned guards +
owning futures, so it never under- or overflows against them (`Nat` subtraction at 0 would break
the equality), and that it is 0 — the point at which `Arc` drops the lock and its value, once —
exactly when none of them is left.  The tie to the real `Arc::strong_count` and to the payload's
drop counter is the differential run.
-/

namespace ALock

def ind (b : Bool) : Nat := if b then 1 else 0
@[simp] theorem ind_true : ind true = 1 := rfl
@[simp] theorem ind_false : ind false = 0 := rfl

/-! ### Semaphore -/

namespace Sem

def arcF (s : Sys) : Nat := (s.futs.map fun x => ind x.arc).sum
def arcG (s : Sys) : Nat := (s.guards.map fun x => ind x.arc).sum

structure CountInv (s : Sys) : Prop where
  nodup : (s.futs.map (·.id)).Nodup
  count : s.strong = s.handles + arcF s + arcG s
  handle : 1 ≤ s.handles

theorem guards_erase_arc (s : Sys) (g : Nat) (gu : Guard) (hf : findGuard s g = some gu) :
    ((s.guards.eraseP (·.id == g)).map fun x => ind x.arc).sum + ind gu.arc
      = (s.guards.map fun x => ind x.arc).sum :=
  sum_map_eraseP_find s.guards (·.id == g) _ gu hf

theorem sum_arc_setFut (futs : List Fut) (f : Nat) (g : Fut → Fut) (hg : ∀ x, (g x).arc = x.arc) :
    ((setFut futs f g).map fun x => ind x.arc).sum = (futs.map fun x => ind x.arc).sum :=
  sum_map_update_same futs (fun y => y.id == f) g _ (fun x => by simp [hg])

theorem nodup_setFut (futs : List Fut) (f : Nat) (g : Fut → Fut) (hg : ∀ x, (g x).id = x.id)
    (hn : (futs.map (·.id)).Nodup) : ((setFut futs f g).map (·.id)).Nodup :=
  nodup_map_update futs (fun x : Fut => x.id) f g hg hn

theorem step_count (s : Sys) (op : Op) (h : CountInv s) : CountInv (next s op) := by
  obtain ⟨hn, hc, hh⟩ := h
  unfold next
  cases op with
  | start f arc =>
    simp only [step]; split
    · rename_i hfr
      refine ⟨nodup_cons_fresh _ _ _ hn (fresh_fut hfr), ?_, hh⟩
      simp only [arcF, arcG, List.map_cons, List.sum_cons] at hc ⊢
      cases arc <;> simp at hc ⊢ <;> omega
    · exact ⟨hn, hc, hh⟩
  | poll f t =>
    simp only [step]
    split
    · rename_i fu hfu
      split
      · exact ⟨hn, hc, hh⟩
      · simp only [poll]
        split
        · refine ⟨nodup_setFut _ _ _ (fun _ => rfl) (nodup_setFut _ _ _ (fun _ => rfl) hn), ?_, hh⟩
          simp only [arcF, arcG, Sys.dropListener, List.map_cons, List.sum_cons] at hc ⊢
          rw [sum_arc_setFut, sum_arc_setFut]
          · cases fu.arc <;> simp <;> omega
          · intro _; rfl
          · intro _; rfl
        · split
          · split <;>
              (refine ⟨nodup_setFut _ _ _ (fun _ => rfl) hn, ?_, hh⟩
               simp only [arcF, arcG] at hc ⊢
               rw [sum_arc_setFut]
               · exact hc
               · intro _; rfl)
          · refine ⟨nodup_setFut _ _ _ (fun _ => rfl) hn, ?_, hh⟩
            simp only [arcF, arcG] at hc ⊢
            rw [sum_arc_setFut]
            · exact hc
            · intro _; rfl
    · exact ⟨hn, hc, hh⟩
  | dropFut f =>
    simp only [step]; split
    · rename_i fu hfu
      have hmem := findFut_mem hfu
      have hs := sum_map_filter_ne s.futs (fun x : Fut => x.id) f (fun x => ind x.arc) fu hn hmem.1 hmem.2
      refine ⟨nodup_map_filter _ _ _ hn, ?_, hh⟩
      simp only [arcF, arcG, Sys.dropListener] at hc hs ⊢
      cases hfa : fu.arc <;> simp [hfa] at hs ⊢ <;> omega
    · exact ⟨hn, hc, hh⟩
  | tryAcq g arc =>
    simp only [step]; split
    · split
      · refine ⟨hn, ?_, hh⟩
        simp only [arcF, arcG, List.map_cons, List.sum_cons] at hc ⊢
        cases arc <;> simp <;> omega
      · exact ⟨hn, hc, hh⟩
    · exact ⟨hn, hc, hh⟩
  | dropGuard g =>
    simp only [step]; split
    · rename_i gu hgu
      have := guards_erase_arc s g gu hgu
      refine ⟨hn, ?_, hh⟩
      simp only [arcF, arcG, Sys.doNotify] at hc this ⊢
      cases hga : gu.arc <;> simp [hga] at this ⊢ <;> omega
    · exact ⟨hn, hc, hh⟩
  | forget g =>
    simp only [step]; split
    · rename_i gu hgu
      have := guards_erase_arc s g gu hgu
      refine ⟨hn, ?_, hh⟩
      simp only [arcF, arcG] at hc this ⊢
      cases hga : gu.arc <;> simp [hga] at this ⊢ <;> omega
    · exact ⟨hn, hc, hh⟩
  | add n => exact ⟨hn, by simpa [step, arcF, arcG, Sys.doNotify] using hc, hh⟩
  | hclone =>
    refine ⟨hn, ?_, by simp [step] <;> omega⟩
    simp only [step, arcF, arcG] at hc ⊢; omega
  | hdrop =>
    simp only [step]; split
    · refine ⟨hn, ?_, by simp <;> omega⟩
      simp only [arcF, arcG] at hc ⊢; omega
    · exact ⟨hn, hc, hh⟩

theorem run_count (s : Sys) (ops : List Op) (h : CountInv s) : CountInv (run s ops) := by
  induction ops generalizing s with
  | nil => exact h
  | cons op ops ih => exact ih _ (step_count s op h)

/-- **C15 (Semaphore).** strong count = user handles + owned guards alive + `acquire_arc` futures
alive (an `AcquireArc` owns its handle until it is dropped), after every history. -/
theorem C15_sem (n : Nat) (ops : List Op) :
    (run (Sys.new n) ops).strong
      = (run (Sys.new n) ops).handles + arcF (run (Sys.new n) ops) + arcG (run (Sys.new n) ops) :=
  (run_count _ ops ⟨by simp [Sys.new], by simp [Sys.new, arcF, arcG], by simp [Sys.new]⟩).count

end Sem


/-! ### Mutex -/

namespace Mutex

def arcF (s : Sys) : Nat := (s.futs.map fun x => ind (x.arc && !x.l.done)).sum
def arcG (s : Sys) : Nat := (s.guards.map fun x => ind x.arc).sum

def Count (s : Sys) : Prop := s.strong = s.handles + arcF s + arcG s

theorem step_count (s : Sys) (op : Op) (h : MInv s) (hc : Count s) : Count (next s op) := by
  unfold Count at *
  unfold next
  cases op with
  | start f arc =>
    simp only [step]; split
    · simp only [arcF, arcG, List.map_cons, List.sum_cons] at hc ⊢
      cases arc <;> simp at hc ⊢ <;> omega
    · exact hc
  | poll f t fire =>
    simp only [step]
    split
    · rename_i fu hfu
      obtain ⟨hmem, hid⟩ := findFut_mem hfu
      split
      · exact hc
      · rename_i hdone
        simp only [Bool.not_eq_true] at hdone
        have hfl := lockPoll_flags (s.c.polled f) fu.l f t fire hdone (h.flags fu hmem).starvedSlow
        generalize lockPoll (s.c.polled f) fu.l f t fire = r at *
        have hsum := sum_map_update s.futs (fun x : Fut => x.id) f
          (fun x => { x with l := r.l, polled := true, waker := t })
          (fun x => ind (x.arc && !x.l.done)) fu h.nodup hmem hid
        simp only [hdone, Bool.not_false, Bool.and_true] at hsum
        split
        · rename_i hr
          have hd : r.l.done = true := by rw [hfl.1]; exact hr
          simp only [arcF, arcG, setFut, List.map_cons, List.sum_cons, hd, Bool.not_true,
            Bool.and_false, ind_false] at hc hsum ⊢
          omega
        · rename_i hr
          simp only [Bool.not_eq_true] at hr
          have hd : r.l.done = false := by rw [hfl.1]; exact hr
          simp only [arcF, arcG, setFut, hd, Bool.not_false, Bool.and_true] at hc hsum ⊢
          omega
    · exact hc
  | dropFut f =>
    simp only [step]; split
    · rename_i fu hfu
      obtain ⟨hmem, hid⟩ := findFut_mem hfu
      have hs := sum_map_filter_ne s.futs (fun x : Fut => x.id) f
        (fun x => ind (x.arc && !x.l.done)) fu h.nodup hmem hid
      simp only [arcF, arcG] at hc hs ⊢
      cases h1 : fu.arc <;> cases h2 : fu.l.done <;> simp [h1, h2] at hs ⊢ <;> omega
    · exact hc
  | tryLock g arc =>
    simp only [step]; split
    · split
      · simp only [arcF, arcG, List.map_cons, List.sum_cons] at hc ⊢
        cases arc <;> simp <;> omega
      · exact hc
    · exact hc
  | dropGuard g =>
    simp only [step]; split
    · rename_i gu hgu
      have := sum_map_eraseP_find s.guards (·.id == g) (fun x => ind x.arc) gu hgu
      simp only [arcF, arcG] at hc this ⊢
      cases hga : gu.arc <;> simp [hga] at this ⊢ <;> omega
    · exact hc
  | hclone =>
    simp only [step]; split
    · simp only [arcF, arcG] at hc ⊢; omega
    · exact hc
  | hdrop =>
    simp only [step]; split
    · rename_i hcond
      simp only [arcF, arcG] at hc ⊢
      have : 1 ≤ s.handles := by
        simp only [Bool.or_eq_true, decide_eq_true_eq, Bool.and_eq_true, beq_iff_eq] at hcond
        omega
      omega
    · exact hc

theorem run_count (s : Sys) (ops : List Op) (h : MInv s) (hc : Count s) : Count (run s ops) := by
  induction ops generalizing s with
  | nil => exact hc
  | cons op ops ih => exact ih _ (step_inv s op h) (step_count s op h hc)

/-- **C15 (Mutex).** strong count = user handles + owned guards alive + `lock_arc` futures that
have not completed (a `LockArc` owns its handle until it completes), after every history. -/
theorem C15_mutex (ops : List Op) :
    (run {} ops).strong = (run {} ops).handles + arcF (run {} ops) + arcG (run {} ops) :=
  run_count _ ops init_inv (by simp [Count, arcF, arcG])

/-- the lock (and its value) is dropped — `strong = 0` — exactly when no handle, no owned guard
and no owning future is left -/
theorem C15_mutex_dropped_iff (ops : List Op) :
    (run {} ops).strong = 0 ↔
      ((run {} ops).handles = 0 ∧ arcF (run {} ops) = 0 ∧ arcG (run {} ops) = 0) := by
  have := C15_mutex ops
  omega

end Mutex

/-! ### RwLock -/

namespace RwLock

def ownsArc (x : Fut) : Bool := x.arc && x.kind == .upgrade && x.stage != .done
def arcF (s : Sys) : Nat := (s.futs.map fun x => ALock.ind (ownsArc x)).sum
def arcG (s : Sys) : Nat := (s.guards.map fun x => ALock.ind x.arc).sum

def Count (s : Sys) : Prop := s.strong = s.handles + arcF s + arcG s

theorem afterPoll_strong (r : RRes) (fu : Fut) (f t : Nat) :
    (afterPoll r fu f t).strong
      = if r.ready && fu.arc && fu.kind != .upgrade then r.s.strong + 1 else r.s.strong := by
  unfold afterPoll
  cases r.ready <;> simp

theorem afterPoll_guards (r : RRes) (fu : Fut) (f t : Nat) :
    (afterPoll r fu f t).guards
      = if r.ready then { id := f, kind := fu.kind.guard, arc := fu.arc } :: r.s.guards else r.s.guards := by
  unfold afterPoll
  cases r.ready <;> simp

theorem pollWaitReaders_sh (s : Sys) (fu : Fut) (t b : Nat) :
    (pollWaitReaders s fu t b).s.strong = s.strong ∧ (pollWaitReaders s fu t b).s.handles = s.handles := by
  unfold pollWaitReaders; simp only []; (repeat' split) <;> simp [Sys.dropNr]

theorem pollWrite_sh (s : Sys) (fu : Fut) (t : Nat) (fire : Bool) :
    (pollWrite s fu t fire).s.strong = s.strong ∧ (pollWrite s fu t fire).s.handles = s.handles := by
  unfold pollWrite
  cases fu.stage <;> simp only []
  · split
    · have := pollWaitReaders_sh
      simpa using this _ _ t _
    · simp
  · exact pollWaitReaders_sh s fu t 50
  · exact pollWaitReaders_sh s fu t 50

/-- what a poll does to the strong count and the handles (nothing) and to the stage of the
polled future when it is an upgrade -/
theorem pollFut_count (s : Sys) (fu : Fut) (t : Nat) (fire : Bool) :
    let r := pollFut s fu t fire
    r.s.strong = s.strong ∧ r.s.handles = s.handles ∧ r.s.guards = s.guards ∧ r.s.futs = s.futs ∧
    r.fu.arc = fu.arc ∧ r.fu.kind = fu.kind ∧ r.fu.id = fu.id ∧
    (fu.kind = .upgrade → fu.stage ≠ .done → (r.ready = true → r.fu.stage = .done) ∧
      (r.ready = false → r.fu.stage ≠ .done)) := by
  unfold pollFut
  cases hk : fu.kind with
  | read =>
    obtain ⟨E, _⟩ := pollRead_eff s fu t
    have : (pollRead s fu t).s.strong = s.strong ∧ (pollRead s fu t).s.handles = s.handles := by
      unfold pollRead; simp only []; (repeat' split) <;> simp [Sys.notifyNw]
    exact ⟨this.1, this.2, E.guards, E.futs, E.arc, by rw [E.kind, hk], E.id, by simp⟩
  | uread =>
    obtain ⟨E, _⟩ := pollUread_eff s fu t fire
    have : (pollUread s fu t fire).s.strong = s.strong ∧ (pollUread s fu t fire).s.handles = s.handles := by
      unfold pollUread; simp only []; split <;> simp
    exact ⟨this.1, this.2, E.guards, E.futs, E.arc, by rw [E.kind, hk], E.id, by simp⟩
  | write =>
    obtain ⟨E, _⟩ := pollWrite_eff s fu t fire
    have := pollWrite_sh s fu t fire
    exact ⟨this.1, this.2, E.guards, E.futs, E.arc, by rw [E.kind, hk], E.id, by simp⟩
  | upgrade =>
    obtain ⟨E, _, _, _, hr, hp⟩ := pollUpgrade_eff s fu t
    have : (pollUpgrade s fu t).s.strong = s.strong ∧ (pollUpgrade s fu t).s.handles = s.handles := by
      unfold pollUpgrade; simp only []; (repeat' split) <;> simp [Sys.dropNr]
    refine ⟨this.1, this.2, E.guards, E.futs, E.arc, by rw [E.kind, hk], E.id, ?_⟩
    intro _ hnd
    exact ⟨fun h => (hr h).2, fun h => by rw [hp h]; exact hnd⟩

theorem dropFutS_count (s : Sys) (fu : Fut) :
    (dropFutS s fu).strong = s.strong ∧ (dropFutS s fu).handles = s.handles ∧
    (dropFutS s fu).guards = s.guards := by
  unfold dropFutS
  cases fu.kind <;> simp only []
  · simp [Sys.dropNw]
  · split <;> simp
  · cases fu.stage <;> simp [Sys.dropNr, Sys.writeUnlock, Sys.unlockM, Sys.notifyNw]
  · split <;> simp [Sys.dropNr, Sys.writeUnlock, Sys.unlockM, Sys.notifyNw]

theorem step_count (s : Sys) (op : Op) (h : WordInv s) (hc : Count s) : Count (next s op) := by
  unfold Count at *
  cases op with
  | start f k arc =>
    simp only [next, step]
    split
    · rename_i hcnd
      simp only [Bool.and_eq_true, decide_eq_true_eq, bne_iff_ne, ne_eq] at hcnd
      simp only [arcF, arcG, List.map_cons, List.sum_cons, ownsArc] at hc ⊢
      have : (k == Kind.upgrade) = false := by simp [hcnd.2]
      simp [this] at hc ⊢
      omega
    · exact hc
  | poll f t fire =>
    cases hf : findFut s f with
    | none => simp only [next, step, hf]; exact hc
    | some fu =>
      by_cases hd : fu.stage = .done
      · simp only [next, step, hf, hd, if_true]; exact hc
      · rw [step_poll_eq s f t fire fu hf hd]
        obtain ⟨hmem, hid⟩ := findFut_mem hf
        obtain ⟨c1, c2, c3, c4, c5, c6, c7, c8⟩ := pollFut_count { s with m := s.m.polled f } fu t fire
        generalize pollFut { s with m := s.m.polled f } fu t fire = r at *
        simp only [] at c1 c2 c3 c4
        obtain ⟨_, _, _, _, q5⟩ := afterPoll_queues r fu f t
        have hsum := sum_map_update s.futs (fun x : Fut => x.id) f
          (fun _ => { r.fu with polled := true, waker := t }) (fun x => ALock.ind (ownsArc x)) fu
          h.nodup hmem hid
        have hhandles : (afterPoll r fu f t).handles = s.handles := by
          unfold afterPoll; split <;> simp [c2]
        have hfuts : (afterPoll r fu f t).futs
            = s.futs.map (fun y => if y.id == f then { r.fu with polled := true, waker := t } else y) := by
          rw [q5, c4]; rfl
        -- value of the polled future's term before and after
        have hnf : ownsArc { r.fu with polled := true, waker := t }
            = (fu.arc && fu.kind == .upgrade && r.fu.stage != .done) := by
          simp [ownsArc, c5, c6]
        have hof : ownsArc fu = (fu.arc && fu.kind == .upgrade) := by
          simp [ownsArc, hd]
        rw [hnf, hof] at hsum
        show (afterPoll r fu f t).strong
          = (afterPoll r fu f t).handles + ((afterPoll r fu f t).futs.map fun x => ALock.ind (ownsArc x)).sum
            + ((afterPoll r fu f t).guards.map fun x => ALock.ind x.arc).sum
        rw [afterPoll_strong, afterPoll_guards, hhandles, hfuts, c1, c3]
        simp only [arcF, arcG] at hc
        by_cases hk : fu.kind = .upgrade
        · have c8' := c8 hk hd
          cases hr : r.ready
          · have hst := c8'.2 hr
            have e1 : (r.fu.stage != Stage.done) = true := by simp [hst]
            simp only [hk, beq_self_eq_true, Bool.and_true, e1] at hsum
            simp only [Bool.false_and, Bool.false_eq_true, if_false]
            omega
          · have hst := c8'.1 hr
            have e1 : (r.fu.stage != Stage.done) = false := by simp [hst]
            simp only [hk, beq_self_eq_true, Bool.and_true, e1, Bool.and_false, ind_false] at hsum
            simp only [hk, bne_self_eq_false, Bool.and_false, Bool.false_eq_true, if_false, if_true,
              List.map_cons, List.sum_cons]
            omega
        · have hkb : (fu.kind == Kind.upgrade) = false := by simp [hk]
          have hkn : (fu.kind != Kind.upgrade) = true := by simp [hk]
          simp only [hkb, Bool.and_false, Bool.false_and, ind_false, Nat.add_zero] at hsum
          cases hr : r.ready
          · simp only [Bool.false_and, Bool.false_eq_true, if_false]
            omega
          · simp only [Bool.true_and, hkn, Bool.and_true, if_true, List.map_cons, List.sum_cons]
            cases hfa : fu.arc <;>
              simp only [ind_true, ind_false, if_true, Bool.false_eq_true, if_false] <;> omega
  | dropFut f =>
    cases hf : findFut s f with
    | none => simp only [next, step, hf]; exact hc
    | some fu =>
      obtain ⟨hmem, hid⟩ := findFut_mem hf
      simp only [next, step, hf]
      obtain ⟨d1, d2, d3⟩ := dropFutS_count { s with m := s.m.polled f } fu
      have hs := sum_map_filter_ne s.futs (fun x : Fut => x.id) f (fun x => ALock.ind (ownsArc x)) fu
        h.nodup hmem hid
      simp only [arcF, arcG, dropFutS_futs, d1, d2, d3] at hc hs ⊢
      by_cases ho : ownsArc fu = true
      · have : (fu.arc && fu.kind == Kind.upgrade && fu.stage != Stage.done) = true := ho
        simp [ho, this] at hs ⊢
        omega
      · simp only [Bool.not_eq_true] at ho
        have : (fu.arc && fu.kind == Kind.upgrade && fu.stage != Stage.done) = false := ho
        simp [ho, this] at hs ⊢
        omega
  | try_ g k arc =>
    simp only [next, step]
    have grant : ∀ (st : Nat) (m : Core) (k : GKind),
        (if arc = true then s.strong + 1 else s.strong)
          = s.handles + (s.futs.map fun x => ALock.ind (ownsArc x)).sum
            + (({ id := g, kind := k, arc := arc } :: s.guards).map fun x => ALock.ind x.arc).sum := by
      intro _ _ _
      simp only [arcF, arcG, List.map_cons, List.sum_cons] at hc ⊢
      cases arc <;> simp only [ind_true, ind_false, if_true, Bool.false_eq_true, if_false] <;> omega
    split
    · cases k with
      | read =>
        simp only []
        split
        · exact grant 0 s.m .read
        · exact hc
      | uread =>
        simp only []
        split
        · exact grant 0 s.m .uread
        · exact hc
      | write =>
        simp only []
        split
        · split
          · exact grant 0 s.m .write
          · exact hc
        · exact hc
    · exact hc
  | dropGuard g =>
    cases hg : findGuard s g with
    | none => simp only [next, step, hg]; exact hc
    | some gu =>
      simp only [next, step, hg]
      have he := sum_map_eraseP_find s.guards (·.id == g) (fun x => ALock.ind x.arc) gu hg
      cases gu.kind <;> simp only []
      · obtain ⟨_, _, w3, w4⟩ := readUnlock_fields s
        have : s.readUnlock.strong = s.strong ∧ s.readUnlock.handles = s.handles := by
          unfold Sys.readUnlock; split <;> simp [Sys.notifyNr]
        simp only [arcF, arcG, w3, w4, this.1, this.2] at hc he ⊢
        cases hga : gu.arc <;> simp [hga] at he ⊢ <;> omega
      · obtain ⟨_, _, w3, w4⟩ := ureadUnlock_fields s
        have : s.ureadUnlock.strong = s.strong ∧ s.ureadUnlock.handles = s.handles := by
          unfold Sys.ureadUnlock Sys.readUnlock; split <;> simp [Sys.notifyNr, Sys.unlockM]
        simp only [arcF, arcG, w3, w4, this.1, this.2] at hc he ⊢
        cases hga : gu.arc <;> simp [hga] at he ⊢ <;> omega
      · obtain ⟨_, _, w3, w4⟩ := writeUnlock_fields s
        have : s.writeUnlock.strong = s.strong ∧ s.writeUnlock.handles = s.handles := by
          simp [Sys.writeUnlock, Sys.notifyNw, Sys.unlockM]
        simp only [arcF, arcG, w3, w4, this.1, this.2] at hc he ⊢
        cases hga : gu.arc <;> simp [hga] at he ⊢ <;> omega
  | conv g c =>
    cases hg : findGuard s g with
    | none => simp only [next, step, hg]; exact hc
    | some gu =>
      simp only [next, step, hg]
      have hgid := (findGuard_mem hg).2
      subst hgid
      have he := sum_map_eraseP_find s.guards (·.id == gu.id) (fun x => ALock.ind x.arc) gu hg
      cases gu.kind <;> cases c <;> simp only [] <;> (try exact hc) <;>
        (try (split <;> (try exact hc))) <;>
        (simp only [arcF, arcG, convGuard, List.map_cons, List.sum_cons, Sys.unlockM, Sys.notifyNw] at hc he ⊢
         omega)
  | upgrade g f =>
    cases hg : findGuard s g with
    | none => simp only [next, step, hg]; exact hc
    | some gu =>
      simp only [next, step, hg]
      split
      · have he := sum_map_eraseP_find s.guards (·.id == g) (fun x => ALock.ind x.arc) gu hg
        have hnew : ownsArc { id := f, kind := .upgrade, arc := gu.arc, waker := f * 4 } = gu.arc := by
          simp [ownsArc]
        simp only [arcF, arcG, List.map_cons, List.sum_cons, hnew] at hc he ⊢
        omega
      · exact hc
  | hclone =>
    simp only [next, step]; split
    · simp only [arcF, arcG] at hc ⊢; omega
    · exact hc
  | hdrop =>
    simp only [next, step]; split
    · rename_i hcond
      simp only [arcF, arcG] at hc ⊢
      have : 1 ≤ s.handles := by
        simp only [Bool.or_eq_true, decide_eq_true_eq, Bool.and_eq_true, beq_iff_eq] at hcond
        omega
      omega
    · exact hc

theorem run_count (s : Sys) (ops : List Op) (h : WordInv s) (hc : Count s) : Count (run s ops) := by
  induction ops generalizing s with
  | nil => exact hc
  | cons op ops ih => exact ih _ (step_word s op h) (step_count s op h hc)

/-- **C15 (RwLock).** strong count = user handles + owned guards alive + `UpgradeArc` futures
that have not completed (`read_arc`/`write_arc`/`upgradable_read_arc` futures only borrow the
`Arc`), after every history over the Arc alphabet — conversions, cancellation at any point. -/
theorem C15_rwlock (ops : List Op) :
    (run {} ops).strong = (run {} ops).handles + arcF (run {} ops) + arcG (run {} ops) :=
  run_count _ ops init_word (by simp [Count, arcF, arcG])

theorem C15_rwlock_dropped_iff (ops : List Op) :
    (run {} ops).strong = 0 ↔
      ((run {} ops).handles = 0 ∧ arcF (run {} ops) = 0 ∧ arcG (run {} ops) = 0) := by
  have := C15_rwlock ops
  omega

/-- an owned guard stays valid after every user handle is dropped: the model (and, by the
differential run, the implementation) goes on accepting operations on it -/
example :
    let s := run {} [.try_ 0 .write true, .hdrop, .conv 0 .toUpgradable, .upgrade 0 1, .poll 1 4 false]
    s.handles = 0 ∧ s.strong = 1 ∧ nG s .write = 1 ∧ (next s (.dropGuard 1)).strong = 0 := by decide

end RwLock

end ALock
