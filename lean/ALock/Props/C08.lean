import ALock.Lemmas.OnceCell
import ALock.Atomic.Calls

/-!
# C08 — OnceCell: waiters finish on init; a failed initialiser hands over

Statement (properties.jsonl): once a OnceCell is initialised, every pending wait, get_or_init,
get_or_try_init and set (and every thread parked in a blocking form) completes with the value.
If the running initialiser returns Err, panics or is cancelled, the cell is empty again — never
stuck in an initialising state — and, if any get_or_init-style callers are waiting, one of them
is woken and runs its own closure; the error or panic is reported only to the caller whose
closure produced it.

Proved for **every** finite history of the poll-granular OnceCell model: any number of callers of
the four kinds, initialiser futures resolved `ok` / `err` / `panic` or left pending at every poll,
cancellation (`dropFut`) at every point, `take` between epochs.  Invariants (`Lemmas/OnceCell`):
`WInv` (state 1 ⇔ exactly one live caller runs its initialiser; a value is stored ⇔ state 2),
`RInv` (who is registered on `active_initializers` / `passive_waiters`; no stale listeners),
`KInv` (wake bookkeeping; in state 2 every registered listener is notified; in state 0 a
registered initialising caller implies a notified one).

Blocking forms (`*_blocking`) are not in the model (a parked thread is a task that is re-polled
when woken); thread interleavings are not covered.
-/

namespace ALock.Once

theorem no_notification {q : List Entry} {w : List Nat} (hw : WakeOK q w) (he : w = [])
    (e : Entry) (hm : e ∈ q) : e.notified = false := by
  cases hn : e.notified
  · rfl
  · have := hw e hm hn
    rw [he] at this; cases this

/-- a polled, uncompleted caller is either registered or runs its initialiser -/
theorem pending_cases (ops : List Op) (fu : Fut) (hfu : fu ∈ pendingPolled (run {} ops)) :
    fu ∈ (run {} ops).futs ∧ (fu.pc = .waiting ∨ fu.pc = .running) := by
  obtain ⟨hw, _, _⟩ := reachable_all ops
  simp only [pendingPolled, List.mem_filter, Bool.and_eq_true, bne_iff_ne, ne_eq] at hfu
  obtain ⟨hm, hp, hd⟩ := hfu
  have := (hw.flags fu hm).startOf hp
  refine ⟨hm, ?_⟩
  cases h : fu.pc <;> simp_all

/-- **C08 (waiters finish on init).** Initialised + no outstanding wake-up ⇒ nobody who has been
polled is still pending. -/
theorem C08_init (ops : List Op) (h2 : (run {} ops).state = 2) (hq : (run {} ops).woken = []) :
    pendingPolled (run {} ops) = [] := by
  obtain ⟨hw, hr, hk⟩ := reachable_all ops
  refine Classical.byContradiction fun hne => ?_
  obtain ⟨fu, hfu⟩ := List.exists_mem_of_ne_nil _ hne
  obtain ⟨hm, hpc⟩ := pending_cases ops fu hfu
  rcases hpc with hpc | hpc
  · -- registered on one of the two events, whose entries are all notified
    obtain ⟨nA, nP⟩ := hk.live.allN h2
    by_cases hkw : fu.kind = .wait
    · have hreg := hr.regP fu hm
      simp only [Fut.onPas, hkw, hpc, beq_self_eq_true, Bool.and_self] at hreg
      obtain ⟨e, he, _⟩ := Ev.has_iff.mp hreg
      have := no_notification hk.wt.wp hq e he
      rw [nP e he] at this; cases this
    · have hreg := hr.regA fu hm
      have hkb : (fu.kind != Kind.wait) = true := by simp [hkw]
      simp only [Fut.onAct, hkb, hpc, beq_self_eq_true, Bool.and_self] at hreg
      obtain ⟨e, he, _⟩ := Ev.has_iff.mp hreg
      have := no_notification hk.wt.wa hq e he
      rw [nA e he] at this; cases this
  · have := running_state hw hm hpc
    omega

/-- **C08 (never stuck initialising).** The cell is in the initialising state exactly while a
live caller is running its initialiser; Err, panic and cancellation all leave that state. -/
theorem C08_not_stuck (ops : List Op) :
    (run {} ops).state = 1 ↔ ∃ fu ∈ (run {} ops).futs, fu.pc = .running := by
  obtain ⟨hw, _, _⟩ := reachable_all ops
  constructor
  · intro h1
    have hr := hw.run1
    simp only [h1, if_true] at hr
    refine Classical.byContradiction fun hne => ?_
    have : nRun (run {} ops) = 0 :=
      sum_map_zero _ _ (fun x hx => ind_run_of_ne (fun hc => hne ⟨x, hx, hc⟩))
    omega
  · rintro ⟨fu, hm, hp⟩
    exact running_state hw hm hp

/-- **C08 (a failed initialiser hands over).** Empty again + no outstanding wake-up ⇒ no
`get_or_init`-style caller that has been polled is still pending (the woken one has taken over and
runs its own closure, or nobody was waiting). -/
theorem C08_handover (ops : List Op) (h0 : (run {} ops).state = 0) (hq : (run {} ops).woken = []) :
    ∀ fu ∈ pendingPolled (run {} ops), fu.kind = .wait := by
  obtain ⟨hw, hr, hk⟩ := reachable_all ops
  intro fu hfu
  obtain ⟨hm, hpc⟩ := pending_cases ops fu hfu
  refine Classical.byContradiction fun hkw => ?_
  rcases hpc with hpc | hpc
  · have hreg := hr.regA fu hm
    have hkb : (fu.kind != Kind.wait) = true := by simp [hkw]
    simp only [Fut.onAct, hkb, hpc, beq_self_eq_true, Bool.and_self] at hreg
    have hne := Ev.has_ne_nil hreg
    have hc := hk.live.baton h0 hne
    obtain ⟨e, he, hn⟩ := (cnt_pos_iff _).mp hc
    have := no_notification hk.wt.wa hq e he
    rw [hn] at this; cases this
  · have := running_state hw hm hpc
    omega

/-- **C08 (blame).** A caller's poll reports an error or a panic only if its *own* initialiser
produced it in that very poll. -/
theorem C08_blame (s : Sys) (f t : Nat) (i : Input) :
    ((step s (.poll f t i)).2 = .readyErr → i = .err) ∧
    ((step s (.poll f t i)).2 = .panicked → i = .panic ∨ i = .cpanic) := by
  have key : ∀ (s : Sys) (fu : Fut), ((runInit s fu i).out = .readyErr → i = .err) ∧
      ((runInit s fu i).out = .panicked → i = .panic ∨ i = .cpanic) := by
    intro s fu
    unfold runInit report
    by_cases hk : fu.kind = .set
    · simp only [hk, if_true]; constructor <;> intro h <;> simp at h
    · simp only [hk, if_false]
      by_cases hr : fu.pc = .running <;> by_cases ht : fu.kind = .tryInit <;>
        cases i <;> simp [hr, ht]
  simp only [step]
  cases hf : findFut s f with
  | none => simp
  | some fu =>
    simp only []
    split
    · simp
    · split
      · -- wait(): never reports an error
        simp only [pollWait]
        cases fu.pc <;> simp only [] <;> (repeat' split) <;> simp
      · simp only [pollInit]
        cases fu.pc <;> simp only [] <;> (repeat' split) <;>
          first
            | exact key _ fu
            | (simp [report] <;> (repeat' split) <;> (try simp))

/-! ### Non-vacuity -/

/-- four callers; the first initialiser fails, the second is cancelled while running, the third
succeeds; the `wait()` and the `set()` complete with the third caller's value. -/
example :
    let s := run {}
      [.start 0 .tryInit, .start 1 .init, .start 2 .init, .start 3 .wait, .start 4 .set,
       .poll 0 0 .pend, .poll 1 4 .pend, .poll 2 8 .pend, .poll 3 12 .pend, .poll 4 16 .pend,
       .poll 0 0 .err, .poll 1 4 .pend, .dropFut 1, .poll 2 8 .ok, .poll 3 12 .pend, .poll 4 16 .pend]
    s.state = 2 ∧ valBy s = 2 ∧ s.woken = [] ∧ pendingPolled s = [] := by decide

example :
    let s := run {} [.start 0 .init, .start 1 .init, .poll 0 0 .pend, .poll 1 4 .pend, .poll 0 0 .panic]
    s.state = 0 ∧ s.woken = [1] ∧ (step s (.poll 1 4 .ok)).2 = .readyVal 1 := by decide

/-! ### Blocking forms: a parked thread is a re-polled task

`get_or_init_blocking`, `get_or_try_init_blocking` and `set_blocking` drive the same
`initialize_or_wait` with the `Blocking` strategy, `wait_blocking` has its own four lines.  A parked
thread resumes *after* `strategy.wait(listener)` / `listener.wait()` has returned — its listener has
fired and been consumed — and not at the top of a poll.  `resumeInitBlocking` and
`resumeWaitBlocking` are those code paths, written from the source; the two theorems prove that
they change the cell exactly as the poll of the corresponding notified future does, so the theorems
about histories of polls (C04, C08, C10, C17) also cover threads parked in the blocking forms.
(The blocking initialiser is a plain closure: its input is never `.pend`.) -/

/-- a thread parked in `initialize_or_wait` (blocking strategy) resumes: `loop { load; match … }` -/
def resumeInitBlocking (s : Sys) (fu : Fut) (t : Nat) (i : Input) : PRes :=
  let f := fu.id
  -- `strategy.wait(listener)` returned: the entry is gone from the list
  let s1 := { s with act := Ev.erase s.act f }
  -- next iteration: `state.load(Acquire)`
  if s.state = 2 then ⟨s1, .done, report fu.kind (valBy s) false⟩     -- Initialized: return Ok(())
  else if s.state = 1 then
    -- Initializing, no listener in hand: listen; next iteration (still Initializing): park on it
    ⟨{ s1 with act := Ev.setTask (Ev.listen s1.act f) f t }, .waiting, .pending⟩
  else
    -- Uninitialized: the CAS 0 -> 1 succeeds (nothing runs in between), the closure runs
    runInit { s1 with state := 1 } fu i

/-- a thread parked in `wait_blocking` resumes: `listener.wait()` returned; `get_unchecked()` -/
def resumeWaitBlocking (s : Sys) (fu : Fut) : PRes :=
  ⟨{ s with pas := Ev.erase s.pas fu.id }, .done, .readyVal (valBy s)⟩

/-- **C08 (blocking initialising forms are covered).** -/
theorem C08_blocking_init_is_poll (s : Sys) (fu : Fut) (t : Nat) (i : Input)
    (hpc : fu.pc = .waiting) (hn : Ev.isNotified s.act fu.id = true) :
    resumeInitBlocking s fu t i = pollInit s fu t i := by
  unfold resumeInitBlocking pollInit
  simp only [hpc, hn, Bool.not_true, Bool.false_eq_true, if_false]

/-- **C08 (`wait_blocking` is covered).** -/
theorem C08_blocking_wait_is_poll (s : Sys) (fu : Fut) (t : Nat)
    (hpc : fu.pc = .waiting) (hn : Ev.isNotified s.pas fu.id = true) :
    resumeWaitBlocking s fu = pollWait s fu t := by
  unfold resumeWaitBlocking pollWait
  simp only [hpc, hn, Bool.not_true, Bool.false_eq_true, if_false]

/-- non-vacuity: caller 0 initialising, callers 1 (init) and 2 (wait) parked; 0 fails: 1 is notified
and its blocking resume runs its own closure; then 2 is notified and resumes with the value -/
example :
    let s := run {} [.start 0 .tryInit, .start 1 .init, .start 2 .wait,
                     .poll 0 0 .pend, .poll 1 4 .pend, .poll 2 8 .pend, .poll 0 0 .err]
    let fu1 : Fut := { id := 1, kind := .init, pc := .waiting, polled := true, waker := 4 }
    let r := resumeInitBlocking s fu1 4 .ok
    let fu2 : Fut := { id := 2, kind := .wait, pc := .waiting, polled := true, waker := 8 }
    Ev.isNotified s.act 1 = true ∧ r.out = .readyVal 1 ∧ r.s.state = 2 ∧
    Ev.isNotified r.s.pas 2 = true ∧ (resumeWaitBlocking r.s fu2).out = .readyVal 1 := by decide

end ALock.Once

/-! ## Where the notifications are sent (generated site table) -/

namespace ALock.Atomic.Calls

/-- every operation of `src/once_cell.rs` on the state word and every `listen` (also through the
`listener!` macro) / `notify` / `notify_additional` on `active_initializers` and `passive_waiters`,
function by function in source order (generated table) -/
theorem C08_calls_ok : fileShapes "src/once_cell.rs" = onceCellExpected := by decide

end ALock.Atomic.Calls
