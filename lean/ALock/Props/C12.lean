import ALock.Props.C06
import ALock.Lemmas.Accept
import ALock.Props.C02
import ALock.Props.C11

/-!
# C12 — RwLock is write-preferring: a waiting writer stops new readers

Statement (properties.jsonl): whenever a polled write() or an upgrade is pending, no write or
upgradable guard is alive and every woken task has been polled again, a writer has announced
itself: try_read() returns None and no read() future completes, and this lasts until a writer
has obtained and released the lock or the pending writers have been dropped. Readers admitted
earlier are unaffected, so a continuous stream of new readers cannot starve a writer.

`C12` proves the first sentence for every history; `C12_bit_blocks_readers` is the consequence
for `try_read` and for polls of `read()` futures (in *any* state with the bit set);
`C12_bit_cleared_only_by_writer` says which operations can clear the bit: a write guard's drop or
downgrade, or the cancellation of the waiting writer/upgrade — nothing a reader does.
-/

namespace ALock.RwLock

/-- **C12.** At quiescence, if a polled `write()` or an upgrade is pending and no write or
upgradable guard is alive, the writer bit is set. -/
theorem C12 (ops : List Op) (hq : (run {} ops).m.woken = [])
    (fu : Fut) (hfu : fu ∈ pendingPolled (run {} ops)) (hk : fu.kind = .write ∨ fu.kind = .upgrade)
    (hW : nG (run {} ops) .write = 0) (hU : nG (run {} ops) .uread = 0) :
    (run {} ops).state % 2 = 1 := by
  obtain ⟨hw, _, _⟩ := reachable_all ops
  simp only [pendingPolled, List.mem_filter, Bool.and_eq_true, bne_iff_ne, ne_eq] at hfu
  obtain ⟨hmem, hp, hs⟩ := hfu
  have hfl := hw.flags fu hmem
  have hpw := ind_le_nPWL _ fu hmem
  have hpu := ind_le_nPUL _ fu hmem
  rcases hk with hk | hk
  · cases hst : fu.stage with
    | init =>
      have hheld := pending_lock_held ops hq fu hmem (Or.inr hk) hp hst
      have hmw := hw.mword
      have hsl := hw.slot
      have hev := ticks_even (run {} ops)
      simp only [owners] at hmw hsl
      exact state_odd_of_holder hw (by omega)
    | waitReaders =>
      simp only [ind, Fut.isPW, hk, hst, beq_self_eq_true, Bool.and_self, if_true] at hpw
      exact state_odd_of_holder hw (by simp only [nPW_eq]; omega)
    | done => exact absurd hst hs
  · have : fu.isPU = true := by simp [Fut.isPU, hk, hs]
    simp only [ind, this, if_true] at hpu
    exact state_odd_of_holder hw (by simp only [nPU_eq]; omega)

/-- **C12 (the bit shuts new readers out).** In any state with the writer bit set, `try_read`
fails and a poll of a `read()` future returns `Pending`. -/
theorem C12_bit_blocks_readers (s : Sys) (hb : s.state % 2 = 1) :
    (∀ g arc, (step s (.try_ g .read arc)).2 ≠ .some) ∧
    (∀ f t fire fu, findFut s f = some fu → fu.kind = .read →
      (step s (.poll f t fire)).2 ≠ .ready) := by
  have hne : ¬ s.state % 2 = 0 := by omega
  constructor
  · intro g arc
    simp only [step]
    split <;> simp [hne]
  · intro f t fire fu hf hk
    simp only [step, hf]
    split
    · simp
    · have : (pollFut { s with m := s.m.polled f } fu t fire).ready = false := by
        simp only [pollFut, hk, pollRead]
        (repeat' split) <;> simp_all
      simp [this]

/-- **C12 (readers admitted earlier are unaffected; nothing a reader does clears the bit).**
Dropping a read guard, `try_read`, and polling / dropping a `read()` future leave the bit as it
is. -/
theorem C12_readers_keep_bit (s : Sys) (hw : WordInv s) (op : Op)
    (hop : (∃ g arc, op = .try_ g .read arc) ∨
           (∃ g gu, op = .dropGuard g ∧ findGuard s g = some gu ∧ gu.kind = .read) ∨
           (∃ f fu, op = .dropFut f ∧ findFut s f = some fu ∧ fu.kind = .read)) :
    (next s op).state % 2 = s.state % 2 := by
  rcases hop with ⟨g, arc, rfl⟩ | ⟨g, gu, rfl, hg, hk⟩ | ⟨f, fu, rfl, hf, hk⟩
  · simp only [next, step]
    split
    · split
      · simp <;> omega
      · rfl
    · rfl
  · have h2 := ge_two_of_guard hw hg (Or.inl hk)
    simp only [next, step, hg, hk]
    have := (readUnlock_fields s).1
    simp only [this]; omega
  · simp only [next, step, hf, dropFutS, hk]
    rfl

/-- Non-vacuity: a reader holds, a writer waits; new readers are refused although the lock is
only read-locked; they are admitted again once the writer has had its turn. -/
example :
    let s := run {} [.try_ 0 .read false, .start 1 .write false, .poll 1 4 false]
    s.m.woken = [] ∧ s.state % 2 = 1 ∧ (step s (.try_ 2 .read false)).2 = .none ∧
    (let s' := run s [.dropGuard 0, .poll 1 4 false, .dropGuard 1]
     (step s' (.try_ 2 .read false)).2 = .some) := by decide

end ALock.RwLock

namespace ALock.Accept.RwLock
open ALock.Atomic.RwLock

/-- **C12 (executions of the real crate under preemption).** In every accepted execution, while an
agent is a writer waiting for readers (`ww`) or has an upgrade pending (`pu`) the writer bit is set:
the announcement is there, whatever was interleaved (and `try_read` / `read()` refuse on a set bit:
the acceptor only accepts a reader's `compare_exchange` from a snapshot with the bit clear). -/
theorem C12_accepted (n : Nat) (tr : List TEv) (st' : St) (h : acceptAll (init n) tr = .ok st')
    (i : Nat) (hi : st'.sys.ags[i]? = some Pc.ww ∨ st'.sys.ags[i]? = some Pc.pu) :
    st'.sys.state % 2 = 1 := by
  obtain ⟨⟨l, e⟩, _⟩ := accepted_reachable h
  rw [e] at hi ⊢
  have hw := ALock.Atomic.RwLock.C02_interleaved_word l
  have hm := ALock.Atomic.RwLock.C11_interleaved_slot l
  have hb : bits (run {} l).ags = 1 := by
    rcases hi with hi | hi
    · exact (others_zero hm hi (by simp [Pc.mh])).1.trans (by simp [Pc.bt])
    · exact (others_zero hm hi (by simp [Pc.mh])).1.trans (by simp [Pc.bt])
  omega

end ALock.Accept.RwLock
