import ALock.Lemmas.Mutex
import ALock.Lemmas.AtomicMutex
import ALock.Lemmas.AtomTrace
import ALock.Lemmas.Accept

/-!
# C01 — Mutex: at most one holder (and release happens-before the next acquire)

Statement (properties.jsonl): for any Mutex, at every instant at most one guard (borrowed or
Arc-owned, obtained by lock, lock_blocking, try_lock or their _arc forms) is alive (...).
Everything done to the value under one guard happens-before everything done under any later
guard, on any thread.

Part 1 proves the exclusion half on the poll-granular model for **every** history (any mix of
`lock`, `lock_arc`, `try_lock`, `try_lock_arc`, cancellations, the 0.5 ms branch taken or not at
every opportunity; "std off" is the special case `fire = false`); that model is tied to the code
by the differential run.

Part 2 (`ALock.Atomic.Mutex`) proves both halves for **every interleaving of the crate's atomic
operations** by any number of threads: one step = one atomic operation on `Mutex::state`.  That
model is tied to the code by the generated site table (`Generated/Atomics.lean`, extracted from
/repo's sources on every run): `C01_shape_ok` states that the operations on the word, with their
operands, in source order, are the ones the model has steps for; `C01_ord_ok` that the orderings
the code passes at the four synchronising sites are at least Acquire / Release.  What stays outside:
the control flow between the sites (which the poll-granular differential run exercises), and the
memory model is the release/acquire fragment with RMW release sequences (no load buffering, no
SeqCst reasoning).
-/

namespace ALock.Mutex

theorem ticks_eq (s : Sys) : ticks s = 2 * starvedLive s := by
  unfold ticks starvedLive
  induction s.futs with
  | nil => rfl
  | cons a t ih =>
    simp only [List.map_cons, List.sum_cons, List.countP_cons]
    rw [ih]
    unfold LockSt.tick
    split <;> simp_all <;> omega

/-- **C01 (exclusion).** After any history at most one guard is alive. -/
theorem C01_exclusion (ops : List Op) : (run {} ops).guards.length ≤ 1 :=
  (reachable_inv ops).excl

/-- **C01 (state word).** The word is exactly `guards alive + 2 · starved live operations`: the lock
bit is set iff a guard is alive, and nothing else ever sets or clears it. -/
theorem C01_word (ops : List Op) :
    let s := run {} ops
    s.c.st = s.guards.length + 2 * starvedLive s := by
  intro s
  have := (reachable_inv ops).word
  rw [ticks_eq] at this
  exact this

/-- **C01 (a guard is only ever handed out when none is alive).** Whatever the acquisition style:
if an operation returns a guard (`Ready` / `Some`), no guard was alive before it. -/
theorem C01_grant_only_when_free (ops : List Op) (op : Op) :
    let s := run {} ops
    ((step s op).2 = .ready ∨ (step s op).2 = .some) → s.guards = [] := by
  intro s hgrant
  have inv := step_inv s op (reachable_inv ops)
  have inv0 := reachable_inv ops
  have hx := inv.excl
  -- the step added a guard
  have hadd : (next s op).guards.length = s.guards.length + 1 := by
    unfold next
    cases op with
    | start f arc => simp only [step] at hgrant ⊢; split at hgrant <;> simp at hgrant
    | poll f t fire =>
      cases hf : findFut s f with
      | none => simp [step, hf] at hgrant
      | some fu =>
        simp only [step, hf] at hgrant ⊢
        by_cases hd : fu.l.done = true
        · simp [hd] at hgrant
        · simp only [hd, Bool.false_eq_true, if_false] at hgrant ⊢
          by_cases hr : (lockPoll (s.c.polled f) fu.l f t fire).ready = true
          · simp [hr]
          · simp [hr] at hgrant
    | dropFut f => simp only [step] at hgrant; split at hgrant <;> simp at hgrant
    | tryLock g arc =>
      simp only [step] at hgrant ⊢
      by_cases h1 : (fresh s g && decide (0 < s.handles)) = true
      · simp only [h1, if_true] at hgrant ⊢
        by_cases h2 : s.c.st = 0
        · simp [h2]
        · simp [h2] at hgrant
      · simp [h1] at hgrant
    | dropGuard g => simp only [step] at hgrant; split at hgrant <;> simp at hgrant
    | hclone => simp only [step] at hgrant; split at hgrant <;> simp at hgrant
    | hdrop => simp only [step] at hgrant; split at hgrant <;> simp at hgrant
  have : s.guards.length = 0 := by omega
  exact List.length_eq_zero_iff.mp this

/-- Non-vacuity: a history mixing all four acquisition styles in which guards change hands. -/
example :
    let s := run {}
      [.tryLock 0 true, .start 1 false, .start 2 true, .poll 1 4 false, .poll 2 8 false,
       .tryLock 3 false, .dropGuard 0, .poll 1 4 false, .tryLock 4 true]
    s.guards.length = 1 ∧ s.c.st = 1 ∧ starvedLive s = 0 := by decide

end ALock.Mutex

/-! ## Part 2 — every interleaving of the atomic operations; happens-before -/

namespace ALock.Atomic.Mutex

/-- the model's steps are the operations the code performs on `Mutex::state` (generated table) -/
theorem C01_shape_ok : sites.map Site.shape = expectedShapes := by decide

/-- the orderings the code passes at the synchronising sites are strong enough (generated table) -/
theorem C01_ord_ok : ords.ok := by unfold Ords.ok; decide

/-- **C01 (exclusion under every interleaving).** Whatever the orderings, after any sequence of
atomic steps by any number of agents at most one holds the mutex, and the word is
`holders + 2 · starved`. -/
theorem C01_interleaved (o : Ords) (l : List Step) :
    holders (run o {} l) ≤ 1 ∧ (run o {} l).st = holders (run o {} l) + 2 * starvedN (run o {} l) :=
  have h := run_winv o {} l init_winv
  ⟨h.excl, h.word⟩

/-- **C01 (release happens-before the next acquire).** With the orderings of the code, whenever an
agent holds the mutex — in particular at each of its accesses to the protected value — every
critical section completed before is in its view: everything done under an earlier guard
happens-before everything done under a later one, on any thread. -/
theorem C01_hb (l : List Step) :
    ∀ a ∈ (run ords {} l).ags, a.holder = true → ∀ k ∈ (run ords {} l).done, k ∈ a.view :=
  (run_inv ords C01_ord_ok {} l init_winv init_vinv).2.held

/-- with a relaxed unlock the same statement is false: the model distinguishes the orderings -/
example :
    let o : Ords := { ords with relUnlock := false }
    let s := run o {} [.spawn, .spawn, .cas01 0, .crit 0, .unlock 0, .cas01 1]
    s.done = [0] ∧ (s.ags.map (·.view)) = [[0], []] := by decide

/-- non-vacuity: two agents, two critical sections, the second sees the first -/
example :
    let s := run ords {} [.spawn, .spawn, .cas01 0, .starve 1, .crit 0, .unlock 0, .fetchOr 1, .crit 1]
    s.done = [1, 0] ∧ (s.ags.map (·.view)) = [[0], [1, 0]] ∧ s.st = 3 := by decide

end ALock.Atomic.Mutex

/-! ## Part 3 — a poll is a sequence of atomic operations -/

namespace ALock

/-- **C01 (the poll-granular step is what its atomic operations do).** For every branch of
`lockPoll`, the operations listed by `lockAtoms` — which the differential run compares, after every
operation, with the log of atomic operations the real crate performed (operands, `Ordering`s and
returned values included) — are consistent (each sees the value its predecessor left, a CAS
succeeds exactly when it finds the expected value) and produce the model's new state word. -/
theorem C01_poll_atoms (c : Core) (l : LockSt) (f t : Nat) (fire : Bool) :
    Atom.consistent c.st (lockAtoms c l f t fire) = true ∧
    Atom.run c.st (lockAtoms c l f t fire) = (lockPoll c l f t fire).c.st :=
  lockPoll_atoms_word c l f t fire

/-- the same for `unlock` and `try_lock` -/
theorem C01_unlock_atoms (c : Core) :
    Atom.consistent c.st (unlockAtoms c) = true ∧ Atom.run c.st (unlockAtoms c) = c.unlock.st := by
  simp [unlockAtoms, Atom.consistent, Atom.run, Core.unlock]

theorem C01_try_lock_atoms (c : Core) :
    Atom.consistent c.st (tryLockAtoms c) = true ∧ Atom.run c.st (tryLockAtoms c) = c.tryLock.1.st := by
  simp only [tryLockAtoms, Atom.consistent, Atom.run, cas01_ok, cas01_apply, Core.tryLock, Bool.and_true]
  split <;> simp_all

end ALock

namespace ALock.Accept.Mutex
open ALock.Atomic.Mutex

/-- **C01 (executions of the real crate with injected preemptions).** A trace of atomic operations
recorded from the crate — one call preempted before any of its atomic operations by complete calls
of other agents — that the acceptor accepts is a run of the atomic-granularity model; so at its end
(and, the acceptor being applied event by event, after every prefix) at most one agent holds the
mutex and the word is `holders + 2 · starved`.  The check replays every recorded trace; a
rejected trace is an execution the model does not have. -/
theorem C01_accepted (n : Nat) (tr : List TEv) (st' : St)
    (h : acceptAll (init n) tr = .ok st') :
    holders st'.sys ≤ 1 ∧ st'.sys.st = holders st'.sys + 2 * starvedN st'.sys := by
  obtain ⟨l, e⟩ := accepted_reachable h
  rw [e]
  exact C01_interleaved ords l

/-- non-vacuity: agent 0's `try_lock` is preempted before its CAS by agent 1's `try_lock`, which
wins; the trace is accepted -/
example :
    (acceptAll (init 2)
      [.beg 0 "tryLock", .beg 1 "tryLock",
       .atom 1 { op := .cas, a := 0, b := 1, ord := "", ret := .ok 0 }, .ret 1 "some",
       .atom 0 { op := .cas, a := 0, b := 1, ord := "", ret := .err 1 }, .ret 0 "none"]).toBool = true := by
  decide

/-- … and a trace in which both CASes succeed is rejected -/
example :
    (acceptAll (init 2)
      [.beg 0 "tryLock", .beg 1 "tryLock",
       .atom 1 { op := .cas, a := 0, b := 1, ord := "", ret := .ok 0 }, .ret 1 "some",
       .atom 0 { op := .cas, a := 0, b := 1, ord := "", ret := .ok 0 }, .ret 0 "some"]).toBool = false := by
  decide

end ALock.Accept.Mutex
