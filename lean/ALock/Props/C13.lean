import ALock.Props.C01
import ALock.Lemmas.Fifo
import ALock.Lemmas.Accept

/-!
# C13 — Mutex eventual fairness: a starved waiter closes the fast path

Statement (properties.jsonl): once a pending lock operation has waited beyond the starvation
threshold (0.5 ms) and lost the race for the lock again, barging is disabled until that operation
acquires the mutex or is dropped: `try_lock` returns `None` on every thread, even while the mutex
is momentarily unlocked. When polls are serialised (single-threaded executor), no lock operation
started after that moment acquires the mutex before the starved one does.

Part (a) — no barging — is proved here for every history of the poll-granular model (the timing
branch may fire at any of its evaluation points: `fire` is an argument of every `poll`).
Part (b) — FIFO among later arrivals — is `C13_fifo` below: with serialised (atomic) polls, from the
moment an operation is starved until it acquires or is dropped, no lock operation started later
completes.  It rests on the queue-shape invariant `QI` (`Lemmas/Fifo.lean`): only the head of
`lock_ops` is ever notified, and while somebody is starved an outstanding notification implies the
mutex is unlocked — so a starved operation never re-queues, later arrivals stay behind it, and a
notification never reaches them first.
-/

namespace ALock.Mutex

/-- A lock operation is *starved* once it has executed `fetch_add(2)`; it stays so until it
completes or is dropped. -/
def StarvedLive (s : Sys) (f : Nat) : Prop :=
  ∃ fu ∈ s.futs, fu.id = f ∧ fu.l.starved = true ∧ fu.l.done = false

theorem starved_word (ops : List Op) (f : Nat) (h : StarvedLive (run {} ops) f) :
    2 ≤ (run {} ops).c.st := by
  obtain ⟨fu, hfu, _, hs, hd⟩ := h
  have inv := reachable_inv ops
  have h1 := tick_le_ticks _ fu hfu
  have h2 : fu.l.tick = 2 := (tick_two_iff _).mpr ⟨hs, hd⟩
  have := inv.word
  omega

/-- **C13 (a): barging is disabled.** While some lock operation is starved (and neither completed
nor dropped), `try_lock` / `try_lock_arc` returns `None` and changes nothing — whether or not the
mutex is locked at that moment. -/
theorem C13_no_barging (ops : List Op) (f g : Nat) (arc : Bool)
    (h : StarvedLive (run {} ops) f) :
    let s := run {} ops
    ((step s (.tryLock g arc)).2 = .none ∨ (step s (.tryLock g arc)).2 = .bad) ∧
    next s (.tryLock g arc) = s := by
  intro s
  have h2 := starved_word ops f h
  have hne : ¬ s.c.st = 0 := by simp only [s]; omega
  simp only [next, step, hne, if_false]
  split <;> simp

/-- **C13 (a'): the fast path of a new `lock()` is closed too.** A lock future polled for the first
time while another operation is starved does not acquire, even if the mutex is unlocked; it
queues up (and is starved itself). -/
theorem C13_no_fast_path (ops : List Op) (f g t : Nat) (fire : Bool) (fu : Fut)
    (h : StarvedLive (run {} ops) f) (hg : findFut (run {} ops) g = some fu)
    (hnew : fu.polled = false) :
    (step (run {} ops) (.poll g t fire)).2 = .pending := by
  have h2 := starved_word ops f h
  have inv := reachable_inv ops
  have hm := findFut_mem hg
  have hfl := inv.flags fu hm.1
  have hslow : fu.l.slow = false := by
    cases hs : fu.l.slow
    · rfl
    · have := hfl.slowPolled hs; rw [hnew] at this; cases this
  have hdone : fu.l.done = false := by
    cases hd : fu.l.done
    · rfl
    · have := hfl.donePolled hd; rw [hnew] at this; cases this
  have h0 : ¬ (run {} ops).c.st = 0 := by omega
  have h1 : ¬ (run {} ops).c.st = 1 := by omega
  simp [step, hg, hdone, lockPoll, hslow, h0, h1]

/-- The starved ticket is given back exactly when the operation completes or is dropped: the
word stays `≥ 2` as long as it is live (this is `starved_word`), and a history in which the
starved operation is cancelled while the mutex is free re-opens the fast path. -/
example :
    let s := run {}
      [.tryLock 0 false, .start 1 false, .poll 1 4 false, .dropGuard 0, .tryLock 2 false,
       .poll 1 4 true, .dropGuard 2]
    (s.futs.any fun fu => fu.id == 1 && fu.l.starved && !fu.l.done) = true ∧ s.c.st = 2 ∧
    (step s (.tryLock 3 false)).2 = .none ∧
    (step (next s (.dropFut 1)) (.tryLock 3 false)).2 = .some := by decide

/-- **C13 (b): FIFO among later arrivals.** Let `f` be starved after `ops0`, and let it stay starved
(neither completed nor dropped) through every prefix of `ops1` (`Trace`). Then every lock operation
alive at the end that was not already alive when `f` became starved — `e1` is the set of those
early arrivals, minus the ones dropped since (their ids may be reused) — has not acquired the
mutex. Together with `C13_no_barging` (`try_lock`): nothing that starts after that moment gets the
mutex before `f` does. -/
theorem C13_fifo (ops0 ops1 : List Op) (f : Nat) (s1 : Sys) (e1 : List Nat)
    (h0 : StarvedLive (run {} ops0) f)
    (ht : Trace f (run {} ops0) ((run {} ops0).futs.map (·.id)) ops1 s1 e1) :
    ∀ fu ∈ s1.futs, fu.id ∉ e1 → fu.l.done = false := by
  have hi := reachable_inv ops0
  have hq := reachable_qi ops0
  have hfi := trace_fi ht hi hq h0 (fi_init _ hi f h0)
  exact fun fu hfu hne => (hfi.late fu hfu hne).1

/-- non-vacuity: `0` is starved behind a guard; `1` and `2` arrive later; the guard is dropped; the
later arrivals are polled first and stay pending; `0` acquires -/
example :
    let ops0 : List Op := [.tryLock 9 false, .start 0 false, .poll 0 0 false, .dropGuard 9,
      .tryLock 8 false, .poll 0 0 true]
    let ops1 : List Op := [.start 1 false, .poll 1 4 false, .start 2 true, .poll 2 8 false,
      .dropGuard 8, .poll 1 4 false, .poll 2 8 false]
    ((run {} ops0).futs.map fun fu => (fu.id, fu.l.starved, fu.l.done)) = [(0, true, false)] ∧
    ((run {} (ops0 ++ ops1)).futs.map fun fu => (fu.id, fu.l.done)) = [(2, false), (1, false), (0, false)] ∧
    (step (run {} (ops0 ++ ops1)) (.poll 0 0 false)).2 = .ready := by decide

end ALock.Mutex

namespace ALock.Accept.Mutex
open ALock.Atomic.Mutex

/-- **C13, first clause (executions of the real crate under preemption).** In every accepted
execution, while some agent is starved the state word is at least 2 — so `compare_exchange(0, 1)`,
the only operation of `try_lock`, `try_lock_arc` and the first poll of `lock` / `lock_arc`, fails
(and the acceptor accepts it only as failed). -/
theorem C13_accepted (n : Nat) (tr : List TEv) (st' : St) (h : acceptAll (init n) tr = .ok st')
    (hs : 1 ≤ starvedN st'.sys) : 2 ≤ st'.sys.st := by
  have := (C01_accepted n tr st' h).2
  omega

end ALock.Accept.Mutex
