import ALock.Lemmas.Sem
import ALock.Lemmas.Event
import ALock.Lemmas.ListAux
import ALock.Props.C15
import ALock.Lemmas.Mutex
import ALock.Lemmas.Potential
import ALock.Lemmas.RwLockWord
import ALock.Lemmas.OnceCell
import ALock.Lemmas.Barrier
import ALock.Lemmas.SemWoken
import ALock.Lemmas.MutexWoken
import ALock.Lemmas.BarrierWoken
import ALock.Lemmas.OnceCellWoken
import ALock.Lemmas.RwLockWoken

/-!
# C17 — Blocked operations sleep: no busy-waiting

Statement (properties.jsonl): while nothing is released, acquired, started or cancelled, pending
acquisitions do not keep waking themselves or each other: re-polling every future whose waker was
called reaches a state with no outstanding wake-ups after a number of polls bounded by a small
multiple of the number of pending futures.

For each primitive a potential `phi` is defined on the model's states,

    phi = outstanding wake-ups (`woken`) + Σ weights of the polled, uncompleted futures (+ for the
          OnceCell the listeners a successful initialisation is going to wake),

and `C17_<primitive>_step` proves that **every** re-poll of a pending future whose waker was called
— with any waker, with either outcome of the Mutex's 0.5 ms test, with any outcome of a woken
OnceCell caller's initialiser — strictly decreases `phi`, at every reachable state.  `Repolls s n s'`
is any sequence of `n` such re-polls (any order, any scheduler, nothing released / started /
cancelled in between); `C17_<primitive>` bounds its length:

* Semaphore, Barrier: `n ≤ woken + 2·pending`  (a woken waiter that cannot proceed re-registers, it
  never notifies; a waiter that acquires forwards at most one notification);
* Mutex: `n ≤ woken + 4·pending`  (a lock operation passes a notification on only when it completes
  or — once — when it turns starved);
* RwLock: `n ≤ woken + 6·pending`  (readers pass the notification on only when they are admitted;
  writers as for the Mutex, plus at most one forwarded `no_readers` notification on completion);
* OnceCell: `n ≤ woken + 2·pending + listeners`  (a successful initialisation wakes every listener
  once; a failed one wakes one).

So a wake-up cycle among pending futures is impossible in the model; the differential run ties the
model's settle (`settled k` compares the number of polls and the wakers called) to the real crate,
and the harness evaluates the bound `polls ≤ 5·pending` on the implementation at every settle.

That `woken` only ever names pending futures, each at most once (`woken ≤ pending`) is proved for all
five primitives (`C17_*_woken_le`: every outstanding wake-up is the owner of its own notified
listener, listeners have pairwise distinct owners and belong to pending polled futures), which
gives the bounds in `pending` alone: `C17_sem_pending` 3·p, `C17_mutex_pending` 5·p,
`C17_rwlock_pending` 7·p, `C17_once_pending` 4·p, `C17_barrier_pending` 3·p.
Polls are atomic; thread interleavings and parked threads are outside the model.
-/

namespace ALock.Sem

/-- weight of a future in the potential: a polled, uncompleted acquisition counts 2 -/
def wt (x : Fut) : Nat := if x.polled && !x.done then 2 else 0

/-- the potential: outstanding wake-ups + 2 × pending acquisitions -/
def phi (s : Sys) : Nat := s.woken.length + (s.futs.map wt).sum

theorem setFut_setFut (l : List Fut) (f : Nat) (g1 g2 : Fut → Fut) (h1 : ∀ x, (g1 x).id = x.id) :
    setFut (setFut l f g1) f g2 = setFut l f (fun x => g2 (g1 x)) := by
  simp only [setFut, List.map_map]
  apply List.map_congr_left
  intro x _
  by_cases h : x.id = f <;> simp [h, h1]

theorem sum_wt_setFut (l : List Fut) (f : Nat) (g : Fut → Fut) (fu : Fut)
    (hn : (l.map (·.id)).Nodup) (hm : fu ∈ l) (hi : fu.id = f) :
    ((setFut l f g).map wt).sum + wt fu = (l.map wt).sum + wt (g fu) :=
  sum_map_update l (fun x : Fut => x.id) f g wt fu hn hm hi

theorem C17_sem_poll (s : Sys) (fu : Fut) (t : Nat) (hn : (s.futs.map (·.id)).Nodup)
    (hm : fu ∈ s.futs) (hp : fu.polled = true) (hd : fu.done = false) (hw : fu.id ∈ s.woken) :
    phi (poll s fu t).1 < phi s := by
  have hlt := filter_ne_length_lt hw
  have hwt : wt fu = 2 := by simp [wt, hp, hd]
  simp only [poll]
  split
  · -- acquired
    let g1 : Fut → Fut := fun x => { id := x.id, arc := x.arc, polled := true, done := x.done, waker := t }
    let g2 : Fut → Fut := fun x => { id := x.id, arc := x.arc, polled := x.polled, done := true, waker := x.waker }
    have hs := sum_wt_setFut s.futs fu.id (fun x => g2 (g1 x)) fu hn hm rfl
    have hdl := Ev.dropOwners_length_le s.q fu.id
    have h0 : wt (g2 (g1 fu)) = 0 := by simp [wt, g1, g2]
    have e := setFut_setFut s.futs fu.id g1 g2 (fun _ => rfl)
    simp only [phi, Sys.dropListener, List.length_append]
    simp only [g1, g2] at e hs h0
    rw [e]
    omega
  · have hs := sum_wt_setFut s.futs fu.id (fun x => { x with polled := true, waker := t }) fu hn hm rfl
    have : wt ({ fu with polled := true, waker := t } : Fut) = 2 := by simp [wt, hd]
    split
    · split <;> (simp only [phi]; omega)
    · simp only [phi]; omega

theorem C17_sem_step (s : Sys) (f t : Nat) (fu : Fut) (hn : (s.futs.map (·.id)).Nodup)
    (hf : findFut s f = some fu) (hp : fu.polled = true) (hd : fu.done = false)
    (hw : f ∈ s.woken) : phi (next s (.poll f t)) < phi s := by
  obtain ⟨hm, hi⟩ := findFut_mem hf
  subst hi
  simp only [next, step, hf, hd, Bool.false_eq_true, if_false]
  exact C17_sem_poll s fu t hn hm hp hd hw

/-- `n` re-polls, each of a pending acquisition whose waker was called (any order, any waker),
lead from `s` to `s'`; nothing is released, started or cancelled in between -/
inductive Repolls : Sys → Nat → Sys → Prop
  | nil (s : Sys) : Repolls s 0 s
  | cons {s : Sys} {f t : Nat} {fu : Fut} {n : Nat} {s' : Sys} :
      f ∈ s.woken → findFut s f = some fu → fu.polled = true → fu.done = false →
      Repolls (next s (.poll f t)) n s' → Repolls s (n + 1) s'

theorem repolls_phi {s : Sys} {n : Nat} {s' : Sys} (hc : CountInv s) (h : Repolls s n s') :
    n + phi s' ≤ phi s := by
  induction h with
  | nil => simp
  | @cons s f t fu n s' hw hf hp hd _ ih =>
    have := C17_sem_step s f t fu hc.nodup hf hp hd hw
    have := ih (step_count _ _ hc)
    omega

theorem phi_le (s : Sys) : phi s ≤ s.woken.length + 2 * (pendingPolled s).length := by
  have : (s.futs.map wt).sum = 2 * (pendingPolled s).length := by
    simp only [pendingPolled]
    induction s.futs with
    | nil => rfl
    | cons a t ih =>
      simp only [List.map_cons, List.sum_cons, List.filter_cons, ih, wt]
      split <;> simp <;> omega
  simp only [phi]; omega

/-- **C17 (Semaphore).** From any reachable state, any sequence of re-polls of woken pending
acquisitions has length at most `outstanding wake-ups + 2 × pending acquisitions`: the waiters do
not keep waking themselves or each other. -/
theorem C17_sem (n0 : Nat) (ops : List Op) {n : Nat} {s' : Sys}
    (h : Repolls (run (Sys.new n0) ops) n s') :
    n ≤ (run (Sys.new n0) ops).woken.length + 2 * (pendingPolled (run (Sys.new n0) ops)).length := by
  have hc : CountInv (run (Sys.new n0) ops) :=
    run_count _ ops ⟨by simp [Sys.new], by simp [Sys.new, arcF, arcG], by simp [Sys.new]⟩
  have := repolls_phi hc h
  have := phi_le (run (Sys.new n0) ops)
  omega

/-- outstanding wake-ups never outnumber the pending acquisitions: every one of them is the owner of
its own notified listener, and every listener belongs to a polled, uncompleted future
(`Lemmas/SemWoken.lean`, invariant `WkInv`) -/
theorem C17_sem_woken_le (n0 : Nat) (ops : List Op) :
    (run (Sys.new n0) ops).woken.length ≤ (pendingPolled (run (Sys.new n0) ops)).length :=
  (run_wk _ ops (init_wk n0)).woken_le

/-- **C17 (Semaphore), in the number of pending acquisitions alone**: at most `3 × pending`
re-polls. -/
theorem C17_sem_pending (n0 : Nat) (ops : List Op) {n : Nat} {s' : Sys}
    (h : Repolls (run (Sys.new n0) ops) n s') :
    n ≤ 3 * (pendingPolled (run (Sys.new n0) ops)).length := by
  have := C17_sem n0 ops h
  have := C17_sem_woken_le n0 ops
  omega

end ALock.Sem

namespace ALock.Mutex

/-- outstanding wake-ups + weights of the lock operations (4 hot-loop, 2 starved, 0 otherwise) -/
def phi (s : Sys) : Nat := s.c.woken.length + (s.futs.map fun x => x.l.weight).sum

theorem C17_mutex_step (s : Sys) (f t : Nat) (fire : Bool) (fu : Fut)
    (hn : (s.futs.map (·.id)).Nodup) (hf : findFut s f = some fu) (hs : fu.l.slow = true)
    (hd : fu.l.done = false) (hw : f ∈ s.c.woken) : phi (next s (.poll f t fire)) < phi s := by
  obtain ⟨hm, hi⟩ := findFut_mem hf
  have hlt := filter_ne_length_lt hw
  have hp := lockPoll_potential (s.c.polled f) fu.l f t fire hs hd
  have hsum := sum_map_update s.futs (fun x : Fut => x.id) f
    (fun x => { x with l := (lockPoll (s.c.polled f) fu.l f t fire).l, polled := true, waker := t })
    (fun x => x.l.weight) fu hn hm hi
  have hpw : (s.c.polled f).woken.length = (s.c.woken.filter (· != f)).length := rfl
  simp only [next, step, hf, hd, Bool.false_eq_true, if_false]
  split <;> (simp only [phi, setFut]; simp only [] at hsum; omega)

inductive Repolls : Sys → Nat → Sys → Prop
  | nil (s : Sys) : Repolls s 0 s
  | cons {s : Sys} {f t : Nat} {fire : Bool} {fu : Fut} {n : Nat} {s' : Sys} :
      f ∈ s.c.woken → findFut s f = some fu → fu.polled = true → fu.l.done = false →
      Repolls (next s (.poll f t fire)) n s' → Repolls s (n + 1) s'

theorem repolls_phi {s : Sys} {n : Nat} {s' : Sys} (hi : MInv s) (h : Repolls s n s') :
    n + phi s' ≤ phi s := by
  induction h with
  | nil => simp
  | @cons s f t fire fu n s' hw hf hp hd _ ih =>
    obtain ⟨hm, _⟩ := findFut_mem hf
    have hs := (hi.flags _ hm).polledSlow hp hd
    have := C17_mutex_step s f t fire fu hi.nodup hf hs hd hw
    have := ih (step_inv _ _ hi)
    omega

theorem phi_le (s : Sys) (hi : MInv s) : phi s ≤ s.c.woken.length + 4 * (pendingPolled s).length := by
  have : ∀ l : List Fut, (∀ fu ∈ l, FutOK fu) →
      (l.map fun x => x.l.weight).sum ≤ 4 * (l.filter fun x => x.polled && !x.l.done).length := by
    intro l hl
    induction l with
    | nil => simp
    | cons a t ih =>
      have := ih (fun fu h => hl fu (List.mem_cons_of_mem _ h))
      have ha := hl a (List.mem_cons_self ..)
      have hsp := ha.slowPolled
      have hwa : a.l.weight ≤ if (a.polled && !a.l.done) = true then 4 else 0 := by
        unfold LockSt.weight
        cases h1 : a.polled <;> cases h2 : a.l.done <;> cases h3 : a.l.slow <;>
          cases h4 : a.l.starved <;> simp_all
      simp only [List.map_cons, List.sum_cons, List.filter_cons]
      split <;> simp_all <;> omega
  have := this s.futs hi.flags
  simp only [phi, pendingPolled]; omega

/-- **C17 (Mutex).** From any reachable state, any sequence of re-polls of woken pending lock
operations (any order, any waker, either outcome of the 0.5 ms test at each of them) has length at
most `outstanding wake-ups + 4 × pending lock operations`. -/
theorem C17_mutex (ops : List Op) {n : Nat} {s' : Sys} (h : Repolls (run {} ops) n s') :
    n ≤ (run {} ops).c.woken.length + 4 * (pendingPolled (run {} ops)).length := by
  have hi := reachable_inv ops
  have := repolls_phi hi h
  have := phi_le _ hi
  omega

/-- outstanding wake-ups never outnumber the pending lock operations (`Lemmas/MutexWoken.lean`:
every outstanding wake-up is the owner of its own notified `lock_ops` listener, through every
branch of `lockPoll`, including the one in which the future's own fresh listener is notified) -/
theorem C17_mutex_woken_le (ops : List Op) :
    (run {} ops).c.woken.length ≤ (pendingPolled (run {} ops)).length := woken_le ops

/-- **C17 (Mutex), in the number of pending lock operations alone**: at most `5 × pending` re-polls. -/
theorem C17_mutex_pending (ops : List Op) {n : Nat} {s' : Sys} (h : Repolls (run {} ops) n s') :
    n ≤ 5 * (pendingPolled (run {} ops)).length := by
  have := C17_mutex ops h
  have := C17_mutex_woken_le ops
  omega

end ALock.Mutex

namespace ALock.RwLock

/-- weight of a future: its embedded lock operation (4 / 2 / 0) + 2 while it is polled and
uncompleted -/
def Fut.wt (fu : Fut) : Nat := fu.l.weight + (if fu.polled && fu.stage != .done then 2 else 0)

/-- the same for a future known to be polled -/
def Fut.wtp (fu : Fut) : Nat := fu.l.weight + (if fu.stage != .done then 2 else 0)

def phi (s : Sys) : Nat := s.m.woken.length + (s.futs.map Fut.wt).sum

theorem notifyNw_woken (s : Sys) : s.notifyNw.m.woken.length ≤ s.m.woken.length + 1 := by
  have := Ev.notifyOwners_length_le false 1 s.nw
  simp only [Sys.notifyNw, List.length_append]; omega

theorem dropNr_woken (s : Sys) (f : Nat) : (s.dropNr f).m.woken.length ≤ s.m.woken.length + 1 := by
  have := Ev.dropOwners_length_le s.nr f
  simp only [Sys.dropNr, List.length_append]; omega

theorem pollRead_pot (s : Sys) (fu : Fut) (t : Nat) (hd : fu.stage ≠ .done) :
    (pollRead s fu t).s.m.woken.length + (pollRead s fu t).fu.wtp ≤ s.m.woken.length + fu.wtp := by
  have h1 := notifyNw_woken { s with nw := Ev.erase s.nw fu.id }
  unfold pollRead
  simp only []
  (repeat' split) <;> simp [Fut.wtp, hd] at h1 ⊢ <;> omega

theorem pollWaitReaders_pot (s : Sys) (fu : Fut) (t base : Nat) :
    (pollWaitReaders s fu t base).s.m.woken.length + (pollWaitReaders s fu t base).fu.wtp
      ≤ s.m.woken.length + fu.l.weight + 2 := by
  have h1 := dropNr_woken s fu.id
  unfold pollWaitReaders
  simp only []
  (repeat' split) <;> simp [Fut.wtp] at h1 ⊢ <;> omega

theorem pollUpgrade_pot (s : Sys) (fu : Fut) (t : Nat) (hd : fu.stage ≠ .done) :
    (pollUpgrade s fu t).s.m.woken.length + (pollUpgrade s fu t).fu.wtp
      ≤ s.m.woken.length + fu.wtp := by
  have h1 := dropNr_woken s fu.id
  unfold pollUpgrade
  simp only []
  (repeat' split) <;> simp [Fut.wtp, hd] at h1 ⊢ <;> omega

theorem pollUread_pot (s : Sys) (fu : Fut) (t : Nat) (fire : Bool) (hd : fu.stage ≠ .done)
    (hs : fu.l.slow = true) (hl : fu.l.done = false) :
    (pollUread s fu t fire).s.m.woken.length + (pollUread s fu t fire).fu.wtp
      ≤ s.m.woken.length + fu.wtp := by
  have h1 := lockPoll_potential s.m fu.l fu.id t fire hs hl
  unfold pollUread
  simp only []
  split <;> simp [Fut.wtp, hd] at h1 ⊢ <;> omega

theorem pollWrite_pot (s : Sys) (fu : Fut) (t : Nat) (fire : Bool) (hd : fu.stage ≠ .done)
    (hs : fu.stage = .init → fu.l.slow = true ∧ fu.l.done = false) :
    (pollWrite s fu t fire).s.m.woken.length + (pollWrite s fu t fire).fu.wtp
      ≤ s.m.woken.length + fu.wtp := by
  unfold pollWrite
  cases hst : fu.stage with
  | init =>
    obtain ⟨h1, h2⟩ := hs hst
    have hp := lockPoll_potential s.m fu.l fu.id t fire h1 h2
    simp only []
    split
    · have := pollWaitReaders_pot
        { s with m := (lockPoll s.m fu.l fu.id t fire).c, state := s.state + (1 - s.state % 2),
                 nr := Ev.listen s.nr fu.id }
        { fu with l := (lockPoll s.m fu.l fu.id t fire).l } t (30 + (lockPoll s.m fu.l fu.id t fire).br)
      simp only [Fut.wtp, hst] at this ⊢
      simp at this ⊢
      omega
    · simp [Fut.wtp, hst] at hp ⊢
      omega
  | waitReaders =>
    have := pollWaitReaders_pot s fu t 50
    simp only [Fut.wtp, hst] at this ⊢
    simp at this ⊢
    omega
  | done => exact absurd hst hd

theorem pollFut_pot (s : Sys) (fu : Fut) (t : Nat) (fire : Bool) (hok : FutOK fu)
    (hp : fu.polled = true) (hd : fu.stage ≠ .done) :
    (pollFut s fu t fire).s.m.woken.length + (pollFut s fu t fire).fu.wtp
      ≤ s.m.woken.length + fu.wtp := by
  unfold pollFut
  cases hk : fu.kind with
  | read => exact pollRead_pot s fu t hd
  | upgrade => exact pollUpgrade_pot s fu t hd
  | uread =>
    obtain ⟨hu1, hu2⟩ := hok.ustage hk
    have hi : fu.stage = .init := by
      cases h : fu.stage <;> simp_all
    have hl : fu.l.done = false := by
      cases h : fu.l.done
      · rfl
      · exact absurd (hu1.mpr h) hd
    exact pollUread_pot s fu t fire hd (hok.polledSlow hp hi (Or.inl hk)) hl
  | write =>
    refine pollWrite_pot s fu t fire hd (fun hi => ⟨hok.polledSlow hp hi (Or.inr hk), ?_⟩)
    exact (hok.wstage hk).mp hi

theorem pollFut_futs (s : Sys) (fu : Fut) (t : Nat) (fire : Bool) :
    (pollFut s fu t fire).s.futs = s.futs := by
  unfold pollFut
  cases fu.kind
  · exact (pollRead_eff s fu t).1.futs
  · exact (pollUread_eff s fu t fire).1.futs
  · exact (pollWrite_eff s fu t fire).1.futs
  · exact (pollUpgrade_eff s fu t).1.futs

theorem C17_rwlock_step (s : Sys) (f t : Nat) (fire : Bool) (fu : Fut) (hi : WordInv s)
    (hf : findFut s f = some fu) (hp : fu.polled = true) (hd : fu.stage ≠ .done)
    (hw : f ∈ s.m.woken) : phi (next s (.poll f t fire)) < phi s := by
  obtain ⟨hm, hid⟩ := find_id_mem (id := fun x : Fut => x.id) hf
  have hlt := filter_ne_length_lt hw
  have hpot := pollFut_pot { s with m := s.m.polled f } fu t fire (hi.flags fu hm) hp hd
  have hfu := pollFut_futs { s with m := s.m.polled f } fu t fire
  have hpw : (s.m.polled f).woken.length = (s.m.woken.filter (· != f)).length := rfl
  rw [step_poll_eq s f t fire fu hf hd]
  generalize pollFut { s with m := s.m.polled f } fu t fire = r at hpot hfu
  have hsum := sum_map_update s.futs (fun x : Fut => x.id) f
    (fun _ => { r.fu with polled := true, waker := t }) Fut.wt fu hi.nodup hm hid
  have hw1 : Fut.wt fu = fu.wtp := by simp [Fut.wt, Fut.wtp, hp]
  have hw2 : Fut.wt { r.fu with polled := true, waker := t } = r.fu.wtp := by simp [Fut.wt, Fut.wtp]
  simp only [] at hpot hfu hsum hw2
  simp only [afterPoll, phi, setFut, hfu]
  split <;> (simp only []; omega)

inductive Repolls : Sys → Nat → Sys → Prop
  | nil (s : Sys) : Repolls s 0 s
  | cons {s : Sys} {f t : Nat} {fire : Bool} {fu : Fut} {n : Nat} {s' : Sys} :
      f ∈ s.m.woken → findFut s f = some fu → fu.polled = true → fu.stage ≠ .done →
      Repolls (next s (.poll f t fire)) n s' → Repolls s (n + 1) s'

theorem repolls_phi {s : Sys} {n : Nat} {s' : Sys} (hi : WordInv s) (h : Repolls s n s') :
    n + phi s' ≤ phi s := by
  induction h with
  | nil => simp
  | @cons s f t fire fu n s' hw hf hp hd _ ih =>
    have := C17_rwlock_step s f t fire fu hi hf hp hd hw
    have := ih (step_word _ _ hi)
    omega

theorem phi_le (s : Sys) (hi : WordInv s) : phi s ≤ s.m.woken.length + 6 * (pendingPolled s).length := by
  have : ∀ l : List Fut, (∀ fu ∈ l, FutOK fu) →
      (l.map Fut.wt).sum ≤ 6 * (l.filter fun x => x.polled && x.stage != .done).length := by
    intro l hl
    induction l with
    | nil => simp
    | cons a t ih =>
      have := ih (fun fu h => hl fu (List.mem_cons_of_mem _ h))
      have ha := hl a (List.mem_cons_self ..)
      have hwa : a.wt ≤ if (a.polled && a.stage != .done) = true then 6 else 0 := by
        have h1 := ha.slowPolled
        have h2 := ha.donePolled
        have h3 := ha.wstage
        have h4 := ha.ustage
        have h5 := ha.lockFree
        unfold Fut.wt LockSt.weight
        cases hk : a.kind <;> cases hp : a.polled <;> cases hs : a.stage <;> cases hl : a.l.slow <;>
          cases hd : a.l.done <;> cases hst : a.l.starved <;> simp_all
      simp only [List.map_cons, List.sum_cons, List.filter_cons]
      split <;> simp_all <;> omega
  have := this s.futs hi.flags
  simp only [phi, pendingPolled]; omega

/-- **C17 (RwLock).** From any reachable state, any sequence of re-polls of woken pending read /
upgradable-read / write / upgrade futures (any order, any waker, either outcome of the 0.5 ms test)
has length at most `outstanding wake-ups + 6 × pending futures`: woken readers pass the
notification on only when they are admitted, writers only when they complete or turn starved. -/
theorem C17_rwlock (ops : List Op) {n : Nat} {s' : Sys} (h : Repolls (run {} ops) n s') :
    n ≤ (run {} ops).m.woken.length + 6 * (pendingPolled (run {} ops)).length := by
  have hi := reachable_word ops
  have := repolls_phi hi h
  have := phi_le _ hi
  omega

/-- outstanding wake-ups never outnumber the registered listeners of the three events together
(`lock_ops` of the inner mutex, `no_readers`, `no_writer`), which never outnumber the pending
futures (`Lemmas/RwLockWoken.lean`, invariant `W3`, through every branch of the four polls, of the
inner `lockPoll`, of the cancellations and of the unlock / conversion paths) -/
theorem C17_rwlock_woken_le (ops : List Op) :
    (run {} ops).m.woken.length ≤ (pendingPolled (run {} ops)).length := woken_le ops

/-- **C17 (RwLock), in the number of pending futures alone**: at most `7 × pending` re-polls. -/
theorem C17_rwlock_pending (ops : List Op) {n : Nat} {s' : Sys} (h : Repolls (run {} ops) n s') :
    n ≤ 7 * (pendingPolled (run {} ops)).length := by
  have := C17_rwlock ops h
  have := C17_rwlock_woken_le ops
  omega

end ALock.RwLock

namespace ALock.Once

/-- listeners that a successful initialisation will wake: all of them, until the cell is full -/
def reg (s : Sys) : Nat := if s.state = 2 then 0 else s.act.length + s.pas.length

def pcw (pc : Pc) : Nat := if pc = .done then 0 else 2

def Fut.wt (fu : Fut) : Nat := if fu.polled then pcw fu.pc else 0

/-- outstanding wake-ups + 2 × pending callers + listeners still to be woken by the initialisation -/
def phi (s : Sys) : Nat := s.woken.length + (s.futs.map Fut.wt).sum + reg s

theorem runInit_pot (s : Sys) (fu : Fut) (i : Input) (h1 : s.state = 1) :
    (runInit s fu i).s.woken.length + pcw (runInit s fu i).pc + reg (runInit s fu i).s
      ≤ s.woken.length + 2 + (s.act.length + s.pas.length) := by
  have a1 := Ev.notifyOwners_length_le false 1 s.act
  have a2 := Ev.notifyOwners_length_le_length true s.act.length s.act
  have a3 := Ev.notifyOwners_length_le_length true s.pas.length s.pas
  unfold runInit
  simp only []
  (repeat' split) <;>
    simp [reg, pcw, h1, Sys.notifyAll, Sys.guardDrop, Sys.notifyAct1, Ev.notify_length] <;> omega

theorem pollInit_pot (s : Sys) (fu : Fut) (t : Nat) (i : Input)
    (hpc : fu.pc = .waiting ∨ fu.pc = .running) (hrun : fu.pc = .running → s.state = 1) :
    (pollInit s fu t i).s.woken.length + pcw (pollInit s fu t i).pc + reg (pollInit s fu t i).s
      ≤ s.woken.length + 2 + reg s := by
  unfold pollInit
  rcases hpc with hpc | hpc
  · simp only [hpc]
    split
    · simp [reg, pcw, Ev.setTask_length]
    · rename_i hn
      have hn : Ev.isNotified s.act fu.id = true := by simpa using hn
      have he := Ev.erase_length_lt hn
      split
      · rename_i h2; simp [reg, pcw, h2]
      · split
        · rename_i h2 h1
          simp [reg, pcw, h1, Ev.setTask_length, Ev.listen_length']; omega
        · rename_i h2 h1
          have := runInit_pot { s with act := Ev.erase s.act fu.id, state := 1 } fu i rfl
          simp only [reg, h2, if_false] at this ⊢
          omega
  · simp only [hpc]
    have := runInit_pot s fu i (hrun hpc)
    simp only [reg, hrun hpc] at this ⊢
    simp at this ⊢
    omega

theorem pollWait_pot (s : Sys) (fu : Fut) (t : Nat) (hpc : fu.pc = .waiting) :
    (pollWait s fu t).s.woken.length + pcw (pollWait s fu t).pc + reg (pollWait s fu t).s
      ≤ s.woken.length + 2 + reg s := by
  unfold pollWait
  simp only [hpc]
  split
  · simp [reg, pcw, Ev.setTask_length]
  · have := Ev.erase_length_le s.pas fu.id
    simp only [reg, pcw]
    by_cases h2 : s.state = 2 <;> simp [h2] <;> omega

theorem pollInit_futs (s : Sys) (fu : Fut) (t : Nat) (i : Input) :
    (pollInit s fu t i).s.futs = s.futs := by
  unfold pollInit runInit
  cases fu.pc <;> simp only [] <;> (repeat' split) <;> rfl

theorem pollWait_futs (s : Sys) (fu : Fut) (t : Nat) : (pollWait s fu t).s.futs = s.futs := by
  unfold pollWait
  cases fu.pc <;> simp only [] <;> (repeat' split) <;> rfl

theorem C17_once_step (s : Sys) (f t : Nat) (i : Input) (fu : Fut) (hi : WInv s)
    (hf : findFut s f = some fu) (hp : fu.polled = true) (hd : fu.pc ≠ .done)
    (hw : f ∈ s.woken) : phi (next s (.poll f t i)) < phi s := by
  obtain ⟨hm, hid⟩ := findFut_mem hf
  have hok := hi.flags fu hm
  have hlt := filter_ne_length_lt hw
  have hns : fu.pc ≠ .start := hok.startOf hp
  have hsum := fun pc => sum_map_update s.futs (fun x : Fut => x.id) f (upd pc t) Fut.wt fu hi.nodup hm hid
  have hw1 : Fut.wt fu = 2 := by simp [Fut.wt, hp, pcw, hd]
  have hw2 : ∀ pc, Fut.wt (upd pc t fu) = pcw pc := by intro pc; simp [Fut.wt, upd]
  simp only [next, step, hf, hd, if_false]
  by_cases hk : fu.kind = .wait
  · have hwt : fu.pc = .waiting := by
      have := hok.waitNoRun hk
      cases h : fu.pc <;> simp_all
    have hpot := pollWait_pot { s with woken := s.woken.filter (· != f) } fu t hwt
    have hfu := pollWait_futs { s with woken := s.woken.filter (· != f) } fu t
    simp only [hk, if_true]
    generalize pollWait { s with woken := s.woken.filter (· != f) } fu t = r at hpot hfu
    have := hsum r.pc
    have := hw2 r.pc
    simp only [] at hpot hfu
    simp only [phi, reg, setFut, hfu] at hpot ⊢
    omega
  · have hpc : fu.pc = .waiting ∨ fu.pc = .running := by
      cases h : fu.pc <;> simp_all
    have hpot := pollInit_pot { s with woken := s.woken.filter (· != f) } fu t i hpc
      (fun h => running_state (s := s) hi hm h)
    have hfu := pollInit_futs { s with woken := s.woken.filter (· != f) } fu t i
    simp only [hk, if_false]
    generalize pollInit { s with woken := s.woken.filter (· != f) } fu t i = r at hpot hfu
    have := hsum r.pc
    have := hw2 r.pc
    simp only [] at hpot hfu
    simp only [phi, reg, setFut, hfu] at hpot ⊢
    omega

inductive Repolls : Sys → Nat → Sys → Prop
  | nil (s : Sys) : Repolls s 0 s
  | cons {s : Sys} {f t : Nat} {i : Input} {fu : Fut} {n : Nat} {s' : Sys} :
      f ∈ s.woken → findFut s f = some fu → fu.polled = true → fu.pc ≠ .done →
      Repolls (next s (.poll f t i)) n s' → Repolls s (n + 1) s'

theorem repolls_phi {s : Sys} {n : Nat} {s' : Sys} (hi : WInv s) (h : Repolls s n s') :
    n + phi s' ≤ phi s := by
  induction h with
  | nil => simp
  | @cons s f t i fu n s' hw hf hp hd _ ih =>
    have := C17_once_step s f t i fu hi hf hp hd hw
    have := ih (step_winv _ _ hi)
    omega

theorem phi_le (s : Sys) :
    phi s ≤ s.woken.length + 2 * (pendingPolled s).length + (s.act.length + s.pas.length) := by
  have h1 : (s.futs.map Fut.wt).sum = 2 * (pendingPolled s).length := by
    simp only [pendingPolled]
    induction s.futs with
    | nil => rfl
    | cons a t ih =>
      simp only [List.map_cons, List.sum_cons, List.filter_cons, ih, Fut.wt, pcw]
      cases a.polled <;> by_cases hd : a.pc = .done <;> simp [hd] <;> omega
  have h2 : reg s ≤ s.act.length + s.pas.length := by unfold reg; split <;> omega
  simp only [phi]; omega

/-- **C17 (OnceCell).** From any reachable state, any sequence of re-polls of woken pending callers
(`wait`, `get_or_init`, `get_or_try_init`, `set`; any order, any waker; the initialiser of a woken
caller may stay pending, complete, fail or panic) has length at most `outstanding wake-ups +
2 × pending callers + registered listeners` (a pending caller owns at most one listener). -/
theorem C17_once (ops : List Op) {n : Nat} {s' : Sys} (h : Repolls (run {} ops) n s') :
    n ≤ (run {} ops).woken.length + 2 * (pendingPolled (run {} ops)).length
        + ((run {} ops).act.length + (run {} ops).pas.length) := by
  have := repolls_phi (reachable_winv ops) h
  have := phi_le (run {} ops)
  omega

/-- outstanding wake-ups never outnumber the registered listeners (of both events together), which
never outnumber the pending callers (`Lemmas/OnceCellWoken.lean`) -/
theorem C17_once_woken_le (ops : List Op) :
    (run {} ops).woken.length ≤ (pendingPolled (run {} ops)).length := woken_le ops

/-- **C17 (OnceCell), in the number of pending callers alone**: at most `4 × pending` re-polls. -/
theorem C17_once_pending (ops : List Op) {n : Nat} {s' : Sys} (h : Repolls (run {} ops) n s') :
    n ≤ 4 * (pendingPolled (run {} ops)).length := by
  have := C17_once ops h
  have := C17_once_woken_le ops
  have := listeners_le ops
  omega

end ALock.Once

namespace ALock.Barrier

def pcw (pc : Pc) : Nat := if pc = .done then 0 else 2
def Fut.wt (fu : Fut) : Nat := if fu.polled then pcw fu.pc else 0

/-- outstanding wake-ups + 2 × pending waits -/
def phi (s : Sys) : Nat := s.woken.length + (s.futs.map Fut.wt).sum

/-- a wait that has arrived never notifies anybody when it is polled again -/
theorem pollWait_pot (s : Sys) (fu : Fut) (t : Nat) (lg : Nat) (hpc : fu.pc = .waiting lg) :
    (pollWait s fu t).s.woken = s.woken ∧ (pollWait s fu t).s.futs = s.futs ∧
    pcw (pollWait s fu t).pc ≤ 2 := by
  unfold pollWait
  simp only [hpc]
  (repeat' split) <;> simp [pcw]

theorem C17_barrier_step (s : Sys) (f t : Nat) (fu : Fut) (hn : (s.futs.map (·.id)).Nodup)
    (hf : findFut s f = some fu) (hp : fu.polled = true) (lg : Nat) (hpc : fu.pc = .waiting lg)
    (hw : f ∈ s.woken) : phi (next s (.poll f t)) < phi s := by
  obtain ⟨hm, hid⟩ := findFut_mem hf
  have hlt := filter_ne_length_lt hw
  have hd : fu.pc ≠ .done := by rw [hpc]; simp
  obtain ⟨h1, h2, h3⟩ := pollWait_pot { s with woken := s.woken.filter (· != f) } fu t lg hpc
  simp only [next, step, hf, hd, if_false]
  generalize pollWait { s with woken := s.woken.filter (· != f) } fu t = r at h1 h2 h3
  have hsum := sum_map_update s.futs (fun x : Fut => x.id) f (upd r.pc t) Fut.wt fu hn hm hid
  have hw1 : Fut.wt fu = 2 := by simp [Fut.wt, hp, pcw, hd]
  have hw2 : Fut.wt (upd r.pc t fu) = pcw r.pc := by simp [Fut.wt, upd]
  simp only [] at h1 h2
  simp only [phi, setFut, h1, h2]
  omega

inductive Repolls : Sys → Nat → Sys → Prop
  | nil (s : Sys) : Repolls s 0 s
  | cons {s : Sys} {f t : Nat} {fu : Fut} {n : Nat} {s' : Sys} :
      f ∈ s.woken → findFut s f = some fu → fu.polled = true → fu.pc ≠ .done →
      Repolls (next s (.poll f t)) n s' → Repolls s (n + 1) s'

theorem repolls_phi {s : Sys} {n : Nat} {s' : Sys} (hi : BInv s) (h : Repolls s n s') :
    n + phi s' ≤ phi s := by
  induction h with
  | nil => simp
  | @cons s f t fu n s' hw hf hp hd _ ih =>
    obtain ⟨hm, _⟩ := findFut_mem hf
    have hni : fu.pc ≠ .initial := ((hi.polledOf fu hm).mp hp)
    have : ∃ lg, fu.pc = .waiting lg := by
      cases h : fu.pc with
      | initial => exact absurd h hni
      | waiting lg => exact ⟨lg, rfl⟩
      | done => exact absurd h hd
    obtain ⟨lg, hpc⟩ := this
    have := C17_barrier_step s f t fu hi.nodup hf hp lg hpc hw
    have := ih (step_binv _ _ hi)
    omega

theorem phi_le (s : Sys) : phi s ≤ s.woken.length + 2 * (pendingPolled s).length := by
  have h1 : (s.futs.map Fut.wt).sum = 2 * (pendingPolled s).length := by
    simp only [pendingPolled]
    induction s.futs with
    | nil => rfl
    | cons a t ih =>
      simp only [List.map_cons, List.sum_cons, List.filter_cons, ih, Fut.wt, pcw]
      cases a.polled <;> by_cases hd : a.pc = .done <;> simp [hd] <;> omega
  simp only [phi]; omega

/-- **C17 (Barrier).** From any reachable state of a barrier of any size, any sequence of re-polls
of woken pending waits has length at most `outstanding wake-ups + 2 × pending waits`: a wait that
has arrived re-registers, it never notifies. -/
theorem C17_barrier (n0 : Nat) (ops : List Op) {n : Nat} {s' : Sys}
    (h : Repolls (run { n := n0 } ops) n s') :
    n ≤ (run { n := n0 } ops).woken.length + 2 * (pendingPolled (run { n := n0 } ops)).length := by
  have := repolls_phi (reachable_binv n0 ops) h
  have := phi_le (run { n := n0 } ops)
  omega

/-- outstanding wake-ups never outnumber the pending waits (`Lemmas/BarrierWoken.lean`) -/
theorem C17_barrier_woken_le (n0 : Nat) (ops : List Op) :
    (run { n := n0 } ops).woken.length ≤ (pendingPolled (run { n := n0 } ops)).length :=
  woken_le n0 ops

/-- **C17 (Barrier), in the number of pending waits alone**: at most `3 × pending` re-polls. -/
theorem C17_barrier_pending (n0 : Nat) (ops : List Op) {n : Nat} {s' : Sys}
    (h : Repolls (run { n := n0 } ops) n s') :
    n ≤ 3 * (pendingPolled (run { n := n0 } ops)).length := by
  have := C17_barrier n0 ops h
  have := C17_barrier_woken_le n0 ops
  omega

end ALock.Barrier

/-! ### Non-vacuity: reachable states with a woken pending future, and a re-poll from them -/

namespace ALock

example : let s := Sem.run (Sem.Sys.new 0) [.start 0 false, .poll 0 0, .start 1 false, .poll 1 4, .add 1]
    s.woken = [0] ∧ (Sem.pendingPolled s).length = 2 ∧ Sem.phi s = 5 ∧
    Sem.phi (Sem.next s (.poll 0 0)) = 3 := by decide

example : let s := Mutex.run {} [.tryLock 9 false, .start 0 false, .poll 0 0 false, .start 1 false,
      .poll 1 4 false, .dropGuard 9, .tryLock 8 false]
    s.c.woken = [0] ∧ Mutex.phi s = 9 ∧ Mutex.phi (Mutex.next s (.poll 0 0 false)) = 8 ∧
    Mutex.phi (Mutex.next s (.poll 0 0 true)) = 6 := by decide

/-- the RwLock scenario of the reader chain: two readers pending behind a writer, the writer
leaves, a new writer waits for a new reader; re-polling the woken reader does not wake the other -/
example : let s := RwLock.run {} [.try_ 9 .write false, .start 0 .read false, .poll 0 0 false,
      .start 1 .read false, .poll 1 4 false, .dropGuard 9, .try_ 8 .read false,
      .start 2 .write false, .poll 2 8 false]
    s.m.woken = [0] ∧ (RwLock.next s (.poll 0 0 false)).m.woken = [] := by decide

end ALock
