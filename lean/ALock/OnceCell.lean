import ALock.Event

/-!
# Poll-granular model of `async_lock::OnceCell` (src/once_cell.rs)

State: `state` (0 = uninitialised, 1 = initialising, 2 = initialised), the stored value, the two
events `active_initializers` (`act`) and `passive_waiters` (`pas`).

Callers are futures of four kinds: `wait()`, `get_or_init()`, `get_or_try_init()`, `set()`.
The initialiser closure/future of a caller is *scripted*: whenever a poll of the caller polls its
initialiser, the schedule supplies the outcome (`pend`, `ok`, `err`, `panic`).  The value an
initialiser of caller `f` produces is `f` itself, so "the one value produced by the single
successful initialiser" is identifiable.  `set(value)`'s initialiser is immediately `ok`.

`initialize_or_wait`:
```
loop { match state.load() {
  Initialized   => return Ok(()),
  Initializing  => if let Some(l) = event_listener.take() { strategy.wait(l).await }
                   else { event_listener = Some(active_initializers.listen()) },
  Uninitialized => { if CAS(0 -> 1).is_err() { continue }
                     let _guard = Guard(self);                  // drop: store(0); active.notify(1)
                     match closure().await {
                       Ok(v)  => { write(v); forget(_guard); store(2);
                                   active.notify_additional(MAX); passive.notify_additional(MAX); return Ok(()) }
                       Err(e) => { drop(_guard); return Err(e) } } } } }
```
-/

namespace ALock.Once

inductive Kind where
  | wait | init | tryInit | set
deriving DecidableEq, Repr

/-- outcome of polling the caller's initialiser future in this poll -/
inductive Input where
  | pend | ok | err | panic
  /-- the initialiser *closure* panics when it is called (before it returns its future); it is
  called once, when the caller wins the CAS, so this input only matters in that poll -/
  | cpanic
deriving DecidableEq, Repr

inductive Pc where
  | start
  /-- registered on `passive_waiters` (`wait`) / on `active_initializers` (the others) -/
  | waiting
  /-- holds the `Guard`, its initialiser future is pending -/
  | running
  | done
deriving DecidableEq, Repr

/-- a payload value: `by` is the caller whose initialiser (or `set` argument) produced it; `serial`
distinguishes instances (caller ids are reused once a future is dropped) -/
structure Val where
  serial : Nat
  by_ : Nat
deriving DecidableEq, Repr

structure Fut where
  id : Nat
  kind : Kind
  pc : Pc := .start
  polled : Bool := false
  waker : Nat := 0
  /-- a `set` future owns its argument until it stores it, hands it back, or is dropped -/
  arg : Option Val := none
deriving DecidableEq, Repr

structure Sys where
  state : Nat := 0
  value : Option Val := none
  act : List Entry := []
  pas : List Entry := []
  woken : List Nat := []
  log : List Nat := []
  futs : List Fut := []
  /-- serials of the values dropped so far, newest first -/
  dropped : List Nat := []
  /-- next fresh serial -/
  nextSerial : Nat := 0
  /-- the cell itself has been dropped -/
  gone : Bool := false
deriving Repr

inductive Op where
  | start (f : Nat) (k : Kind)
  | poll (f t : Nat) (i : Input)
  | dropFut (f : Nat)
  | get
  /-- `take()` (through `&mut self`: only without live futures) -/
  | take
  /-- drop of the cell -/
  | dropCell
deriving DecidableEq, Repr

inductive Out where
  | ok
  | pending
  /-- `Ready(Ok(&v))` / `Ready(&v)`; for `set`: `Ok(&v)` (its own value was stored) -/
  | readyVal (v : Nat)
  /-- `get_or_try_init`: `Ready(Err(e))` with the caller's own error -/
  | readyErr
  /-- `set`: `Err(value)` — the argument is handed back, the cell holds `v` -/
  | setBack (v : Nat)
  /-- the caller's own initialiser panicked -/
  | panicked
  | some (v : Nat)
  | none
  | bad
deriving DecidableEq, Repr

/-- the caller id shown for the stored value (what the harness prints) -/
def valBy (s : Sys) : Nat := (s.value.map (·.by_)).getD 0
/-- serial of the stored value -/
def valSerial (s : Sys) : Nat := (s.value.map (·.serial)).getD 0

def findFut (s : Sys) (f : Nat) : Option Fut := s.futs.find? (·.id == f)
def setFut (futs : List Fut) (f : Nat) (g : Fut → Fut) : List Fut :=
  futs.map fun x => if x.id == f then g x else x

/-- `active_initializers.notify(1)` -/
def Sys.notifyAct1 (s : Sys) : Sys :=
  { s with act := Ev.notify false 1 s.act,
           woken := Ev.notifyOwners false 1 s.act ++ s.woken,
           log := (Ev.notifyTasks false 1 s.act).reverse ++ s.log }

/-- `active_initializers.notify_additional(usize::MAX)` then `passive_waiters.notify_additional(usize::MAX)`.
`usize::MAX` exceeds the number of listeners that can exist in memory, so the call notifies every
un-notified entry; the model says exactly that (`n = length`). -/
def Sys.notifyAll (s : Sys) : Sys :=
  { s with act := Ev.notify true s.act.length s.act,
           pas := Ev.notify true s.pas.length s.pas,
           woken := Ev.notifyOwners true s.pas.length s.pas ++
                    (Ev.notifyOwners true s.act.length s.act ++ s.woken),
           log := (Ev.notifyTasks true s.pas.length s.pas).reverse ++
                  ((Ev.notifyTasks true s.act.length s.act).reverse ++ s.log) }

def Sys.dropAct (s : Sys) (f : Nat) : Sys :=
  { s with act := Ev.drop s.act f,
           woken := Ev.dropOwners s.act f ++ s.woken,
           log := (Ev.dropTasks s.act f).reverse ++ s.log }

def Sys.dropPas (s : Sys) (f : Nat) : Sys :=
  { s with pas := Ev.drop s.pas f,
           woken := Ev.dropOwners s.pas f ++ s.woken,
           log := (Ev.dropTasks s.pas f).reverse ++ s.log }

/-- `Guard::drop`: `state.store(0)`, `active_initializers.notify(1)` -/
def Sys.guardDrop (s : Sys) : Sys := { s with state := 0 }.notifyAct1

structure PRes where
  s : Sys
  pc : Pc
  out : Out

/-- result a completed caller of kind `k` (id `f`) reports when the cell holds `v` and its own
closure did (`ran = true`) or did not run -/
def report (k : Kind) (v : Nat) (ran : Bool) : Out :=
  match k with
  | .set => if ran then .readyVal v else .setBack v
  | _ => .readyVal v

/-- the value an initialiser of `fu` yields: the `set` argument, or a fresh value -/
def produced (s : Sys) (fu : Fut) : Val :=
  match fu.arg with
  | some v => v
  | none => { serial := s.nextSerial, by_ := fu.id }

/-- The caller has won the CAS (state is 1, it holds the `Guard`) and polls its initialiser. -/
def runInit (s : Sys) (fu : Fut) (i : Input) : PRes :=
  let i := if fu.kind = .set then Input.ok
           else if i = .cpanic then (if fu.pc = .running then Input.pend else Input.panic)
           else i
  match i with
  | .pend => ⟨s, .running, .pending⟩
  | .ok =>
    -- ptr::write(value); forget(guard); store(2); notify both events
    let s' := { s with state := 2, value := some (produced s fu),
                       nextSerial := if fu.arg.isSome then s.nextSerial else s.nextSerial + 1 }.notifyAll
    ⟨s', .done, report fu.kind fu.id true⟩
  | .err =>
    if fu.kind = .tryInit then ⟨s.guardDrop, .done, .readyErr⟩
    else ⟨s, .running, .pending⟩      -- not a possible input for infallible closures
  | .panic => ⟨s.guardDrop, .done, .panicked⟩
  | .cpanic => ⟨s, .running, .pending⟩      -- unreachable: rewritten above

/-- One poll of an initialising caller (`get_or_init`, `get_or_try_init`, `set`). -/
def pollInit (s : Sys) (fu : Fut) (t : Nat) (i : Input) : PRes :=
  let f := fu.id
  match fu.pc with
  | .start =>
    if s.state = 2 then ⟨s, .done, report fu.kind (valBy s) false⟩
    else if s.state = 1 then
      -- listen, reload (still 1), await the listener: Pending
      ⟨{ s with act := Ev.setTask (Ev.listen s.act f) f t }, .waiting, .pending⟩
    else runInit { s with state := 1 } fu i
  | .waiting =>
    if !Ev.isNotified s.act f then ⟨{ s with act := Ev.setTask s.act f t }, .waiting, .pending⟩
    else
      -- the listener is consumed; loop: reload
      let s1 := { s with act := Ev.erase s.act f }
      if s.state = 2 then ⟨s1, .done, report fu.kind (valBy s) false⟩
      else if s.state = 1 then
        ⟨{ s1 with act := Ev.setTask (Ev.listen s1.act f) f t }, .waiting, .pending⟩
      else runInit { s1 with state := 1 } fu i
  | .running => runInit s fu i
  | .done => ⟨s, .done, .bad⟩

/-- One poll of a `wait()` future. -/
def pollWait (s : Sys) (fu : Fut) (t : Nat) : PRes :=
  let f := fu.id
  match fu.pc with
  | .start =>
    if s.state = 2 then ⟨s, .done, .readyVal (valBy s)⟩
    else ⟨{ s with pas := Ev.setTask (Ev.listen s.pas f) f t }, .waiting, .pending⟩
  | .waiting =>
    if !Ev.isNotified s.pas f then ⟨{ s with pas := Ev.setTask s.pas f t }, .waiting, .pending⟩
    else ⟨{ s with pas := Ev.erase s.pas f }, .done, .readyVal (valBy s)⟩
  | _ => ⟨s, .done, .bad⟩

/-- Dropping a caller: its listener (forwarding a notification), or its `Guard`. -/
def dropFutS (s : Sys) (fu : Fut) : Sys :=
  match fu.kind, fu.pc with
  | .wait, .waiting => s.dropPas fu.id
  | _, .waiting => s.dropAct fu.id
  | _, .running => s.guardDrop
  | _, _ => s

/-- bookkeeping of the polled caller after a poll; once a `set` completes its argument is gone
from the future (stored or handed back) -/
def upd (pc : Pc) (t : Nat) (x : Fut) : Fut :=
  { x with pc := pc, polled := true, waker := t, arg := if pc = .done then none else x.arg }

def step (s : Sys) : Op → Sys × Out
  | .start f k =>
    if (findFut s f).isNone && !s.gone then
      if k = .set then
        ({ s with futs := { id := f, kind := k, waker := f * 4,
                            arg := some { serial := s.nextSerial, by_ := f } } :: s.futs,
                  nextSerial := s.nextSerial + 1 }, .ok)
      else ({ s with futs := { id := f, kind := k, waker := f * 4 } :: s.futs }, .ok)
    else (s, .bad)
  | .poll f t i =>
    match findFut s f with
    | some fu =>
      if fu.pc = .done then (s, .bad)
      else
        let s0 := { s with woken := s.woken.filter (· != f) }
        let r := if fu.kind = .wait then pollWait s0 fu t else pollInit s0 fu t i
        -- a `set` whose argument was not stored gets it back and (in the harness) drops it
        let dropped := match r.out, fu.arg with
          | .setBack _, some v => v.serial :: r.s.dropped
          | _, _ => r.s.dropped
        ({ r.s with futs := setFut r.s.futs f (upd r.pc t), dropped := dropped }, r.out)
    | none => (s, .bad)
  | .dropFut f =>
    match findFut s f with
    | some fu =>
      let s1 := dropFutS { s with woken := s.woken.filter (· != f) } fu
      -- a `set` future that has not completed still owns its argument, which is dropped with it
      ({ s1 with futs := s1.futs.filter (·.id != f),
                 dropped := match fu.arg with
                   | some v => v.serial :: s1.dropped
                   | none => s1.dropped }, .ok)
    | none => (s, .bad)
  | .get =>
    if s.gone then (s, .bad)
    else if s.state = 2 then (s, .some (valBy s)) else (s, .none)
  | .take =>
    if s.futs.isEmpty && !s.gone then
      if s.state = 2 then
        -- the value is handed to the caller (the harness drops it)
        ({ s with state := 0, value := none, dropped := valSerial s :: s.dropped },
          .some (valBy s))
      else (s, .none)
    else (s, .bad)
  | .dropCell =>
    if s.futs.isEmpty && !s.gone then
      if s.state = 2 then
        ({ s with gone := true, state := 0, value := none, dropped := valSerial s :: s.dropped }, .ok)
      else ({ s with gone := true }, .ok)
    else (s, .bad)

def next (s : Sys) (op : Op) : Sys := (step s op).1
def run (s : Sys) (ops : List Op) : Sys := ops.foldl next s

def minOf : List Nat → Option Nat
  | [] => none
  | x :: xs => match minOf xs with
    | none => some x
    | some y => some (if x ≤ y then x else y)

def lastWaker (s : Sys) (f : Nat) : Nat := ((findFut s f).map (·.waker)).getD 0

/-- settle: re-poll woken callers; a running initialiser stays pending -/
def settleLoop (s : Sys) : Nat → Nat → Sys × Nat
  | 0, p => (s, p)
  | fuel+1, p =>
    match minOf s.woken with
    | none => (s, p)
    | some f => settleLoop (next s (.poll f (lastWaker s f) .pend)) fuel (p+1)

def pendingPolled (s : Sys) : List Fut := s.futs.filter fun x => x.polled && x.pc != .done

end ALock.Once
