import ALock.AtomTrace

/-! Formatting helpers shared by the per-primitive driver modules. -/

namespace ALock.Drv
open ALock

def opName : AOp → String
  | .load => "load" | .store => "store" | .cas => "cas" | .casw => "casw"
  | .fadd => "fadd" | .fsub => "fsub" | .for_ => "for" | .fand => "fand"

def fmtAtom (x : Atom) : String :=
  let args := match x.op with
    | .load => ""
    | .cas | .casw => s!"{x.a},{x.b}"
    | _ => s!"{x.a}"
  let ret := match x.ret with
    | .none => ""
    | .val v => s!"={v}"
    | .ok v => s!"=ok{v}"
    | .err v => s!"=err{v}"
  s!"w{x.w}:{opName x.op}({args};{x.ord}){ret}"

/-- the `at=` field: the atomic operations of the step, `-` if none -/
def fmtAtoms (l : List Atom) : String :=
  if l.isEmpty then "-" else ",".intercalate (l.map fmtAtom)

def fmtList (l : List Nat) : String := ",".intercalate (l.map toString)

def num? (s : String) : Option Nat := s.toNat?

def bool? (s : String) : Option Bool :=
  match s with
  | "0" => some false
  | "1" => some true
  | _ => none

/-- `n:x` for an event with `n` listeners, `x` = some entry is notified; `0:-` when empty. -/
def fmtEvent (len notified : Nat) : String :=
  if len == 0 then "0:-" else s!"{len}:{if notified > 0 then 1 else 0}"

/-- the waker ids added to a newest-first log by an operation, oldest first -/
def newWakes (before after : List Nat) : List Nat :=
  (after.take (after.length - before.length)).reverse

def obs (out : String) (wakes : List Nat) (snap : String) : String :=
  s!"{out} | w={fmtList wakes} | {snap}"

end ALock.Drv
