import ALock.OnceCell
import ALock.Drv.Util
import ALock.AtomTraceMore

/-! Line protocol for the OnceCell model. -/

namespace ALock.Drv.Once
open ALock ALock.Once

def snapshot (s : Sys) : String :=
  if s.gone then s!"words=- ev=- val=- drops={s.dropped.length}"
  else
    let v := match s.value with
      | some x => toString x.by_
      | none => "-"
    s!"words={s.state} ev={fmtEvent s.act.length (cnt s.act)},{fmtEvent s.pas.length (cnt s.pas)} val={v} drops={s.dropped.length}"

def outStr : Out → String
  | .ok => "ok" | .pending => "pending" | .readyVal v => s!"ready {v}" | .readyErr => "readyerr"
  | .setBack v => s!"setback {v}" | .panicked => "panic" | .some v => s!"some {v}" | .none => "none"
  | .bad => "bad-op"

def kind? : String → Option Kind
  | "wait" => some .wait | "init" => some .init | "tryinit" => some .tryInit | "set" => some .set
  | _ => none

def input? : String → Option Input
  | "pend" => some .pend | "ok" => some .ok | "err" => some .err | "panic" => some .panic
  | "cpanic" => some .cpanic | _ => none

def parseOp : List String → Option Op
  | ["start", f, k] => do pure (.start (← num? f) (← kind? k))
  | ["poll", f, t, i] => do pure (.poll (← num? f) (← num? t) (← input? i))
  | ["dropf", f] => do pure (.dropFut (← num? f))
  | ["get"] => some .get
  | ["take"] => some .take
  | ["dropcell"] => some .dropCell
  | _ => none

/-- a blocking call in a state in which it does not park (`state ≠ 1`): the caller is created,
polled once (it completes) and dropped — a three-op history of the same step function -/
def blk (s : Sys) (f : Nat) (k : Kind) (i : Input) : Option (Sys × Out) :=
  if s.state = 1 || s.gone || (findFut s f).isSome || (k == .wait && s.state != 2) then none
  else
    let i := if i == .panic then Input.cpanic else i
    let s1 := (step s (.start f k)).1
    let r := step s1 (.poll f (f * 4) i)
    let s3 := (step r.1 (.dropFut f)).1
    some (s3, r.2)

def exec (s : Sys) (toks : List String) : Sys × String :=
  match toks with
  | ["blk", f, k, i] =>
    match num? f, kind? k, input? i with
    | some f, some k, some i =>
      match blk s f k i with
      | some (s', o) => (s', obs (outStr o) (newWakes s.log s'.log) (snapshot s'))
      | none => (s, "bad-op")
    | _, _, _ => (s, "bad-op")
  | ["settle", b] =>
    match num? b with
    | some bound =>
      let r := settleLoop s bound 0
      (r.1, obs s!"settled {r.2}" (newWakes s.log r.1.log)
        (snapshot r.1 ++ " at=" ++ fmtAtoms (settleAtoms s bound)))
    | none => (s, "bad-op")
  | _ =>
    match parseOp toks with
    | some op =>
      let r := step s op
      if r.2 == .bad then (s, "bad-op")
      else (r.1, obs (outStr r.2) (newWakes s.log r.1.log)
        (snapshot r.1 ++ " at=" ++ fmtAtoms (stepAtoms s op)))
    | none => (s, "bad-op")

def create : List String → Option Sys
  | [] => some {}
  | _ => none

end ALock.Drv.Once
