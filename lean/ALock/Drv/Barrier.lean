import ALock.Barrier
import ALock.Drv.Util
import ALock.AtomTraceMore

/-! Line protocol for the Barrier model. -/

namespace ALock.Drv.Barrier
open ALock ALock.Barrier

def snapshot (s : Sys) : String :=
  s!"words=0,{s.count},{s.gen} ev=0:-,{fmtEvent s.q.length (cnt s.q)}"

def outStr : Out → String
  | .ok => "ok" | .pending => "pending" | .leader => "ready leader" | .follower => "ready follower"
  | .bad => "bad-op"

def parseOp : List String → Option Op
  | ["start", f] => do pure (.start (← num? f))
  | ["poll", f, t] => do pure (.poll (← num? f) (← num? t))
  | ["dropf", f] => do pure (.dropFut (← num? f))
  | _ => none

def exec (s : Sys) (toks : List String) : Sys × String :=
  match toks with
  | ["settle", b] =>
    match num? b with
    | some bound =>
      let r := settleLoop s bound 0
      (r.1, obs s!"settled {r.2}" (newWakes s.log r.1.log)
        (snapshot r.1 ++ " at=" ++ fmtAtoms (settleAtoms s bound)))
    | none => (s, "bad-op")
  | _ =>
    match parseOp toks with
    | some op =>
      let r := step s op
      if r.2 == .bad then (s, "bad-op")
      else (r.1, obs (outStr r.2) (newWakes s.log r.1.log)
        (snapshot r.1 ++ " at=" ++ fmtAtoms (stepAtoms s op)))
    | none => (s, "bad-op")

def create : List String → Option Sys
  | [n] => (num? n).map fun n => { n := n }
  | _ => none

end ALock.Drv.Barrier
