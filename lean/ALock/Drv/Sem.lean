import ALock.Sem
import ALock.Drv.Util
import ALock.AtomTraceMore

/-! Line protocol for the Semaphore model: the same `step` the theorems are about. -/

namespace ALock.Drv.Sem
open ALock ALock.Sem

def snapshot (s : Sys) : String :=
  s!"words={s.count} ev={fmtEvent s.q.length (cnt s.q)} strong={s.strong}"

def outStr : Out → String
  | .ok => "ok" | .ready => "ready" | .pending => "pending"
  | .some => "some" | .none => "none" | .bad => "bad-op"

def parseOp : List String → Option Op
  | ["start", f, a] => do pure (.start (← num? f) (← bool? a))
  | ["poll", f, t] => do pure (.poll (← num? f) (← num? t))
  | ["dropf", f] => do pure (.dropFut (← num? f))
  | ["try", g, a] => do pure (.tryAcq (← num? g) (← bool? a))
  | ["dropg", g] => do pure (.dropGuard (← num? g))
  | ["forget", g] => do pure (.forget (← num? g))
  | ["add", n] => do pure (.add (← num? n))
  | ["hclone"] => some .hclone
  | ["hdrop"] => some .hdrop
  | _ => none

def exec (s : Sys) (toks : List String) : Sys × String :=
  match toks with
  | ["settle", b] =>
    match num? b with
    | some bound =>
      let r := settleLoop s bound 0
      (r.1, obs s!"settled {r.2}" (newWakes s.wakeLog r.1.wakeLog)
        (snapshot r.1 ++ " at=" ++ fmtAtoms (settleAtoms s bound)))
    | none => (s, "bad-op")
  | _ =>
    match parseOp toks with
    | some op =>
      let r := step s op
      if r.2 == .bad then (s, "bad-op")
      else (r.1, obs (outStr r.2) (newWakes s.wakeLog r.1.wakeLog)
        (snapshot r.1 ++ " at=" ++ fmtAtoms (stepAtoms s op)))
    | none => (s, "bad-op")

def create : List String → Option Sys
  | [n] => (num? n).map Sys.new
  | _ => none

end ALock.Drv.Sem
