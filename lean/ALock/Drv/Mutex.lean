import ALock.Mutex
import ALock.Drv.Util

/-! Line protocol for the Mutex model. -/

namespace ALock.Drv.Mutex
open ALock ALock.Mutex

def snapshot (s : Sys) : String :=
  if s.strong == 0 then "words=- ev=- strong=0 dropped=1"
  else s!"words={s.c.st} ev={fmtEvent s.c.q.length (cnt s.c.q)} strong={s.strong} dropped=0"

def outStr : Out → String
  | .ok => "ok" | .ready => "ready" | .pending => "pending"
  | .some => "some" | .none => "none" | .bad => "bad-op"

def parseOp : List String → Option Op
  | ["start", f, a] => do pure (.start (← num? f) (← bool? a))
  | ["poll", f, t, b] => do pure (.poll (← num? f) (← num? t) (← bool? b))
  | ["dropf", f] => do pure (.dropFut (← num? f))
  | ["try", g, a] => do pure (.tryLock (← num? g) (← bool? a))
  | ["dropg", g] => do pure (.dropGuard (← num? g))
  | ["hclone"] => some .hclone
  | ["hdrop"] => some .hdrop
  | _ => none

def exec (s : Sys) (toks : List String) : Sys × String :=
  match toks with
  | ["settle", b] =>
    match num? b with
    | some bound =>
      let r := settleLoop s bound 0
      (r.1, obs s!"settled {r.2}" (newWakes s.c.log r.1.c.log) (snapshot r.1))
    | none => (s, "bad-op")
  | _ =>
    match parseOp toks with
    | some op =>
      let r := step s op
      if r.2 == .bad then (s, "bad-op")
      else (r.1, obs (outStr r.2) (newWakes s.c.log r.1.c.log) (snapshot r.1))
    | none => (s, "bad-op")

/-- coverage label of a poll: which branch of `lockPoll` it takes -/
def label (s : Sys) (toks : List String) : Option String :=
  match parseOp toks with
  | some (.poll f t fire) =>
    match findFut s f with
    | some fu => if fu.l.done then none
                 else some s!"mutex.lockPoll.{(lockPoll (s.c.polled f) fu.l f t fire).br}"
    | none => none
  | _ => none

def create : List String → Option Sys
  | [] => some {}
  | _ => none

end ALock.Drv.Mutex
