import ALock.Mutex
import ALock.Drv.Util

/-! Line protocol for the Mutex model. -/

namespace ALock.Drv.Mutex
open ALock ALock.Mutex

def snapshot (s : Sys) : String :=
  if s.strong == 0 then "words=- ev=- strong=0 dropped=1"
  else s!"words={s.c.st} ev={fmtEvent s.c.q.length (cnt s.c.q)} strong={s.strong} dropped=0"

def outStr : Out → String
  | .ok => "ok" | .ready => "ready" | .pending => "pending"
  | .some => "some" | .none => "none" | .bad => "bad-op"

def parseOp : List String → Option Op
  | ["start", f, a] => do pure (.start (← num? f) (← bool? a))
  | ["poll", f, t, b] => do pure (.poll (← num? f) (← num? t) (← bool? b))
  | ["dropf", f] => do pure (.dropFut (← num? f))
  | ["try", g, a] => do pure (.tryLock (← num? g) (← bool? a))
  | ["dropg", g] => do pure (.dropGuard (← num? g))
  | ["hclone"] => some .hclone
  | ["hdrop"] => some .hdrop
  | _ => none

/-- the atomic operations of one model step -/
def stepAtoms (s : Sys) : Op → List Atom
  | .poll f t fire =>
    match findFut s f with
    | some fu => if fu.l.done then [] else lockAtoms (s.c.polled f) fu.l f t fire
    | none => []
  | .dropFut f =>
    match findFut s f with
    | some fu => lockDropAtoms (s.c.polled f) fu.l
    | none => []
  | .tryLock g _ => if fresh s g && 0 < s.handles then tryLockAtoms s.c else []
  | .dropGuard g =>
    match findGuard s g with
    | some _ => unlockAtoms s.c
    | none => []
  | _ => []

/-- settle = the polls it makes -/
def settleAtoms (s : Sys) : Nat → List Atom
  | 0 => []
  | fuel + 1 =>
    match minOf s.c.woken with
    | none => []
    | some f =>
      let op := Op.poll f (lastWaker s f) false
      stepAtoms s op ++ settleAtoms (next s op) fuel

def exec (s : Sys) (toks : List String) : Sys × String :=
  match toks with
  | ["settle", b] =>
    match num? b with
    | some bound =>
      let r := settleLoop s bound 0
      (r.1, obs s!"settled {r.2}" (newWakes s.c.log r.1.c.log)
        (snapshot r.1 ++ " at=" ++ fmtAtoms (settleAtoms s bound)))
    | none => (s, "bad-op")
  | _ =>
    match parseOp toks with
    | some op =>
      let r := step s op
      if r.2 == .bad then (s, "bad-op")
      else (r.1, obs (outStr r.2) (newWakes s.c.log r.1.c.log)
        (snapshot r.1 ++ " at=" ++ fmtAtoms (stepAtoms s op)))
    | none => (s, "bad-op")

/-- coverage label of a poll: which branch of `lockPoll` it takes -/
def label (s : Sys) (toks : List String) : Option String :=
  match parseOp toks with
  | some (.poll f t fire) =>
    match findFut s f with
    | some fu => if fu.l.done then none
                 else some s!"mutex.lockPoll.{(lockPoll (s.c.polled f) fu.l f t fire).br}"
    | none => none
  | _ => none

def create : List String → Option Sys
  | [] => some {}
  | _ => none

end ALock.Drv.Mutex
