import ALock.RwLock
import ALock.Drv.Util
import ALock.AtomTraceMore

/-! Line protocol for the RwLock model. -/

namespace ALock.Drv.RwLock
open ALock ALock.RwLock

def snapshot (s : Sys) : String :=
  if s.strong == 0 then "words=- ev=- strong=0 dropped=1"
  else
    let ev := ",".intercalate
      [fmtEvent s.m.q.length (cnt s.m.q), fmtEvent s.nr.length (cnt s.nr), fmtEvent s.nw.length (cnt s.nw)]
    s!"words={s.state},{s.m.st} ev={ev} strong={s.strong} dropped=0"

def outStr : Out → String
  | .ok => "ok" | .ready => "ready" | .pending => "pending"
  | .some => "some" | .none => "none" | .err => "err" | .bad => "bad-op"

def kind? : String → Option Kind
  | "read" => some .read | "uread" => some .uread | "write" => some .write | _ => none

def gkind? : String → Option GKind
  | "read" => some .read | "uread" => some .uread | "write" => some .write | _ => none

def conv? : String → Option Conv
  | "downgrade" => some .downgrade | "toupgradable" => some .toUpgradable
  | "tryupgrade" => some .tryUpgrade | _ => none

def parseOp : List String → Option Op
  | ["start", f, k, a] => do pure (.start (← num? f) (← kind? k) (← bool? a))
  | ["poll", f, t, b] => do pure (.poll (← num? f) (← num? t) (← bool? b))
  | ["dropf", f] => do pure (.dropFut (← num? f))
  | ["try", g, k, a] => do pure (.try_ (← num? g) (← gkind? k) (← bool? a))
  | ["dropg", g] => do pure (.dropGuard (← num? g))
  | ["conv", g, c] => do pure (.conv (← num? g) (← conv? c))
  | ["upgrade", g, f] => do pure (.upgrade (← num? g) (← num? f))
  | ["hclone"] => some .hclone
  | ["hdrop"] => some .hdrop
  | _ => none

def exec (s : Sys) (toks : List String) : Sys × String :=
  match toks with
  | ["settle", b] =>
    match num? b with
    | some bound =>
      let r := settleLoop s bound 0
      (r.1, obs s!"settled {r.2}" (newWakes s.m.log r.1.m.log)
        (snapshot r.1 ++ " at=" ++ fmtAtoms (settleAtoms s bound)))
    | none => (s, "bad-op")
  | _ =>
    match parseOp toks with
    | some op =>
      let r := step s op
      if r.2 == .bad then (s, "bad-op")
      else (r.1, obs (outStr r.2) (newWakes s.m.log r.1.m.log)
        (snapshot r.1 ++ " at=" ++ fmtAtoms (stepAtoms s op)))
    | none => (s, "bad-op")

def label (s : Sys) (toks : List String) : Option String :=
  match parseOp toks with
  | some (.poll f t fire) =>
    match findFut s f with
    | some fu => if fu.stage == .done then none
                 else some s!"rwlock.poll.{(pollFut { s with m := s.m.polled f } fu t fire).br}"
    | none => none
  | _ => none

def create : List String → Option Sys
  | [] => some {}
  | _ => none

end ALock.Drv.RwLock
