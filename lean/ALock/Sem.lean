import ALock.Event

/-!
# Poll-granular model of `async_lock::Semaphore` (src/semaphore.rs)

State: the `count` word, the `event` queue, and bookkeeping of live futures and guards.
Every `Op` is one call of the public API executed atomically (single-threaded histories):

* `start f arc`      — `acquire()` / `acquire_arc()` creates future `f` (the Arc form clones the Arc)
* `poll f t`         — `Future::poll` of `f` with waker `t`
* `dropFut f`        — drop of future `f` at any moment of its life
* `tryAcq g arc`     — `try_acquire()` / `try_acquire_arc()`, the guard (if any) is `g`
* `dropGuard g`      — guard drop: `count.fetch_add(1)`, `event.notify(1)`
* `forget g`         — `SemaphoreGuard::forget`
* `add n`            — `add_permits(n)`: `count.fetch_add(n)`, `event.notify(n)`
* `hclone`/`hdrop`   — the user clones / drops an `Arc<Semaphore>` handle

`poll` follows `AcquireInner::poll_with_strategy` (identical for `AcquireArcInner`):
```
loop { match try_acquire() {
         Some(g) => { listener = None; return Ready(g) }        // listener dropped on completion
         None => if listener.is_none() { listener = Some(event.listen()) }
                 else { ready!(strategy.poll(listener, cx)) } } }
```
With atomic polls the loop unrolls to the four cases of `poll` below.
-/

namespace ALock.Sem

structure Fut where
  id : Nat
  arc : Bool
  polled : Bool := false
  done : Bool := false
  /-- the waker this future was last polled with (used by `settle`) -/
  waker : Nat := 0
deriving DecidableEq, Repr

structure Guard where
  id : Nat
  arc : Bool
deriving DecidableEq, Repr

structure Sys where
  count : Nat
  q : List Entry := []
  /-- owners whose waker has been called and that have not been polled since -/
  woken : List Nat := []
  /-- every waker call so far, newest first (the driver prints the part added by an op) -/
  wakeLog : List Nat := []
  futs : List Fut := []
  guards : List Guard := []
  forgotten : Nat := 0
  init : Nat
  added : Nat := 0
  /-- user-held `Arc` handles -/
  handles : Nat := 1
  /-- the Arc's strong count, updated where the code clones / drops the Arc -/
  strong : Nat := 1
deriving Repr

def Sys.new (n : Nat) : Sys := { count := n, init := n }

inductive Op where
  | start (f : Nat) (arc : Bool)
  | poll (f t : Nat)
  | dropFut (f : Nat)
  | tryAcq (g : Nat) (arc : Bool)
  | dropGuard (g : Nat)
  | forget (g : Nat)
  | add (n : Nat)
  | hclone
  | hdrop
deriving DecidableEq, Repr

inductive Out where
  | ok | ready | pending | some | none | bad
deriving DecidableEq, Repr

def findFut (s : Sys) (f : Nat) : Option Fut := s.futs.find? (·.id == f)
def findGuard (s : Sys) (g : Nat) : Option Guard := s.guards.find? (·.id == g)
def fresh (s : Sys) (i : Nat) : Bool := (findFut s i).isNone && (findGuard s i).isNone

/-- `event.notify(n)` (non-additional) with its wake-ups recorded. -/
def Sys.doNotify (s : Sys) (n : Nat) : Sys :=
  { s with q := Ev.notify false n s.q,
           woken := Ev.notifyOwners false n s.q ++ s.woken,
           wakeLog := (Ev.notifyTasks false n s.q).reverse ++ s.wakeLog }

/-- `*listener = None` / field drop of `Option<EventListener>` owned by `f`. -/
def Sys.dropListener (s : Sys) (f : Nat) : Sys :=
  { s with q := Ev.drop s.q f,
           woken := Ev.dropOwners s.q f ++ s.woken,
           wakeLog := (Ev.dropTasks s.q f).reverse ++ s.wakeLog }

def setFut (futs : List Fut) (f : Nat) (g : Fut → Fut) : List Fut :=
  futs.map fun x => if x.id == f then g x else x

/-- One `Future::poll` of acquire-future `f` (which is live and not done) with waker `t`. -/
def poll (s : Sys) (fu : Fut) (t : Nat) : Sys × Out :=
  let f := fu.id
  let s := { s with woken := s.woken.filter (· != f),
                    futs := setFut s.futs f fun x => { x with polled := true, waker := t } }
  if 0 < s.count then
    -- try_acquire succeeds: count - 1; the listener (if any) is dropped, forwarding a notification
    let s := { s with count := s.count - 1 }.dropListener f
    ({ s with guards := { id := f, arc := fu.arc } :: s.guards,
              futs := setFut s.futs f fun x => { x with done := true },
              strong := if fu.arc then s.strong + 1 else s.strong }, .ready)
  else if Ev.has s.q f then
    if Ev.isNotified s.q f then
      -- listener Ready (entry removed, no propagation); loop: try fails; listen; try fails;
      -- poll the fresh listener: Pending with waker t
      ({ s with q := Ev.erase s.q f ++ [{ owner := f, task := some t }] }, .pending)
    else
      -- spurious poll / new waker: the stored waker is replaced
      ({ s with q := Ev.setTask s.q f t }, .pending)
  else
    -- first time: try fails; listen; try fails; poll the listener: Pending
    ({ s with q := s.q ++ [{ owner := f, task := some t }] }, .pending)

def step (s : Sys) : Op → Sys × Out
  | .start f arc =>
    if fresh s f then
      ({ s with futs := { id := f, arc := arc, waker := f * 4 } :: s.futs,
                strong := if arc then s.strong + 1 else s.strong }, .ok)
    else (s, .bad)
  | .poll f t =>
    match findFut s f with
    | some fu => if fu.done then (s, .bad) else poll s fu t
    | none => (s, .bad)
  | .dropFut f =>
    match findFut s f with
    | some fu =>
      let s := { s with woken := s.woken.filter (· != f) }.dropListener f
      ({ s with futs := s.futs.filter (·.id != f),
                strong := if fu.arc then s.strong - 1 else s.strong }, .ok)
    | none => (s, .bad)
  | .tryAcq g arc =>
    if fresh s g then
      if 0 < s.count then
        ({ s with count := s.count - 1, guards := { id := g, arc := arc } :: s.guards,
                  strong := if arc then s.strong + 1 else s.strong }, .some)
      else (s, .none)
    else (s, .bad)
  | .dropGuard g =>
    match findGuard s g with
    | some gu =>
      let s := { s with count := s.count + 1, guards := s.guards.eraseP (·.id == g) }.doNotify 1
      ({ s with strong := if gu.arc then s.strong - 1 else s.strong }, .ok)
    | none => (s, .bad)
  | .forget g =>
    match findGuard s g with
    | some gu =>
      ({ s with guards := s.guards.eraseP (·.id == g), forgotten := s.forgotten + 1,
                strong := if gu.arc then s.strong - 1 else s.strong }, .ok)
    | none => (s, .bad)
  | .add n =>
    ({ s with count := s.count + n, added := s.added + n }.doNotify n, .ok)
  | .hclone => ({ s with handles := s.handles + 1, strong := s.strong + 1 }, .ok)
  | .hdrop =>
    if 1 < s.handles then ({ s with handles := s.handles - 1, strong := s.strong - 1 }, .ok)
    else (s, .bad)

def next (s : Sys) (op : Op) : Sys := (step s op).1

def run (s : Sys) (ops : List Op) : Sys := ops.foldl next s

def minOf : List Nat → Option Nat
  | [] => none
  | x :: xs => match minOf xs with
    | none => some x
    | some y => some (if x ≤ y then x else y)

/-- The waker future `f` was last polled with. -/
def lastWaker (s : Sys) (f : Nat) : Nat := ((findFut s f).map (·.waker)).getD 0

/-- The harness's `settle`: while some future is woken, poll the one with the smallest id with the
waker it was last polled with; stop after `fuel` polls. Every iteration is an ordinary `poll` op,
so a settle is just a particular history. Returns the state and the number of polls made. -/
def settleLoop (s : Sys) : Nat → Nat → Sys × Nat
  | 0, p => (s, p)
  | fuel+1, p =>
    match minOf s.woken with
    | none => (s, p)
    | some f => settleLoop (next s (.poll f (lastWaker s f))) fuel (p+1)

/-- Futures that have been polled and have not completed. -/
def pendingPolled (s : Sys) : List Fut := s.futs.filter fun x => x.polled && !x.done

end ALock.Sem
