import ALock.Event

/-!
# Poll-granular model of `async_lock::Barrier` (src/barrier.rs)

`Barrier { n, state: Mutex<State { count, generation_id }>, event }`.  With atomic polls the inner
mutex is free between operations, so every `lock()` inside a poll takes the fast path and the
guard is released before the poll returns; the mutex word is 0 and `lock_ops` is empty at every
state of this model (the differential run checks exactly that).  What remains is `count`,
`generation_id` and the `event` queue.

`BarrierWaitInner::poll_with_strategy`:
```
Initial:      guard = lock; local_gen = gen; count += 1;
              if count < n { evl = event.listen(); state = Waiting{local_gen} }          // guard dropped
              else { count = 0; gen += 1; event.notify(usize::MAX); return Ready(leader) }
Waiting:      ready!(strategy.poll(evl)); lock = state.lock(); state = Reacquiring{local_gen}
Reacquiring:  guard = lock;
              if local_gen == gen && count < n { evl = event.listen(); state = Waiting{local_gen} }
              else { return Ready(not leader) }
```
-/

namespace ALock.Barrier

inductive Pc where
  | initial
  /-- arrived in generation `lg`, registered on `event` -/
  | waiting (lg : Nat)
  | done
deriving DecidableEq, Repr

structure Fut where
  id : Nat
  pc : Pc := .initial
  polled : Bool := false
  waker : Nat := 0
deriving DecidableEq, Repr

structure Sys where
  n : Nat
  count : Nat := 0
  gen : Nat := 0
  q : List Entry := []
  woken : List Nat := []
  log : List Nat := []
  futs : List Fut := []
  /-- ghost: arrivals so far (polls that incremented `count`), cancelled waits included -/
  arrived : Nat := 0
  /-- ghost: how many waits have reported `is_leader() == true` -/
  leaders : Nat := 0
deriving Repr

inductive Op where
  | start (f : Nat)
  | poll (f t : Nat)
  | dropFut (f : Nat)
deriving DecidableEq, Repr

inductive Out where
  | ok | pending | leader | follower | bad
deriving DecidableEq, Repr

def findFut (s : Sys) (f : Nat) : Option Fut := s.futs.find? (·.id == f)
def setFut (futs : List Fut) (f : Nat) (g : Fut → Fut) : List Fut :=
  futs.map fun x => if x.id == f then g x else x

/-- `event.notify(usize::MAX)`: every un-notified listener is notified (`usize::MAX` exceeds any
number of listeners; `n - notified` is still at least the number of un-notified ones). -/
def Sys.notifyAll (s : Sys) : Sys :=
  { s with q := Ev.notify false (s.q.length + cnt s.q) s.q,
           woken := Ev.notifyOwners false (s.q.length + cnt s.q) s.q ++ s.woken,
           log := (Ev.notifyTasks false (s.q.length + cnt s.q) s.q).reverse ++ s.log }

def Sys.dropEv (s : Sys) (f : Nat) : Sys :=
  { s with q := Ev.drop s.q f,
           woken := Ev.dropOwners s.q f ++ s.woken,
           log := (Ev.dropTasks s.q f).reverse ++ s.log }

structure PRes where
  s : Sys
  pc : Pc
  out : Out

def pollWait (s : Sys) (fu : Fut) (t : Nat) : PRes :=
  let f := fu.id
  match fu.pc with
  | .initial =>
    -- arrival
    if s.count + 1 < s.n then
      ⟨{ s with count := s.count + 1, arrived := s.arrived + 1,
                q := Ev.setTask (Ev.listen s.q f) f t }, .waiting s.gen, .pending⟩
    else
      ⟨({ s with count := 0, gen := s.gen + 1, arrived := s.arrived + 1,
                 leaders := s.leaders + 1 }).notifyAll, .done, .leader⟩
  | .waiting lg =>
    if !Ev.isNotified s.q f then ⟨{ s with q := Ev.setTask s.q f t }, .waiting lg, .pending⟩
    else
      -- listener consumed; re-acquire the state
      let s1 := { s with q := Ev.erase s.q f }
      if lg = s.gen && s.count < s.n then
        -- a notification that was not for this generation's completion: wait again
        ⟨{ s1 with q := Ev.setTask (Ev.listen s1.q f) f t }, .waiting lg, .pending⟩
      else ⟨s1, .done, .follower⟩
  | .done => ⟨s, .done, .bad⟩

def upd (pc : Pc) (t : Nat) (x : Fut) : Fut := { x with pc := pc, polled := true, waker := t }

def step (s : Sys) : Op → Sys × Out
  | .start f =>
    if (findFut s f).isNone then ({ s with futs := { id := f, waker := f * 4 } :: s.futs }, .ok)
    else (s, .bad)
  | .poll f t =>
    match findFut s f with
    | some fu =>
      if fu.pc = .done then (s, .bad)
      else
        let r := pollWait { s with woken := s.woken.filter (· != f) } fu t
        ({ r.s with futs := setFut r.s.futs f (upd r.pc t) }, r.out)
    | none => (s, .bad)
  | .dropFut f =>
    match findFut s f with
    | some fu =>
      let s0 := { s with woken := s.woken.filter (· != f) }
      let s1 := match fu.pc with
        | .waiting _ => s0.dropEv f
        | _ => s0
      ({ s1 with futs := s1.futs.filter (·.id != f) }, .ok)
    | none => (s, .bad)

def next (s : Sys) (op : Op) : Sys := (step s op).1
def run (s : Sys) (ops : List Op) : Sys := ops.foldl next s

def minOf : List Nat → Option Nat
  | [] => none
  | x :: xs => match minOf xs with
    | none => some x
    | some y => some (if x ≤ y then x else y)

def lastWaker (s : Sys) (f : Nat) : Nat := ((findFut s f).map (·.waker)).getD 0

def settleLoop (s : Sys) : Nat → Nat → Sys × Nat
  | 0, p => (s, p)
  | fuel+1, p =>
    match minOf s.woken with
    | none => (s, p)
    | some f => settleLoop (next s (.poll f (lastWaker s f))) fuel (p+1)

def pendingPolled (s : Sys) : List Fut := s.futs.filter fun x => x.polled && x.pc != .done

end ALock.Barrier
