import ALock.AtomTrace
import ALock.Sem
import ALock.RwLock
import ALock.OnceCell
import ALock.Barrier

/-!
# The atomic operations of the Semaphore, RwLock, OnceCell and Barrier model steps

Same idea as `AtomTrace.lean`; `w0` is the primitive's own state word, `w1` the inner mutex's word
(RwLock), the Barrier's only word is its inner mutex's (`w0`).
-/

namespace ALock

def onW (w : Nat) (l : List Atom) : List Atom := l.map fun x => { x with w := w }

/-! ### Semaphore -/
namespace Sem

def loadA (c : Nat) : Atom := { op := .load, ord := "Acquire", ret := .val c }
def caswA (c : Nat) : Atom := { op := .casw, a := c, b := (c : Int) - 1, ord := "AcqRel/Acquire", ret := .ok c }
def faddA (n c : Nat) : Atom := { op := .fadd, a := n, ord := "AcqRel", ret := .val c }

/-- `try_acquire` -/
def tryAtoms (c : Nat) : List Atom := if 0 < c then [loadA c, caswA c] else [loadA 0]

def stepAtoms (s : Sys) : Op → List Atom
  | .poll f _ =>
    match findFut s f with
    | some fu =>
      if fu.done then []
      else if 0 < s.count then tryAtoms s.count
      else if Ev.has s.q f then
        (if Ev.isNotified s.q f then [loadA 0, loadA 0, loadA 0] else [loadA 0])
      else [loadA 0, loadA 0]
    | none => []
  | .tryAcq g _ => if fresh s g then tryAtoms s.count else []
  | .dropGuard g =>
    match findGuard s g with
    | some _ => [faddA 1 s.count]
    | none => []
  | .add n => [faddA n s.count]
  | _ => []

def settleAtoms (s : Sys) : Nat → List Atom
  | 0 => []
  | fuel + 1 =>
    match minOf s.woken with
    | none => []
    | some f =>
      let op := Op.poll f (lastWaker s f)
      stepAtoms s op ++ settleAtoms (next s op) fuel

end Sem

/-! ### RwLock -/
namespace RwLock

def ld (ord : String) (st : Nat) : Atom := { op := .load, ord := ord, ret := .val st }
def casR (c st : Nat) : Atom :=
  { op := .cas, a := c, b := (c : Int) + 2, ord := "AcqRel/Acquire", ret := if st = c then .ok c else .err st }
def cas0W (st : Nat) : Atom :=
  { op := .cas, a := 0, b := 1, ord := "AcqRel/Acquire", ret := if st = 0 then .ok 0 else .err st }
def cas21 (st : Nat) : Atom :=
  { op := .cas, a := 2, b := 1, ord := "AcqRel/Acquire", ret := if st = 2 then .ok 2 else .err st }
def forW (st : Nat) : Atom := { op := .for_, a := 1, ord := "SeqCst", ret := .val st }
def fandW (st : Nat) : Atom := { op := .fand, a := -2, ord := "SeqCst", ret := .val st }
def fsubR (n st : Nat) : Atom := { op := .fsub, a := n, ord := "SeqCst", ret := .val st }
def faddR (n st : Nat) : Atom := { op := .fadd, a := n, ord := "SeqCst", ret := .val st }

/-- inner mutex: `unlock_unchecked` -/
def munlock (s : Sys) : List Atom := onW 1 (unlockAtoms s.m)

def writeUnlockAtoms (s : Sys) : List Atom := [fandW s.state] ++ munlock s

/-- `RawRead::poll`: depends on the value the future cached -/
def readAtoms (s : Sys) (fu : Fut) : List Atom :=
  let st := s.state
  if !Ev.has s.nw fu.id then
    if st % 2 = 0 then
      if fu.seen % 2 = 0 then (if fu.seen = st then [casR st st] else [casR fu.seen st, casR st st])
      else [ld "SeqCst" st, casR st st]
    else
      if fu.seen % 2 = 0 then [casR fu.seen st, ld "SeqCst" st] else [ld "SeqCst" st]
  else if !Ev.isNotified s.nw fu.id then []
  else if st % 2 = 0 then [ld "Acquire" st, casR st st]
  else [ld "Acquire" st, ld "SeqCst" st]

/-- after the inner mutex has been acquired by an upgradable read -/
def ureadTail (st : Nat) : List Atom := [ld "Acquire" st, casR st st]

def waitReadersAtoms (s : Sys) (fu : Fut) : List Atom :=
  let st := s.state
  if st = 1 then [ld "Acquire" 1]
  else if !Ev.isNotified s.nr fu.id then [ld "Acquire" st]
  else [ld "Acquire" st, ld "SeqCst" st, ld "Acquire" st]

def upgradeAtoms (s : Sys) (fu : Fut) : List Atom :=
  let st := s.state
  let reg := Ev.has s.nr fu.id
  if st = 1 then [ld (if reg then "Acquire" else "SeqCst") 1]
  else if !reg then [ld "SeqCst" st, ld "Acquire" st]
  else if !Ev.isNotified s.nr fu.id then [ld "Acquire" st]
  else [ld "Acquire" st, ld "SeqCst" st, ld "Acquire" st]

def pollAtoms (s : Sys) (fu : Fut) (t : Nat) (fire : Bool) : List Atom :=
  match fu.kind with
  | .read => readAtoms s fu
  | .uread =>
    let r := lockPoll s.m fu.l fu.id t fire
    onW 1 (lockAtoms s.m fu.l fu.id t fire) ++ (if r.ready then ureadTail s.state else [])
  | .write =>
    match fu.stage with
    | .init =>
      let r := lockPoll s.m fu.l fu.id t fire
      onW 1 (lockAtoms s.m fu.l fu.id t fire) ++
        (if r.ready then
          let st' := s.state + (1 - s.state % 2)
          [forW s.state, ld "Acquire" st']
         else [])
    | _ => waitReadersAtoms s fu
  | .upgrade => upgradeAtoms s fu

def dropFutAtoms (s : Sys) (fu : Fut) : List Atom :=
  match fu.kind with
  | .read => []
  | .uread => if fu.stage = .done then [] else onW 1 (lockDropAtoms s.m fu.l)
  | .write =>
    match fu.stage with
    | .init => onW 1 (lockDropAtoms s.m fu.l)
    | .waitReaders => writeUnlockAtoms s
    | .done => []
  | .upgrade => if fu.stage = .done then [] else writeUnlockAtoms s

def stepAtoms (s : Sys) : Op → List Atom
  | .start f k _ =>
    if fresh s f && 0 < s.handles && k != .upgrade then
      (if k = .read then [ld "Acquire" s.state] else [])
    else []
  | .poll f t fire =>
    match findFut s f with
    | some fu => if fu.stage = .done then [] else pollAtoms { s with m := s.m.polled f } fu t fire
    | none => []
  | .dropFut f =>
    match findFut s f with
    | some fu => dropFutAtoms { s with m := s.m.polled f } fu
    | none => []
  | .try_ g k _ =>
    if fresh s g && 0 < s.handles then
      match k with
      | .read => if s.state % 2 = 0 then [ld "Acquire" s.state, casR s.state s.state] else [ld "Acquire" s.state]
      | .uread =>
        onW 1 (tryLockAtoms s.m) ++ (if s.m.st = 0 then ureadTail s.state else [])
      | .write =>
        onW 1 (tryLockAtoms s.m) ++
          (if s.m.st = 0 then
            [cas0W s.state] ++ (if s.state = 0 then [] else onW 1 [fsub1 1])
           else [])
    else []
  | .dropGuard g =>
    match findGuard s g with
    | some gu =>
      match gu.kind with
      | .read => [fsubR 2 s.state]
      | .uread => [fsubR 2 s.state] ++ munlock s
      | .write => writeUnlockAtoms s
    | none => []
  | .conv g c =>
    match findGuard s g with
    | some gu =>
      match gu.kind, c with
      | .uread, .downgrade => munlock s
      | .write, .downgrade => [faddR 1 s.state] ++ munlock s
      | .write, .toUpgradable => [faddR 1 s.state]
      | .uread, .tryUpgrade => [cas21 s.state]
      | _, _ => []
    | none => []
  | .upgrade g f =>
    match findGuard s g with
    | some gu => if gu.kind = .uread && fresh s f then [fsubR 1 s.state] else []
    | none => []
  | _ => []

def settleAtoms (s : Sys) : Nat → List Atom
  | 0 => []
  | fuel + 1 =>
    match minOf s.m.woken with
    | none => []
    | some f =>
      let op := Op.poll f (lastWaker s f) false
      stepAtoms s op ++ settleAtoms (next s op) fuel

end RwLock

/-! ### OnceCell -/
namespace Once

def ldA (st : Nat) : Atom := { op := .load, ord := "Acquire", ret := .val st }
def cas01A : Atom := { op := .cas, a := 0, b := 1, ord := "AcqRel/Acquire", ret := .ok 0 }
def storeA (v : Nat) : Atom := { op := .store, a := v, ord := "Release", ret := .none }

/-- the initialiser is polled by the caller holding the guard: `Ok` stores `Initialized` (and the
caller's `debug_assert!(is_initialized())` loads once more), `Err` / panic drop the guard -/
def initAtoms (fu : Fut) (i : Input) : List Atom :=
  let i := if fu.kind = .set then Input.ok
           else if i = .cpanic then (if fu.pc = .running then Input.pend else Input.panic)
           else i
  match i with
  | .pend => []
  | .ok => [storeA 2, ldA 2]
  | .err => if fu.kind = .tryInit then [storeA 0] else []
  | .panic => [storeA 0]
  | .cpanic => []

/-- a `set` that hands its argument back reads the cell once more -/
def setTail (fu : Fut) (back : Bool) (st : Nat) : List Atom :=
  if fu.kind = .set && back then [ldA st] else []

def pollAtoms (s : Sys) (fu : Fut) (t : Nat) (i : Input) : List Atom :=
  let r := if fu.kind = .wait then pollWait s fu t else pollInit s fu t i
  let done := match r.out with | .setBack _ => true | _ => false
  if fu.kind = .wait then
    match fu.pc with
    | .start => if s.state = 2 then [ldA 2] else [ldA s.state, ldA s.state]
    | .waiting => if !Ev.isNotified s.pas fu.id then [] else [ldA s.state]
    | _ => []
  else
    (match fu.pc with
     | .start =>
       if s.state = 2 then [ldA 2]
       else if s.state = 1 then [ldA 1, ldA 1, ldA 1]
       else [ldA 0, ldA 0, cas01A] ++ initAtoms fu i
     | .waiting =>
       if !Ev.isNotified s.act fu.id then []
       else if s.state = 2 then [ldA 2, ldA 2]
       else if s.state = 1 then [ldA 1, ldA 1]
       else [ldA 0, cas01A] ++ initAtoms fu i
     | .running => initAtoms fu i
     | .done => []) ++ setTail fu done r.s.state

def stepAtoms (s : Sys) : Op → List Atom
  | .poll f t i =>
    match findFut s f with
    | some fu => if fu.pc = .done then [] else pollAtoms { s with woken := s.woken.filter (· != f) } fu t i
    | none => []
  | .dropFut f =>
    match findFut s f with
    | some fu => if fu.pc = .running then [storeA 0] else []
    | none => []
  | .get => if s.gone then [] else [ldA s.state]
  | _ => []

def settleAtoms (s : Sys) : Nat → List Atom
  | 0 => []
  | fuel + 1 =>
    match minOf s.woken with
    | none => []
    | some f =>
      let op := Op.poll f (lastWaker s f) .pend
      stepAtoms s op ++ settleAtoms (next s op) fuel

end Once

/-! ### Barrier (its only word is the inner mutex's) -/
namespace Barrier

/-- an arrival, or a re-check after a notification, takes and releases the inner mutex -/
def lockUnlock : List Atom := [cas01 0, fsub1 1]

def stepAtoms (s : Sys) : Op → List Atom
  | .poll f _ =>
    match findFut s f with
    | some fu =>
      match fu.pc with
      | .initial => lockUnlock
      | .waiting _ => if Ev.isNotified s.q f then lockUnlock else []
      | .done => []
    | none => []
  | _ => []

def settleAtoms (s : Sys) : Nat → List Atom
  | 0 => []
  | fuel + 1 =>
    match minOf s.woken with
    | none => []
    | some f =>
      let op := Op.poll f (lastWaker s f)
      stepAtoms s op ++ settleAtoms (next s op) fuel

end Barrier

end ALock
