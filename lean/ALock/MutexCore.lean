import ALock.Event

/-!
# Poll-granular model of `async_lock::Mutex`'s locking core (src/mutex.rs)

`Core` is the `state` word plus the `lock_ops` event (with the wake-up bookkeeping shared by the
primitives that embed a mutex: RwLock, Barrier).  `lockPoll` is one `Future::poll` of a `Lock` /
`LockArc` future (`LockInner`/`LockArcInnards` + `AcquireSlow`), executed atomically.

`state`: bit 0 = locked, `state >> 1` = number of starved lock operations.

The code of `AcquireSlow::poll_with_strategy` is two loops (hot loop, fair loop).  With atomic
polls every path through them is finite and is listed in `lockPoll`; the comments name the code
points (`B1` = hot loop, no listener; `B2` = hot loop, listener; `F1` = fair loop, no listener;
`F2` = fair loop, listener).  Branches that need another thread to change `state` between two
consecutive atomic operations of the same poll (e.g. `compare_exchange(2, 3)` succeeding right
after this future's own `fetch_add(2)`) cannot occur here and are absent; they are present in the
small-step model.

`fire` is the outcome of the starvation test `start.elapsed() > 500µs` at its single evaluation
point (hook H1 scripts it; with `std` off the test does not exist, i.e. `fire = false`).
-/

namespace ALock

structure Core where
  st : Nat := 0
  q : List Entry := []
  /-- owners whose waker has been called and that have not been polled since -/
  woken : List Nat := []
  /-- every waker call so far, newest first -/
  log : List Nat := []
deriving Repr

namespace Core

/-- `lock_ops.notify(n)` -/
def notify (c : Core) (n : Nat) : Core :=
  { c with q := Ev.notify false n c.q,
           woken := Ev.notifyOwners false n c.q ++ c.woken,
           log := (Ev.notifyTasks false n c.q).reverse ++ c.log }

/-- `*listener = None` / drop of the `Option<EventListener>` owned by `f` -/
def dropListener (c : Core) (f : Nat) : Core :=
  { c with q := Ev.drop c.q f,
           woken := Ev.dropOwners c.q f ++ c.woken,
           log := (Ev.dropTasks c.q f).reverse ++ c.log }

def listen (c : Core) (f : Nat) : Core := { c with q := Ev.listen c.q f }
def setTask (c : Core) (f t : Nat) : Core := { c with q := Ev.setTask c.q f t }
/-- a listener that is polled while notified is removed without propagation -/
def consume (c : Core) (f : Nat) : Core := { c with q := Ev.erase c.q f }
/-- `state.fetch_add(2)` -/
def starve (c : Core) : Core := { c with st := c.st + 2 }
/-- the future is polled again: its outstanding wake-up (if any) is served -/
def polled (c : Core) (f : Nat) : Core := { c with woken := c.woken.filter (· != f) }

end Core

/-- Local state of a `Lock`/`LockArc` future. -/
structure LockSt where
  /-- `acquire_slow` is `Some` / `LockArcInnards::AcquireSlow` -/
  slow : Bool := false
  starved : Bool := false
  /-- returned `Ready`; `AcquireSlow::mutex` has been taken -/
  done : Bool := false
deriving DecidableEq, Repr

structure PollRes where
  c : Core
  l : LockSt
  ready : Bool
  /-- label of the branch taken (coverage accounting in the driver; inert in the proofs) -/
  br : Nat := 0

/-- One poll of lock-future `f` (not done) with waker `t`. -/
def lockPoll (c : Core) (l : LockSt) (f t : Nat) (fire : Bool) : PollRes :=
  if !l.slow then
    -- first poll: `try_lock`
    if c.st = 0 then ⟨{ c with st := 1 }, { l with done := true }, true, 1⟩
    -- AcquireSlow::new; B1: listen, CAS(0,1) fails with the current value
    else if c.st = 1 then
      -- `1 => {}`; B2: poll the fresh listener
      ⟨(c.listen f).setTask f t, { l with slow := true }, false, 2⟩
    else
      -- `_ => break`: fetch_add(2); F2: poll the listener
      ⟨((c.listen f).starve).setTask f t, { l with slow := true, starved := true }, false, 3⟩
  else if !Ev.isNotified c.q f then
    -- B2 / F2: the listener is not notified: store the waker, Pending
    ⟨c.setTask f t, l, false, if l.starved then 11 else 4⟩
  else if !l.starved then
    -- B2, listener Ready (consumed)
    if c.st = 0 then
      -- CAS(0,1) succeeds; take_mutex
      ⟨{ c.consume f with st := 1 }, { l with done := true }, true, 5⟩
    else if c.st = 1 then
      if fire then
        -- break; fetch_add(2) (= 3); F1: listen, CAS(2,3) fails (odd); F2: Pending
        ⟨(((c.consume f).starve).listen f).setTask f t, { l with starved := true }, false, 6⟩
      else
        -- continue; B1: listen, CAS(0,1) fails with 1; B2: Pending
        ⟨((c.consume f).listen f).setTask f t, l, false, 7⟩
    else
      -- somebody is starved: pass the notification on, break, fetch_add(2); F1: listen;
      -- CAS(2,3) fails (state >= 4)
      let c1 := (((c.consume f).notify 1).starve).listen f
      if c.st % 2 = 1 then ⟨c1.setTask f t, { l with starved := true }, false, 8⟩
      else
        -- "be fair": notify(1), then F2
        let c2 := c1.notify 1
        if Ev.isNotified c2.q f then
          -- our own fresh listener got the notification: consume it; fetch_or(1) acquires
          -- (state even); take_mutex: fetch_sub(2)  (c.st + 2 + 1 - 2)
          ⟨{ c2.consume f with st := c.st + 1 }, { l with starved := true, done := true }, true, 9⟩
        else ⟨c2.setTask f t, { l with starved := true }, false, 10⟩
  else
    -- F2, listener Ready (consumed)
    if c.st % 2 = 0 then
      -- fetch_or(1) acquires; take_mutex: fetch_sub(2)
      ⟨{ c.consume f with st := c.st + 1 - 2 }, { l with done := true }, true, 12⟩
    else
      -- held by someone: F1: listen, CAS(2,3) fails (odd); F2: Pending
      ⟨((c.consume f).listen f).setTask f t, l, false, 13⟩

/-- Dropping lock-future `f`: `PinnedDrop` (`take_mutex`: a starved, uncompleted operation gives
its ticket back) and then the field drops (the listener). -/
def lockDrop (c : Core) (l : LockSt) (f : Nat) : Core :=
  let c := if l.slow && !l.done && l.starved then { c with st := c.st - 2 } else c
  c.dropListener f

/-- `try_lock` / `try_lock_arc`: CAS(0,1) -/
def Core.tryLock (c : Core) : Core × Bool :=
  if c.st = 0 then ({ c with st := 1 }, true) else (c, false)

/-- `unlock_unchecked`: `fetch_sub(1)`, `notify(1)` -/
def Core.unlock (c : Core) : Core := { c with st := c.st - 1 }.notify 1

end ALock
