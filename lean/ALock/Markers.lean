/-!
# Capability model of the public T-parametric types (property C16)

What can a thread do with a value of a public type `X<T>` that it *owns* (it was sent there:
`X<T>: Send`), and what with a shared reference `&X<T>` (`X<T>: Sync`)?  Every answer is one of

* `excl`   – reach `&mut T`, move `T` in or out, or drop `T`  ⇒ needs `T: Send`;
* `shared` – reach `&T` while other threads may hold `&T` too  ⇒ needs `T: Sync`;
* `val Y`  – obtain a `Y<T>` by value (future output, guard conversion, `try_lock`, …);
* `ref Y`  – obtain `&Y<T>`;
* `arc Y`  – own an `Arc<Y<T>>` (hold, clone or drop it): as `Arc<Y>: Send` needs `Y: Send + Sync`,
             this is both `val Y` and `ref Y`.

Some accesses go through a method with its own `where` clause (`MutexGuardArc::source`); they are
*gated*: they exist for a kind of `T` only if rustc accepts the call for that kind.

The table below is written by hand from the public API; `tools/c16_api.py` extracts that API from
/repo on every run and the check compares it with the inventory this table accounts for.  What
rustc accepts (`Facts`) is regenerated from /repo on every run (`Generated/Markers.lean`).
-/

namespace ALock.Markers

inductive Ty
  | Mutex | MutexGuard | MutexGuardArc | Lock | LockArc
  | RwLock | RwLockReadGuard | RwLockReadGuardArc
  | RwLockUpgradableReadGuard | RwLockUpgradableReadGuardArc
  | RwLockWriteGuard | RwLockWriteGuardArc
  | Read | ReadArc | UpgradableRead | UpgradableReadArc | Write | WriteArc | Upgrade | UpgradeArc
  | OnceCell
  deriving DecidableEq, Repr

open Ty

def Ty.all : List Ty :=
  [Mutex, MutexGuard, MutexGuardArc, Lock, LockArc, RwLock, RwLockReadGuard, RwLockReadGuardArc,
   RwLockUpgradableReadGuard, RwLockUpgradableReadGuardArc, RwLockWriteGuard, RwLockWriteGuardArc,
   Read, ReadArc, UpgradableRead, UpgradableReadArc, Write, WriteArc, Upgrade, UpgradeArc, OnceCell]

theorem Ty.mem_all (x : Ty) : x ∈ Ty.all := by cases x <;> simp [Ty.all]

/-- the kind of the parameter type: is `T: Send`, is `T: Sync` -/
structure Kind where
  send : Bool
  sync : Bool
  deriving DecidableEq, Repr

def Kind.all : List Kind := [⟨true, true⟩, ⟨true, false⟩, ⟨false, true⟩, ⟨false, false⟩]

theorem Kind.mem_all (k : Kind) : k ∈ Kind.all := by
  rcases k with ⟨a, b⟩; cases a <;> cases b <;> simp [Kind.all]

inductive Tr | send | sync
  deriving DecidableEq, Repr

/-- methods whose `where` clause gates an access -/
inductive Meth | mutexGuardSource | mutexGuardArcSource
  deriving DecidableEq, Repr

def Meth.all : List Meth := [.mutexGuardSource, .mutexGuardArcSource]

inductive Cap
  | excl | shared
  | val (y : Ty) | ref (y : Ty) | arc (y : Ty)
  deriving DecidableEq, Repr

structure Access where
  cap : Cap
  gate : Option Meth := none
  deriving DecidableEq, Repr

instance : Coe Cap Access := ⟨fun c => { cap := c }⟩

open Cap

/-- what the owner of an `X<T>` can do (beyond what `&X<T>` allows) -/
def own : Ty → List Access
  | Mutex => [excl]                                   -- into_inner, get_mut, drop
  | MutexGuard => [excl]                              -- DerefMut
  | MutexGuardArc => [excl, arc Mutex]                -- DerefMut; dropping the guard drops the Arc
  | Lock => [val MutexGuard, ref Mutex]               -- output; holds &Mutex<T>
  | LockArc => [val MutexGuardArc, arc Mutex]
  | RwLock => [excl]
  | RwLockReadGuard => [shared]                       -- Deref, next to other readers
  | RwLockReadGuardArc => [shared, arc RwLock]
  | RwLockUpgradableReadGuard =>
      [shared, val RwLockReadGuard, val RwLockWriteGuard, val Upgrade]
  | RwLockUpgradableReadGuardArc =>
      [shared, arc RwLock, val RwLockReadGuardArc, val RwLockWriteGuardArc, val UpgradeArc]
  | RwLockWriteGuard => [excl, val RwLockReadGuard, val RwLockUpgradableReadGuard]
  | RwLockWriteGuardArc =>
      [excl, arc RwLock, val RwLockReadGuardArc, val RwLockUpgradableReadGuardArc]
  | Read => [val RwLockReadGuard]
  | ReadArc => [val RwLockReadGuardArc, arc RwLock]
  | UpgradableRead => [val RwLockUpgradableReadGuard]
  | UpgradableReadArc => [val RwLockUpgradableReadGuardArc, arc RwLock]
  | Write => [val RwLockWriteGuard]
  | WriteArc => [val RwLockWriteGuardArc, arc RwLock]
  | Upgrade => [val RwLockWriteGuard]
  | UpgradeArc => [val RwLockWriteGuardArc]
  | OnceCell => [excl]

/-- what a thread holding `&X<T>` (next to other threads holding it) can do -/
def shr : Ty → List Access
  | Mutex => [val MutexGuard, val Lock]               -- try_lock / lock_blocking / Debug; lock
  | MutexGuard => [shared, { cap := ref Mutex, gate := some .mutexGuardSource }]
  | MutexGuardArc => [shared, { cap := arc Mutex, gate := some .mutexGuardArcSource }]
  | RwLock =>
      [val RwLockReadGuard, val RwLockUpgradableReadGuard, val RwLockWriteGuard,
       val Read, val UpgradableRead, val Write]
  | RwLockReadGuard | RwLockReadGuardArc
  | RwLockUpgradableReadGuard | RwLockUpgradableReadGuardArc
  | RwLockWriteGuard | RwLockWriteGuardArc => [shared]  -- Deref / Debug / Display
  | OnceCell => [shared, excl]                        -- get / wait; set moves a T in
  | _ => []                                           -- futures: nothing through `&`

inductive Mode | own | shr
  deriving DecidableEq, Repr

abbrev Node := Ty × Mode

def accesses : Node → List Access
  | (x, .own) => own x
  | (x, .shr) => shr x

def Cap.succ : Cap → List Node
  | .val y => [(y, .own)]
  | .ref y => [(y, .shr)]
  | .arc y => [(y, .own), (y, .shr)]
  | _ => []

/-- what rustc says about the crate (regenerated on every run) -/
structure Facts where
  /-- `X<K>: Send/Sync` holds -/
  accepted : Ty → Tr → Kind → Bool
  /-- the gated method can be called for a `T` of this kind -/
  callable : Meth → Kind → Bool
  /-- `X<&'long u8>` coerces to `X<&'short u8>` -/
  covariant : Ty → Bool
  /-- names of borrowed guards / futures that rustc lets outlive their lock (must be empty) -/
  outlives : List String
  /-- borrowed guards / futures probed -/
  borrowed : List String
  /-- probes whose positive control did not compile, or that failed for an unexpected reason -/
  broken : List String
  /-- `unsafe impl Send/Sync` headers whose bounds mention something other than Send/Sync/?Sized -/
  foreignBounds : List String

section
variable (F : Facts) (k : Kind)

def open_ (a : Access) : Bool :=
  match a.gate with
  | none => true
  | some m => F.callable m k

/-- one step: from a way of holding `X` to a way of holding `Y` that it gives rise to -/
def succs (n : Node) : List Node :=
  ((accesses n).filter (open_ F k)).flatMap (fun a => a.cap.succ)

/-- everything reachable -/
inductive Reach : Node → Node → Prop
  | refl (n) : Reach n n
  | step {a b c} : Reach a b → c ∈ succs F k b → Reach a c

/-- the atoms at a node are allowed for kind `k` -/
def atomsOK (n : Node) : Bool :=
  ((accesses n).filter (open_ F k)).all fun a =>
    match a.cap with
    | .excl => k.send
    | .shared => k.sync
    | _ => true

def start (x : Ty) : Tr → Node
  | .send => (x, .own)
  | .sync => (x, .shr)

/-- **Soundness of a marker.** Nothing reachable from owning (`Send`) / sharing (`Sync`) an `X<T>`
needs a capability of `T` that a `T` of kind `k` lacks. -/
def Sound (x : Ty) (tr : Tr) : Prop :=
  ∀ n, Reach F k (start x tr) n → atomsOK F k n = true

/-! ### Deciding `Sound` by a closed set -/

def allNodes : List Node := Ty.all.flatMap fun x => [(x, .own), (x, .shr)]

theorem mem_allNodes (n : Node) : n ∈ allNodes := by
  rcases n with ⟨x, m⟩
  simp only [allNodes, List.mem_flatMap]
  exact ⟨x, Ty.mem_all x, by cases m <;> simp⟩

/-- breadth-first closure with fuel -/
def closure : Nat → List Node → List Node → List Node
  | 0, _, seen => seen
  | _ + 1, [], seen => seen
  | f + 1, n :: todo, seen =>
    let new := (succs F k n).filter (fun m => !seen.contains m && !todo.contains m && m != n)
    closure f (todo ++ new.eraseDups) (n :: seen)

def closedUnder (l : List Node) : Bool :=
  l.all fun n => (succs F k n).all fun m => l.contains m

theorem reach_mem_of_closed {l : List Node} (hc : closedUnder F k l = true) {a b : Node}
    (ha : a ∈ l) (h : Reach F k a b) : b ∈ l := by
  induction h with
  | refl => exact ha
  | step _ hs ih =>
    simp only [closedUnder, List.all_eq_true, List.contains_iff_mem] at hc
    exact hc _ ih _ hs

def reachSet (x : Ty) (tr : Tr) : List Node :=
  closure F k 64 [start x tr] []

/-- executable version of `Sound` -/
def soundB (x : Ty) (tr : Tr) : Bool :=
  let l := reachSet F k x tr
  l.contains (start x tr) && closedUnder F k l && l.all (atomsOK F k)

theorem sound_of_soundB {x : Ty} {tr : Tr} (h : soundB F k x tr = true) : Sound F k x tr := by
  simp only [soundB, Bool.and_eq_true, List.contains_iff_mem, List.all_eq_true] at h
  obtain ⟨⟨hs, hc⟩, ha⟩ := h
  intro n hn
  exact ha n (reach_mem_of_closed F k hc hs hn)

/-- the bounds a marker needs, as a readable pair (used by the driver for reports) -/
def need (x : Ty) (tr : Tr) : Bool × Bool :=
  let l := reachSet F k x tr
  (l.any fun n => ((accesses n).filter (open_ F k)).any fun a => a.cap == .excl,
   l.any fun n => ((accesses n).filter (open_ F k)).any fun a => a.cap == .shared)

end

/-! ### Mutable access (variance) -/

/-- guard conversions and future outputs only -/
def valSuccs (n : Node) : List Node :=
  match n with
  | (x, .own) => (own x).flatMap fun a => match a.cap with | .val y => [(y, Mode.own)] | _ => []
  | _ => []

inductive ReachVal : Ty → Ty → Prop
  | refl (x) : ReachVal x x
  | step {a b c} : ReachVal a b → (c, Mode.own) ∈ valSuccs (b, .own) → ReachVal a c

/-- owning an `X<T>` leads, through conversions only, to `&mut T` -/
def CanMut (x : Ty) : Prop := ∃ y, ReachVal x y ∧ ({ cap := .excl } : Access) ∈ own y

def valClosure : Nat → List Ty → List Ty → List Ty
  | 0, _, seen => seen
  | _ + 1, [], seen => seen
  | f + 1, x :: todo, seen =>
    let new := ((valSuccs (x, .own)).map Prod.fst).filter
      (fun m => !seen.contains m && !todo.contains m && m != x)
    valClosure f (todo ++ new.eraseDups) (x :: seen)

def canMutB (x : Ty) : Bool :=
  (valClosure 32 [x] []).any fun y => (own y).contains { cap := .excl }

/-- the conversions from `x` never reach `&mut T` (checked on a closed set) -/
def noMutB (x : Ty) : Bool :=
  let l := valClosure 32 [x] []
  l.contains x && (l.all fun y => (valSuccs (y, .own)).all fun m => l.contains m.1) &&
    l.all fun y => !(own y).contains { cap := .excl }

theorem canMut_of_canMutB_aux : ∀ (f : Nat) (todo seen : List Ty) (x : Ty),
    (∀ y ∈ todo, ReachVal x y) → (∀ y ∈ seen, ReachVal x y) →
    ∀ y ∈ valClosure f todo seen, ReachVal x y := by
  intro f
  induction f with
  | zero => intro todo seen x _ hs y hy; exact hs y (by simpa [valClosure] using hy)
  | succ f ih =>
    intro todo seen x ht hs y hy
    cases todo with
    | nil => exact hs y (by simpa [valClosure] using hy)
    | cons a todo =>
      simp only [valClosure] at hy
      refine ih _ _ x ?_ ?_ y hy
      · intro z hz
        rcases List.mem_append.mp hz with hz | hz
        · exact ht z (List.mem_cons_of_mem _ hz)
        · have hz := (List.mem_eraseDups.mp hz)
          simp only [List.mem_filter, List.mem_map] at hz
          obtain ⟨⟨⟨z', m⟩, hm, rfl⟩, _⟩ := hz
          have hmo : m = Mode.own := by
            simp only [valSuccs, List.mem_flatMap] at hm
            obtain ⟨acc, _, hacc⟩ := hm
            cases hcap : acc.cap <;> simp_all
          subst hmo
          exact .step (ht a (List.mem_cons_self ..)) hm
      · intro z hz
        rcases List.mem_cons.mp hz with rfl | hz
        · exact ht _ (List.mem_cons_self ..)
        · exact hs z hz

theorem canMut_of_canMutB {x : Ty} (h : canMutB x = true) : CanMut x := by
  simp only [canMutB, List.any_eq_true, List.contains_iff_mem] at h
  obtain ⟨y, hy, he⟩ := h
  refine ⟨y, canMut_of_canMutB_aux 32 [x] [] x ?_ ?_ y hy, he⟩
  · intro z hz; rw [List.mem_singleton.mp hz]; exact .refl _
  · intro z hz; cases hz

theorem not_canMut_of_noMutB {x : Ty} (h : noMutB x = true) : ¬ CanMut x := by
  simp only [noMutB, Bool.and_eq_true, List.contains_iff_mem, List.all_eq_true,
    Bool.not_eq_eq_eq_not, Bool.not_true] at h
  obtain ⟨⟨hx, hc⟩, hn⟩ := h
  rintro ⟨y, hr, he⟩
  have hy : y ∈ valClosure 32 [x] [] := by
    clear he
    induction hr with
    | refl => exact hx
    | step _ hs ih => exact hc _ ih _ hs
  have := hn y hy
  simp [he] at this

end ALock.Markers
