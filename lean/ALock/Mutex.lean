import ALock.MutexCore

/-!
# Poll-granular model of `async_lock::Mutex` (public API level)

* `start f arc`         — `lock()` / `lock_arc()` creates future `f`
* `poll f t fire`       — `Future::poll` with waker `t`; `fire` = outcome of the 0.5 ms test
* `dropFut f`           — drop of the future at any moment (unpolled, pending, notified, completed)
* `tryLock g arc`       — `try_lock()` / `try_lock_arc()`
* `dropGuard g`         — guard drop
* `hclone` / `hdrop`    — the user clones / drops an `Arc<Mutex<T>>` handle

`strong` is the Arc's strong count, updated where the code clones, moves or drops the `Arc`:
`lock_arc()` clones (+1); the fast path of `LockArc` clones into the guard and drops the future's
own clone (net 0); the slow path moves the future's `Arc` into the guard (0); dropping an
uncompleted `LockArc` drops its `Arc` (−1), a completed one owns none (0); `try_lock_arc` clones
(+1); dropping a `MutexGuardArc` drops its `Arc` (−1).
-/

namespace ALock.Mutex

structure Fut where
  id : Nat
  arc : Bool
  l : LockSt := {}
  polled : Bool := false
  waker : Nat := 0
deriving DecidableEq, Repr

structure Guard where
  id : Nat
  arc : Bool
deriving DecidableEq, Repr

structure Sys where
  c : Core := {}
  futs : List Fut := []
  guards : List Guard := []
  handles : Nat := 1
  strong : Nat := 1
deriving Repr

inductive Op where
  | start (f : Nat) (arc : Bool)
  | poll (f t : Nat) (fire : Bool)
  | dropFut (f : Nat)
  | tryLock (g : Nat) (arc : Bool)
  | dropGuard (g : Nat)
  | hclone
  | hdrop
deriving DecidableEq, Repr

inductive Out where
  | ok | ready | pending | some | none | bad
deriving DecidableEq, Repr

def findFut (s : Sys) (f : Nat) : Option Fut := s.futs.find? (·.id == f)
def findGuard (s : Sys) (g : Nat) : Option Guard := s.guards.find? (·.id == g)
def fresh (s : Sys) (i : Nat) : Bool := (findFut s i).isNone && (findGuard s i).isNone

/-- a borrowed future or guard is alive (then the user must keep a handle: Rust's borrow rules) -/
def borrowedAlive (s : Sys) : Bool := s.futs.any (!·.arc) || s.guards.any (!·.arc)

def setFut (futs : List Fut) (f : Nat) (g : Fut → Fut) : List Fut :=
  futs.map fun x => if x.id == f then g x else x

def step (s : Sys) : Op → Sys × Out
  | .start f arc =>
    if fresh s f && 0 < s.handles then
      ({ s with futs := { id := f, arc := arc, waker := f * 4 } :: s.futs,
                strong := if arc then s.strong + 1 else s.strong }, .ok)
    else (s, .bad)
  | .poll f t fire =>
    match findFut s f with
    | some fu =>
      if fu.l.done then (s, .bad)
      else
        let r := lockPoll (s.c.polled f) fu.l f t fire
        let futs := setFut s.futs f fun x => { x with l := r.l, polled := true, waker := t }
        if r.ready then
          ({ s with c := r.c, futs := futs, guards := { id := f, arc := fu.arc } :: s.guards }, .ready)
        else ({ s with c := r.c, futs := futs }, .pending)
    | none => (s, .bad)
  | .dropFut f =>
    match findFut s f with
    | some fu =>
      ({ s with c := lockDrop (s.c.polled f) fu.l f,
                futs := s.futs.filter (·.id != f),
                strong := if fu.arc && !fu.l.done then s.strong - 1 else s.strong }, .ok)
    | none => (s, .bad)
  | .tryLock g arc =>
    if fresh s g && 0 < s.handles then
      if s.c.st = 0 then
        ({ s with c := { s.c with st := 1 }, guards := { id := g, arc := arc } :: s.guards,
                  strong := if arc then s.strong + 1 else s.strong }, .some)
      else (s, .none)
    else (s, .bad)
  | .dropGuard g =>
    match findGuard s g with
    | some gu =>
      ({ s with c := s.c.unlock, guards := s.guards.eraseP (·.id == g),
                strong := if gu.arc then s.strong - 1 else s.strong }, .ok)
    | none => (s, .bad)
  | .hclone =>
    if 0 < s.handles then ({ s with handles := s.handles + 1, strong := s.strong + 1 }, .ok)
    else (s, .bad)
  | .hdrop =>
    if 1 < s.handles || (s.handles == 1 && !borrowedAlive s) then ({ s with handles := s.handles - 1, strong := s.strong - 1 }, .ok)
    else (s, .bad)

def next (s : Sys) (op : Op) : Sys := (step s op).1

def run (s : Sys) (ops : List Op) : Sys := ops.foldl next s

def minOf : List Nat → Option Nat
  | [] => none
  | x :: xs => match minOf xs with
    | none => some x
    | some y => some (if x ≤ y then x else y)

def lastWaker (s : Sys) (f : Nat) : Nat := ((findFut s f).map (·.waker)).getD 0

/-- The harness's `settle`: poll woken futures (smallest id first, last waker, the starvation test
not firing) until none is woken or `fuel` polls were made. -/
def settleLoop (s : Sys) : Nat → Nat → Sys × Nat
  | 0, p => (s, p)
  | fuel+1, p =>
    match minOf s.c.woken with
    | none => (s, p)
    | some f => settleLoop (next s (.poll f (lastWaker s f) false)) fuel (p+1)

/-- Futures that have been polled and have not completed. -/
def pendingPolled (s : Sys) : List Fut := s.futs.filter fun x => x.polled && !x.l.done

/-- Lock operations that executed `fetch_add(2)` and have neither completed nor been dropped. -/
def starvedLive (s : Sys) : Nat := s.futs.countP fun x => x.l.starved && !x.l.done

end ALock.Mutex
