import ALock.MutexCore

/-!
# Poll-granular model of `async_lock::RwLock` (src/rwlock.rs, src/rwlock/raw.rs, src/rwlock/futures.rs)

State of `RawRwLock`:
* `state` — bit 0 = `WRITER_BIT` (a writer/upgrader holds the lock or waits for readers),
  `state >> 1` = number of readers (an upgradable reader counts as one);
* `m` — the inner `Mutex<()>` (`Core`: its word and `lock_ops`); held, with its guard forgotten, by a
  write guard, a writer waiting for readers, an upgradable guard and a pending upgrade.  `m.woken`
  and `m.log` are the wake-up bookkeeping of the whole lock (all three events write to them);
* `nr` — the `no_readers` event; `nw` — the `no_writer` event.

Futures: `read` (`RawRead`), `uread` (`RawUpgradableRead`), `write` (`RawWrite`), `upgrade`
(`RawUpgrade`); borrowed and Arc flavours share the raw futures, the Arc flavour only adds the
reference-count bookkeeping (`strong`).

Every `Op` is one public call executed atomically.  As in `MutexCore`, each poll function lists
the finitely many paths through the code's loops that exist when nothing else runs between two
atomic operations of the same poll; the comments quote the code.
-/

namespace ALock.RwLock

inductive Kind where
  | read | uread | write | upgrade
deriving DecidableEq, Repr

inductive Stage where
  /-- not yet past the inner mutex (`uread`, `write`), not yet acquired (`read`), pending (`upgrade`) -/
  | init
  /-- `WriteState::WaitingReaders` -/
  | waitReaders
  /-- returned `Ready` -/
  | done
deriving DecidableEq, Repr

structure Fut where
  id : Nat
  kind : Kind
  arc : Bool
  /-- inner `Lock` future (`uread`, `write`) -/
  l : LockSt := {}
  /-- `RawRead::state`: the last observed value of the word -/
  seen : Nat := 0
  stage : Stage := .init
  polled : Bool := false
  waker : Nat := 0
deriving DecidableEq, Repr

inductive GKind where
  | read | uread | write
deriving DecidableEq, Repr

structure Guard where
  id : Nat
  kind : GKind
  arc : Bool
deriving DecidableEq, Repr

structure Sys where
  state : Nat := 0
  m : Core := {}
  nr : List Entry := []
  nw : List Entry := []
  futs : List Fut := []
  guards : List Guard := []
  handles : Nat := 1
  strong : Nat := 1
deriving Repr

inductive Conv where
  /-- `RwLockUpgradableReadGuard::downgrade` / `RwLockWriteGuard::downgrade` -/
  | downgrade
  /-- `RwLockWriteGuard::downgrade_to_upgradable` -/
  | toUpgradable
  /-- `RwLockUpgradableReadGuard::try_upgrade` -/
  | tryUpgrade
deriving DecidableEq, Repr

inductive Op where
  | start (f : Nat) (k : Kind) (arc : Bool)
  | poll (f t : Nat) (fire : Bool)
  | dropFut (f : Nat)
  | try_ (g : Nat) (k : GKind) (arc : Bool)
  | dropGuard (g : Nat)
  | conv (g : Nat) (c : Conv)
  /-- `RwLockUpgradableReadGuard::upgrade(g)` creates future `f` -/
  | upgrade (g f : Nat)
  | hclone
  | hdrop
deriving DecidableEq, Repr

inductive Out where
  | ok | ready | pending | some | none | err | bad
deriving DecidableEq, Repr

def findFut (s : Sys) (f : Nat) : Option Fut := s.futs.find? (·.id == f)
def findGuard (s : Sys) (g : Nat) : Option Guard := s.guards.find? (·.id == g)
def fresh (s : Sys) (i : Nat) : Bool := (findFut s i).isNone && (findGuard s i).isNone
/-- something borrows the lock or a handle: every future except `UpgradeArc`, every borrowed guard -/
def borrowedAlive (s : Sys) : Bool :=
  s.futs.any (fun x => !(x.arc && x.kind == .upgrade)) || s.guards.any (!·.arc)

def setFut (futs : List Fut) (f : Nat) (g : Fut → Fut) : List Fut :=
  futs.map fun x => if x.id == f then g x else x

/-- a conversion consumes guard `g` and produces a guard of kind `k` (same id, same flavour) -/
def convGuard (gs : List Guard) (gu : Guard) (k : GKind) : List Guard :=
  { gu with kind := k } :: gs.eraseP (·.id == gu.id)

/-! ### the three events -/

/-- `no_readers.notify(1)` -/
def Sys.notifyNr (s : Sys) : Sys :=
  { s with nr := Ev.notify false 1 s.nr,
           m := { s.m with woken := Ev.notifyOwners false 1 s.nr ++ s.m.woken,
                           log := (Ev.notifyTasks false 1 s.nr).reverse ++ s.m.log } }

/-- `no_writer.notify(1)` -/
def Sys.notifyNw (s : Sys) : Sys :=
  { s with nw := Ev.notify false 1 s.nw,
           m := { s.m with woken := Ev.notifyOwners false 1 s.nw ++ s.m.woken,
                           log := (Ev.notifyTasks false 1 s.nw).reverse ++ s.m.log } }

/-- drop of `f`'s `no_readers` listener -/
def Sys.dropNr (s : Sys) (f : Nat) : Sys :=
  { s with nr := Ev.drop s.nr f,
           m := { s.m with woken := Ev.dropOwners s.nr f ++ s.m.woken,
                           log := (Ev.dropTasks s.nr f).reverse ++ s.m.log } }

/-- drop of `f`'s `no_writer` listener -/
def Sys.dropNw (s : Sys) (f : Nat) : Sys :=
  { s with nw := Ev.drop s.nw f,
           m := { s.m with woken := Ev.dropOwners s.nw f ++ s.m.woken,
                           log := (Ev.dropTasks s.nw f).reverse ++ s.m.log } }

/-- `mutex.unlock_unchecked()` -/
def Sys.unlockM (s : Sys) : Sys := { s with m := s.m.unlock }

/-! ### raw unlock paths (src/rwlock/raw.rs) -/

/-- `read_unlock`: `fetch_sub(ONE_READER)`; the last reader triggers `no_readers` -/
def Sys.readUnlock (s : Sys) : Sys :=
  let s' := { s with state := s.state - 2 }
  if s.state / 2 = 1 then s'.notifyNr else s'

/-- `upgradable_read_unlock`: as `read_unlock`, then release the mutex -/
def Sys.ureadUnlock (s : Sys) : Sys := s.readUnlock.unlockM

/-- `write_unlock`: clear `WRITER_BIT`, trigger `no_writer`, release the mutex -/
def Sys.writeUnlock (s : Sys) : Sys :=
  ({ s with state := s.state - s.state % 2 }.notifyNw).unlockM

/-! ### polls -/

structure RRes where
  s : Sys
  fu : Fut
  ready : Bool
  br : Nat := 0

/-- `RawRead::poll_with_strategy`:
```
loop { if state & WRITER_BIT == 0 {
         match lock.state.compare_exchange(state, state + ONE_READER) {
           Ok(_) => { listener = None; return Ready }      Err(s) => state = s } }
       else if listener.is_none() { listener = Some(no_writer.listen()); state = lock.state.load() }
       else { ready!(strategy.poll(listener)); state = lock.state.load();
              if state & WRITER_BIT == 0 { no_writer.notify(1) } continue } }
``` -/
def pollRead (s : Sys) (fu : Fut) (t : Nat) : RRes :=
  let f := fu.id
  if !Ev.has s.nw f then
    -- not registered. After at most one failed CAS / one listen the cached word is current.
    if s.state % 2 = 0 then
      -- CAS succeeds (a listener registered on the way is dropped un-notified): reader added
      ⟨{ s with state := s.state + 2 }, { fu with seen := s.state, stage := .done }, true, 1⟩
    else
      -- writer bit set: listen, reload, poll the fresh listener: Pending
      ⟨{ s with nw := Ev.setTask (Ev.listen s.nw f) f t }, { fu with seen := s.state }, false, 2⟩
  else if !Ev.isNotified s.nw f then
    ⟨{ s with nw := Ev.setTask s.nw f t }, fu, false, 3⟩
  else
    -- listener Ready (consumed); reload
    let s1 := { s with nw := Ev.erase s.nw f }
    if s.state % 2 = 0 then
      -- readers are admitted: pass the notification on, then CAS succeeds
      let s2 := s1.notifyNw
      ⟨{ s2 with state := s.state + 2 }, { fu with seen := s.state, stage := .done }, true, 4⟩
    else
      -- a writer got in first: do not pass on; listen again, reload, Pending
      ⟨{ s1 with nw := Ev.setTask (Ev.listen s1.nw f) f t }, { fu with seen := s.state }, false, 5⟩

/-- `RawUpgradableRead::poll_with_strategy`: acquire the inner mutex (forget the guard), then add a
reader with a CAS loop (which succeeds at once when nothing interleaves). -/
def pollUread (s : Sys) (fu : Fut) (t : Nat) (fire : Bool) : RRes :=
  let r := lockPoll s.m fu.l fu.id t fire
  if r.ready then
    ⟨{ s with m := r.c, state := s.state + 2 }, { fu with l := r.l, stage := .done }, true, 10 + r.br⟩
  else ⟨{ s with m := r.c }, { fu with l := r.l }, false, 10 + r.br⟩

/-- the `WaitingReaders` arm of `RawWrite::poll_with_strategy` entered with a registered listener:
```
if lock.state.load() == WRITER_BIT { no_readers = None; state = Acquired; return Ready }
if no_readers.is_none() { no_readers = Some(no_readers.listen()) } else { ready!(strategy.poll(no_readers)) }
``` -/
def pollWaitReaders (s : Sys) (fu : Fut) (t : Nat) (base : Nat) : RRes :=
  let f := fu.id
  if s.state = 1 then
    -- only the writer bit is left: done; the listener is dropped (forwarding a notification)
    ⟨s.dropNr f, { fu with stage := .done }, true, base + 1⟩
  else if !Ev.isNotified s.nr f then
    ⟨{ s with nr := Ev.setTask s.nr f t }, { fu with stage := .waitReaders }, false, base + 2⟩
  else
    -- listener Ready (consumed); state still has readers; listen again; poll: Pending
    ⟨{ s with nr := Ev.setTask (Ev.listen (Ev.erase s.nr f) f) f t }, { fu with stage := .waitReaders },
      false, base + 3⟩

/-- `RawWrite::poll_with_strategy`. In `Acquiring`: poll the inner lock; when it is ready, forget
the guard, `fetch_or(WRITER_BIT)` (the returned old value never has the bit, so the early return is
never taken), register on `no_readers`, and fall into `WaitingReaders`. -/
def pollWrite (s : Sys) (fu : Fut) (t : Nat) (fire : Bool) : RRes :=
  match fu.stage with
  | .init =>
    let r := lockPoll s.m fu.l fu.id t fire
    if r.ready then
      let s1 := { s with m := r.c, state := s.state + (1 - s.state % 2), nr := Ev.listen s.nr fu.id }
      pollWaitReaders s1 { fu with l := r.l } t (30 + r.br)
    else ⟨{ s with m := r.c }, { fu with l := r.l }, false, 30 + r.br⟩
  | _ => pollWaitReaders s fu t 50

/-- `RawUpgrade::poll_with_strategy`:
```
loop { if lock.state.load() == WRITER_BIT { break }
       if listener.is_none() { listener = Some(no_readers.listen()) } else { ready!(strategy.poll(listener)) } }
listener = None; Ready
``` -/
def pollUpgrade (s : Sys) (fu : Fut) (t : Nat) : RRes :=
  let f := fu.id
  if s.state = 1 then ⟨s.dropNr f, { fu with stage := .done }, true, 60⟩
  else if !Ev.has s.nr f then
    ⟨{ s with nr := Ev.setTask (Ev.listen s.nr f) f t }, fu, false, 61⟩
  else if !Ev.isNotified s.nr f then
    ⟨{ s with nr := Ev.setTask s.nr f t }, fu, false, 62⟩
  else
    ⟨{ s with nr := Ev.setTask (Ev.listen (Ev.erase s.nr f) f) f t }, fu, false, 63⟩

def pollFut (s : Sys) (fu : Fut) (t : Nat) (fire : Bool) : RRes :=
  match fu.kind with
  | .read => pollRead s fu t
  | .uread => pollUread s fu t fire
  | .write => pollWrite s fu t fire
  | .upgrade => pollUpgrade s fu t

/-- guard kind produced by a future kind -/
def Kind.guard : Kind → GKind
  | .read => .read
  | .uread => .uread
  | .write => .write
  | .upgrade => .write

/-- Dropping future `fu` (cancellation or drop after completion). -/
def dropFutS (s : Sys) (fu : Fut) : Sys :=
  match fu.kind with
  | .read => s.dropNw fu.id
  | .uread => if fu.stage = .done then s else { s with m := lockDrop s.m fu.l fu.id }
  | .write =>
    match fu.stage with
    | .init => { s with m := lockDrop s.m fu.l fu.id }
    | .waitReaders => (s.writeUnlock).dropNr fu.id     -- PinnedDrop, then the listener field
    | .done => s
  | .upgrade =>
    if fu.stage = .done then s else (s.writeUnlock).dropNr fu.id

def step (s : Sys) : Op → Sys × Out
  | .start f k arc =>
    if fresh s f && 0 < s.handles && k != .upgrade then
      ({ s with futs := { id := f, kind := k, arc := arc, seen := s.state, waker := f * 4 } :: s.futs }, .ok)
    else (s, .bad)
  | .poll f t fire =>
    match findFut s f with
    | some fu =>
      if fu.stage = .done then (s, .bad)
      else
        let r := pollFut { s with m := s.m.polled f } fu t fire
        let futs := setFut r.s.futs f fun _ => { r.fu with polled := true, waker := t }
        if r.ready then
          -- Arc flavours clone the Arc into the guard; an `UpgradeArc` moves its own Arc
          ({ r.s with futs := futs,
                      guards := { id := f, kind := fu.kind.guard, arc := fu.arc } :: r.s.guards,
                      strong := if fu.arc && fu.kind != .upgrade then r.s.strong + 1 else r.s.strong },
           .ready)
        else ({ r.s with futs := futs }, .pending)
    | none => (s, .bad)
  | .dropFut f =>
    match findFut s f with
    | some fu =>
      let s1 := dropFutS { s with m := s.m.polled f } fu
      ({ s1 with futs := s1.futs.filter (·.id != f),
                 -- only an uncompleted `UpgradeArc` owns an `Arc`
                 strong := if fu.arc && fu.kind == .upgrade && fu.stage != .done
                           then s1.strong - 1 else s1.strong }, .ok)
    | none => (s, .bad)
  | .try_ g k arc =>
    if fresh s g && 0 < s.handles then
      let grant (s : Sys) : Sys :=
        { s with guards := { id := g, kind := k, arc := arc } :: s.guards,
                 strong := if arc then s.strong + 1 else s.strong }
      match k with
      | .read =>
        -- try_read: fails iff the writer bit is set
        if s.state % 2 = 0 then (grant { s with state := s.state + 2 }, .some) else (s, .none)
      | .uread =>
        -- try_upgradable_read: mutex.try_lock, forget, add a reader
        if s.m.st = 0 then (grant { s with m := { s.m with st := 1 }, state := s.state + 2 }, .some)
        else (s, .none)
      | .write =>
        -- try_write: mutex.try_lock; CAS(0, WRITER_BIT); on failure the mutex guard is dropped
        if s.m.st = 0 then
          if s.state = 0 then (grant { s with m := { s.m with st := 1 }, state := 1 }, .some)
          else ({ s with m := ({ s.m with st := 1 } : Core).unlock }, .none)
        else (s, .none)
    else (s, .bad)
  | .dropGuard g =>
    match findGuard s g with
    | some gu =>
      let s1 := match gu.kind with
        | .read => s.readUnlock
        | .uread => s.ureadUnlock
        | .write => s.writeUnlock
      ({ s1 with guards := s1.guards.eraseP (·.id == g),
                 strong := if gu.arc then s1.strong - 1 else s1.strong }, .ok)
    | none => (s, .bad)
  | .conv g c =>
    match findGuard s g with
    | some gu =>
      match gu.kind, c with
      | .uread, .downgrade =>
        -- downgrade_upgradable_read: release the mutex
        ({ s.unlockM with guards := convGuard s.guards gu .read }, .ok)
      | .write, .downgrade =>
        -- downgrade_write: fetch_add(ONE_READER - WRITER_BIT); mutex.unlock; no_writer.notify(1)
        ({ ({ s with state := s.state + 1 }.unlockM).notifyNw with
             guards := convGuard s.guards gu .read }, .ok)
      | .write, .toUpgradable =>
        -- downgrade_to_upgradable: fetch_add(ONE_READER - WRITER_BIT); no_writer.notify(1)
        ({ ({ s with state := s.state + 1 }).notifyNw with
             guards := convGuard s.guards gu .uread }, .ok)
      | .uread, .tryUpgrade =>
        -- try_upgrade: CAS(ONE_READER, WRITER_BIT)
        if s.state = 2 then
          ({ s with state := 1, guards := convGuard s.guards gu .write }, .ok)
        else (s, .err)
      | _, _ => (s, .bad)
    | none => (s, .bad)
  | .upgrade g f =>
    match findGuard s g with
    | some gu =>
      if gu.kind = .uread && fresh s f then
        -- upgrade(): fetch_sub(ONE_READER - WRITER_BIT); the guard (and its Arc) moves into the future
        ({ s with state := s.state - 1,
                  guards := s.guards.eraseP (·.id == g),
                  futs := { id := f, kind := .upgrade, arc := gu.arc, waker := f * 4 } :: s.futs }, .ok)
      else (s, .bad)
    | none => (s, .bad)
  | .hclone =>
    if 0 < s.handles then ({ s with handles := s.handles + 1, strong := s.strong + 1 }, .ok)
    else (s, .bad)
  | .hdrop =>
    if 1 < s.handles || (s.handles == 1 && !borrowedAlive s) then
      ({ s with handles := s.handles - 1, strong := s.strong - 1 }, .ok)
    else (s, .bad)

def next (s : Sys) (op : Op) : Sys := (step s op).1

def run (s : Sys) (ops : List Op) : Sys := ops.foldl next s

def minOf : List Nat → Option Nat
  | [] => none
  | x :: xs => match minOf xs with
    | none => some x
    | some y => some (if x ≤ y then x else y)

def lastWaker (s : Sys) (f : Nat) : Nat := ((findFut s f).map (·.waker)).getD 0

def settleLoop (s : Sys) : Nat → Nat → Sys × Nat
  | 0, p => (s, p)
  | fuel+1, p =>
    match minOf s.m.woken with
    | none => (s, p)
    | some f => settleLoop (next s (.poll f (lastWaker s f) false)) fuel (p+1)

def pendingPolled (s : Sys) : List Fut := s.futs.filter fun x => x.polled && x.stage != .done

def ind (b : Bool) : Nat := if b then 1 else 0

/-- guards alive, by kind -/
def nG (s : Sys) (k : GKind) : Nat := (s.guards.map fun g => ind (g.kind == k)).sum
/-- writers that hold the mutex and wait for readers -/
def Fut.isPW (x : Fut) : Bool := x.kind == .write && x.stage == .waitReaders
/-- pending upgrades (from the creation of the future on) -/
def Fut.isPU (x : Fut) : Bool := x.kind == .upgrade && x.stage != .done
def nPW (s : Sys) : Nat := (s.futs.map fun x => ind x.isPW).sum
def nPU (s : Sys) : Nat := (s.futs.map fun x => ind x.isPU).sum

end ALock.RwLock
