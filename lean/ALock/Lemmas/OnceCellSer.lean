import ALock.Lemmas.OnceCell

/-!
# OnceCell: every payload value is accounted for exactly once

`allSerials s` lists the serial of every payload instance that exists or has been dropped: the
drop log, the value stored in the cell, and the arguments still owned by `set` futures.  `SerInv`
says this list is a permutation of `0 .. nextSerial - 1`: no instance is lost, duplicated, or
dropped twice.
-/

namespace ALock.Once

def optL (o : Option Val) : List Nat :=
  match o with
  | some v => [v.serial]
  | none => []

def argSerials (futs : List Fut) : List Nat := futs.flatMap fun fu => optL fu.arg

def allSerials (s : Sys) : List Nat := s.dropped ++ (optL s.value ++ argSerials s.futs)

/-- a list of serials is exactly the instances created so far -/
structure SerOK (l : List Nat) (n : Nat) : Prop where
  nodup : l.Nodup
  bound : ∀ x ∈ l, x < n
  count : l.length = n

structure SerInv (s : Sys) : Prop where
  ser : SerOK (allSerials s) s.nextSerial
  /-- only an uncompleted `set` future owns an argument -/
  argKind : ∀ fu ∈ s.futs, ∀ w, fu.arg = some w → fu.kind = .set ∧ fu.pc ≠ .done

theorem SerOK.perm {l l' : List Nat} {n : Nat} (h : SerOK l n) (hp : l'.Perm l) : SerOK l' n :=
  ⟨hp.nodup_iff.mpr h.nodup, fun x hx => h.bound x (hp.mem_iff.mp hx), hp.length_eq.trans h.count⟩

theorem SerOK.new {l l' : List Nat} {n : Nat} (h : SerOK l n) (hp : l'.Perm (n :: l)) : SerOK l' (n + 1) := by
  refine ⟨hp.nodup_iff.mpr (List.nodup_cons.mpr ⟨?_, h.nodup⟩), ?_, ?_⟩
  · intro hm; have := h.bound n hm; omega
  · intro x hx
    rcases List.mem_cons.mp (hp.mem_iff.mp hx) with rfl | hx
    · omega
    · have := h.bound x hx; omega
  · rw [hp.length_eq, List.length_cons, h.count]

/-! ### splitting the argument list at one future -/

theorem argSerials_filter_ne (futs : List Fut) (f : Nat) (fu : Fut) (hn : (futs.map (·.id)).Nodup)
    (hm : fu ∈ futs) (hi : fu.id = f) :
    (argSerials futs).Perm (optL fu.arg ++ argSerials (futs.filter (·.id != f))) := by
  induction futs with
  | nil => cases hm
  | cons a t ih =>
    simp only [List.map_cons, List.nodup_cons] at hn
    rcases List.mem_cons.mp hm with rfl | hmt
    · have hrest : t.filter (·.id != f) = t := by
        apply List.filter_eq_self.mpr
        intro y hy
        have : y.id ≠ f := by
          intro hc; apply hn.1; simp only [List.mem_map]; exact ⟨y, hy, by rw [hc, hi]⟩
        simp [this]
      simp only [argSerials, List.flatMap_cons, List.filter_cons, hi, bne_self_eq_false,
        Bool.false_eq_true, if_false]
      rw [hrest]
    · have hne : a.id ≠ f := by
        intro hc; apply hn.1; simp only [List.mem_map]; exact ⟨fu, hmt, by rw [hi, hc]⟩
      have := ih hn.2 hmt
      have ha : (a.id != f) = true := by simp [hne]
      simp only [argSerials, List.flatMap_cons, List.filter_cons, ha, if_true] at this ⊢
      -- optL a.arg ++ rest ~ optL fu.arg ++ (optL a.arg ++ rest')
      refine (List.Perm.append_left _ this).trans ?_
      rw [← List.append_assoc, ← List.append_assoc]
      exact List.Perm.append_right _ List.perm_append_comm

theorem filter_setFut (futs : List Fut) (f : Nat) (g : Fut → Fut) (hg : ∀ x, (g x).id = x.id) :
    (setFut futs f g).filter (·.id != f) = futs.filter (·.id != f) := by
  induction futs with
  | nil => rfl
  | cons a t ih =>
    simp only [setFut, List.map_cons, List.filter_cons] at ih ⊢
    rw [ih]
    by_cases ha : a.id = f
    · simp [ha, hg]
    · simp [ha]

theorem nodup_setFut' (futs : List Fut) (f : Nat) (g : Fut → Fut) (hg : ∀ x, (g x).id = x.id)
    (hn : (futs.map (·.id)).Nodup) : ((setFut futs f g).map (·.id)).Nodup :=
  nodup_map_update futs (fun x : Fut => x.id) f g hg hn

/-- updating future `f` replaces its argument in the multiset of argument serials -/
theorem argSerials_setFut (futs : List Fut) (f : Nat) (g : Fut → Fut) (fu : Fut)
    (hg : ∀ x, (g x).id = x.id) (hn : (futs.map (·.id)).Nodup) (hm : fu ∈ futs) (hi : fu.id = f)
    (rest : List Nat) (hr : (argSerials futs).Perm (optL fu.arg ++ rest) → True := fun _ => trivial) :
    (argSerials (setFut futs f g)).Perm (optL (g fu).arg ++ argSerials (futs.filter (·.id != f))) := by
  have hm' : g fu ∈ setFut futs f g := by
    simp only [setFut, List.mem_map]
    exact ⟨fu, hm, by simp [hi]⟩
  have := argSerials_filter_ne (setFut futs f g) f (g fu) (nodup_setFut' futs f g hg hn) hm'
    (by rw [hg, hi])
  rwa [filter_setFut futs f g hg] at this

end ALock.Once

namespace ALock.Once

/-! ### what a poll does to the value slot -/

/-- the poll does not store a value -/
structure NoStore (s : Sys) (fu : Fut) (r : PRes) : Prop where
  value : r.s.value = s.value
  next : r.s.nextSerial = s.nextSerial
  /-- a `set` that completes without storing hands its argument back -/
  back : fu.kind = .set → r.pc = .done → ∃ v, r.out = .setBack v
  onlySet : ∀ v, r.out = .setBack v → r.pc = .done

/-- the poll stores the value its initialiser produced -/
structure Store (s : Sys) (fu : Fut) (r : PRes) : Prop where
  st : s.state ≠ 2 ∨ fu.pc = .running
  pc : r.pc = .done
  noBack : ∀ v, r.out ≠ .setBack v
  value : r.s.value = some (produced s fu)
  next : r.s.nextSerial = if fu.arg.isSome then s.nextSerial else s.nextSerial + 1

theorem produced_congr (s s' : Sys) (fu : Fut) (h : s'.nextSerial = s.nextSerial) :
    produced s' fu = produced s fu := by
  unfold produced; cases fu.arg <;> simp [h]

theorem runInit_ser (s : Sys) (fu : Fut) (i : Input) :
    (runInit s fu i).s.futs = s.futs ∧ (runInit s fu i).s.dropped = s.dropped ∧
    ((runInit s fu i).s.value = s.value ∧ (runInit s fu i).s.nextSerial = s.nextSerial ∧
       fu.kind ≠ .set ∧ (∀ v, (runInit s fu i).out ≠ .setBack v)
     ∨ ((runInit s fu i).pc = .done ∧ (∀ v, (runInit s fu i).out ≠ .setBack v) ∧
        (runInit s fu i).s.value = some (produced s fu) ∧
        (runInit s fu i).s.nextSerial = if fu.arg.isSome then s.nextSerial else s.nextSerial + 1)) := by
  unfold runInit report
  by_cases hk : fu.kind = .set
  · simp [hk, Sys.notifyAll]
  · simp only [hk, if_false]
    by_cases hr : fu.pc = .running <;> cases i <;>
      simp [hr, hk, Sys.notifyAll, Sys.guardDrop, Sys.notifyAct1] <;>
      (first | (cases hkk : fu.kind <;> simp_all) | skip) <;>
      (try (split <;> simp_all [Sys.guardDrop, Sys.notifyAct1]))

end ALock.Once

namespace ALock.Once

theorem pollInit_ser (s : Sys) (fu : Fut) (t : Nat) (i : Input) (hnd : fu.pc ≠ .done)
    (hkw : fu.kind ≠ .wait) :
    (pollInit s fu t i).s.futs = s.futs ∧ (pollInit s fu t i).s.dropped = s.dropped ∧
    (NoStore s fu (pollInit s fu t i) ∨ Store s fu (pollInit s fu t i)) := by
  have key : ∀ s0 : Sys, s0.futs = s.futs → s0.dropped = s.dropped → s0.value = s.value →
      s0.nextSerial = s.nextSerial → (s.state ≠ 2 ∨ fu.pc = .running) →
      (runInit s0 fu i).s.futs = s.futs ∧ (runInit s0 fu i).s.dropped = s.dropped ∧
      (NoStore s fu (runInit s0 fu i) ∨ Store s fu (runInit s0 fu i)) := by
    intro s0 h1 h2 h3 h4 h5
    obtain ⟨a1, a2, a3⟩ := runInit_ser s0 fu i
    refine ⟨a1.trans h1, a2.trans h2, ?_⟩
    rcases a3 with ⟨b1, b2, b3, b4⟩ | ⟨b1, b2, b3, b4⟩
    · exact Or.inl ⟨b1.trans h3, b2.trans h4, fun hk => absurd hk b3, fun v hv => absurd hv (b4 v)⟩
    · refine Or.inr ⟨h5, b1, b2, ?_, ?_⟩
      · rw [b3, produced_congr s s0 fu h4]
      · rw [b4, h4]
  unfold pollInit
  cases hpc : fu.pc with
  | done => exact absurd hpc hnd
  | running =>
    simp only []
    exact key s rfl rfl rfl rfl (Or.inr hpc)
  | start =>
    simp only []
    split
    · refine ⟨rfl, rfl, Or.inl ⟨rfl, rfl, ?_, ?_⟩⟩
      · intro hk _; exact ⟨valBy s, by simp [report, hk]⟩
      · intro v _; rfl
    · split
      · refine ⟨rfl, rfl, Or.inl ⟨rfl, rfl, ?_, ?_⟩⟩
        · intro _ h; cases h
        · intro v h; cases h
      · rename_i h2 h1
        exact key _ rfl rfl rfl rfl (Or.inl h2)
  | waiting =>
    simp only []
    split
    · refine ⟨rfl, rfl, Or.inl ⟨rfl, rfl, ?_, ?_⟩⟩
      · intro _ h; cases h
      · intro v h; cases h
    · split
      · refine ⟨rfl, rfl, Or.inl ⟨rfl, rfl, ?_, ?_⟩⟩
        · intro hk _; exact ⟨valBy s, by simp [report, hk]⟩
        · intro v _; rfl
      · split
        · refine ⟨rfl, rfl, Or.inl ⟨rfl, rfl, ?_, ?_⟩⟩
          · intro _ h; cases h
          · intro v h; cases h
        · rename_i _ h2 h1
          exact key _ rfl rfl rfl rfl (Or.inl h2)

theorem pollWait_ser (s : Sys) (fu : Fut) (t : Nat) (hk : fu.kind = .wait) :
    (pollWait s fu t).s.futs = s.futs ∧ (pollWait s fu t).s.dropped = s.dropped ∧
    NoStore s fu (pollWait s fu t) := by
  unfold pollWait
  cases fu.pc <;> simp only [] <;> (repeat' split) <;>
    (refine ⟨by simp, by simp, ⟨by simp, by simp, ?_, ?_⟩⟩ <;> intros <;> simp_all)

end ALock.Once

namespace ALock.Once

theorem optL_none : optL none = [] := rfl
theorem optL_some (v : Val) : optL (some v) = [v.serial] := rfl

theorem upd_arg (pc : Pc) (t : Nat) (fu : Fut) :
    (upd pc t fu).arg = if pc = .done then none else fu.arg := rfl

/-- the poll step preserves the accounting -/
theorem poll_ser (s : Sys) (hw : WInv s) (hs : SerInv s) (f t : Nat) (i : Input) (fu : Fut)
    (hf : findFut s f = some fu) (hnd : fu.pc ≠ .done) : SerInv (next s (.poll f t i)) := by
  obtain ⟨hm, hid⟩ := findFut_mem hf
  have hn := hw.nodup
  let s0 : Sys := { s with woken := s.woken.filter (· != f) }
  -- what the poll does to the slot
  have eff : ∀ r : PRes, r.s.futs = s.futs → r.s.dropped = s.dropped → (NoStore s0 fu r ∨ Store s0 fu r) →
      SerInv { r.s with futs := setFut r.s.futs f (upd r.pc t),
                        dropped := match r.out, fu.arg with
                          | .setBack _, some v => v.serial :: r.s.dropped
                          | _, _ => r.s.dropped } := by
    intro r hfu hdr hcase
    have hsplit := argSerials_filter_ne s.futs f fu hn hm hid
    have hsplit' := argSerials_setFut s.futs f (upd r.pc t) fu (fun _ => rfl) hn hm hid []
    have hargk := hs.argKind fu hm
    refine ⟨?_, ?_⟩
    · -- the serial accounting
      simp only [allSerials, hfu, hdr]
      rcases hcase with hno | hst
      · -- nothing stored
        rw [hno.value, hno.next]
        by_cases hpd : r.pc = .done
        · -- the future completes: an argument it still owns is handed back and dropped
          rw [upd_arg, if_pos hpd] at hsplit'
          cases harg : fu.arg with
          | none =>
            rw [harg, optL_none] at hsplit
            simp only [optL_none, List.nil_append] at hsplit'
            have : (match r.out, (none : Option Val) with
                | .setBack _, some v => v.serial :: s.dropped
                | _, _ => s.dropped) = s.dropped := by split <;> simp_all
            rw [this]
            refine hs.ser.perm ?_
            simp only [allSerials]
            exact List.Perm.append_left _ (List.Perm.append_left _ (hsplit'.trans hsplit.symm))
          | some v =>
            obtain ⟨hk, _⟩ := hargk v harg
            obtain ⟨v', hv'⟩ := hno.back hk hpd
            rw [hv']
            simp only []
            rw [harg, optL_some] at hsplit
            simp only [optL_none, List.nil_append] at hsplit'
            refine hs.ser.perm ?_
            simp only [allSerials]
            -- v.serial moves from the arguments to the drop log
            have h1 : (optL s.value ++ argSerials s.futs).Perm
                (v.serial :: (optL s.value ++ argSerials (s.futs.filter (·.id != f)))) := by
              refine (List.Perm.append_left _ hsplit).trans ?_
              simp only [List.singleton_append]
              exact List.perm_middle
            refine List.Perm.trans ?_ (List.Perm.append_left _ h1).symm
            simp only [List.cons_append]
            refine List.Perm.trans ?_ List.perm_middle.symm
            exact List.Perm.cons _ (List.Perm.append_left _ (List.Perm.append_left _ hsplit'))
        · -- still pending: nothing moves
          rw [upd_arg, if_neg hpd] at hsplit'
          have : (match r.out, fu.arg with
              | .setBack _, some v => v.serial :: s.dropped
              | _, _ => s.dropped) = s.dropped := by
            split
            · rename_i v' w hout _
              exact absurd (hno.onlySet v' hout) hpd
            · rfl
          rw [this]
          refine hs.ser.perm ?_
          simp only [allSerials]
          exact List.Perm.append_left _ (List.Perm.append_left _ (hsplit'.trans hsplit.symm))
      · -- the initialiser's value is stored
        have hvn : s.value = none := by
          have h2 : s.state ≠ 2 := by
            rcases hst.st with h | h
            · exact h
            · have := running_state hw hm h; simp only [s0] at *; omega
          cases hv : s.value with
          | none => rfl
          | some v => exact absurd (hw.val.mpr (by simp [hv])) h2
        rw [hst.value, hst.next]
        rw [upd_arg, if_pos hst.pc] at hsplit'
        simp only [optL_none, List.nil_append] at hsplit'
        have : (match r.out, fu.arg with
            | .setBack _, some v => v.serial :: s.dropped
            | _, _ => s.dropped) = s.dropped := by
          split
          · rename_i v' w hout _
            exact absurd hout (hst.noBack v')
          · rfl
        rw [this]
        cases harg : fu.arg with
        | some v =>
          -- `set`: its argument moves into the cell
          rw [harg, optL_some] at hsplit
          simp only [produced, harg, Option.isSome_some, if_true, optL_some]
          refine hs.ser.perm ?_
          simp only [allSerials, hvn, optL_none, List.nil_append]
          refine List.Perm.append_left _ ?_
          refine List.Perm.trans ?_ hsplit.symm
          exact List.Perm.append_left _ hsplit'
        | none =>
          -- a fresh value
          rw [harg, optL_none] at hsplit
          simp only [List.nil_append] at hsplit
          simp only [produced, harg, Option.isSome_none, Bool.false_eq_true, if_false, optL_some, s0]
          refine hs.ser.new ?_
          simp only [allSerials, hvn, optL_none, List.nil_append, List.singleton_append]
          exact List.perm_middle.trans
            (List.Perm.cons _ (List.Perm.append_left _ (hsplit'.trans hsplit.symm)))
    · -- only uncompleted `set` futures own an argument
      intro x hx w hwx
      simp only [hfu] at hx
      obtain ⟨y, hy, rfl⟩ := (mem_map_update (id := fun x : Fut => x.id)).mp hx
      by_cases hyi : y.id = f
      · have hyfu : y = fu := eq_of_nodup_map hn hy hm (by rw [hyi, hid])
        subst hyfu
        simp only [hyi, beq_self_eq_true, if_true] at hwx ⊢
        rw [upd_arg] at hwx
        by_cases hpd : r.pc = .done
        · rw [if_pos hpd] at hwx; cases hwx
        · rw [if_neg hpd] at hwx
          exact ⟨(hs.argKind y hy w hwx).1, hpd⟩
      · have : (y.id == f) = false := by simp [hyi]
        simp only [this, Bool.false_eq_true, if_false] at hwx ⊢
        exact hs.argKind y hy w hwx
  simp only [next, step, hf, hnd, if_false]
  by_cases hk : fu.kind = .wait
  · simp only [hk, if_true]
    obtain ⟨h1, h2, h3⟩ := pollWait_ser s0 fu t hk
    exact eff _ h1 h2 (Or.inl h3)
  · simp only [hk, if_false]
    obtain ⟨h1, h2, h3⟩ := pollInit_ser s0 fu t i hnd hk
    exact eff _ h1 h2 h3

end ALock.Once

namespace ALock.Once

theorem dropFutS_ser (s : Sys) (fu : Fut) :
    (dropFutS s fu).futs = s.futs ∧ (dropFutS s fu).dropped = s.dropped ∧
    (dropFutS s fu).value = s.value ∧ (dropFutS s fu).nextSerial = s.nextSerial := by
  unfold dropFutS
  cases fu.kind <;> cases fu.pc <;> simp [Sys.dropPas, Sys.dropAct, Sys.guardDrop, Sys.notifyAct1]

theorem step_ser (s : Sys) (op : Op) (hw : WInv s) (hs : SerInv s) : SerInv (next s op) := by
  cases op with
  | poll f t i =>
    cases hf : findFut s f with
    | none => simpa [next, step, hf] using hs
    | some fu =>
      by_cases hnd : fu.pc = .done
      · simpa [next, step, hf, hnd] using hs
      · exact poll_ser s hw hs f t i fu hf hnd
  | start f k =>
    simp only [next, step]
    split
    · split
      · -- a `set` future is created with a fresh argument
        refine ⟨?_, ?_⟩
        · refine hs.ser.new ?_
          simp only [allSerials, argSerials, List.flatMap_cons, optL_some]
          have : (s.dropped ++ (optL s.value ++ ([s.nextSerial] ++ List.flatMap (fun fu => optL fu.arg) s.futs)))
              = (s.dropped ++ optL s.value) ++ s.nextSerial :: List.flatMap (fun fu => optL fu.arg) s.futs := by
            simp
          rw [this]
          refine List.perm_middle.trans ?_
          simp
        · intro x hx w hwx
          rcases List.mem_cons.mp hx with rfl | hx
          · rename_i hk
            exact ⟨hk, by simp⟩
          · exact hs.argKind x hx w hwx
      · refine ⟨?_, ?_⟩
        · simpa [allSerials, argSerials, optL_none] using hs.ser
        · intro x hx w hwx
          rcases List.mem_cons.mp hx with rfl | hx
          · cases hwx
          · exact hs.argKind x hx w hwx
    · exact hs
  | dropFut f =>
    simp only [next, step]
    cases hf : findFut s f with
    | none => exact hs
    | some fu =>
      obtain ⟨hm, hid⟩ := findFut_mem hf
      obtain ⟨e1, e2, e3, e4⟩ := dropFutS_ser { s with woken := s.woken.filter (· != f) } fu
      have hsplit := argSerials_filter_ne s.futs f fu hw.nodup hm hid
      simp only []
      refine ⟨?_, ?_⟩
      · simp only [allSerials, e1, e2, e3, e4]
        cases harg : fu.arg with
        | none =>
          rw [harg, optL_none] at hsplit
          simp only [List.nil_append] at hsplit
          refine hs.ser.perm ?_
          simp only [allSerials]
          exact List.Perm.append_left _ (List.Perm.append_left _ hsplit.symm)
        | some v =>
          rw [harg, optL_some] at hsplit
          refine hs.ser.perm ?_
          simp only [allSerials, List.cons_append]
          have h1 : (optL s.value ++ argSerials s.futs).Perm
              (v.serial :: (optL s.value ++ argSerials (s.futs.filter (·.id != f)))) := by
            refine (List.Perm.append_left _ hsplit).trans ?_
            simp only [List.singleton_append]
            exact List.perm_middle
          refine List.Perm.trans ?_ (List.Perm.append_left _ h1).symm
          exact List.perm_middle.symm
      · intro x hx w hwx
        simp only [e1, List.mem_filter] at hx
        exact hs.argKind x hx.1 w hwx
  | get =>
    simp only [next, step]
    (repeat' split) <;> exact hs
  | take =>
    simp only [next, step]
    split
    · split
      · rename_i h2
        obtain ⟨v, hv⟩ := Option.isSome_iff_exists.mp (hw.val.mp h2)
        refine ⟨?_, hs.argKind⟩
        refine hs.ser.perm ?_
        simp only [allSerials, valSerial, hv, optL_some, optL_none, Option.map_some, Option.getD_some,
          List.nil_append, List.cons_append, List.singleton_append]
        exact List.perm_middle.symm
      · exact hs
    · exact hs
  | dropCell =>
    simp only [next, step]
    split
    · split
      · rename_i h2
        obtain ⟨v, hv⟩ := Option.isSome_iff_exists.mp (hw.val.mp h2)
        refine ⟨?_, hs.argKind⟩
        refine hs.ser.perm ?_
        simp only [allSerials, valSerial, hv, optL_some, optL_none, Option.map_some, Option.getD_some,
          List.nil_append, List.cons_append, List.singleton_append]
        exact List.perm_middle.symm
      · exact ⟨hs.ser, hs.argKind⟩
    · exact hs

theorem init_ser : SerInv ({} : Sys) :=
  ⟨⟨by simp [allSerials, argSerials, optL], by simp [allSerials, argSerials, optL],
    by simp [allSerials, argSerials, optL]⟩, by simp⟩

theorem reachable_ser (ops : List Op) : SerInv (run {} ops) := by
  have : ∀ s : Sys, WInv s → SerInv s → SerInv (run s ops) := by
    induction ops with
    | nil => intro s _ h; exact h
    | cons op ops ih =>
      intro s hw hs
      exact ih _ (step_winv s op hw) (step_ser s op hw hs)
  exact this _ init_winv init_ser

end ALock.Once

namespace ALock.Once

theorem length_le_of_nodup_bound (n : Nat) : ∀ l : List Nat, l.Nodup → (∀ x ∈ l, x < n) → l.length ≤ n := by
  induction n with
  | zero =>
    intro l _ hb
    cases l with
    | nil => simp
    | cons a t => have := hb a (List.mem_cons_self ..); omega
  | succ n ih =>
    intro l hn hb
    by_cases hm : n ∈ l
    · have h1 := ih (l.erase n) (hn.erase n) (by
        intro x hx
        have := (hn.mem_erase_iff).mp hx
        have := hb x this.2
        omega)
      have := List.length_erase_of_mem hm
      omega
    · have := ih l hn (by
        intro x hx
        have := hb x hx
        have : x ≠ n := fun h => hm (h ▸ hx)
        omega)
      omega

/-- a duplicate-free list of `n` numbers below `n` contains every number below `n` -/
theorem SerOK.complete {l : List Nat} {n : Nat} (h : SerOK l n) (k : Nat) (hk : k < n) : k ∈ l := by
  refine Classical.byContradiction fun hnot => ?_
  have := length_le_of_nodup_bound n (k :: l) (List.nodup_cons.mpr ⟨hnot, h.nodup⟩) (by
    intro x hx
    rcases List.mem_cons.mp hx with rfl | hx
    · exact hk
    · exact h.bound x hx)
  have := h.count
  simp only [List.length_cons] at *
  omega

end ALock.Once
