import ALock.Atomic.Accept

/-!
# Accepted traces are runs of the atomic-granularity models
-/

namespace ALock.Accept

theorem bind_ok {α β : Type} {x : Except String α} {f : α → Except String β} {b : β}
    (h : (x >>= f) = .ok b) : ∃ a, x = .ok a ∧ f a = .ok b := by
  cases x with
  | error e => simp [bind, Except.bind] at h
  | ok a => exact ⟨a, rfl, by simpa [bind, Except.bind] using h⟩

namespace Mutex
open ALock.Atomic.Mutex

theorem accept_run {st st' : St} {e : TEv} (h : accept st e = .ok st') :
    ∃ l, st'.sys = run ords st.sys l := by
  cases e with
  | beg i c => simp only [accept, Except.ok.injEq] at h; subst h; exact ⟨[], rfl⟩
  | atom i x =>
    simp only [accept] at h
    obtain ⟨stp, _, h2⟩ := bind_ok h
    simp only [pure, Except.pure, Except.ok.injEq] at h2
    subst h2
    exact ⟨[stp], rfl⟩
  | ret i r =>
    simp only [accept] at h
    obtain ⟨_, _, h2⟩ := bind_ok h
    simp only [pure, Except.pure, Except.ok.injEq] at h2
    subst h2
    exact ⟨[], rfl⟩

theorem run_append (o : Ords) (s : Sys) (l1 l2 : List Step) : run o s (l1 ++ l2) = run o (run o s l1) l2 := by
  simp [run, List.foldl_append]

theorem acceptAll_run {st st' : St} {tr : List TEv} (h : acceptAll st tr = .ok st') :
    ∃ l, st'.sys = run ords st.sys l := by
  induction tr generalizing st with
  | nil => simp only [acceptAll, Except.ok.injEq] at h; subst h; exact ⟨[], rfl⟩
  | cons e es ih =>
    simp only [acceptAll] at h
    split at h
    · rename_i st1 h1
      obtain ⟨l1, e1⟩ := accept_run h1
      obtain ⟨l2, e2⟩ := ih h
      exact ⟨l1 ++ l2, by rw [e2, e1, run_append]⟩
    · cases h

theorem init_run (n : Nat) : (init n).sys = run ords {} (List.replicate n .spawn) := by
  have : ∀ (n : Nat) (s : Sys), run ords s (List.replicate n .spawn) =
      { s with ags := s.ags ++ List.replicate n {} } := by
    intro n
    induction n with
    | zero => intro s; simp [run]
    | succ k ih =>
      intro s
      simp only [List.replicate_succ, run, List.foldl_cons] at ih ⊢
      rw [ih]
      simp [step, List.append_assoc]
  rw [this]
  simp [init]

/-- every accepted trace ends in a state the model reaches from its initial state -/
theorem accepted_reachable {n : Nat} {tr : List TEv} {st' : St}
    (h : acceptAll (init n) tr = .ok st') : ∃ l, st'.sys = run ords {} l := by
  obtain ⟨l, e⟩ := acceptAll_run h
  exact ⟨List.replicate n .spawn ++ l, by rw [e, init_run, run_append]⟩

end Mutex

namespace Barrier
open ALock.Atomic.Mutex

theorem accept_run {st st' : Mutex.St} {e : TEv} (h : accept st e = .ok st') :
    ∃ l, st'.sys = run ords st.sys l := by
  cases e with
  | beg i c => simp only [accept, Except.ok.injEq] at h; subst h; exact ⟨[], rfl⟩
  | atom i x =>
    simp only [accept] at h
    obtain ⟨stp, _, h2⟩ := bind_ok h
    simp only [pure, Except.pure, Except.ok.injEq] at h2
    subst h2
    exact ⟨[stp], rfl⟩
  | ret i r =>
    simp only [accept] at h
    obtain ⟨_, _, h2⟩ := bind_ok h
    simp only [pure, Except.pure, Except.ok.injEq] at h2
    subst h2
    exact ⟨[], rfl⟩

def acceptAll (st : Mutex.St) : List TEv → Except String Mutex.St
  | [] => .ok st
  | e :: es => match accept st e with
    | .ok st' => acceptAll st' es
    | .error m => .error m

theorem accepted_reachable {n : Nat} {tr : List TEv} {st' : Mutex.St}
    (h : acceptAll (Mutex.init n) tr = .ok st') : ∃ l, st'.sys = run ords {} l := by
  have key : ∀ (tr : List TEv) (st st' : Mutex.St), acceptAll st tr = .ok st' →
      ∃ l, st'.sys = run ords st.sys l := by
    intro tr
    induction tr with
    | nil => intro st st' h; simp only [acceptAll, Except.ok.injEq] at h; subst h; exact ⟨[], rfl⟩
    | cons e es ih =>
      intro st st' h
      simp only [acceptAll] at h
      split at h
      · rename_i st1 h1
        obtain ⟨l1, e1⟩ := accept_run h1
        obtain ⟨l2, e2⟩ := ih _ _ h
        exact ⟨l1 ++ l2, by rw [e2, e1, Mutex.run_append]⟩
      · cases h
  obtain ⟨l, e⟩ := key tr _ _ h
  exact ⟨List.replicate n .spawn ++ l, by rw [e, Mutex.init_run, Mutex.run_append]⟩

end Barrier

namespace Sem
open ALock.Atomic.Sem

theorem run_append (s : Sys) (l1 l2 : List Step) : run s (l1 ++ l2) = run (run s l1) l2 := by
  simp [run, List.foldl_append]

theorem accept_run {st st' : St} {e : TEv} (h : accept st e = .ok st') :
    ∃ l, st'.sys = run st.sys l := by
  cases e with
  | beg i c => simp only [accept, Except.ok.injEq] at h; subst h; exact ⟨[], rfl⟩
  | atom i x =>
    simp only [accept] at h
    obtain ⟨l, _, h2⟩ := bind_ok h
    simp only [pure, Except.pure, Except.ok.injEq] at h2
    subst h2
    exact ⟨l, rfl⟩
  | ret i r =>
    simp only [accept] at h
    obtain ⟨l, _, h2⟩ := bind_ok h
    simp only [pure, Except.pure, Except.ok.injEq] at h2
    subst h2
    exact ⟨l, rfl⟩

theorem acceptAll_run {st st' : St} {tr : List TEv} (h : acceptAll st tr = .ok st') :
    ∃ l, st'.sys = run st.sys l := by
  induction tr generalizing st with
  | nil => simp only [acceptAll, Except.ok.injEq] at h; subst h; exact ⟨[], rfl⟩
  | cons e es ih =>
    simp only [acceptAll] at h
    split at h
    · rename_i st1 h1
      obtain ⟨l1, e1⟩ := accept_run h1
      obtain ⟨l2, e2⟩ := ih h
      exact ⟨l1 ++ l2, by rw [e2, e1, run_append]⟩
    · cases h

theorem init_run (n p : Nat) : (init n p).sys = run (Sys.new p) (List.replicate n .spawn) := by
  have : ∀ (n : Nat) (s : Sys), run s (List.replicate n .spawn) =
      { s with ags := s.ags ++ List.replicate n {} } := by
    intro n
    induction n with
    | zero => intro s; simp [run]
    | succ k ih =>
      intro s
      simp only [List.replicate_succ, run, List.foldl_cons] at ih ⊢
      rw [ih]
      simp [step, List.append_assoc]
  rw [this]
  simp [init, Sys.new]

theorem accepted_reachable {n p : Nat} {tr : List TEv} {st' : St}
    (h : acceptAll (init n p) tr = .ok st') : ∃ l, st'.sys = run (Sys.new p) l := by
  obtain ⟨l, e⟩ := acceptAll_run h
  exact ⟨List.replicate n .spawn ++ l, by rw [e, init_run, run_append]⟩

end Sem

namespace RwLock
open ALock.Atomic.RwLock

theorem run_append (s : Sys) (l1 l2 : List Step) : run s (l1 ++ l2) = run (run s l1) l2 := by
  simp [run, List.foldl_append]

theorem mrun_append (o : ALock.Atomic.Mutex.Ords) (s : ALock.Atomic.Mutex.Sys) (l1 l2) :
    ALock.Atomic.Mutex.run o s (l1 ++ l2) = ALock.Atomic.Mutex.run o (ALock.Atomic.Mutex.run o s l1) l2 := by
  simp [ALock.Atomic.Mutex.run, List.foldl_append]

/-- both components advance by runs of their models -/
theorem accept_run {st st' : St} {e : TEv} (h : accept st e = .ok st') :
    (∃ l, st'.sys = run st.sys l) ∧
    (∃ l, st'.mx = ALock.Atomic.Mutex.run ALock.Atomic.Mutex.ords st.mx l) := by
  cases e with
  | beg i c => simp only [accept, Except.ok.injEq] at h; subst h; exact ⟨⟨[], rfl⟩, ⟨[], rfl⟩⟩
  | atom i x =>
    simp only [accept] at h
    split at h
    · obtain ⟨stp, _, h2⟩ := bind_ok h
      obtain ⟨l, _, h3⟩ := bind_ok h2
      simp only [pure, Except.pure, Except.ok.injEq] at h3
      subst h3
      exact ⟨⟨l, rfl⟩, ⟨[stp], rfl⟩⟩
    · obtain ⟨l, _, h2⟩ := bind_ok h
      simp only [pure, Except.pure, Except.ok.injEq] at h2
      subst h2
      exact ⟨⟨l, rfl⟩, ⟨[], rfl⟩⟩
  | ret i r =>
    simp only [accept] at h
    obtain ⟨_, _, h2⟩ := bind_ok h
    simp only [pure, Except.pure, Except.ok.injEq] at h2
    subst h2
    exact ⟨⟨[], rfl⟩, ⟨[], rfl⟩⟩

theorem acceptAll_run {st st' : St} {tr : List TEv} (h : acceptAll st tr = .ok st') :
    (∃ l, st'.sys = run st.sys l) ∧
    (∃ l, st'.mx = ALock.Atomic.Mutex.run ALock.Atomic.Mutex.ords st.mx l) := by
  induction tr generalizing st with
  | nil => simp only [acceptAll, Except.ok.injEq] at h; subst h; exact ⟨⟨[], rfl⟩, ⟨[], rfl⟩⟩
  | cons e es ih =>
    simp only [acceptAll] at h
    split at h
    · rename_i st1 h1
      obtain ⟨⟨l1, e1⟩, ⟨m1, f1⟩⟩ := accept_run h1
      obtain ⟨⟨l2, e2⟩, ⟨m2, f2⟩⟩ := ih h
      exact ⟨⟨l1 ++ l2, by rw [e2, e1, run_append]⟩, ⟨m1 ++ m2, by rw [f2, f1, mrun_append]⟩⟩
    · cases h

theorem init_run (n : Nat) : (init n).sys = run {} (List.replicate n .spawn) := by
  have : ∀ (n : Nat) (s : Sys), run s (List.replicate n .spawn) =
      { s with ags := s.ags ++ List.replicate n .idle } := by
    intro n
    induction n with
    | zero => intro s; simp [run]
    | succ k ih =>
      intro s
      simp only [List.replicate_succ, run, List.foldl_cons] at ih ⊢
      rw [ih]
      simp [step, List.append_assoc]
  rw [this]
  simp [init]

theorem accepted_reachable {n : Nat} {tr : List TEv} {st' : St}
    (h : acceptAll (init n) tr = .ok st') :
    (∃ l, st'.sys = run {} l) ∧
    (∃ l, st'.mx = ALock.Atomic.Mutex.run ALock.Atomic.Mutex.ords {} l) := by
  obtain ⟨⟨l, e⟩, ⟨m, f⟩⟩ := acceptAll_run h
  refine ⟨⟨List.replicate n .spawn ++ l, by rw [e, init_run, run_append]⟩,
    ⟨List.replicate n .spawn ++ m, ?_⟩⟩
  rw [f, mrun_append]
  congr 1
  exact Mutex.init_run n

end RwLock

namespace Once
open ALock.Atomic.Once

theorem run_append (o : Ords) (s : Sys) (l1 l2 : List Step) : run o s (l1 ++ l2) = run o (run o s l1) l2 := by
  simp [run, List.foldl_append]

theorem accept_run {st st' : St} {e : TEv} (h : accept st e = .ok st') :
    ∃ l, st'.sys = run ords st.sys l := by
  cases e with
  | beg i c => simp only [accept, Except.ok.injEq] at h; subst h; exact ⟨[], rfl⟩
  | atom i x =>
    simp only [accept] at h
    obtain ⟨l, _, h2⟩ := bind_ok h
    simp only [pure, Except.pure, Except.ok.injEq] at h2
    subst h2
    exact ⟨l, rfl⟩
  | ret i r =>
    simp only [accept] at h
    obtain ⟨l, _, h2⟩ := bind_ok h
    simp only [pure, Except.pure, Except.ok.injEq] at h2
    subst h2
    exact ⟨l, rfl⟩

theorem acceptAll_run {st st' : St} {tr : List TEv} (h : acceptAll st tr = .ok st') :
    ∃ l, st'.sys = run ords st.sys l := by
  induction tr generalizing st with
  | nil => simp only [acceptAll, Except.ok.injEq] at h; subst h; exact ⟨[], rfl⟩
  | cons e es ih =>
    simp only [acceptAll] at h
    split at h
    · rename_i st1 h1
      obtain ⟨l1, e1⟩ := accept_run h1
      obtain ⟨l2, e2⟩ := ih h
      exact ⟨l1 ++ l2, by rw [e2, e1, run_append]⟩
    · cases h

theorem init_run (n : Nat) : (init n).sys = run ords {} (List.replicate n .spawn) := by
  have : ∀ (n : Nat) (s : Sys), run ords s (List.replicate n .spawn) =
      { s with ags := s.ags ++ List.replicate n {} } := by
    intro n
    induction n with
    | zero => intro s; simp [run]
    | succ k ih =>
      intro s
      simp only [List.replicate_succ, run, List.foldl_cons] at ih ⊢
      rw [ih]
      simp [step, List.append_assoc]
  rw [this]
  simp [init]

theorem accepted_reachable {n : Nat} {tr : List TEv} {st' : St}
    (h : acceptAll (init n) tr = .ok st') : ∃ l, st'.sys = run ords {} l := by
  obtain ⟨l, e⟩ := acceptAll_run h
  exact ⟨List.replicate n .spawn ++ l, by rw [e, init_run, run_append]⟩

end Once

end ALock.Accept
