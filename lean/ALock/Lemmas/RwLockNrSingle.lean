import ALock.Lemmas.RwLockReg
import ALock.Lemmas.RwLockWord

/-! At most one future is registered on `no_readers` in any reachable state (from `WordInv.slot` and `RegInv`). -/
namespace ALock.RwLock

theorem two_le_sum {α : Type} (l : List α) (g : α → Nat) (x y : α) (hx : x ∈ l) (hy : y ∈ l)
    (hne : x ≠ y) : g x + g y ≤ (l.map g).sum := by
  induction l with
  | nil => cases hx
  | cons a t ih =>
    simp only [List.map_cons, List.sum_cons]
    rcases List.mem_cons.mp hx with rfl | hxt <;> rcases List.mem_cons.mp hy with rfl | hyt
    · exact absurd rfl hne
    · have := le_sum_of_mem t g y hyt; omega
    · have := le_sum_of_mem t g x hxt; omega
    · have := ih hxt hyt; omega

/-- in every reachable state at most one future is registered on `no_readers` -/
theorem nr_single (ops : List Op) (f : Nat) (hh : Ev.has (run {} ops).nr f = true) :
    Ev.erase (run {} ops).nr f = [] := by
  have hw := reachable_word ops
  have hr := reachable_reg ops
  generalize run {} ops = s at *
  refine List.filter_eq_nil_iff.mpr ?_
  intro e he
  simp only [bne_iff_ne, ne_eq, Decidable.not_not]
  refine Classical.byContradiction fun hne => ?_
  obtain ⟨x, hx, hxid⟩ := hr.nrrev f hh
  obtain ⟨y, hy, hyid⟩ := hr.nrrev e.owner (Ev.has_iff.mpr ⟨e, he, rfl⟩)
  have hxo := hr.nrreg x hx
  have hyo := hr.nrreg y hy
  rw [hxid, hh] at hxo
  rw [hyid, Ev.has_iff.mpr ⟨e, he, rfl⟩] at hyo
  have hxy : x ≠ y := by intro h; subst h; exact hne (hyid.symm.trans hxid)
  have h2 := two_le_sum s.futs (fun z => ind z.isPW + ind z.isPU) x y hx hy hxy
  have hsum : (s.futs.map fun z => ind z.isPW + ind z.isPU).sum = nPW s + nPU s := by
    unfold nPW nPU
    induction s.futs with
    | nil => rfl
    | cons a t ih => simp only [List.map_cons, List.sum_cons] at ih ⊢; omega
  have hslot := hw.slot
  unfold owners at hslot
  have hx1 : 1 ≤ ind x.isPW + ind x.isPU := by
    have h : x.onNr = true := hxo.symm
    simp only [Fut.onNr, Bool.or_eq_true, Bool.and_eq_true] at h
    rcases h with h | h
    · simp [ind, h]
    · simp [ind, h.1]
  have hy1 : 1 ≤ ind y.isPW + ind y.isPU := by
    have h : y.onNr = true := hyo.symm
    simp only [Fut.onNr, Bool.or_eq_true, Bool.and_eq_true] at h
    rcases h with h | h
    · simp [ind, h]
    · simp [ind, h.1]
  omega
end ALock.RwLock
