import ALock.Lemmas.MutexWoken

/-!
# The same as `MutexWoken`, with a context queue `r` sharing the wake-up list

Used for the RwLock, whose inner mutex's `lock_ops` shares `woken` with `no_readers` and `no_writer`.
-/

namespace ALock

def CWr (r : List Entry) (c : Core) : Prop := WOK (c.q ++ r) c.woken

structure PWr (r : List Entry) (f : Nat) (c : Core) : Prop where
  cw : CWr r c
  nw : f ∉ c.woken
  nt : NoTask f c.q
  hr : Ev.has r f = false

theorem PWr.notify {r : List Entry} {f : Nat} {c : Core} (h : PWr r f c) (n : Nat) : PWr r f (c.notify n) := by
  refine ⟨WOK.notify_ctx h.cw false n, ?_, noTask_notifyQ h.nt _ _, h.hr⟩
  intro hm
  simp only [Core.notify, List.mem_append] at hm
  rcases hm with hm | hm
  · obtain ⟨e, he, h1, h2⟩ := notifyO_task hm
    have := h.nt e he h1
    rw [this] at h2; cases h2
  · exact h.nw hm

theorem PWr.consume {r : List Entry} {f : Nat} {c : Core} (h : PWr r f c) : PWr r f (c.consume f) := by
  refine ⟨?_, h.nw, noTask_erase f c.q, h.hr⟩
  have := WOK.erase_ctx h.cw f
  rwa [filter_ne_self h.nw] at this

theorem PWr.starve {r : List Entry} {f : Nat} {c : Core} (h : PWr r f c) : PWr r f c.starve :=
  ⟨h.cw, h.nw, h.nt, h.hr⟩

theorem PWr.setSt {r : List Entry} {f : Nat} {c : Core} (h : PWr r f c) (x : Nat) :
    PWr r f { c with st := x } := ⟨h.cw, h.nw, h.nt, h.hr⟩

theorem PWr.listen {r : List Entry} {f : Nat} {c : Core} (h : PWr r f c) (hh : Ev.has c.q f = false) :
    PWr r f (c.listen f) := by
  refine ⟨WOK.listen_ctx h.cw f (by rw [has_append, hh, h.hr]; rfl), h.nw, ?_, h.hr⟩
  intro e he ho
  simp only [Core.listen, Ev.listen, List.mem_append, List.mem_singleton] at he
  rcases he with he | rfl
  · exact h.nt e he ho
  · rfl

theorem CWr.setTask {r : List Entry} {c : Core} (h : CWr r c) (f t : Nat) : CWr r (c.setTask f t) :=
  WOK.setTask_ctx h f t

/-- what is known when a poll of `f` is over -/
def QW (r : List Entry) (f : Nat) (c : Core) : Prop := CWr r c ∧ f ∉ c.woken

theorem PWr.fin {r : List Entry} {f : Nat} {c : Core} (h : PWr r f c) : QW r f c := ⟨h.cw, h.nw⟩
theorem PWr.finTask {r : List Entry} {f : Nat} {c : Core} (h : PWr r f c) (t : Nat) :
    QW r f (c.setTask f t) := ⟨h.cw.setTask f t, h.nw⟩

theorem lockPoll_qw (r : List Entry) (c : Core) (l : LockSt) (f t : Nat) (fire : Bool) (h : CWr r c)
    (hnw : f ∉ c.woken) (hr : Ev.has r f = false)
    (hreg : Ev.has c.q f = l.waiting) (hd : l.done = false) :
    QW r f (lockPoll c l f t fire).c := by
  have hwait : l.waiting = l.slow := by simp [LockSt.waiting, hd]
  unfold lockPoll
  split
  · rename_i hs
    have hh : Ev.has c.q f = false := by rw [hreg, hwait]; simpa using hs
    have hnt : NoTask f c.q := by
      intro e he ho
      have : Ev.has c.q f = true := by
        simp only [Ev.has, List.any_eq_true, beq_iff_eq]; exact ⟨e, he, ho⟩
      rw [hh] at this; cases this
    have hp : PWr r f c := ⟨h, hnw, hnt, hr⟩
    split
    · exact (hp.setSt 1).fin
    · split
      · exact (hp.listen hh).finTask t
      · exact ((hp.listen hh).starve).finTask t
  · split
    · exact ⟨h.setTask f t, hnw⟩
    · have hp0 : PWr r f (c.consume f) := by
        refine ⟨?_, hnw, noTask_erase f c.q, hr⟩
        have := WOK.erase_ctx h f
        rwa [filter_ne_self hnw] at this
      have hh0 : Ev.has (c.consume f).q f = false := Ev.has_erase_self c.q f
      split
      · split
        · exact (hp0.setSt 1).fin
        · split
          · split
            · exact ((hp0.starve).listen hh0).finTask t
            · exact (hp0.listen hh0).finTask t
          · have hp1 : PWr r f ((((c.consume f).notify 1).starve).listen f) := by
              refine ((hp0.notify 1).starve).listen ?_
              show Ev.has ((c.consume f).notify 1).q f = false
              rw [has_notify']; exact hh0
            simp only []
            split
            · exact hp1.finTask t
            · split
              · exact ((hp1.notify 1).consume.setSt _).fin
              · exact (hp1.notify 1).finTask t
      · split
        · exact (hp0.setSt _).fin
        · exact (hp0.listen hh0).finTask t

theorem lockPoll_cwr (r : List Entry) (c : Core) (l : LockSt) (f t : Nat) (fire : Bool) (h : CWr r c)
    (hnw : f ∉ c.woken) (hr : Ev.has r f = false)
    (hreg : Ev.has c.q f = l.waiting) (hd : l.done = false) :
    CWr r (lockPoll c l f t fire).c := (lockPoll_qw r c l f t fire h hnw hr hreg hd).1

theorem lockPoll_ready_done (c : Core) (l : LockSt) (f t : Nat) (fire : Bool)
    (hrd : (lockPoll c l f t fire).ready = true) : (lockPoll c l f t fire).l.done = true := by
  unfold lockPoll at hrd ⊢
  simp only [] at hrd ⊢
  (repeat' split) <;> simp_all

/-- a lock operation that has just completed owns no listener -/
theorem lockPoll_ready_has (c : Core) (l : LockSt) (f t : Nat) (fire : Bool)
    (hreg : Ev.has c.q f = l.waiting) (hd : l.done = false) (hs : l.starved = true → l.slow = true)
    (hrd : (lockPoll c l f t fire).ready = true) : Ev.has (lockPoll c l f t fire).c.q f = false := by
  have h1 := lockPoll_has_self c l f t fire hd hs hreg
  have h2 := lockPoll_ready_done c l f t fire hrd
  simp only [] at h1
  rw [h1]
  simp [LockSt.waiting, h2]

theorem lockDrop_cwr (r : List Entry) (c : Core) (l : LockSt) (f : Nat) (h : CWr r c) (hnw : f ∉ c.woken) :
    CWr r (lockDrop c l f) := by
  unfold lockDrop
  have key : ∀ c' : Core, c'.q = c.q → c'.woken = c.woken → CWr r (c'.dropListener f) := by
    intro c' hq hw
    have := WOK.drop_ctx h f
    rw [filter_ne_self hnw] at this
    simpa [CWr, Core.dropListener, hq, hw] using this
  split
  · exact key _ rfl rfl
  · exact key _ rfl rfl

theorem unlock_cwr (r : List Entry) (c : Core) (h : CWr r c) : CWr r c.unlock := by
  unfold Core.unlock
  exact WOK.notify_ctx (q := c.q) (w := c.woken) h false 1

end ALock
