import ALock.Lemmas.Mutex
import ALock.Lemmas.EventWoken

/-!
# Mutex core: outstanding wake-ups never outnumber the registered lock operations

`CW c := WOK c.q c.woken` is preserved by `lockPoll`, `lockDrop` and `unlock`.  Inside a poll of
future `f` the bookkeeping `PW f c` is carried along: `f` has no outstanding wake-up (it was just
polled) and `f`'s own fresh listener carries no waker yet, so a notification that reaches it in
the same poll (branch 9 of `lockPoll`) does not count as a wake-up.
-/

namespace ALock

def CW (c : Core) : Prop := WOK c.q c.woken

theorem filter_ne_self {w : List Nat} {f : Nat} (h : f ∉ w) : w.filter (· != f) = w := by
  apply List.filter_eq_self.mpr
  intro a ha
  simp only [bne_iff_ne, ne_eq]
  intro hh
  subst hh
  exact h ha

/-- no entry of `f` carries a waker -/
def NoTask (f : Nat) (q : List Entry) : Prop := ∀ e ∈ q, e.owner = f → e.task = none

structure PW (f : Nat) (c : Core) : Prop where
  cw : CW c
  nw : f ∉ c.woken
  nt : NoTask f c.q

theorem notifyO_task {n : Nat} {q : List Entry} {g : Nat} (h : g ∈ notifyO n q) :
    ∃ e ∈ q, e.owner = g ∧ e.task.isSome = true := by
  fun_induction notifyO n q with
  | case1 q => cases h
  | case2 n hn => cases h
  | case3 n e q hen ih =>
    obtain ⟨x, hx, h1, h2⟩ := ih h
    exact ⟨x, List.mem_cons_of_mem _ hx, h1, h2⟩
  | case4 n e q hen ht ih =>
    simp only [List.mem_cons] at h
    rcases h with rfl | h
    · exact ⟨e, by simp, rfl, ht⟩
    · obtain ⟨x, hx, h1, h2⟩ := ih h
      exact ⟨x, List.mem_cons_of_mem _ hx, h1, h2⟩
  | case5 n e q hen ht ih =>
    obtain ⟨x, hx, h1, h2⟩ := ih h
    exact ⟨x, List.mem_cons_of_mem _ hx, h1, h2⟩

theorem noTask_notifyQ {f : Nat} {q : List Entry} (h : NoTask f q) (add : Bool) (n : Nat) :
    NoTask f (notifyQ add n q) := by
  fun_induction notifyQ add n q with
  | case1 q => exact h
  | case2 n hn => exact h
  | case3 n e q hen ih =>
    intro x hx hxo
    simp only [List.mem_cons] at hx
    rcases hx with rfl | hx
    · exact h _ (by simp) hxo
    · exact ih (fun y hy => h y (List.mem_cons_of_mem _ hy)) x hx hxo
  | case4 n e q hen ih =>
    intro x hx hxo
    simp only [List.mem_cons] at hx
    rcases hx with rfl | hx
    · exact h e (by simp) hxo
    · exact ih (fun y hy => h y (List.mem_cons_of_mem _ hy)) x hx hxo

theorem noTask_erase (f : Nat) (q : List Entry) : NoTask f (Ev.erase q f) := by
  intro e he ho
  simp only [Ev.erase, List.mem_filter, bne_iff_ne, ne_eq] at he
  exact absurd ho he.2

theorem PW.notify {f : Nat} {c : Core} (h : PW f c) (n : Nat) : PW f (c.notify n) := by
  refine ⟨h.cw.notify false n, ?_, noTask_notifyQ h.nt _ _⟩
  intro hm
  simp only [Core.notify, List.mem_append] at hm
  rcases hm with hm | hm
  · obtain ⟨e, he, h1, h2⟩ := notifyO_task hm
    have := h.nt e he h1
    rw [this] at h2; cases h2
  · exact h.nw hm

theorem PW.consume {f : Nat} {c : Core} (h : PW f c) : PW f (c.consume f) := by
  refine ⟨?_, h.nw, noTask_erase f c.q⟩
  have := h.cw.erase f
  rwa [filter_ne_self h.nw] at this

theorem PW.starve {f : Nat} {c : Core} (h : PW f c) : PW f c.starve := ⟨h.cw, h.nw, h.nt⟩

theorem PW.setSt {f : Nat} {c : Core} (h : PW f c) (x : Nat) : PW f { c with st := x } :=
  ⟨h.cw, h.nw, h.nt⟩

theorem PW.listen {f : Nat} {c : Core} (h : PW f c) (hh : Ev.has c.q f = false) : PW f (c.listen f) := by
  refine ⟨h.cw.listen f hh, h.nw, ?_⟩
  intro e he ho
  simp only [Core.listen, Ev.listen, List.mem_append, List.mem_singleton] at he
  rcases he with he | rfl
  · exact h.nt e he ho
  · rfl

theorem CW.setTask {c : Core} (h : CW c) (f t : Nat) : CW (c.setTask f t) := WOK.setTask h f t

/-- entering the poll of `f`: its outstanding wake-up is served -/
theorem CW.polled {c : Core} (h : CW c) (f : Nat) : CW (c.polled f) ∧ f ∉ (c.polled f).woken := by
  refine ⟨h.weaken List.filter_sublist, ?_⟩
  simp [Core.polled]

theorem has_notify' (c : Core) (n : Nat) (f : Nat) : Ev.has (c.notify n).q f = Ev.has c.q f := by
  simp only [Core.notify]; exact Ev.has_notify ..

/-- **one poll of a lock operation preserves `CW`** — `c` is the core after `polled f`; `hreg`: the
future is registered exactly while it is waiting; a registered future's listener is the only entry
it owns, and if the future is not notified the entry is kept as it is -/
theorem lockPoll_cw (c : Core) (l : LockSt) (f t : Nat) (fire : Bool) (h : CW c) (hnw : f ∉ c.woken)
    (hreg : Ev.has c.q f = l.waiting) (hd : l.done = false) :
    CW (lockPoll c l f t fire).c := by
  have hwait : l.waiting = l.slow := by simp [LockSt.waiting, hd]
  unfold lockPoll
  split
  · -- first poll: not registered
    rename_i hs
    have hh : Ev.has c.q f = false := by rw [hreg, hwait]; simpa using hs
    have hp : PW f c := ⟨h, hnw, fun e he ho => by
      have : Ev.has c.q f = true := by
        simp only [Ev.has, List.any_eq_true, beq_iff_eq]; exact ⟨e, he, ho⟩
      rw [hh] at this; cases this⟩
    split
    · exact h
    · split
      · exact (hp.listen hh).cw.setTask f t
      · exact ((hp.listen hh).starve).cw.setTask f t
  · split
    · exact h.setTask f t
    · -- notified: the listener is consumed first
      have hp0 : PW f (c.consume f) := by
        refine ⟨?_, hnw, noTask_erase f c.q⟩
        have := WOK.erase h f
        rwa [filter_ne_self hnw] at this
      have hh0 : Ev.has (c.consume f).q f = false := Ev.has_erase_self c.q f
      split
      · split
        · exact (hp0.setSt 1).cw
        · split
          · split
            · exact ((hp0.starve).listen hh0).cw.setTask f t
            · exact (hp0.listen hh0).cw.setTask f t
          · -- pass the notification on, starve, listen
            have hp1 : PW f ((((c.consume f).notify 1).starve).listen f) := by
              refine ((hp0.notify 1).starve).listen ?_
              show Ev.has ((c.consume f).notify 1).q f = false
              rw [has_notify']; exact hh0
            simp only []
            split
            · exact hp1.cw.setTask f t
            · split
              · exact ((hp1.notify 1).consume.setSt _).cw
              · exact (hp1.notify 1).cw.setTask f t
      · split
        · exact (hp0.setSt _).cw
        · exact (hp0.listen hh0).cw.setTask f t

theorem lockDrop_cw (c : Core) (l : LockSt) (f : Nat) (h : CW c) (hnw : f ∉ c.woken) :
    CW (lockDrop c l f) := by
  unfold lockDrop
  have key : ∀ c' : Core, c'.q = c.q → c'.woken = c.woken → CW (c'.dropListener f) := by
    intro c' hq hw
    have := WOK.drop h f
    rw [filter_ne_self hnw] at this
    simpa [CW, Core.dropListener, hq, hw] using this
  split
  · exact key _ rfl rfl
  · exact key _ rfl rfl

theorem unlock_cw (c : Core) (h : CW c) : CW c.unlock := by
  unfold Core.unlock
  exact WOK.notify (q := c.q) (w := c.woken) h false 1

end ALock

namespace ALock.Mutex

theorem step_cw (s : Sys) (op : Op) (hi : MInv s) (h : CW s.c) : CW (next s op).c := by
  unfold next
  cases op with
  | start f arc => simp only [step]; split <;> exact h
  | poll f t fire =>
    simp only [step]
    cases hf : findFut s f with
    | none => exact h
    | some fu =>
      simp only []
      obtain ⟨hm, hid⟩ := findFut_mem hf
      split
      · exact h
      · rename_i hd
        obtain ⟨hc, hnw⟩ := h.polled f
        have hreg : Ev.has (s.c.polled f).q f = fu.l.waiting := by
          rw [Core.polled_q, ← hid]; exact hi.reg fu hm
        have := lockPoll_cw (s.c.polled f) fu.l f t fire hc hnw hreg (by simpa using hd)
        split <;> exact this
  | dropFut f =>
    simp only [step]
    cases hf : findFut s f with
    | none => exact h
    | some fu =>
      obtain ⟨hc, hnw⟩ := h.polled f
      exact lockDrop_cw (s.c.polled f) fu.l f hc hnw
  | tryLock g arc =>
    simp only [step]; split
    · split
      · exact h
      · exact h
    · exact h
  | dropGuard g =>
    simp only [step]
    cases hg : findGuard s g with
    | none => exact h
    | some gu => exact unlock_cw s.c h
  | hclone => simp only [step]; split <;> exact h
  | hdrop => simp only [step]; split <;> exact h

theorem run_cw (s : Sys) (ops : List Op) (hi : MInv s) (h : CW s.c) : CW (run s ops).c := by
  induction ops generalizing s with
  | nil => exact h
  | cons op ops ih => exact ih _ (step_inv s op hi) (step_cw s op hi h)

theorem reachable_cw (ops : List Op) : CW (run {} ops).c :=
  run_cw _ ops init_inv ⟨by simp [ownerIds], by simp, by simp⟩

/-- **outstanding wake-ups never outnumber the pending lock operations** -/
theorem woken_le (ops : List Op) :
    (run {} ops).c.woken.length ≤ (pendingPolled (run {} ops)).length := by
  have hi := reachable_inv ops
  have hc := reachable_cw ops
  refine Nat.le_trans hc.length_le ?_
  have := nodup_subset_length (ownerIds (run {} ops).c.q) ((pendingPolled (run {} ops)).map (·.id)) hc.nq (by
    intro g hg
    have hh : Ev.has (run {} ops).c.q g = true := by
      obtain ⟨e, he, heo⟩ := List.mem_map.mp hg
      simp only [Ev.has, List.any_eq_true, beq_iff_eq]; exact ⟨e, he, heo⟩
    obtain ⟨fu, hfu, hid⟩ := hi.regRev g hh
    have hw : fu.l.waiting = true := by rw [← hi.reg fu hfu, hid]; exact hh
    simp only [LockSt.waiting, Bool.and_eq_true, Bool.not_eq_true'] at hw
    refine List.mem_map.mpr ⟨fu, ?_, hid⟩
    simp [pendingPolled, hfu, (hi.flags fu hfu).slowPolled hw.1, hw.2])
  simpa [ownerIds] using this

end ALock.Mutex
