import ALock.AtomTraceMore
import ALock.Lemmas.AtomTrace

/-!
# The Semaphore step's new count is the result of its atomic operations

`Sem.stepAtoms` lists the atomic operations on the `count` word that one model step performs (and
the differential check compares that list with what the real crate executed).  Here: replaying the
list on the old count is *consistent* (every operation sees the value its predecessor left; a CAS
succeeds exactly when the word holds the expected value) and ends in the model's new count.  So the
count arithmetic of `Sem.step` is not an independent assumption of the model: it is what the
recorded `load` / `compare_exchange_weak` / `fetch_add` sequence computes.
-/

namespace ALock.Sem

@[simp] theorem doNotify_count (s : Sys) (n : Nat) : (s.doNotify n).count = s.count := rfl
@[simp] theorem dropListener_count (s : Sys) (f : Nat) : (s.dropListener f).count = s.count := rfl

@[simp] theorem loadA_ok (c : Nat) : (loadA c).okOn c = true := by simp [loadA, Atom.okOn]
@[simp] theorem loadA_apply (c st : Nat) : (loadA c).apply st = st := by simp [loadA, Atom.apply]
@[simp] theorem caswA_ok (c : Nat) : (caswA c).okOn c = true := by simp [caswA, Atom.okOn]
@[simp] theorem caswA_apply (c st : Nat) : (caswA c).apply st = c - 1 := by
  simp only [caswA, Atom.apply]; omega
@[simp] theorem faddA_ok (n c : Nat) : (faddA n c).okOn c = true := by simp [faddA, Atom.okOn]
@[simp] theorem faddA_apply (n c st : Nat) : (faddA n c).apply st = st + n := by
  simp [faddA, Atom.apply]

theorem tryAtoms_word (c : Nat) :
    Atom.consistent c (tryAtoms c) = true ∧
    Atom.run c (tryAtoms c) = if 0 < c then c - 1 else c := by
  unfold tryAtoms
  split
  · simp [Atom.consistent, Atom.run]
  · have : c = 0 := by omega
    subst this
    simp [Atom.consistent, Atom.run]

theorem poll_count (s : Sys) (fu : Fut) (t : Nat) :
    (poll s fu t).1.count = if 0 < s.count then s.count - 1 else s.count := by
  unfold poll
  simp only
  split
  · rfl
  · split
    · split <;> rfl
    · rfl

/-- **the step's new count is the result of its atomic operations** -/
theorem step_atoms_word (s : Sys) (op : Op) :
    Atom.consistent s.count (stepAtoms s op) = true ∧
    Atom.run s.count (stepAtoms s op) = (next s op).count := by
  cases op with
  | poll f t =>
    simp only [stepAtoms, next, step]
    cases hf : findFut s f with
    | none => simp [Atom.consistent, Atom.run]
    | some fu =>
      simp only
      by_cases hd : fu.done = true
      · simp [hd, Atom.consistent, Atom.run]
      · simp only [hd, Bool.false_eq_true, if_false, poll_count]
        by_cases hc : 0 < s.count
        · simp only [hc, if_true]
          have := tryAtoms_word s.count
          simpa [hc] using this
        · have h0 : s.count = 0 := by omega
          simp only [hc, if_false]
          rw [h0]
          (repeat' split) <;> simp [Atom.consistent, Atom.run]
  | tryAcq g arc =>
    simp only [stepAtoms, next, step]
    by_cases hfr : fresh s g = true
    · simp only [hfr, if_true]
      have := tryAtoms_word s.count
      by_cases hc : 0 < s.count
      · simpa [hc] using this
      · simpa [hc] using this
    · simp [hfr, Atom.consistent, Atom.run]
  | dropGuard g =>
    simp only [stepAtoms, next, step]
    cases findGuard s g <;> simp [Atom.consistent, Atom.run]
  | add n => simp [stepAtoms, next, step, Atom.consistent, Atom.run]
  | start f arc =>
    simp only [stepAtoms, next, step]
    split <;> simp [Atom.consistent, Atom.run]
  | dropFut f =>
    simp only [stepAtoms, next, step]
    cases findFut s f <;> simp [Atom.consistent, Atom.run]
  | forget g =>
    simp only [stepAtoms, next, step]
    cases findGuard s g <;> simp [Atom.consistent, Atom.run]
  | hclone => simp [stepAtoms, next, step, Atom.consistent, Atom.run]
  | hdrop =>
    simp only [stepAtoms, next, step]
    split <;> simp [Atom.consistent, Atom.run]


end ALock.Sem

namespace ALock

theorem Atom.run_append (st : Nat) (xs ys : List Atom) :
    Atom.run st (xs ++ ys) = Atom.run (Atom.run st xs) ys := by
  induction xs generalizing st with
  | nil => rfl
  | cons x xs ih => simp [Atom.run, ih]

theorem Atom.consistent_append (st : Nat) (xs ys : List Atom) :
    Atom.consistent st (xs ++ ys) =
      (Atom.consistent st xs && Atom.consistent (Atom.run st xs) ys) := by
  induction xs generalizing st with
  | nil => simp [Atom.consistent, Atom.run]
  | cons x xs ih => simp [Atom.consistent, Atom.run, ih, Bool.and_assoc]

end ALock

namespace ALock.Sem

/-- all atomic operations of a history, in order -/
def runAtoms (s : Sys) : List Op → List Atom
  | [] => []
  | op :: ops => stepAtoms s op ++ runAtoms (next s op) ops

/-- **every history**: the count after any sequence of operations is what the concatenation of
their atomic operations computes from the initial count, every operation seeing the value its
predecessor left. -/
theorem run_atoms_word (s : Sys) (ops : List Op) :
    Atom.consistent s.count (runAtoms s ops) = true ∧
    Atom.run s.count (runAtoms s ops) = (run s ops).count := by
  induction ops generalizing s with
  | nil => simp [runAtoms, run, Atom.consistent, Atom.run]
  | cons op ops ih =>
    obtain ⟨h1, h2⟩ := step_atoms_word s op
    obtain ⟨h3, h4⟩ := ih (next s op)
    simp only [runAtoms, Atom.consistent_append, Atom.run_append, h1, h2, h3, h4, run,
      List.foldl_cons, Bool.and_self, true_and]

/-- the harness's `settle` is a particular history -/
theorem settle_atoms_word (s : Sys) (fuel p : Nat) :
    Atom.consistent s.count (settleAtoms s fuel) = true ∧
    Atom.run s.count (settleAtoms s fuel) = (settleLoop s fuel p).1.count := by
  induction fuel generalizing s p with
  | zero => simp [settleAtoms, settleLoop, Atom.consistent, Atom.run]
  | succ n ih =>
    simp only [settleAtoms, settleLoop]
    cases minOf s.woken with
    | none => simp [Atom.consistent, Atom.run]
    | some f =>
      simp only
      obtain ⟨h1, h2⟩ := step_atoms_word s (.poll f (lastWaker s f))
      obtain ⟨h3, h4⟩ := ih (next s (.poll f (lastWaker s f))) (p + 1)
      simp only [Atom.consistent_append, Atom.run_append, h1, h2, h3, h4, Bool.and_self, true_and]

end ALock.Sem
