import ALock.Lemmas.RwLockReg
import ALock.Lemmas.MutexWokenCtx

/-!
# RwLock: outstanding wake-ups never outnumber the registered listeners, nor the pending futures

The three events (`lock_ops` of the inner mutex, `no_readers`, `no_writer`) share one wake-up list:
`W3 s := WOK (s.m.q ++ (s.nr ++ s.nw)) s.m.woken`.
-/

set_option linter.unusedSimpArgs false
set_option linter.unusedVariables false

namespace ALock.RwLock

/-- the invariant on the raw components -/
def W (q nr nw : List Entry) (w : List Nat) : Prop := WOK (q ++ (nr ++ nw)) w

def W3 (s : Sys) : Prop := W s.m.q s.nr s.nw s.m.woken

theorem W.toNr {q nr nw : List Entry} {w : List Nat} (h : W q nr nw w) : WOK (nr ++ (nw ++ q)) w := by
  have := WOK.comm (q := q) (r := nr ++ nw) h
  simpa [List.append_assoc] using this

theorem W.ofNr {q nr nw : List Entry} {w : List Nat} (h : WOK (nr ++ (nw ++ q)) w) : W q nr nw w := by
  have : WOK ((nr ++ nw) ++ q) w := by simpa [List.append_assoc] using h
  exact WOK.comm this

theorem W.toNw {q nr nw : List Entry} {w : List Nat} (h : W q nr nw w) : WOK (nw ++ (q ++ nr)) w := by
  have : WOK ((q ++ nr) ++ nw) w := by simpa [W, List.append_assoc] using h
  exact WOK.comm this

theorem W.ofNw {q nr nw : List Entry} {w : List Nat} (h : WOK (nw ++ (q ++ nr)) w) : W q nr nw w := by
  have := WOK.comm (q := nw) (r := q ++ nr) h
  simpa [W, List.append_assoc] using this

theorem W.nr_notify {q nr nw : List Entry} {w : List Nat} (h : W q nr nw w) (n : Nat) :
    W q (Ev.notify false n nr) nw (Ev.notifyOwners false n nr ++ w) :=
  W.ofNr (WOK.notify_ctx h.toNr false n)

theorem W.nw_notify {q nr nw : List Entry} {w : List Nat} (h : W q nr nw w) (n : Nat) :
    W q nr (Ev.notify false n nw) (Ev.notifyOwners false n nw ++ w) :=
  W.ofNw (WOK.notify_ctx h.toNw false n)

theorem W.nr_drop {q nr nw : List Entry} {w : List Nat} (h : W q nr nw w) (f : Nat) (hf : f ∉ w) :
    W q (Ev.drop nr f) nw (Ev.dropOwners nr f ++ w) := by
  have := WOK.drop_ctx h.toNr f
  rw [filter_ne_self hf] at this
  exact W.ofNr this

theorem W.nw_drop {q nr nw : List Entry} {w : List Nat} (h : W q nr nw w) (f : Nat) (hf : f ∉ w) :
    W q nr (Ev.drop nw f) (Ev.dropOwners nw f ++ w) := by
  have := WOK.drop_ctx h.toNw f
  rw [filter_ne_self hf] at this
  exact W.ofNw this

theorem W.nr_setTask {q nr nw : List Entry} {w : List Nat} (h : W q nr nw w) (f t : Nat) :
    W q (Ev.setTask nr f t) nw w := W.ofNr (WOK.setTask_ctx h.toNr f t)

theorem W.nw_setTask {q nr nw : List Entry} {w : List Nat} (h : W q nr nw w) (f t : Nat) :
    W q nr (Ev.setTask nw f t) w := W.ofNw (WOK.setTask_ctx h.toNw f t)

theorem W.nr_erase {q nr nw : List Entry} {w : List Nat} (h : W q nr nw w) (f : Nat) (hf : f ∉ w) :
    W q (Ev.erase nr f) nw w := by
  have := WOK.erase_ctx h.toNr f
  rw [filter_ne_self hf] at this
  exact W.ofNr this

theorem W.nw_erase {q nr nw : List Entry} {w : List Nat} (h : W q nr nw w) (f : Nat) (hf : f ∉ w) :
    W q nr (Ev.erase nw f) w := by
  have := WOK.erase_ctx h.toNw f
  rw [filter_ne_self hf] at this
  exact W.ofNw this

theorem W.nr_listen {q nr nw : List Entry} {w : List Nat} (h : W q nr nw w) (f : Nat)
    (h1 : Ev.has q f = false) (h2 : Ev.has nr f = false) (h3 : Ev.has nw f = false) :
    W q (Ev.listen nr f) nw w :=
  W.ofNr (WOK.listen_ctx h.toNr f (by rw [has_append, has_append, h1, h2, h3]; rfl))

theorem W.nw_listen {q nr nw : List Entry} {w : List Nat} (h : W q nr nw w) (f : Nat)
    (h1 : Ev.has q f = false) (h2 : Ev.has nr f = false) (h3 : Ev.has nw f = false) :
    W q nr (Ev.listen nw f) w :=
  W.ofNw (WOK.listen_ctx h.toNw f (by rw [has_append, has_append, h1, h2, h3]; rfl))

/-! ### the helpers of the model -/

theorem W3.congr {s s' : Sys} (h : W3 s) (a : s'.m.q = s.m.q) (b : s'.nr = s.nr) (c : s'.nw = s.nw)
    (d : s'.m.woken = s.m.woken) : W3 s' := by
  unfold W3 at *; rw [a, b, c, d]; exact h

theorem W3.notifyNr {s : Sys} (h : W3 s) : W3 s.notifyNr := W.nr_notify h 1
theorem W3.notifyNw {s : Sys} (h : W3 s) : W3 s.notifyNw := W.nw_notify h 1
theorem W3.dropNr {s : Sys} (h : W3 s) (f : Nat) (hf : f ∉ s.m.woken) : W3 (s.dropNr f) := W.nr_drop h f hf
theorem W3.dropNw {s : Sys} (h : W3 s) (f : Nat) (hf : f ∉ s.m.woken) : W3 (s.dropNw f) := W.nw_drop h f hf
theorem W3.unlockM {s : Sys} (h : W3 s) : W3 s.unlockM := unlock_cwr (s.nr ++ s.nw) s.m h

theorem W3.readUnlock {s : Sys} (h : W3 s) : W3 s.readUnlock := by
  unfold Sys.readUnlock
  split
  · exact W3.notifyNr (s := { s with state := s.state - 2 }) h
  · exact h

theorem W3.ureadUnlock {s : Sys} (h : W3 s) : W3 s.ureadUnlock := h.readUnlock.unlockM

theorem W3.writeUnlock {s : Sys} (h : W3 s) : W3 s.writeUnlock :=
  (W3.notifyNw (s := { s with state := s.state - s.state % 2 }) h).unlockM

/-- woken-membership through the helpers that only add ownerIds of *other* entries: `f` stays out if
it owns no entry in the notified queue -/
theorem not_mem_notifyOwners {q : List Entry} {f : Nat} (add : Bool) (n : Nat)
    (h : Ev.has q f = false) : f ∉ Ev.notifyOwners add n q := by
  intro hm
  obtain ⟨e, he, h1, _⟩ := notifyO_task hm
  have : Ev.has q f = true := by
    simp only [Ev.has, List.any_eq_true, beq_iff_eq]; exact ⟨e, he, h1⟩
  rw [h] at this; cases this

/-! ### the polls -/

/-- everything a poll of `fu` needs: the invariant, `fu` has no outstanding wake-up (its poll
started), and the registration facts -/
structure PollCtx (s : Sys) (fu : Fut) : Prop where
  w : W3 s
  nw : fu.id ∉ s.m.woken
  hm : Ev.has s.m.q fu.id = fu.l.waiting
  hnr : Ev.has s.nr fu.id = fu.onNr
  hnw : Ev.has s.nw fu.id = fu.onNw
  ok : FutOK fu

theorem pollRead_w3 (s : Sys) (fu : Fut) (t : Nat) (c : PollCtx s fu) (hk : fu.kind = .read) :
    W3 (pollRead s fu t).s := by
  have hl : fu.l = {} := c.ok.lockFree (Or.inl hk)
  have h1 : Ev.has s.m.q fu.id = false := by rw [c.hm, hl]; rfl
  have h2 : Ev.has s.nr fu.id = false := by rw [c.hnr]; simp [Fut.onNr, Fut.isPW, Fut.isPU, hk]
  unfold pollRead
  simp only []
  split
  · rename_i hh
    split
    · exact c.w
    · exact (W.nw_listen c.w fu.id h1 h2 (by simpa using hh)).nw_setTask fu.id t
  · split
    · exact W.nw_setTask c.w fu.id t
    · have he := W.nw_erase c.w fu.id c.nw
      split
      · exact W3.notifyNw (s := { s with nw := Ev.erase s.nw fu.id }) he
      · exact (W.nw_listen he fu.id h1 h2 (Ev.has_erase_self _ _)).nw_setTask fu.id t

theorem pollWaitReaders_w3 (s : Sys) (fu : Fut) (t base : Nat) (hw : W3 s) (hn : fu.id ∉ s.m.woken)
    (h1 : Ev.has s.m.q fu.id = false) (h3 : Ev.has s.nw fu.id = false) :
    W3 (pollWaitReaders s fu t base).s := by
  unfold pollWaitReaders
  simp only []
  split
  · exact hw.dropNr fu.id hn
  · split
    · exact W.nr_setTask hw fu.id t
    · have he := W.nr_erase hw fu.id hn
      exact (W.nr_listen he fu.id h1 (Ev.has_erase_self _ _) h3).nr_setTask fu.id t

theorem pollUpgrade_w3 (s : Sys) (fu : Fut) (t : Nat) (c : PollCtx s fu) (hk : fu.kind = .upgrade) :
    W3 (pollUpgrade s fu t).s := by
  have hl : fu.l = {} := c.ok.lockFree (Or.inr hk)
  have h1 : Ev.has s.m.q fu.id = false := by rw [c.hm, hl]; rfl
  have h3 : Ev.has s.nw fu.id = false := by rw [c.hnw]; simp [Fut.onNw, hk]
  unfold pollUpgrade
  simp only []
  split
  · exact c.w.dropNr fu.id c.nw
  · split
    · rename_i hh
      exact (W.nr_listen c.w fu.id h1 (by simpa using hh) h3).nr_setTask fu.id t
    · split
      · exact W.nr_setTask c.w fu.id t
      · have he := W.nr_erase c.w fu.id c.nw
        exact (W.nr_listen he fu.id h1 (Ev.has_erase_self _ _) h3).nr_setTask fu.id t

/-- the inner lock poll in the context of the other two events -/
theorem lockPoll_w3 (s : Sys) (fu : Fut) (t : Nat) (fire : Bool) (c : PollCtx s fu)
    (h2 : Ev.has s.nr fu.id = false) (h3 : Ev.has s.nw fu.id = false) (hd : fu.l.done = false) :
    W (lockPoll s.m fu.l fu.id t fire).c.q s.nr s.nw (lockPoll s.m fu.l fu.id t fire).c.woken :=
  lockPoll_cwr (s.nr ++ s.nw) s.m fu.l fu.id t fire c.w c.nw (by rw [has_append, h2, h3]; rfl) c.hm hd

theorem pollUread_w3 (s : Sys) (fu : Fut) (t : Nat) (fire : Bool) (c : PollCtx s fu)
    (hk : fu.kind = .uread) (hs : fu.stage ≠ .done) : W3 (pollUread s fu t fire).s := by
  have h2 : Ev.has s.nr fu.id = false := by rw [c.hnr]; simp [Fut.onNr, Fut.isPW, Fut.isPU, hk]
  have h3 : Ev.has s.nw fu.id = false := by rw [c.hnw]; simp [Fut.onNw, hk]
  have hd : fu.l.done = false := by
    have := (c.ok.ustage hk).1
    cases h : fu.l.done
    · rfl
    · exact absurd (this.mpr h) hs
  have := lockPoll_w3 s fu t fire c h2 h3 hd
  unfold pollUread
  simp only []
  split <;> exact this

theorem pollWrite_w3 (s : Sys) (fu : Fut) (t : Nat) (fire : Bool) (c : PollCtx s fu)
    (hk : fu.kind = .write) (hs : fu.stage ≠ .done) : W3 (pollWrite s fu t fire).s := by
  have h3 : Ev.has s.nw fu.id = false := by rw [c.hnw]; simp [Fut.onNw, hk]
  unfold pollWrite
  cases hst : fu.stage with
  | init =>
    simp only []
    have h2 : Ev.has s.nr fu.id = false := by
      rw [c.hnr]; simp [Fut.onNr, Fut.isPW, Fut.isPU, hk, hst]
    have hd : fu.l.done = false := by
      have := (c.ok.wstage hk).mp hst; exact this
    obtain ⟨q1, q2⟩ := lockPoll_qw (s.nr ++ s.nw) s.m fu.l fu.id t fire c.w c.nw
      (by rw [has_append, h2, h3]; rfl) c.hm hd
    split
    · rename_i hrd
      have hq : Ev.has (lockPoll s.m fu.l fu.id t fire).c.q fu.id = false :=
        lockPoll_ready_has s.m fu.l fu.id t fire c.hm hd c.ok.starvedSlow hrd
      have hl : W (lockPoll s.m fu.l fu.id t fire).c.q (Ev.listen s.nr fu.id) s.nw
          (lockPoll s.m fu.l fu.id t fire).c.woken := W.nr_listen q1 fu.id hq h2 h3
      exact pollWaitReaders_w3 _ _ t _ hl q2 hq h3
    · exact q1
  | waitReaders =>
    simp only []
    have h1 : Ev.has s.m.q fu.id = false := by
      rw [c.hm]
      have : fu.l.done = true := by
        cases h : fu.l.done
        · exact absurd ((c.ok.wstage hk).mpr h) (by rw [hst]; simp)
        · rfl
      simp [LockSt.waiting, this]
    exact pollWaitReaders_w3 s fu t 50 c.w c.nw h1 h3
  | done => exact absurd hst hs

theorem pollFut_w3 (s : Sys) (fu : Fut) (t : Nat) (fire : Bool) (c : PollCtx s fu)
    (hs : fu.stage ≠ .done) : W3 (pollFut s fu t fire).s := by
  unfold pollFut
  cases hk : fu.kind with
  | read => exact pollRead_w3 s fu t c hk
  | uread => exact pollUread_w3 s fu t fire c hk hs
  | write => exact pollWrite_w3 s fu t fire c hk hs
  | upgrade => exact pollUpgrade_w3 s fu t c hk

theorem not_mem_writeUnlock {s : Sys} {f : Nat} (hn : f ∉ s.m.woken) (h1 : Ev.has s.m.q f = false)
    (h3 : Ev.has s.nw f = false) : f ∉ s.writeUnlock.m.woken := by
  have a := not_mem_notifyOwners (q := s.m.q) (f := f) false 1 h1
  have b := not_mem_notifyOwners (q := s.nw) (f := f) false 1 h3
  simp only [Sys.writeUnlock, Sys.unlockM, Sys.notifyNw, Core.unlock, Core.notify, List.mem_append,
    not_or]
  exact ⟨a, b, hn⟩

theorem dropFutS_w3 (s : Sys) (fu : Fut) (c : PollCtx s fu) : W3 (dropFutS s fu) := by
  have hw := c.w
  have hn := c.nw
  unfold dropFutS
  cases hk : fu.kind with
  | read => exact hw.dropNw fu.id hn
  | uread =>
    simp only []
    split
    · exact hw
    · exact lockDrop_cwr (s.nr ++ s.nw) s.m fu.l fu.id hw hn
  | write =>
    simp only []
    have h3 : Ev.has s.nw fu.id = false := by rw [c.hnw]; simp [Fut.onNw, hk]
    cases hst : fu.stage with
    | init => exact lockDrop_cwr (s.nr ++ s.nw) s.m fu.l fu.id hw hn
    | waitReaders =>
      simp only []
      have h1 : Ev.has s.m.q fu.id = false := by
        rw [c.hm]
        have : fu.l.done = true := by
          cases h : fu.l.done
          · exact absurd ((c.ok.wstage hk).mpr h) (by rw [hst]; simp)
          · rfl
        simp [LockSt.waiting, this]
      exact W3.dropNr hw.writeUnlock fu.id (not_mem_writeUnlock hn h1 h3)
    | done => exact hw
  | upgrade =>
    simp only []
    have hl : fu.l = {} := c.ok.lockFree (Or.inr hk)
    have h1 : Ev.has s.m.q fu.id = false := by rw [c.hm, hl]; rfl
    have h3 : Ev.has s.nw fu.id = false := by rw [c.hnw]; simp [Fut.onNw, hk]
    split
    · exact hw
    · exact W3.dropNr hw.writeUnlock fu.id (not_mem_writeUnlock hn h1 h3)

/-- entering a poll / a drop of `f`: its outstanding wake-up is served -/
theorem W3.polled {s : Sys} (h : W3 s) (f : Nat) :
    W3 { s with m := s.m.polled f } ∧ f ∉ ({ s with m := s.m.polled f } : Sys).m.woken := by
  refine ⟨WOK.weaken h List.filter_sublist, ?_⟩
  simp [Core.polled]

theorem step_w3 (s : Sys) (op : Op) (hi : WordInv s) (hr : RegInv s) (h : W3 s) : W3 (next s op) := by
  cases op with
  | start f k arc =>
    simp only [next, step]; split <;> exact h
  | poll f t fire =>
    cases hf : findFut s f with
    | none => simp only [next, step, hf]; exact h
    | some fu =>
      obtain ⟨hm, hid⟩ := findFut_mem hf
      by_cases hd : fu.stage = .done
      · simp only [next, step, hf, hd, if_true]; exact h
      · rw [step_poll_eq s f t fire fu hf hd]
        subst hid
        obtain ⟨hp, hnw⟩ := h.polled fu.id
        have c : PollCtx { s with m := s.m.polled fu.id } fu :=
          ⟨hp, hnw, hr.mreg fu hm, hr.nrreg fu hm, hr.nwreg fu hm, hi.flags fu hm⟩
        have := pollFut_w3 _ fu t fire c hd
        refine W3.congr this ?_ ?_ ?_ ?_ <;> (unfold afterPoll; simp only []; split <;> rfl)
  | dropFut f =>
    simp only [next, step]
    cases hf : findFut s f with
    | none => exact h
    | some fu =>
      obtain ⟨hm, hid⟩ := findFut_mem hf
      subst hid
      simp only []
      obtain ⟨hp, hnw⟩ := h.polled fu.id
      have c : PollCtx { s with m := s.m.polled fu.id } fu :=
        ⟨hp, hnw, hr.mreg fu hm, hr.nrreg fu hm, hr.nwreg fu hm, hi.flags fu hm⟩
      exact W3.congr (dropFutS_w3 _ fu c) rfl rfl rfl rfl
  | try_ g k arc =>
    simp only [next, step]
    split
    · cases k with
      | read => simp only []; split <;> exact h
      | uread => simp only []; split <;> exact h
      | write =>
        simp only []
        split
        · split
          · exact h
          · exact unlock_cwr (s.nr ++ s.nw) { s.m with st := 1 } h
        · exact h
    · exact h
  | dropGuard g =>
    simp only [next, step]
    cases hg : findGuard s g with
    | none => exact h
    | some gu =>
      simp only []
      cases hk : gu.kind with
      | read => exact W3.congr h.readUnlock rfl rfl rfl rfl
      | uread => exact W3.congr h.ureadUnlock rfl rfl rfl rfl
      | write => exact W3.congr h.writeUnlock rfl rfl rfl rfl
  | conv g c =>
    simp only [next, step]
    cases hg : findGuard s g with
    | none => exact h
    | some gu =>
      simp only []
      cases hk : gu.kind <;> cases c <;> simp only [] <;> try (exact h)
      · exact W3.congr h.unlockM rfl rfl rfl rfl
      · split <;> exact h
      · exact W3.congr (W3.notifyNw (W3.unlockM (s := { s with state := s.state + 1 }) h)) rfl rfl rfl rfl
      · exact W3.congr (W3.notifyNw (s := { s with state := s.state + 1 }) h) rfl rfl rfl rfl
  | upgrade g f =>
    simp only [next, step]
    cases hg : findGuard s g with
    | none => exact h
    | some gu => simp only []; split <;> exact h
  | hclone => simp only [next, step]; split <;> exact h
  | hdrop => simp only [next, step]; split <;> exact h

theorem run_w3 (s : Sys) (ops : List Op) (hi : WordInv s) (hr : RegInv s) (h : W3 s) : W3 (run s ops) := by
  induction ops generalizing s with
  | nil => exact h
  | cons op ops ih =>
    have := run_word_reg s [op] hi hr
    exact ih _ (step_word s op hi) (by simpa [run] using this.2) (step_w3 s op hi hr h)

theorem reachable_w3 (ops : List Op) : W3 (run {} ops) :=
  run_w3 _ ops init_word init_reg ⟨by simp [ALock.ownerIds], by simp, by simp⟩

/-- every listener (on any of the three events) belongs to a pending polled future -/
theorem listener_pending (ops : List Op) (g : Nat)
    (hh : Ev.has ((run {} ops).m.q ++ ((run {} ops).nr ++ (run {} ops).nw)) g = true) :
    ∃ fu ∈ pendingPolled (run {} ops), fu.id = g := by
  have hi := reachable_word ops
  have hr := reachable_reg ops
  rw [has_append, has_append, Bool.or_eq_true, Bool.or_eq_true] at hh
  rcases hh with hh | hh | hh
  · obtain ⟨fu, hfu, hid⟩ := hr.mrev g hh
    have hw : fu.l.waiting = true := by rw [← hr.mreg fu hfu, hid]; exact hh
    simp only [LockSt.waiting, Bool.and_eq_true, Bool.not_eq_true'] at hw
    have ok := hi.flags fu hfu
    have hp := ok.slowPolled hw.1
    have hnd : fu.stage ≠ .done := by
      cases hk : fu.kind with
      | read => have := ok.lockFree (Or.inl hk); rw [this] at hw; simp at hw
      | upgrade => have := ok.lockFree (Or.inr hk); rw [this] at hw; simp at hw
      | uread =>
        intro h0
        have := (ok.ustage hk).1.mp h0
        rw [this] at hw; simp at hw
      | write =>
        have := (ok.wstage hk).mpr hw.2
        rw [this]; simp
    exact ⟨fu, by simp [pendingPolled, hfu, hp, hnd], hid⟩
  · obtain ⟨fu, hfu, hid⟩ := hr.nrrev g hh
    have hw : fu.onNr = true := by rw [← hr.nrreg fu hfu, hid]; exact hh
    have ok := hi.flags fu hfu
    simp only [Fut.onNr, Fut.isPW, Fut.isPU, Bool.or_eq_true, Bool.and_eq_true, beq_iff_eq,
      bne_iff_ne, ne_eq] at hw
    rcases hw with hw | hw
    · have hp := ok.donePolled (by rw [hw.2]; simp)
      exact ⟨fu, by simp [pendingPolled, hfu, hp, hw.2], hid⟩
    · exact ⟨fu, by simp [pendingPolled, hfu, hw.2, hw.1.2], hid⟩
  · obtain ⟨fu, hfu, hid⟩ := hr.nwrev g hh
    have hw : fu.onNw = true := by rw [← hr.nwreg fu hfu, hid]; exact hh
    simp only [Fut.onNw, Bool.and_eq_true, beq_iff_eq] at hw
    exact ⟨fu, by simp [pendingPolled, hfu, hw.1.2, hw.2], hid⟩

theorem listeners_le (ops : List Op) :
    (run {} ops).m.q.length + ((run {} ops).nr.length + (run {} ops).nw.length)
      ≤ (pendingPolled (run {} ops)).length := by
  have hc := reachable_w3 ops
  have := nodup_subset_length
    (ALock.ownerIds ((run {} ops).m.q ++ ((run {} ops).nr ++ (run {} ops).nw)))
    ((pendingPolled (run {} ops)).map (·.id)) hc.nq (by
    intro g hg
    have hh : Ev.has ((run {} ops).m.q ++ ((run {} ops).nr ++ (run {} ops).nw)) g = true := by
      obtain ⟨e, he, heo⟩ := List.mem_map.mp hg
      simp only [Ev.has, List.any_eq_true, beq_iff_eq]; exact ⟨e, he, heo⟩
    obtain ⟨fu, hfu, hid⟩ := listener_pending ops g hh
    exact List.mem_map.mpr ⟨fu, hfu, hid⟩)
  simpa [ALock.ownerIds] using this

/-- **outstanding wake-ups never outnumber the pending futures** -/
theorem woken_le (ops : List Op) :
    (run {} ops).m.woken.length ≤ (pendingPolled (run {} ops)).length := by
  have := (reachable_w3 ops).length_le
  have := listeners_le ops
  simp only [List.length_append] at *
  omega

end ALock.RwLock
