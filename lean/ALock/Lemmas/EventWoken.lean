import ALock.Lemmas.Event

/-!
# Every outstanding wake-up belongs to its own notified listener

`WOK q w`: the ownerIds of the queue's entries are pairwise distinct (a future has at most one
listener), the outstanding wake-ups `w` are pairwise distinct, and each of them is the owner of a
*notified* entry.  It is preserved by everything the models do with an event.  Consequence: there
are never more outstanding wake-ups than registered listeners (`WOK.length_le`), which turns the
bounds `n ≤ woken + c · pending` of C17 into bounds in `pending` alone.
-/

namespace ALock

def ownerIds (q : List Entry) : List Nat := q.map (·.owner)

structure WOK (q : List Entry) (w : List Nat) : Prop where
  nq : (ownerIds q).Nodup
  nw : w.Nodup
  reg : ∀ f ∈ w, ∃ e ∈ q, e.owner = f ∧ e.notified = true

theorem nodup_subset_length : ∀ (l m : List Nat), l.Nodup → (∀ x ∈ l, x ∈ m) → l.length ≤ m.length
  | [], _, _, _ => by simp
  | a :: t, m, hn, hs => by
    have ha : a ∈ m := hs a (by simp)
    have hn' := List.nodup_cons.mp hn
    have ht : ∀ x ∈ t, x ∈ m.erase a := by
      intro x hx
      have hxa : x ≠ a := by
        intro h; subst h; exact hn'.1 hx
      exact (List.mem_erase_of_ne hxa).mpr (hs x (by simp [hx]))
    have := nodup_subset_length t (m.erase a) hn'.2 ht
    have hl := List.length_erase_of_mem ha
    have hpos : 0 < m.length := List.length_pos_of_mem ha
    simp only [List.length_cons]
    omega

/-- never more outstanding wake-ups than listeners -/
theorem WOK.length_le {q : List Entry} {w : List Nat} (h : WOK q w) : w.length ≤ q.length := by
  have := nodup_subset_length w (ownerIds q) h.nw (by
    intro f hf
    obtain ⟨e, he, rfl, _⟩ := h.reg f hf
    exact List.mem_map.mpr ⟨e, he, rfl⟩)
  simpa [ownerIds] using this

theorem ownerIds_notifyQ (add : Bool) (n : Nat) (q : List Entry) : ownerIds (notifyQ add n q) = ownerIds q := by
  fun_induction notifyQ add n q <;> simp_all [ownerIds]

/-- an entry with a unique owner: the entry of `f` -/
theorem entry_unique {q : List Entry} (hn : (ownerIds q).Nodup) {e e' : Entry} (he : e ∈ q) (he' : e' ∈ q)
    (ho : e.owner = e'.owner) : e = e' := by
  induction q with
  | nil => cases he
  | cons x xs ih =>
    simp only [ownerIds, List.map_cons, List.nodup_cons] at hn
    simp only [List.mem_cons] at he he'
    rcases he with rfl | he <;> rcases he' with rfl | he'
    · rfl
    · exact absurd (List.mem_map.mpr ⟨e', he', ho.symm⟩) hn.1
    · exact absurd (List.mem_map.mpr ⟨e, he, ho⟩) hn.1
    · exact ih hn.2 he he'

/-- the ownerIds `notifyO` wakes had an un-notified entry, and have a notified one afterwards; the
notified entries stay -/
theorem notifyO_spec (add : Bool) (n : Nat) (q : List Entry) :
    (∀ f ∈ notifyO n q, (∃ e ∈ q, e.owner = f ∧ e.notified = false) ∧
      ∃ e ∈ notifyQ add n q, e.owner = f ∧ e.notified = true) ∧
    (∀ e ∈ q, e.notified = true → e ∈ notifyQ add n q) ∧
    (notifyO n q).Sublist (ownerIds q) := by
  fun_induction notifyQ add n q with
  | case1 q => exact ⟨by simp [notifyO], fun e he _ => he, by simp [notifyO]⟩
  | case2 n hn => simp [notifyO, ownerIds]
  | case3 n e q hen ih =>
    obtain ⟨i1, i2, i3⟩ := ih
    simp only [notifyO, hen, if_true]
    refine ⟨?_, ?_, ?_⟩
    · intro f hf
      obtain ⟨⟨x, hx, h1, h2⟩, ⟨y, hy, h3, h4⟩⟩ := i1 f hf
      exact ⟨⟨x, List.mem_cons_of_mem _ hx, h1, h2⟩, ⟨y, List.mem_cons_of_mem _ hy, h3, h4⟩⟩
    · intro x hx hxn
      simp only [List.mem_cons] at hx ⊢
      rcases hx with rfl | hx
      · exact Or.inl rfl
      · exact Or.inr (i2 x hx hxn)
    · simp only [ownerIds, List.map_cons]
      exact List.Sublist.cons _ (by simpa [ownerIds] using i3)
  | case4 n e q hen ih =>
    obtain ⟨i1, i2, i3⟩ := ih
    have hen' : e.notified = false := by simpa using hen
    simp only [notifyO, hen', Bool.false_eq_true, if_false]
    refine ⟨?_, ?_, ?_⟩
    · intro f hf
      by_cases ht : e.task.isSome = true
      · simp only [ht, if_true, List.mem_cons] at hf
        rcases hf with rfl | hf
        · exact ⟨⟨e, by simp, rfl, hen'⟩, ⟨{ e with notified := true, additional := add }, by simp, rfl, rfl⟩⟩
        · obtain ⟨⟨x, hx, h1, h2⟩, ⟨y, hy, h3, h4⟩⟩ := i1 f hf
          exact ⟨⟨x, List.mem_cons_of_mem _ hx, h1, h2⟩, ⟨y, List.mem_cons_of_mem _ hy, h3, h4⟩⟩
      · simp only [ht, Bool.false_eq_true, if_false] at hf
        obtain ⟨⟨x, hx, h1, h2⟩, ⟨y, hy, h3, h4⟩⟩ := i1 f hf
        exact ⟨⟨x, List.mem_cons_of_mem _ hx, h1, h2⟩, ⟨y, List.mem_cons_of_mem _ hy, h3, h4⟩⟩
    · intro x hx hxn
      simp only [List.mem_cons] at hx ⊢
      rcases hx with rfl | hx
      · rw [hen'] at hxn; cases hxn
      · exact Or.inr (i2 x hx hxn)
    · simp only [ownerIds, List.map_cons]
      by_cases ht : e.task.isSome = true
      · simp only [ht, if_true]
        exact List.Sublist.cons_cons _ (by simpa [ownerIds] using i3)
      · simp only [ht, Bool.false_eq_true, if_false]
        exact List.Sublist.cons _ (by simpa [ownerIds] using i3)

theorem WOK.notifyK {q : List Entry} {w : List Nat} (h : WOK q w) (add : Bool) (k : Nat) :
    WOK (notifyQ add k q) (notifyO k q ++ w) := by
  obtain ⟨s1, s2, s3⟩ := notifyO_spec add k q
  refine ⟨by rw [ownerIds_notifyQ]; exact h.nq, ?_, ?_⟩
  · refine List.nodup_append.mpr ⟨s3.nodup h.nq, h.nw, ?_⟩
    intro a ha b hb hab
    subst hab
    obtain ⟨⟨x, hx, h1, h2⟩, _⟩ := s1 a ha
    obtain ⟨y, hy, h3, h4⟩ := h.reg a hb
    have := entry_unique h.nq hx hy (by rw [h1, h3])
    subst this
    rw [h2] at h4; cases h4
  · intro f hf
    simp only [List.mem_append] at hf
    rcases hf with hf | hf
    · exact (s1 f hf).2
    · obtain ⟨e, he, h1, h2⟩ := h.reg f hf
      exact ⟨e, s2 e he h2, h1, h2⟩

theorem WOK.notify {q : List Entry} {w : List Nat} (h : WOK q w) (add : Bool) (n : Nat) :
    WOK (Ev.notify add n q) (Ev.notifyOwners add n q ++ w) := h.notifyK add _

theorem ownerIds_erase_sublist (q : List Entry) (f : Nat) : (ownerIds (Ev.erase q f)).Sublist (ownerIds q) := by
  simp only [ownerIds, Ev.erase]
  exact List.Sublist.map _ List.filter_sublist

theorem WOK.erase {q : List Entry} {w : List Nat} (h : WOK q w) (f : Nat) :
    WOK (Ev.erase q f) (w.filter (· != f)) := by
  refine ⟨(ownerIds_erase_sublist q f).nodup h.nq, h.nw.filter _, ?_⟩
  intro g hg
  simp only [List.mem_filter, bne_iff_ne, ne_eq] at hg
  obtain ⟨e, he, h1, h2⟩ := h.reg g hg.1
  refine ⟨e, ?_, h1, h2⟩
  simp only [Ev.erase, List.mem_filter, bne_iff_ne, ne_eq]
  exact ⟨he, by rw [h1]; exact hg.2⟩

theorem WOK.drop {q : List Entry} {w : List Nat} (h : WOK q w) (f : Nat) :
    WOK (Ev.drop q f) (Ev.dropOwners q f ++ w.filter (· != f)) := by
  unfold Ev.drop Ev.dropOwners
  split
  · exact (h.erase f).notify _ 1
  · simpa using h.erase f

theorem WOK.weaken {q : List Entry} {w w' : List Nat} (h : WOK q w) (hs : w'.Sublist w) : WOK q w' :=
  ⟨h.nq, hs.nodup h.nw, fun f hf => h.reg f (hs.subset hf)⟩

/-- a fresh listener for a future that has none -/
theorem WOK.append {q : List Entry} {w : List Nat} (h : WOK q w) (e : Entry)
    (hf : Ev.has q e.owner = false) : WOK (q ++ [e]) w := by
  refine ⟨?_, h.nw, ?_⟩
  · simp only [ownerIds, List.map_append, List.map_cons, List.map_nil]
    refine List.nodup_append.mpr ⟨h.nq, by simp, ?_⟩
    intro a ha b hb hab
    simp only [List.mem_singleton] at hb
    subst hb; subst hab
    obtain ⟨x, hx, hxo⟩ := List.mem_map.mp ha
    have : Ev.has q e.owner = true := by
      simp only [Ev.has, List.any_eq_true, beq_iff_eq]
      exact ⟨x, hx, hxo⟩
    rw [hf] at this; cases this
  · intro g hg
    obtain ⟨x, hx, h1, h2⟩ := h.reg g hg
    exact ⟨x, List.mem_append_left _ hx, h1, h2⟩

theorem WOK.listen {q : List Entry} {w : List Nat} (h : WOK q w) (f : Nat)
    (hf : Ev.has q f = false) : WOK (Ev.listen q f) w := h.append { owner := f } hf

theorem ownerIds_setTask (q : List Entry) (f t : Nat) : ownerIds (Ev.setTask q f t) = ownerIds q := by
  simp only [ownerIds, Ev.setTask, List.map_map]
  apply List.map_congr_left
  intro e _
  simp only [Function.comp]
  split <;> rfl

theorem WOK.setTask {q : List Entry} {w : List Nat} (h : WOK q w) (f t : Nat) :
    WOK (Ev.setTask q f t) w := by
  refine ⟨by rw [ownerIds_setTask]; exact h.nq, h.nw, ?_⟩
  intro g hg
  obtain ⟨x, hx, h1, h2⟩ := h.reg g hg
  refine ⟨if x.owner == f then { x with task := some t } else x, ?_, ?_, ?_⟩
  · exact List.mem_map.mpr ⟨x, hx, rfl⟩
  · split <;> exact h1
  · split <;> exact h2

theorem has_erase_self (q : List Entry) (f : Nat) : Ev.has (Ev.erase q f) f = false := by
  simp only [Ev.has, Ev.erase, List.any_eq_false, List.mem_filter, bne_iff_ne, ne_eq, beq_iff_eq, and_imp]
  intro x _ hx
  exact hx


/-! ### the same with a second queue `r` that shares the wake-up list -/

theorem ownerIds_append (q r : List Entry) : ownerIds (q ++ r) = ownerIds q ++ ownerIds r := by
  simp [ownerIds]

theorem WOK.comm {q r : List Entry} {w : List Nat} (h : WOK (q ++ r) w) : WOK (r ++ q) w := by
  refine ⟨?_, h.nw, ?_⟩
  · have := h.nq
    rw [ownerIds_append] at this ⊢
    exact (List.perm_append_comm.nodup_iff).mp this
  · intro f hf
    obtain ⟨e, he, h1, h2⟩ := h.reg f hf
    exact ⟨e, by simpa [or_comm] using he, h1, h2⟩

theorem WOK.notifyK_ctx {q r : List Entry} {w : List Nat} (h : WOK (q ++ r) w) (add : Bool) (k : Nat) :
    WOK (notifyQ add k q ++ r) (notifyO k q ++ w) := by
  obtain ⟨s1, s2, s3⟩ := notifyO_spec add k q
  have hnq : (ownerIds q).Nodup := by
    have := h.nq; rw [ownerIds_append] at this; exact (List.nodup_append.mp this).1
  refine ⟨by rw [ownerIds_append, ownerIds_notifyQ, ← ownerIds_append]; exact h.nq, ?_, ?_⟩
  · refine List.nodup_append.mpr ⟨s3.nodup hnq, h.nw, ?_⟩
    intro a ha b hb hab
    subst hab
    obtain ⟨⟨x, hx, h1, h2⟩, _⟩ := s1 a ha
    obtain ⟨y, hy, h3, h4⟩ := h.reg a hb
    have := entry_unique h.nq (List.mem_append_left r hx) hy (by rw [h1, h3])
    subst this
    rw [h2] at h4; cases h4
  · intro f hf
    simp only [List.mem_append] at hf
    rcases hf with hf | hf
    · obtain ⟨e, he, h1, h2⟩ := (s1 f hf).2
      exact ⟨e, List.mem_append_left _ he, h1, h2⟩
    · obtain ⟨e, he, h1, h2⟩ := h.reg f hf
      rcases List.mem_append.mp he with he | he
      · exact ⟨e, List.mem_append_left _ (s2 e he h2), h1, h2⟩
      · exact ⟨e, List.mem_append_right _ he, h1, h2⟩

theorem WOK.notify_ctx {q r : List Entry} {w : List Nat} (h : WOK (q ++ r) w) (add : Bool) (n : Nat) :
    WOK (Ev.notify add n q ++ r) (Ev.notifyOwners add n q ++ w) := h.notifyK_ctx add _

theorem WOK.erase_ctx {q r : List Entry} {w : List Nat} (h : WOK (q ++ r) w) (f : Nat) :
    WOK (Ev.erase q f ++ r) (w.filter (· != f)) := by
  refine ⟨?_, h.nw.filter _, ?_⟩
  · have := h.nq
    rw [ownerIds_append] at this ⊢
    exact (List.Sublist.append (ownerIds_erase_sublist q f) (List.Sublist.refl _)).nodup this
  · intro g hg
    simp only [List.mem_filter, bne_iff_ne, ne_eq] at hg
    obtain ⟨e, he, h1, h2⟩ := h.reg g hg.1
    refine ⟨e, ?_, h1, h2⟩
    rcases List.mem_append.mp he with he | he
    · apply List.mem_append_left
      simp only [Ev.erase, List.mem_filter, bne_iff_ne, ne_eq]
      exact ⟨he, by rw [h1]; exact hg.2⟩
    · exact List.mem_append_right _ he

theorem WOK.drop_ctx {q r : List Entry} {w : List Nat} (h : WOK (q ++ r) w) (f : Nat) :
    WOK (Ev.drop q f ++ r) (Ev.dropOwners q f ++ w.filter (· != f)) := by
  unfold Ev.drop Ev.dropOwners
  split
  · exact (h.erase_ctx f).notify_ctx _ 1
  · simpa using h.erase_ctx f

theorem has_append (q r : List Entry) (f : Nat) : Ev.has (q ++ r) f = (Ev.has q f || Ev.has r f) := by
  simp [Ev.has]

theorem WOK.append_ctx {q r : List Entry} {w : List Nat} (h : WOK (q ++ r) w) (e : Entry)
    (hf : Ev.has (q ++ r) e.owner = false) : WOK ((q ++ [e]) ++ r) w := by
  have h1 : WOK ((q ++ r) ++ [e]) w := h.append e hf
  have h2 : WOK (r ++ [e] ++ q) w := by
    have := WOK.comm (q := q) (r := r ++ [e]) (by simpa [List.append_assoc] using h1)
    simpa [List.append_assoc] using this
  have := WOK.comm (q := r) (r := [e] ++ q) (by simpa [List.append_assoc] using h2)
  -- ([e] ++ q) ++ r  vs  (q ++ [e]) ++ r: swap inside
  refine ⟨?_, h.nw, ?_⟩
  · have hn := this.nq
    simp only [ownerIds, List.map_append, List.map_cons, List.map_nil] at hn ⊢
    refine (List.Perm.nodup_iff ?_).mp hn
    exact List.Perm.append_right _ List.perm_append_comm
  · intro g hg
    obtain ⟨x, hx, a, b⟩ := this.reg g hg
    refine ⟨x, ?_, a, b⟩
    simp only [List.mem_append, List.mem_singleton, List.mem_cons, List.not_mem_nil, or_false] at hx ⊢
    rcases hx with (hx | hx) | hx
    · exact Or.inl (Or.inr hx)
    · exact Or.inl (Or.inl hx)
    · exact Or.inr hx

theorem WOK.listen_ctx {q r : List Entry} {w : List Nat} (h : WOK (q ++ r) w) (f : Nat)
    (hf : Ev.has (q ++ r) f = false) : WOK (Ev.listen q f ++ r) w := h.append_ctx { owner := f } hf

theorem WOK.setTask_ctx {q r : List Entry} {w : List Nat} (h : WOK (q ++ r) w) (f t : Nat) :
    WOK (Ev.setTask q f t ++ r) w := by
  refine ⟨by rw [ownerIds_append, ownerIds_setTask, ← ownerIds_append]; exact h.nq, h.nw, ?_⟩
  intro g hg
  obtain ⟨x, hx, h1, h2⟩ := h.reg g hg
  rcases List.mem_append.mp hx with hx | hx
  · refine ⟨if x.owner == f then { x with task := some t } else x, ?_, ?_, ?_⟩
    · exact List.mem_append_left _ (List.mem_map.mpr ⟨x, hx, rfl⟩)
    · split <;> exact h1
    · split <;> exact h2
  · exact ⟨x, List.mem_append_right _ hx, h1, h2⟩

end ALock
