import ALock.Lemmas.RwLockReg

/-! Wake-up invariant of the RwLock model: every notified listener has an outstanding wake-up,
and each of the three events holds a notification whenever somebody registered on it could
proceed ("baton" for the inner mutex, `nwI` for `no_writer`, `nrI` for `no_readers`). -/

set_option linter.unusedSimpArgs false
set_option linter.unusedVariables false

namespace ALock.RwLock

/-- wake-up bookkeeping of the three events against the shared `woken` list -/
structure WT (s : Sys) : Prop where
  wm : WakeOK s.m.q s.m.woken
  wr : WakeOK s.nr s.m.woken
  ww : WakeOK s.nw s.m.woken
  tm : AllTask s.m.q
  tr : AllTask s.nr
  tw : AllTask s.nw

/-- the same while future `f` is being polled: its own entries are exempt -/
structure WTE (f : Nat) (s : Sys) : Prop where
  wm : WakeOKExcept f s.m.q s.m.woken
  wr : WakeOKExcept f s.nr s.m.woken
  ww : WakeOKExcept f s.nw s.m.woken
  tm : AllTask s.m.q
  /-- a `write` poll registers on `no_readers` right after winning the inner mutex -/
  tr : AllTaskExcept f s.nr
  tw : AllTask s.nw

structure WakeInv (s : Sys) : Prop where
  wt : WT s
  baton : Baton s.m
  /-- readers are admitted (bit clear) and someone waits on `no_writer` ⇒ a notification is there -/
  nwI : s.state % 2 = 0 → s.nw ≠ [] → 0 < cnt s.nw
  /-- no reader is left and someone waits on `no_readers` ⇒ a notification is there -/
  nrI : s.state / 2 = 0 → s.nr ≠ [] → 0 < cnt s.nr

theorem init_wake : WakeInv ({} : Sys) := by
  refine ⟨⟨?_, ?_, ?_, ?_, ?_, ?_⟩, ?_, ?_, ?_⟩ <;> (try (intro e he; simp at he)) <;>
    (intro _ h; simp at h)

theorem wakeOK_of_except {f : Nat} {q : List Entry} {w : List Nat} (h : WakeOKExcept f q w)
    (hn : Ev.has q f = false) : WakeOK q w :=
  fun e he hne => h e he hne (Ev.has_false_iff.mp hn e he)

theorem wakeOKExcept_mono {f : Nat} {q : List Entry} {w w' : List Nat} (h : WakeOKExcept f q w)
    (hs : ∀ x ∈ w, x ∈ w') : WakeOKExcept f q w' := fun e he hn hf => hs _ (h e he hn hf)

/-- entering a poll of `f`: its outstanding wake-up is served -/
theorem WT.enter {s : Sys} (h : WT s) (f : Nat) : WTE f { s with m := s.m.polled f } :=
  ⟨wakeOKExcept_of_cons (wakeOK_filter _ _ _ h.wm), wakeOKExcept_of_cons (wakeOK_filter _ _ _ h.wr),
   wakeOKExcept_of_cons (wakeOK_filter _ _ _ h.ww), h.tm, h.tr.toExcept, h.tw⟩

/-! ### the event helpers -/

theorem WT.notifyNw {s : Sys} (h : WT s) : WT s.notifyNw :=
  ⟨wakeOK_mono h.wm (fun x hx => List.mem_append_right _ hx),
   wakeOK_mono h.wr (fun x hx => List.mem_append_right _ hx),
   Ev.notify_wakeOK false 1 s.nw s.m.woken h.ww h.tw, h.tm, h.tr, Ev.notify_allTask _ _ _ h.tw⟩

theorem WT.notifyNr {s : Sys} (h : WT s) : WT s.notifyNr :=
  ⟨wakeOK_mono h.wm (fun x hx => List.mem_append_right _ hx),
   Ev.notify_wakeOK false 1 s.nr s.m.woken h.wr h.tr,
   wakeOK_mono h.ww (fun x hx => List.mem_append_right _ hx), h.tm, Ev.notify_allTask _ _ _ h.tr, h.tw⟩

theorem WT.unlockM {s : Sys} (h : WT s) : WT s.unlockM := by
  have := unlock_wake s.m h.wm h.tm
  exact ⟨this.1, wakeOK_mono h.wr (fun x hx => List.mem_append_right _ hx),
    wakeOK_mono h.ww (fun x hx => List.mem_append_right _ hx), this.2, h.tr, h.tw⟩

theorem WT.readUnlock {s : Sys} (h : WT s) : WT s.readUnlock := by
  unfold Sys.readUnlock
  split
  · exact (show WT ({ s with state := s.state - 2 } : Sys) from ⟨h.wm, h.wr, h.ww, h.tm, h.tr, h.tw⟩).notifyNr
  · exact ⟨h.wm, h.wr, h.ww, h.tm, h.tr, h.tw⟩

theorem WT.ureadUnlock {s : Sys} (h : WT s) : WT s.ureadUnlock := h.readUnlock.unlockM

theorem WT.writeUnlock {s : Sys} (h : WT s) : WT s.writeUnlock :=
  ((show WT ({ s with state := s.state - s.state % 2 } : Sys) from
    ⟨h.wm, h.wr, h.ww, h.tm, h.tr, h.tw⟩).notifyNw).unlockM

/-- dropping `f`'s `no_readers` listener in the middle of (or instead of) a poll of `f` -/
theorem WTE.dropNr {f : Nat} {s : Sys} (h : WTE f s) (hm : Ev.has s.m.q f = false)
    (hw : Ev.has s.nw f = false) : WT (s.dropNr f) := by
  have d := Ev.drop_wake_except f h.wr h.tr
  exact ⟨wakeOK_mono (wakeOK_of_except h.wm hm) (fun x hx => List.mem_append_right _ hx), d.1,
    wakeOK_mono (wakeOK_of_except h.ww hw) (fun x hx => List.mem_append_right _ hx), h.tm, d.2, h.tw⟩

theorem WTE.dropNw {f : Nat} {s : Sys} (h : WTE f s) (hm : Ev.has s.m.q f = false)
    (hr : Ev.has s.nr f = false) : WT (s.dropNw f) :=
  ⟨wakeOK_mono (wakeOK_of_except h.wm hm) (fun x hx => List.mem_append_right _ hx),
   wakeOK_mono (wakeOK_of_except h.wr hr) (fun x hx => List.mem_append_right _ hx),
   Ev.drop_wakeOK f (wakeOK_cons_of_except h.ww) h.tw,
   h.tm, allTask_of_except h.tr hr, Ev.drop_allTask f h.tw⟩

/-- `pend`: the tail of every Pending path: store the waker in `f`'s un-notified listener -/
theorem pend_ok {f t : Nat} {q : List Entry} {w : List Nat} (h1 : WakeOKExcept f q w)
    (h2 : AllTaskExcept f q) (h3 : Ev.isNotified q f = false) :
    WakeOK (Ev.setTask q f t) w ∧ AllTask (Ev.setTask q f t) :=
  ⟨Ev.setTask_wakeOK_of_except h1 h3, Ev.setTask_allTask_of_except h2⟩

theorem lockPoll_woken_sub (c : Core) (l : LockSt) (f t : Nat) (fire : Bool) :
    ∀ x ∈ c.woken, x ∈ (lockPoll c l f t fire).c.woken := by
  unfold lockPoll
  simp only []
  (repeat' split) <;> (intro x hx; simp [Core.notify, Core.listen, Core.setTask, Core.consume,
    Core.starve, hx])

theorem lockDrop_woken_sub (c : Core) (l : LockSt) (f : Nat) :
    ∀ x ∈ c.woken, x ∈ (lockDrop c l f).woken := by
  unfold lockDrop
  intro x hx
  split <;> simp [Core.dropListener, hx]

end ALock.RwLock

namespace ALock.RwLock

theorem pollRead_wt (s : Sys) (fu : Fut) (t : Nat) (h : WTE fu.id s)
    (hm : Ev.has s.m.q fu.id = false) (hr : Ev.has s.nr fu.id = false) :
    WT (pollRead s fu t).s := by
  have wm := wakeOK_of_except h.wm hm
  have wr := wakeOK_of_except h.wr hr
  have htr := allTask_of_except h.tr hr
  have hte := h.tw.toExcept (f := fu.id)
  unfold pollRead
  simp only []
  split
  · rename_i hh; simp only [Bool.not_eq_true'] at hh
    split
    · exact ⟨wm, wr, wakeOK_of_except h.ww hh, h.tm, htr, h.tw⟩
    · have := pend_ok (t := t) (Ev.listen_wakeOKExcept h.ww) (Ev.listen_allTaskExcept hte)
        (Ev.isNotified_listen_fresh _ _ hh)
      exact ⟨wm, wr, this.1, h.tm, htr, this.2⟩
  · split
    · rename_i hn; simp only [Bool.not_eq_true'] at hn
      have := pend_ok (t := t) h.ww hte hn
      exact ⟨wm, wr, this.1, h.tm, htr, this.2⟩
    · split
      · -- consumed, pass on, acquire
        have base : WT ({ s with nw := Ev.erase s.nw fu.id } : Sys) :=
          ⟨wm, wr, Ev.erase_wakeOK_of_except h.ww, h.tm, htr, Ev.erase_allTask_of_except hte⟩
        have := base.notifyNw
        exact ⟨this.wm, this.wr, this.ww, this.tm, this.tr, this.tw⟩
      · have := pend_ok (t := t) (Ev.listen_wakeOKExcept (Ev.erase_wakeOKExcept h.ww))
          (Ev.listen_allTaskExcept (Ev.erase_allTaskExcept hte)) (Ev.isNotified_listen_of_erased _ _)
        exact ⟨wm, wr, this.1, h.tm, htr, this.2⟩

theorem pollWaitReaders_wt (s : Sys) (fu : Fut) (t base : Nat) (h : WTE fu.id s)
    (hm : Ev.has s.m.q fu.id = false) (hw : Ev.has s.nw fu.id = false) :
    WT (pollWaitReaders s fu t base).s := by
  have wm := wakeOK_of_except h.wm hm
  have ww := wakeOK_of_except h.ww hw
  have hte := h.tr
  unfold pollWaitReaders
  simp only []
  split
  · exact h.dropNr hm hw
  · split
    · rename_i hn; simp only [Bool.not_eq_true'] at hn
      have := pend_ok (t := t) h.wr hte hn
      exact ⟨wm, this.1, ww, h.tm, this.2, h.tw⟩
    · have := pend_ok (t := t) (Ev.listen_wakeOKExcept (Ev.erase_wakeOKExcept h.wr))
        (Ev.listen_allTaskExcept (Ev.erase_allTaskExcept hte)) (Ev.isNotified_listen_of_erased _ _)
      exact ⟨wm, this.1, ww, h.tm, this.2, h.tw⟩

theorem pollUpgrade_wt (s : Sys) (fu : Fut) (t : Nat) (h : WTE fu.id s)
    (hm : Ev.has s.m.q fu.id = false) (hw : Ev.has s.nw fu.id = false) :
    WT (pollUpgrade s fu t).s := by
  have wm := wakeOK_of_except h.wm hm
  have ww := wakeOK_of_except h.ww hw
  have hte := h.tr
  unfold pollUpgrade
  simp only []
  split
  · exact h.dropNr hm hw
  · split
    · rename_i hh; simp only [Bool.not_eq_true'] at hh
      have := pend_ok (t := t) (Ev.listen_wakeOKExcept h.wr) (Ev.listen_allTaskExcept hte)
        (Ev.isNotified_listen_fresh _ _ hh)
      exact ⟨wm, this.1, ww, h.tm, this.2, h.tw⟩
    · split
      · rename_i hn; simp only [Bool.not_eq_true'] at hn
        have := pend_ok (t := t) h.wr hte hn
        exact ⟨wm, this.1, ww, h.tm, this.2, h.tw⟩
      · have := pend_ok (t := t) (Ev.listen_wakeOKExcept (Ev.erase_wakeOKExcept h.wr))
          (Ev.listen_allTaskExcept (Ev.erase_allTaskExcept hte)) (Ev.isNotified_listen_of_erased _ _)
        exact ⟨wm, this.1, ww, h.tm, this.2, h.tw⟩

/-- the inner-lock part of `uread`/`write` polls: `m` is replaced by the result of `lockPoll` -/
theorem lock_wt (s : Sys) (fu : Fut) (t : Nat) (fire : Bool) (h : WTE fu.id s)
    (hr : Ev.has s.nr fu.id = false) (hw : Ev.has s.nw fu.id = false)
    (hh : fu.l.slow = false → Ev.has s.m.q fu.id = false) :
    WT ({ s with m := (lockPoll s.m fu.l fu.id t fire).c } : Sys) := by
  have lw := lockPoll_wake s.m fu.l fu.id t fire h.wm h.tm hh
  have sub := lockPoll_woken_sub s.m fu.l fu.id t fire
  exact ⟨lw.1, wakeOK_mono (wakeOK_of_except h.wr hr) sub, wakeOK_mono (wakeOK_of_except h.ww hw) sub,
    lw.2, allTask_of_except h.tr hr, h.tw⟩

theorem pollUread_wt (s : Sys) (fu : Fut) (t : Nat) (fire : Bool) (h : WTE fu.id s)
    (hr : Ev.has s.nr fu.id = false) (hw : Ev.has s.nw fu.id = false)
    (hh : fu.l.slow = false → Ev.has s.m.q fu.id = false) :
    WT (pollUread s fu t fire).s := by
  have := lock_wt s fu t fire h hr hw hh
  unfold pollUread
  simp only []
  split <;> exact ⟨this.wm, this.wr, this.ww, this.tm, this.tr, this.tw⟩

theorem WT.toWTE {s : Sys} (h : WT s) (f : Nat) : WTE f s :=
  ⟨h.wm.toExcept, h.wr.toExcept, h.ww.toExcept, h.tm, h.tr.toExcept, h.tw⟩

theorem pollWrite_wt (s : Sys) (fu : Fut) (t : Nat) (fire : Bool) (h : WTE fu.id s)
    (hw : Ev.has s.nw fu.id = false)
    (hinit : fu.stage = .init → Ev.has s.nr fu.id = false ∧
      (fu.l.slow = false → Ev.has s.m.q fu.id = false) ∧ fu.l.done = false ∧
      (fu.l.starved = true → fu.l.slow = true) ∧ Ev.has s.m.q fu.id = fu.l.waiting)
    (hwait : fu.stage ≠ .init → Ev.has s.m.q fu.id = false) :
    WT (pollWrite s fu t fire).s := by
  unfold pollWrite
  cases hst : fu.stage with
  | init =>
    obtain ⟨hr, hh, hd, hs, hreg⟩ := hinit hst
    have lwt := lock_wt s fu t fire h hr hw hh
    have hself := lockPoll_has_self s.m fu.l fu.id t fire hd hs hreg
    have hfl := lockPoll_flags s.m fu.l fu.id t fire hd hs
    simp only []
    generalize lockPoll s.m fu.l fu.id t fire = lp at *
    split
    · rename_i hrdy
      -- the mutex is ours: set the bit, listen on no_readers, then the WaitingReaders arm
      have hmq : Ev.has lp.c.q fu.id = false := by
        rw [hself]; simp [LockSt.waiting, hfl.1, hrdy]
      refine pollWaitReaders_wt _ { fu with l := lp.l } t (30 + lp.br) ?_ hmq hw
      exact ⟨lwt.wm.toExcept, Ev.listen_wakeOKExcept lwt.wr.toExcept, lwt.ww.toExcept, lwt.tm,
        Ev.listen_allTaskExcept lwt.tr.toExcept, lwt.tw⟩
    · exact ⟨lwt.wm, lwt.wr, lwt.ww, lwt.tm, lwt.tr, lwt.tw⟩
  | waitReaders =>
    exact pollWaitReaders_wt s fu t 50 h (hwait (by simp [hst])) hw
  | done =>
    exact pollWaitReaders_wt s fu t 50 h (hwait (by simp [hst])) hw

end ALock.RwLock

namespace ALock.RwLock

/-- `no_readers` has listeners only while a writer waits for readers or an upgrade is pending -/
theorem nr_nil_of {s : Sys} (hr : RegInv s) (h0 : nPW s + nPU s = 0) : s.nr = [] := by
  cases hq : s.nr with
  | nil => rfl
  | cons e t =>
    exfalso
    have hh : Ev.has s.nr e.owner = true := Ev.has_iff.mpr ⟨e, by rw [hq]; exact List.mem_cons_self, rfl⟩
    obtain ⟨fu, hfu, hid⟩ := hr.nrrev _ hh
    have := hr.nrreg fu hfu
    rw [hid, hh] at this
    have h1 := ind_le_nPWL s.futs fu hfu
    have h2 := ind_le_nPUL s.futs fu hfu
    simp only [nPW_eq, nPU_eq] at h0
    simp only [Fut.onNr] at this
    cases hpw : fu.isPW
    · cases hpu : fu.isPU
      · simp [hpw, hpu] at this
      · simp [ind, hpu] at h2; omega
    · simp [ind, hpw] at h1; omega

/-- an unlocked inner mutex with a starved live operation has a registered waiter -/
theorem mq_ne_nil_of_starved {s : Sys} (hw : WordInv s) (hr : RegInv s) (he : s.m.st % 2 = 0)
    (h2 : 2 ≤ s.m.st) : s.m.q ≠ [] := by
  obtain ⟨hmw, hsl, _, _⟩ := hw.unf
  have hev := ticksL_even s.futs
  have ht : 2 ≤ ticksL s.futs := by omega
  obtain ⟨fu, hfu, htk⟩ := exists_of_sum_ge s.futs (fun x => x.l.tick) (fun x _ => tick_cases x.l) ht
  have hsd := (tick_two_iff fu.l).mp htk
  have hslow := (hw.flags fu hfu).starvedSlow hsd.1
  have hreg := hr.mreg fu hfu
  simp only [LockSt.waiting, hslow, hsd.2, Bool.not_false, Bool.and_self] at hreg
  exact Ev.has_ne_nil hreg

/-- liveness part of the invariant -/
structure Live (s : Sys) : Prop where
  baton : Baton s.m
  nwI : s.state % 2 = 0 → s.nw ≠ [] → 0 < cnt s.nw
  nrI : s.state / 2 = 0 → s.nr ≠ [] → 0 < cnt s.nr

theorem WakeInv.live {s : Sys} (h : WakeInv s) : Live s := ⟨h.baton, h.nwI, h.nrI⟩

theorem Live.polled {s : Sys} (h : Live s) (f : Nat) : Live { s with m := s.m.polled f } :=
  ⟨h.baton, h.nwI, h.nrI⟩

theorem setTask_ne_nil_iff (q : List Entry) (f t : Nat) : Ev.setTask q f t ≠ [] ↔ q ≠ [] := by
  rw [Ne, Ev.setTask_eq_nil_iff]

theorem notify_ne_nil_iff (q : List Entry) : Ev.notify false 1 q ≠ [] ↔ q ≠ [] := by
  constructor
  · intro h hc; apply h; rw [hc]; exact Ev.notify_nil _ _
  · exact Ev.notify_ne_nil _ _ _

theorem drop_ne_nil {q : List Entry} {f : Nat} (h : Ev.drop q f ≠ []) : q ≠ [] := by
  intro hc; apply h; simp [hc, Ev.drop, Ev.isNotified, Ev.erase]

theorem pollRead_live (s : Sys) (fu : Fut) (t : Nat) (h : Live s) : Live (pollRead s fu t).s := by
  unfold pollRead
  simp only []
  split
  · split
    · rename_i he
      exact ⟨h.baton, fun _ hq => h.nwI he hq, fun hc => by simp at hc <;> omega⟩
    · rename_i ho
      exact ⟨h.baton, fun hc => absurd hc ho, h.nrI⟩
  · split
    · refine ⟨h.baton, ?_, h.nrI⟩
      intro hc hq
      simp only [Ev.cnt_setTask]
      exact h.nwI hc ((setTask_ne_nil_iff _ _ _).mp hq)
    · split
      · refine ⟨h.baton, ?_, fun hc => by simp at hc <;> omega⟩
        intro _ hq
        simp only [notifyNw_nw] at hq ⊢
        exact Ev.notify_cnt_pos false 1 _ (by omega) ((notify_ne_nil_iff _).mp hq)
      · rename_i ho
        exact ⟨h.baton, fun hc => absurd hc ho, h.nrI⟩

theorem pollWaitReaders_live' (s : Sys) (fu : Fut) (t base : Nat) (hb : Baton s.m)
    (hodd : s.state % 2 = 1)
    (hnr : s.state = 1 → Ev.drop s.nr fu.id ≠ [] → 0 < cnt (Ev.drop s.nr fu.id)) :
    Live (pollWaitReaders s fu t base).s := by
  unfold pollWaitReaders
  simp only []
  split
  · rename_i h1
    refine ⟨hb, fun hc => by simp at hc <;> omega, ?_⟩
    intro _ hq
    simp only [dropNr_nr] at hq ⊢
    exact hnr h1 hq
  · rename_i h1
    have hbig : ¬ s.state / 2 = 0 := by omega
    split
    · exact ⟨hb, fun hc => by simp at hc <;> omega, fun hc => absurd hc hbig⟩
    · exact ⟨hb, fun hc => by simp at hc <;> omega, fun hc => absurd hc hbig⟩

theorem pollWaitReaders_live (s : Sys) (fu : Fut) (t base : Nat) (h : Live s)
    (hodd : s.state % 2 = 1) : Live (pollWaitReaders s fu t base).s :=
  pollWaitReaders_live' s fu t base h.baton hodd
    (fun h1 hq => Ev.drop_cnt_pos _ (h.nrI (by omega) (drop_ne_nil hq)) hq)

theorem pollUpgrade_live (s : Sys) (fu : Fut) (t : Nat) (h : Live s)
    (hodd : s.state % 2 = 1) : Live (pollUpgrade s fu t).s := by
  unfold pollUpgrade
  simp only []
  split
  · refine ⟨h.baton, fun hc => by simp at hc <;> omega, ?_⟩
    intro hc hq
    simp only [dropNr_state, dropNr_nr] at hc hq ⊢
    exact Ev.drop_cnt_pos _ (h.nrI hc (drop_ne_nil hq)) hq
  · rename_i h1
    have hbig : ¬ s.state / 2 = 0 := by omega
    (repeat' split) <;>
      exact ⟨h.baton, fun hc => by simp at hc <;> omega, fun hc => absurd hc hbig⟩

theorem pollUread_live (s : Sys) (fu : Fut) (t : Nat) (fire : Bool) (h : Live s)
    (hb : Baton (lockPoll s.m fu.l fu.id t fire).c) : Live (pollUread s fu t fire).s := by
  unfold pollUread
  simp only []
  split
  · exact ⟨hb, fun hc hq => h.nwI (by simp at hc <;> omega) hq, fun hc => by simp at hc <;> omega⟩
  · exact ⟨hb, h.nwI, h.nrI⟩

theorem pollWrite_live (s : Sys) (fu : Fut) (t : Nat) (fire : Bool) (h : Live s)
    (hb : fu.stage = .init → Baton (lockPoll s.m fu.l fu.id t fire).c)
    (hacq : fu.stage = .init → (lockPoll s.m fu.l fu.id t fire).ready = true →
      s.state % 2 = 0 ∧ s.nr = [])
    (hodd : fu.stage ≠ .init → s.state % 2 = 1) : Live (pollWrite s fu t fire).s := by
  unfold pollWrite
  cases hst : fu.stage with
  | init =>
    simp only []
    have hb' := hb hst
    have hacq' := hacq hst
    generalize lockPoll s.m fu.l fu.id t fire = lp at *
    split
    · rename_i hrdy
      obtain ⟨hev, hnil⟩ := hacq' hrdy
      refine pollWaitReaders_live' _ _ _ _ hb' (by simp; omega) ?_
      intro _ hq
      exfalso; apply hq
      simp [hnil, Ev.drop, Ev.listen, Ev.isNotified, Ev.erase]
    · exact ⟨hb', h.nwI, h.nrI⟩
  | waitReaders => exact pollWaitReaders_live s fu t 50 h (hodd (by simp [hst]))
  | done => exact pollWaitReaders_live s fu t 50 h (hodd (by simp [hst]))

end ALock.RwLock

namespace ALock.RwLock

theorem wakeinv_of {s s' : Sys} (wt : WT s') (lv : Live s')
    (hm : s.m = s'.m) (hr : s.nr = s'.nr) (hw : s.nw = s'.nw) (hs : s.state = s'.state) : WakeInv s :=
  ⟨⟨hm ▸ wt.wm, by rw [hm, hr]; exact wt.wr, by rw [hm, hw]; exact wt.ww, hm ▸ wt.tm, hr ▸ wt.tr,
    hw ▸ wt.tw⟩, hm ▸ lv.baton, by rw [hs, hw]; exact lv.nwI, by rw [hs, hr]; exact lv.nrI⟩

theorem state_odd_of_holder {s : Sys} (hw : WordInv s) (h1 : 1 ≤ nG s .write + nPW s + nPU s) :
    s.state % 2 = 1 := by
  obtain ⟨_, hsl, hwd, _⟩ := hw.unf
  simp only [nG_eq, nPW_eq, nPU_eq] at h1
  omega

theorem poll_wake (s : Sys) (hw : WordInv s) (hr : RegInv s) (h : WakeInv s) (f t : Nat)
    (fire : Bool) (fu : Fut) (hf : findFut s f = some fu) (hd : fu.stage ≠ .done) :
    WakeInv (afterPoll (pollFut { s with m := s.m.polled f } fu t fire) fu f t) := by
  obtain ⟨hmem, hid⟩ := findFut_mem hf
  have hfl := hw.flags fu hmem
  have hmq := hr.mreg fu hmem
  have hnr := hr.nrreg fu hmem
  have hnw := hr.nwreg fu hmem
  obtain ⟨q1, q2, q3, q4, _⟩ := afterPoll_queues (pollFut { s with m := s.m.polled f } fu t fire) fu f t
  have wte := h.wt.enter f
  have lv := h.live.polled f
  rw [← hid] at wte lv
  obtain ⟨hmw, hsl, hwd, hal⟩ := hw.unf
  have htk := tick_le_ticksL s.futs fu hmem
  have hev := ticksL_even s.futs
  -- generic closing step
  suffices hgoal : WT (pollFut { s with m := s.m.polled f } fu t fire).s ∧
      Live (pollFut { s with m := s.m.polled f } fu t fire).s from
    wakeinv_of hgoal.1 hgoal.2 q1 q2 q3 q4
  rw [← hid]
  cases hk : fu.kind with
  | read =>
    have hl0 := hfl.lockFree (Or.inl hk)
    simp only [pollFut, hk]
    exact ⟨pollRead_wt _ fu t wte (by simp [hmq, hl0, LockSt.waiting])
        (by simp only [hnr]; exact onNr_false_of_kind (Or.inl hk)),
      pollRead_live _ fu t lv⟩
  | uread =>
    have hus := hfl.ustage hk
    have hdn : fu.l.done = false := by
      cases hdd : fu.l.done
      · rfl
      · exact absurd (hus.1.mpr hdd) hd
    have hst2 : fu.l.starved = true → 2 ≤ (s.m.polled fu.id).st := by
      intro hsv
      have : fu.l.tick = 2 := (tick_two_iff _).mpr ⟨hsv, hdn⟩
      simp only [Core.polled_st]; omega
    have hb := lockPoll_baton (s.m.polled fu.id) fu.l fu.id t fire h.baton hdn hst2
      (fun _ he h2 => mq_ne_nil_of_starved hw hr he h2)
    simp only [pollFut, hk]
    exact ⟨pollUread_wt _ fu t fire wte
        (by simp only [hnr]; exact onNr_false_of_kind (Or.inr hk))
        (by simp only [hnw]; exact onNw_false_of_kind (by simp [hk]))
        (fun hsl' => by simp [hmq, LockSt.waiting, hsl']),
      pollUread_live _ fu t fire lv hb⟩
  | write =>
    have hws := hfl.wstage hk
    simp only [pollFut, hk]
    refine ⟨pollWrite_wt _ fu t fire wte
        (by simp only [hnw]; exact onNw_false_of_kind (by simp [hk])) ?_ ?_,
      pollWrite_live _ fu t fire lv ?_ ?_ ?_⟩
    · intro hst
      have hdn := hws.mp hst
      refine ⟨?_, fun hsl' => by simp [hmq, LockSt.waiting, hsl'], hdn, hfl.starvedSlow, by simpa using hmq⟩
      simp [hnr, Fut.onNr, Fut.isPW, Fut.isPU, hk, hst]
    · intro hst
      have hld : fu.l.done = true := by
        cases hdd : fu.l.done
        · exact absurd (hws.mpr hdd) hst
        · rfl
      simp [hmq, LockSt.waiting, hld]
    · intro hst
      have hdn := hws.mp hst
      have hst2 : fu.l.starved = true → 2 ≤ (s.m.polled fu.id).st := by
        intro hsv
        have : fu.l.tick = 2 := (tick_two_iff _).mpr ⟨hsv, hdn⟩
        simp only [Core.polled_st]; omega
      exact lockPoll_baton (s.m.polled fu.id) fu.l fu.id t fire h.baton hdn hst2
        (fun _ he h2 => mq_ne_nil_of_starved hw hr he h2)
    · intro hst hrdy
      have hdn := hws.mp hst
      have hst2 : fu.l.starved = true → 2 ≤ (s.m.polled fu.id).st := by
        intro hsv
        have : fu.l.tick = 2 := (tick_two_iff _).mpr ⟨hsv, hdn⟩
        simp only [Core.polled_st]; omega
      have hb := (lockPoll_ready_bit (s.m.polled fu.id) fu.l fu.id t fire hdn hfl.starvedSlow hst2).1 hrdy
      simp only [Core.polled_st] at hb
      have hown : nGL s.guards .write + nGL s.guards .uread + nPWL s.futs + nPUL s.futs = 0 := by omega
      show s.state % 2 = 0 ∧ s.nr = []
      exact ⟨by omega, nr_nil_of hr (by simp only [nPW_eq, nPU_eq]; omega)⟩
    · intro hst
      have hwr : fu.stage = .waitReaders := by
        cases hs : fu.stage <;> simp_all
      have h1 := ind_le_nPWL s.futs fu hmem
      simp only [ind, Fut.isPW, hk, hwr, beq_self_eq_true, Bool.and_self, if_true] at h1
      show s.state % 2 = 1
      exact state_odd_of_holder hw (by simp only [nPW_eq]; omega)
  | upgrade =>
    have hl0 := hfl.lockFree (Or.inr hk)
    have hst : fu.stage = .init := by
      have := hfl.rstage (Or.inr hk)
      cases hs : fu.stage <;> simp_all
    have h1 := ind_le_nPUL s.futs fu hmem
    simp only [ind, Fut.isPU, hk, hst] at h1
    have hodd : s.state % 2 = 1 := state_odd_of_holder hw (by simp only [nPU_eq]; simp at h1; omega)
    simp only [pollFut, hk]
    exact ⟨pollUpgrade_wt _ fu t wte (by simp [hmq, hl0, LockSt.waiting])
        (by simp only [hnw]; exact onNw_false_of_kind (by simp [hk])),
      pollUpgrade_live _ fu t lv hodd⟩

end ALock.RwLock

namespace ALock.RwLock

theorem WTE.notifyNw {f : Nat} {s : Sys} (h : WTE f s) : WTE f s.notifyNw :=
  ⟨wakeOKExcept_mono h.wm (fun x hx => List.mem_append_right _ hx),
   wakeOKExcept_mono h.wr (fun x hx => List.mem_append_right _ hx),
   Ev.notify_wakeOKExcept f false 1 s.nw s.m.woken h.ww h.tw.toExcept, h.tm, h.tr,
   Ev.notify_allTask _ _ _ h.tw⟩

theorem WTE.unlockM {f : Nat} {s : Sys} (h : WTE f s) : WTE f s.unlockM :=
  ⟨Ev.notify_wakeOKExcept f false 1 s.m.q s.m.woken h.wm h.tm.toExcept,
   wakeOKExcept_mono h.wr (fun x hx => List.mem_append_right _ hx),
   wakeOKExcept_mono h.ww (fun x hx => List.mem_append_right _ hx),
   Ev.notify_allTask _ _ _ h.tm, h.tr, h.tw⟩

theorem WTE.writeUnlock {f : Nat} {s : Sys} (h : WTE f s) : WTE f s.writeUnlock :=
  ((show WTE f ({ s with state := s.state - s.state % 2 } : Sys) from
    ⟨h.wm, h.wr, h.ww, h.tm, h.tr, h.tw⟩).notifyNw).unlockM

theorem WTE.toWT {f : Nat} {s : Sys} (h : WTE f s) (hm : Ev.has s.m.q f = false)
    (hr : Ev.has s.nr f = false) (hw : Ev.has s.nw f = false) : WT s :=
  ⟨wakeOK_of_except h.wm hm, wakeOK_of_except h.wr hr, wakeOK_of_except h.ww hw, h.tm,
   allTask_of_except h.tr hr, h.tw⟩

theorem Live.unlockM {s : Sys} (h : Live s) : Live s.unlockM :=
  ⟨unlock_baton s.m, h.nwI, h.nrI⟩

theorem Live.readUnlock {s : Sys} (h : Live s) (h2 : 2 ≤ s.state) : Live s.readUnlock := by
  unfold Sys.readUnlock
  split
  · refine ⟨h.baton, fun hc hq => h.nwI (by simp at hc; omega) hq, ?_⟩
    intro _ hq
    simp only [notifyNr_nr] at hq ⊢
    exact Ev.notify_cnt_pos false 1 _ (by omega) ((notify_ne_nil_iff _).mp hq)
  · rename_i h1
    refine ⟨h.baton, fun hc hq => h.nwI (by simp at hc; omega) hq, ?_⟩
    intro hc hq
    simp only [] at hc hq
    omega

theorem Live.writeUnlock {s : Sys} (h : Live s) : Live s.writeUnlock := by
  refine ⟨unlock_baton _, ?_, ?_⟩
  · intro _ hq
    simp only [Sys.writeUnlock, unlockM_nw, notifyNw_nw] at hq ⊢
    exact Ev.notify_cnt_pos false 1 _ (by omega) ((notify_ne_nil_iff _).mp hq)
  · intro hc hq
    simp only [Sys.writeUnlock, unlockM_nr, notifyNw_nr, unlockM_state, notifyNw_state] at hc hq ⊢
    exact h.nrI (by omega) hq

theorem Live.dropNr {s : Sys} (h : Live s) (f : Nat) : Live (s.dropNr f) := by
  refine ⟨h.baton, h.nwI, ?_⟩
  intro hc hq
  simp only [dropNr_state, dropNr_nr] at hc hq ⊢
  exact Ev.drop_cnt_pos _ (h.nrI hc (drop_ne_nil hq)) hq

theorem Live.dropNw {s : Sys} (h : Live s) (f : Nat) : Live (s.dropNw f) := by
  refine ⟨h.baton, ?_, h.nrI⟩
  intro hc hq
  simp only [dropNw_state, dropNw_nw] at hc hq ⊢
  exact Ev.drop_cnt_pos _ (h.nwI hc (drop_ne_nil hq)) hq

/-- `no_writer.notify(1)` establishes `nwI` whatever held before -/
theorem live_notifyNw {s : Sys} (hb : Baton s.m) (hnr : s.state / 2 = 0 → s.nr ≠ [] → 0 < cnt s.nr) :
    Live s.notifyNw := by
  refine ⟨hb, ?_, hnr⟩
  intro _ hq
  simp only [notifyNw_nw] at hq ⊢
  exact Ev.notify_cnt_pos false 1 _ (by omega) ((notify_ne_nil_iff _).mp hq)

theorem Live.notifyNw {s : Sys} (h : Live s) : Live s.notifyNw := by
  refine ⟨h.baton, ?_, h.nrI⟩
  intro _ hq
  simp only [notifyNw_nw] at hq ⊢
  exact Ev.notify_cnt_pos false 1 _ (by omega) ((notify_ne_nil_iff _).mp hq)

theorem dropFut_wake (s : Sys) (hw : WordInv s) (hr : RegInv s) (h : WakeInv s) (f : Nat) (fu : Fut)
    (hf : findFut s f = some fu) : WakeInv (next s (.dropFut f)) := by
  obtain ⟨hmem, hid⟩ := findFut_mem hf
  have hfl := hw.flags fu hmem
  have hmq := hr.mreg fu hmem
  have hnr := hr.nrreg fu hmem
  have hnw := hr.nwreg fu hmem
  rw [hid] at hmq hnr hnw
  have wte := h.wt.enter f
  have lv := h.live.polled f
  obtain ⟨hmw, hsl, hwd, hal⟩ := hw.unf
  have htk := tick_le_ticksL s.futs fu hmem
  simp only [next, step, hf]
  suffices hgoal : WT (dropFutS { s with m := s.m.polled f } fu) ∧
      Live (dropFutS { s with m := s.m.polled f } fu) from
    wakeinv_of hgoal.1 hgoal.2 rfl rfl rfl rfl
  cases hk : fu.kind with
  | read =>
    have hl0 := hfl.lockFree (Or.inl hk)
    simp only [dropFutS, hk, hid]
    exact ⟨wte.dropNw (by simp [hmq, hl0, LockSt.waiting])
      (by simp only [hnr]; exact onNr_false_of_kind (Or.inl hk)), lv.dropNw f⟩
  | uread =>
    have hr0 : Ev.has s.nr f = false := by simp only [hnr]; exact onNr_false_of_kind (Or.inr hk)
    have hw0 : Ev.has s.nw f = false := by simp only [hnw]; exact onNw_false_of_kind (by simp [hk])
    by_cases hsd : fu.stage = .done
    · have hld := (hfl.ustage hk).1.mp hsd
      simp only [dropFutS, hk, hsd, if_true]
      exact ⟨wte.toWT (by simp [hmq, LockSt.waiting, hld]) hr0 hw0, lv⟩
    · simp only [dropFutS, hk, hsd, if_false, hid]
      have lw := lockDrop_wake (s.m.polled f) fu.l f wte.wm wte.tm
      have sub := lockDrop_woken_sub (s.m.polled f) fu.l f
      have hb := lockDrop_baton (s.m.polled f) fu.l f h.baton
        (by intro h2; simp only [Core.polled_st]; omega)
      exact ⟨⟨lw.1, wakeOK_mono (wakeOK_of_except wte.wr hr0) sub,
          wakeOK_mono (wakeOK_of_except wte.ww hw0) sub, lw.2, allTask_of_except wte.tr hr0, wte.tw⟩,
        ⟨hb, lv.nwI, lv.nrI⟩⟩
  | write =>
    have hw0 : Ev.has s.nw f = false := by simp only [hnw]; exact onNw_false_of_kind (by simp [hk])
    cases hsg : fu.stage with
    | init =>
      have hr0 : Ev.has s.nr f = false := by simp [hnr, Fut.onNr, Fut.isPW, Fut.isPU, hk, hsg]
      simp only [dropFutS, hk, hsg, hid]
      have lw := lockDrop_wake (s.m.polled f) fu.l f wte.wm wte.tm
      have sub := lockDrop_woken_sub (s.m.polled f) fu.l f
      have hb := lockDrop_baton (s.m.polled f) fu.l f h.baton
        (by intro h2; simp only [Core.polled_st]; omega)
      exact ⟨⟨lw.1, wakeOK_mono (wakeOK_of_except wte.wr hr0) sub,
          wakeOK_mono (wakeOK_of_except wte.ww hw0) sub, lw.2, allTask_of_except wte.tr hr0, wte.tw⟩,
        ⟨hb, lv.nwI, lv.nrI⟩⟩
    | waitReaders =>
      have hld : fu.l.done = true := by
        cases hdd : fu.l.done
        · have := (hfl.wstage hk).mpr hdd; rw [hsg] at this; cases this
        · rfl
      simp only [dropFutS, hk, hsg, hid]
      have hm0 : Ev.has s.m.q f = false := by simp [hmq, LockSt.waiting, hld]
      refine ⟨wte.writeUnlock.dropNr ?_ ?_, lv.writeUnlock.dropNr f⟩
      · rw [(writeUnlock_has _ f).1]; exact hm0
      · rw [(writeUnlock_has _ f).2.2]; exact hw0
    | done =>
      have hld : fu.l.done = true := by
        cases hdd : fu.l.done
        · have := (hfl.wstage hk).mpr hdd; rw [hsg] at this; cases this
        · rfl
      simp only [dropFutS, hk, hsg]
      exact ⟨wte.toWT (by simp [hmq, LockSt.waiting, hld])
        (by simp [hnr, Fut.onNr, Fut.isPW, Fut.isPU, hk, hsg]) hw0, lv⟩
  | upgrade =>
    have hl0 := hfl.lockFree (Or.inr hk)
    have hm0 : Ev.has s.m.q f = false := by simp [hmq, hl0, LockSt.waiting]
    have hw0 : Ev.has s.nw f = false := by simp only [hnw]; exact onNw_false_of_kind (by simp [hk])
    by_cases hsd : fu.stage = .done
    · simp only [dropFutS, hk, hsd, if_true]
      exact ⟨wte.toWT hm0 (by simp [hnr, Fut.onNr, Fut.isPW, Fut.isPU, hk, hsd]) hw0, lv⟩
    · simp only [dropFutS, hk, hsd, if_false, hid]
      refine ⟨wte.writeUnlock.dropNr ?_ ?_, lv.writeUnlock.dropNr f⟩
      · rw [(writeUnlock_has _ f).1]; exact hm0
      · rw [(writeUnlock_has _ f).2.2]; exact hw0

end ALock.RwLock

namespace ALock.RwLock

theorem ge_two_of_guard {s : Sys} (hw : WordInv s) {g : Nat} {gu : Guard}
    (hg : findGuard s g = some gu) (hk : gu.kind = .read ∨ gu.kind = .uread) : 2 ≤ s.state := by
  obtain ⟨_, _, hwd, _⟩ := hw.unf
  have hm := (findGuard_mem hg).1
  rcases hk with hk | hk
  · have := ind_le_nGL s.guards gu .read hm
    simp [ind, hk] at this; omega
  · have := ind_le_nGL s.guards gu .uread hm
    simp [ind, hk] at this; omega

theorem step_wake (s : Sys) (op : Op) (hw : WordInv s) (hr : RegInv s) (h : WakeInv s) :
    WakeInv (next s op) := by
  have wt := h.wt
  have lv := h.live
  cases op with
  | start f k arc =>
    simp only [next, step]
    split
    · exact wakeinv_of wt lv rfl rfl rfl rfl
    · exact h
  | poll f t fire =>
    cases hf : findFut s f with
    | none => simp only [next, step, hf]; exact h
    | some fu =>
      by_cases hd : fu.stage = .done
      · simp only [next, step, hf, hd, if_true]; exact h
      · rw [step_poll_eq s f t fire fu hf hd]
        exact poll_wake s hw hr h f t fire fu hf hd
  | dropFut f =>
    cases hf : findFut s f with
    | none => simp only [next, step, hf]; exact h
    | some fu => exact dropFut_wake s hw hr h f fu hf
  | try_ g k arc =>
    simp only [next, step]
    split
    · cases k with
      | read =>
        simp only []
        split
        · rename_i he
          refine wakeinv_of (s' := { s with state := s.state + 2 }) ⟨wt.wm, wt.wr, wt.ww, wt.tm, wt.tr, wt.tw⟩
            ⟨lv.baton, fun hc hq => lv.nwI he hq, fun hc => by simp at hc <;> omega⟩ rfl rfl rfl rfl
        · exact h
      | uread =>
        simp only []
        split
        · refine wakeinv_of (s' := { s with m := { s.m with st := 1 }, state := s.state + 2 })
            ⟨wt.wm, wt.wr, wt.ww, wt.tm, wt.tr, wt.tw⟩
            ⟨fun hc => by simp at hc, fun hc hq => lv.nwI (by simp at hc; omega) hq,
              fun hc => by simp at hc <;> omega⟩ rfl rfl rfl rfl
        · exact h
      | write =>
        simp only []
        split
        · split
          · rename_i h0
            refine wakeinv_of (s' := { s with m := { s.m with st := 1 }, state := 1 })
              ⟨wt.wm, wt.wr, wt.ww, wt.tm, wt.tr, wt.tw⟩
              ⟨fun hc => by simp at hc, fun hc => by simp at hc, fun _ hq => lv.nrI (by omega) hq⟩
              rfl rfl rfl rfl
          · have wtu := unlock_wake ({ s.m with st := 1 } : Core) wt.wm wt.tm
            refine wakeinv_of (s' := { s with m := ({ s.m with st := 1 } : Core).unlock })
              ⟨wtu.1, wakeOK_mono wt.wr (fun x hx => List.mem_append_right _ hx),
                wakeOK_mono wt.ww (fun x hx => List.mem_append_right _ hx), wtu.2, wt.tr, wt.tw⟩
              ⟨unlock_baton _, lv.nwI, lv.nrI⟩ rfl rfl rfl rfl
        · exact h
    · exact h
  | dropGuard g =>
    cases hg : findGuard s g with
    | none => simp only [next, step, hg]; exact h
    | some gu =>
      simp only [next, step, hg]
      cases hk : gu.kind with
      | read =>
        exact wakeinv_of wt.readUnlock (lv.readUnlock (ge_two_of_guard hw hg (Or.inl hk))) rfl rfl rfl rfl
      | uread =>
        exact wakeinv_of wt.ureadUnlock
          (lv.readUnlock (ge_two_of_guard hw hg (Or.inr hk))).unlockM rfl rfl rfl rfl
      | write =>
        exact wakeinv_of wt.writeUnlock lv.writeUnlock rfl rfl rfl rfl
  | conv g c =>
    cases hg : findGuard s g with
    | none => simp only [next, step, hg]; exact h
    | some gu =>
      simp only [next, step, hg]
      have hgm := (findGuard_mem hg).1
      obtain ⟨hmw, hsl, hwd, hal⟩ := hw.unf
      cases hk : gu.kind <;> cases c <;> simp only [] <;> (try exact h)
      · -- U -> R
        exact wakeinv_of wt.unlockM lv.unlockM rfl rfl rfl rfl
      · -- try_upgrade
        split
        · rename_i h2
          have hu := ind_le_nGL s.guards gu .uread hgm
          simp [ind, hk] at hu
          have hnil : s.nr = [] := nr_nil_of hr (by simp only [nPW_eq, nPU_eq]; omega)
          refine wakeinv_of (s' := { s with state := 1 }) ⟨wt.wm, wt.wr, wt.ww, wt.tm, wt.tr, wt.tw⟩
            ⟨lv.baton, fun hc => by simp at hc, fun _ hq => absurd hnil hq⟩ rfl rfl rfl rfl
        · exact h
      · -- W -> R
        have base : WT ({ s with state := s.state + 1 } : Sys) := ⟨wt.wm, wt.wr, wt.ww, wt.tm, wt.tr, wt.tw⟩
        have lb := live_notifyNw (s := ({ s with state := s.state + 1 } : Sys).unlockM)
          (unlock_baton s.m) (fun hc hq => lv.nrI (by simp at hc; omega) hq)
        exact wakeinv_of base.unlockM.notifyNw lb rfl rfl rfl rfl
      · -- W -> U
        have base : WT ({ s with state := s.state + 1 } : Sys) := ⟨wt.wm, wt.wr, wt.ww, wt.tm, wt.tr, wt.tw⟩
        have lb := live_notifyNw (s := ({ s with state := s.state + 1 } : Sys))
          lv.baton (fun hc hq => lv.nrI (by simp at hc; omega) hq)
        exact wakeinv_of base.notifyNw lb rfl rfl rfl rfl
  | upgrade g f =>
    cases hg : findGuard s g with
    | none => simp only [next, step, hg]; exact h
    | some gu =>
      simp only [next, step, hg]
      split
      · rename_i hc
        simp only [Bool.and_eq_true, decide_eq_true_eq] at hc
        have hk : gu.kind = .uread := hc.1
        have hgm := (findGuard_mem hg).1
        obtain ⟨hmw, hsl, hwd, hal⟩ := hw.unf
        have hu := ind_le_nGL s.guards gu .uread hgm
        simp [ind, hk] at hu
        have hnil : s.nr = [] := nr_nil_of hr (by simp only [nPW_eq, nPU_eq]; omega)
        refine wakeinv_of (s' := { s with state := s.state - 1 }) ⟨wt.wm, wt.wr, wt.ww, wt.tm, wt.tr, wt.tw⟩
          ⟨lv.baton, fun hc2 => by simp at hc2; omega, fun _ hq => absurd hnil hq⟩ rfl rfl rfl rfl
      · exact h
  | hclone =>
    simp only [next, step]; split
    · exact wakeinv_of wt lv rfl rfl rfl rfl
    · exact h
  | hdrop =>
    simp only [next, step]; split
    · exact wakeinv_of wt lv rfl rfl rfl rfl
    · exact h

theorem run_all (s : Sys) (ops : List Op) (hw : WordInv s) (hr : RegInv s) (h : WakeInv s) :
    WordInv (run s ops) ∧ RegInv (run s ops) ∧ WakeInv (run s ops) := by
  induction ops generalizing s with
  | nil => exact ⟨hw, hr, h⟩
  | cons op ops ih => exact ih _ (step_word s op hw) (step_reg s op hw hr) (step_wake s op hw hr h)

theorem reachable_all (ops : List Op) :
    WordInv (run {} ops) ∧ RegInv (run {} ops) ∧ WakeInv (run {} ops) :=
  run_all _ ops init_word init_reg init_wake

end ALock.RwLock
