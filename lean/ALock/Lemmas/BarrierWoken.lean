import ALock.Lemmas.Barrier
import ALock.Lemmas.EventWoken

/-!
# Barrier: outstanding wake-ups never outnumber the pending waits
-/

namespace ALock.Barrier

theorem filter_ne_self {w : List Nat} {f : Nat} (h : f ∉ w) : w.filter (· != f) = w := by
  apply List.filter_eq_self.mpr
  intro a ha
  simp only [bne_iff_ne, ne_eq]
  intro hh
  subst hh
  exact h ha

theorem step_wok (s : Sys) (op : Op) (hi : BInv s) (h : WOK s.q s.woken) :
    WOK (next s op).q (next s op).woken := by
  unfold next
  cases op with
  | start f => simp only [step]; split <;> exact h
  | poll f t =>
    simp only [step]
    cases hf : findFut s f with
    | none => exact h
    | some fu =>
      simp only []
      obtain ⟨hm, hid⟩ := findFut_mem hf
      subst hid
      split
      · exact h
      · have hw1 : WOK s.q (s.woken.filter (· != fu.id)) := h.weaken List.filter_sublist
        have hreg := hi.reg fu hm
        simp only [pollWait]
        cases hpc : fu.pc with
        | initial =>
          simp only []
          have hh : Ev.has s.q fu.id = false := by rw [hreg, hpc]; rfl
          split
          · exact (hw1.listen fu.id hh).setTask fu.id t
          · simpa [Sys.notifyAll] using hw1.notify false (s.q.length + cnt s.q)
        | waiting lg =>
          simp only []
          split
          · exact hw1.setTask fu.id t
          · have he : WOK (Ev.erase s.q fu.id) (s.woken.filter (· != fu.id)) := h.erase fu.id
            split
            · exact (he.listen fu.id (Ev.has_erase_self _ _)).setTask fu.id t
            · exact he
        | done => simp only []; exact hw1
  | dropFut f =>
    simp only [step]
    cases hf : findFut s f with
    | none => exact h
    | some fu =>
      simp only []
      cases hpc : fu.pc with
      | waiting lg =>
        simp only [Sys.dropEv]
        have := h.drop f
        have e : (s.woken.filter (· != f)).filter (· != f) = s.woken.filter (· != f) := by
          simp [List.filter_filter]
        simpa using this
      | initial => simp only []; exact h.weaken List.filter_sublist
      | done => simp only []; exact h.weaken List.filter_sublist

theorem run_wok (s : Sys) (ops : List Op) (hi : BInv s) (h : WOK s.q s.woken) :
    WOK (run s ops).q (run s ops).woken := by
  induction ops generalizing s with
  | nil => exact h
  | cons op ops ih => exact ih _ (step_binv s op hi) (step_wok s op hi h)

/-- **outstanding wake-ups never outnumber the pending waits** -/
theorem woken_le (n : Nat) (ops : List Op) :
    (run { n := n } ops).woken.length ≤ (pendingPolled (run { n := n } ops)).length := by
  have hi := reachable_binv n ops
  have hc : WOK (run { n := n } ops).q (run { n := n } ops).woken :=
    run_wok _ ops (init_binv n) ⟨by simp [ownerIds], by simp, by simp⟩
  refine Nat.le_trans hc.length_le ?_
  have := nodup_subset_length (ownerIds (run { n := n } ops).q)
    ((pendingPolled (run { n := n } ops)).map (·.id)) hc.nq (by
    intro g hg
    have hh : Ev.has (run { n := n } ops).q g = true := by
      obtain ⟨e, he, heo⟩ := List.mem_map.mp hg
      simp only [Ev.has, List.any_eq_true, beq_iff_eq]; exact ⟨e, he, heo⟩
    obtain ⟨fu, hfu, hid⟩ := hi.rev g hh
    have hw : fu.pc.isWaiting = true := by rw [← hi.reg fu hfu, hid]; exact hh
    refine List.mem_map.mpr ⟨fu, ?_, hid⟩
    have hp : fu.polled = true := by
      apply (hi.polledOf fu hfu).mpr
      intro h0; rw [h0] at hw; cases hw
    have hnd : fu.pc ≠ .done := by
      intro h0; rw [h0] at hw; cases hw
    simp [pendingPolled, hfu, hp, hnd])
  simpa [ownerIds] using this

end ALock.Barrier
