import ALock.Lemmas.OnceCell
import ALock.Lemmas.EventWoken

/-!
# OnceCell: outstanding wake-ups never outnumber the registered listeners, nor the pending callers

The two events share one wake-up list: `W2 s := WOK (s.act ++ s.pas) s.woken`.
-/

namespace ALock.Once

def W2 (s : Sys) : Prop := WOK (s.act ++ s.pas) s.woken

theorem W2.weaken {s : Sys} (h : W2 s) (f : Nat) : W2 { s with woken := s.woken.filter (· != f) } :=
  WOK.weaken h List.filter_sublist

theorem W2.notifyAct1 {s : Sys} (h : W2 s) : W2 s.notifyAct1 := by
  simpa [W2, Sys.notifyAct1] using WOK.notify_ctx h false 1

theorem W2.guardDrop {s : Sys} (h : W2 s) : W2 s.guardDrop := by
  unfold Sys.guardDrop
  exact W2.notifyAct1 (s := { s with state := 0 }) h

theorem W2.notifyAll {s : Sys} (h : W2 s) : W2 s.notifyAll := by
  have h1 := WOK.notify_ctx h true s.act.length
  have h2 := WOK.notify_ctx (WOK.comm h1) true s.pas.length
  simpa [W2, Sys.notifyAll] using WOK.comm h2

theorem W2.dropAct {s : Sys} (h : W2 s) (f : Nat) (hf : f ∉ s.woken) : W2 (s.dropAct f) := by
  have := WOK.drop_ctx h f
  rw [List.filter_eq_self.mpr (fun a ha => by
    simp only [bne_iff_ne, ne_eq]; intro hh; subst hh; exact hf ha)] at this
  simpa [W2, Sys.dropAct] using this

theorem W2.dropPas {s : Sys} (h : W2 s) (f : Nat) (hf : f ∉ s.woken) : W2 (s.dropPas f) := by
  have := WOK.drop_ctx (WOK.comm h) f
  rw [List.filter_eq_self.mpr (fun a ha => by
    simp only [bne_iff_ne, ne_eq]; intro hh; subst hh; exact hf ha)] at this
  simpa [W2, Sys.dropPas] using WOK.comm this

/-- W2 only looks at the two queues and the wake-up list -/
theorem W2.congr {s s' : Sys} (h : W2 s) (ha : s'.act = s.act) (hp : s'.pas = s.pas)
    (hw : s'.woken = s.woken) : W2 s' := by
  unfold W2 at *; rw [ha, hp, hw]; exact h

theorem runInit_w2 (s : Sys) (fu : Fut) (i : Input) (h : W2 s) : W2 (runInit s fu i).s := by
  unfold runInit
  simp only []
  split
  · exact h
  · exact W2.notifyAll (s := { s with state := 2, value := _, nextSerial := _ }) h
  · split
    · exact h.guardDrop
    · exact h
  · exact h.guardDrop
  · exact h

theorem filter_not_mem (w : List Nat) (f : Nat) : f ∉ w.filter (· != f) := by simp

theorem step_w2 (s : Sys) (op : Op) (hr : RInv s) (h : W2 s) : W2 (next s op) := by
  unfold next
  cases op with
  | start f k =>
    simp only [step]; split
    · split <;> exact h
    · exact h
  | poll f t i =>
    simp only [step]
    cases hf : findFut s f with
    | none => exact h
    | some fu =>
      simp only []
      obtain ⟨hm, hid⟩ := findFut_mem hf
      subst hid
      split
      · exact h
      · have h0 := h.weaken fu.id
        have hA := hr.regA fu hm
        have hP := hr.regP fu hm
        refine W2.congr (s := (if fu.kind = .wait then pollWait { s with woken := s.woken.filter (· != fu.id) } fu t
          else pollInit { s with woken := s.woken.filter (· != fu.id) } fu t i).s) ?_ rfl rfl rfl
        split
        · -- wait(): passive_waiters
          rename_i hk
          have hA' : Ev.has s.act fu.id = false := by rw [hA]; simp [Fut.onAct, hk]
          unfold pollWait
          cases hpc : fu.pc with
          | start =>
            simp only []
            split
            · exact h0
            · have hh : Ev.has (s.pas ++ s.act) fu.id = false := by
                rw [has_append, hA', hP]; simp [Fut.onPas, hpc]
              have := (WOK.listen_ctx (WOK.comm h0) fu.id hh).setTask_ctx fu.id t
              exact WOK.comm this
          | waiting =>
            simp only []
            split
            · exact WOK.comm ((WOK.comm h0).setTask_ctx fu.id t)
            · have := (WOK.comm h).erase_ctx fu.id
              exact WOK.comm this
          | running => exact h0
          | done => exact h0
        · -- initialising callers: active_initializers
          rename_i hk
          have hP' : Ev.has s.pas fu.id = false := by rw [hP]; simp [Fut.onPas, hk]
          unfold pollInit
          cases hpc : fu.pc with
          | start =>
            simp only []
            split
            · exact h0
            · split
              · have hh : Ev.has (s.act ++ s.pas) fu.id = false := by
                  rw [has_append, hP', hA]; simp [Fut.onAct, hpc]
                exact (WOK.listen_ctx h0 fu.id hh).setTask_ctx fu.id t
              · exact runInit_w2 _ fu i h0
          | waiting =>
            simp only []
            split
            · exact WOK.setTask_ctx h0 fu.id t
            · have he : WOK (Ev.erase s.act fu.id ++ s.pas) (s.woken.filter (· != fu.id)) := h.erase_ctx fu.id
              split
              · exact he
              · split
                · have hh : Ev.has (Ev.erase s.act fu.id ++ s.pas) fu.id = false := by
                    rw [has_append, Ev.has_erase_self, hP']; rfl
                  exact (WOK.listen_ctx he fu.id hh).setTask_ctx fu.id t
                · exact runInit_w2 _ fu i he
          | running => exact runInit_w2 _ fu i h0
          | done => exact h0
  | dropFut f =>
    simp only [step]
    cases hf : findFut s f with
    | none => exact h
    | some fu =>
      simp only []
      obtain ⟨hm, hid⟩ := findFut_mem hf
      subst hid
      have h0 := h.weaken fu.id
      refine W2.congr (s := dropFutS { s with woken := s.woken.filter (· != fu.id) } fu) ?_ rfl rfl rfl
      unfold dropFutS
      split
      · exact W2.dropPas h0 fu.id (filter_not_mem _ _)
      · exact W2.dropAct h0 fu.id (filter_not_mem _ _)
      · exact h0.guardDrop
      · exact h0
  | get =>
    simp only [step]; split
    · exact h
    · split <;> exact h
  | take =>
    simp only [step]; split
    · split <;> exact h
    · exact h
  | dropCell =>
    simp only [step]; split
    · split <;> exact h
    · exact h

theorem run_w2 (s : Sys) (ops : List Op) (hw : WInv s) (hr : RInv s) (h : W2 s) : W2 (run s ops) := by
  induction ops generalizing s with
  | nil => exact h
  | cons op ops ih => exact ih _ (step_winv s op hw) (step_rinv s op hw hr) (step_w2 s op hr h)

theorem reachable_w2 (ops : List Op) : W2 (run {} ops) :=
  run_w2 _ ops init_winv init_rinv ⟨by simp [ownerIds], by simp, by simp⟩

/-- listeners ≤ pending callers, outstanding wake-ups ≤ listeners -/
theorem listeners_le (ops : List Op) :
    (run {} ops).act.length + (run {} ops).pas.length ≤ (pendingPolled (run {} ops)).length := by
  obtain ⟨hw, hr, _⟩ := reachable_all ops
  have hc := reachable_w2 ops
  have := nodup_subset_length (ownerIds ((run {} ops).act ++ (run {} ops).pas))
    ((pendingPolled (run {} ops)).map (·.id)) hc.nq (by
    intro g hg
    have hh : Ev.has ((run {} ops).act ++ (run {} ops).pas) g = true := by
      obtain ⟨e, he, heo⟩ := List.mem_map.mp hg
      simp only [Ev.has, List.any_eq_true, beq_iff_eq]; exact ⟨e, he, heo⟩
    rw [has_append, Bool.or_eq_true] at hh
    have key : ∃ fu ∈ (run {} ops).futs, fu.id = g ∧ fu.pc = .waiting := by
      rcases hh with hh | hh
      · obtain ⟨fu, hfu, hid⟩ := hr.revA g hh
        have : fu.onAct = true := by rw [← hr.regA fu hfu, hid]; exact hh
        simp only [Fut.onAct, Bool.and_eq_true, beq_iff_eq] at this
        exact ⟨fu, hfu, hid, this.2⟩
      · obtain ⟨fu, hfu, hid⟩ := hr.revP g hh
        have : fu.onPas = true := by rw [← hr.regP fu hfu, hid]; exact hh
        simp only [Fut.onPas, Bool.and_eq_true, beq_iff_eq] at this
        exact ⟨fu, hfu, hid, this.2⟩
    obtain ⟨fu, hfu, hid, hpc⟩ := key
    refine List.mem_map.mpr ⟨fu, ?_, hid⟩
    have hp := (hw.flags fu hfu).polledOf (by rw [hpc]; simp)
    simp [pendingPolled, hfu, hp, hpc])
  simpa [ownerIds] using this

theorem woken_le (ops : List Op) :
    (run {} ops).woken.length ≤ (pendingPolled (run {} ops)).length := by
  have := (reachable_w2 ops).length_le
  have := listeners_le ops
  simp only [List.length_append] at *
  omega

end ALock.Once
