/-! Generic list lemmas used for the per-future bookkeeping (update one element of a list with
pairwise distinct ids; remove it). -/

namespace ALock

theorem sum_map_update {α : Type} (l : List α) (id : α → Nat) (f : Nat) (g : α → α) (h : α → Nat)
    (x : α) (hn : (l.map id).Nodup) (hx : x ∈ l) (hxi : id x = f) :
    ((l.map fun y => if id y == f then g y else y).map h).sum + h x = (l.map h).sum + h (g x) := by
  induction l with
  | nil => cases hx
  | cons a t ih =>
    simp only [List.map_cons, List.nodup_cons] at hn
    rcases List.mem_cons.mp hx with rfl | hxt
    · -- x is the head: no other element has id f
      have hrest : (t.map fun y => if id y == f then g y else y) = t := by
        have : ∀ y ∈ t, (if id y == f then g y else y) = y := by
          intro y hy
          have : id y ≠ f := by
            intro hc; apply hn.1; simp only [List.mem_map]; exact ⟨y, hy, by rw [hc, hxi]⟩
          simp [this]
        calc (t.map fun y => if id y == f then g y else y) = t.map (fun y => y) :=
              List.map_congr_left this
          _ = t := by simp
      simp only [List.map_cons, hxi, beq_self_eq_true, if_true, hrest, List.sum_cons]
      omega
    · have hne : id a ≠ f := by
        intro hc; apply hn.1; simp only [List.mem_map]; exact ⟨x, hxt, by rw [hxi, hc]⟩
      have := ih hn.2 hxt
      have ha : (if id a == f then g a else a) = a := by simp [hne]
      rw [List.map_cons, ha, List.map_cons, List.map_cons, List.sum_cons, List.sum_cons]
      omega

theorem sum_map_filter_ne {α : Type} (l : List α) (id : α → Nat) (f : Nat) (h : α → Nat)
    (x : α) (hn : (l.map id).Nodup) (hx : x ∈ l) (hxi : id x = f) :
    ((l.filter fun y => id y != f).map h).sum + h x = (l.map h).sum := by
  induction l with
  | nil => cases hx
  | cons a t ih =>
    simp only [List.map_cons, List.nodup_cons] at hn
    rcases List.mem_cons.mp hx with rfl | hxt
    · have hrest : (t.filter fun y => id y != f) = t := by
        apply List.filter_eq_self.mpr
        intro y hy
        have : id y ≠ f := by
          intro hc; apply hn.1; simp only [List.mem_map]; exact ⟨y, hy, by rw [hc, hxi]⟩
        simp [this]
      simp only [List.filter_cons, hxi, bne_self_eq_false, Bool.false_eq_true, if_false, hrest,
        List.map_cons, List.sum_cons]
      omega
    · have hne : id a ≠ f := by
        intro hc; apply hn.1; simp only [List.mem_map]; exact ⟨x, hxt, by rw [hxi, hc]⟩
      have := ih hn.2 hxt
      have ha : (id a != f) = true := by simp [hne]
      rw [List.filter_cons, ha, if_pos rfl, List.map_cons, List.map_cons, List.sum_cons,
        List.sum_cons]
      omega

theorem nodup_map_update {α : Type} (l : List α) (id : α → Nat) (f : Nat) (g : α → α)
    (hg : ∀ y, id (g y) = id y) (hn : (l.map id).Nodup) :
    ((l.map fun y => if id y == f then g y else y).map id).Nodup := by
  have : (l.map fun y => if id y == f then g y else y).map id = l.map id := by
    rw [List.map_map]
    apply List.map_congr_left
    intro y _
    simp only [Function.comp]
    split <;> simp [hg]
  rw [this]; exact hn

theorem nodup_map_filter {α : Type} (l : List α) (id : α → Nat) (p : α → Bool)
    (hn : (l.map id).Nodup) : ((l.filter p).map id).Nodup :=
  List.Nodup.sublist (List.Sublist.map _ List.filter_sublist) hn

theorem mem_map_update {α : Type} {l : List α} {id : α → Nat} {f : Nat} {g : α → α} {x : α} :
    x ∈ (l.map fun y => if id y == f then g y else y) ↔
      ∃ y ∈ l, x = if id y == f then g y else y := by
  simp only [List.mem_map]
  constructor
  · rintro ⟨y, hy, rfl⟩; exact ⟨y, hy, rfl⟩
  · rintro ⟨y, hy, rfl⟩; exact ⟨y, hy, rfl⟩

/-- if every summand is 0 or 2 and the sum is at least 2, some summand is 2 -/
theorem exists_of_sum_ge {α : Type} (l : List α) (h : α → Nat) (h02 : ∀ x ∈ l, h x = 0 ∨ h x = 2)
    (hs : 2 ≤ (l.map h).sum) : ∃ x ∈ l, h x = 2 := by
  induction l with
  | nil => simp at hs
  | cons a t ih =>
    rcases h02 a List.mem_cons_self with h0 | h2
    · simp only [List.map_cons, List.sum_cons, h0, Nat.zero_add] at hs
      obtain ⟨x, hx, hx2⟩ := ih (fun x hx => h02 x (List.mem_cons_of_mem _ hx)) hs
      exact ⟨x, List.mem_cons_of_mem _ hx, hx2⟩
    · exact ⟨a, List.mem_cons_self, h2⟩

theorem le_sum_of_mem {α : Type} (l : List α) (h : α → Nat) (x : α) (hx : x ∈ l) :
    h x ≤ (l.map h).sum := by
  induction l with
  | nil => cases hx
  | cons a t ih =>
    simp only [List.map_cons, List.sum_cons]
    rcases List.mem_cons.mp hx with rfl | hxt
    · omega
    · have := ih hxt; omega

/-- removing the first element found by `find?` removes exactly its contribution to a sum -/
theorem sum_map_eraseP_find {α : Type} (l : List α) (p : α → Bool) (h : α → Nat) (x : α)
    (hf : l.find? p = some x) : ((l.eraseP p).map h).sum + h x = (l.map h).sum := by
  induction l with
  | nil => simp at hf
  | cons a t ih =>
    by_cases ha : p a = true
    · simp only [List.find?_cons, ha] at hf
      cases hf
      simp only [List.eraseP_cons, ha, cond_true, List.map_cons, List.sum_cons]
      omega
    · simp only [Bool.not_eq_true] at ha
      simp only [List.find?_cons, ha] at hf
      have := ih hf
      simp only [List.eraseP_cons, ha, cond_false, List.map_cons, List.sum_cons]
      omega

theorem eq_of_nodup_map {α : Type} {l : List α} {id : α → Nat} (hn : (l.map id).Nodup) {x y : α}
    (hx : x ∈ l) (hy : y ∈ l) (h : id x = id y) : x = y := by
  induction l with
  | nil => cases hx
  | cons a t ih =>
    simp only [List.map_cons, List.nodup_cons] at hn
    rcases List.mem_cons.mp hx with rfl | hx' <;> rcases List.mem_cons.mp hy with rfl | hy'
    · rfl
    · exfalso; apply hn.1; exact List.mem_map.mpr ⟨y, hy', h.symm⟩
    · exfalso; apply hn.1; exact List.mem_map.mpr ⟨x, hx', h⟩
    · exact ih hn.2 hx' hy'

theorem sum_map_zero {α : Type} (l : List α) (h : α → Nat) (h0 : ∀ x ∈ l, h x = 0) :
    (l.map h).sum = 0 := by
  induction l with
  | nil => rfl
  | cons a t ih =>
    simp only [List.map_cons, List.sum_cons, h0 a List.mem_cons_self,
      ih (fun x hx => h0 x (List.mem_cons_of_mem _ hx))]

theorem find_id_mem {α : Type} {l : List α} {id : α → Nat} {f : Nat} {x : α}
    (h : l.find? (fun y => id y == f) = some x) : x ∈ l ∧ id x = f := by
  have h1 := List.mem_of_find?_eq_some h
  have h2 := List.find?_some h
  exact ⟨h1, by simpa using h2⟩

theorem find_none_forall {α : Type} {l : List α} {id : α → Nat} {f : Nat}
    (h : (l.find? (fun y => id y == f)).isNone = true) : ∀ y ∈ l, id y ≠ f := by
  intro y hy hc
  simp only [Option.isNone_iff_eq_none, List.find?_eq_none] at h
  exact h y hy (by simp [hc])

end ALock

namespace ALock

theorem sum_map_update_same {α : Type} (l : List α) (p : α → Bool) (g : α → α) (h : α → Nat)
    (hg : ∀ x, h (g x) = h x) :
    ((l.map fun y => if p y then g y else y).map h).sum = (l.map h).sum := by
  induction l with
  | nil => rfl
  | cons a t ih =>
    simp only [List.map_cons, List.sum_cons, ih]
    split <;> simp [hg]

theorem nodup_cons_fresh {α : Type} (l : List α) (id : α → Nat) (x : α)
    (hn : (l.map id).Nodup) (hf : ∀ y ∈ l, id y ≠ id x) : ((x :: l).map id).Nodup := by
  simp only [List.map_cons, List.nodup_cons]
  refine ⟨?_, hn⟩
  intro hm
  obtain ⟨y, hy, hyi⟩ := List.mem_map.mp hm
  exact hf y hy hyi

end ALock

namespace ALock

/-- pointwise non-increasing update -/
theorem sum_map_map_le {α : Type} (l : List α) (g : α → α) (h : α → Nat)
    (hle : ∀ x ∈ l, h (g x) ≤ h x) : ((l.map g).map h).sum ≤ (l.map h).sum := by
  induction l with
  | nil => simp
  | cons a t ih =>
    have h1 := hle a (List.mem_cons_self ..)
    have h2 := ih (fun x hx => hle x (List.mem_cons_of_mem _ hx))
    simp only [List.map_cons, List.sum_cons]
    omega

/-- pointwise non-increasing update that drops by `d` at some member -/
theorem sum_map_map_drop {α : Type} (l : List α) (g : α → α) (h : α → Nat) (d : Nat)
    (hle : ∀ x ∈ l, h (g x) ≤ h x) (x : α) (hx : x ∈ l) (hd : h (g x) + d ≤ h x) :
    ((l.map g).map h).sum + d ≤ (l.map h).sum := by
  induction l with
  | nil => cases hx
  | cons a t ih =>
    simp only [List.map_cons, List.sum_cons]
    rcases List.mem_cons.mp hx with rfl | hxt
    · have := sum_map_map_le t g h (fun y hy => hle y (List.mem_cons_of_mem _ hy))
      omega
    · have h1 := hle a (List.mem_cons_self ..)
      have := ih (fun y hy => hle y (List.mem_cons_of_mem _ hy)) hxt
      omega

end ALock
