import ALock.AtomTrace
import ALock.Lemmas.MutexCore

/-! The word after a model step is the result of replaying the step's atomic operations. -/

set_option linter.unusedSimpArgs false

namespace ALock

/-- branch label and new word of `lockPoll`, as a decision table -/
def lockTable (c : Core) (l : LockSt) (f : Nat) (fire : Bool) (own : Bool) : Nat × Nat :=
  if !l.slow then
    if c.st = 0 then (1, 1) else if c.st = 1 then (2, 1) else (3, c.st + 2)
  else if !Ev.isNotified c.q f then (if l.starved then 11 else 4, c.st)
  else if !l.starved then
    if c.st = 0 then (5, 1)
    else if c.st = 1 then (if fire then (6, 3) else (7, 1))
    else if c.st % 2 = 1 then (8, c.st + 2)
    else if own then (9, c.st + 1) else (10, c.st + 2)
  else if c.st % 2 = 0 then (12, c.st + 1 - 2) else (13, c.st)

/-- "our own fresh listener got the notification" (branch 9 vs 10) -/
def ownNotified (c : Core) (f : Nat) : Bool :=
  Ev.isNotified ((((c.consume f).notify 1).starve.listen f).notify 1).q f

theorem lockPoll_table (c : Core) (l : LockSt) (f t : Nat) (fire : Bool) :
    ((lockPoll c l f t fire).br, (lockPoll c l f t fire).c.st) = lockTable c l f fire (ownNotified c f) := by
  unfold lockPoll lockTable ownNotified
  simp only []
  (repeat' split) <;> simp_all

@[simp] theorem cas01_ok (st : Nat) : (cas01 st).okOn st = true := by
  by_cases h : st = 0
  · subst h; rfl
  · simp [cas01, Atom.okOn, h]; omega
@[simp] theorem cas01_apply (st : Nat) : (cas01 st).apply st = if st = 0 then 1 else st := by
  by_cases h : st = 0
  · subst h; rfl
  · simp [cas01, Atom.apply, h]
@[simp] theorem cas23_ok (st : Nat) : (cas23 st).okOn st = true := by
  by_cases h : st = 2
  · subst h; rfl
  · simp [cas23, Atom.okOn, h]; omega
@[simp] theorem cas23_apply (st : Nat) : (cas23 st).apply st = if st = 2 then 3 else st := by
  by_cases h : st = 2
  · subst h; rfl
  · simp [cas23, Atom.apply, h]
@[simp] theorem fadd2_ok (st : Nat) : (fadd2 st).okOn st = true := by simp [fadd2, Atom.okOn]
@[simp] theorem fadd2_apply (st : Nat) : (fadd2 st).apply st = st + 2 := by simp [fadd2, Atom.apply]
@[simp] theorem fsub2_ok (st : Nat) : (fsub2 st).okOn st = true := by simp [fsub2, Atom.okOn]
@[simp] theorem fsub2_apply (st : Nat) : (fsub2 st).apply st = st - 2 := by simp [fsub2, Atom.apply]
@[simp] theorem fsub1_ok (st : Nat) : (fsub1 st).okOn st = true := by simp [fsub1, Atom.okOn]
@[simp] theorem fsub1_apply (st : Nat) : (fsub1 st).apply st = st - 1 := by simp [fsub1, Atom.apply]
@[simp] theorem for1_ok (st : Nat) : (for1 st).okOn st = true := by simp [for1, Atom.okOn]
@[simp] theorem for1_apply (st : Nat) : (for1 st).apply st = if st % 2 = 0 then st + 1 else st := by
  simp [for1, Atom.apply]

theorem table_atoms (st : Nat) (br st' : Nat) (slow starved fire nn own : Bool)
    (h : (br, st') =
      (if !slow then
        if st = 0 then (1, 1) else if st = 1 then (2, 1) else (3, st + 2)
      else if !nn then (if starved then 11 else 4, st)
      else if !starved then
        if st = 0 then (5, 1)
        else if st = 1 then (if fire then (6, 3) else (7, 1))
        else if st % 2 = 1 then (8, st + 2)
        else if own then (9, st + 1) else (10, st + 2)
      else if st % 2 = 0 then (12, st + 1 - 2) else (13, st))) :
    Atom.consistent st (atomsOfBr st br) = true ∧ Atom.run st (atomsOfBr st br) = st' := by
  cases slow <;> cases nn <;> cases starved <;> simp only [Bool.not_true, Bool.not_false,
    Bool.false_eq_true, if_true, if_false] at h
  all_goals
    (repeat' split at h) <;> (simp only [Prod.mk.injEq] at h; obtain ⟨rfl, rfl⟩ := h) <;>
    simp only [atomsOfBr, Atom.consistent, Atom.run, cas01_ok, cas01_apply, cas23_ok, cas23_apply,
      fadd2_ok, fadd2_apply, fsub2_ok, fsub2_apply, for1_ok, for1_apply, Bool.true_and, Bool.and_true] <;>
    (repeat' split) <;> (first | omega | (refine ⟨?_, ?_⟩ <;> simp_all <;> omega))

/-- **the poll's new word is the result of its atomic operations**, each seeing the value its
predecessor left — for every branch of `lockPoll` -/
theorem lockPoll_atoms_word (c : Core) (l : LockSt) (f t : Nat) (fire : Bool) :
    Atom.consistent c.st (lockAtoms c l f t fire) = true ∧
    Atom.run c.st (lockAtoms c l f t fire) = (lockPoll c l f t fire).c.st := by
  have h := lockPoll_table c l f t fire
  unfold lockTable at h
  exact table_atoms c.st _ _ l.slow l.starved fire (Ev.isNotified c.q f) (ownNotified c f) h

end ALock
