import ALock.Lemmas.Mutex

/-!
# Queue shape of `lock_ops` under atomic polls (for C13, FIFO among later arrivals)

`HD q`: only the head of the queue can be notified (with the non-additional `notify(1)` used by the
mutex at most one entry is notified at a time, and it is the oldest).
`QI c`: `HD` plus "while some operation is starved (`st ≥ 2`), an outstanding notification implies
that the mutex is unlocked" — with atomic polls nobody can barge in between the unlock that sent the
notification and the poll of the notified operation.
-/

set_option linter.unusedSimpArgs false
set_option linter.unusedVariables false

namespace ALock

/-- only the head may be notified -/
def HD (q : List Entry) : Prop := ∀ e ∈ q.tail, e.notified = false

theorem HD.nil : HD [] := by intro e he; cases he

theorem HD.cnt_le {q : List Entry} (h : HD q) : cnt q ≤ 1 := by
  cases q with
  | nil => simp [cnt]
  | cons a t =>
    have : cnt t = 0 := by
      simp only [cnt, List.countP_eq_zero]
      intro e he; simp [h e he]
    simp only [cnt, List.countP_cons] at this ⊢
    split <;> omega

theorem HD.tail_cnt {a : Entry} {t : List Entry} (h : HD (a :: t)) : cnt t = 0 := by
  simp only [cnt, List.countP_eq_zero]
  intro e he; simp [h e he]

theorem HD.filter {q : List Entry} (h : HD q) (p : Entry → Bool) : HD (q.filter p) := by
  cases q with
  | nil => exact HD.nil
  | cons a t =>
    have ht : ∀ e ∈ t, e.notified = false := h
    intro e he
    simp only [List.filter_cons] at he
    split at he
    · exact ht e (List.mem_filter.mp he).1
    · exact ht e (List.mem_filter.mp (List.mem_of_mem_tail he)).1

theorem HD.erase {q : List Entry} (h : HD q) (f : Nat) : HD (Ev.erase q f) := h.filter _

theorem HD.setTask {q : List Entry} (h : HD q) (f t : Nat) : HD (Ev.setTask q f t) := by
  cases q with
  | nil => exact HD.nil
  | cons a tl =>
    intro e he
    simp only [Ev.setTask, List.map_cons, List.tail_cons, List.mem_map] at he
    obtain ⟨x, hx, rfl⟩ := he
    have := h x hx
    split <;> simp [this]

theorem HD.listen {q : List Entry} (h : HD q) (f : Nat) : HD (Ev.listen q f) := by
  cases q with
  | nil => simp [HD, Ev.listen]
  | cons a t =>
    intro e he
    simp only [Ev.listen, List.cons_append, List.tail_cons, List.mem_append, List.mem_singleton] at he
    rcases he with he | rfl
    · exact h e he
    · rfl

theorem notifyQ_zero (add : Bool) (q : List Entry) : notifyQ add 0 q = q := by
  cases q <;> simp [notifyQ]

theorem HD.notify1 {q : List Entry} (h : HD q) : HD (Ev.notify false 1 q) := by
  cases q with
  | nil => rw [Ev.notify_nil]; exact HD.nil
  | cons a t =>
    have ht := h.tail_cnt
    unfold Ev.notify notifyK
    simp only [Bool.false_eq_true, if_false]
    by_cases ha : a.notified = true
    · have : cnt (a :: t) = 1 := by simp [cnt, List.countP_cons, ha] at ht ⊢; omega
      simp only [this, Nat.sub_self, notifyQ_zero]; exact h
    · have hc : cnt (a :: t) = 0 := by simp [cnt, List.countP_cons, ha] at ht ⊢; omega
      simp only [hc, Nat.sub_zero, notifyQ, ha, Bool.false_eq_true, if_false, notifyQ_zero]
      exact h

/-- no entry carries the `additional` flag (the mutex only uses `notify`, never `notify_additional`) -/
def NA (q : List Entry) : Prop := ∀ e ∈ q, e.additional = false

theorem NA.nil : NA [] := by intro e he; cases he

theorem NA.erase {q : List Entry} (h : NA q) (f : Nat) : NA (Ev.erase q f) :=
  fun e he => h e (List.mem_filter.mp he).1

theorem NA.listen {q : List Entry} (h : NA q) (f : Nat) : NA (Ev.listen q f) := by
  intro e he
  simp only [Ev.listen, List.mem_append, List.mem_singleton] at he
  rcases he with he | rfl
  · exact h e he
  · rfl

theorem NA.setTask {q : List Entry} (h : NA q) (f t : Nat) : NA (Ev.setTask q f t) := by
  intro e he
  simp only [Ev.setTask, List.mem_map] at he
  obtain ⟨x, hx, rfl⟩ := he
  have := h x hx
  split <;> simp [this]

theorem notifyQ_na (n : Nat) (q : List Entry) (h : NA q) : NA (notifyQ false n q) := by
  fun_induction notifyQ false n q <;> simp_all [NA]

theorem NA.notify {q : List Entry} (h : NA q) (n : Nat) : NA (Ev.notify false n q) :=
  notifyQ_na _ q h

theorem NA.addOf {q : List Entry} (h : NA q) (f : Nat) : Ev.addOf q f = false := by
  simp only [Ev.addOf, List.any_eq_false, Bool.and_eq_true, not_and, Bool.not_eq_true]
  intro e he _; exact h e he

theorem HD.drop {q : List Entry} (h : HD q) (hn : NA q) (f : Nat) : HD (Ev.drop q f) := by
  unfold Ev.drop
  split
  · rw [hn.addOf]; exact (h.erase f).notify1
  · exact h.erase f

theorem NA.drop {q : List Entry} (hn : NA q) (f : Nat) : NA (Ev.drop q f) := by
  unfold Ev.drop
  split
  · rw [hn.addOf]; exact (hn.erase f).notify 1
  · exact hn.erase f

/-- if `f`'s entry is the notified one, nothing is notified once it is removed -/
theorem HD.cnt_erase_notified {q : List Entry} (h : HD q) {f : Nat} (hf : Ev.isNotified q f = true) :
    cnt (Ev.erase q f) = 0 := by
  cases q with
  | nil => simp [Ev.isNotified] at hf
  | cons a t =>
    have ht : ∀ e ∈ t, e.notified = false := h
    simp only [Ev.isNotified, List.any_cons, Bool.or_eq_true, Bool.and_eq_true, beq_iff_eq,
      List.any_eq_true] at hf
    have haf : a.owner = f := by
      rcases hf with h1 | ⟨e, he, _, hen⟩
      · exact h1.1
      · rw [ht e he] at hen; cases hen
    simp only [cnt, Ev.erase, List.countP_eq_zero, List.mem_filter]
    intro e he
    rcases List.mem_cons.mp he.1 with rfl | het
    · simp [haf] at he
    · simp [ht e het]

end ALock

namespace ALock

structure QI (c : Core) : Prop where
  hd : HD c.q
  na : NA c.q
  /-- while some operation is starved, an outstanding notification implies the mutex is unlocked -/
  p1 : 2 ≤ c.st → 0 < cnt c.q → c.st % 2 = 0

theorem cnt_pos_of_isNotified {q : List Entry} {f : Nat} (h : Ev.isNotified q f = true) : 0 < cnt q := by
  obtain ⟨e, he, _, hn⟩ := Ev.isNotified_iff.mp h
  exact (cnt_pos_iff q).mpr ⟨e, he, hn⟩

theorem cnt_pend' (q : List Entry) (f t : Nat) : cnt (Ev.setTask (Ev.listen q f) f t) = cnt q := by
  rw [Ev.cnt_setTask, Ev.cnt_listen]

theorem lockPoll_qi (c : Core) (l : LockSt) (f t : Nat) (fire : Bool) (h : QI c) :
    QI (lockPoll c l f t fire).c := by
  obtain ⟨hd, na, p1⟩ := h
  unfold lockPoll
  split
  · -- first poll
    split
    · exact ⟨hd, na, by intro h2; simp at h2⟩
    · split
      · rename_i h1
        exact ⟨(hd.listen f).setTask f t, (na.listen f).setTask f t, by intro h2; simp [h1] at h2⟩
      · rename_i h0 h1
        refine ⟨(hd.listen f).setTask f t, (na.listen f).setTask f t, ?_⟩
        intro _ hc
        simp only [Core.setTask_q, Core.starve_q, Core.listen_q, cnt_pend', Core.setTask_st,
          Core.starve_st, Core.listen_st] at hc ⊢
        have := p1 (by omega) hc
        omega
  · split
    · -- not notified
      refine ⟨hd.setTask f t, na.setTask f t, ?_⟩
      intro h2 hc
      simp only [Core.setTask_q, Ev.cnt_setTask, Core.setTask_st] at h2 hc ⊢
      exact p1 h2 hc
    · rename_i hnot
      have hn : Ev.isNotified c.q f = true := by simpa using hnot
      have hc0 := hd.cnt_erase_notified hn
      have hcp := cnt_pos_of_isNotified hn
      split
      · -- not starved
        split
        · exact ⟨hd.erase f, na.erase f, by intro h2; simp at h2⟩
        · split
          · rename_i h1
            split
            · refine ⟨((hd.erase f).listen f).setTask f t, ((na.erase f).listen f).setTask f t, ?_⟩
              intro _ hc
              simp only [Core.setTask_q, Core.listen_q, Core.starve_q, Core.consume_q, cnt_pend', hc0] at hc
              omega
            · exact ⟨((hd.erase f).listen f).setTask f t, ((na.erase f).listen f).setTask f t,
                by intro h2; simp [h1] at h2⟩
          · rename_i h0 h1
            have he := p1 (by omega) hcp
            have hd1 : HD (Ev.listen (Ev.notify false 1 (Ev.erase c.q f)) f) := ((hd.erase f).notify1).listen f
            have na1 : NA (Ev.listen (Ev.notify false 1 (Ev.erase c.q f)) f) := ((na.erase f).notify 1).listen f
            simp only []
            split
            · omega
            · split
              · -- our own fresh listener got the notification
                rename_i _ hself
                refine ⟨(hd1.notify1).erase f, (na1.notify 1).erase f, ?_⟩
                intro _ hc
                simp only [Core.consume_q, Core.notify_q, Core.listen_q, Core.starve_q] at hc hself
                have := (hd1.notify1).cnt_erase_notified hself
                omega
              · refine ⟨(hd1.notify1).setTask f t, (na1.notify 1).setTask f t, ?_⟩
                intro _ _
                simp only [Core.setTask_st, Core.notify_st, Core.listen_st, Core.starve_st, Core.consume_st]
                omega
      · -- starved
        split
        · refine ⟨hd.erase f, na.erase f, ?_⟩
          intro _ hc
          simp only [Core.consume_q, hc0] at hc
          omega
        · refine ⟨((hd.erase f).listen f).setTask f t, ((na.erase f).listen f).setTask f t, ?_⟩
          intro _ hc
          simp only [Core.setTask_q, Core.listen_q, Core.consume_q, cnt_pend', hc0] at hc
          omega

theorem lockDrop_qi (c : Core) (l : LockSt) (f : Nat) (h : QI c) : QI (lockDrop c l f) := by
  obtain ⟨hd, na, p1⟩ := h
  unfold lockDrop
  simp only []
  split
  · refine ⟨hd.drop na f, na.drop f, ?_⟩
    intro h2 hc
    simp only [Core.dropListener_q, Core.dropListener_st] at h2 hc ⊢
    have := p1 (by omega) (Ev.cnt_drop_pos hc)
    omega
  · refine ⟨hd.drop na f, na.drop f, ?_⟩
    intro h2 hc
    simp only [Core.dropListener_q, Core.dropListener_st] at h2 hc ⊢
    exact p1 h2 (Ev.cnt_drop_pos hc)

theorem unlock_qi (c : Core) (h : QI c) (hodd : c.st % 2 = 1) : QI c.unlock := by
  obtain ⟨hd, na, p1⟩ := h
  refine ⟨hd.notify1, na.notify 1, ?_⟩
  intro _ _
  simp only [Core.unlock, Core.notify_st]
  omega

end ALock

namespace ALock.Mutex

theorem qi_polled {c : Core} (f : Nat) (h : QI c) : QI (c.polled f) := ⟨h.hd, h.na, h.p1⟩

theorem step_qi (s : Sys) (op : Op) (hi : MInv s) (h : QI s.c) : QI (next s op).c := by
  unfold next
  cases op with
  | start f arc => simp only [step]; split <;> exact h
  | poll f t fire =>
    simp only [step]
    split
    · split
      · exact h
      · split <;> exact lockPoll_qi _ _ _ _ _ (qi_polled f h)
    · exact h
  | dropFut f =>
    simp only [step]
    split
    · exact lockDrop_qi _ _ _ (qi_polled f h)
    · exact h
  | tryLock g arc =>
    simp only [step]
    split
    · split
      · exact ⟨h.hd, h.na, by intro h2; simp at h2⟩
      · exact h
    · exact h
  | dropGuard g =>
    simp only [step]
    split
    · rename_i gu hg
      have hodd : s.c.st % 2 = 1 := by
        have hw := hi.word
        have he := hi.excl
        have hev := ticks_even s
        have : 1 ≤ s.guards.length := by
          have := (findGuard_mem hg).1
          cases hgl : s.guards with
          | nil => rw [hgl] at this; cases this
          | cons _ _ => simp
        omega
      exact unlock_qi _ h hodd
    · exact h
  | hclone => simp only [step]; split <;> exact h
  | hdrop => simp only [step]; split <;> exact h

theorem reachable_qi (ops : List Op) : QI (run {} ops).c := by
  have : ∀ s : Sys, MInv s → QI s.c → QI (run s ops).c := by
    induction ops with
    | nil => intro s _ h; exact h
    | cons op ops ih => intro s hi h; exact ih _ (step_inv s op hi) (step_qi s op hi h)
  exact this _ init_inv ⟨HD.nil, NA.nil, by intro h; simp at h⟩

end ALock.Mutex

namespace ALock

/-! ### owners of the queue -/

def owners (q : List Entry) : List Nat := q.map (·.owner)

theorem owners_erase (q : List Entry) (f : Nat) : owners (Ev.erase q f) = (owners q).filter (· != f) := by
  induction q with
  | nil => rfl
  | cons a t ih =>
    simp only [owners, Ev.erase, List.filter_cons, List.map_cons] at ih ⊢
    by_cases ha : a.owner = f <;> simp [ha, ih]

theorem owners_listen (q : List Entry) (f : Nat) : owners (Ev.listen q f) = owners q ++ [f] := by
  simp [owners, Ev.listen]

theorem owners_setTask (q : List Entry) (f t : Nat) : owners (Ev.setTask q f t) = owners q :=
  Ev.setTask_owners q f t

theorem owners_notify (add : Bool) (n : Nat) (q : List Entry) : owners (Ev.notify add n q) = owners q :=
  Ev.notify_owners add n q

theorem owners_drop (q : List Entry) (f : Nat) : owners (Ev.drop q f) = (owners q).filter (· != f) := by
  unfold Ev.drop
  split
  · rw [owners_notify, owners_erase]
  · rw [owners_erase]

theorem mem_owners_of_has {q : List Entry} {f : Nat} (h : Ev.has q f = true) : f ∈ owners q := by
  obtain ⟨e, he, hf⟩ := Ev.has_iff.mp h
  exact List.mem_map.mpr ⟨e, he, hf⟩

/-- what one poll of `g` does to the order of the queue -/
inductive OwEff (g : Nat) (ow ow' : List Nat) : Prop
  | same : ow' = ow → OwEff g ow ow'
  | app : ow' = ow ++ [g] → OwEff g ow ow'
  | del : ow' = ow.filter (· != g) → OwEff g ow ow'
  | move : ow' = ow.filter (· != g) ++ [g] → OwEff g ow ow'

theorem filter_append_self_ne (l : List Nat) (g : Nat) :
    (l ++ [g]).filter (· != g) = l.filter (· != g) := by simp

theorem filter_filter_ne (l : List Nat) (g : Nat) :
    (l.filter (· != g)).filter (· != g) = l.filter (· != g) := by simp

theorem lockPoll_owners (c : Core) (l : LockSt) (g t : Nat) (fire : Bool) :
    OwEff g (owners c.q) (owners (lockPoll c l g t fire).c.q) := by
  unfold lockPoll
  simp only []
  (repeat' split) <;>
    simp only [Core.setTask_q, Core.listen_q, Core.starve_q, Core.consume_q, Core.notify_q,
      owners_setTask, owners_listen, owners_erase, owners_notify, filter_append_self_ne,
      filter_filter_ne] <;>
    first
      | exact .same rfl
      | exact .app rfl
      | exact .del rfl
      | exact .move rfl

/-- a starved, un-notified operation only refreshes its waker -/
theorem lockPoll_unnotified (c : Core) (l : LockSt) (g t : Nat) (fire : Bool) (hs : l.slow = true)
    (hn : Ev.isNotified c.q g = false) :
    owners (lockPoll c l g t fire).c.q = owners c.q ∧ (lockPoll c l g t fire).l = l ∧
    (lockPoll c l g t fire).ready = false := by
  unfold lockPoll
  simp [hs, hn, owners_setTask]

/-- a starved, notified operation acquires when the mutex is unlocked -/
theorem lockPoll_starved_notified (c : Core) (l : LockSt) (g t : Nat) (fire : Bool) (hs : l.slow = true)
    (hst : l.starved = true) (hn : Ev.isNotified c.q g = true) (he : c.st % 2 = 0) :
    (lockPoll c l g t fire).l.done = true := by
  unfold lockPoll
  simp [hs, hn, hst, he]

/-- with some operation starved (`st ≥ 2`), an operation that is not notified and whose slow path
is the starved one stays pending, and becomes (or stays) starved -/
theorem lockPoll_late (c : Core) (l : LockSt) (g t : Nat) (fire : Bool) (h2 : 2 ≤ c.st)
    (hd : l.done = false) (hss : l.slow = true → l.starved = true)
    (hn : l.slow = true → Ev.isNotified c.q g = false) :
    (lockPoll c l g t fire).l.done = false ∧
    ((lockPoll c l g t fire).l.slow = true → (lockPoll c l g t fire).l.starved = true) := by
  unfold lockPoll
  cases hs : l.slow
  · have h0 : ¬ c.st = 0 := by omega
    have h1 : ¬ c.st = 1 := by omega
    simp [h0, h1, hd]
  · simp [hn hs, hss hs, hd, hs]

/-! ### "everybody in front of `f` arrived before `f` was starved" -/

def okO (f : Nat) (early : List Nat) : List Nat → Prop
  | [] => True
  | x :: xs => x = f ∨ (x ∈ early ∧ okO f early xs)

theorem okO_filter {f g : Nat} {early l : List Nat} (hg : g ≠ f) (h : okO f early l) :
    okO f early (l.filter (· != g)) := by
  induction l with
  | nil => exact h
  | cons x xs ih =>
    simp only [List.filter_cons]
    rcases h with rfl | ⟨hx, hxs⟩
    · have : (x != g) = true := by simp [Ne.symm hg]
      rw [this]; exact Or.inl rfl
    · split
      · exact Or.inr ⟨hx, ih hxs⟩
      · exact ih hxs

theorem okO_append {f g : Nat} {early l : List Nat} (hf : f ∈ l) (h : okO f early l) :
    okO f early (l ++ [g]) := by
  induction l with
  | nil => cases hf
  | cons x xs ih =>
    rcases h with rfl | ⟨hx, hxs⟩
    · exact Or.inl rfl
    · rcases List.mem_cons.mp hf with rfl | hf'
      · exact Or.inl rfl
      · exact Or.inr ⟨hx, ih hf' hxs⟩

theorem okO_early_filter {f g : Nat} {early l : List Nat} (hl : ∀ x ∈ l, x ≠ g) (h : okO f early l) :
    okO f (early.filter (· != g)) l := by
  induction l with
  | nil => trivial
  | cons x xs ih =>
    rcases h with rfl | ⟨hx, hxs⟩
    · exact Or.inl rfl
    · refine Or.inr ⟨?_, ih (fun y hy => hl y (List.mem_cons_of_mem _ hy)) hxs⟩
      exact List.mem_filter.mpr ⟨hx, by simp [hl x (List.mem_cons_self ..)]⟩

theorem okO_of_eff {f g : Nat} {early ow ow' : List Nat} (hg : g ≠ f) (hf : f ∈ ow)
    (h : okO f early ow) (e : OwEff g ow ow') : okO f early ow' := by
  cases e with
  | same h1 => rw [h1]; exact h
  | app h1 => rw [h1]; exact okO_append hf h
  | del h1 => rw [h1]; exact okO_filter hg h
  | move h1 =>
    rw [h1]
    refine okO_append ?_ (okO_filter hg h)
    exact List.mem_filter.mpr ⟨hf, by simp [Ne.symm hg]⟩

/-- a notified entry is the head of the queue: its owner is `f` or arrived early -/
theorem notified_is_early {q : List Entry} {f g : Nat} {early : List Nat} (hd : HD q)
    (ho : okO f early (owners q)) (hn : Ev.isNotified q g = true) : g = f ∨ g ∈ early := by
  cases q with
  | nil => simp [Ev.isNotified] at hn
  | cons a t =>
    have ht : ∀ e ∈ t, e.notified = false := hd
    obtain ⟨e, he, hoe, hne⟩ := Ev.isNotified_iff.mp hn
    have hea : e = a := by
      rcases List.mem_cons.mp he with h | h
      · exact h
      · rw [ht e h] at hne; cases hne
    subst hea
    simp only [owners, List.map_cons] at ho
    rcases ho with h | ⟨h, _⟩
    · exact Or.inl (hoe ▸ h)
    · exact Or.inr (hoe ▸ h)

end ALock

namespace ALock.Mutex

/-- A lock operation is *starved* once it has executed `fetch_add(2)`; it stays so until it
completes or is dropped. -/
def StarvedLive' (s : Sys) (f : Nat) : Prop :=
  ∃ fu ∈ s.futs, fu.id = f ∧ fu.l.starved = true ∧ fu.l.done = false

/-- the set of early arrivals shrinks when one of them is dropped (its id may be reused later) -/
def earlyAfter (early : List Nat) : Op → List Nat
  | .dropFut g => early.filter (· != g)
  | _ => early

/-- relative to a starved operation `f` and the operations `early` that existed when it became so -/
structure FI (f : Nat) (early : List Nat) (s : Sys) : Prop where
  order : okO f early (owners s.c.q)
  /-- a later arrival has not acquired, and if it is on the slow path it is starved too -/
  late : ∀ fu ∈ s.futs, fu.id ∉ early → fu.l.done = false ∧ (fu.l.slow = true → fu.l.starved = true)
  alive : ∀ x ∈ early, ∃ fu ∈ s.futs, fu.id = x
  fe : f ∈ early

theorem starved_facts {s : Sys} (hi : MInv s) {f : Nat} (h : StarvedLive' s f) :
    2 ≤ s.c.st ∧ f ∈ owners s.c.q := by
  obtain ⟨fu, hfu, hid, hs, hd⟩ := h
  have h1 := tick_le_ticks _ fu hfu
  have h2 : fu.l.tick = 2 := (tick_two_iff _).mpr ⟨hs, hd⟩
  have hw := hi.word
  refine ⟨by omega, ?_⟩
  have hslow := (hi.flags fu hfu).starvedSlow hs
  have := hi.reg fu hfu
  simp only [LockSt.waiting, hslow, hd, Bool.not_false, Bool.and_self] at this
  exact hid ▸ mem_owners_of_has this

theorem fi_step (s : Sys) (op : Op) (hi : MInv s) (hq : QI s.c) (f : Nat) (early : List Nat)
    (hf : StarvedLive' s f) (hf' : StarvedLive' (next s op) f) (h : FI f early s) :
    FI f (earlyAfter early op) (next s op) := by
  obtain ⟨h2, hfo⟩ := starved_facts hi hf
  obtain ⟨fuf, hfuf, hfid, hfs, hfd⟩ := hf
  have hfslow := (hi.flags fuf hfuf).starvedSlow hfs
  unfold next at hf' ⊢
  cases op with
  | start g arc =>
    simp only [step, earlyAfter] at hf' ⊢
    split
    · rename_i hc
      simp only [Bool.and_eq_true, decide_eq_true_eq] at hc
      refine ⟨h.order, ?_, ?_, h.fe⟩
      · intro fu hfu hne
        rcases List.mem_cons.mp hfu with rfl | hfu
        · exact ⟨rfl, by intro hh; cases hh⟩
        · exact h.late fu hfu hne
      · intro x hx
        obtain ⟨fu, hfu, hxi⟩ := h.alive x hx
        exact ⟨fu, List.mem_cons_of_mem _ hfu, hxi⟩
    · exact h
  | tryLock g arc =>
    have hne : ¬ s.c.st = 0 := by omega
    simp only [step, earlyAfter, hne, if_false]
    split <;> exact h
  | hclone => simp only [step, earlyAfter]; split <;> exact ⟨h.order, h.late, h.alive, h.fe⟩
  | hdrop => simp only [step, earlyAfter]; split <;> exact ⟨h.order, h.late, h.alive, h.fe⟩
  | dropGuard g =>
    simp only [step, earlyAfter]
    split
    · refine ⟨?_, h.late, h.alive, h.fe⟩
      simp only [Core.unlock, Core.notify_q, owners_notify]
      exact h.order
    · exact h
  | dropFut g =>
    simp only [step, earlyAfter] at hf' ⊢
    cases hg : findFut s g with
    | none =>
      simp only [hg]
      have hne : ∀ x ∈ early, x ≠ g := by
        intro x hx hxg
        obtain ⟨y, hy, hyi⟩ := h.alive x hx
        exact find_none_forall (id := fun x : Fut => x.id) (l := s.futs) (f := g) (by simp only [findFut] at hg; simp [hg]) y hy (hyi.trans hxg)
      have : early.filter (· != g) = early :=
        List.filter_eq_self.mpr (fun x hx => by simp [hne x hx])
      rw [this]; exact h
    | some fu =>
      simp only [hg] at hf' ⊢
      obtain ⟨fu', hfu', hid', _, _⟩ := hf'
      have hgf : g ≠ f := by
        intro hc
        have := (List.mem_filter.mp hfu').2
        simp [hid', hc] at this
      refine ⟨?_, ?_, ?_, ?_⟩
      · have horder : okO f (early.filter (· != g)) ((owners s.c.q).filter (· != g)) := by
          refine okO_early_filter ?_ (okO_filter hgf h.order)
          intro x hx; have := (List.mem_filter.mp hx).2; simpa using this
        simp only [lockDrop, Core.dropListener_q, owners_drop]
        split <;> (simp only [Core.polled_q]; exact horder)
      · intro x hx hne
        obtain ⟨hx1, hx2⟩ := List.mem_filter.mp hx
        refine h.late x hx1 ?_
        intro hc
        exact hne (List.mem_filter.mpr ⟨hc, hx2⟩)
      · intro x hx
        obtain ⟨hx1, hx2⟩ := List.mem_filter.mp hx
        obtain ⟨y, hy, hyi⟩ := h.alive x hx1
        exact ⟨y, List.mem_filter.mpr ⟨hy, by rw [hyi]; exact hx2⟩, hyi⟩
      · exact List.mem_filter.mpr ⟨h.fe, by simp [Ne.symm hgf]⟩
  | poll g t fire =>
    simp only [step, earlyAfter] at hf' ⊢
    cases hg : findFut s g with
    | none => simp only [hg]; exact h
    | some fu =>
      obtain ⟨hgm, hgi⟩ := findFut_mem hg
      simp only [hg] at hf' ⊢
      by_cases hdn : fu.l.done = true
      · simp only [hdn, if_true]; exact h
      · have hdn' : fu.l.done = false := by simpa using hdn
        simp only [hdn', Bool.false_eq_true, if_false] at hf' ⊢
        -- the state after the poll (both outcomes have the same core and the same futures)
        have key : ∀ (gs : List Guard),
            StarvedLive' { s with c := (lockPoll (s.c.polled g) fu.l g t fire).c,
                                  futs := setFut s.futs g fun x =>
                                    { x with l := (lockPoll (s.c.polled g) fu.l g t fire).l, polled := true, waker := t },
                                  guards := gs } f →
            FI f early { s with c := (lockPoll (s.c.polled g) fu.l g t fire).c,
                                futs := setFut s.futs g fun x =>
                                  { x with l := (lockPoll (s.c.polled g) fu.l g t fire).l, polled := true, waker := t },
                                guards := gs } := by
          intro gs hsl
          obtain ⟨fu', hfu', hid', hst', hdn''⟩ := hsl
          by_cases hgf : g = f
          · -- the starved operation itself is polled
            subst hgf
            have hfe : fu = fuf := eq_of_nodup_map hi.nodup hgm hfuf (by rw [hgi, hfid])
            subst hfe
            have hnn : Ev.isNotified s.c.q g = false := by
              cases hn : Ev.isNotified s.c.q g
              · rfl
              · exfalso
                have he := hq.p1 h2 (cnt_pos_of_isNotified hn)
                have hdone := lockPoll_starved_notified (s.c.polled g) fu.l g t fire hfslow hfs
                  (by simpa using hn) (by simpa using he)
                -- but the future with id g is still not done afterwards
                obtain ⟨y, hy, rfl⟩ := (mem_map_update (id := fun x : Fut => x.id)).mp hfu'
                have hyf : y = fu := eq_of_nodup_map hi.nodup hy hgm (by
                  by_cases hyi : y.id = g
                  · rw [hyi, hgi]
                  · simp [hyi] at hid')
                subst hyf
                simp [hgi] at hdn''
                rw [hdone] at hdn''; cases hdn''
            obtain ⟨e1, e2, _⟩ := lockPoll_unnotified (s.c.polled g) fu.l g t fire hfslow (by simpa using hnn)
            refine ⟨?_, ?_, ?_, h.fe⟩
            · simp only [e1, Core.polled_q]; exact h.order
            · intro x hx hne
              obtain ⟨y, hy, rfl⟩ := (mem_map_update (id := fun x : Fut => x.id)).mp hx
              by_cases hyi : y.id = g
              · simp [hyi] at hne; exact absurd h.fe hne
              · simp [hyi] at hne ⊢; exact h.late y hy hne
            · intro x hx
              obtain ⟨y, hy, hyi⟩ := h.alive x hx
              refine ⟨if y.id == g then _ else y, (mem_map_update (id := fun x : Fut => x.id)).mpr ⟨y, hy, rfl⟩, ?_⟩
              split <;> simpa using hyi
          · -- somebody else is polled
            refine ⟨?_, ?_, ?_, h.fe⟩
            · have := lockPoll_owners (s.c.polled g) fu.l g t fire
              simp only [Core.polled_q] at this
              exact okO_of_eff hgf hfo h.order this
            · intro x hx hne
              obtain ⟨y, hy, rfl⟩ := (mem_map_update (id := fun x : Fut => x.id)).mp hx
              by_cases hyi : y.id = g
              · have hyf : y = fu := eq_of_nodup_map hi.nodup hy hgm (by rw [hyi, hgi])
                subst hyf
                simp [hyi] at hne ⊢
                obtain ⟨hl1, hl2⟩ := h.late y hy (by rw [hyi]; exact hne)
                refine lockPoll_late (s.c.polled g) y.l g t fire (by simpa using h2) hl1 hl2 ?_
                intro _
                cases hn : Ev.isNotified (s.c.polled g).q g
                · rfl
                · exfalso
                  rcases notified_is_early hq.hd h.order (by simpa using hn) with h1 | h1
                  · exact hgf h1
                  · exact hne h1
              · simp [hyi] at hne ⊢; exact h.late y hy hne
            · intro x hx
              obtain ⟨y, hy, hyi⟩ := h.alive x hx
              refine ⟨if y.id == g then _ else y, (mem_map_update (id := fun x : Fut => x.id)).mpr ⟨y, hy, rfl⟩, ?_⟩
              split <;> simpa using hyi
        by_cases hr : (lockPoll (s.c.polled g) fu.l g t fire).ready = true
        · simp only [hr, if_true] at hf' ⊢; exact key _ hf'
        · simp only [hr, if_false] at hf' ⊢; exact key _ hf'

end ALock.Mutex

namespace ALock.Mutex

theorem okO_all {f : Nat} {early l : List Nat} (h : ∀ x ∈ l, x ∈ early) : okO f early l := by
  induction l with
  | nil => trivial
  | cons x xs ih =>
    exact Or.inr ⟨h x (List.mem_cons_self ..), ih (fun y hy => h y (List.mem_cons_of_mem _ hy))⟩

/-- `f` stays starved (neither completed nor dropped) through `ops`; `early` follows the drops -/
inductive Trace (f : Nat) : Sys → List Nat → List Op → Sys → List Nat → Prop
  | nil (s : Sys) (e : List Nat) : Trace f s e [] s e
  | cons {s : Sys} {e : List Nat} {op : Op} {ops : List Op} {s' : Sys} {e' : List Nat} :
      StarvedLive' (next s op) f → Trace f (next s op) (earlyAfter e op) ops s' e' →
      Trace f s e (op :: ops) s' e'

theorem fi_init (s : Sys) (hi : MInv s) (f : Nat) (hf : StarvedLive' s f) :
    FI f (s.futs.map (·.id)) s := by
  refine ⟨okO_all ?_, ?_, ?_, ?_⟩
  · intro x hx
    obtain ⟨e, he, hxe⟩ := List.mem_map.mp hx
    obtain ⟨fu, hfu, hid⟩ := hi.regRev x (Ev.has_iff.mpr ⟨e, he, hxe⟩)
    exact List.mem_map.mpr ⟨fu, hfu, hid⟩
  · intro fu hfu hne
    exact absurd (List.mem_map.mpr ⟨fu, hfu, rfl⟩) hne
  · intro x hx
    obtain ⟨fu, hfu, hid⟩ := List.mem_map.mp hx
    exact ⟨fu, hfu, hid⟩
  · obtain ⟨fu, hfu, hid, _, _⟩ := hf
    exact List.mem_map.mpr ⟨fu, hfu, hid⟩

theorem trace_fi {f : Nat} {s : Sys} {e : List Nat} {ops : List Op} {s' : Sys} {e' : List Nat}
    (ht : Trace f s e ops s' e') (hi : MInv s) (hq : QI s.c) (hf : StarvedLive' s f) (h : FI f e s) :
    FI f e' s' := by
  induction ht with
  | nil => exact h
  | @cons s e op ops s' e' hf' _ ih =>
    exact ih (step_inv s op hi) (step_qi s op hi hq) hf' (fi_step s op hi hq f e hf hf' h)

end ALock.Mutex
