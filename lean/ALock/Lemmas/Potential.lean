import ALock.MutexCore
import ALock.Lemmas.Event

/-!
# Potential of a lock operation (used by C17 for Mutex, RwLock and Barrier)

A polled, uncompleted lock operation weighs 4 while it uses the hot loop and 2 once it is starved
(the switch is one-way); a completed or never-polled one weighs 0.  One poll of such an operation
never increases `outstanding wake-ups + weight`: it passes a notification on only when it
completes or becomes starved.
-/

namespace ALock

def LockSt.weight (l : LockSt) : Nat :=
  if !l.slow || l.done then 0 else if l.starved then 2 else 4

theorem Core.notify_woken_le (c : Core) : (c.notify 1).woken.length ≤ c.woken.length + 1 := by
  have := Ev.notifyOwners_length_le false 1 c.q
  simp only [Core.notify, List.length_append]
  omega

theorem lockPoll_potential (c : Core) (l : LockSt) (f t : Nat) (fire : Bool)
    (hs : l.slow = true) (hd : l.done = false) :
    (lockPoll c l f t fire).c.woken.length + (lockPoll c l f t fire).l.weight
      ≤ c.woken.length + l.weight := by
  have b1 := Ev.notifyOwners_length_le false 1 (Ev.erase c.q f)
  have b2 := Ev.notifyOwners_length_le false 1 (Ev.listen (Ev.notify false 1 (Ev.erase c.q f)) f)
  unfold lockPoll
  simp only [hs, Bool.not_true, Bool.false_eq_true, if_false]
  cases hst : l.starved <;>
  (repeat' split) <;>
  simp [LockSt.weight, hs, hd, hst, Core.consume, Core.starve, Core.listen, Core.setTask,
    Core.notify] at b1 b2 ⊢ <;> first | omega | simp_all

end ALock

namespace ALock

theorem notifyO_length_le_length (n : Nat) (q : List Entry) : (notifyO n q).length ≤ q.length := by
  fun_induction notifyO n q <;> simp_all <;> omega

theorem Ev.notifyOwners_length_le_length (add : Bool) (n : Nat) (q : List Entry) :
    (Ev.notifyOwners add n q).length ≤ q.length := notifyO_length_le_length _ q

theorem Ev.notify_length' (add : Bool) (n : Nat) (q : List Entry) :
    (Ev.notify add n q).length = q.length := notifyQ_length _ _ _

theorem Ev.erase_length_le (q : List Entry) (f : Nat) : (Ev.erase q f).length ≤ q.length :=
  List.length_filter_le _ _

theorem Ev.erase_length_lt {q : List Entry} {f : Nat} (h : Ev.isNotified q f = true) :
    (Ev.erase q f).length + 1 ≤ q.length := by
  induction q with
  | nil => simp [Ev.isNotified] at h
  | cons a t ih =>
    simp only [Ev.isNotified, List.any_cons, Bool.or_eq_true, Bool.and_eq_true, beq_iff_eq] at h
    simp only [Ev.erase, List.filter_cons]
    by_cases ha : a.owner = f
    · have := List.length_filter_le (fun e : Entry => e.owner != f) t
      simp [ha]; omega
    · rcases h with h | h
      · exact absurd h.1 ha
      · have := ih (by simpa [Ev.isNotified] using h)
        simp only [Ev.erase] at this
        simp [ha]; omega

theorem Ev.setTask_length' (q : List Entry) (f t : Nat) : (Ev.setTask q f t).length = q.length := by
  simp [Ev.setTask]

theorem Ev.listen_length' (q : List Entry) (f : Nat) : (Ev.listen q f).length = q.length + 1 := by
  simp [Ev.listen]

end ALock
