import ALock.Atomic.RwLockHB

/-! Lemmas for the happens-before layer of the atomic RwLock model. -/

namespace ALock.Atomic.RwLock
open ALock.Atomic

theorem getElem?_set_self {l : List Pc} {i : Nat} {q a : Pc} (ha : l[i]? = some a) :
    (set l i q)[i]? = some q := by
  simp [set, List.getElem?_modify_eq, ha]

theorem map_modify_pc (l : List AgV) (i : Nat) (f : AgV → AgV) (q : Pc) (hf : ∀ a, (f a).pc = q) :
    (l.modify i f).map (·.pc) = set (l.map (·.pc)) i q := by
  induction l generalizing i with
  | nil => simp [set]
  | cons x t ih =>
    cases i with
    | zero => simp [set, List.modify_zero_cons, hf]
    | succ n =>
      simp only [set, List.modify_succ_cons, List.map_cons] at ih ⊢
      rw [ih]

/-- the writer bit and shared access of an agent, for the acquiring / releasing classification -/
def Pc.acc (p : Pc) : Prop := p.sh = 1 ∨ p.bt = 1

def acqKind (st : Step) : Prop := ∀ o : Ords, o.ok → st.isAcq o = true
def relKind (st : Step) : Prop := ∀ o : Ords, o.ok → st.isRel o = true

/-- what a (non-spawn) step that changes the state does to its agent -/
structure Facts (p : Sys) (st : Step) (a q : Pc) (x : Nat) : Prop where
  eq : step p st = { state := x, ags := set p.ags st.agent q }
  /-- an agent gains access (or the writer bit) only by an acquiring operation, with no writer around -/
  gain : q.acc → a.acc ∨ (acqKind st ∧ writers p.ags = 0)
  /-- an agent becomes a writer only by an acquiring operation, with no reader left but itself -/
  toW : q = .w → a = .w ∨ (acqKind st ∧ (readers p.ags = 0 ∨ (readers p.ags = 1 ∧ a.rd = 1)))
  /-- a writer stops being one only by a releasing operation -/
  fromW : a = .w → q ≠ .w → relKind st
  /-- a reader stops being counted only by a releasing operation -/
  fromR : a.rd = 1 → q.rd = 0 → relKind st

theorem ok_all {o : Ords} (h : o.ok) :
    o.acqReaderCas = true ∧ o.acqWCas0 = true ∧ o.acqFetchOr = true ∧ o.acqCheck = true ∧
    o.acqTryUpgrade = true ∧ o.relTryUpgrade = true ∧ o.relReadUnlock = true ∧
    o.relWriteUnlock = true ∧ o.relDowngrade = true ∧ o.relUpgrade = true := h

theorem readers_zero_of_state {p : Sys} (h : Inv p) (hs : p.state ≤ 1) : readers p.ags = 0 := by
  have := h.word; simp only [readers, bits] at *; omega

theorem step_facts (p : Sys) (h : Inv p) (st : Step) (hsp : st ≠ .spawn) (hch : step p st ≠ p) :
    ∃ a q x, p.ags[st.agent]? = some a ∧ Facts p st a q x := by
  have hm := h.mex
  have hw := h.word
  have hal := h.alone
  have nowr_of_even : p.state % 2 = 0 → writers p.ags = 0 := by
    intro he
    have h1 := sum_le_of_pointwise p.ags Pc.wr Pc.bt wr_le_bt
    have h2 := sum_le_of_pointwise p.ags Pc.bt Pc.mh bt_le_mh
    simp only [writers, bits, mholders, readers] at *
    by_cases hz : (p.ags.map Pc.wr).sum = 0
    · exact hz
    · have := hal (by omega); omega
  cases st with
  | spawn => exact absurd rfl hsp
  | rLoad i =>
    simp only [step] at hch ⊢
    split at hch
    · rename_i hc
      refine ⟨.idle, .rSnap p.state, p.state, hc.1, ⟨by simp [step, Step.agent, hc], ?_, ?_, ?_, ?_⟩⟩ <;>
        simp [Pc.acc, Pc.sh, Pc.bt, Pc.rd]
    · exact absurd rfl hch
  | rCas i =>
    simp only [step] at hch ⊢
    split at hch
    · rename_i c ha
      have hce := h.snapEven c (List.mem_of_getElem? ha)
      split at hch
      · rename_i hsc
        refine ⟨.rSnap c, .r, c + 2, ha, ⟨by simp [step, Step.agent, ha, hsc], ?_, ?_, ?_, ?_⟩⟩
        · intro _; exact Or.inr ⟨fun o ho => (ok_all ho).1, nowr_of_even (by omega)⟩
        · intro hq; cases hq
        · intro ha'; cases ha'
        · simp [Pc.rd]
      · split at hch
        · rename_i hne he
          refine ⟨.rSnap c, .rSnap p.state, p.state, ha, ⟨by simp [step, Step.agent, ha, hne, he], ?_, ?_, ?_, ?_⟩⟩ <;>
            simp [Pc.acc, Pc.sh, Pc.bt, Pc.rd]
        · rename_i hne he
          refine ⟨.rSnap c, .idle, p.state, ha, ⟨by simp [step, Step.agent, ha, hne, he], ?_, ?_, ?_, ?_⟩⟩ <;>
            simp [Pc.acc, Pc.sh, Pc.bt, Pc.rd]
    · exact absurd rfl hch
  | rUnlock i =>
    simp only [step] at hch ⊢
    split at hch
    · rename_i ha
      refine ⟨.r, .idle, p.state - 2, ha, ⟨by simp [step, Step.agent, ha], ?_, ?_, ?_, ?_⟩⟩
      · simp [Pc.acc, Pc.sh, Pc.bt]
      · intro hq; cases hq
      · intro ha'; cases ha'
      · intro _ _ o ho; exact (ok_all ho).2.2.2.2.2.2.1
    · exact absurd rfl hch
  | mLock i =>
    simp only [step] at hch ⊢
    split at hch
    · rename_i hc
      refine ⟨.idle, .mu, p.state, hc.1, ⟨by simp [step, Step.agent, hc], ?_, ?_, ?_, ?_⟩⟩ <;>
        simp [Pc.acc, Pc.sh, Pc.bt, Pc.rd]
    · exact absurd rfl hch
  | mUnlock i =>
    simp only [step] at hch ⊢
    split at hch
    · rename_i hc
      rcases hc with ha | ha | ha
      · refine ⟨.mu, .idle, p.state, ha, ⟨by simp [step, Step.agent, ha], ?_, ?_, ?_, ?_⟩⟩ <;>
          simp [Pc.acc, Pc.sh, Pc.bt, Pc.rd]
      · refine ⟨.wu1, .idle, p.state, ha, ⟨by simp [step, Step.agent, ha], ?_, ?_, ?_, ?_⟩⟩ <;>
          simp [Pc.acc, Pc.sh, Pc.bt, Pc.rd]
      · refine ⟨.uu1, .idle, p.state, ha, ⟨by simp [step, Step.agent, ha], ?_, ?_, ?_, ?_⟩⟩ <;>
          simp [Pc.acc, Pc.sh, Pc.bt, Pc.rd]
    · exact absurd rfl hch
  | uLoad i =>
    simp only [step] at hch ⊢
    split at hch
    · rename_i ha
      refine ⟨.mu, .muSnap p.state, p.state, ha, ⟨by simp [step, Step.agent, ha], ?_, ?_, ?_, ?_⟩⟩ <;>
        simp [Pc.acc, Pc.sh, Pc.bt, Pc.rd]
    · exact absurd rfl hch
  | uCas i =>
    simp only [step] at hch ⊢
    split at hch
    · rename_i c ha
      obtain ⟨_, hwz⟩ := others_zero hm ha (by simp [Pc.mh])
      simp only [Pc.wr] at hwz
      split at hch
      · rename_i hsc
        refine ⟨.muSnap c, .u, c + 2, ha, ⟨by simp [step, Step.agent, ha, hsc], ?_, ?_, ?_, ?_⟩⟩
        · intro _; exact Or.inr ⟨fun o ho => (ok_all ho).1, hwz⟩
        · intro hq; cases hq
        · intro ha'; cases ha'
        · simp [Pc.rd]
      · rename_i hne
        refine ⟨.muSnap c, .muSnap p.state, p.state, ha, ⟨by simp [step, Step.agent, ha, hne], ?_, ?_, ?_, ?_⟩⟩ <;>
          simp [Pc.acc, Pc.sh, Pc.bt, Pc.rd]
    · exact absurd rfl hch
  | wCas0 i =>
    simp only [step] at hch ⊢
    split at hch
    · rename_i hc
      obtain ⟨ha, h0⟩ := hc
      obtain ⟨_, hwz⟩ := others_zero hm ha (by simp [Pc.mh])
      simp only [Pc.wr] at hwz
      refine ⟨.mu, .w, 1, ha, ⟨by simp [step, Step.agent, ha, h0], ?_, ?_, ?_, ?_⟩⟩
      · intro _; exact Or.inr ⟨fun o ho => (ok_all ho).2.1, hwz⟩
      · intro _; exact Or.inr ⟨fun o ho => (ok_all ho).2.1, Or.inl (readers_zero_of_state h (by omega))⟩
      · intro ha'; cases ha'
      · simp [Pc.rd]
    · exact absurd rfl hch
  | wFetchOr i =>
    simp only [step] at hch ⊢
    split at hch
    · rename_i ha
      obtain ⟨_, hwz⟩ := others_zero hm ha (by simp [Pc.mh])
      simp only [Pc.wr] at hwz
      refine ⟨.mu, .ww, p.state + (1 - p.state % 2), ha, ⟨by simp [step, Step.agent, ha], ?_, ?_, ?_, ?_⟩⟩
      · intro _; exact Or.inr ⟨fun o ho => (ok_all ho).2.2.1, hwz⟩
      · intro hq; cases hq
      · intro ha'; cases ha'
      · simp [Pc.rd]
    · exact absurd rfl hch
  | wCheck i =>
    simp only [step] at hch ⊢
    split at hch
    · rename_i hc
      obtain ⟨ha, h1⟩ := hc
      have hr0 := readers_zero_of_state h (by omega)
      rcases ha with ha | ha
      · refine ⟨.ww, .w, p.state, ha, ⟨by simp [step, Step.agent, ha, h1], ?_, ?_, ?_, ?_⟩⟩
        · intro _; exact Or.inl (Or.inr rfl)
        · intro _; exact Or.inr ⟨fun o ho => (ok_all ho).2.2.2.1, Or.inl hr0⟩
        · intro ha'; cases ha'
        · simp [Pc.rd]
      · refine ⟨.pu, .w, p.state, ha, ⟨by simp [step, Step.agent, ha, h1], ?_, ?_, ?_, ?_⟩⟩
        · intro _; exact Or.inl (Or.inr rfl)
        · intro _; exact Or.inr ⟨fun o ho => (ok_all ho).2.2.2.1, Or.inl hr0⟩
        · intro ha'; cases ha'
        · simp [Pc.rd]
    · exact absurd rfl hch
  | wUnlock1 i =>
    simp only [step] at hch ⊢
    split at hch
    · rename_i hc
      rcases hc with ha | ha | ha
      · refine ⟨.w, .wu1, p.state - p.state % 2, ha, ⟨by simp [step, Step.agent, ha], ?_, ?_, ?_, ?_⟩⟩
        · simp [Pc.acc, Pc.sh, Pc.bt]
        · intro hq; cases hq
        · intro _ _ o ho; exact (ok_all ho).2.2.2.2.2.2.2.1
        · simp [Pc.rd]
      · refine ⟨.ww, .wu1, p.state - p.state % 2, ha, ⟨by simp [step, Step.agent, ha], ?_, ?_, ?_, ?_⟩⟩
        · simp [Pc.acc, Pc.sh, Pc.bt]
        · intro hq; cases hq
        · intro ha'; cases ha'
        · simp [Pc.rd]
      · refine ⟨.pu, .wu1, p.state - p.state % 2, ha, ⟨by simp [step, Step.agent, ha], ?_, ?_, ?_, ?_⟩⟩
        · simp [Pc.acc, Pc.sh, Pc.bt]
        · intro hq; cases hq
        · intro ha'; cases ha'
        · simp [Pc.rd]
    · exact absurd rfl hch
  | tryUpgrade i =>
    simp only [step] at hch ⊢
    split at hch
    · rename_i hc
      obtain ⟨ha, h2⟩ := hc
      obtain ⟨hbz, _⟩ := others_zero hm ha (by simp [Pc.mh])
      simp only [Pc.bt] at hbz
      have hr1 : readers p.ags = 1 := by simp only [readers, bits] at *; omega
      refine ⟨.u, .w, 1, ha, ⟨by simp [step, Step.agent, ha, h2], ?_, ?_, ?_, ?_⟩⟩
      · intro _; exact Or.inl (Or.inl rfl)
      · intro _; exact Or.inr ⟨fun o ho => (ok_all ho).2.2.2.2.1, Or.inr ⟨hr1, rfl⟩⟩
      · intro ha'; cases ha'
      · intro _ _ o ho; exact (ok_all ho).2.2.2.2.2.1
    · exact absurd rfl hch
  | upgrade i =>
    simp only [step] at hch ⊢
    split at hch
    · rename_i ha
      refine ⟨.u, .pu, p.state - 1, ha, ⟨by simp [step, Step.agent, ha], ?_, ?_, ?_, ?_⟩⟩
      · intro _; exact Or.inl (Or.inl rfl)
      · intro hq; cases hq
      · intro ha'; cases ha'
      · intro _ _ o ho; exact (ok_all ho).2.2.2.2.2.2.2.2.2
    · exact absurd rfl hch
  | dgU i =>
    simp only [step] at hch ⊢
    split at hch
    · rename_i ha
      refine ⟨.u, .r, p.state, ha, ⟨by simp [step, Step.agent, ha], ?_, ?_, ?_, ?_⟩⟩
      · intro _; exact Or.inl (Or.inl rfl)
      · intro hq; cases hq
      · intro ha'; cases ha'
      · simp [Pc.rd]
    · exact absurd rfl hch
  | dgW1 i =>
    simp only [step] at hch ⊢
    split at hch
    · rename_i ha
      refine ⟨.w, .dw, p.state + 1, ha, ⟨by simp [step, Step.agent, ha], ?_, ?_, ?_, ?_⟩⟩
      · intro _; exact Or.inl (Or.inr rfl)
      · intro hq; cases hq
      · intro _ _ o ho; exact (ok_all ho).2.2.2.2.2.2.2.2.1
      · simp [Pc.rd]
    · exact absurd rfl hch
  | dgW2 i =>
    simp only [step] at hch ⊢
    split at hch
    · rename_i ha
      refine ⟨.dw, .r, p.state, ha, ⟨by simp [step, Step.agent, ha], ?_, ?_, ?_, ?_⟩⟩
      · intro _; exact Or.inl (Or.inl rfl)
      · intro hq; cases hq
      · intro ha'; cases ha'
      · simp [Pc.rd]
    · exact absurd rfl hch
  | dgWU i =>
    simp only [step] at hch ⊢
    split at hch
    · rename_i ha
      refine ⟨.w, .u, p.state + 1, ha, ⟨by simp [step, Step.agent, ha], ?_, ?_, ?_, ?_⟩⟩
      · intro _; exact Or.inl (Or.inr rfl)
      · intro hq; cases hq
      · intro _ _ o ho; exact (ok_all ho).2.2.2.2.2.2.2.2.1
      · simp [Pc.rd]
    · exact absurd rfl hch
  | uUnlock1 i =>
    simp only [step] at hch ⊢
    split at hch
    · rename_i ha
      refine ⟨.u, .uu1, p.state - 2, ha, ⟨by simp [step, Step.agent, ha], ?_, ?_, ?_, ?_⟩⟩
      · simp [Pc.acc, Pc.sh, Pc.bt]
      · intro hq; cases hq
      · intro ha'; cases ha'
      · intro _ _ o ho; exact (ok_all ho).2.2.2.2.2.2.1
    · exact absurd rfl hch

end ALock.Atomic.RwLock

namespace ALock.Atomic.RwLock
open ALock.Atomic

/-! ### projection -/

theorem step_none (p : Sys) (st : Step) (hsp : st ≠ .spawn) (h : p.ags[st.agent]? = none) :
    step p st = p := by
  cases st <;> first | exact absurd rfl hsp | (simp only [Step.agent] at h; simp [step, h])

theorem map_modify_view (l : List AgV) (i : Nat) (f : AgV → AgV) (hf : ∀ a, (f a).pc = a.pc) :
    (l.modify i f).map (·.pc) = l.map (·.pc) := by
  induction l generalizing i with
  | nil => simp
  | cons x t ih =>
    cases i with
    | zero => simp [List.modify_zero_cons, hf]
    | succ n => simp only [List.modify_succ_cons, List.map_cons]; rw [ih]

theorem proj_getElem? (s : SysV) (i : Nat) : (proj s).ags[i]? = (s.ags[i]?).map (·.pc) := by
  simp [proj]

/-- the shape of a state-changing operation step of the decorated system -/
theorem stepV_op_eq (o : Ords) (s : SysV) (h : Inv (proj s)) (st : Step) (hsp : st ≠ .spawn)
    (hch : step (proj s) st ≠ proj s) :
    ∃ a q x, s.ags[st.agent]? = some a ∧ Facts (proj s) st a.pc q x ∧
      stepV o s (.op st) =
        { s with state := x,
                 wview := if st.isRel o then s.wview ++ a.view else s.wview,
                 ags := s.ags.modify st.agent fun a =>
                   { pc := q, view := if st.isAcq o then a.view ++ s.wview else a.view } } := by
  obtain ⟨a', q, x, ha', F⟩ := step_facts (proj s) h st hsp hch
  rw [proj_getElem?] at ha'
  cases hs : s.ags[st.agent]? with
  | none => rw [hs] at ha'; cases ha'
  | some a =>
    rw [hs] at ha'
    simp only [Option.map_some, Option.some.injEq] at ha'
    subst ha'
    refine ⟨a, q, x, rfl, F, ?_⟩
    have hq : ((step (proj s) st).ags[st.agent]?) = some q := by
      rw [F.eq]
      exact getElem?_set_self (a := a.pc) (by rw [proj_getElem?, hs]; rfl)
    have hx : (step (proj s) st).state = x := by rw [F.eq]
    cases st <;> first
      | exact absurd rfl hsp
      | (simp only [stepV, hs, hch, if_false, hq, hx, Option.getD_some])

theorem proj_stepV (o : Ords) (s : SysV) (h : Inv (proj s)) (sv : StepV) :
    proj (stepV o s sv) = match sv with
      | .op st => step (proj s) st
      | _ => proj s := by
  cases sv with
  | op st =>
    by_cases hsp : st = .spawn
    · subst hsp; simp [stepV, step, proj]
    · simp only []
      by_cases hch : step (proj s) st = proj s
      · rw [hch]
        cases hs : s.ags[st.agent]? with
        | none => cases st <;> first | exact absurd rfl hsp | simp [stepV, hs]
        | some a => cases st <;> first | exact absurd rfl hsp | simp [stepV, hs, hch]
      · obtain ⟨a, q, x, ha, F, e⟩ := stepV_op_eq o s h st hsp hch
        rw [e, F.eq]
        simp only [proj]
        rw [map_modify_pc _ _ _ q (fun _ => rfl)]
  | wcrit i =>
    simp only [stepV]
    split
    · split
      · simp only [proj]; rw [map_modify_view s.ags i (fun a => { pc := a.pc, view := fresh s :: a.view }) (fun _ => rfl)]
      · rfl
    · rfl
  | rcrit i =>
    simp only [stepV]
    split
    · split
      · simp only [proj]; rw [map_modify_view s.ags i (fun a => { pc := a.pc, view := fresh s :: a.view }) (fun _ => rfl)]
      · rfl
    · rfl

theorem stepV_inv (o : Ords) (s : SysV) (h : Inv (proj s)) (sv : StepV) : Inv (proj (stepV o s sv)) := by
  rw [proj_stepV o s h sv]
  cases sv with
  | op st => exact step_inv _ st h
  | wcrit i => exact h
  | rcrit i => exact h

theorem runV_inv (o : Ords) (s : SysV) (l : List StepV) (h : Inv (proj s)) : Inv (proj (runV o s l)) := by
  induction l generalizing s with
  | nil => exact h
  | cons x t ih => exact ih _ (stepV_inv o s h x)

end ALock.Atomic.RwLock

namespace ALock.Atomic.RwLock
open ALock.Atomic

/-! ### the view invariant -/

structure VI (s : SysV) : Prop where
  /-- whoever has access (shared or exclusive) or owes the writer bit has observed every completed
  write section -/
  A : ∀ a ∈ s.ags, a.pc.acc → ∀ k ∈ s.doneW, k ∈ a.view
  /-- a writer has observed every completed read section -/
  B : ∀ a ∈ s.ags, a.pc = .w → ∀ k ∈ s.doneR, k ∈ a.view
  /-- while no write guard exists, the word's release sequence carries every write section -/
  C : writers (proj s).ags = 0 → ∀ k ∈ s.doneW, k ∈ s.wview
  /-- a completed read section is carried by the word or by an agent still counted as a reader -/
  E : ∀ k ∈ s.doneR, k ∈ s.wview ∨ ∃ a ∈ s.ags, a.pc.rd = 1 ∧ k ∈ a.view

theorem rd_eq_sh (p : Pc) : p.rd = p.sh := by cases p <;> rfl
theorem wr_le_one (p : Pc) : p.wr ≤ 1 := by cases p <;> simp [Pc.wr]
theorem wr_one_iff (p : Pc) : p.wr = 1 ↔ p = .w := by cases p <;> simp [Pc.wr]
theorem acc_w : Pc.acc .w := Or.inr rfl
theorem mh_of_bt {p : Pc} (h : p.bt = 1) : p.mh = 1 := by cases p <;> simp_all [Pc.bt, Pc.mh]

theorem pcs_getElem? {s : SysV} {j : Nat} {y : AgV} (h : s.ags[j]? = some y) :
    (proj s).ags[j]? = some y.pc := by rw [proj_getElem?, h]; rfl

theorem init_vi : VI {} := ⟨by simp, by simp, by simp, by simp⟩

theorem stepV_vi (o : Ords) (ho : o.ok) (s : SysV) (hi : Inv (proj s)) (hv : VI s) (sv : StepV) :
    VI (stepV o s sv) := by
  cases sv with
  | op st =>
    by_cases hsp : st = .spawn
    · subst hsp
      refine ⟨?_, ?_, ?_, ?_⟩
      · intro a ha hacc k hk
        simp only [stepV, List.mem_append, List.mem_singleton] at ha
        rcases ha with ha | rfl
        · exact hv.A a ha hacc k hk
        · simp [Pc.acc, Pc.sh, Pc.bt] at hacc
      · intro a ha hw k hk
        simp only [stepV, List.mem_append, List.mem_singleton] at ha
        rcases ha with ha | rfl
        · exact hv.B a ha hw k hk
        · cases hw
      · intro h0 k hk
        refine hv.C ?_ k hk
        simpa [stepV, proj, writers, Pc.wr] using h0
      · intro k hk
        rcases hv.E k hk with h | ⟨a, ha, h1, h2⟩
        · exact Or.inl h
        · exact Or.inr ⟨a, by simp [stepV, ha], h1, h2⟩
    · by_cases hch : step (proj s) st = proj s
      · -- nothing happens
        have : stepV o s (.op st) = s := by
          cases hs : s.ags[st.agent]? with
          | none => cases st <;> first | exact absurd rfl hsp | simp [stepV, hs]
          | some a => cases st <;> first | exact absurd rfl hsp | simp [stepV, hs, hch]
        rw [this]; exact hv
      · obtain ⟨a, q, x, ha, F, e⟩ := stepV_op_eq o s hi st hsp hch
        have ham : a ∈ s.ags := List.mem_of_getElem? ha
        have hpa := pcs_getElem? ha
        -- the projected sums before and after
        have hproj : (proj (stepV o s (.op st))).ags = set (proj s).ags st.agent q := by
          have := proj_stepV o s hi (.op st)
          simp only [] at this
          rw [this, F.eq]
        have ewr := sum_set (proj s).ags st.agent q a.pc Pc.wr hpa
        rw [e]
        refine ⟨?_, ?_, ?_, ?_⟩
        · -- A
          intro y hy hacc k hk
          rcases mem_modify' hy with ⟨j, _, hj⟩ | ⟨a', ha', rfl⟩
          · exact hv.A y (List.mem_of_getElem? hj) hacc k hk
          · rw [ha] at ha'; cases ha'
            simp only [] at hacc ⊢
            rcases F.gain hacc with h1 | ⟨hacq, hw0⟩
            · have := hv.A a ham h1 k hk
              split
              · exact List.mem_append_left _ this
              · exact this
            · rw [hacq o ho, if_pos rfl]
              exact List.mem_append_right _ (hv.C hw0 k hk)
        · -- B
          intro y hy hw k hk
          rcases mem_modify' hy with ⟨j, _, hj⟩ | ⟨a', ha', rfl⟩
          · exact hv.B y (List.mem_of_getElem? hj) hw k hk
          · rw [ha] at ha'; cases ha'
            simp only [] at hw ⊢
            rcases F.toW hw with h1 | ⟨hacq, hrd⟩
            · have := hv.B a ham h1 k hk
              split
              · exact List.mem_append_left _ this
              · exact this
            · rw [hacq o ho, if_pos rfl]
              rcases hv.E k hk with hkw | ⟨z, hz, hz1, hz2⟩
              · exact List.mem_append_right _ hkw
              · obtain ⟨j, hj⟩ := List.getElem?_of_mem hz
                have hzp := pcs_getElem? hj
                rcases hrd with h0 | ⟨h1, ha1⟩
                · have := le_sum_map_of_getElem? (proj s).ags Pc.rd hzp
                  simp only [readers] at h0; omega
                · by_cases hji : j = st.agent
                  · subst hji; rw [ha] at hj; cases hj
                    exact List.mem_append_left _ hz2
                  · have := sum_map_two (proj s).ags Pc.rd hzp hpa hji
                    simp only [readers] at h1; omega
        · -- C
          intro h0 k hk
          have h0' : writers (set (proj s).ags st.agent q) = 0 := by
            rw [← hproj, e]; exact h0
          show k ∈ (if st.isRel o then s.wview ++ a.view else s.wview)
          by_cases hw0 : writers (proj s).ags = 0
          · have := hv.C hw0 k hk
            split
            · exact List.mem_append_left _ this
            · exact this
          · -- the writer was agent `st.agent` and it has just released
            have h1 := wr_le_one q
            have h2 := wr_le_one a.pc
            simp only [writers] at h0' hw0 ewr
            have haw : a.pc = .w := (wr_one_iff _).mp (by omega)
            have hqw : q ≠ .w := by
              intro hq; have := (wr_one_iff q).mpr hq; omega
            rw [F.fromW haw hqw o ho, if_pos rfl]
            exact List.mem_append_right _ (hv.A a ham (haw ▸ acc_w) k hk)
        · -- E
          intro k hk
          rcases hv.E k hk with hkw | ⟨z, hz, hz1, hz2⟩
          · left
            show k ∈ (if st.isRel o then s.wview ++ a.view else s.wview)
            split
            · exact List.mem_append_left _ hkw
            · exact hkw
          · obtain ⟨j, hj⟩ := List.getElem?_of_mem hz
            by_cases hji : j = st.agent
            · subst hji; rw [ha] at hj; cases hj
              by_cases hq1 : q.rd = 1
              · right
                refine ⟨_, mem_modify_self ha, hq1, ?_⟩
                simp only []
                split
                · exact List.mem_append_left _ hz2
                · exact hz2
              · left
                have hq0 : q.rd = 0 := by cases q <;> simp_all [Pc.rd]
                show k ∈ (if st.isRel o then s.wview ++ a.view else s.wview)
                rw [F.fromR hz1 hq0 o ho, if_pos rfl]
                exact List.mem_append_right _ hz2
            · right
              refine ⟨z, ?_, hz1, hz2⟩
              have := getElem?_modify_other s.ags
                (fun a => { pc := q, view := if st.isAcq o then a.view ++ s.wview else a.view }) hji
              exact List.mem_of_getElem? (this.trans hj)
  | wcrit i =>
    simp only [stepV]
    split
    · rename_i a ha
      split
      · rename_i haw
        have hpa := pcs_getElem? ha
        have ham : a ∈ s.ags := List.mem_of_getElem? ha
        have hwge : 1 ≤ writers (proj s).ags := by
          have := le_sum_map_of_getElem? (proj s).ags Pc.wr hpa
          rw [haw] at this; simpa [writers, Pc.wr] using this
        have hr0 := hi.alone hwge
        refine ⟨?_, ?_, ?_, ?_⟩
        · intro y hy hacc k hk
          rcases mem_modify' hy with ⟨j, hji, hj⟩ | ⟨a', ha', rfl⟩
          · -- nobody else has access or owes the bit while a write guard exists
            exfalso
            have hyp := pcs_getElem? hj
            rcases hacc with h1 | h1
            · have := le_sum_map_of_getElem? (proj s).ags Pc.rd hyp
              rw [rd_eq_sh] at this; simp only [readers] at hr0; omega
            · have := sum_map_two (proj s).ags Pc.mh hyp hpa hji
              have hm := hi.mex
              rw [mh_of_bt h1, haw] at this
              simp only [mholders, Pc.mh] at *; omega
          · rw [ha] at ha'; cases ha'
            rcases List.mem_cons.mp hk with rfl | hk
            · exact List.mem_cons_self ..
            · exact List.mem_cons_of_mem _ (hv.A a ham (haw ▸ acc_w) k hk)
        · intro y hy hw k hk
          rcases mem_modify' hy with ⟨j, _, hj⟩ | ⟨a', ha', rfl⟩
          · exact hv.B y (List.mem_of_getElem? hj) hw k hk
          · rw [ha] at ha'; cases ha'
            exact List.mem_cons_of_mem _ (hv.B a ham haw k hk)
        · intro h0
          exfalso
          simp only [proj] at h0 hwge
          rw [map_modify_view s.ags i (fun a => { pc := a.pc, view := fresh s :: a.view }) (fun _ => rfl)] at h0
          omega
        · intro k hk
          rcases hv.E k hk with hkw | ⟨z, hz, hz1, hz2⟩
          · exact Or.inl hkw
          · obtain ⟨j, hj⟩ := List.getElem?_of_mem hz
            have := le_sum_map_of_getElem? (proj s).ags Pc.rd (pcs_getElem? hj)
            simp only [readers] at hr0; omega
      · exact hv
    · exact hv
  | rcrit i =>
    simp only [stepV]
    split
    · rename_i a ha
      split
      · rename_i hsh
        have hpa := pcs_getElem? ha
        have ham : a ∈ s.ags := List.mem_of_getElem? ha
        have hrge : 1 ≤ readers (proj s).ags := by
          have := le_sum_map_of_getElem? (proj s).ags Pc.rd hpa
          rw [rd_eq_sh, hsh] at this; simpa [readers] using this
        have hw0 : writers (proj s).ags = 0 := by
          by_cases h : writers (proj s).ags = 0
          · exact h
          · have := hi.alone (by omega); omega
        have hnow : ∀ y ∈ s.ags, y.pc ≠ .w := by
          intro y hy hyw
          obtain ⟨j, hj⟩ := List.getElem?_of_mem hy
          have := le_sum_map_of_getElem? (proj s).ags Pc.wr (pcs_getElem? hj)
          rw [hyw] at this; simp only [writers, Pc.wr] at *; omega
        refine ⟨?_, ?_, ?_, ?_⟩
        · intro y hy hacc k hk
          rcases mem_modify' hy with ⟨j, _, hj⟩ | ⟨a', ha', rfl⟩
          · exact hv.A y (List.mem_of_getElem? hj) hacc k hk
          · rw [ha] at ha'; cases ha'
            exact List.mem_cons_of_mem _ (hv.A a ham hacc k hk)
        · intro y hy hw
          rcases mem_modify' hy with ⟨j, _, hj⟩ | ⟨a', ha', rfl⟩
          · exact absurd hw (hnow y (List.mem_of_getElem? hj))
          · rw [ha] at ha'; cases ha'
            exact absurd hw (hnow a ham)
        · intro h0 k hk
          exact hv.C hw0 k hk
        · intro k hk
          rcases List.mem_cons.mp hk with rfl | hk
          · right
            refine ⟨_, mem_modify_self ha, ?_, List.mem_cons_self ..⟩
            simp only []; rw [rd_eq_sh]; exact hsh
          · rcases hv.E k hk with hkw | ⟨z, hz, hz1, hz2⟩
            · exact Or.inl hkw
            · right
              obtain ⟨j, hj⟩ := List.getElem?_of_mem hz
              by_cases hji : j = i
              · subst hji; rw [ha] at hj; cases hj
                exact ⟨_, mem_modify_self ha, hz1, List.mem_cons_of_mem _ hz2⟩
              · refine ⟨z, ?_, hz1, hz2⟩
                have := getElem?_modify_other s.ags
                  (fun a : AgV => { a with view := fresh s :: a.view }) hji
                exact List.mem_of_getElem? (this.trans hj)
      · exact hv
    · exact hv

theorem runV_vi (o : Ords) (ho : o.ok) (s : SysV) (l : List StepV) (hi : Inv (proj s)) (hv : VI s) :
    Inv (proj (runV o s l)) ∧ VI (runV o s l) := by
  induction l generalizing s with
  | nil => exact ⟨hi, hv⟩
  | cons x t ih => exact ih _ (stepV_inv o s hi x) (stepV_vi o ho s hi hv x)

end ALock.Atomic.RwLock
