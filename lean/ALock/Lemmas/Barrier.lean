import ALock.Barrier
import ALock.Lemmas.Event
import ALock.Lemmas.ListAux

/-! Invariants of the Barrier model. Property statements are in `Props/C09.lean`. -/

set_option linter.unusedSimpArgs false
set_option linter.unusedVariables false

namespace ALock.Barrier

/-- the generation a registered wait arrived in -/
def Pc.gen? : Pc → Option Nat
  | .waiting lg => some lg
  | _ => none

def Pc.isWaiting (p : Pc) : Bool := p.gen?.isSome

structure BInv (s : Sys) : Prop where
  nodup : (s.futs.map (·.id)).Nodup
  /-- arrivals of the current generation stay below `n` (they are reset when the n-th arrives) -/
  countLt : s.count < max s.n 1
  /-- every arrival is accounted for: completed generations plus the current count -/
  arrivedEq : s.arrived = s.gen * max s.n 1 + s.count
  /-- exactly one leader per completed generation -/
  leadersGen : s.leaders = s.gen
  waitingGen : ∀ fu ∈ s.futs, ∀ lg, fu.pc = .waiting lg → lg ≤ s.gen ∧ 2 ≤ s.n
  polledOf : ∀ fu ∈ s.futs, (fu.polled = true ↔ fu.pc ≠ .initial)
  reg : ∀ fu ∈ s.futs, Ev.has s.q fu.id = fu.pc.isWaiting
  rev : ∀ g, Ev.has s.q g = true → ∃ fu ∈ s.futs, fu.id = g
  wake : WakeOK s.q s.woken
  task : AllTask s.q
  /-- waits of a completed generation have been notified -/
  relN : ∀ fu ∈ s.futs, ∀ lg, fu.pc = .waiting lg → lg < s.gen → Ev.isNotified s.q fu.id = true

theorem findFut_mem {s : Sys} {f : Nat} {fu : Fut} (h : findFut s f = some fu) :
    fu ∈ s.futs ∧ fu.id = f := find_id_mem (id := fun x : Fut => x.id) h

theorem init_binv (n : Nat) : BInv ({ n := n } : Sys) := by
  refine ⟨by simp, by simp; omega, by simp, rfl, by simp, by simp, by simp, ?_, ?_, ?_, by simp⟩
  · intro g hg; simp [Ev.has] at hg
  · intro e he; simp at he
  · intro e he; simp at he

/-- after `notify(usize::MAX)` every listener is notified -/
theorem notifyAll_all (q : List Entry) : AllNotified (Ev.notify false (q.length + cnt q) q) := by
  unfold Ev.notify notifyK
  simp only [Bool.false_eq_true, if_false]
  exact notifyQ_all false _ q (by omega)

theorem isNotified_of_all {q : List Entry} {f : Nat} (h : AllNotified q) (hh : Ev.has q f = true) :
    Ev.isNotified q f = true := allNotified_isNotified h hh

theorem isNotified_setTask (q : List Entry) (f t g : Nat) :
    Ev.isNotified (Ev.setTask q f t) g = Ev.isNotified q g := by
  induction q with
  | nil => rfl
  | cons a l ih =>
    simp only [Ev.isNotified, Ev.setTask, List.map_cons, List.any_cons] at ih ⊢
    rw [ih]
    by_cases ha : a.owner = f <;> simp [ha]

theorem isNotified_listen_ne (q : List Entry) (f g : Nat) (h : g ≠ f) :
    Ev.isNotified (Ev.listen q f) g = Ev.isNotified q g := by
  simp [Ev.isNotified, Ev.listen, Ne.symm h]

theorem isNotified_erase_ne (q : List Entry) (f g : Nat) (h : g ≠ f) :
    Ev.isNotified (Ev.erase q f) g = Ev.isNotified q g := by
  induction q with
  | nil => rfl
  | cons a l ih =>
    simp only [Ev.isNotified, Ev.erase] at ih ⊢
    by_cases ha : a.owner = f
    · have hfg : ¬ f = g := fun hc => h hc.symm
      simp [List.filter_cons, ha, hfg, ih]
    · simp [List.filter_cons, ha, ih]

theorem notifyQ_isNotified_mono (add : Bool) (n : Nat) (q : List Entry) (g : Nat)
    (h : Ev.isNotified q g = true) : Ev.isNotified (notifyQ add n q) g = true := by
  fun_induction notifyQ add n q <;> simp_all [Ev.isNotified] <;> grind

theorem isNotified_notify_mono (add : Bool) (n : Nat) (q : List Entry) (g : Nat)
    (h : Ev.isNotified q g = true) : Ev.isNotified (Ev.notify add n q) g = true :=
  notifyQ_isNotified_mono _ _ _ _ h

theorem isNotified_drop_ne (q : List Entry) (f g : Nat) (hne : g ≠ f)
    (h : Ev.isNotified q g = true) : Ev.isNotified (Ev.drop q f) g = true := by
  unfold Ev.drop
  split
  · exact isNotified_notify_mono _ _ _ _ (by rw [isNotified_erase_ne _ _ _ hne]; exact h)
  · rw [isNotified_erase_ne _ _ _ hne]; exact h

end ALock.Barrier

namespace ALock.Barrier

theorem pend_ok'' {f t : Nat} {q : List Entry} {w : List Nat} (h1 : WakeOKExcept f q w)
    (h2 : AllTaskExcept f q) (h3 : Ev.isNotified q f = false) :
    WakeOK (Ev.setTask q f t) w ∧ AllTask (Ev.setTask q f t) :=
  ⟨Ev.setTask_wakeOK_of_except h1 h3, Ev.setTask_allTask_of_except h2⟩

@[simp] theorem upd_pc (pc : Pc) (t : Nat) (x : Fut) : (upd pc t x).pc = pc := rfl
@[simp] theorem upd_id (pc : Pc) (t : Nat) (x : Fut) : (upd pc t x).id = x.id := rfl
@[simp] theorem upd_polled (pc : Pc) (t : Nat) (x : Fut) : (upd pc t x).polled = true := rfl

/-- how the invariant's future-indexed clauses move from `s.futs` to the updated list -/
theorem futs_update {s : Sys} (h : BInv s) (f t : Nat) (fu : Fut) (hmem : fu ∈ s.futs) (hid : fu.id = f)
    (pc' : Pc) (P : Fut → Prop) (hself : P (upd pc' t fu))
    (hother : ∀ x ∈ s.futs, x.id ≠ f → P x) :
    ∀ x ∈ setFut s.futs f (upd pc' t), P x := by
  intro x hx
  obtain ⟨y, hy, rfl⟩ := mem_map_update.mp hx
  by_cases hyf : y.id = f
  · have : y = fu := eq_of_nodup_map h.nodup hy hmem (by rw [hyf, hid])
    subst this
    have hb : (y.id == f) = true := by simp [hyf]
    simp only [hb, if_true]; exact hself
  · have hb : (y.id == f) = false := by simp [hyf]
    simp only [hb, Bool.false_eq_true, if_false]; exact hother y hy hyf

theorem rev_update {s : Sys} (h : BInv s) (f : Nat) (fu : Fut) (hmem : fu ∈ s.futs) (hid : fu.id = f)
    (g : Fut → Fut) (hg : ∀ x, (g x).id = x.id) (q' : List Entry)
    (hq : ∀ x, Ev.has q' x = true → x = f ∨ Ev.has s.q x = true) :
    ∀ x, Ev.has q' x = true → ∃ y ∈ setFut s.futs f g, y.id = x := by
  intro x hx
  rcases hq x hx with rfl | hold
  · exact ⟨_, mem_map_update.mpr ⟨fu, hmem, rfl⟩, by simp [hid, hg]⟩
  · obtain ⟨y, hy, hyi⟩ := h.rev x hold
    refine ⟨_, mem_map_update.mpr ⟨y, hy, rfl⟩, ?_⟩
    split <;> simp [hg, hyi]

theorem step_binv (s : Sys) (op : Op) (h : BInv s) : BInv (next s op) := by
  unfold next
  cases op with
  | start f =>
    simp only [step]
    split
    · rename_i hc
      simp only [Option.isNone_iff_eq_none] at hc
      have hfresh : ∀ x ∈ s.futs, x.id ≠ f := by
        intro x hx hid
        unfold findFut at hc
        rw [List.find?_eq_none] at hc
        exact hc x hx (by simp [hid])
      have nohas : Ev.has s.q f = false := by
        cases hh : Ev.has s.q f
        · rfl
        · obtain ⟨x, hx, hxi⟩ := h.rev _ hh
          exact absurd hxi (hfresh x hx)
      refine ⟨nodup_cons_fresh _ _ _ h.nodup (by simpa using hfresh), h.countLt, h.arrivedEq,
        h.leadersGen, ?_, ?_, ?_, ?_, h.wake, h.task, ?_⟩
      · intro fu hfu lg hp
        rcases List.mem_cons.mp hfu with rfl | hfu
        · simp at hp
        · exact h.waitingGen fu hfu lg hp
      · intro fu hfu
        rcases List.mem_cons.mp hfu with rfl | hfu
        · simp
        · exact h.polledOf fu hfu
      · intro fu hfu
        rcases List.mem_cons.mp hfu with rfl | hfu
        · simp [nohas, Pc.isWaiting, Pc.gen?]
        · exact h.reg fu hfu
      · intro g hg
        obtain ⟨x, hx, hxi⟩ := h.rev g hg
        exact ⟨x, List.mem_cons_of_mem _ hx, hxi⟩
      · intro fu hfu lg hp hl
        rcases List.mem_cons.mp hfu with rfl | hfu
        · simp at hp
        · exact h.relN fu hfu lg hp hl
    · exact h
  | poll f t =>
    simp only [step]
    split
    · rename_i fu hfu
      obtain ⟨hmem, hid⟩ := findFut_mem hfu
      split
      · exact h
      · rename_i hnd
        have hreg := h.reg fu hmem
        rw [hid] at hreg
        have hwE : WakeOKExcept f s.q (s.woken.filter (· != f)) :=
          wakeOKExcept_of_cons (wakeOK_filter _ _ _ h.wake)
        have hte : AllTaskExcept f s.q := h.task.toExcept
        have hcl := h.countLt
        have hae := h.arrivedEq
        unfold pollWait
        cases hpc : fu.pc with
        | initial =>
          have hnh : Ev.has s.q f = false := by simp [hreg, hpc, Pc.isWaiting, Pc.gen?]
          simp only [hid]
          split
          · -- arrives and waits
            rename_i hlt
            have pk := pend_ok'' (t := t) (Ev.listen_wakeOKExcept hwE) (Ev.listen_allTaskExcept hte)
              (Ev.isNotified_listen_fresh _ _ hnh)
            refine ⟨nodup_map_update _ (fun x : Fut => x.id) f _ (fun _ => rfl) h.nodup,
              by simp only []; omega, by simp only []; omega, h.leadersGen, ?_, ?_, ?_, ?_, pk.1, pk.2, ?_⟩
            · exact futs_update h f t fu hmem hid (.waiting s.gen)
                (fun x => ∀ lg, x.pc = .waiting lg → lg ≤ s.gen ∧ 2 ≤ s.n)
                (by intro lg hp; simp at hp; subst hp; exact ⟨Nat.le_refl _, by omega⟩)
                (fun x hx _ => h.waitingGen x hx)
            · exact futs_update h f t fu hmem hid (.waiting s.gen)
                (fun x => x.polled = true ↔ x.pc ≠ .initial) (by simp)
                (fun x hx _ => h.polledOf x hx)
            · exact futs_update h f t fu hmem hid (.waiting s.gen)
                (fun x => Ev.has (Ev.setTask (Ev.listen s.q f) f t) x.id = x.pc.isWaiting)
                (by simp [Ev.has_setTask, Ev.has_listen, hid, Pc.isWaiting, Pc.gen?])
                (fun x hx hne => by
                  have : (f == x.id) = false := by simp [Ne.symm hne]
                  simp [Ev.has_setTask, Ev.has_listen, this]; exact h.reg x hx)
            · exact rev_update h f fu hmem hid (upd _ t) (fun _ => rfl) _ (fun x hx => by
                simp only [Ev.has_setTask, Ev.has_listen, Bool.or_eq_true, beq_iff_eq] at hx
                rcases hx with hx | hx
                · exact Or.inr hx
                · exact Or.inl hx.symm)
            · exact futs_update h f t fu hmem hid (.waiting s.gen)
                (fun x => ∀ lg, x.pc = .waiting lg → lg < s.gen →
                  Ev.isNotified (Ev.setTask (Ev.listen s.q f) f t) x.id = true)
                (by intro lg hp hl; simp only [upd_pc, Pc.waiting.injEq] at hp; omega)
                (fun x hx hne lg hp hl => by
                  rw [isNotified_setTask, isNotified_listen_ne _ _ _ hne]
                  exact h.relN x hx lg hp hl)
          · -- the n-th arrival: the leader
            rename_i hge
            have hcount : s.count + 1 = max s.n 1 := by omega
            have hall := notifyAll_all s.q
            have hwk := Ev.notify_wakeOK false (s.q.length + cnt s.q) s.q _
              (wakeOK_of_except_nohas hwE hnh) h.task
            refine ⟨nodup_map_update _ (fun x : Fut => x.id) f _ (fun _ => rfl) h.nodup,
              by simp [Sys.notifyAll]; omega,
              by simp only [Sys.notifyAll]; rw [hae, Nat.add_mul, ← hcount]; omega,
              by simp [Sys.notifyAll, h.leadersGen], ?_, ?_, ?_, ?_, ?_, ?_, ?_⟩
            · exact futs_update h f t fu hmem hid .done
                (fun x => ∀ lg, x.pc = .waiting lg → lg ≤ s.gen + 1 ∧ 2 ≤ s.n)
                (by intro lg hp; simp only [upd_pc] at hp; cases hp)
                (fun x hx _ lg hp => ⟨by have := (h.waitingGen x hx lg hp).1; omega,
                  (h.waitingGen x hx lg hp).2⟩)
            · exact futs_update h f t fu hmem hid .done
                (fun x => x.polled = true ↔ x.pc ≠ .initial) (by simp)
                (fun x hx _ => h.polledOf x hx)
            · exact futs_update h f t fu hmem hid .done
                (fun x => Ev.has (Ev.notify false (s.q.length + cnt s.q) s.q) x.id = x.pc.isWaiting)
                (by simp [Ev.has_notify, hid, hnh, Pc.isWaiting, Pc.gen?])
                (fun x hx _ => by rw [Ev.has_notify]; exact h.reg x hx)
            · exact rev_update h f fu hmem hid (upd _ t) (fun _ => rfl)
                (Ev.notify false (s.q.length + cnt s.q) s.q) (fun x hx => by
                  rw [Ev.has_notify] at hx; exact Or.inr hx)
            · exact hwk
            · exact Ev.notify_allTask _ _ _ h.task
            · exact futs_update h f t fu hmem hid .done
                (fun x => ∀ lg, x.pc = .waiting lg → lg < s.gen + 1 →
                  Ev.isNotified (Ev.notify false (s.q.length + cnt s.q) s.q) x.id = true)
                (by intro lg hp; simp only [upd_pc] at hp; cases hp)
                (fun x hx _ lg hp _ => by
                  apply isNotified_of_all hall
                  rw [Ev.has_notify, h.reg x hx, hp]; rfl)
        | waiting lg =>
          have hh : Ev.has s.q f = true := by simp [hreg, hpc, Pc.isWaiting, Pc.gen?]
          have hwg := h.waitingGen fu hmem lg hpc
          simp only [hid]
          split
          · -- not notified: store the waker
            rename_i hn
            simp only [Bool.not_eq_true'] at hn
            have pk := pend_ok'' (t := t) hwE hte hn
            refine ⟨nodup_map_update _ (fun x : Fut => x.id) f _ (fun _ => rfl) h.nodup,
              hcl, hae, h.leadersGen, ?_, ?_, ?_, ?_, pk.1, pk.2, ?_⟩
            · exact futs_update h f t fu hmem hid (.waiting lg)
                (fun x => ∀ lg, x.pc = .waiting lg → lg ≤ s.gen ∧ 2 ≤ s.n)
                (by intro lg' hp; simp at hp; subst hp; exact hwg)
                (fun x hx _ => h.waitingGen x hx)
            · exact futs_update h f t fu hmem hid (.waiting lg)
                (fun x => x.polled = true ↔ x.pc ≠ .initial) (by simp)
                (fun x hx _ => h.polledOf x hx)
            · exact futs_update h f t fu hmem hid (.waiting lg)
                (fun x => Ev.has (Ev.setTask s.q f t) x.id = x.pc.isWaiting)
                (by simp [Ev.has_setTask, hid, hh, Pc.isWaiting, Pc.gen?])
                (fun x hx _ => by rw [Ev.has_setTask]; exact h.reg x hx)
            · exact rev_update h f fu hmem hid (upd _ t) (fun _ => rfl) _ (fun x hx => by
                rw [Ev.has_setTask] at hx; exact Or.inr hx)
            · exact futs_update h f t fu hmem hid (.waiting lg)
                (fun x => ∀ lg, x.pc = .waiting lg → lg < s.gen →
                  Ev.isNotified (Ev.setTask s.q f t) x.id = true)
                (by
                  intro lg' hp hl; simp only [upd_pc, Pc.waiting.injEq] at hp; subst hp
                  have := h.relN fu hmem _ hpc hl
                  rw [hid, hn] at this; cases this)
                (fun x hx _ lg' hp hl => by rw [isNotified_setTask]; exact h.relN x hx lg' hp hl)
          · split
            · -- notified, but its generation is not complete: wait again
              rename_i hcond
              simp only [Bool.and_eq_true, decide_eq_true_eq] at hcond
              have pk := pend_ok'' (t := t) (Ev.listen_wakeOKExcept (Ev.erase_wakeOKExcept hwE))
                (Ev.listen_allTaskExcept (Ev.erase_allTaskExcept hte)) (Ev.isNotified_listen_of_erased _ _)
              refine ⟨nodup_map_update _ (fun x : Fut => x.id) f _ (fun _ => rfl) h.nodup,
                hcl, hae, h.leadersGen, ?_, ?_, ?_, ?_, pk.1, pk.2, ?_⟩
              · exact futs_update h f t fu hmem hid (.waiting lg)
                  (fun x => ∀ lg, x.pc = .waiting lg → lg ≤ s.gen ∧ 2 ≤ s.n)
                  (by intro lg' hp; simp at hp; subst hp; exact hwg)
                  (fun x hx _ => h.waitingGen x hx)
              · exact futs_update h f t fu hmem hid (.waiting lg)
                  (fun x => x.polled = true ↔ x.pc ≠ .initial) (by simp)
                  (fun x hx _ => h.polledOf x hx)
              · exact futs_update h f t fu hmem hid (.waiting lg)
                  (fun x => Ev.has (Ev.setTask (Ev.listen (Ev.erase s.q f) f) f t) x.id = x.pc.isWaiting)
                  (by simp [Ev.has_setTask, Ev.has_listen, hid, Pc.isWaiting, Pc.gen?])
                  (fun x hx hne => by
                    have h1 : (f == x.id) = false := by simp [Ne.symm hne]
                    have h2 : (x.id != f) = true := by simp [hne]
                    simp [Ev.has_setTask, Ev.has_listen, Ev.has_erase, h1, h2]; exact h.reg x hx)
              · exact rev_update h f fu hmem hid (upd _ t) (fun _ => rfl) _ (fun x hx => by
                  simp only [Ev.has_setTask, Ev.has_listen, Ev.has_erase, Bool.or_eq_true,
                    Bool.and_eq_true, beq_iff_eq] at hx
                  rcases hx with hx | hx
                  · exact Or.inr hx.1
                  · exact Or.inl hx.symm)
              · exact futs_update h f t fu hmem hid (.waiting lg)
                  (fun x => ∀ lg, x.pc = .waiting lg → lg < s.gen →
                    Ev.isNotified (Ev.setTask (Ev.listen (Ev.erase s.q f) f) f t) x.id = true)
                  (by intro lg' hp hl; simp only [upd_pc, Pc.waiting.injEq] at hp; subst hp; omega)
                  (fun x hx hne lg' hp hl => by
                    rw [isNotified_setTask, isNotified_listen_ne _ _ _ hne, isNotified_erase_ne _ _ _ hne]
                    exact h.relN x hx lg' hp hl)
            · -- notified and its generation is complete: done
              refine ⟨nodup_map_update _ (fun x : Fut => x.id) f _ (fun _ => rfl) h.nodup,
                hcl, hae, h.leadersGen, ?_, ?_, ?_, ?_, Ev.erase_wakeOK_of_except hwE,
                Ev.erase_allTask_of_except hte, ?_⟩
              · exact futs_update h f t fu hmem hid .done
                  (fun x => ∀ lg, x.pc = .waiting lg → lg ≤ s.gen ∧ 2 ≤ s.n)
                  (by intro lg' hp; simp only [upd_pc] at hp; cases hp)
                  (fun x hx _ => h.waitingGen x hx)
              · exact futs_update h f t fu hmem hid .done
                  (fun x => x.polled = true ↔ x.pc ≠ .initial) (by simp)
                  (fun x hx _ => h.polledOf x hx)
              · exact futs_update h f t fu hmem hid .done
                  (fun x => Ev.has (Ev.erase s.q f) x.id = x.pc.isWaiting)
                  (by simp [Ev.has_erase, hid, Pc.isWaiting, Pc.gen?])
                  (fun x hx hne => by
                    have h2 : (x.id != f) = true := by simp [hne]
                    simp [Ev.has_erase, h2]; exact h.reg x hx)
              · exact rev_update h f fu hmem hid (upd _ t) (fun _ => rfl) _ (fun x hx => by
                  simp only [Ev.has_erase, Bool.and_eq_true] at hx
                  exact Or.inr hx.1)
              · exact futs_update h f t fu hmem hid .done
                  (fun x => ∀ lg, x.pc = .waiting lg → lg < s.gen →
                    Ev.isNotified (Ev.erase s.q f) x.id = true)
                  (by intro lg' hp; simp only [upd_pc] at hp; cases hp)
                  (fun x hx hne lg' hp hl => by
                    rw [isNotified_erase_ne _ _ _ hne]; exact h.relN x hx lg' hp hl)
        | done => exact absurd hpc hnd
    · exact h
  | dropFut f =>
    simp only [step]
    split
    · rename_i fu hfu
      obtain ⟨hmem, hid⟩ := findFut_mem hfu
      have hreg := h.reg fu hmem
      rw [hid] at hreg
      have hwE : WakeOKExcept f s.q (s.woken.filter (· != f)) :=
        wakeOKExcept_of_cons (wakeOK_filter _ _ _ h.wake)
      have filt : ∀ (P : Fut → Prop), (∀ x ∈ s.futs, x.id ≠ f → P x) →
          ∀ x ∈ s.futs.filter (·.id != f), P x := by
        intro P hp x hx
        have hx' := List.mem_filter.mp hx
        exact hp x hx'.1 (by simpa using hx'.2)
      cases hpc : fu.pc with
      | waiting lg =>
        simp only []
        refine ⟨nodup_map_filter _ _ _ h.nodup, h.countLt, h.arrivedEq, h.leadersGen, ?_, ?_, ?_, ?_,
          Ev.drop_wakeOK f (wakeOK_cons_of_except hwE) h.task, Ev.drop_allTask f h.task, ?_⟩
        · exact filt _ (fun x hx _ => h.waitingGen x hx)
        · exact filt _ (fun x hx _ => h.polledOf x hx)
        · exact filt _ (fun x hx hne => by
            have h2 : (x.id != f) = true := by simp [hne]
            simp only [Sys.dropEv, Ev.has_drop, h2, Bool.and_true]; exact h.reg x hx)
        · intro g hg
          simp only [Sys.dropEv, Ev.has_drop, Bool.and_eq_true, bne_iff_ne, ne_eq] at hg
          obtain ⟨y, hy, hyi⟩ := h.rev g hg.1
          exact ⟨y, List.mem_filter.mpr ⟨hy, by simp [hyi, hg.2]⟩, hyi⟩
        · exact filt _ (fun x hx hne lg' hp hl => by
            simp only [Sys.dropEv]
            exact isNotified_drop_ne _ _ _ hne (h.relN x hx lg' hp hl))
      | initial =>
        have hnh : Ev.has s.q f = false := by simp [hreg, hpc, Pc.isWaiting, Pc.gen?]
        simp only []
        refine ⟨nodup_map_filter _ _ _ h.nodup, h.countLt, h.arrivedEq, h.leadersGen, ?_, ?_, ?_, ?_,
          wakeOK_of_except_nohas hwE hnh, h.task, ?_⟩
        · exact filt _ (fun x hx _ => h.waitingGen x hx)
        · exact filt _ (fun x hx _ => h.polledOf x hx)
        · exact filt _ (fun x hx _ => h.reg x hx)
        · intro g hg
          obtain ⟨y, hy, hyi⟩ := h.rev g hg
          have : g ≠ f := by intro hc; rw [hc, hnh] at hg; cases hg
          exact ⟨y, List.mem_filter.mpr ⟨hy, by simp [hyi, this]⟩, hyi⟩
        · exact filt _ (fun x hx _ => h.relN x hx)
      | done =>
        have hnh : Ev.has s.q f = false := by simp [hreg, hpc, Pc.isWaiting, Pc.gen?]
        simp only []
        refine ⟨nodup_map_filter _ _ _ h.nodup, h.countLt, h.arrivedEq, h.leadersGen, ?_, ?_, ?_, ?_,
          wakeOK_of_except_nohas hwE hnh, h.task, ?_⟩
        · exact filt _ (fun x hx _ => h.waitingGen x hx)
        · exact filt _ (fun x hx _ => h.polledOf x hx)
        · exact filt _ (fun x hx _ => h.reg x hx)
        · intro g hg
          obtain ⟨y, hy, hyi⟩ := h.rev g hg
          have : g ≠ f := by intro hc; rw [hc, hnh] at hg; cases hg
          exact ⟨y, List.mem_filter.mpr ⟨hy, by simp [hyi, this]⟩, hyi⟩
        · exact filt _ (fun x hx _ => h.relN x hx)
    · exact h

theorem run_binv (s : Sys) (ops : List Op) (h : BInv s) : BInv (run s ops) := by
  induction ops generalizing s with
  | nil => exact h
  | cons op ops ih => exact ih _ (step_binv s op h)

theorem reachable_binv (n : Nat) (ops : List Op) : BInv (run { n := n } ops) :=
  run_binv _ ops (init_binv n)

end ALock.Barrier
