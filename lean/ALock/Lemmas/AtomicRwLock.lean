import ALock.Atomic.RwLock

/-! Invariant of the atomic-granularity RwLock model. -/

namespace ALock.Atomic.RwLock
open ALock.Atomic

structure Inv (s : Sys) : Prop where
  /-- the word is the writer bit owed by an inner-mutex holder plus twice the readers -/
  word : s.state = bits s.ags + 2 * readers s.ags
  /-- the inner mutex has at most one holder -/
  mex : mholders s.ags ≤ 1
  /-- a write guard is alone -/
  alone : 1 ≤ writers s.ags → readers s.ags = 0
  /-- a reader about to CAS has read a word without the writer bit -/
  snapEven : ∀ c, Pc.rSnap c ∈ s.ags → c % 2 = 0

theorem sum_set (l : List Pc) (i : Nat) (p a : Pc) (h : Pc → Nat) (ha : l[i]? = some a) :
    ((set l i p).map h).sum + h a = (l.map h).sum + h p :=
  sum_map_modify l i (fun _ => p) h a ha

theorem mem_set {l : List Pc} {i : Nat} {p x : Pc} (hx : x ∈ set l i p) : x ∈ l ∨ x = p := by
  rcases mem_modify hx with h | ⟨a, _, rfl⟩
  · exact Or.inl h
  · exact Or.inr rfl

theorem sum_le_of_pointwise (l : List Pc) (f g : Pc → Nat) (h : ∀ p, f p ≤ g p) :
    (l.map f).sum ≤ (l.map g).sum := by
  induction l with
  | nil => simp
  | cons a t ih => simp only [List.map_cons, List.sum_cons]; have := h a; omega

theorem bt_le_mh (p : Pc) : p.bt ≤ p.mh := by cases p <;> simp [Pc.bt, Pc.mh]
theorem wr_le_bt (p : Pc) : p.wr ≤ p.bt := by cases p <;> simp [Pc.wr, Pc.bt]

/-- the holder of the inner mutex is the only agent that can owe the writer bit or be a writer -/
theorem others_zero {l : List Pc} {i : Nat} {a : Pc} (hm : mholders l ≤ 1) (ha : l[i]? = some a)
    (hmh : a.mh = 1) : bits l = a.bt ∧ writers l = a.wr := by
  have e1 := sum_set l i .idle a Pc.mh ha
  have e2 := sum_set l i .idle a Pc.bt ha
  have e3 := sum_set l i .idle a Pc.wr ha
  have h1 := sum_le_of_pointwise (set l i .idle) Pc.bt Pc.mh bt_le_mh
  have h2 := sum_le_of_pointwise (set l i .idle) Pc.wr Pc.bt wr_le_bt
  simp only [mholders, bits, writers, Pc.mh, Pc.bt, Pc.wr] at *
  omega

theorem rd_le_readers {l : List Pc} {i : Nat} {a : Pc} (ha : l[i]? = some a) : a.rd ≤ readers l := by
  have := sum_set l i .idle a Pc.rd ha
  simp only [readers, Pc.rd] at *; omega

theorem mh_le_mholders {l : List Pc} {i : Nat} {a : Pc} (ha : l[i]? = some a) : a.mh ≤ mholders l := by
  have := sum_set l i .idle a Pc.mh ha
  simp only [mholders, Pc.mh] at *; omega

/-- replace agent `i` (at `a`) by `p`, with new word `st'` -/
theorem inv_set {s : Sys} (h : Inv s) {i : Nat} {a : Pc} (ha : s.ags[i]? = some a) (p : Pc) (st' : Nat)
    (hw : st' + a.bt + 2 * a.rd = s.state + p.bt + 2 * p.rd)
    (hm : p.mh ≤ a.mh ∨ mholders s.ags = 0)
    (hal : 1 ≤ writers s.ags - a.wr + p.wr → readers s.ags - a.rd + p.rd = 0)
    (hs : ∀ c, p = .rSnap c → c % 2 = 0) :
    Inv { state := st', ags := set s.ags i p } := by
  have e1 := sum_set s.ags i p a Pc.rd ha
  have e2 := sum_set s.ags i p a Pc.bt ha
  have e3 := sum_set s.ags i p a Pc.mh ha
  have e4 := sum_set s.ags i p a Pc.wr ha
  have hp : p.mh ≤ 1 := by cases p <;> simp [Pc.mh]
  have hr := rd_le_readers ha
  obtain ⟨hw0, hm0, ha0, hs0⟩ := h
  refine ⟨?_, ?_, ?_, ?_⟩
  · simp only [bits, readers] at *; omega
  · simp only [mholders] at *; omega
  · intro h1
    simp only [writers, readers] at *
    have := hal (by omega)
    omega
  · intro c hc
    rcases mem_set hc with hc | hc
    · exact hs0 c hc
    · exact hs c hc.symm

theorem step_inv (s : Sys) (st : Step) (h : Inv s) : Inv (step s st) := by
  have hw := h.word
  have hm := h.mex
  have hal := h.alone
  cases st with
  | spawn =>
    refine ⟨?_, ?_, ?_, ?_⟩
    · simpa [step, bits, readers, Pc.bt, Pc.rd] using hw
    · simpa [step, mholders, Pc.mh] using hm
    · simpa [step, writers, readers, Pc.wr, Pc.rd] using hal
    · intro c hc
      simp only [step, List.mem_append, List.mem_singleton] at hc
      rcases hc with hc | hc
      · exact h.snapEven c hc
      · cases hc
  | rLoad i =>
    simp only [step]; split
    · rename_i hc
      exact inv_set h hc.1 _ _ (by simp [Pc.bt, Pc.rd]) (Or.inl (by simp [Pc.mh]))
        (by simp [Pc.wr, Pc.rd]; exact hal) (by intro c hcc; cases hcc; exact hc.2)
    · exact h
  | rCas i =>
    simp only [step]; split
    · rename_i c ha
      have hce := h.snapEven c (List.mem_of_getElem? ha)
      split
      · rename_i hsc
        -- success: no writer can exist, or the word would be odd
        have hnw : writers s.ags = 0 := by
          have h1 := sum_le_of_pointwise s.ags Pc.wr Pc.bt wr_le_bt
          have h2 := sum_le_of_pointwise s.ags Pc.bt Pc.mh bt_le_mh
          simp only [writers, bits, mholders, readers] at *
          by_cases hz : (s.ags.map Pc.wr).sum = 0
          · exact hz
          · have := hal (by omega); omega
        exact inv_set h ha _ _ (by simp [Pc.bt, Pc.rd]; omega) (Or.inl (by simp [Pc.mh]))
          (by simp [Pc.wr, Pc.rd, hnw]) (by intro c hcc; cases hcc)
      · split
        · rename_i hne he
          exact inv_set h ha _ _ (by simp [Pc.bt, Pc.rd]) (Or.inl (by simp [Pc.mh]))
            (by simp [Pc.wr, Pc.rd]; exact hal) (by intro c hcc; cases hcc; exact he)
        · exact inv_set h ha _ _ (by simp [Pc.bt, Pc.rd]) (Or.inl (by simp [Pc.mh]))
            (by simp [Pc.wr, Pc.rd]; exact hal) (by intro c hcc; cases hcc)
    · exact h
  | rUnlock i =>
    simp only [step]; split
    · rename_i ha
      have hr := rd_le_readers ha
      simp only [Pc.rd] at hr
      exact inv_set h ha _ _ (by simp [Pc.bt, Pc.rd]; simp only [readers] at *; omega)
        (Or.inl (by simp [Pc.mh]))
        (by simp [Pc.wr, Pc.rd]; intro h1; have := hal h1; omega) (by intro c hcc; cases hcc)
    · exact h
  | mLock i =>
    simp only [step]; split
    · rename_i hc
      exact inv_set h hc.1 _ _ (by simp [Pc.bt, Pc.rd]) (Or.inr hc.2)
        (by simp [Pc.wr, Pc.rd]; exact hal) (by intro c hcc; cases hcc)
    · exact h
  | mUnlock i =>
    simp only [step]; split
    · rename_i hc
      rcases hc with ha | ha | ha <;>
        exact inv_set h ha _ _ (by simp [Pc.bt, Pc.rd]) (Or.inl (by simp [Pc.mh]))
          (by simp [Pc.wr, Pc.rd]; exact hal) (by intro c hcc; cases hcc)
    · exact h
  | uLoad i =>
    simp only [step]; split
    · rename_i ha
      exact inv_set h ha _ _ (by simp [Pc.bt, Pc.rd]) (Or.inl (by simp [Pc.mh]))
        (by simp [Pc.wr, Pc.rd]; exact hal) (by intro c hcc; cases hcc)
    · exact h
  | uCas i =>
    simp only [step]; split
    · rename_i c ha
      obtain ⟨_, hwz⟩ := others_zero hm ha (by simp [Pc.mh])
      simp only [Pc.wr] at hwz
      split
      · rename_i hsc
        exact inv_set h ha _ _ (by simp [Pc.bt, Pc.rd]; omega) (Or.inl (by simp [Pc.mh]))
          (by simp [Pc.wr, Pc.rd, hwz]) (by intro c hcc; cases hcc)
      · exact inv_set h ha _ _ (by simp [Pc.bt, Pc.rd]) (Or.inl (by simp [Pc.mh]))
          (by simp [Pc.wr, Pc.rd]; exact hal) (by intro c hcc; cases hcc)
    · exact h
  | wCas0 i =>
    simp only [step]; split
    · rename_i hc
      obtain ⟨ha, h0⟩ := hc
      have hr0 : readers s.ags = 0 := by simp only [readers, bits] at *; omega
      exact inv_set h ha _ _ (by simp [Pc.bt, Pc.rd, h0]) (Or.inl (by simp [Pc.mh]))
        (by simp [Pc.wr, Pc.rd, hr0]) (by intro c hcc; cases hcc)
    · exact h
  | wFetchOr i =>
    simp only [step]; split
    · rename_i ha
      obtain ⟨hbz, hwz⟩ := others_zero hm ha (by simp [Pc.mh])
      simp only [Pc.bt, Pc.wr] at hbz hwz
      exact inv_set h ha _ _ (by simp [Pc.bt, Pc.rd]; simp only [bits, readers] at *; omega)
        (Or.inl (by simp [Pc.mh])) (by simp [Pc.wr, Pc.rd, hwz]) (by intro c hcc; cases hcc)
    · exact h
  | wCheck i =>
    simp only [step]; split
    · rename_i hc
      obtain ⟨ha, h1⟩ := hc
      have hr0 : readers s.ags = 0 := by simp only [readers, bits] at *; omega
      rcases ha with ha | ha <;>
        exact inv_set h ha _ _ (by simp [Pc.bt, Pc.rd]) (Or.inl (by simp [Pc.mh]))
          (by simp [Pc.wr, Pc.rd, hr0]) (by intro c hcc; cases hcc)
    · exact h
  | wUnlock1 i =>
    simp only [step]; split
    · rename_i hc
      rcases hc with ha | ha | ha <;>
      · obtain ⟨hbz, hwz⟩ := others_zero hm ha (by simp [Pc.mh])
        simp only [Pc.bt, Pc.wr] at hbz hwz
        exact inv_set h ha _ _ (by simp [Pc.bt, Pc.rd]; simp only [bits, readers] at *; omega)
          (Or.inl (by simp [Pc.mh])) (by simp [Pc.wr, Pc.rd, hwz]) (by intro c hcc; cases hcc)
    · exact h
  | tryUpgrade i =>
    simp only [step]; split
    · rename_i hc
      obtain ⟨ha, h2⟩ := hc
      obtain ⟨hbz, hwz⟩ := others_zero hm ha (by simp [Pc.mh])
      simp only [Pc.bt, Pc.wr] at hbz hwz
      have hr1 : readers s.ags = 1 := by simp only [readers, bits] at *; omega
      exact inv_set h ha _ _ (by simp [Pc.bt, Pc.rd, h2]) (Or.inl (by simp [Pc.mh]))
        (by simp [Pc.wr, Pc.rd, hr1]) (by intro c hcc; cases hcc)
    · exact h
  | upgrade i =>
    simp only [step]; split
    · rename_i ha
      obtain ⟨hbz, hwz⟩ := others_zero hm ha (by simp [Pc.mh])
      simp only [Pc.bt, Pc.wr] at hbz hwz
      have hr := rd_le_readers ha
      simp only [Pc.rd] at hr
      exact inv_set h ha _ _ (by simp [Pc.bt, Pc.rd]; simp only [bits, readers] at *; omega)
        (Or.inl (by simp [Pc.mh])) (by simp [Pc.wr, Pc.rd, hwz]) (by intro c hcc; cases hcc)
    · exact h
  | dgU i =>
    simp only [step]; split
    · rename_i ha
      obtain ⟨_, hwz⟩ := others_zero hm ha (by simp [Pc.mh])
      simp only [Pc.wr] at hwz
      exact inv_set h ha _ _ (by simp [Pc.bt, Pc.rd]) (Or.inl (by simp [Pc.mh]))
        (by simp [Pc.wr, Pc.rd, hwz]) (by intro c hcc; cases hcc)
    · exact h
  | dgW1 i =>
    simp only [step]; split
    · rename_i ha
      obtain ⟨hbz, hwz⟩ := others_zero hm ha (by simp [Pc.mh])
      simp only [Pc.bt, Pc.wr] at hbz hwz
      exact inv_set h ha _ _ (by simp [Pc.bt, Pc.rd]) (Or.inl (by simp [Pc.mh]))
        (by simp [Pc.wr, Pc.rd, hwz]) (by intro c hcc; cases hcc)
    · exact h
  | dgW2 i =>
    simp only [step]; split
    · rename_i ha
      obtain ⟨_, hwz⟩ := others_zero hm ha (by simp [Pc.mh])
      simp only [Pc.wr] at hwz
      exact inv_set h ha _ _ (by simp [Pc.bt, Pc.rd]) (Or.inl (by simp [Pc.mh]))
        (by simp [Pc.wr, Pc.rd, hwz]) (by intro c hcc; cases hcc)
    · exact h
  | dgWU i =>
    simp only [step]; split
    · rename_i ha
      obtain ⟨hbz, hwz⟩ := others_zero hm ha (by simp [Pc.mh])
      simp only [Pc.bt, Pc.wr] at hbz hwz
      exact inv_set h ha _ _ (by simp [Pc.bt, Pc.rd]) (Or.inl (by simp [Pc.mh]))
        (by simp [Pc.wr, Pc.rd, hwz]) (by intro c hcc; cases hcc)
    · exact h
  | uUnlock1 i =>
    simp only [step]; split
    · rename_i ha
      have hr := rd_le_readers ha
      simp only [Pc.rd] at hr
      obtain ⟨_, hwz⟩ := others_zero hm ha (by simp [Pc.mh])
      simp only [Pc.wr] at hwz
      exact inv_set h ha _ _ (by simp [Pc.bt, Pc.rd]; simp only [readers] at *; omega)
        (Or.inl (by simp [Pc.mh])) (by simp [Pc.wr, Pc.rd, hwz]) (by intro c hcc; cases hcc)
    · exact h

theorem init_inv : Inv {} := ⟨by simp [bits, readers], by simp [mholders], by simp [writers], by simp⟩

theorem run_inv (s : Sys) (l : List Step) (h : Inv s) : Inv (run s l) := by
  induction l generalizing s with
  | nil => exact h
  | cons x t ih => exact ih _ (step_inv s x h)

end ALock.Atomic.RwLock
