import ALock.Mutex
import ALock.Lemmas.MutexCore
import ALock.Lemmas.ListAux

/-! The inductive invariant of the Mutex model. Property statements are in `Props/`. -/

set_option linter.unusedSimpArgs false
set_option linter.unusedVariables false

namespace ALock.Mutex

/-- twice the number of starved, uncompleted, live lock operations -/
def ticks (s : Sys) : Nat := (s.futs.map (fun x => x.l.tick)).sum

structure FutOK (fu : Fut) : Prop where
  starvedSlow : fu.l.starved = true → fu.l.slow = true
  donePolled : fu.l.done = true → fu.polled = true
  slowPolled : fu.l.slow = true → fu.polled = true
  polledSlow : fu.polled = true → fu.l.done = false → fu.l.slow = true

structure MInv (s : Sys) : Prop where
  nodup : (s.futs.map (·.id)).Nodup
  flags : ∀ fu ∈ s.futs, FutOK fu
  /-- the state word: lock bit = guards alive, upper bits = starved live operations -/
  word : s.c.st = s.guards.length + ticks s
  excl : s.guards.length ≤ 1
  /-- a live lock operation is registered on `lock_ops` exactly while it is waiting -/
  reg : ∀ fu ∈ s.futs, Ev.has s.c.q fu.id = fu.l.waiting
  /-- every registered listener belongs to a live lock operation -/
  regRev : ∀ g, Ev.has s.c.q g = true → ∃ fu ∈ s.futs, fu.id = g
  wake : WakeOK s.c.q s.c.woken
  task : AllTask s.c.q
  baton : Baton s.c

theorem tick_cases (l : LockSt) : l.tick = 0 ∨ l.tick = 2 := by
  unfold LockSt.tick; split <;> simp

theorem tick_two_iff (l : LockSt) : l.tick = 2 ↔ (l.starved = true ∧ l.done = false) := by
  unfold LockSt.tick; cases l.starved <;> cases l.done <;> simp

theorem ticks_even (s : Sys) : ticks s % 2 = 0 := by
  unfold ticks
  induction s.futs with
  | nil => rfl
  | cons a t ih =>
    simp only [List.map_cons, List.sum_cons]
    rcases tick_cases a.l with h | h <;> omega

theorem tick_le_ticks (s : Sys) (fu : Fut) (h : fu ∈ s.futs) : fu.l.tick ≤ ticks s :=
  le_sum_of_mem s.futs (fun x => x.l.tick) fu h

theorem findFut_mem {s : Sys} {f : Nat} {fu : Fut} (h : findFut s f = some fu) :
    fu ∈ s.futs ∧ fu.id = f := find_id_mem (id := fun x : Fut => x.id) h

theorem findGuard_mem {s : Sys} {g : Nat} {gu : Guard} (h : findGuard s g = some gu) :
    gu ∈ s.guards ∧ gu.id = g := find_id_mem (id := fun x : Guard => x.id) h

theorem fresh_fut {s : Sys} {i : Nat} (h : fresh s i = true) : ∀ x ∈ s.futs, x.id ≠ i := by
  simp only [fresh, Bool.and_eq_true] at h
  exact find_none_forall (id := fun x : Fut => x.id) h.1

theorem eraseP_guard_length {s : Sys} {g : Nat} {gu : Guard} (h : findGuard s g = some gu) :
    (s.guards.eraseP (·.id == g)).length + 1 = s.guards.length := by
  have hm := findGuard_mem h
  have := List.length_eraseP_of_mem (p := fun x : Guard => x.id == g) hm.1 (by simp [hm.2])
  have hpos : 0 < s.guards.length := List.length_pos_of_mem hm.1
  omega

/-- an unlocked mutex with a starved live operation has a registered waiter -/
theorem queue_ne_nil_of_starved {s : Sys} (h : MInv s) (he : s.c.st % 2 = 0) (h2 : 2 ≤ s.c.st) :
    s.c.q ≠ [] := by
  have hw := h.word
  have hev := ticks_even s
  have hx := h.excl
  have hg : s.guards.length = 0 := by omega
  have ht : 2 ≤ ticks s := by omega
  obtain ⟨fu, hfu, htk⟩ := exists_of_sum_ge s.futs (fun x => x.l.tick)
    (fun x _ => tick_cases x.l) ht
  have hsd := (tick_two_iff fu.l).mp htk
  have hslow := (h.flags fu hfu).starvedSlow hsd.1
  have hreg := h.reg fu hfu
  simp only [LockSt.waiting, hslow, hsd.2, Bool.not_false, Bool.and_self] at hreg
  exact Ev.has_ne_nil hreg

theorem init_inv : MInv ({} : Sys) := by
  refine ⟨by simp, by simp, by simp [ticks], by simp, by simp, ?_, ?_, ?_, ?_⟩
  · intro g hg; simp [Ev.has] at hg
  · intro e he; simp at he
  · intro e he; simp at he
  · intro _ h; simp at h

theorem step_inv (s : Sys) (op : Op) (h : MInv s) : MInv (next s op) := by
  unfold next
  cases op with
  | start f arc =>
    simp only [step]; split
    · rename_i hfr
      simp only [Bool.and_eq_true, decide_eq_true_eq] at hfr
      have hfresh := fresh_fut hfr.1
      refine ⟨?_, ?_, ?_, h.excl, ?_, ?_, h.wake, h.task, h.baton⟩
      · simp only [List.map_cons, List.nodup_cons]
        refine ⟨?_, h.nodup⟩
        intro hc
        obtain ⟨x, hx, hxi⟩ := List.mem_map.mp hc
        exact hfresh x hx hxi
      · intro fu hfu
        rcases List.mem_cons.mp hfu with rfl | hfu
        · exact ⟨by simp, by simp, by simp, by simp⟩
        · exact h.flags fu hfu
      · simpa [ticks, LockSt.tick] using h.word
      · intro fu hfu
        rcases List.mem_cons.mp hfu with rfl | hfu
        · simp only [LockSt.waiting, Bool.false_and]
          cases hh : Ev.has s.c.q f
          · rfl
          · obtain ⟨x, hx, hxi⟩ := h.regRev f hh
            exact absurd hxi (hfresh x hx)
        · exact h.reg fu hfu
      · intro g hg
        obtain ⟨x, hx, hxi⟩ := h.regRev g hg
        exact ⟨x, List.mem_cons_of_mem _ hx, hxi⟩
    · exact h
  | poll f t fire =>
    simp only [step]
    split
    · rename_i fu hfu
      obtain ⟨hmem, hid⟩ := findFut_mem hfu
      split
      · exact h
      · rename_i hdone
        simp only [Bool.not_eq_true] at hdone
        have hfl := h.flags fu hmem
        have htk := tick_le_ticks s fu hmem
        have hst : fu.l.starved = true → 2 ≤ (s.c.polled f).st := by
          intro hsv
          have : fu.l.tick = 2 := (tick_two_iff _).mpr ⟨hsv, hdone⟩
          have := h.word
          simp only [Core.polled_st]; omega
        have hflags := lockPoll_flags (s.c.polled f) fu.l f t fire hdone hfl.starvedSlow
        have hword := lockPoll_word (s.c.polled f) fu.l f t fire hdone hfl.starvedSlow hst
        have hbit := lockPoll_ready_bit (s.c.polled f) fu.l f t fire hdone hfl.starvedSlow hst
        have hreg0 : Ev.has (s.c.polled f).q f = fu.l.waiting := by
          have := h.reg fu hmem; rw [hid] at this; exact this
        have hself := lockPoll_has_self (s.c.polled f) fu.l f t fire hdone hfl.starvedSlow hreg0
        have hother := lockPoll_has_other (s.c.polled f) fu.l f t fire
        have hwE : WakeOKExcept f (s.c.polled f).q (s.c.polled f).woken :=
          wakeOKExcept_of_cons (wakeOK_filter _ _ _ h.wake)
        have hwake := lockPoll_wake (s.c.polled f) fu.l f t fire hwE h.task
          (by intro hsl; rw [hreg0]; simp [LockSt.waiting, hsl])
        have hbat := lockPoll_baton (s.c.polled f) fu.l f t fire h.baton hdone hst
          (by
            intro _ he h2
            exact queue_ne_nil_of_starved h he h2)
        -- abbreviations
        generalize hr : lockPoll (s.c.polled f) fu.l f t fire = r at *
        simp only at hflags hword hbit hself hother hwake hbat
        have hsum := sum_map_update s.futs (fun x : Fut => x.id) f
          (fun x => { x with l := r.l, polled := true, waker := t }) (fun x => x.l.tick) fu
          h.nodup hmem hid
        simp only at hsum
        have hnodup' := nodup_map_update s.futs (fun x : Fut => x.id) f
          (fun x => { x with l := r.l, polled := true, waker := t }) (fun _ => rfl) h.nodup
        have hflags' : ∀ x ∈ setFut s.futs f (fun x => { x with l := r.l, polled := true, waker := t }),
            FutOK x := by
          intro x hx
          obtain ⟨y, hy, rfl⟩ := mem_map_update.mp hx
          by_cases hyf : y.id = f
          · simp only [hyf, beq_self_eq_true, if_true]
            refine ⟨hflags.2.1, fun _ => rfl, fun _ => rfl, ?_⟩
            intro _ hd
            have : r.ready = false := by rw [← hflags.1]; exact hd
            exact hflags.2.2.2.2 this
          · simp only [hyf, beq_iff_eq, if_false]; exact h.flags y hy
        have hreg' : ∀ x ∈ setFut s.futs f (fun x => { x with l := r.l, polled := true, waker := t }),
            Ev.has r.c.q x.id = x.l.waiting := by
          intro x hx
          obtain ⟨y, hy, rfl⟩ := mem_map_update.mp hx
          by_cases hyf : y.id = f
          · simp only [hyf, beq_self_eq_true, if_true]; exact hself
          · simp only [hyf, beq_iff_eq, if_false]
            rw [hother y.id hyf]; exact h.reg y hy
        have hrev' : ∀ g, Ev.has r.c.q g = true →
            ∃ x ∈ setFut s.futs f (fun x => { x with l := r.l, polled := true, waker := t }), x.id = g := by
          intro g hg
          by_cases hgf : g = f
          · subst hgf
            exact ⟨_, mem_map_update.mpr ⟨fu, hmem, rfl⟩, by simp [hid]⟩
          · rw [hother g hgf] at hg
            obtain ⟨y, hy, hyi⟩ := h.regRev g hg
            refine ⟨_, mem_map_update.mpr ⟨y, hy, rfl⟩, ?_⟩
            have : (y.id == f) = false := by rw [hyi]; simp [hgf]
            simp only [this, Bool.false_eq_true, if_false]; exact hyi
        have hw := h.word
        have hev := ticks_even s
        have hx := h.excl
        simp only [ticks] at hw hev htk
        split
        · rename_i hrdy
          have hb := hbit.1 hrdy
          simp only [Core.polled_st] at hb hword
          refine ⟨hnodup', hflags', ?_, ?_, hreg', hrev', hwake.1, hwake.2, hbat⟩
          · simp only [ticks, setFut, List.length_cons] at hsum ⊢
            simp only [hrdy, if_true] at hword
            omega
          · simp only [List.length_cons]; omega
        · rename_i hrdy
          simp only [Bool.not_eq_true] at hrdy
          simp only [Core.polled_st] at hword
          refine ⟨hnodup', hflags', ?_, hx, hreg', hrev', hwake.1, hwake.2, hbat⟩
          simp only [ticks, setFut] at hsum ⊢
          simp only [hrdy, Bool.false_eq_true, if_false] at hword
          omega
    · exact h
  | dropFut f =>
    simp only [step]
    split
    · rename_i fu hfu
      obtain ⟨hmem, hid⟩ := findFut_mem hfu
      have hfl := h.flags fu hmem
      have htk := tick_le_ticks s fu hmem
      have hst : fu.l.tick = 2 → 2 ≤ (s.c.polled f).st := by
        intro h2; have := h.word; simp only [Core.polled_st]; omega
      have hword := lockDrop_word (s.c.polled f) fu.l f hst hfl.starvedSlow
      have hwE : WakeOKExcept f (s.c.polled f).q (s.c.polled f).woken :=
        wakeOKExcept_of_cons (wakeOK_filter _ _ _ h.wake)
      have hwake := lockDrop_wake (s.c.polled f) fu.l f hwE h.task
      have hbat := lockDrop_baton (s.c.polled f) fu.l f h.baton hst
      have hsum := sum_map_filter_ne s.futs (fun x : Fut => x.id) f (fun x => x.l.tick) fu
        h.nodup hmem hid
      refine ⟨nodup_map_filter _ _ _ h.nodup, ?_, ?_, h.excl, ?_, ?_, hwake.1, hwake.2, hbat⟩
      · intro x hx; exact h.flags x (List.mem_filter.mp hx).1
      · have hw := h.word
        simp only [ticks, Core.polled_st] at hword hsum hw htk ⊢
        omega
      · intro x hx
        have hx' := List.mem_filter.mp hx
        have hne : x.id ≠ f := by simpa using hx'.2
        rw [lockDrop_has]
        have hb : (x.id != f) = true := by simp [hne]
        rw [hb, Bool.and_true]
        exact h.reg x hx'.1
      · intro g hg
        rw [lockDrop_has] at hg
        simp only [Core.polled_q, Bool.and_eq_true, bne_iff_ne, ne_eq] at hg
        obtain ⟨y, hy, hyi⟩ := h.regRev g hg.1
        exact ⟨y, List.mem_filter.mpr ⟨hy, by simp [hyi, hg.2]⟩, hyi⟩
    · exact h
  | tryLock g arc =>
    simp only [step]; split
    · split
      · rename_i hst0
        have hw := h.word
        refine ⟨h.nodup, h.flags, ?_, ?_, h.reg, h.regRev, h.wake, h.task, ?_⟩
        · simp only [List.length_cons, ticks] at hw ⊢; omega
        · simp only [List.length_cons]; omega
        · intro hc; simp at hc
      · exact h
    · exact h
  | dropGuard g =>
    simp only [step]; split
    · rename_i gu hgu
      have hlen := eraseP_guard_length hgu
      have hw := h.word
      have hwk := unlock_wake s.c h.wake h.task
      refine ⟨h.nodup, h.flags, ?_, ?_, ?_, ?_, hwk.1, hwk.2, unlock_baton s.c⟩
      · show s.c.unlock.st = (s.guards.eraseP (·.id == g)).length + ticks s
        rw [unlock_st]; omega
      · show (s.guards.eraseP (·.id == g)).length ≤ 1
        have := h.excl; omega
      · intro fu hfu; rw [unlock_has]; exact h.reg fu hfu
      · intro g' hg'; rw [unlock_has] at hg'; exact h.regRev g' hg'
    · exact h
  | hclone =>
    simp only [step]; split
    · exact ⟨h.nodup, h.flags, h.word, h.excl, h.reg, h.regRev, h.wake, h.task, h.baton⟩
    · exact h
  | hdrop =>
    simp only [step]; split
    · exact ⟨h.nodup, h.flags, h.word, h.excl, h.reg, h.regRev, h.wake, h.task, h.baton⟩
    · exact h

theorem run_inv (s : Sys) (ops : List Op) (h : MInv s) : MInv (run s ops) := by
  induction ops generalizing s with
  | nil => exact h
  | cons op ops ih => exact ih _ (step_inv s op h)

/-- every reachable state satisfies the invariant -/
theorem reachable_inv (ops : List Op) : MInv (run {} ops) := run_inv _ ops init_inv

end ALock.Mutex
