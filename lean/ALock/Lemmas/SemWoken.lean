import ALock.Lemmas.Sem
import ALock.Lemmas.EventWoken

/-!
# Semaphore: outstanding wake-ups never outnumber the pending acquisitions

`WkInv`: every outstanding wake-up is the owner of its own notified listener (`WOK`), and every
listener belongs to a polled, uncompleted future.  Invariant of every operation; hence
`woken.length ≤ (pendingPolled s).length` at every reachable state.
-/

namespace ALock

theorem mem_ownerIds_notify {add : Bool} {n : Nat} {q : List Entry} :
    ownerIds (Ev.notify add n q) = ownerIds q := ownerIds_notifyQ add _ q

theorem mem_ownerIds_erase {q : List Entry} {f g : Nat} (h : g ∈ ownerIds (Ev.erase q f)) :
    g ∈ ownerIds q ∧ g ≠ f := by
  simp only [ownerIds, Ev.erase, List.mem_map, List.mem_filter, bne_iff_ne, ne_eq] at h ⊢
  obtain ⟨e, ⟨he, hne⟩, rfl⟩ := h
  exact ⟨⟨e, he, rfl⟩, hne⟩

theorem mem_ownerIds_drop {q : List Entry} {f g : Nat} (h : g ∈ ownerIds (Ev.drop q f)) :
    g ∈ ownerIds q ∧ g ≠ f := by
  unfold Ev.drop at h
  split at h
  · rw [mem_ownerIds_notify] at h; exact mem_ownerIds_erase h
  · exact mem_ownerIds_erase h

end ALock

namespace ALock.Sem

/-- every listener belongs to a polled, uncompleted future -/
def OwnP (s : Sys) : Prop :=
  ∀ g ∈ ownerIds s.q, ∃ fu ∈ s.futs, fu.id = g ∧ fu.polled = true ∧ fu.done = false

structure WkInv (s : Sys) : Prop where
  wok : WOK s.q s.woken
  own : OwnP s
  nodup : (s.futs.map (·.id)).Nodup

theorem filter_sublist' (w : List Nat) (f : Nat) : (w.filter (· != f)).Sublist w := List.filter_sublist

/-- futures other than `f` are untouched by `setFut … f` -/
theorem setFut_other {futs : List Fut} {f : Nat} {g : Fut → Fut} {fu : Fut} (hm : fu ∈ futs)
    (hne : fu.id ≠ f) : fu ∈ setFut futs f g := by
  refine mem_setFut.mpr ⟨fu, hm, ?_⟩
  simp [hne]

theorem setFut_self {futs : List Fut} {f : Nat} {g : Fut → Fut} {fu : Fut} (hm : fu ∈ futs)
    (hi : fu.id = f) : g fu ∈ setFut futs f g := by
  refine mem_setFut.mpr ⟨fu, hm, ?_⟩
  simp [hi]

theorem setFut_ids (futs : List Fut) (f : Nat) (g : Fut → Fut) (hg : ∀ x, (g x).id = x.id) :
    (setFut futs f g).map (·.id) = futs.map (·.id) := by
  simp only [setFut, List.map_map]
  apply List.map_congr_left
  intro x _
  simp only [Function.comp]
  split <;> simp [hg]

theorem setFut_nodup {futs : List Fut} {f : Nat} {g : Fut → Fut}
    (hn : (futs.map (·.id)).Nodup) (hg : ∀ x, (g x).id = x.id) :
    ((setFut futs f g).map (·.id)).Nodup := by
  rw [setFut_ids _ _ _ hg]; exact hn

theorem poll_wk (s : Sys) (fu : Fut) (t : Nat) (h : WkInv s) (hm : fu ∈ s.futs) (hd : fu.done = false) :
    WkInv (poll s fu t).1 := by
  obtain ⟨hw, ho, hn⟩ := h
  have hw1 : WOK s.q (s.woken.filter (· != fu.id)) := hw.weaken (filter_sublist' _ _)
  -- ownerIds other than `fu.id` keep their futures through the two `setFut`s
  have keep : ∀ (g1 g2 : Fut → Fut) (g : Nat), g ∈ ownerIds s.q → g ≠ fu.id →
      ∃ x ∈ setFut (setFut s.futs fu.id g1) fu.id g2, x.id = g ∧ x.polled = true ∧ x.done = false := by
    intro g1 g2 g hg hne
    obtain ⟨x, hx, hxi, hxp, hxd⟩ := ho g hg
    exact ⟨x, setFut_other (setFut_other hx (by rw [hxi]; exact hne)) (by rw [hxi]; exact hne), hxi, hxp, hxd⟩
  simp only [poll]
  split
  · -- acquired: the listener is dropped
    refine ⟨?_, ?_, ?_⟩
    · simpa [Sys.dropListener] using hw.drop fu.id
    · intro g hg
      simp only [Sys.dropListener] at hg
      obtain ⟨h1, h2⟩ := mem_ownerIds_drop hg
      simpa [Sys.dropListener] using keep _ _ g h1 h2
    · simp only [Sys.dropListener]
      exact setFut_nodup (setFut_nodup hn (fun _ => rfl)) (fun _ => rfl)
  · split
    · split
      · -- notified: consumed, registered again
        refine ⟨?_, ?_, ?_⟩
        · exact (hw.erase fu.id).append _ (has_erase_self _ _)
        · intro g hg
          simp only [ownerIds, List.map_append, List.mem_append, List.map_cons, List.map_nil,
            List.mem_singleton] at hg
          rcases hg with hg | rfl
          · obtain ⟨h1, h2⟩ := mem_ownerIds_erase (by simpa [ownerIds] using hg)
            obtain ⟨x, hx, hxi, hxp, hxd⟩ := ho g h1
            exact ⟨x, setFut_other hx (by rw [hxi]; exact h2), hxi, hxp, hxd⟩
          · exact ⟨_, setFut_self hm rfl, rfl, rfl, hd⟩
        · exact setFut_nodup hn (fun _ => rfl)
      · -- spurious poll: new waker
        refine ⟨hw1.setTask _ _, ?_, ?_⟩
        · intro g hg
          rw [ownerIds_setTask] at hg
          by_cases hne : g = fu.id
          · subst hne; exact ⟨_, setFut_self hm rfl, rfl, rfl, hd⟩
          · obtain ⟨x, hx, hxi, hxp, hxd⟩ := ho g hg
            exact ⟨x, setFut_other hx (by rw [hxi]; exact hne), hxi, hxp, hxd⟩
        · exact setFut_nodup hn (fun _ => rfl)
    · -- first poll: registers
      rename_i hh
      refine ⟨hw1.append _ (by simpa using hh), ?_, ?_⟩
      · intro g hg
        simp only [ownerIds, List.map_append, List.mem_append, List.map_cons, List.map_nil,
          List.mem_singleton] at hg
        rcases hg with hg | rfl
        · by_cases hne : g = fu.id
          · subst hne; exact ⟨_, setFut_self hm rfl, rfl, rfl, hd⟩
          · obtain ⟨x, hx, hxi, hxp, hxd⟩ := ho g (by simpa [ownerIds] using hg)
            exact ⟨x, setFut_other hx (by rw [hxi]; exact hne), hxi, hxp, hxd⟩
        · exact ⟨_, setFut_self hm rfl, rfl, rfl, hd⟩
      · exact setFut_nodup hn (fun _ => rfl)

theorem step_wk (s : Sys) (op : Op) (h : WkInv s) : WkInv (next s op) := by
  unfold next
  cases op with
  | start f arc =>
    simp only [step]; split
    · rename_i hfr
      refine ⟨h.wok, ?_, ?_⟩
      · intro g hg
        obtain ⟨x, hx, hxi⟩ := h.own g hg
        exact ⟨x, List.mem_cons_of_mem _ hx, hxi⟩
      · simp only [List.map_cons, List.nodup_cons]
        refine ⟨?_, h.nodup⟩
        intro hmem
        obtain ⟨x, hx, hxi⟩ := List.mem_map.mp hmem
        exact fresh_fut hfr x hx hxi
    · exact h
  | poll f t =>
    simp only [step]
    cases hf : findFut s f with
    | none => exact h
    | some fu =>
      simp only []
      split
      · exact h
      · rename_i hd
        exact poll_wk s fu t h (findFut_mem hf).1 (by simpa using hd)
  | dropFut f =>
    simp only [step]
    cases hf : findFut s f with
    | none => exact h
    | some fu =>
      simp only []
      obtain ⟨hw, ho, hn⟩ := h
      refine ⟨?_, ?_, ?_⟩
      · simpa [Sys.dropListener] using hw.drop f
      · intro g hg
        simp only [Sys.dropListener] at hg
        obtain ⟨h1, h2⟩ := mem_ownerIds_drop hg
        obtain ⟨x, hx, hxi, hxp⟩ := ho g h1
        refine ⟨x, ?_, hxi, hxp⟩
        simp only [Sys.dropListener, List.mem_filter, bne_iff_ne, ne_eq]
        exact ⟨hx, by rw [hxi]; exact h2⟩
      · simp only [Sys.dropListener]
        exact (List.Sublist.map _ List.filter_sublist).nodup hn
  | tryAcq g arc =>
    simp only [step]; split
    · split <;> exact ⟨h.wok, h.own, h.nodup⟩
    · exact h
  | dropGuard g =>
    simp only [step]
    cases hg : findGuard s g with
    | none => exact h
    | some gu =>
      simp only []
      refine ⟨?_, ?_, h.nodup⟩
      · simpa [Sys.doNotify] using h.wok.notify false 1
      · intro g' hg'
        simp only [Sys.doNotify] at hg'
        rw [mem_ownerIds_notify] at hg'
        simpa [Sys.doNotify] using h.own g' hg'
  | forget g =>
    simp only [step]
    cases hg : findGuard s g with
    | none => exact h
    | some gu => exact ⟨h.wok, h.own, h.nodup⟩
  | add n =>
    simp only [step]
    refine ⟨?_, ?_, h.nodup⟩
    · simpa [Sys.doNotify] using h.wok.notify false n
    · intro g' hg'
      simp only [Sys.doNotify] at hg'
      rw [mem_ownerIds_notify] at hg'
      simpa [Sys.doNotify] using h.own g' hg'
  | hclone => exact ⟨h.wok, h.own, h.nodup⟩
  | hdrop =>
    simp only [step]; split
    · exact ⟨h.wok, h.own, h.nodup⟩
    · exact h

theorem run_wk (s : Sys) (ops : List Op) (h : WkInv s) : WkInv (run s ops) := by
  induction ops generalizing s with
  | nil => exact h
  | cons op ops ih => exact ih _ (step_wk s op h)

theorem init_wk (n : Nat) : WkInv (Sys.new n) :=
  ⟨⟨by simp [Sys.new, ownerIds], by simp [Sys.new], by simp [Sys.new]⟩, by simp [OwnP, Sys.new, ownerIds],
   by simp [Sys.new]⟩

/-- the listeners are no more than the pending polled acquisitions -/
theorem WkInv.q_le {s : Sys} (h : WkInv s) : s.q.length ≤ (pendingPolled s).length := by
  have := nodup_subset_length (ownerIds s.q) ((pendingPolled s).map (·.id)) h.wok.nq (by
    intro g hg
    obtain ⟨x, hx, hxi, hxp, hxd⟩ := h.own g hg
    refine List.mem_map.mpr ⟨x, ?_, hxi⟩
    simp [pendingPolled, hx, hxp, hxd])
  simpa [ownerIds] using this

/-- **outstanding wake-ups never outnumber the pending acquisitions** -/
theorem WkInv.woken_le {s : Sys} (h : WkInv s) : s.woken.length ≤ (pendingPolled s).length :=
  Nat.le_trans h.wok.length_le h.q_le

end ALock.Sem
