import ALock.RwLock
import ALock.Lemmas.MutexCore
import ALock.Lemmas.ListAux

/-! Word-level invariant of the RwLock model (who holds what, as told by the two words).
Property statements are in `Props/`. -/

set_option linter.unusedSimpArgs false
set_option linter.unusedVariables false

namespace ALock.RwLock

def ticks (s : Sys) : Nat := (s.futs.map (fun x => x.l.tick)).sum

/-- holders of the inner mutex ("the slot"): write guard, upgradable guard, writer waiting for
readers, pending upgrade -/
def owners (s : Sys) : Nat := nG s .write + nG s .uread + nPW s + nPU s

structure FutOK (fu : Fut) : Prop where
  lockFree : (fu.kind = .read ∨ fu.kind = .upgrade) → fu.l = {}
  starvedSlow : fu.l.starved = true → fu.l.slow = true
  wstage : fu.kind = .write → (fu.stage = .init ↔ fu.l.done = false)
  ustage : fu.kind = .uread → ((fu.stage = .done ↔ fu.l.done = true) ∧ fu.stage ≠ .waitReaders)
  rstage : (fu.kind = .read ∨ fu.kind = .upgrade) → fu.stage ≠ .waitReaders
  slowPolled : fu.l.slow = true → fu.polled = true
  donePolled : fu.stage ≠ .init → fu.polled = true
  polledSlow : fu.polled = true → fu.stage = .init → (fu.kind = .uread ∨ fu.kind = .write) →
    fu.l.slow = true

structure WordInv (s : Sys) : Prop where
  nodup : (s.futs.map (·.id)).Nodup
  flags : ∀ fu ∈ s.futs, FutOK fu
  /-- inner mutex word = holders of the slot + 2 · starved live lock operations -/
  mword : s.m.st = owners s + ticks s
  slot : owners s ≤ 1
  /-- RwLock word = writer bit + 2 · (read guards + upgradable guards); the bit is owed by a write
  guard, a writer waiting for readers or a pending upgrade (at most one of them, by `slot`) -/
  word : s.state = nG s .write + nPW s + nPU s + 2 * (nG s .read + nG s .uread)
  /-- a write guard excludes every reader -/
  alone : 1 ≤ nG s .write → nG s .read + nG s .uread = 0

theorem tick_cases (l : LockSt) : l.tick = 0 ∨ l.tick = 2 := by
  unfold LockSt.tick; split <;> simp

theorem tick_two_iff (l : LockSt) : l.tick = 2 ↔ (l.starved = true ∧ l.done = false) := by
  unfold LockSt.tick; cases l.starved <;> cases l.done <;> simp

theorem ticks_even (s : Sys) : ticks s % 2 = 0 := by
  unfold ticks
  induction s.futs with
  | nil => rfl
  | cons a t ih =>
    simp only [List.map_cons, List.sum_cons]
    rcases tick_cases a.l with h | h <;> omega

theorem tick_le_ticks (s : Sys) (fu : Fut) (h : fu ∈ s.futs) : fu.l.tick ≤ ticks s :=
  le_sum_of_mem s.futs (fun x => x.l.tick) fu h

theorem findFut_mem {s : Sys} {f : Nat} {fu : Fut} (h : findFut s f = some fu) :
    fu ∈ s.futs ∧ fu.id = f := find_id_mem (id := fun x : Fut => x.id) h

theorem findGuard_mem {s : Sys} {g : Nat} {gu : Guard} (h : findGuard s g = some gu) :
    gu ∈ s.guards ∧ gu.id = g := find_id_mem (id := fun x : Guard => x.id) h

theorem fresh_fut {s : Sys} {i : Nat} (h : fresh s i = true) : ∀ x ∈ s.futs, x.id ≠ i := by
  simp only [fresh, Bool.and_eq_true] at h
  exact find_none_forall (id := fun x : Fut => x.id) h.1

/-- removing the guard found by `findGuard` removes exactly its contribution to any count -/
theorem guards_erase_sum (s : Sys) (g : Nat) (gu : Guard) (h : Guard → Nat)
    (hf : findGuard s g = some gu) :
    ((s.guards.eraseP (·.id == g)).map h).sum + h gu = (s.guards.map h).sum :=
  sum_map_eraseP_find s.guards (·.id == g) h gu hf

theorem futs_update_sum (s : Sys) (fu new : Fut) (h : Fut → Nat)
    (hn : (s.futs.map (·.id)).Nodup) (hm : fu ∈ s.futs) :
    ((setFut s.futs fu.id fun _ => new).map h).sum + h fu = (s.futs.map h).sum + h new :=
  sum_map_update s.futs (fun x : Fut => x.id) fu.id (fun _ => new) h fu hn hm rfl

theorem futs_filter_sum (s : Sys) (fu : Fut) (h : Fut → Nat)
    (hn : (s.futs.map (·.id)).Nodup) (hm : fu ∈ s.futs) :
    ((s.futs.filter (·.id != fu.id)).map h).sum + h fu = (s.futs.map h).sum :=
  sum_map_filter_ne s.futs (fun x : Fut => x.id) fu.id h fu hn hm rfl

theorem init_word : WordInv ({} : Sys) := by
  refine ⟨by simp, by simp, ?_, ?_, ?_, ?_⟩ <;>
    simp [owners, ticks, nG, nPW, nPU]

end ALock.RwLock

namespace ALock.RwLock

/-! list-level versions of the counts, so that updates of `futs` / `guards` can be tracked
independently of the other fields -/

def ticksL (l : List Fut) : Nat := (l.map (fun x => x.l.tick)).sum
def nPWL (l : List Fut) : Nat := (l.map fun x => ind x.isPW).sum
def nPUL (l : List Fut) : Nat := (l.map fun x => ind x.isPU).sum
def nGL (l : List Guard) (k : GKind) : Nat := (l.map fun g => ind (g.kind == k)).sum

theorem ticks_eq (s : Sys) : ticks s = ticksL s.futs := rfl
theorem nPW_eq (s : Sys) : nPW s = nPWL s.futs := rfl
theorem nPU_eq (s : Sys) : nPU s = nPUL s.futs := rfl
theorem nG_eq (s : Sys) (k : GKind) : nG s k = nGL s.guards k := rfl

theorem futL_cons (x : Fut) (l : List Fut) :
    ticksL (x :: l) = x.l.tick + ticksL l ∧ nPWL (x :: l) = ind x.isPW + nPWL l ∧
    nPUL (x :: l) = ind x.isPU + nPUL l := by
  simp [ticksL, nPWL, nPUL]

theorem nGL_cons (x : Guard) (l : List Guard) (k : GKind) :
    nGL (x :: l) k = ind (x.kind == k) + nGL l k := by
  simp [nGL]

theorem futL_update (futs : List Fut) (fu new : Fut) (hn : (futs.map (·.id)).Nodup)
    (hm : fu ∈ futs) :
    ticksL (setFut futs fu.id fun _ => new) + fu.l.tick = ticksL futs + new.l.tick ∧
    nPWL (setFut futs fu.id fun _ => new) + ind fu.isPW = nPWL futs + ind new.isPW ∧
    nPUL (setFut futs fu.id fun _ => new) + ind fu.isPU = nPUL futs + ind new.isPU :=
  ⟨sum_map_update futs (fun x : Fut => x.id) fu.id (fun _ => new) _ fu hn hm rfl,
   sum_map_update futs (fun x : Fut => x.id) fu.id (fun _ => new) _ fu hn hm rfl,
   sum_map_update futs (fun x : Fut => x.id) fu.id (fun _ => new) _ fu hn hm rfl⟩

theorem futL_filter (futs : List Fut) (fu : Fut) (hn : (futs.map (·.id)).Nodup) (hm : fu ∈ futs) :
    ticksL (futs.filter (·.id != fu.id)) + fu.l.tick = ticksL futs ∧
    nPWL (futs.filter (·.id != fu.id)) + ind fu.isPW = nPWL futs ∧
    nPUL (futs.filter (·.id != fu.id)) + ind fu.isPU = nPUL futs :=
  ⟨sum_map_filter_ne futs (fun x : Fut => x.id) fu.id _ fu hn hm rfl,
   sum_map_filter_ne futs (fun x : Fut => x.id) fu.id _ fu hn hm rfl,
   sum_map_filter_ne futs (fun x : Fut => x.id) fu.id _ fu hn hm rfl⟩

theorem nGL_erase (guards : List Guard) (g : Nat) (gu : Guard)
    (hf : guards.find? (·.id == g) = some gu) (k : GKind) :
    nGL (guards.eraseP (·.id == g)) k + ind (gu.kind == k) = nGL guards k :=
  sum_map_eraseP_find guards (·.id == g) _ gu hf

/-- all three guard counts after removing guard `gu` -/
theorem nGL_erase3 (guards : List Guard) (g : Nat) (gu : Guard)
    (hf : guards.find? (·.id == g) = some gu) :
    nGL (guards.eraseP (·.id == g)) .read + ind (gu.kind == .read) = nGL guards .read ∧
    nGL (guards.eraseP (·.id == g)) .uread + ind (gu.kind == .uread) = nGL guards .uread ∧
    nGL (guards.eraseP (·.id == g)) .write + ind (gu.kind == .write) = nGL guards .write :=
  ⟨nGL_erase _ _ _ hf _, nGL_erase _ _ _ hf _, nGL_erase _ _ _ hf _⟩

theorem ticksL_even (l : List Fut) : ticksL l % 2 = 0 := by
  unfold ticksL
  induction l with
  | nil => rfl
  | cons a t ih =>
    simp only [List.map_cons, List.sum_cons]
    rcases tick_cases a.l with h | h <;> omega

theorem tick_le_ticksL (l : List Fut) (fu : Fut) (h : fu ∈ l) : fu.l.tick ≤ ticksL l :=
  le_sum_of_mem l (fun x => x.l.tick) fu h

theorem ind_le_nPWL (l : List Fut) (fu : Fut) (h : fu ∈ l) : ind fu.isPW ≤ nPWL l :=
  le_sum_of_mem l (fun x => ind x.isPW) fu h

theorem ind_le_nPUL (l : List Fut) (fu : Fut) (h : fu ∈ l) : ind fu.isPU ≤ nPUL l :=
  le_sum_of_mem l (fun x => ind x.isPU) fu h

theorem ind_le_nGL (l : List Guard) (gu : Guard) (k : GKind) (h : gu ∈ l) :
    ind (gu.kind == k) ≤ nGL l k :=
  le_sum_of_mem l (fun x => ind (x.kind == k)) gu h

end ALock.RwLock
