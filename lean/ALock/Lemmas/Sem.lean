import ALock.Sem
import ALock.Lemmas.Event

/-! Helper lemmas and invariants for the Semaphore model. Property statements are in `Props/`. -/

set_option linter.unusedSimpArgs false
set_option linter.unusedVariables false

namespace ALock.Sem

/-! ### Conservation (C03) -/

/-- permits available + guards alive + guards forgotten = initial + added -/
def Conserved (s : Sys) : Prop := s.count + s.guards.length + s.forgotten = s.init + s.added

theorem doNotify_fields (s : Sys) (n : Nat) :
    (s.doNotify n).count = s.count ∧ (s.doNotify n).guards = s.guards ∧
    (s.doNotify n).forgotten = s.forgotten ∧ (s.doNotify n).init = s.init ∧
    (s.doNotify n).added = s.added ∧ (s.doNotify n).futs = s.futs ∧
    (s.doNotify n).handles = s.handles ∧ (s.doNotify n).strong = s.strong := by
  simp [Sys.doNotify]

theorem dropListener_fields (s : Sys) (f : Nat) :
    (s.dropListener f).count = s.count ∧ (s.dropListener f).guards = s.guards ∧
    (s.dropListener f).forgotten = s.forgotten ∧ (s.dropListener f).init = s.init ∧
    (s.dropListener f).added = s.added ∧ (s.dropListener f).futs = s.futs ∧
    (s.dropListener f).handles = s.handles ∧ (s.dropListener f).strong = s.strong := by
  simp [Sys.dropListener]

theorem findGuard_mem {s : Sys} {g : Nat} {gu : Guard} (h : findGuard s g = some gu) :
    gu ∈ s.guards ∧ gu.id = g := by
  unfold findGuard at h
  have h1 := List.mem_of_find?_eq_some h
  have h2 := List.find?_some h
  exact ⟨h1, by simpa using h2⟩

theorem findFut_mem {s : Sys} {f : Nat} {fu : Fut} (h : findFut s f = some fu) :
    fu ∈ s.futs ∧ fu.id = f := by
  unfold findFut at h
  have h1 := List.mem_of_find?_eq_some h
  have h2 := List.find?_some h
  exact ⟨h1, by simpa using h2⟩

theorem fresh_fut {s : Sys} {i : Nat} (h : fresh s i = true) : ∀ x ∈ s.futs, x.id ≠ i := by
  intro x hx hid
  simp only [fresh, findFut, Bool.and_eq_true, Option.isNone_iff_eq_none,
    List.find?_eq_none] at h
  exact h.1 x hx (by simp [hid])

theorem eraseP_guard_length {s : Sys} {g : Nat} {gu : Guard} (h : findGuard s g = some gu) :
    (s.guards.eraseP (·.id == g)).length + 1 = s.guards.length := by
  have hm := findGuard_mem h
  have := List.length_eraseP_of_mem (p := fun x : Guard => x.id == g) hm.1 (by simp [hm.2])
  have hpos : 0 < s.guards.length := List.length_pos_of_mem hm.1
  omega

/-! ### Wake-up invariant (C07) -/

/-- The three facts about `(count, q, woken)` that make "no lost wake-up" inductive. -/
structure WInv (s : Sys) : Prop where
  wake : WakeOK s.q s.woken
  task : AllTask s.q
  permit : 0 < s.count → s.q ≠ [] → 0 < cnt s.q

/-- pending polled futures are registered -/
def Own (s : Sys) : Prop := ∀ fu ∈ s.futs, fu.polled = true → fu.done = false → Ev.has s.q fu.id = true

/-- every entry belongs to a live, polled, uncompleted future (no stale listeners) -/
def OwnRev (s : Sys) : Prop :=
  ∀ e ∈ s.q, ∃ fu ∈ s.futs, fu.id = e.owner ∧ fu.polled = true ∧ fu.done = false

theorem doNotify_winv (s : Sys) (n : Nat) (hw : WakeOK s.q s.woken) (ht : AllTask s.q)
    (hp : 0 < n ∨ (0 < s.count → s.q ≠ [] → 0 < cnt s.q)) : WInv (s.doNotify n) := by
  refine ⟨?_, ?_, ?_⟩
  · exact Ev.notify_wakeOK false n s.q s.woken hw ht
  · exact Ev.notify_allTask false n s.q ht
  · intro hc hne
    have hq : s.q ≠ [] := by
      intro h; apply hne; simp only [Sys.doNotify, h]; exact Ev.notify_nil _ _
    rcases hp with hp | hp
    · exact Ev.notify_cnt_pos false n s.q hp hq
    · exact Nat.lt_of_lt_of_le (hp hc hq) (Ev.notify_cnt_mono false n s.q)

theorem dropListener_winv (s : Sys) (f : Nat) (hw : WakeOK s.q (f :: s.woken)) (ht : AllTask s.q)
    (hp : 0 < s.count → s.q ≠ [] → 0 < cnt s.q) : WInv (s.dropListener f) := by
  refine ⟨?_, ?_, ?_⟩
  · exact Ev.drop_wakeOK f hw ht
  · exact Ev.drop_allTask f ht
  · intro hc hne
    have hq : s.q ≠ [] := by
      intro h; apply hne
      simp [Sys.dropListener, Ev.drop, Ev.isNotified, Ev.erase, h]
    exact Ev.drop_cnt_pos f (hp hc hq) hne

theorem mem_setFut {futs : List Fut} {f : Nat} {g : Fut → Fut} {x : Fut} :
    x ∈ setFut futs f g ↔ ∃ y ∈ futs, x = if y.id == f then g y else y := by
  simp only [setFut, List.mem_map]
  constructor
  · rintro ⟨y, hy, rfl⟩; exact ⟨y, hy, rfl⟩
  · rintro ⟨y, hy, rfl⟩; exact ⟨y, hy, rfl⟩

end ALock.Sem

namespace ALock.Sem

/-- every listener on the semaphore's event belongs to a live future (no stale listeners) -/
def RegRev (s : Sys) : Prop := ∀ g, Ev.has s.q g = true → ∃ fu ∈ s.futs, fu.id = g

theorem step_regRev (s : Sys) (op : Op) (h : RegRev s) : RegRev (next s op) := by
  unfold next
  cases op with
  | start f arc =>
    simp only [step]; split
    · intro g hg
      obtain ⟨x, hx, hxi⟩ := h g hg
      exact ⟨x, List.mem_cons_of_mem _ hx, hxi⟩
    · exact h
  | poll f t =>
    simp only [step]
    split
    · rename_i fu hfu
      have hm := findFut_mem hfu
      split
      · exact h
      · -- in every branch the owners of the queue are old owners or `fu.id`, and futs keep their ids
        have key : ∀ (q' : List Entry) (futs' : List Fut),
            (∀ g, Ev.has q' g = true → g = fu.id ∨ Ev.has s.q g = true) →
            (∀ x ∈ s.futs, ∃ y ∈ futs', y.id = x.id) →
            ∀ g, Ev.has q' g = true → ∃ y ∈ futs', y.id = g := by
          intro q' futs' hq hfs g hg
          rcases hq g hg with rfl | hold
          · exact hfs fu hm.1
          · obtain ⟨x, hx, hxi⟩ := h g hold
            obtain ⟨y, hy, hyi⟩ := hfs x hx
            exact ⟨y, hy, by rw [hyi, hxi]⟩
        have hfs1 : ∀ g : Fut → Fut, (∀ x, (g x).id = x.id) →
            ∀ x ∈ s.futs, ∃ y ∈ setFut s.futs fu.id g, y.id = x.id := by
          intro g hgid x hx
          refine ⟨_, mem_setFut.mpr ⟨x, hx, rfl⟩, ?_⟩
          split <;> simp [hgid]
        simp only [poll]
        split
        · -- completes: listener dropped
          simp only [Sys.dropListener]
          refine key _ _ ?_ ?_
          · intro g hg
            rw [Ev.has_drop] at hg
            simp only [Bool.and_eq_true] at hg
            exact Or.inr hg.1
          · intro x hx
            obtain ⟨y, hy, hyi⟩ := hfs1 (fun x => { x with polled := true, waker := t }) (fun _ => rfl) x hx
            obtain ⟨z, hz, hzi⟩ : ∃ z ∈ setFut (setFut s.futs fu.id fun x => { x with polled := true, waker := t })
                fu.id (fun x => { x with done := true }), z.id = y.id := by
              refine ⟨_, mem_setFut.mpr ⟨y, hy, rfl⟩, ?_⟩
              split <;> rfl
            exact ⟨z, hz, by rw [hzi, hyi]⟩
        · split
          · split
            · refine key _ _ ?_ (hfs1 _ (fun _ => rfl))
              intro g hg
              simp only [Ev.has, List.any_append, Bool.or_eq_true] at hg
              rcases hg with hg | hg
              · have : Ev.has (Ev.erase s.q fu.id) g = true := hg
                rw [Ev.has_erase] at this
                simp only [Bool.and_eq_true] at this
                exact Or.inr this.1
              · simp at hg; exact Or.inl hg.symm
            · refine key _ _ ?_ (hfs1 _ (fun _ => rfl))
              intro g hg
              rw [Ev.has_setTask] at hg
              exact Or.inr hg
          · refine key _ _ ?_ (hfs1 _ (fun _ => rfl))
            intro g hg
            simp only [Ev.has, List.any_append, Bool.or_eq_true] at hg
            rcases hg with hg | hg
            · exact Or.inr hg
            · simp at hg; exact Or.inl hg.symm
    · exact h
  | dropFut f =>
    simp only [step]; split
    · intro g hg
      simp only [Sys.dropListener] at hg ⊢
      rw [Ev.has_drop] at hg
      simp only [Bool.and_eq_true, bne_iff_ne, ne_eq] at hg
      obtain ⟨x, hx, hxi⟩ := h g hg.1
      exact ⟨x, List.mem_filter.mpr ⟨hx, by simp [hxi, hg.2]⟩, hxi⟩
    · exact h
  | tryAcq g arc =>
    simp only [step]; split
    · split <;> exact h
    · exact h
  | dropGuard g =>
    simp only [step]; split
    · intro g' hg'
      simp only [Sys.doNotify] at hg' ⊢
      rw [Ev.has_notify] at hg'; exact h g' hg'
    · exact h
  | forget g =>
    simp only [step]; split <;> exact h
  | add n =>
    simp only [step]
    intro g' hg'
    simp only [Sys.doNotify] at hg' ⊢
    rw [Ev.has_notify] at hg'; exact h g' hg'
  | hclone => exact h
  | hdrop =>
    simp only [step]; split <;> exact h

theorem run_regRev (s : Sys) (ops : List Op) (h : RegRev s) : RegRev (run s ops) := by
  induction ops generalizing s with
  | nil => exact h
  | cons op ops ih => exact ih _ (step_regRev s op h)

end ALock.Sem
