import ALock.Sem
import ALock.Lemmas.Event

/-! Helper lemmas and invariants for the Semaphore model. Property statements are in `Props/`. -/

set_option linter.unusedSimpArgs false
set_option linter.unusedVariables false

namespace ALock.Sem

/-! ### Conservation (C03) -/

/-- permits available + guards alive + guards forgotten = initial + added -/
def Conserved (s : Sys) : Prop := s.count + s.guards.length + s.forgotten = s.init + s.added

theorem doNotify_fields (s : Sys) (n : Nat) :
    (s.doNotify n).count = s.count ∧ (s.doNotify n).guards = s.guards ∧
    (s.doNotify n).forgotten = s.forgotten ∧ (s.doNotify n).init = s.init ∧
    (s.doNotify n).added = s.added ∧ (s.doNotify n).futs = s.futs ∧
    (s.doNotify n).handles = s.handles ∧ (s.doNotify n).strong = s.strong := by
  simp [Sys.doNotify]

theorem dropListener_fields (s : Sys) (f : Nat) :
    (s.dropListener f).count = s.count ∧ (s.dropListener f).guards = s.guards ∧
    (s.dropListener f).forgotten = s.forgotten ∧ (s.dropListener f).init = s.init ∧
    (s.dropListener f).added = s.added ∧ (s.dropListener f).futs = s.futs ∧
    (s.dropListener f).handles = s.handles ∧ (s.dropListener f).strong = s.strong := by
  simp [Sys.dropListener]

theorem findGuard_mem {s : Sys} {g : Nat} {gu : Guard} (h : findGuard s g = some gu) :
    gu ∈ s.guards ∧ gu.id = g := by
  unfold findGuard at h
  have h1 := List.mem_of_find?_eq_some h
  have h2 := List.find?_some h
  exact ⟨h1, by simpa using h2⟩

theorem findFut_mem {s : Sys} {f : Nat} {fu : Fut} (h : findFut s f = some fu) :
    fu ∈ s.futs ∧ fu.id = f := by
  unfold findFut at h
  have h1 := List.mem_of_find?_eq_some h
  have h2 := List.find?_some h
  exact ⟨h1, by simpa using h2⟩

theorem eraseP_guard_length {s : Sys} {g : Nat} {gu : Guard} (h : findGuard s g = some gu) :
    (s.guards.eraseP (·.id == g)).length + 1 = s.guards.length := by
  have hm := findGuard_mem h
  have := List.length_eraseP_of_mem (p := fun x : Guard => x.id == g) hm.1 (by simp [hm.2])
  have hpos : 0 < s.guards.length := List.length_pos_of_mem hm.1
  omega

/-! ### Wake-up invariant (C07) -/

/-- The three facts about `(count, q, woken)` that make "no lost wake-up" inductive. -/
structure WInv (s : Sys) : Prop where
  wake : WakeOK s.q s.woken
  task : AllTask s.q
  permit : 0 < s.count → s.q ≠ [] → 0 < cnt s.q

/-- pending polled futures are registered -/
def Own (s : Sys) : Prop := ∀ fu ∈ s.futs, fu.polled = true → fu.done = false → Ev.has s.q fu.id = true

/-- every entry belongs to a live, polled, uncompleted future (no stale listeners) -/
def OwnRev (s : Sys) : Prop :=
  ∀ e ∈ s.q, ∃ fu ∈ s.futs, fu.id = e.owner ∧ fu.polled = true ∧ fu.done = false

theorem doNotify_winv (s : Sys) (n : Nat) (hw : WakeOK s.q s.woken) (ht : AllTask s.q)
    (hp : 0 < n ∨ (0 < s.count → s.q ≠ [] → 0 < cnt s.q)) : WInv (s.doNotify n) := by
  refine ⟨?_, ?_, ?_⟩
  · exact Ev.notify_wakeOK false n s.q s.woken hw ht
  · exact Ev.notify_allTask false n s.q ht
  · intro hc hne
    have hq : s.q ≠ [] := by
      intro h; apply hne; simp only [Sys.doNotify, h]; exact Ev.notify_nil _ _
    rcases hp with hp | hp
    · exact Ev.notify_cnt_pos false n s.q hp hq
    · exact Nat.lt_of_lt_of_le (hp hc hq) (Ev.notify_cnt_mono false n s.q)

theorem dropListener_winv (s : Sys) (f : Nat) (hw : WakeOK s.q (f :: s.woken)) (ht : AllTask s.q)
    (hp : 0 < s.count → s.q ≠ [] → 0 < cnt s.q) : WInv (s.dropListener f) := by
  refine ⟨?_, ?_, ?_⟩
  · exact Ev.drop_wakeOK f hw ht
  · exact Ev.drop_allTask f ht
  · intro hc hne
    have hq : s.q ≠ [] := by
      intro h; apply hne
      simp [Sys.dropListener, Ev.drop, Ev.isNotified, Ev.erase, h]
    exact Ev.drop_cnt_pos f (hp hc hq) hne

theorem mem_setFut {futs : List Fut} {f : Nat} {g : Fut → Fut} {x : Fut} :
    x ∈ setFut futs f g ↔ ∃ y ∈ futs, x = if y.id == f then g y else y := by
  simp only [setFut, List.mem_map]
  constructor
  · rintro ⟨y, hy, rfl⟩; exact ⟨y, hy, rfl⟩
  · rintro ⟨y, hy, rfl⟩; exact ⟨y, hy, rfl⟩

end ALock.Sem
