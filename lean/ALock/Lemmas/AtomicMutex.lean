import ALock.Atomic.Mutex
import ALock.Atomic.Lists

/-! Invariants of the atomic-granularity Mutex model: the word invariant (any orderings) and the
view invariant (needs the four synchronising sites to be Acquire / Release). -/

namespace ALock.Atomic.Mutex
open ALock.Atomic

def holdersL (l : List Ag) : Nat := (l.map fun a => ind a.holder).sum
def starvedL (l : List Ag) : Nat := (l.map fun a => ind a.starved).sum
def holders (s : Sys) : Nat := holdersL s.ags
def starvedN (s : Sys) : Nat := starvedL s.ags

/-- the state word counts the holder (bit 0) and the starved operations (upper bits); at most one
agent holds the mutex -/
structure WInvOn (st : Nat) (l : List Ag) : Prop where
  word : st = holdersL l + 2 * starvedL l
  excl : holdersL l ≤ 1

def WInv (s : Sys) : Prop := WInvOn s.st s.ags

theorem winv_upd {st : Nat} {l : List Ag} (h : WInvOn st l) (i : Nat) (a : Ag) (ha : l[i]? = some a)
    (f : Ag → Ag) (st' : Nat)
    (hst : st' + ind a.holder + 2 * ind a.starved = st + ind (f a).holder + 2 * ind (f a).starved)
    (hex : ind (f a).holder ≤ ind a.holder ∨ holdersL l = 0) :
    WInvOn st' (upd l i f) := by
  obtain ⟨hw, he⟩ := h
  have h1 := sum_map_modify l i f (fun a => ind a.holder) a ha
  have h2 := sum_map_modify l i f (fun a => ind a.starved) a ha
  have hle : ind (f a).holder ≤ 1 := by cases (f a).holder <;> simp
  refine ⟨?_, ?_⟩ <;> simp only [holdersL, starvedL, upd] at * <;> omega

/-- no holder exactly when the lock bit is clear -/
theorem WInvOn.free_iff {st : Nat} {l : List Ag} (h : WInvOn st l) : holdersL l = 0 ↔ st % 2 = 0 := by
  have := h.word; have := h.excl; omega

theorem step_winv (o : Ords) (s : Sys) (st : Step) (h : WInv s) : WInv (step o s st) := by
  unfold WInv at *
  cases st with
  | spawn =>
    obtain ⟨hw, he⟩ := h
    refine ⟨?_, ?_⟩ <;>
      simp only [step, holdersL, starvedL, List.map_append, List.sum_append] at * <;> simp <;> omega
  | cas01 i =>
    simp only [step]; split
    · rename_i a ha
      split
      · rename_i hc
        simp only [Bool.and_eq_true, Bool.not_eq_true', decide_eq_true_eq] at hc
        have hf := h.free_iff
        exact winv_upd h i a ha _ 1 (by simp [hc.1] <;> (have := h.word; omega)) (Or.inr (by omega))
      · exact h
    · exact h
  | starve i =>
    simp only [step]; split
    · rename_i a ha
      split
      · rename_i hc
        simp only [Bool.and_eq_true, Bool.not_eq_true'] at hc
        exact winv_upd h i a ha _ _ (by simp [hc.1, hc.2] <;> omega) (Or.inl (by simp))
      · exact h
    · exact h
  | cas23 i =>
    simp only [step]; split
    · rename_i a ha
      split
      · rename_i hc
        simp only [Bool.and_eq_true, Bool.not_eq_true', decide_eq_true_eq] at hc
        have hf := h.free_iff
        exact winv_upd h i a ha _ 3 (by simp [hc.1.1, hc.1.2] <;> omega) (Or.inr (by omega))
      · exact h
    · exact h
  | fetchOr i =>
    simp only [step]; split
    · rename_i a ha
      split
      · rename_i hc
        simp only [Bool.and_eq_true, Bool.not_eq_true', decide_eq_true_eq] at hc
        have hf := h.free_iff
        exact winv_upd h i a ha _ _ (by simp [hc.1.1, hc.1.2]) (Or.inr (by omega))
      · exact h
    · exact h
  | unstarve i =>
    simp only [step]; split
    · rename_i a ha
      split
      · rename_i hc
        have hge : 2 ≤ s.st := by
          have := h.word
          have := sum_ind_pos s.ags (fun a => a.starved) a (List.mem_of_getElem? ha) hc
          simp only [starvedL] at *; omega
        exact winv_upd h i a ha _ _ (by simp [hc] <;> omega) (Or.inl (by simp))
      · exact h
    · exact h
  | unlock i =>
    simp only [step]; split
    · rename_i a ha
      split
      · rename_i hc
        have hge : 1 ≤ s.st := by
          have := h.word
          have := sum_ind_pos s.ags (fun a => a.holder) a (List.mem_of_getElem? ha) hc
          simp only [holdersL] at *; omega
        exact winv_upd h i a ha _ _ (by simp [hc] <;> omega) (Or.inl (by simp))
      · exact h
    · exact h
  | crit i =>
    simp only [step]; split
    · rename_i a ha
      split
      · exact winv_upd h i a ha _ _ (by simp) (Or.inl (by simp))
      · exact h
    · exact h

theorem run_winv (o : Ords) (s : Sys) (l : List Step) (h : WInv s) : WInv (run o s l) := by
  induction l generalizing s with
  | nil => exact h
  | cons x t ih => exact ih _ (step_winv o s x h)

theorem init_winv : WInv {} := ⟨by simp [holdersL, starvedL], by simp [holdersL]⟩

end ALock.Atomic.Mutex

namespace ALock.Atomic.Mutex
open ALock.Atomic

/-- the four synchronising sites carry the ordering they need -/
def Ords.ok (o : Ords) : Prop := o.acq01 = true ∧ o.acq23 = true ∧ o.acqOr = true ∧ o.relUnlock = true

/-- **view invariant**: whoever holds the mutex has observed every completed critical section;
while nobody holds it, the word's release sequence carries them all -/
structure VInv (s : Sys) : Prop where
  held : ∀ a ∈ s.ags, a.holder = true → ∀ k ∈ s.done, k ∈ a.view
  free : holdersL s.ags = 0 → ∀ k ∈ s.done, k ∈ s.wview

/-- an update of agent `i` that changes neither its holder flag nor its view -/
theorem vinv_neutral {s : Sys} (hv : VInv s) (i : Nat) (a : Ag) (ha : s.ags[i]? = some a)
    (f : Ag → Ag) (hh : (f a).holder = a.holder) (hvw : (f a).view = a.view) (st' : Nat) :
    VInv { s with st := st', ags := upd s.ags i f } := by
  have hsum := sum_map_modify s.ags i f (fun a => ind a.holder) a ha
  refine ⟨?_, ?_⟩
  · intro x hx hxh k hk
    rcases mem_modify' hx with ⟨j, _, hj⟩ | ⟨a', ha', rfl⟩
    · exact hv.held x (List.mem_of_getElem? hj) hxh k hk
    · rw [ha] at ha'; cases ha'
      rw [hvw]; exact hv.held a (List.mem_of_getElem? ha) (by rw [← hh]; exact hxh) k hk
  · intro h0 k hk
    refine hv.free ?_ k hk
    simp only [holdersL, upd] at *
    rw [hh] at hsum; omega

/-- agent `i` acquires the free mutex with an acquiring operation -/
theorem vinv_acquire {s : Sys} (hw : WInv s) (hv : VInv s) (i : Nat) (a : Ag)
    (ha : s.ags[i]? = some a) (hfree : s.st % 2 = 0) (st' : Nat) :
    VInv { s with st := st', ags := upd s.ags i fun a =>
      { a with holder := true, view := a.view ++ s.wview } } := by
  have h0 : holdersL s.ags = 0 := hw.free_iff.mpr hfree
  have hnone := sum_ind_zero s.ags (fun a => a.holder) h0
  refine ⟨?_, ?_⟩
  · intro x hx hxh k hk
    rcases mem_modify' hx with ⟨j, _, hj⟩ | ⟨a', ha', rfl⟩
    · have hf : x.holder = false := hnone x (List.mem_of_getElem? hj)
      rw [hf] at hxh; cases hxh
    · exact List.mem_append_right _ (hv.free h0 k hk)
  · intro h1
    have hm := mem_modify_self (f := fun a : Ag =>
      { a with holder := true, view := a.view ++ s.wview }) ha
    have := sum_ind_pos _ (fun a : Ag => a.holder) _ hm rfl
    simp only [holdersL, upd] at h1 this
    omega

theorem step_vinv (o : Ords) (ho : o.ok) (s : Sys) (st : Step) (hw : WInv s) (hv : VInv s) :
    VInv (step o s st) := by
  obtain ⟨o1, o2, o3, o4⟩ := ho
  cases st with
  | spawn =>
    refine ⟨?_, ?_⟩
    · intro x hx hxh k hk
      simp only [step, List.mem_append, List.mem_singleton] at hx
      rcases hx with hx | rfl
      · exact hv.held x hx hxh k hk
      · cases hxh
    · intro h0 k hk
      refine hv.free ?_ k hk
      simp only [step, holdersL, List.map_append, List.sum_append] at h0 ⊢
      omega
  | cas01 i =>
    simp only [step]; split
    · rename_i a ha
      split
      · rename_i hc
        simp only [Bool.and_eq_true, Bool.not_eq_true', decide_eq_true_eq] at hc
        exact vinv_acquire hw hv i a ha (by omega) 1
      · exact hv
    · exact hv
  | cas23 i =>
    simp only [step]; split
    · rename_i a ha
      split
      · rename_i hc
        simp only [Bool.and_eq_true, Bool.not_eq_true', decide_eq_true_eq] at hc
        exact vinv_acquire hw hv i a ha (by omega) 3
      · exact hv
    · exact hv
  | fetchOr i =>
    simp only [step]; split
    · rename_i a ha
      split
      · rename_i hc
        simp only [Bool.and_eq_true, Bool.not_eq_true', decide_eq_true_eq] at hc
        exact vinv_acquire hw hv i a ha hc.2 _
      · exact hv
    · exact hv
  | starve i =>
    simp only [step]; split
    · rename_i a ha
      split
      · exact vinv_neutral hv i a ha _ rfl rfl _
      · exact hv
    · exact hv
  | unstarve i =>
    simp only [step]; split
    · rename_i a ha
      split
      · exact vinv_neutral hv i a ha _ rfl rfl _
      · exact hv
    · exact hv
  | unlock i =>
    simp only [step]; split
    · rename_i a ha
      split
      · rename_i hc
        -- afterwards nobody holds the mutex
        have hsum := sum_map_modify s.ags i (fun a : Ag => { a with holder := false })
          (fun a => ind a.holder) a ha
        have hex := hw.excl
        have h0 : holdersL (upd s.ags i fun a => { a with holder := false }) = 0 := by
          simp only [holdersL, upd, hc, ind_true, ind_false] at *; omega
        refine ⟨?_, ?_⟩
        · intro x hx hxh
          have hf : x.holder = false := sum_ind_zero _ (fun a : Ag => a.holder) h0 x hx
          rw [hf] at hxh; cases hxh
        · intro _ k hk
          exact List.mem_append_right _ (hv.held a (List.mem_of_getElem? ha) hc k hk)
      · exact hv
    · exact hv
  | crit i =>
    simp only [step]; split
    · rename_i a ha
      split
      · rename_i hc
        refine ⟨?_, ?_⟩
        · intro x hx hxh k hk
          rcases mem_modify' hx with ⟨j, hji, hj⟩ | ⟨a', ha', rfl⟩
          · -- a second holder cannot exist
            have := sum_ind_two s.ags (fun a : Ag => a.holder) ha hj (Ne.symm hji) hc hxh
            have := hw.excl
            simp only [holdersL] at *; omega
          · rw [ha] at ha'; cases ha'
            rcases List.mem_cons.mp hk with rfl | hk
            · exact List.mem_cons_self ..
            · exact List.mem_cons_of_mem _ (hv.held a (List.mem_of_getElem? ha) hc k hk)
        · intro h0
          have hm := mem_modify_self (f := fun a : Ag => { a with view := s.done.length :: a.view }) ha
          have := sum_ind_pos _ (fun a : Ag => a.holder) _ hm hc
          simp only [holdersL, upd] at h0 this
          omega
      · exact hv
    · exact hv

theorem init_vinv : VInv {} := ⟨by simp, by simp⟩

theorem run_inv (o : Ords) (ho : o.ok) (s : Sys) (l : List Step) (hw : WInv s) (hv : VInv s) :
    WInv (run o s l) ∧ VInv (run o s l) := by
  induction l generalizing s with
  | nil => exact ⟨hw, hv⟩
  | cons x t ih => exact ih _ (step_winv o s x hw) (step_vinv o ho s x hw hv)

end ALock.Atomic.Mutex
