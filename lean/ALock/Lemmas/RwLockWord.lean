import ALock.Lemmas.RwLock

/-! The word-level invariant `WordInv` is preserved by every operation of the RwLock model. -/

set_option linter.unusedSimpArgs false
set_option linter.unusedVariables false

namespace ALock.RwLock

/-! ### projections of the event helpers -/

@[simp] theorem notifyNr_state (s : Sys) : s.notifyNr.state = s.state := rfl
@[simp] theorem notifyNr_mst (s : Sys) : s.notifyNr.m.st = s.m.st := rfl
@[simp] theorem notifyNr_mq (s : Sys) : s.notifyNr.m.q = s.m.q := rfl
@[simp] theorem notifyNr_futs (s : Sys) : s.notifyNr.futs = s.futs := rfl
@[simp] theorem notifyNr_guards (s : Sys) : s.notifyNr.guards = s.guards := rfl
@[simp] theorem notifyNr_nw (s : Sys) : s.notifyNr.nw = s.nw := rfl
@[simp] theorem notifyNw_state (s : Sys) : s.notifyNw.state = s.state := rfl
@[simp] theorem notifyNw_mst (s : Sys) : s.notifyNw.m.st = s.m.st := rfl
@[simp] theorem notifyNw_mq (s : Sys) : s.notifyNw.m.q = s.m.q := rfl
@[simp] theorem notifyNw_futs (s : Sys) : s.notifyNw.futs = s.futs := rfl
@[simp] theorem notifyNw_guards (s : Sys) : s.notifyNw.guards = s.guards := rfl
@[simp] theorem notifyNw_nr (s : Sys) : s.notifyNw.nr = s.nr := rfl
@[simp] theorem dropNr_state (s : Sys) (f : Nat) : (s.dropNr f).state = s.state := rfl
@[simp] theorem dropNr_mst (s : Sys) (f : Nat) : (s.dropNr f).m.st = s.m.st := rfl
@[simp] theorem dropNr_mq (s : Sys) (f : Nat) : (s.dropNr f).m.q = s.m.q := rfl
@[simp] theorem dropNr_futs (s : Sys) (f : Nat) : (s.dropNr f).futs = s.futs := rfl
@[simp] theorem dropNr_guards (s : Sys) (f : Nat) : (s.dropNr f).guards = s.guards := rfl
@[simp] theorem dropNr_nw (s : Sys) (f : Nat) : (s.dropNr f).nw = s.nw := rfl
@[simp] theorem dropNw_state (s : Sys) (f : Nat) : (s.dropNw f).state = s.state := rfl
@[simp] theorem dropNw_mst (s : Sys) (f : Nat) : (s.dropNw f).m.st = s.m.st := rfl
@[simp] theorem dropNw_mq (s : Sys) (f : Nat) : (s.dropNw f).m.q = s.m.q := rfl
@[simp] theorem dropNw_futs (s : Sys) (f : Nat) : (s.dropNw f).futs = s.futs := rfl
@[simp] theorem dropNw_guards (s : Sys) (f : Nat) : (s.dropNw f).guards = s.guards := rfl
@[simp] theorem dropNw_nr (s : Sys) (f : Nat) : (s.dropNw f).nr = s.nr := rfl
@[simp] theorem unlockM_state (s : Sys) : s.unlockM.state = s.state := rfl
@[simp] theorem unlockM_mst (s : Sys) : s.unlockM.m.st = s.m.st - 1 := rfl
@[simp] theorem unlockM_futs (s : Sys) : s.unlockM.futs = s.futs := rfl
@[simp] theorem unlockM_guards (s : Sys) : s.unlockM.guards = s.guards := rfl
@[simp] theorem unlockM_nr (s : Sys) : s.unlockM.nr = s.nr := rfl
@[simp] theorem unlockM_nw (s : Sys) : s.unlockM.nw = s.nw := rfl

theorem readUnlock_fields (s : Sys) :
    s.readUnlock.state = s.state - 2 ∧ s.readUnlock.m.st = s.m.st ∧ s.readUnlock.futs = s.futs ∧
    s.readUnlock.guards = s.guards := by
  unfold Sys.readUnlock; split <;> simp

theorem ureadUnlock_fields (s : Sys) :
    s.ureadUnlock.state = s.state - 2 ∧ s.ureadUnlock.m.st = s.m.st - 1 ∧
    s.ureadUnlock.futs = s.futs ∧ s.ureadUnlock.guards = s.guards := by
  have := readUnlock_fields s
  simp [Sys.ureadUnlock, this]

theorem writeUnlock_fields (s : Sys) :
    s.writeUnlock.state = s.state - s.state % 2 ∧ s.writeUnlock.m.st = s.m.st - 1 ∧
    s.writeUnlock.futs = s.futs ∧ s.writeUnlock.guards = s.guards := by
  simp [Sys.writeUnlock]

/-! ### word effect of the polls -/

structure PollEff (s : Sys) (fu : Fut) (r : RRes) : Prop where
  futs : r.s.futs = s.futs
  guards : r.s.guards = s.guards
  id : r.fu.id = fu.id
  kind : r.fu.kind = fu.kind
  arc : r.fu.arc = fu.arc

theorem pollRead_eff (s : Sys) (fu : Fut) (t : Nat) :
    let r := pollRead s fu t
    PollEff s fu r ∧ r.s.m.st = s.m.st ∧ r.fu.l = fu.l ∧
    (r.ready = true → s.state % 2 = 0 ∧ r.s.state = s.state + 2 ∧ r.fu.stage = .done) ∧
    (r.ready = false → r.s.state = s.state ∧ r.fu.stage = fu.stage) := by
  unfold pollRead
  simp only []
  (repeat' split) <;> refine ⟨⟨rfl, rfl, rfl, rfl, rfl⟩, ?_⟩ <;> simp_all

theorem pollWaitReaders_eff (s : Sys) (fu : Fut) (t base : Nat) :
    let r := pollWaitReaders s fu t base
    PollEff s fu r ∧ r.s.m.st = s.m.st ∧ r.fu.l = fu.l ∧ r.s.state = s.state ∧
    (r.ready = true → s.state = 1 ∧ r.fu.stage = .done) ∧
    (r.ready = false → r.fu.stage = .waitReaders) := by
  unfold pollWaitReaders
  simp only []
  (repeat' split) <;> refine ⟨⟨rfl, rfl, rfl, rfl, rfl⟩, ?_⟩ <;> simp_all

theorem pollUpgrade_eff (s : Sys) (fu : Fut) (t : Nat) :
    let r := pollUpgrade s fu t
    PollEff s fu r ∧ r.s.m.st = s.m.st ∧ r.fu.l = fu.l ∧ r.s.state = s.state ∧
    (r.ready = true → s.state = 1 ∧ r.fu.stage = .done) ∧
    (r.ready = false → r.fu.stage = fu.stage) := by
  unfold pollUpgrade
  simp only []
  (repeat' split) <;> refine ⟨⟨rfl, rfl, rfl, rfl, rfl⟩, ?_⟩ <;> simp_all

theorem pollUread_eff (s : Sys) (fu : Fut) (t : Nat) (fire : Bool) :
    let r := pollUread s fu t fire
    let lp := lockPoll s.m fu.l fu.id t fire
    PollEff s fu r ∧ r.ready = lp.ready ∧ r.s.m.st = lp.c.st ∧ r.fu.l = lp.l ∧
    (lp.ready = true → r.s.state = s.state + 2 ∧ r.fu.stage = .done) ∧
    (lp.ready = false → r.s.state = s.state ∧ r.fu.stage = fu.stage) := by
  unfold pollUread
  simp only []
  split <;> refine ⟨⟨rfl, rfl, rfl, rfl, rfl⟩, ?_⟩ <;> simp_all

theorem pollWrite_eff (s : Sys) (fu : Fut) (t : Nat) (fire : Bool) :
    let r := pollWrite s fu t fire
    let lp := lockPoll s.m fu.l fu.id t fire
    PollEff s fu r ∧
    (fu.stage = .init →
      (lp.ready = false → r.ready = false ∧ r.s.m.st = lp.c.st ∧ r.fu.l = lp.l ∧
        r.s.state = s.state ∧ r.fu.stage = .init) ∧
      (lp.ready = true → r.s.m.st = lp.c.st ∧ r.fu.l = lp.l ∧
        r.s.state = s.state + (1 - s.state % 2) ∧
        (r.ready = true → r.s.state = 1 ∧ r.fu.stage = .done) ∧
        (r.ready = false → r.fu.stage = .waitReaders))) ∧
    (fu.stage ≠ .init → r.s.m.st = s.m.st ∧ r.fu.l = fu.l ∧ r.s.state = s.state ∧
      (r.ready = true → s.state = 1 ∧ r.fu.stage = .done) ∧
      (r.ready = false → r.fu.stage = .waitReaders)) := by
  unfold pollWrite
  simp only []
  generalize lockPoll s.m fu.l fu.id t fire = lp
  cases hst : fu.stage with
  | init =>
    simp only []
    cases hlp : lp.ready with
    | false =>
      simp only [Bool.false_eq_true, if_false]
      exact ⟨⟨rfl, rfl, rfl, rfl, rfl⟩, by simp [hst], by simp⟩
    | true =>
      simp only [if_true]
      obtain ⟨E, h1, h2, h3, h4, h5⟩ := pollWaitReaders_eff
        { s with m := lp.c, state := s.state + (1 - s.state % 2), nr := Ev.listen s.nr fu.id }
        { fu with l := lp.l, stage := .init } t (30 + lp.br)
      refine ⟨⟨E.futs, E.guards, E.id, E.kind, E.arc⟩, ?_, by simp⟩
      intro _
      refine ⟨by simp, fun _ => ⟨h1, h2, h3, ?_, h5⟩⟩
      intro hrr
      have := h4 hrr
      exact ⟨by rw [h3]; exact this.1, this.2⟩
  | waitReaders =>
    simp only []
    obtain ⟨E, h1, h2, h3, h4, h5⟩ := pollWaitReaders_eff s fu t 50
    exact ⟨E, by simp, fun _ => ⟨h1, h2, h3, h4, h5⟩⟩
  | done =>
    simp only []
    obtain ⟨E, h1, h2, h3, h4, h5⟩ := pollWaitReaders_eff s fu t 50
    exact ⟨E, by simp, fun _ => ⟨h1, h2, h3, h4, h5⟩⟩

end ALock.RwLock

namespace ALock.RwLock

/-- the system after a poll, as built by `step` -/
def afterPoll (r : RRes) (fu : Fut) (f t : Nat) : Sys :=
  let futs := setFut r.s.futs f fun _ => { r.fu with polled := true, waker := t }
  if r.ready then
    { r.s with futs := futs,
               guards := { id := f, kind := fu.kind.guard, arc := fu.arc } :: r.s.guards,
               strong := if fu.arc && fu.kind != .upgrade then r.s.strong + 1 else r.s.strong }
  else { r.s with futs := futs }

theorem step_poll_eq (s : Sys) (f t : Nat) (fire : Bool) (fu : Fut) (hf : findFut s f = some fu)
    (hd : fu.stage ≠ .done) :
    next s (.poll f t fire) = afterPoll (pollFut { s with m := s.m.polled f } fu t fire) fu f t := by
  simp only [next, step, hf, hd, if_false, afterPoll]
  split <;> rfl

theorem ind_isPW (x : Fut) : ind x.isPW = if x.kind = .write ∧ x.stage = .waitReaders then 1 else 0 := by
  simp only [ind, Fut.isPW, Bool.and_eq_true, beq_iff_eq]

theorem ind_isPU (x : Fut) : ind x.isPU = if x.kind = .upgrade ∧ x.stage ≠ .done then 1 else 0 := by
  simp only [ind, Fut.isPU, Bool.and_eq_true, beq_iff_eq, bne_iff_ne, ne_eq]

theorem wordinv_of (s' : Sys)
    (hnd : (s'.futs.map (·.id)).Nodup) (hfl : ∀ fu ∈ s'.futs, FutOK fu)
    (hm : s'.m.st = nGL s'.guards .write + nGL s'.guards .uread + nPWL s'.futs + nPUL s'.futs +
      ticksL s'.futs)
    (hs : nGL s'.guards .write + nGL s'.guards .uread + nPWL s'.futs + nPUL s'.futs ≤ 1)
    (hw : s'.state = nGL s'.guards .write + nPWL s'.futs + nPUL s'.futs +
      2 * (nGL s'.guards .read + nGL s'.guards .uread))
    (ha : 1 ≤ nGL s'.guards .write → nGL s'.guards .read + nGL s'.guards .uread = 0) :
    WordInv s' :=
  ⟨hnd, hfl, hm, hs, hw, ha⟩

/-- unfolded view of the invariant, for arithmetic -/
theorem WordInv.unf {s : Sys} (h : WordInv s) :
    (s.m.st = nGL s.guards .write + nGL s.guards .uread + nPWL s.futs + nPUL s.futs + ticksL s.futs) ∧
    (nGL s.guards .write + nGL s.guards .uread + nPWL s.futs + nPUL s.futs ≤ 1) ∧
    (s.state = nGL s.guards .write + nPWL s.futs + nPUL s.futs +
      2 * (nGL s.guards .read + nGL s.guards .uread)) ∧
    (1 ≤ nGL s.guards .write → nGL s.guards .read + nGL s.guards .uread = 0) :=
  ⟨h.mword, h.slot, h.word, h.alone⟩

theorem flags_update {s : Sys} (h : WordInv s) (f : Nat) (nf : Fut) (hnf : FutOK nf) :
    ∀ x ∈ setFut s.futs f (fun _ => nf), FutOK x := by
  intro x hx
  obtain ⟨y, hy, rfl⟩ := mem_map_update.mp hx
  split
  · exact hnf
  · exact h.flags y hy

theorem nodup_update {s : Sys} (h : WordInv s) (f : Nat) (nf : Fut) (hid : nf.id = f) :
    ((setFut s.futs f (fun _ => nf)).map (·.id)).Nodup := by
  have : (setFut s.futs f (fun _ => nf)).map (·.id) = s.futs.map (·.id) := by
    simp only [setFut, List.map_map]
    apply List.map_congr_left
    intro y _
    simp only [Function.comp]
    split
    · rename_i hy; simp only [beq_iff_eq] at hy; rw [hid, hy]
    · rfl
  rw [this]; exact h.nodup

/-- list plumbing of a poll, done once: how the counts of the system built by `step` relate to
the counts before, in terms of the polled future before (`fu`) and after (`nf`). -/
theorem afterPoll_counts (s : Sys) (h : WordInv s) (f t : Nat) (fu : Fut) (r : RRes)
    (hmem : fu ∈ s.futs) (hid : fu.id = f) (E : PollEff { s with m := s.m.polled f } fu r)
    (hfo : FutOK { r.fu with polled := true, waker := t }) :
    let s' := afterPoll r fu f t
    let nf : Fut := { r.fu with polled := true, waker := t }
    (s'.futs.map (·.id)).Nodup ∧ (∀ x ∈ s'.futs, FutOK x) ∧
    (ticksL s'.futs + fu.l.tick = ticksL s.futs + nf.l.tick) ∧
    (nPWL s'.futs + ind fu.isPW = nPWL s.futs + ind nf.isPW) ∧
    (nPUL s'.futs + ind fu.isPU = nPUL s.futs + ind nf.isPU) ∧
    (∀ k, nGL s'.guards k = nGL s.guards k + (if r.ready then ind (fu.kind.guard == k) else 0)) ∧
    s'.m.st = r.s.m.st ∧ s'.state = r.s.state := by
  intro s' nf
  have hsum := futL_update s.futs fu nf h.nodup hmem
  rw [hid] at hsum
  have hfuts : s'.futs = setFut s.futs f (fun _ => nf) := by
    simp only [s', afterPoll]; split <;> simp [E.futs, nf]
  have hnd := nodup_update h f nf (by simp [nf, E.id, hid])
  have hfl := flags_update h f nf hfo
  refine ⟨by rw [hfuts]; exact hnd, by rw [hfuts]; exact hfl, by rw [hfuts]; exact hsum.1,
    by rw [hfuts]; exact hsum.2.1, by rw [hfuts]; exact hsum.2.2, ?_, ?_, ?_⟩
  · intro k
    simp only [s', afterPoll]
    split
    · simp [nGL_cons, E.guards]; omega
    · simp [E.guards]
  · simp only [s', afterPoll]; split <;> rfl
  · simp only [s', afterPoll]; split <;> rfl

theorem poll_word (s : Sys) (h : WordInv s) (f t : Nat) (fire : Bool) (fu : Fut)
    (hf : findFut s f = some fu) (hd : fu.stage ≠ .done) :
    WordInv (afterPoll (pollFut { s with m := s.m.polled f } fu t fire) fu f t) := by
  obtain ⟨hmem, hid⟩ := findFut_mem hf
  have hfl := h.flags fu hmem
  obtain ⟨hmw, hsl, hwd, hal⟩ := h.unf
  have htk := tick_le_ticksL s.futs fu hmem
  have hpw := ind_le_nPWL s.futs fu hmem
  have hpu := ind_le_nPUL s.futs fu hmem
  have hev := ticksL_even s.futs
  cases hk : fu.kind with
  | read =>
    have hl0 := hfl.lockFree (Or.inl hk)
    have hst : fu.stage = .init := by
      have := hfl.rstage (Or.inl hk)
      cases hs : fu.stage <;> simp_all
    obtain ⟨E, hmst, hl, hrdy, hpend⟩ := pollRead_eff { s with m := s.m.polled f } fu t
    simp only [pollFut, hk]
    generalize pollRead { s with m := s.m.polled f } fu t = r at *
    simp only [Core.polled_st] at hmst hrdy hpend
    have hfo : FutOK { r.fu with polled := true, waker := t } := by
      refine ⟨fun _ => by simp [hl, hl0], by simp [hl, hl0], by simp [E.kind, hk],
        by simp [E.kind, hk], ?_, fun _ => rfl, fun _ => rfl, by simp [E.kind, hk]⟩
      intro _
      cases hr : r.ready
      · simp [(hpend hr).2, hst]
      · simp [(hrdy hr).2.2]
    obtain ⟨hnd, hfls, hT, hPW, hPU, hG, hM, hS⟩ := afterPoll_counts s h f t fu r hmem hid E hfo
    have gR := hG .read; have gU := hG .uread; have gW := hG .write
    have a1 : ind fu.isPW = 0 := by simp [ind, Fut.isPW, hk]
    have a2 : ind fu.isPU = 0 := by simp [ind, Fut.isPU, hk]
    have a3 : fu.l.tick = 0 := by simp [hl0, LockSt.tick]
    have b1 : ind ({ r.fu with polled := true, waker := t } : Fut).isPW = 0 := by
      simp [ind, Fut.isPW, E.kind, hk]
    have b2 : ind ({ r.fu with polled := true, waker := t } : Fut).isPU = 0 := by
      simp [ind, Fut.isPU, E.kind, hk]
    have b3 : ({ r.fu with polled := true, waker := t } : Fut).l.tick = 0 := by
      simp [hl, hl0, LockSt.tick]
    rw [a1, b1] at hPW; rw [a2, b2] at hPU; rw [a3, b3] at hT
    simp only [hk, Kind.guard] at gR gU gW
    cases hr : r.ready
    · have hp := hpend hr
      simp [hr, ind] at gR gU gW
      refine wordinv_of _ hnd hfls ?_ ?_ ?_ ?_ <;> ((try simp only [hM, hS, hmst, hp.1]); omega)
    · have hp := hrdy hr
      simp [hr, ind] at gR gU gW
      refine wordinv_of _ hnd hfls ?_ ?_ ?_ ?_ <;> ((try simp only [hM, hS, hmst, hp.2.1]); omega)
  | uread =>
    have hus := hfl.ustage hk
    have hst : fu.stage = .init := by
      cases hs : fu.stage <;> simp_all
    have hdn : fu.l.done = false := by
      cases hdd : fu.l.done
      · rfl
      · have := hus.1.mpr hdd; exact absurd this hd
    have hst2 : fu.l.starved = true → 2 ≤ (s.m.polled f).st := by
      intro hsv
      have : fu.l.tick = 2 := (tick_two_iff _).mpr ⟨hsv, hdn⟩
      simp only [Core.polled_st]; omega
    obtain ⟨E, hrd, hmst, hl, hrdy, hpend⟩ := pollUread_eff { s with m := s.m.polled f } fu t fire
    simp only [pollFut, hk]
    generalize pollUread { s with m := s.m.polled f } fu t fire = r at *
    simp only [] at hrd hmst hl hrdy hpend
    rw [hid] at hrd hmst hl hrdy hpend
    have lflags := lockPoll_flags (s.m.polled f) fu.l f t fire hdn hfl.starvedSlow
    have lword := lockPoll_word (s.m.polled f) fu.l f t fire hdn hfl.starvedSlow hst2
    have lbit := lockPoll_ready_bit (s.m.polled f) fu.l f t fire hdn hfl.starvedSlow hst2
    generalize lockPoll (s.m.polled f) fu.l f t fire = lp at *
    simp only [Core.polled_st] at lword lbit
    have hfo : FutOK { r.fu with polled := true, waker := t } := by
      refine ⟨by simp [E.kind, hk], by simp only [hl]; exact lflags.2.1, by simp [E.kind, hk], ?_,
        by simp [E.kind, hk], fun _ => rfl, fun _ => rfl, ?_⟩
      · intro _
        cases hr : lp.ready
        · simp [(hpend hr).2, hst, hl, ← lflags.1, hr]
          rw [lflags.1]; exact hr
        · simp [(hrdy hr).2, hl, lflags.1, hr]
      · intro _ hsi _
        cases hr : lp.ready
        · simp only [hl]; exact lflags.2.2.2.2 hr
        · simp [(hrdy hr).2] at hsi
    obtain ⟨hnd, hfls, hT, hPW, hPU, hG, hM, hS⟩ := afterPoll_counts s h f t fu r hmem hid E hfo
    have gR := hG .read; have gU := hG .uread; have gW := hG .write
    have a1 : ind fu.isPW = 0 := by simp [ind, Fut.isPW, hk]
    have a2 : ind fu.isPU = 0 := by simp [ind, Fut.isPU, hk]
    have b1 : ind ({ r.fu with polled := true, waker := t } : Fut).isPW = 0 := by
      simp [ind, Fut.isPW, E.kind, hk]
    have b2 : ind ({ r.fu with polled := true, waker := t } : Fut).isPU = 0 := by
      simp [ind, Fut.isPU, E.kind, hk]
    have b3 : ({ r.fu with polled := true, waker := t } : Fut).l.tick = lp.l.tick := by
      simp [hl]
    rw [a1, b1] at hPW; rw [a2, b2] at hPU; rw [b3] at hT
    simp only [hk, Kind.guard, hrd] at gR gU gW
    cases hr : lp.ready
    · have hp := hpend hr
      have hb := lbit.2 hr
      simp [hr, ind] at gR gU gW lword
      refine wordinv_of _ hnd hfls ?_ ?_ ?_ ?_ <;> ((try simp only [hM, hS, hmst, hp.1]); omega)
    · have hp := hrdy hr
      have hb := lbit.1 hr
      simp [hr, ind] at gR gU gW lword
      refine wordinv_of _ hnd hfls ?_ ?_ ?_ ?_ <;> ((try simp only [hM, hS, hmst, hp.1]); omega)
  | write =>
    have hws := hfl.wstage hk
    obtain ⟨E, hinit, hwait⟩ := pollWrite_eff { s with m := s.m.polled f } fu t fire
    simp only [pollFut, hk]
    generalize pollWrite { s with m := s.m.polled f } fu t fire = r at *
    simp only [] at hinit hwait
    rw [hid] at hinit
    have a2 : ind fu.isPU = 0 := by simp [ind, Fut.isPU, hk]
    have b2 : ind ({ r.fu with polled := true, waker := t } : Fut).isPU = 0 := by
      simp [ind, Fut.isPU, E.kind, hk]
    by_cases hst : fu.stage = .init
    · -- still acquiring the inner mutex
      have hdn : fu.l.done = false := hws.mp hst
      have hst2 : fu.l.starved = true → 2 ≤ (s.m.polled f).st := by
        intro hsv
        have : fu.l.tick = 2 := (tick_two_iff _).mpr ⟨hsv, hdn⟩
        simp only [Core.polled_st]; omega
      have lflags := lockPoll_flags (s.m.polled f) fu.l f t fire hdn hfl.starvedSlow
      have lword := lockPoll_word (s.m.polled f) fu.l f t fire hdn hfl.starvedSlow hst2
      have lbit := lockPoll_ready_bit (s.m.polled f) fu.l f t fire hdn hfl.starvedSlow hst2
      obtain ⟨hP, hR⟩ := hinit hst
      generalize lockPoll (s.m.polled f) fu.l f t fire = lp at *
      simp only [Core.polled_st] at lword lbit
      have a1 : ind fu.isPW = 0 := by simp [ind, Fut.isPW, hk, hst]
      cases hlr : lp.ready
      · obtain ⟨hrf, hmst, hl, hss, hstage⟩ := hP hlr
        have hb := lbit.2 hlr
        have hfo : FutOK { r.fu with polled := true, waker := t } := by
          refine ⟨by simp [E.kind, hk], by simp only [hl]; exact lflags.2.1, ?_, by simp [E.kind, hk],
            by simp [E.kind, hk], fun _ => rfl, fun _ => rfl, ?_⟩
          · intro _; simp [hstage, hl, lflags.1, hlr]
          · intro _ _ _; simp only [hl]; exact lflags.2.2.2.2 hlr
        obtain ⟨hnd, hfls, hT, hPW, hPU, hG, hM, hS⟩ := afterPoll_counts s h f t fu r hmem hid E hfo
        have gR := hG .read; have gU := hG .uread; have gW := hG .write
        have b1 : ind ({ r.fu with polled := true, waker := t } : Fut).isPW = 0 := by
          simp [ind, Fut.isPW, hstage]
        have b3 : ({ r.fu with polled := true, waker := t } : Fut).l.tick = lp.l.tick := by simp [hl]
        rw [a1, b1] at hPW; rw [a2, b2] at hPU; rw [b3] at hT
        simp [hrf, hlr, ind] at gR gU gW lword
        refine wordinv_of _ hnd hfls ?_ ?_ ?_ ?_ <;> ((try simp only [hM, hS, hmst, hss]); omega)
      · obtain ⟨hmst, hl, hss, hrd, hpe⟩ := hR hlr
        have hb := lbit.1 hlr
        have hld : lp.l.done = true := by rw [lflags.1]; exact hlr
        have lt0 : lp.l.tick = 0 := by simp [LockSt.tick, hld]
        rw [lt0] at lword
        have b3 : ({ r.fu with polled := true, waker := t } : Fut).l.tick = 0 := by
          simp [hl, LockSt.tick, hld]
        cases hr : r.ready
        · have hsg := hpe hr
          have hfo : FutOK { r.fu with polled := true, waker := t } := by
            refine ⟨by simp [E.kind, hk], by simp only [hl]; exact lflags.2.1, ?_,
              by simp [E.kind, hk], by simp [E.kind, hk], fun _ => rfl, fun _ => rfl, ?_⟩
            · intro _; simp [hsg, hl, hld]
            · intro _ hc; simp [hsg] at hc
          obtain ⟨hnd, hfls, hT, hPW, hPU, hG, hM, hS⟩ := afterPoll_counts s h f t fu r hmem hid E hfo
          have gR := hG .read; have gU := hG .uread; have gW := hG .write
          have b1 : ind ({ r.fu with polled := true, waker := t } : Fut).isPW = 1 := by
            simp [ind, Fut.isPW, hsg, E.kind, hk]
          rw [a1, b1] at hPW; rw [a2, b2] at hPU; rw [b3] at hT
          simp [hr, hlr, ind] at gR gU gW lword
          refine wordinv_of _ hnd hfls ?_ ?_ ?_ ?_ <;> ((try simp only [hM, hS, hmst, hss]); omega)
        · have hsg := hrd hr
          have hfo : FutOK { r.fu with polled := true, waker := t } := by
            refine ⟨by simp [E.kind, hk], by simp only [hl]; exact lflags.2.1, ?_,
              by simp [E.kind, hk], by simp [E.kind, hk], fun _ => rfl, fun _ => rfl, ?_⟩
            · intro _; simp [hsg.2, hl, hld]
            · intro _ hc; simp [hsg.2] at hc
          obtain ⟨hnd, hfls, hT, hPW, hPU, hG, hM, hS⟩ := afterPoll_counts s h f t fu r hmem hid E hfo
          have gR := hG .read; have gU := hG .uread; have gW := hG .write
          have b1 : ind ({ r.fu with polled := true, waker := t } : Fut).isPW = 0 := by
            simp [ind, Fut.isPW, hsg.2]
          rw [a1, b1] at hPW; rw [a2, b2] at hPU; rw [b3] at hT
          simp only [hk, Kind.guard] at gR gU gW
          simp [hr, hlr, ind] at gR gU gW lword
          have h1 := hsg.1
          rw [hss] at h1
          refine wordinv_of _ hnd hfls ?_ ?_ ?_ ?_ <;> ((try simp only [hM, hS, hmst, hss]); omega)
    · -- waiting for readers
      have hwr : fu.stage = .waitReaders := by
        cases hs : fu.stage <;> simp_all
      have hld : fu.l.done = true := by
        cases hdd : fu.l.done
        · exact absurd (hws.mpr hdd) hst
        · rfl
      obtain ⟨hmst, hl, hss, hrd, hpe⟩ := hwait hst
      simp only [Core.polled_st] at hmst hss hrd
      have a1 : ind fu.isPW = 1 := by simp [ind, Fut.isPW, hk, hwr]
      have a3 : fu.l.tick = 0 := by simp [LockSt.tick, hld]
      have b3 : ({ r.fu with polled := true, waker := t } : Fut).l.tick = 0 := by
        simp [hl, LockSt.tick, hld]
      cases hr : r.ready
      · have hsg := hpe hr
        have hfo : FutOK { r.fu with polled := true, waker := t } := by
          refine ⟨by simp [E.kind, hk], by simp only [hl]; exact hfl.starvedSlow, ?_,
            by simp [E.kind, hk], by simp [E.kind, hk], fun _ => rfl, fun _ => rfl, ?_⟩
          · intro _; simp [hsg, hl, hld]
          · intro _ hc; simp [hsg] at hc
        obtain ⟨hnd, hfls, hT, hPW, hPU, hG, hM, hS⟩ := afterPoll_counts s h f t fu r hmem hid E hfo
        have gR := hG .read; have gU := hG .uread; have gW := hG .write
        have b1 : ind ({ r.fu with polled := true, waker := t } : Fut).isPW = 1 := by
          simp [ind, Fut.isPW, hsg, E.kind, hk]
        rw [a1, b1] at hPW; rw [a2, b2] at hPU; rw [a3, b3] at hT
        simp [hr, ind] at gR gU gW
        refine wordinv_of _ hnd hfls ?_ ?_ ?_ ?_ <;> ((try simp only [hM, hS, hmst, hss]); omega)
      · have hsg := hrd hr
        have hfo : FutOK { r.fu with polled := true, waker := t } := by
          refine ⟨by simp [E.kind, hk], by simp only [hl]; exact hfl.starvedSlow, ?_,
            by simp [E.kind, hk], by simp [E.kind, hk], fun _ => rfl, fun _ => rfl, ?_⟩
          · intro _; simp [hsg.2, hl, hld]
          · intro _ hc; simp [hsg.2] at hc
        obtain ⟨hnd, hfls, hT, hPW, hPU, hG, hM, hS⟩ := afterPoll_counts s h f t fu r hmem hid E hfo
        have gR := hG .read; have gU := hG .uread; have gW := hG .write
        have b1 : ind ({ r.fu with polled := true, waker := t } : Fut).isPW = 0 := by
          simp [ind, Fut.isPW, hsg.2]
        rw [a1, b1] at hPW; rw [a2, b2] at hPU; rw [a3, b3] at hT
        simp only [hk, Kind.guard] at gR gU gW
        simp [hr, ind] at gR gU gW
        have h1 := hsg.1
        refine wordinv_of _ hnd hfls ?_ ?_ ?_ ?_ <;> ((try simp only [hM, hS, hmst, hss]); omega)
  | upgrade =>
    have hl0 := hfl.lockFree (Or.inr hk)
    have hst : fu.stage = .init := by
      have := hfl.rstage (Or.inr hk)
      cases hs : fu.stage <;> simp_all
    obtain ⟨E, hmst, hl, hsame, hrdy, hpend⟩ := pollUpgrade_eff { s with m := s.m.polled f } fu t
    simp only [pollFut, hk]
    generalize pollUpgrade { s with m := s.m.polled f } fu t = r at *
    simp only [Core.polled_st] at hmst hrdy hpend hsame
    have hfo : FutOK { r.fu with polled := true, waker := t } := by
      refine ⟨fun _ => by simp [hl, hl0], by simp [hl, hl0], by simp [E.kind, hk],
        by simp [E.kind, hk], ?_, fun _ => rfl, fun _ => rfl, by simp [E.kind, hk]⟩
      intro _
      cases hr : r.ready
      · simp [hpend hr, hst]
      · simp [(hrdy hr).2]
    obtain ⟨hnd, hfls, hT, hPW, hPU, hG, hM, hS⟩ := afterPoll_counts s h f t fu r hmem hid E hfo
    have gR := hG .read; have gU := hG .uread; have gW := hG .write
    have a1 : ind fu.isPW = 0 := by simp [ind, Fut.isPW, hk]
    have a2 : ind fu.isPU = 1 := by simp [ind, Fut.isPU, hk, hst]
    have a3 : fu.l.tick = 0 := by simp [hl0, LockSt.tick]
    have b1 : ind ({ r.fu with polled := true, waker := t } : Fut).isPW = 0 := by
      simp [ind, Fut.isPW, E.kind, hk]
    have b3 : ({ r.fu with polled := true, waker := t } : Fut).l.tick = 0 := by
      simp [hl, hl0, LockSt.tick]
    rw [a1, b1] at hPW; rw [a2] at hPU; rw [a3, b3] at hT
    simp only [hk, Kind.guard] at gR gU gW
    cases hr : r.ready
    · have b2 : ind ({ r.fu with polled := true, waker := t } : Fut).isPU = 1 := by
        simp [ind, Fut.isPU, E.kind, hk, hpend hr, hst]
      rw [b2] at hPU
      simp [hr, ind] at gR gU gW
      refine wordinv_of _ hnd hfls ?_ ?_ ?_ ?_ <;> ((try simp only [hM, hS, hmst, hsame]); omega)
    · have hp := hrdy hr
      have b2 : ind ({ r.fu with polled := true, waker := t } : Fut).isPU = 0 := by
        simp [ind, Fut.isPU, E.kind, hk, hp.2]
      rw [b2] at hPU
      simp [hr, ind] at gR gU gW
      refine wordinv_of _ hnd hfls ?_ ?_ ?_ ?_ <;> ((try simp only [hM, hS, hmst, hsame]); omega)

end ALock.RwLock

namespace ALock.RwLock

theorem findGuard_find {s : Sys} {g : Nat} {gu : Guard} (h : findGuard s g = some gu) :
    s.guards.find? (·.id == g) = some gu := h

theorem ind_kind_cases (gu : Guard) :
    (gu.kind = .read ∧ ind (gu.kind == .read) = 1 ∧ ind (gu.kind == .uread) = 0 ∧ ind (gu.kind == .write) = 0) ∨
    (gu.kind = .uread ∧ ind (gu.kind == .read) = 0 ∧ ind (gu.kind == .uread) = 1 ∧ ind (gu.kind == .write) = 0) ∨
    (gu.kind = .write ∧ ind (gu.kind == .read) = 0 ∧ ind (gu.kind == .uread) = 0 ∧ ind (gu.kind == .write) = 1) := by
  cases hk : gu.kind <;> simp [ind]

theorem dropFut_word (s : Sys) (h : WordInv s) (f : Nat) (fu : Fut) (hf : findFut s f = some fu) :
    WordInv (next s (.dropFut f)) := by
  obtain ⟨hmem, hid⟩ := findFut_mem hf
  have hfl := h.flags fu hmem
  obtain ⟨hmw, hsl, hwd, hal⟩ := h.unf
  have htk := tick_le_ticksL s.futs fu hmem
  have hpw := ind_le_nPWL s.futs fu hmem
  have hpu := ind_le_nPUL s.futs fu hmem
  have hsum := futL_filter s.futs fu h.nodup hmem
  rw [hid] at hsum
  obtain ⟨hT, hPW, hPU⟩ := hsum
  simp only [next, step, hf]
  -- common list facts about the result
  have hnd : ((s.futs.filter (·.id != f)).map (·.id)).Nodup := nodup_map_filter _ _ _ h.nodup
  have hfls : ∀ x ∈ s.futs.filter (·.id != f), FutOK x := fun x hx => h.flags x (List.mem_filter.mp hx).1
  cases hk : fu.kind with
  | read =>
    have hl0 := hfl.lockFree (Or.inl hk)
    have a1 : ind fu.isPW = 0 := by simp [ind, Fut.isPW, hk]
    have a2 : ind fu.isPU = 0 := by simp [ind, Fut.isPU, hk]
    have a3 : fu.l.tick = 0 := by simp [hl0, LockSt.tick]
    rw [a1] at hPW; rw [a2] at hPU; rw [a3] at hT
    simp only [dropFutS, hk]
    refine wordinv_of _ (by simpa using hnd) (by simpa using hfls) ?_ ?_ ?_ ?_ <;>
      (simp only [dropNw_futs, dropNw_guards, dropNw_mst, dropNw_state, Core.polled_st]; omega)
  | uread =>
    have a1 : ind fu.isPW = 0 := by simp [ind, Fut.isPW, hk]
    have a2 : ind fu.isPU = 0 := by simp [ind, Fut.isPU, hk]
    rw [a1] at hPW; rw [a2] at hPU
    simp only [dropFutS, hk]
    by_cases hsd : fu.stage = .done
    · have hld := (hfl.ustage hk).1.mp hsd
      have a3 : fu.l.tick = 0 := by simp [LockSt.tick, hld]
      rw [a3] at hT
      simp only [hsd, if_true]
      refine wordinv_of _ (by simpa using hnd) (by simpa using hfls) ?_ ?_ ?_ ?_ <;>
        (simp only [Core.polled_st]; omega)
    · simp only [hsd, if_false]
      have hw := lockDrop_word (s.m.polled f) fu.l fu.id
        (by intro h2; simp only [Core.polled_st]; omega) hfl.starvedSlow
      simp only [Core.polled_st] at hw
      refine wordinv_of _ (by simpa using hnd) (by simpa using hfls) ?_ ?_ ?_ ?_ <;>
        (simp only []; omega)
  | write =>
    have a2 : ind fu.isPU = 0 := by simp [ind, Fut.isPU, hk]
    rw [a2] at hPU
    simp only [dropFutS, hk]
    cases hsg : fu.stage with
    | init =>
      have a1 : ind fu.isPW = 0 := by simp [ind, Fut.isPW, hk, hsg]
      rw [a1] at hPW
      have hw := lockDrop_word (s.m.polled f) fu.l fu.id
        (by intro h2; simp only [Core.polled_st]; omega) hfl.starvedSlow
      simp only [Core.polled_st] at hw
      refine wordinv_of _ (by simpa using hnd) (by simpa using hfls) ?_ ?_ ?_ ?_ <;>
        (simp only []; omega)
    | waitReaders =>
      have a1 : ind fu.isPW = 1 := by simp [ind, Fut.isPW, hk, hsg]
      have hld : fu.l.done = true := by
        cases hdd : fu.l.done
        · have := (hfl.wstage hk).mpr hdd; rw [hsg] at this; cases this
        · rfl
      have a3 : fu.l.tick = 0 := by simp [LockSt.tick, hld]
      rw [a1] at hPW; rw [a3] at hT
      obtain ⟨w1, w2, w3, w4⟩ := writeUnlock_fields { s with m := s.m.polled f }
      simp only [Core.polled_st] at w1 w2
      refine wordinv_of _ (by simpa [w3] using hnd) (by simpa [w3] using hfls) ?_ ?_ ?_ ?_ <;>
        (simp only [dropNr_futs, dropNr_guards, dropNr_mst, dropNr_state, w1, w2, w3, w4]; omega)
    | done =>
      have a1 : ind fu.isPW = 0 := by simp [ind, Fut.isPW, hk, hsg]
      have hld : fu.l.done = true := by
        cases hdd : fu.l.done
        · have := (hfl.wstage hk).mpr hdd; rw [hsg] at this; cases this
        · rfl
      have a3 : fu.l.tick = 0 := by simp [LockSt.tick, hld]
      rw [a1] at hPW; rw [a3] at hT
      refine wordinv_of _ (by simpa using hnd) (by simpa using hfls) ?_ ?_ ?_ ?_ <;>
        (simp only [Core.polled_st]; omega)
  | upgrade =>
    have hl0 := hfl.lockFree (Or.inr hk)
    have a1 : ind fu.isPW = 0 := by simp [ind, Fut.isPW, hk]
    have a3 : fu.l.tick = 0 := by simp [hl0, LockSt.tick]
    rw [a1] at hPW; rw [a3] at hT
    simp only [dropFutS, hk]
    by_cases hsd : fu.stage = .done
    · have a2 : ind fu.isPU = 0 := by simp [ind, Fut.isPU, hk, hsd]
      rw [a2] at hPU
      simp only [hsd, if_true]
      refine wordinv_of _ (by simpa using hnd) (by simpa using hfls) ?_ ?_ ?_ ?_ <;>
        (simp only [Core.polled_st]; omega)
    · have a2 : ind fu.isPU = 1 := by simp [ind, Fut.isPU, hk, hsd]
      rw [a2] at hPU
      simp only [hsd, if_false]
      obtain ⟨w1, w2, w3, w4⟩ := writeUnlock_fields { s with m := s.m.polled f }
      simp only [Core.polled_st] at w1 w2
      refine wordinv_of _ (by simpa [w3] using hnd) (by simpa [w3] using hfls) ?_ ?_ ?_ ?_ <;>
        (simp only [dropNr_futs, dropNr_guards, dropNr_mst, dropNr_state, w1, w2, w3, w4]; omega)

end ALock.RwLock

namespace ALock.RwLock

theorem step_word (s : Sys) (op : Op) (h : WordInv s) : WordInv (next s op) := by
  obtain ⟨hmw, hsl, hwd, hal⟩ := h.unf
  have hev := ticksL_even s.futs
  cases op with
  | start f k arc =>
    simp only [next, step]
    split
    · rename_i hc
      simp only [Bool.and_eq_true, decide_eq_true_eq, bne_iff_ne, ne_eq] at hc
      have hfresh := fresh_fut hc.1.1
      have hku : k ≠ .upgrade := hc.2
      obtain ⟨c1, c2, c3⟩ := futL_cons { id := f, kind := k, arc := arc, seen := s.state, waker := f * 4 } s.futs
      have a1 : ind ({ id := f, kind := k, arc := arc, seen := s.state, waker := f * 4 } : Fut).isPW = 0 := by
        simp [ind, Fut.isPW]
      have a2 : ind ({ id := f, kind := k, arc := arc, seen := s.state, waker := f * 4 } : Fut).isPU = 0 := by
        simp [ind, Fut.isPU, hku]
      have a3 : ({ id := f, kind := k, arc := arc, seen := s.state, waker := f * 4 } : Fut).l.tick = 0 := by
        simp [LockSt.tick]
      rw [a3] at c1; rw [a1] at c2; rw [a2] at c3
      refine wordinv_of _ ?_ ?_ ?_ ?_ ?_ ?_
      · simp only [List.map_cons, List.nodup_cons]
        refine ⟨?_, h.nodup⟩
        intro hm
        obtain ⟨x, hx, hxi⟩ := List.mem_map.mp hm
        exact hfresh x hx hxi
      · intro x hx
        rcases List.mem_cons.mp hx with rfl | hx
        · refine ⟨fun _ => rfl, by simp, by simp, by simp, by simp, by simp, by simp, by simp⟩
        · exact h.flags x hx
      all_goals (simp only []; omega)
    · exact h
  | poll f t fire =>
    cases hf : findFut s f with
    | none => simp only [next, step, hf]; exact h
    | some fu =>
      by_cases hd : fu.stage = .done
      · simp only [next, step, hf, hd, if_true]; exact h
      · rw [step_poll_eq s f t fire fu hf hd]
        exact poll_word s h f t fire fu hf hd
  | dropFut f =>
    cases hf : findFut s f with
    | none => simp only [next, step, hf]; exact h
    | some fu => exact dropFut_word s h f fu hf
  | try_ g k arc =>
    simp only [next, step]
    split
    · cases k with
      | read =>
        simp only []
        split
        · have c := fun k => nGL_cons { id := g, kind := .read, arc := arc } s.guards k
          have cR := c .read; have cU := c .uread; have cW := c .write
          simp [ind] at cR cU cW
          refine wordinv_of _ h.nodup h.flags ?_ ?_ ?_ ?_ <;> (simp only []; omega)
        · exact h
      | uread =>
        simp only []
        split
        · have c := fun k => nGL_cons { id := g, kind := .uread, arc := arc } s.guards k
          have cR := c .read; have cU := c .uread; have cW := c .write
          simp [ind] at cR cU cW
          refine wordinv_of _ h.nodup h.flags ?_ ?_ ?_ ?_ <;> (simp only []; omega)
        · exact h
      | write =>
        simp only []
        split
        · split
          · have c := fun k => nGL_cons { id := g, kind := .write, arc := arc } s.guards k
            have cR := c .read; have cU := c .uread; have cW := c .write
            simp [ind] at cR cU cW
            refine wordinv_of _ h.nodup h.flags ?_ ?_ ?_ ?_ <;> (simp only []; omega)
          · rename_i h0 _
            refine wordinv_of _ h.nodup h.flags ?_ ?_ ?_ ?_ <;> (simp only [unlock_st]; omega)
        · exact h
    · exact h
  | dropGuard g =>
    cases hg : findGuard s g with
    | none => simp only [next, step, hg]; exact h
    | some gu =>
      simp only [next, step, hg]
      obtain ⟨eR, eU, eW⟩ := nGL_erase3 s.guards g gu (findGuard_find hg)
      have hgm := (findGuard_mem hg).1
      rcases ind_kind_cases gu with ⟨hk, i1, i2, i3⟩ | ⟨hk, i1, i2, i3⟩ | ⟨hk, i1, i2, i3⟩ <;>
        rw [i1] at eR <;> rw [i2] at eU <;> rw [i3] at eW <;> simp only [hk]
      · obtain ⟨w1, w2, w3, w4⟩ := readUnlock_fields s
        refine wordinv_of _ (by simpa [w3] using h.nodup) (by simpa [w3] using h.flags) ?_ ?_ ?_ ?_ <;>
          (simp only [w1, w2, w3, w4]; omega)
      · obtain ⟨w1, w2, w3, w4⟩ := ureadUnlock_fields s
        refine wordinv_of _ (by simpa [w3] using h.nodup) (by simpa [w3] using h.flags) ?_ ?_ ?_ ?_ <;>
          (simp only [w1, w2, w3, w4]; omega)
      · obtain ⟨w1, w2, w3, w4⟩ := writeUnlock_fields s
        refine wordinv_of _ (by simpa [w3] using h.nodup) (by simpa [w3] using h.flags) ?_ ?_ ?_ ?_ <;>
          (simp only [w1, w2, w3, w4]; omega)
  | conv g c =>
    cases hg : findGuard s g with
    | none => simp only [next, step, hg]; exact h
    | some gu =>
      simp only [next, step, hg]
      have hgid := (findGuard_mem hg).2
      subst hgid
      obtain ⟨eR, eU, eW⟩ := nGL_erase3 s.guards gu.id gu (findGuard_find hg)
      have cc := fun k k' => nGL_cons { gu with kind := k' } (s.guards.eraseP (·.id == gu.id)) k
      rcases ind_kind_cases gu with ⟨hk, i1, i2, i3⟩ | ⟨hk, i1, i2, i3⟩ | ⟨hk, i1, i2, i3⟩ <;>
        rw [i1] at eR <;> rw [i2] at eU <;> rw [i3] at eW <;> cases c <;> simp only [hk] <;>
        (try exact h)
      · -- U -> R
        have cR := cc .read .read; have cU := cc .uread .read; have cW := cc .write .read
        simp [ind] at cR cU cW
        refine wordinv_of _ h.nodup h.flags ?_ ?_ ?_ ?_ <;>
          (simp only [convGuard, unlockM_state, unlockM_mst, unlockM_futs]; omega)
      · -- try_upgrade
        split
        · rename_i h2
          have cR := cc .read .write; have cU := cc .uread .write; have cW := cc .write .write
          simp [ind] at cR cU cW
          refine wordinv_of _ h.nodup h.flags ?_ ?_ ?_ ?_ <;> (simp only [convGuard]; omega)
        · exact h
      · -- W -> R
        have cR := cc .read .read; have cU := cc .uread .read; have cW := cc .write .read
        simp [ind] at cR cU cW
        refine wordinv_of _ h.nodup h.flags ?_ ?_ ?_ ?_ <;>
          (simp only [convGuard, notifyNw_state, notifyNw_mst, notifyNw_futs, unlockM_state,
            unlockM_mst, unlockM_futs]; omega)
      · -- W -> U
        have cR := cc .read .uread; have cU := cc .uread .uread; have cW := cc .write .uread
        simp [ind] at cR cU cW
        refine wordinv_of _ h.nodup h.flags ?_ ?_ ?_ ?_ <;>
          (simp only [convGuard, notifyNw_state, notifyNw_mst, notifyNw_futs]; omega)
  | upgrade g f =>
    cases hg : findGuard s g with
    | none => simp only [next, step, hg]; exact h
    | some gu =>
      simp only [next, step, hg]
      split
      · rename_i hc
        simp only [Bool.and_eq_true, decide_eq_true_eq] at hc
        have hk : gu.kind = .uread := hc.1
        have hfresh := fresh_fut hc.2
        obtain ⟨eR, eU, eW⟩ := nGL_erase3 s.guards g gu (findGuard_find hg)
        simp [hk, ind] at eR eU eW
        obtain ⟨c1, c2, c3⟩ := futL_cons { id := f, kind := .upgrade, arc := gu.arc, waker := f * 4 } s.futs
        simp [ind, Fut.isPW, Fut.isPU, LockSt.tick] at c1 c2 c3
        refine wordinv_of _ ?_ ?_ ?_ ?_ ?_ ?_
        · simp only [List.map_cons, List.nodup_cons]
          refine ⟨?_, h.nodup⟩
          intro hm
          obtain ⟨x, hx, hxi⟩ := List.mem_map.mp hm
          exact hfresh x hx hxi
        · intro x hx
          rcases List.mem_cons.mp hx with rfl | hx
          · refine ⟨fun _ => rfl, by simp, by simp, by simp, by simp, by simp, by simp, by simp⟩
          · exact h.flags x hx
        all_goals (simp only []; omega)
      · exact h
  | hclone =>
    simp only [next, step]; split
    · exact ⟨h.nodup, h.flags, h.mword, h.slot, h.word, h.alone⟩
    · exact h
  | hdrop =>
    simp only [next, step]; split
    · exact ⟨h.nodup, h.flags, h.mword, h.slot, h.word, h.alone⟩
    · exact h

theorem run_word (s : Sys) (ops : List Op) (h : WordInv s) : WordInv (run s ops) := by
  induction ops generalizing s with
  | nil => exact h
  | cons op ops ih => exact ih _ (step_word s op h)

theorem reachable_word (ops : List Op) : WordInv (run {} ops) := run_word _ ops init_word

end ALock.RwLock
