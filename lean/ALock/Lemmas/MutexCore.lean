import ALock.MutexCore
import ALock.Lemmas.Event

/-!
Specification lemmas for the mutex core: what one `lockPoll` / `lockDrop` / `unlock` does to the
state word, to the queue and to the wake-up bookkeeping — stated on `Core` alone so that every
primitive embedding a mutex (Mutex, RwLock, Barrier) can reuse them with its own bookkeeping.
No property statements here.
-/

set_option linter.unusedSimpArgs false
set_option linter.unusedVariables false

namespace ALock

/-- contribution of a lock operation to the starved counter (`state >> 1`), times two -/
def LockSt.tick (l : LockSt) : Nat := if l.starved && !l.done then 2 else 0

/-- a lock operation is registered on `lock_ops` exactly while it is slow and not done -/
def LockSt.waiting (l : LockSt) : Bool := l.slow && !l.done

@[simp] theorem Core.polled_st (c : Core) (f : Nat) : (c.polled f).st = c.st := rfl
@[simp] theorem Core.polled_q (c : Core) (f : Nat) : (c.polled f).q = c.q := rfl
@[simp] theorem Core.polled_log (c : Core) (f : Nat) : (c.polled f).log = c.log := rfl
@[simp] theorem Core.polled_woken (c : Core) (f : Nat) :
    (c.polled f).woken = c.woken.filter (· != f) := rfl

@[simp] theorem Core.notify_st (c : Core) (n : Nat) : (c.notify n).st = c.st := rfl
@[simp] theorem Core.notify_q (c : Core) (n : Nat) : (c.notify n).q = Ev.notify false n c.q := rfl
@[simp] theorem Core.notify_woken (c : Core) (n : Nat) :
    (c.notify n).woken = Ev.notifyOwners false n c.q ++ c.woken := rfl
@[simp] theorem Core.listen_st (c : Core) (f : Nat) : (c.listen f).st = c.st := rfl
@[simp] theorem Core.listen_q (c : Core) (f : Nat) : (c.listen f).q = Ev.listen c.q f := rfl
@[simp] theorem Core.listen_woken (c : Core) (f : Nat) : (c.listen f).woken = c.woken := rfl
@[simp] theorem Core.setTask_st (c : Core) (f t : Nat) : (c.setTask f t).st = c.st := rfl
@[simp] theorem Core.setTask_q (c : Core) (f t : Nat) : (c.setTask f t).q = Ev.setTask c.q f t := rfl
@[simp] theorem Core.setTask_woken (c : Core) (f t : Nat) : (c.setTask f t).woken = c.woken := rfl
@[simp] theorem Core.consume_st (c : Core) (f : Nat) : (c.consume f).st = c.st := rfl
@[simp] theorem Core.consume_q (c : Core) (f : Nat) : (c.consume f).q = Ev.erase c.q f := rfl
@[simp] theorem Core.consume_woken (c : Core) (f : Nat) : (c.consume f).woken = c.woken := rfl
@[simp] theorem Core.starve_st (c : Core) : c.starve.st = c.st + 2 := rfl
@[simp] theorem Core.starve_q (c : Core) : c.starve.q = c.q := rfl
@[simp] theorem Core.starve_woken (c : Core) : c.starve.woken = c.woken := rfl
@[simp] theorem Core.dropListener_st (c : Core) (f : Nat) : (c.dropListener f).st = c.st := rfl
@[simp] theorem Core.dropListener_q (c : Core) (f : Nat) : (c.dropListener f).q = Ev.drop c.q f := rfl
@[simp] theorem Core.dropListener_woken (c : Core) (f : Nat) :
    (c.dropListener f).woken = Ev.dropOwners c.q f ++ c.woken := rfl

/-! ### flags -/

theorem lockPoll_flags (c : Core) (l : LockSt) (f t : Nat) (fire : Bool) (hd : l.done = false)
    (hs : l.starved = true → l.slow = true) :
    let r := lockPoll c l f t fire
    (r.l.done = r.ready) ∧ (r.l.starved = true → r.l.slow = true) ∧
    (l.slow = true → r.l.slow = true) ∧ (l.starved = true → r.l.starved = true) ∧
    (r.ready = false → r.l.slow = true) := by
  unfold lockPoll
  cases hsl : l.slow <;> cases hst : l.starved <;> simp_all <;> (repeat' split) <;> simp_all

/-! ### the state word -/

theorem lockPoll_word (c : Core) (l : LockSt) (f t : Nat) (fire : Bool) (hd : l.done = false)
    (hs : l.starved = true → l.slow = true) (hst : l.starved = true → 2 ≤ c.st) :
    let r := lockPoll c l f t fire
    r.c.st + l.tick = c.st + r.l.tick + (if r.ready then 1 else 0) := by
  unfold lockPoll LockSt.tick
  cases hsl : l.slow <;> cases hsv : l.starved <;> simp_all <;> (repeat' split) <;> simp_all <;> omega

/-- a poll that returns `Ready` found the lock bit clear and sets it -/
theorem lockPoll_ready_bit (c : Core) (l : LockSt) (f t : Nat) (fire : Bool) (hd : l.done = false)
    (hs : l.starved = true → l.slow = true) (hst : l.starved = true → 2 ≤ c.st) :
    let r := lockPoll c l f t fire
    (r.ready = true → c.st % 2 = 0 ∧ r.c.st % 2 = 1) ∧ (r.ready = false → r.c.st % 2 = c.st % 2) := by
  unfold lockPoll
  cases hsl : l.slow <;> cases hsv : l.starved <;> simp_all <;> (repeat' split) <;> simp_all <;> omega


/-! ### registration: `f` is registered exactly while it waits; nobody else's registration changes -/

theorem lockPoll_has_self (c : Core) (l : LockSt) (f t : Nat) (fire : Bool) (hd : l.done = false)
    (hs : l.starved = true → l.slow = true) (hh : Ev.has c.q f = l.waiting) :
    let r := lockPoll c l f t fire
    Ev.has r.c.q f = r.l.waiting := by
  unfold lockPoll LockSt.waiting at *
  cases hsl : l.slow <;> cases hsv : l.starved <;> simp_all <;> (repeat' split) <;>
    (try simp_all [Ev.has_setTask, Ev.has_listen, Ev.has_erase, Ev.has_notify])

theorem lockPoll_has_other (c : Core) (l : LockSt) (f t : Nat) (fire : Bool) (g : Nat) (hg : g ≠ f) :
    let r := lockPoll c l f t fire
    Ev.has r.c.q g = Ev.has c.q g := by
  have h1 : (f == g) = false := by simp [Ne.symm hg]
  have h2 : (g != f) = true := by simp [hg]
  unfold lockPoll
  simp only []
  (repeat' split) <;>
    simp [Ev.has_setTask, Ev.has_listen, Ev.has_erase, Ev.has_notify, h1, h2]

/-! ### wake-up bookkeeping -/

theorem lockPoll_wake (c : Core) (l : LockSt) (f t : Nat) (fire : Bool)
    (hw : WakeOKExcept f c.q c.woken) (ht : AllTask c.q) (hh : l.slow = false → Ev.has c.q f = false) :
    let r := lockPoll c l f t fire
    WakeOK r.c.q r.c.woken ∧ AllTask r.c.q := by
  have hte : AllTaskExcept f c.q := ht.toExcept
  have hwE : WakeOKExcept f (Ev.erase c.q f) c.woken := Ev.erase_wakeOKExcept hw
  have htE : AllTaskExcept f (Ev.erase c.q f) := Ev.erase_allTaskExcept hte
  have hnl : Ev.isNotified (Ev.listen (Ev.erase c.q f) f) f = false :=
    Ev.isNotified_listen_of_erased _ _
  have hw1 := Ev.listen_wakeOKExcept (f := f)
    (Ev.notify_wakeOKExcept f false 1 _ _ hwE htE)
  have ht1 := Ev.listen_allTaskExcept (f := f) (Ev.notify_allTaskExcept f false 1 _ htE)
  have hn1 : Ev.isNotified (Ev.listen (Ev.notify false 1 (Ev.erase c.q f)) f) f = false :=
    Ev.isNotified_listen_fresh _ _ (by rw [Ev.has_notify]; exact Ev.has_erase_self _ _)
  have hw2 := Ev.notify_wakeOKExcept f false 1 _ _ hw1 ht1
  have ht2 := Ev.notify_allTaskExcept f false 1 _ ht1
  have pend : ∀ q w, WakeOKExcept f q w → AllTaskExcept f q → Ev.isNotified q f = false →
      WakeOK (Ev.setTask q f t) w ∧ AllTask (Ev.setTask q f t) :=
    fun q w h1 h2 h3 => ⟨Ev.setTask_wakeOK_of_except h1 h3, Ev.setTask_allTask_of_except h2⟩
  unfold lockPoll
  by_cases hsl : l.slow = true
  · simp only [hsl, Bool.not_true, Bool.false_eq_true, if_false]
    split
    · rename_i hn; simp only [Bool.not_eq_true'] at hn
      exact pend _ _ hw hte hn
    · by_cases hsv : l.starved = true
      · simp only [hsv, Bool.not_true, Bool.false_eq_true, if_false]
        split
        · exact ⟨Ev.erase_wakeOK_of_except hw, Ev.erase_allTask_of_except hte⟩
        · exact pend _ _ (Ev.listen_wakeOKExcept hwE) (Ev.listen_allTaskExcept htE) hnl
      · simp only [hsv, Bool.not_false, if_true]
        split
        · exact ⟨Ev.erase_wakeOK_of_except hw, Ev.erase_allTask_of_except hte⟩
        · split
          · split
            · exact pend _ _ (Ev.listen_wakeOKExcept hwE) (Ev.listen_allTaskExcept htE) hnl
            · exact pend _ _ (Ev.listen_wakeOKExcept hwE) (Ev.listen_allTaskExcept htE) hnl
          · split
            · exact pend _ _ hw1 ht1 hn1
            · split
              · exact ⟨Ev.erase_wakeOK_of_except hw2, Ev.erase_allTask_of_except ht2⟩
              · rename_i hn; simp only [Bool.not_eq_true] at hn
                exact pend _ _ hw2 ht2 hn
  · simp only [Bool.not_eq_true] at hsl
    have hnf : Ev.has c.q f = false := hh hsl
    have hwf : WakeOK c.q c.woken := by
      intro e he hn
      exact hw e he hn (Ev.has_false_iff.mp hnf e he)
    simp only [hsl, Bool.not_false, if_true]
    split
    · exact ⟨hwf, ht⟩
    · have hfresh := Ev.isNotified_listen_fresh _ _ hnf
      split
      · exact pend _ _ (Ev.listen_wakeOKExcept hwf.toExcept) (Ev.listen_allTaskExcept hte) hfresh
      · exact pend _ _ (Ev.listen_wakeOKExcept hwf.toExcept) (Ev.listen_allTaskExcept hte) hfresh

/-! ### the baton: an unlocked mutex with registered waiters has a notified entry -/

def Baton (c : Core) : Prop := c.st % 2 = 0 → c.q ≠ [] → 0 < cnt c.q

theorem cnt_pend (q : List Entry) (f t : Nat) : cnt (Ev.setTask (Ev.listen q f) f t) = cnt q := by
  rw [Ev.cnt_setTask, Ev.cnt_listen]

theorem lockPoll_baton (c : Core) (l : LockSt) (f t : Nat) (fire : Bool) (hb : Baton c)
    (hd : l.done = false) (hst : l.starved = true → 2 ≤ c.st)
    (hq : l.slow = false → c.st % 2 = 0 → 2 ≤ c.st → c.q ≠ []) :
    let r := lockPoll c l f t fire
    Baton r.c := by
  unfold lockPoll Baton at *
  by_cases hsl : l.slow = true
  · simp only [hsl, Bool.not_true, Bool.false_eq_true, if_false]
    split
    · simp only [Core.setTask_st, Core.setTask_q, Ev.cnt_setTask]
      intro h1 h2
      exact hb h1 (by intro hc; apply h2; simp [hc, Ev.setTask])
    · by_cases hsv : l.starved = true
      · have h2 := hst hsv
        simp only [hsv, Bool.not_true, Bool.false_eq_true, if_false]
        split
        · simp; omega
        · simp; omega
      · simp only [hsv, Bool.not_false, if_true]
        split
        · simp_all
        · split
          · split <;> simp_all
          · split
            · simp; omega
            · split
              · simp; omega
              · intro _ _
                simp only [Core.setTask_q, Ev.cnt_setTask, Core.notify_q]
                exact Ev.notify_cnt_pos false 1 _ (by omega) (Ev.listen_ne_nil _ _)
  · simp only [Bool.not_eq_true] at hsl
    simp only [hsl, Bool.not_false, if_true]
    split
    · simp
    · split
      · simp_all
      · rename_i h0 h1
        simp only [Core.setTask_st, Core.starve_st, Core.listen_st, Core.setTask_q, Core.starve_q,
          Core.listen_q, cnt_pend]
        intro hpar _
        have hpar' : c.st % 2 = 0 := by omega
        exact hb hpar' (hq hsl hpar' (by omega))


/-- a poll that returns `Pending` leaves the waker it was given in `f`'s listener -/
theorem lockPoll_pending_task (c : Core) (l : LockSt) (f t : Nat) (fire : Bool) :
    let r := lockPoll c l f t fire
    r.ready = false → ∀ e ∈ r.c.q, e.owner = f → e.task = some t := by
  unfold lockPoll
  simp only []
  (repeat' split) <;> intro hr <;> (try (simp at hr)) <;>
    (intro e he ho; exact Ev.setTask_task he ho)

/-! ### `lockDrop`, `unlock` -/

theorem lockDrop_word (c : Core) (l : LockSt) (f : Nat) (hst : l.tick = 2 → 2 ≤ c.st)
    (hs : l.starved = true → l.slow = true) :
    (lockDrop c l f).st + l.tick = c.st := by
  unfold lockDrop LockSt.tick at *
  cases hsl : l.slow <;> cases hsv : l.starved <;> cases hdn : l.done <;> simp_all <;> omega

theorem lockDrop_has (c : Core) (l : LockSt) (f g : Nat) :
    Ev.has (lockDrop c l f).q g = (Ev.has c.q g && g != f) := by
  unfold lockDrop
  split <;> simp [Ev.has_drop]

theorem lockDrop_wake (c : Core) (l : LockSt) (f : Nat) (hw : WakeOKExcept f c.q c.woken)
    (ht : AllTask c.q) :
    WakeOK (lockDrop c l f).q (lockDrop c l f).woken ∧ AllTask (lockDrop c l f).q := by
  unfold lockDrop
  split <;> exact ⟨Ev.drop_wakeOK f (wakeOK_cons_of_except hw) ht, Ev.drop_allTask f ht⟩

theorem lockDrop_baton (c : Core) (l : LockSt) (f : Nat) (hb : Baton c)
    (hst : l.tick = 2 → 2 ≤ c.st) : Baton (lockDrop c l f) := by
  have key : ∀ c' : Core, c'.q = c.q → c'.st % 2 = c.st % 2 → Baton (c'.dropListener f) := by
    intro c' hq hp h1 h2
    simp only [Core.dropListener_st, Core.dropListener_q] at h1 h2 ⊢
    rw [hq] at h2 ⊢
    have hne : c.q ≠ [] := by
      intro hc; apply h2; simp [hc, Ev.drop, Ev.isNotified, Ev.erase]
    exact Ev.drop_cnt_pos f (hb (by omega) hne) h2
  unfold lockDrop
  split
  · rename_i h
    have : l.tick = 2 := by
      simp only [Bool.and_eq_true, Bool.not_eq_true'] at h
      simp [LockSt.tick, h.2, h.1.2]
    have := hst this
    exact key _ rfl (by simp; omega)
  · exact key _ rfl rfl

theorem unlock_st (c : Core) : c.unlock.st = c.st - 1 := rfl

theorem unlock_has (c : Core) (g : Nat) : Ev.has c.unlock.q g = Ev.has c.q g := by
  simp [Core.unlock, Ev.has_notify]

theorem unlock_wake (c : Core) (hw : WakeOK c.q c.woken) (ht : AllTask c.q) :
    WakeOK c.unlock.q c.unlock.woken ∧ AllTask c.unlock.q :=
  ⟨Ev.notify_wakeOK false 1 c.q c.woken hw ht, Ev.notify_allTask false 1 c.q ht⟩

theorem unlock_baton (c : Core) : Baton c.unlock := by
  intro _ h2
  simp only [Core.unlock, Core.notify_q] at h2 ⊢
  have : c.q ≠ [] := by intro hc; apply h2; rw [hc]; exact Ev.notify_nil _ _
  exact Ev.notify_cnt_pos false 1 c.q (by omega) this

end ALock
