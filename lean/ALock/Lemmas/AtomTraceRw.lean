import ALock.Lemmas.AtomTraceSem
import ALock.Lemmas.RwLockWord

/-!
# The RwLock step's new words are the results of its atomic operations

`RwLock.stepAtoms` lists the atomic operations of one model step on the two words of a `RawRwLock`
(`w = 0`: `state`, `w = 1`: the inner mutex's word); the differential check compares that list with
what the real crate executed.  Here: for each word, replaying the step's operations on that word is
consistent and ends in the model's new value of the word.
-/

namespace ALock

/-- the operations on word `w`, relabelled as operations on "the" word -/
def Atom.proj (w : Nat) (l : List Atom) : List Atom :=
  (l.filter (·.w == w)).map fun x => { x with w := 0 }

/-- replaying the operations of `l` on word `w`, which holds `st`, is consistent and yields `st'` -/
def Atom.wordOK (w st st' : Nat) (l : List Atom) : Prop :=
  Atom.consistent st (Atom.proj w l) = true ∧ Atom.run st (Atom.proj w l) = st'

@[simp] theorem Atom.proj_nil (w : Nat) : Atom.proj w [] = [] := rfl
theorem Atom.proj_append (w : Nat) (xs ys : List Atom) :
    Atom.proj w (xs ++ ys) = Atom.proj w xs ++ Atom.proj w ys := by
  simp [Atom.proj]

theorem Atom.proj_cons (w : Nat) (x : Atom) (xs : List Atom) :
    Atom.proj w (x :: xs) = (if x.w = w then [{ x with w := 0 }] else []) ++ Atom.proj w xs := by
  by_cases h : x.w = w <;> simp [Atom.proj, h]

theorem Atom.wordOK_nil (w st : Nat) : Atom.wordOK w st st [] := by
  simp [Atom.wordOK, Atom.consistent, Atom.run]

theorem Atom.wordOK_append {w st st1 st2 : Nat} {xs ys : List Atom}
    (h1 : Atom.wordOK w st st1 xs) (h2 : Atom.wordOK w st1 st2 ys) :
    Atom.wordOK w st st2 (xs ++ ys) := by
  obtain ⟨a, b⟩ := h1
  obtain ⟨c, d⟩ := h2
  simp [Atom.wordOK, Atom.proj_append, Atom.consistent_append, Atom.run_append, a, b, c, d]

/-- operations on another word leave this one alone -/
theorem Atom.wordOK_other {w w' st : Nat} {l : List Atom} (h : ∀ x ∈ l, x.w = w') (hw : w' ≠ w) :
    Atom.wordOK w st st l := by
  have : Atom.proj w l = [] := by
    simp only [Atom.proj, List.map_eq_nil_iff, List.filter_eq_nil_iff]
    intro x hx
    simp [h x hx, hw]
  simp [Atom.wordOK, this, Atom.consistent, Atom.run]

theorem onW_w (w : Nat) (l : List Atom) : ∀ x ∈ onW w l, x.w = w := by
  intro x hx
  simp only [onW, List.mem_map] at hx
  obtain ⟨y, _, rfl⟩ := hx
  rfl

theorem Atom.proj_onW (w : Nat) (l : List Atom) (h : ∀ x ∈ l, x.w = 0) :
    Atom.proj w (onW w l) = l := by
  induction l with
  | nil => rfl
  | cons x xs ih =>
    have hx : x.w = 0 := h x (by simp)
    have := ih (fun y hy => h y (by simp [hy]))
    simp only [onW, List.map_cons] at this ⊢
    rw [Atom.proj_cons]
    simp only [if_true, this, List.singleton_append, List.cons.injEq, and_true]
    cases x
    simp_all

theorem Atom.wordOK_onW {w st st' : Nat} {l : List Atom} (h : ∀ x ∈ l, x.w = 0)
    (hc : Atom.consistent st l = true) (hr : Atom.run st l = st') :
    Atom.wordOK w st st' (onW w l) := by
  simp [Atom.wordOK, Atom.proj_onW w l h, hc, hr]

theorem Atom.wordOK_w0 {st st' : Nat} {l : List Atom} (h : ∀ x ∈ l, x.w = 0)
    (hc : Atom.consistent st l = true) (hr : Atom.run st l = st') :
    Atom.wordOK 0 st st' l := by
  have : onW 0 l = l := by
    simp only [onW]
    conv => rhs; rw [← List.map_id l]
    apply List.map_congr_left
    intro x hx
    have := h x hx
    cases x
    simp_all
  rw [← this]
  exact Atom.wordOK_onW h hc hr

theorem atomsOfBr_w0 (st br : Nat) : ∀ x ∈ atomsOfBr st br, x.w = 0 := by
  have h : (atomsOfBr st br).all (fun x => x.w == 0) = true := by
    unfold atomsOfBr
    split <;> rfl
  intro x hx
  simpa using (List.all_eq_true.mp h) x hx


theorem lockAtoms_w0 (c : Core) (l : LockSt) (f t : Nat) (fire : Bool) :
    ∀ x ∈ lockAtoms c l f t fire, x.w = 0 := atomsOfBr_w0 _ _

theorem lockDropAtoms_w0 (c : Core) (l : LockSt) : ∀ x ∈ lockDropAtoms c l, x.w = 0 := by
  intro x hx
  unfold lockDropAtoms at hx
  split at hx
  · simp at hx; subst hx; rfl
  · simp at hx

theorem lockDrop_atoms_word (c : Core) (l : LockSt) (f : Nat) :
    Atom.consistent c.st (lockDropAtoms c l) = true ∧
    Atom.run c.st (lockDropAtoms c l) = (lockDrop c l f).st := by
  unfold lockDropAtoms lockDrop
  split <;> simp [Atom.consistent, Atom.run, Core.dropListener]

@[simp] theorem Core.unlock_st (c : Core) : c.unlock.st = c.st - 1 := rfl

end ALock

namespace ALock.RwLock

theorem all_w0 {l : List Atom} (h : l.all (fun x => x.w == 0) = true) : ∀ x ∈ l, x.w = 0 := by
  intro x hx
  simpa using (List.all_eq_true.mp h) x hx

theorem readAtoms_w0 (s : Sys) (fu : Fut) : ∀ x ∈ readAtoms s fu, x.w = 0 := by
  apply all_w0
  unfold readAtoms
  simp only []
  (repeat' split) <;> rfl

@[simp] theorem ld_ok (o : String) (st : Nat) : (ld o st).okOn st = true := by simp [ld, Atom.okOn]
@[simp] theorem ld_apply (o : String) (v st : Nat) : (ld o v).apply st = st := by simp [ld, Atom.apply]
@[simp] theorem casR_ok (c st : Nat) : (casR c st).okOn st = true := by
  by_cases h : st = c <;> simp [casR, Atom.okOn, h]
  omega
@[simp] theorem casR_apply (c st : Nat) : (casR c st).apply st = if st = c then st + 2 else st := by
  by_cases h : st = c <;> simp [casR, Atom.apply, h]
  omega
@[simp] theorem cas0W_ok (st : Nat) : (cas0W st).okOn st = true := by
  by_cases h : st = 0 <;> simp [cas0W, Atom.okOn, h]
  omega
@[simp] theorem cas0W_apply (st : Nat) : (cas0W st).apply st = if st = 0 then 1 else st := by
  by_cases h : st = 0 <;> simp [cas0W, Atom.apply, h]
@[simp] theorem cas21_ok (st : Nat) : (cas21 st).okOn st = true := by
  by_cases h : st = 2 <;> simp [cas21, Atom.okOn, h]
  omega
@[simp] theorem cas21_apply (st : Nat) : (cas21 st).apply st = if st = 2 then 1 else st := by
  by_cases h : st = 2 <;> simp [cas21, Atom.apply, h]
@[simp] theorem forW_ok (st : Nat) : (forW st).okOn st = true := by simp [forW, Atom.okOn]
@[simp] theorem forW_apply (v st : Nat) :
    (forW v).apply st = if st % 2 = 0 then st + 1 else st := by simp [forW, Atom.apply]
@[simp] theorem fandW_ok (st : Nat) : (fandW st).okOn st = true := by simp [fandW, Atom.okOn]
@[simp] theorem fandW_apply (v st : Nat) : (fandW v).apply st = st - st % 2 := by
  simp [fandW, Atom.apply]
@[simp] theorem fsubR_ok (n st : Nat) : (fsubR n st).okOn st = true := by simp [fsubR, Atom.okOn]
@[simp] theorem fsubR_apply (n v st : Nat) : (fsubR n v).apply st = st - n := by
  simp [fsubR, Atom.apply]
@[simp] theorem faddR_ok (n st : Nat) : (faddR n st).okOn st = true := by simp [faddR, Atom.okOn]
@[simp] theorem faddR_apply (n v st : Nat) : (faddR n v).apply st = st + n := by
  simp [faddR, Atom.apply]

/-- `RawRead::poll` on the state word -/
theorem pollRead_atoms (s : Sys) (fu : Fut) (t : Nat) :
    Atom.wordOK 0 s.state (pollRead s fu t).s.state (readAtoms s fu) := by
  apply Atom.wordOK_w0 (readAtoms_w0 s fu)
  · unfold readAtoms
    simp only []
    (repeat' split) <;>
      first
      | (simp_all [Atom.consistent]; done)
      | (have hne : ¬ s.state = fu.seen := by omega
         simp_all [Atom.consistent])
  · unfold pollRead readAtoms
    simp only []
    (repeat' split) <;>
      first
      | (simp_all [Atom.run]; done)
      | (have hne : ¬ s.state = fu.seen := by omega
         simp_all [Atom.run])


theorem loads_w0 : ∀ {l : List Atom}, l.all (fun x => x.w == 0 && x.op == .load) = true →
    ∀ x ∈ l, x.w = 0 := by
  intro l h x hx
  have := (List.all_eq_true.mp h) x hx
  simp at this
  exact this.1

/-- a list of loads that each return the word's value leaves it alone -/
theorem loads_ok (st : Nat) : ∀ (l : List Atom),
    l.all (fun x => x.w == 0 && x.op == .load && x.ret == .val st) = true →
    Atom.consistent st l = true ∧ Atom.run st l = st
  | [], _ => by simp [Atom.consistent, Atom.run]
  | x :: xs, h => by
    simp only [List.all_cons, Bool.and_eq_true, beq_iff_eq] at h
    obtain ⟨⟨⟨hw, ho⟩, hr⟩, hxs⟩ := h
    have ha : x.apply st = st := by simp [Atom.apply, ho]
    have hk : x.okOn st = true := by simp [Atom.okOn, ho, hr, hw]
    have := loads_ok st xs (by simpa using hxs)
    simp [Atom.consistent, Atom.run, ha, hk, this]

theorem loads_wordOK {st : Nat} {l : List Atom}
    (h : l.all (fun x => x.w == 0 && x.op == .load && x.ret == .val st) = true) :
    Atom.wordOK 0 st st l ∧ ∀ m, Atom.wordOK 1 m m l := by
  have hw : ∀ x ∈ l, x.w = 0 := by
    intro x hx
    have := (List.all_eq_true.mp h) x hx
    simp at this
    exact this.1.1
  obtain ⟨a, b⟩ := loads_ok st l h
  exact ⟨Atom.wordOK_w0 hw a b, fun m => Atom.wordOK_other hw (by decide)⟩

theorem waitReadersAtoms_loads (s : Sys) (fu : Fut) :
    (waitReadersAtoms s fu).all (fun x => x.w == 0 && x.op == .load && x.ret == .val s.state) = true := by
  unfold waitReadersAtoms
  simp only []
  (repeat' split) <;> simp_all [ld]

theorem upgradeAtoms_loads (s : Sys) (fu : Fut) :
    (upgradeAtoms s fu).all (fun x => x.w == 0 && x.op == .load && x.ret == .val s.state) = true := by
  unfold upgradeAtoms
  simp only []
  (repeat' split) <;> simp_all [ld]

theorem ureadTail_word (st : Nat) :
    Atom.wordOK 0 st (st + 2) (ureadTail st) ∧ ∀ m, Atom.wordOK 1 m m (ureadTail st) := by
  have hw : ∀ x ∈ ureadTail st, x.w = 0 := all_w0 rfl
  refine ⟨Atom.wordOK_w0 hw ?_ ?_, fun m => Atom.wordOK_other hw (by decide)⟩ <;>
    simp [ureadTail, Atom.consistent, Atom.run]

/-- the inner mutex's poll, on both words -/
theorem lockAtoms_word (s : Sys) (l : LockSt) (f t : Nat) (fire : Bool) :
    Atom.wordOK 0 s.state s.state (onW 1 (lockAtoms s.m l f t fire)) ∧
    Atom.wordOK 1 s.m.st (lockPoll s.m l f t fire).c.st (onW 1 (lockAtoms s.m l f t fire)) := by
  obtain ⟨a, b⟩ := lockPoll_atoms_word s.m l f t fire
  exact ⟨Atom.wordOK_other (onW_w 1 _) (by decide), Atom.wordOK_onW (lockAtoms_w0 s.m l f t fire) a b⟩

theorem pollFut_atoms (s : Sys) (fu : Fut) (t : Nat) (fire : Bool) :
    Atom.wordOK 0 s.state (pollFut s fu t fire).s.state (pollAtoms s fu t fire) ∧
    Atom.wordOK 1 s.m.st (pollFut s fu t fire).s.m.st (pollAtoms s fu t fire) := by
  unfold pollFut pollAtoms
  cases hk : fu.kind with
  | read =>
    simp only []
    refine ⟨pollRead_atoms s fu t, ?_⟩
    rw [(pollRead_eff s fu t).2.1]
    exact Atom.wordOK_other (readAtoms_w0 s fu) (by decide)
  | uread =>
    simp only []
    obtain ⟨_, hr, hm, _, h1, h2⟩ := pollUread_eff s fu t fire
    obtain ⟨a0, a1⟩ := lockAtoms_word s fu.l fu.id t fire
    obtain ⟨t0, t1⟩ := ureadTail_word s.state
    rw [hm]
    cases hrd : (lockPoll s.m fu.l fu.id t fire).ready with
    | true =>
      simp only [if_true]
      rw [(h1 hrd).1]
      exact ⟨Atom.wordOK_append a0 t0, Atom.wordOK_append a1 (t1 _)⟩
    | false =>
      simp only [Bool.false_eq_true, if_false]
      rw [(h2 hrd).1]
      exact ⟨Atom.wordOK_append a0 (Atom.wordOK_nil ..), Atom.wordOK_append a1 (Atom.wordOK_nil ..)⟩
  | write =>
    simp only []
    obtain ⟨_, hi, hn⟩ := pollWrite_eff s fu t fire
    cases hst : fu.stage with
    | init =>
      simp only []
      obtain ⟨hf, ht⟩ := hi hst
      obtain ⟨a0, a1⟩ := lockAtoms_word s fu.l fu.id t fire
      cases hrd : (lockPoll s.m fu.l fu.id t fire).ready with
      | false =>
        simp only [Bool.false_eq_true, if_false]
        obtain ⟨_, hm, _, hs, _⟩ := hf hrd
        rw [hm, hs]
        exact ⟨Atom.wordOK_append a0 (Atom.wordOK_nil ..), Atom.wordOK_append a1 (Atom.wordOK_nil ..)⟩
      | true =>
        simp only [if_true]
        obtain ⟨hm, _, hs, _⟩ := ht hrd
        rw [hm, hs]
        have hw : ∀ x ∈ [forW s.state, ld "Acquire" (s.state + (1 - s.state % 2))], x.w = 0 :=
          all_w0 rfl
        refine ⟨Atom.wordOK_append a0 (Atom.wordOK_w0 hw ?_ ?_),
          Atom.wordOK_append a1 (Atom.wordOK_other hw (by decide))⟩
        · have : (if s.state % 2 = 0 then s.state + 1 else s.state) = s.state + (1 - s.state % 2) := by
            split <;> omega
          simp [Atom.consistent, this]
        · simp [Atom.run]; split <;> omega
    | waitReaders =>
      simp only []
      obtain ⟨hm, _, hs, _⟩ := hn (by simp [hst])
      obtain ⟨b0, b1⟩ := loads_wordOK (waitReadersAtoms_loads s fu)
      rw [hm, hs]
      exact ⟨b0, b1 _⟩
    | done =>
      simp only []
      obtain ⟨hm, _, hs, _⟩ := hn (by simp [hst])
      obtain ⟨b0, b1⟩ := loads_wordOK (waitReadersAtoms_loads s fu)
      rw [hm, hs]
      exact ⟨b0, b1 _⟩
  | upgrade =>
    simp only []
    obtain ⟨_, hm, _, hs, _⟩ := pollUpgrade_eff s fu t
    obtain ⟨b0, b1⟩ := loads_wordOK (upgradeAtoms_loads s fu)
    rw [hm, hs]
    exact ⟨b0, b1 _⟩


theorem writeUnlock_state (s : Sys) : s.writeUnlock.state = s.state - s.state % 2 := rfl
theorem writeUnlock_mst (s : Sys) : s.writeUnlock.m.st = s.m.st - 1 := rfl
theorem readUnlock_state (s : Sys) : s.readUnlock.state = s.state - 2 := (readUnlock_fields s).1
theorem readUnlock_mst (s : Sys) : s.readUnlock.m.st = s.m.st := (readUnlock_fields s).2.1

/-- both words at once -/
def wordsOK (s s' : Sys) (l : List Atom) : Prop :=
  Atom.wordOK 0 s.state s'.state l ∧ Atom.wordOK 1 s.m.st s'.m.st l

theorem wordsOK_nil {s s' : Sys} (h0 : s'.state = s.state) (h1 : s'.m.st = s.m.st) :
    wordsOK s s' [] := by
  unfold wordsOK
  rw [h0, h1]
  exact ⟨Atom.wordOK_nil .., Atom.wordOK_nil ..⟩

theorem w0_single {x : Atom} {st st' m : Nat} (hw : x.w = 0) (hk : x.okOn st = true)
    (ha : x.apply st = st') : Atom.wordOK 0 st st' [x] ∧ Atom.wordOK 1 m m [x] := by
  have hw' : ∀ y ∈ [x], y.w = 0 := by simp [hw]
  exact ⟨Atom.wordOK_w0 hw' (by simp [Atom.consistent, hk]) (by simp [Atom.run, ha]),
    Atom.wordOK_other hw' (by decide)⟩

theorem munlock_word (s : Sys) :
    Atom.wordOK 0 s.state s.state (munlock s) ∧ Atom.wordOK 1 s.m.st (s.m.st - 1) (munlock s) := by
  unfold munlock
  refine ⟨Atom.wordOK_other (onW_w 1 _) (by decide), Atom.wordOK_onW (all_w0 rfl) ?_ ?_⟩ <;>
    simp [unlockAtoms, Atom.consistent, Atom.run]

theorem munlock_congr (s s' : Sys) (h : s'.m.st = s.m.st) : munlock s' = munlock s := by
  simp [munlock, unlockAtoms, h]

theorem writeUnlockAtoms_word (s : Sys) :
    Atom.wordOK 0 s.state (s.state - s.state % 2) (writeUnlockAtoms s) ∧
    Atom.wordOK 1 s.m.st (s.m.st - 1) (writeUnlockAtoms s) := by
  unfold writeUnlockAtoms
  obtain ⟨a, b⟩ := w0_single (x := fandW s.state) (st := s.state) (m := s.m.st) rfl
    (fandW_ok _) (fandW_apply _ _)
  obtain ⟨c, d⟩ := munlock_word s
  refine ⟨Atom.wordOK_append a ?_, Atom.wordOK_append b d⟩
  exact Atom.wordOK_other (onW_w 1 _) (by decide)

theorem lockDrop_word (s : Sys) (l : LockSt) (f : Nat) :
    Atom.wordOK 0 s.state s.state (onW 1 (lockDropAtoms s.m l)) ∧
    Atom.wordOK 1 s.m.st (lockDrop s.m l f).st (onW 1 (lockDropAtoms s.m l)) := by
  obtain ⟨a, b⟩ := lockDrop_atoms_word s.m l f
  exact ⟨Atom.wordOK_other (onW_w 1 _) (by decide), Atom.wordOK_onW (lockDropAtoms_w0 s.m l) a b⟩

theorem dropFut_atoms (s : Sys) (fu : Fut) : wordsOK s (dropFutS s fu) (dropFutAtoms s fu) := by
  unfold dropFutS dropFutAtoms wordsOK
  cases hk : fu.kind with
  | read => simp only []; exact ⟨Atom.wordOK_nil .., Atom.wordOK_nil ..⟩
  | uread =>
    simp only []
    split
    · exact ⟨Atom.wordOK_nil .., Atom.wordOK_nil ..⟩
    · exact lockDrop_word s fu.l fu.id
  | write =>
    simp only []
    cases hst : fu.stage with
    | init => exact lockDrop_word s fu.l fu.id
    | waitReaders =>
      simp only [dropNr_state, dropNr_mst, writeUnlock_state, writeUnlock_mst]
      exact writeUnlockAtoms_word s
    | done => exact ⟨Atom.wordOK_nil .., Atom.wordOK_nil ..⟩
  | upgrade =>
    simp only []
    split
    · exact ⟨Atom.wordOK_nil .., Atom.wordOK_nil ..⟩
    · simp only [dropNr_state, dropNr_mst, writeUnlock_state, writeUnlock_mst]
      exact writeUnlockAtoms_word s


theorem wordsOK_append {s s1 s2 : Sys} {xs ys : List Atom}
    (h1 : wordsOK s s1 xs) (h2 : wordsOK s1 s2 ys) : wordsOK s s2 (xs ++ ys) :=
  ⟨Atom.wordOK_append h1.1 h2.1, Atom.wordOK_append h1.2 h2.2⟩

/-- `wordsOK` only looks at the two words -/
theorem wordsOK_congr {s s' t t' : Sys} {l : List Atom} (h : wordsOK s s' l)
    (a : t.state = s.state) (b : t.m.st = s.m.st) (c : t'.state = s'.state) (d : t'.m.st = s'.m.st) :
    wordsOK t t' l := by
  unfold wordsOK at *
  rw [a, b, c, d]
  exact h

/-- **the step's new words are the results of its atomic operations**, for every operation of the
RwLock model, on the state word and on the inner mutex's word -/
theorem step_atoms_words (s : Sys) (op : Op) : wordsOK s (next s op) (stepAtoms s op) := by
  cases op with
  | start f k arc =>
    simp only [stepAtoms, next, step]
    split
    · split
      · exact w0_single (x := ld "Acquire" s.state) rfl (ld_ok ..) (ld_apply ..)
      · exact wordsOK_nil rfl rfl
    · exact wordsOK_nil rfl rfl
  | poll f t fire =>
    simp only [stepAtoms]
    cases hf : findFut s f with
    | none => simp only [next, step, hf]; exact wordsOK_nil rfl rfl
    | some fu =>
      simp only []
      by_cases hd : fu.stage = .done
      · simp only [next, step, hf, hd, if_true]; exact wordsOK_nil rfl rfl
      · rw [step_poll_eq s f t fire fu hf hd]
        simp only [hd, if_false]
        have := pollFut_atoms { s with m := s.m.polled f } fu t fire
        refine wordsOK_congr this rfl rfl ?_ ?_ <;> (unfold afterPoll; simp only []; split <;> rfl)
  | dropFut f =>
    simp only [stepAtoms, next, step]
    cases hf : findFut s f with
    | none => exact wordsOK_nil rfl rfl
    | some fu =>
      simp only []
      exact wordsOK_congr (dropFut_atoms { s with m := s.m.polled f } fu) rfl rfl rfl rfl
  | try_ g k arc =>
    simp only [stepAtoms, next, step]
    split
    · cases k with
      | read =>
        simp only []
        split
        · have hw : ∀ x ∈ [ld "Acquire" s.state, casR s.state s.state], x.w = 0 := all_w0 rfl
          exact ⟨Atom.wordOK_w0 hw (by simp [Atom.consistent]) (by simp [Atom.run]),
            Atom.wordOK_other hw (by decide)⟩
        · exact w0_single (x := ld "Acquire" s.state) rfl (ld_ok ..) (ld_apply ..)
      | uread =>
        simp only []
        have hm : Atom.wordOK 0 s.state s.state (onW 1 (tryLockAtoms s.m)) ∧
            Atom.wordOK 1 s.m.st (if s.m.st = 0 then 1 else s.m.st) (onW 1 (tryLockAtoms s.m)) := by
          refine ⟨Atom.wordOK_other (onW_w 1 _) (by decide), Atom.wordOK_onW (all_w0 rfl) ?_ ?_⟩ <;>
            simp [tryLockAtoms, Atom.consistent, Atom.run]
        obtain ⟨t0, t1⟩ := ureadTail_word s.state
        split
        · rename_i h0
          have e : (if s.m.st = 0 then 1 else s.m.st) = 1 := by simp [h0]
          rw [e] at hm
          exact ⟨Atom.wordOK_append hm.1 t0, Atom.wordOK_append hm.2 (t1 _)⟩
        · rename_i h0
          have e : (if s.m.st = 0 then 1 else s.m.st) = s.m.st := by simp [h0]
          rw [e] at hm
          exact ⟨Atom.wordOK_append hm.1 (Atom.wordOK_nil ..), Atom.wordOK_append hm.2 (Atom.wordOK_nil ..)⟩
      | write =>
        simp only []
        have hm : Atom.wordOK 0 s.state s.state (onW 1 (tryLockAtoms s.m)) ∧
            Atom.wordOK 1 s.m.st (if s.m.st = 0 then 1 else s.m.st) (onW 1 (tryLockAtoms s.m)) := by
          refine ⟨Atom.wordOK_other (onW_w 1 _) (by decide), Atom.wordOK_onW (all_w0 rfl) ?_ ?_⟩ <;>
            simp [tryLockAtoms, Atom.consistent, Atom.run]
        by_cases h0 : s.m.st = 0
        · have e : (if s.m.st = 0 then 1 else s.m.st) = 1 := by simp [h0]
          rw [e] at hm
          simp only [h0, if_true]
          obtain ⟨c0, c1⟩ := w0_single (x := cas0W s.state) (st := s.state) (m := 1) rfl
            (cas0W_ok _) (cas0W_apply _)
          by_cases hs : s.state = 0
          · have e2 : (if s.state = 0 then 1 else s.state) = 1 := by simp [hs]
            rw [e2] at c0
            rw [if_pos hs, if_pos hs, List.append_nil]
            exact ⟨Atom.wordOK_append hm.1 c0, Atom.wordOK_append hm.2 c1⟩
          · have e2 : (if s.state = 0 then 1 else s.state) = s.state := by simp [hs]
            rw [e2] at c0
            rw [if_neg hs, if_neg hs]
            have hu : Atom.wordOK 0 s.state s.state (onW 1 [fsub1 1]) ∧
                Atom.wordOK 1 1 0 (onW 1 [fsub1 1]) := by
              refine ⟨Atom.wordOK_other (onW_w 1 _) (by decide), Atom.wordOK_onW (all_w0 rfl) ?_ ?_⟩ <;>
                simp [Atom.consistent, Atom.run]
            exact ⟨Atom.wordOK_append hm.1 (Atom.wordOK_append c0 hu.1),
              Atom.wordOK_append hm.2 (Atom.wordOK_append c1 hu.2)⟩
        · have e : (if s.m.st = 0 then 1 else s.m.st) = s.m.st := by simp [h0]
          rw [e] at hm
          simp only [h0, if_false, List.append_nil]
          exact hm
    · exact wordsOK_nil rfl rfl
  | dropGuard g =>
    simp only [stepAtoms, next, step]
    cases hg : findGuard s g with
    | none => exact wordsOK_nil rfl rfl
    | some gu =>
      simp only []
      cases hk : gu.kind with
      | read =>
        simp only []
        refine wordsOK_congr (s := s) (s' := s.readUnlock) ?_ rfl rfl rfl rfl
        unfold wordsOK
        rw [readUnlock_state, readUnlock_mst]
        exact w0_single (x := fsubR 2 s.state) rfl (fsubR_ok ..) (fsubR_apply ..)
      | uread =>
        simp only []
        refine wordsOK_congr (s := s) (s' := s.ureadUnlock) ?_ rfl rfl rfl rfl
        obtain ⟨a, b⟩ := w0_single (x := fsubR 2 s.state) (st := s.state) (m := s.m.st) rfl
          (fsubR_ok ..) (fsubR_apply ..)
        obtain ⟨c, d⟩ := munlock_word s
        unfold wordsOK
        rw [(ureadUnlock_fields s).1, (ureadUnlock_fields s).2.1]
        refine ⟨Atom.wordOK_append a (Atom.wordOK_other (onW_w 1 _) (by decide)), Atom.wordOK_append b d⟩
      | write =>
        simp only []
        exact wordsOK_congr (s := s) (s' := s.writeUnlock) (writeUnlockAtoms_word s) rfl rfl rfl rfl
  | conv g c =>
    simp only [stepAtoms, next, step]
    cases hg : findGuard s g with
    | none => exact wordsOK_nil rfl rfl
    | some gu =>
      simp only []
      cases hk : gu.kind <;> cases c <;> simp only [] <;> try (exact wordsOK_nil rfl rfl)
      · exact wordsOK_congr (s := s) (s' := s.unlockM) (munlock_word s) rfl rfl rfl rfl
      · obtain ⟨a, b⟩ := w0_single (x := cas21 s.state) (st := s.state) (m := s.m.st) rfl
          (cas21_ok _) (cas21_apply _)
        split
        · rename_i h2
          have e : (if s.state = 2 then 1 else s.state) = 1 := by simp [h2]
          rw [e] at a
          exact ⟨a, b⟩
        · rename_i h2
          have e : (if s.state = 2 then 1 else s.state) = s.state := by simp [h2]
          rw [e] at a
          exact ⟨a, b⟩
      · obtain ⟨a, b⟩ := w0_single (x := faddR 1 s.state) (st := s.state) (m := s.m.st) rfl
          (faddR_ok ..) (faddR_apply ..)
        obtain ⟨c, d⟩ := munlock_word s
        refine wordsOK_congr (s := s) (s' := ({ s with state := s.state + 1 }.unlockM).notifyNw)
          ?_ rfl rfl rfl rfl
        exact ⟨Atom.wordOK_append a (Atom.wordOK_other (onW_w 1 _) (by decide)), Atom.wordOK_append b d⟩
      · exact wordsOK_congr (s := s) (s' := { s with state := s.state + 1 })
          (w0_single (x := faddR 1 s.state) rfl (faddR_ok ..) (faddR_apply ..)) rfl rfl rfl rfl
  | upgrade g f =>
    simp only [stepAtoms, next, step]
    cases hg : findGuard s g with
    | none => exact wordsOK_nil rfl rfl
    | some gu =>
      simp only []
      split
      · exact w0_single (x := fsubR 1 s.state) rfl (fsubR_ok ..) (fsubR_apply ..)
      · exact wordsOK_nil rfl rfl
  | hclone =>
    simp only [stepAtoms, next, step]
    split <;> exact wordsOK_nil rfl rfl
  | hdrop =>
    simp only [stepAtoms, next, step]
    split <;> exact wordsOK_nil rfl rfl


def runAtoms (s : Sys) : List Op → List Atom
  | [] => []
  | op :: ops => stepAtoms s op ++ runAtoms (next s op) ops

/-- **every history** -/
theorem run_atoms_words (s : Sys) (ops : List Op) : wordsOK s (run s ops) (runAtoms s ops) := by
  induction ops generalizing s with
  | nil => exact wordsOK_nil rfl rfl
  | cons op ops ih =>
    simp only [runAtoms, run, List.foldl_cons]
    exact wordsOK_append (step_atoms_words s op) (ih (next s op))

theorem settle_atoms_words (s : Sys) (fuel p : Nat) :
    wordsOK s (settleLoop s fuel p).1 (settleAtoms s fuel) := by
  induction fuel generalizing s p with
  | zero => exact wordsOK_nil rfl rfl
  | succ n ih =>
    simp only [settleAtoms, settleLoop]
    cases minOf s.m.woken with
    | none => exact wordsOK_nil rfl rfl
    | some f => exact wordsOK_append (step_atoms_words s _) (ih _ _)

end ALock.RwLock
