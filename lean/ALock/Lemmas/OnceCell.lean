import ALock.OnceCell
import ALock.Lemmas.Event
import ALock.Lemmas.ListAux

/-! Invariants of the OnceCell model. Property statements are in `Props/C04.lean`, `Props/C08.lean`. -/

set_option linter.unusedSimpArgs false
set_option linter.unusedVariables false

namespace ALock.Once

def ind (b : Bool) : Nat := if b then 1 else 0
@[simp] theorem ind_true : ind true = 1 := rfl
@[simp] theorem ind_false : ind false = 0 := rfl

/-- number of callers that hold the `Guard` (their initialiser is running) -/
def nRun (s : Sys) : Nat := (s.futs.map fun x => ind (x.pc == .running)).sum

structure FOK (fu : Fut) : Prop where
  polledOf : fu.pc ≠ .start → fu.polled = true
  startOf : fu.polled = true → fu.pc ≠ .start
  waitNoRun : fu.kind = .wait → fu.pc ≠ .running

/-- word-level invariant: who is initialising, and when a value is visible -/
structure WInv (s : Sys) : Prop where
  nodup : (s.futs.map (·.id)).Nodup
  flags : ∀ fu ∈ s.futs, FOK fu
  /-- the cell is in state 1 exactly while one live caller runs its initialiser -/
  run1 : nRun s = if s.state = 1 then 1 else 0
  st : s.state ≤ 2
  /-- a value is stored exactly in state 2 -/
  val : s.state = 2 ↔ s.value.isSome = true

theorem findFut_mem {s : Sys} {f : Nat} {fu : Fut} (h : findFut s f = some fu) :
    fu ∈ s.futs ∧ fu.id = f := find_id_mem (id := fun x : Fut => x.id) h

theorem init_winv : WInv ({} : Sys) := by
  refine ⟨by simp, by simp, by simp [nRun], by simp, by simp⟩

/-! ### field projections of the helpers -/

@[simp] theorem notifyAct1_state (s : Sys) : s.notifyAct1.state = s.state := rfl
@[simp] theorem notifyAct1_value (s : Sys) : s.notifyAct1.value = s.value := rfl
@[simp] theorem notifyAct1_futs (s : Sys) : s.notifyAct1.futs = s.futs := rfl
@[simp] theorem notifyAct1_pas (s : Sys) : s.notifyAct1.pas = s.pas := rfl
@[simp] theorem notifyAct1_act (s : Sys) : s.notifyAct1.act = Ev.notify false 1 s.act := rfl
@[simp] theorem notifyAct1_gone (s : Sys) : s.notifyAct1.gone = s.gone := rfl
@[simp] theorem notifyAct1_dropped (s : Sys) : s.notifyAct1.dropped = s.dropped := rfl
@[simp] theorem notifyAct1_next (s : Sys) : s.notifyAct1.nextSerial = s.nextSerial := rfl
@[simp] theorem notifyAll_state (s : Sys) : s.notifyAll.state = s.state := rfl
@[simp] theorem notifyAll_value (s : Sys) : s.notifyAll.value = s.value := rfl
@[simp] theorem notifyAll_futs (s : Sys) : s.notifyAll.futs = s.futs := rfl
@[simp] theorem notifyAll_gone (s : Sys) : s.notifyAll.gone = s.gone := rfl
@[simp] theorem notifyAll_dropped (s : Sys) : s.notifyAll.dropped = s.dropped := rfl
@[simp] theorem notifyAll_next (s : Sys) : s.notifyAll.nextSerial = s.nextSerial := rfl
@[simp] theorem notifyAll_act (s : Sys) : s.notifyAll.act = Ev.notify true s.act.length s.act := rfl
@[simp] theorem notifyAll_pas (s : Sys) : s.notifyAll.pas = Ev.notify true s.pas.length s.pas := rfl
@[simp] theorem guardDrop_state (s : Sys) : s.guardDrop.state = 0 := rfl
@[simp] theorem guardDrop_value (s : Sys) : s.guardDrop.value = s.value := rfl
@[simp] theorem guardDrop_futs (s : Sys) : s.guardDrop.futs = s.futs := rfl
@[simp] theorem guardDrop_pas (s : Sys) : s.guardDrop.pas = s.pas := rfl
@[simp] theorem guardDrop_act (s : Sys) : s.guardDrop.act = Ev.notify false 1 s.act := rfl
@[simp] theorem guardDrop_gone (s : Sys) : s.guardDrop.gone = s.gone := rfl
@[simp] theorem guardDrop_dropped (s : Sys) : s.guardDrop.dropped = s.dropped := rfl
@[simp] theorem guardDrop_next (s : Sys) : s.guardDrop.nextSerial = s.nextSerial := rfl
@[simp] theorem dropAct_state (s : Sys) (f : Nat) : (s.dropAct f).state = s.state := rfl
@[simp] theorem dropAct_value (s : Sys) (f : Nat) : (s.dropAct f).value = s.value := rfl
@[simp] theorem dropAct_futs (s : Sys) (f : Nat) : (s.dropAct f).futs = s.futs := rfl
@[simp] theorem dropAct_pas (s : Sys) (f : Nat) : (s.dropAct f).pas = s.pas := rfl
@[simp] theorem dropAct_act (s : Sys) (f : Nat) : (s.dropAct f).act = Ev.drop s.act f := rfl
@[simp] theorem dropAct_gone (s : Sys) (f : Nat) : (s.dropAct f).gone = s.gone := rfl
@[simp] theorem dropAct_dropped (s : Sys) (f : Nat) : (s.dropAct f).dropped = s.dropped := rfl
@[simp] theorem dropAct_next (s : Sys) (f : Nat) : (s.dropAct f).nextSerial = s.nextSerial := rfl
@[simp] theorem dropPas_state (s : Sys) (f : Nat) : (s.dropPas f).state = s.state := rfl
@[simp] theorem dropPas_value (s : Sys) (f : Nat) : (s.dropPas f).value = s.value := rfl
@[simp] theorem dropPas_futs (s : Sys) (f : Nat) : (s.dropPas f).futs = s.futs := rfl
@[simp] theorem dropPas_act (s : Sys) (f : Nat) : (s.dropPas f).act = s.act := rfl
@[simp] theorem dropPas_pas (s : Sys) (f : Nat) : (s.dropPas f).pas = Ev.drop s.pas f := rfl
@[simp] theorem dropPas_gone (s : Sys) (f : Nat) : (s.dropPas f).gone = s.gone := rfl
@[simp] theorem dropPas_dropped (s : Sys) (f : Nat) : (s.dropPas f).dropped = s.dropped := rfl
@[simp] theorem dropPas_next (s : Sys) (f : Nat) : (s.dropPas f).nextSerial = s.nextSerial := rfl

/-! ### word effect of the polls -/

/-- What a poll of an initialising caller does at the word level. `was` = the caller held the
`Guard` before the poll. -/
theorem pollInit_word (s : Sys) (fu : Fut) (t : Nat) (i : Input) (hst : s.state ≤ 2)
    (hrun : fu.pc = .running → s.state = 1) (hval : s.state = 2 ↔ s.value.isSome = true)
    (hnd : fu.pc ≠ .done) :
    let r := pollInit s fu t i
    r.s.futs = s.futs ∧ r.s.gone = s.gone ∧ r.s.state ≤ 2 ∧
    (r.s.state = 2 ↔ r.s.value.isSome = true) ∧
    (r.pc = .running → r.s.state = 1) ∧ r.pc ≠ .start ∧
    (r.pc = .running → fu.pc = .running ∨ s.state = 0) ∧ (fu.kind = .wait → r.pc ≠ .running ∨ True) ∧
    -- the state is 1 afterwards iff this caller runs, or somebody else did and still does
    ((r.s.state = 1) ↔ (r.pc = .running ∨ (s.state = 1 ∧ fu.pc ≠ .running))) := by
  unfold pollInit runInit
  cases hpc : fu.pc <;> simp only [] <;> (try exact absurd hpc hnd) <;>
    (repeat' split) <;> simp_all <;> omega

theorem pollWait_word (s : Sys) (fu : Fut) (t : Nat) :
    let r := pollWait s fu t
    r.s.futs = s.futs ∧ r.s.gone = s.gone ∧ r.s.state = s.state ∧ r.s.value = s.value ∧
    r.pc ≠ .running ∧ r.pc ≠ .start := by
  unfold pollWait
  cases hpc : fu.pc <;> simp only [] <;> (repeat' split) <;> simp_all


theorem ind_run_of_ne {a : Pc} (h : a ≠ .running) : ind (a == .running) = 0 := by
  cases a <;> simp_all [ind]

theorem ind_run_self : ind (Pc.running == .running) = 1 := rfl

@[simp] theorem upd_pc (pc : Pc) (t : Nat) (x : Fut) : (upd pc t x).pc = pc := rfl
@[simp] theorem upd_id (pc : Pc) (t : Nat) (x : Fut) : (upd pc t x).id = x.id := rfl
@[simp] theorem upd_kind (pc : Pc) (t : Nat) (x : Fut) : (upd pc t x).kind = x.kind := rfl
@[simp] theorem upd_polled (pc : Pc) (t : Nat) (x : Fut) : (upd pc t x).polled = true := rfl

theorem ind_le_nRun (s : Sys) (fu : Fut) (h : fu ∈ s.futs) : ind (fu.pc == .running) ≤ nRun s :=
  le_sum_of_mem s.futs (fun x => ind (x.pc == .running)) fu h

theorem running_state {s : Sys} (h : WInv s) {fu : Fut} (hm : fu ∈ s.futs) (hp : fu.pc = .running) :
    s.state = 1 := by
  have h1 := ind_le_nRun s fu hm
  have h2 := h.run1
  simp only [hp, beq_self_eq_true, ind_true] at h1
  by_cases hs : s.state = 1
  · exact hs
  · simp [hs] at h2; omega

theorem step_winv (s : Sys) (op : Op) (h : WInv s) : WInv (next s op) := by
  unfold next
  cases op with
  | start f k =>
    simp only [step]
    split
    · rename_i hc
      simp only [Bool.and_eq_true, Option.isNone_iff_eq_none, Bool.not_eq_true'] at hc
      have hfresh : ∀ x ∈ s.futs, x.id ≠ f := by
        intro x hx hid
        have := hc.1
        unfold findFut at this
        rw [List.find?_eq_none] at this
        exact this x hx (by simp [hid])
      split
      · refine ⟨nodup_cons_fresh _ _ _ h.nodup (by simpa using hfresh), ?_, ?_, h.st, h.val⟩
        · intro fu hfu
          rcases List.mem_cons.mp hfu with rfl | hfu
          · exact ⟨by simp, by simp, by simp⟩
          · exact h.flags fu hfu
        · have := h.run1
          simp only [nRun, List.map_cons, List.sum_cons] at this ⊢
          rw [ind_run_of_ne (by decide)]; omega
      · refine ⟨nodup_cons_fresh _ _ _ h.nodup (by simpa using hfresh), ?_, ?_, h.st, h.val⟩
        · intro fu hfu
          rcases List.mem_cons.mp hfu with rfl | hfu
          · exact ⟨by simp, by simp, by simp⟩
          · exact h.flags fu hfu
        · have := h.run1
          simp only [nRun, List.map_cons, List.sum_cons] at this ⊢
          rw [ind_run_of_ne (by decide)]; omega
    · exact h
  | poll f t i =>
    simp only [step]
    split
    · rename_i fu hfu
      obtain ⟨hmem, hid⟩ := findFut_mem hfu
      have hfl := h.flags fu hmem
      split
      · exact h
      · rename_i hnd
        have hrun1 := h.run1
        have hle := ind_le_nRun s fu hmem
        by_cases hkw : fu.kind = .wait
        · -- wait(): the words do not change
          simp only [hkw, if_true]
          obtain ⟨e1, e2, e3, e4, e5, e6⟩ := pollWait_word { s with woken := s.woken.filter (· != f) } fu t
          generalize pollWait { s with woken := s.woken.filter (· != f) } fu t = r at *
          have hnr : fu.pc ≠ .running := hfl.waitNoRun hkw
          simp only [] at e1 e2 e3 e4
          have hsum := sum_map_update s.futs (fun x : Fut => x.id) f (upd r.pc t)
            (fun x => ind (x.pc == .running)) fu h.nodup hmem hid
          have a1 : ind (fu.pc == .running) = 0 := ind_run_of_ne hnr
          have b1 : ind (r.pc == .running) = 0 := ind_run_of_ne e5
          simp only [upd_pc, a1, b1] at hsum
          refine ⟨?_, ?_, ?_, by simpa [e3] using h.st, by simpa [e3, e4] using h.val⟩
          · simp only [e1]
            exact nodup_map_update _ (fun x : Fut => x.id) f _ (fun _ => rfl) h.nodup
          · intro x hx
            simp only [e1] at hx
            obtain ⟨y, hy, rfl⟩ := mem_map_update.mp hx
            split
            · exact ⟨fun _ => rfl, fun _ => e6, fun hk => by simpa using e5⟩
            · exact h.flags y hy
          · simp only [nRun, e1, e3, setFut] at hsum hrun1 ⊢
            omega
        · simp only [hkw, if_false]
          have hrs : fu.pc = .running → s.state = 1 := running_state h hmem
          obtain ⟨e1, e2, e3, e4, e5, e6, e7, _, e8⟩ :=
            pollInit_word { s with woken := s.woken.filter (· != f) } fu t i h.st hrs h.val hnd
          generalize pollInit { s with woken := s.woken.filter (· != f) } fu t i = r at *
          simp only [] at e1 e2 e8 e7
          have hsum := sum_map_update s.futs (fun x : Fut => x.id) f (upd r.pc t)
            (fun x => ind (x.pc == .running)) fu h.nodup hmem hid
          simp only [upd_pc] at hsum
          refine ⟨?_, ?_, ?_, e3, ?_⟩
          · simp only [e1]
            exact nodup_map_update _ (fun x : Fut => x.id) f _ (fun _ => rfl) h.nodup
          · intro x hx
            -- the `dropped` field does not matter here
            have hx' : x ∈ setFut s.futs f (upd r.pc t) := by simpa [e1] using hx
            obtain ⟨y, hy, rfl⟩ := mem_map_update.mp hx'
            split
            · rename_i hyf
              have hyk : y.kind ≠ .wait := by
                have : y = fu := by
                  -- ids are unique
                  have hyid : y.id = fu.id := by simp only [beq_iff_eq] at hyf; rw [hyf, hid]
                  exact eq_of_nodup_map h.nodup hy hmem hyid
                rw [this]; exact hkw
              exact ⟨fun _ => rfl, fun _ => e6, fun hk => absurd hk hyk⟩
            · exact h.flags y hy
          · -- run1
            show nRun _ = _
            simp only [nRun, e1, setFut] at hsum hrun1 ⊢
            by_cases hfr : fu.pc = .running
            · have hs1 := hrs hfr
              simp only [hfr, ind_run_self, hs1, if_true] at hsum hrun1
              by_cases hrr : r.pc = .running
              · have := e5 hrr
                simp only [hrr, ind_run_self] at hsum ⊢
                simp only [this, if_true]; omega
              · have hne : ¬ r.s.state = 1 := by
                  intro hc; rcases e8.mp hc with h1 | h1
                  · exact hrr h1
                  · exact h1.2 hfr
                have b0 : ind (r.pc == .running) = 0 := ind_run_of_ne hrr
                simp only [b0] at hsum
                simp only [hne, if_false]; omega
            · have a0 : ind (fu.pc == .running) = 0 := ind_run_of_ne hfr
              simp only [a0] at hsum
              by_cases hrr : r.pc = .running
              · have hs0 : s.state = 0 := by
                  rcases e7 hrr with h1 | h1
                  · exact absurd h1 hfr
                  · exact h1
                have := e5 hrr
                simp only [hrr, ind_run_self] at hsum ⊢
                simp only [hs0] at hrun1
                simp only [this, if_true]
                simp at hrun1; omega
              · have b0 : ind (r.pc == .running) = 0 := ind_run_of_ne hrr
                simp only [b0] at hsum
                have hiff : r.s.state = 1 ↔ s.state = 1 := by
                  rw [e8]; constructor
                  · rintro (h1 | h1)
                    · exact absurd h1 hrr
                    · exact h1.1
                  · intro h1; exact Or.inr ⟨h1, hfr⟩
                by_cases hs1 : s.state = 1
                · simp only [hs1, if_true] at hrun1
                  simp only [hiff.mpr hs1, if_true]; omega
                · simp only [hs1, if_false] at hrun1
                  have : ¬ r.s.state = 1 := fun hc => hs1 (hiff.mp hc)
                  simp only [this, if_false]; omega
          · exact e4
    · exact h
  | dropFut f =>
    simp only [step]
    split
    · rename_i fu hfu
      obtain ⟨hmem, hid⟩ := findFut_mem hfu
      have hfl := h.flags fu hmem
      have hs := sum_map_filter_ne s.futs (fun x : Fut => x.id) f (fun x => ind (x.pc == .running)) fu
        h.nodup hmem hid
      have hrun1 := h.run1
      have hfuts : ∀ (s1 : Sys), s1.futs = s.futs →
          (∀ x ∈ s1.futs.filter (·.id != f), FOK x) ∧ ((s1.futs.filter (·.id != f)).map (·.id)).Nodup := by
        intro s1 h1
        rw [h1]
        exact ⟨fun x hx => h.flags x (List.mem_filter.mp hx).1, nodup_map_filter _ _ _ h.nodup⟩
      by_cases hr : fu.pc = .running
      · have hs1 := running_state h hmem hr
        have hkw : fu.kind ≠ .wait := fun hk => hfl.waitNoRun hk hr
        have hd : dropFutS { s with woken := s.woken.filter (· != f) } fu
            = ({ s with woken := s.woken.filter (· != f) } : Sys).guardDrop := by
          unfold dropFutS; cases hk : fu.kind <;> simp_all
        rw [hd]
        obtain ⟨f1, f2⟩ := hfuts _ (guardDrop_futs _)
        refine ⟨f2, f1, ?_, by simp, ?_⟩
        · simp only [nRun, guardDrop_futs, guardDrop_state, hr, beq_self_eq_true, ind_true, hs1,
            if_true] at hs hrun1 ⊢
          simp; omega
        · have hv := h.val
          simp only [guardDrop_state, guardDrop_value]
          constructor
          · intro hc; cases hc
          · intro hc; have := hv.mpr hc; omega
      · have a0 : ind (fu.pc == .running) = 0 := ind_run_of_ne hr
        have hd : (dropFutS { s with woken := s.woken.filter (· != f) } fu).state = s.state ∧
            (dropFutS { s with woken := s.woken.filter (· != f) } fu).value = s.value ∧
            (dropFutS { s with woken := s.woken.filter (· != f) } fu).futs = s.futs := by
          unfold dropFutS
          cases hk : fu.kind <;> cases hp : fu.pc <;> simp_all
        obtain ⟨f1, f2⟩ := hfuts _ hd.2.2
        refine ⟨f2, f1, ?_, by simpa [hd.1] using h.st, by simpa [hd.1, hd.2.1] using h.val⟩
        simp only [nRun, hd.1, hd.2.2, a0] at hs hrun1 ⊢
        omega
    · exact h
  | get =>
    simp only [step]; (repeat' split) <;> exact h
  | take =>
    simp only [step]
    split
    · rename_i hc
      simp only [Bool.and_eq_true, List.isEmpty_iff, Bool.not_eq_true'] at hc
      split
      · refine ⟨by simp [hc.1], by simp [hc.1], by simp [nRun, hc.1], by simp, by simp⟩
      · exact h
    · exact h
  | dropCell =>
    simp only [step]
    split
    · rename_i hc
      simp only [Bool.and_eq_true, List.isEmpty_iff, Bool.not_eq_true'] at hc
      split
      · refine ⟨by simp [hc.1], by simp [hc.1], by simp [nRun, hc.1], by simp, by simp⟩
      · exact ⟨h.nodup, h.flags, h.run1, h.st, h.val⟩
    · exact h

theorem run_winv (s : Sys) (ops : List Op) (h : WInv s) : WInv (run s ops) := by
  induction ops generalizing s with
  | nil => exact h
  | cons op ops ih => exact ih _ (step_winv s op h)

theorem reachable_winv (ops : List Op) : WInv (run {} ops) := run_winv _ ops init_winv

end ALock.Once

namespace ALock.Once

/-! ### registration -/

def Fut.onAct (x : Fut) : Bool := x.kind != .wait && x.pc == .waiting
def Fut.onPas (x : Fut) : Bool := x.kind == .wait && x.pc == .waiting

structure RInv (s : Sys) : Prop where
  regA : ∀ fu ∈ s.futs, Ev.has s.act fu.id = fu.onAct
  revA : ∀ g, Ev.has s.act g = true → ∃ fu ∈ s.futs, fu.id = g
  regP : ∀ fu ∈ s.futs, Ev.has s.pas fu.id = fu.onPas
  revP : ∀ g, Ev.has s.pas g = true → ∃ fu ∈ s.futs, fu.id = g

theorem init_rinv : RInv ({} : Sys) := by
  refine ⟨by simp, ?_, by simp, ?_⟩ <;> (intro g hg; simp [Ev.has] at hg)

theorem pollInit_has (s : Sys) (fu : Fut) (t : Nat) (i : Input) (hnd : fu.pc ≠ .done)
    (hreg : Ev.has s.act fu.id = (fu.pc == .waiting)) :
    let r := pollInit s fu t i
    Ev.has r.s.act fu.id = (r.pc == .waiting) ∧ (∀ g, g ≠ fu.id → Ev.has r.s.act g = Ev.has s.act g) ∧
    (∀ g, Ev.has r.s.pas g = Ev.has s.pas g) := by
  unfold pollInit runInit
  cases hpc : fu.pc <;> simp only [] <;> (try exact absurd hpc hnd) <;>
    (repeat' split) <;>
    (refine ⟨?_, ?_, ?_⟩ <;>
      first
        | (intro g hg
           have h1 : (g != fu.id) = true := by simp [hg]
           have h2 : (fu.id == g) = false := by simp [Ne.symm hg]
           simp [Ev.has_setTask, Ev.has_listen, Ev.has_erase, Ev.has_notify, Sys.guardDrop, Sys.notifyAct1,
             Sys.notifyAll, h1, h2])
        | (intro g
           simp [Ev.has_notify, Sys.guardDrop, Sys.notifyAct1, Sys.notifyAll])
        | (simp_all [Ev.has_setTask, Ev.has_listen, Ev.has_erase, Ev.has_notify, Sys.guardDrop,
            Sys.notifyAct1, Sys.notifyAll] <;> decide))

theorem pollWait_has (s : Sys) (fu : Fut) (t : Nat) (hnd : fu.pc ≠ .done) (hnr : fu.pc ≠ .running)
    (hreg : Ev.has s.pas fu.id = (fu.pc == .waiting)) :
    let r := pollWait s fu t
    Ev.has r.s.pas fu.id = (r.pc == .waiting) ∧ (∀ g, g ≠ fu.id → Ev.has r.s.pas g = Ev.has s.pas g) ∧
    (∀ g, Ev.has r.s.act g = Ev.has s.act g) := by
  unfold pollWait
  cases hpc : fu.pc <;> simp only [] <;> (try exact absurd hpc hnd) <;> (try exact absurd hpc hnr) <;>
    (repeat' split) <;>
    (refine ⟨?_, ?_, ?_⟩ <;>
      first
        | (intro g hg
           have h1 : (g != fu.id) = true := by simp [hg]
           have h2 : (fu.id == g) = false := by simp [Ne.symm hg]
           simp [Ev.has_setTask, Ev.has_listen, Ev.has_erase, h1, h2])
        | (intro g; rfl)
        | (simp_all [Ev.has_setTask, Ev.has_listen, Ev.has_erase] <;> decide))

end ALock.Once

namespace ALock.Once

theorem reg_update (s : Sys) (hn : (s.futs.map (·.id)).Nodup) (f : Nat) (fu : Fut) (hmem : fu ∈ s.futs)
    (hid : fu.id = f) (g : Fut → Fut) (hg : ∀ x, (g x).id = x.id) (q q' : List Entry)
    (want : Fut → Bool)
    (hself : Ev.has q' f = want (g fu)) (hother : ∀ x, x ≠ f → Ev.has q' x = Ev.has q x)
    (hreg : ∀ x ∈ s.futs, Ev.has q x.id = want x)
    (hrev : ∀ x, Ev.has q x = true → ∃ y ∈ s.futs, y.id = x) :
    (∀ x ∈ setFut s.futs f g, Ev.has q' x.id = want x) ∧
    (∀ x, Ev.has q' x = true → ∃ y ∈ setFut s.futs f g, y.id = x) := by
  constructor
  · intro x hx
    obtain ⟨y, hy, rfl⟩ := mem_map_update.mp hx
    by_cases hyf : y.id = f
    · have : y = fu := eq_of_nodup_map hn hy hmem (by rw [hyf, hid])
      subst this
      simp only [hyf, beq_self_eq_true, if_true, hg]
      exact hself
    · simp only [hyf, beq_iff_eq, if_false]
      rw [hother y.id hyf]; exact hreg y hy
  · intro x hx
    by_cases hxf : x = f
    · subst hxf
      refine ⟨_, mem_map_update.mpr ⟨fu, hmem, rfl⟩, ?_⟩
      simp [hid, hg]
    · rw [hother x hxf] at hx
      obtain ⟨y, hy, hyi⟩ := hrev x hx
      refine ⟨_, mem_map_update.mpr ⟨y, hy, rfl⟩, ?_⟩
      have : (y.id == f) = false := by rw [hyi]; simp [hxf]
      simp only [this, Bool.false_eq_true, if_false]; exact hyi

theorem step_rinv (s : Sys) (op : Op) (hw : WInv s) (h : RInv s) : RInv (next s op) := by
  unfold next
  cases op with
  | start f k =>
    simp only [step]
    split
    · rename_i hc
      simp only [Bool.and_eq_true, Option.isNone_iff_eq_none, Bool.not_eq_true'] at hc
      have hfresh : ∀ x ∈ s.futs, x.id ≠ f := by
        intro x hx hid
        have := hc.1
        unfold findFut at this
        rw [List.find?_eq_none] at this
        exact this x hx (by simp [hid])
      have nohas : ∀ q : List Entry, (∀ g, Ev.has q g = true → ∃ x ∈ s.futs, x.id = g) →
          Ev.has q f = false := by
        intro q hrev
        cases hh : Ev.has q f
        · rfl
        · obtain ⟨x, hx, hxi⟩ := hrev _ hh
          exact absurd hxi (hfresh x hx)
      have key : ∀ nf : Fut, nf.id = f → nf.pc = .start →
          RInv { s with futs := nf :: s.futs } ∧ True := by
        intro nf hnid hnpc
        refine ⟨⟨?_, ?_, ?_, ?_⟩, trivial⟩
        · intro fu hfu
          rcases List.mem_cons.mp hfu with rfl | hfu
          · rw [hnid, nohas _ h.revA]; simp [Fut.onAct, hnpc]
          · exact h.regA fu hfu
        · intro g hg
          obtain ⟨x, hx, hxi⟩ := h.revA g hg
          exact ⟨x, List.mem_cons_of_mem _ hx, hxi⟩
        · intro fu hfu
          rcases List.mem_cons.mp hfu with rfl | hfu
          · rw [hnid, nohas _ h.revP]; simp [Fut.onPas, hnpc]
          · exact h.regP fu hfu
        · intro g hg
          obtain ⟨x, hx, hxi⟩ := h.revP g hg
          exact ⟨x, List.mem_cons_of_mem _ hx, hxi⟩
      split
      · have := (key { id := f, kind := k, waker := f * 4, arg := some { serial := s.nextSerial, by_ := f } }
          rfl rfl).1
        exact ⟨this.regA, this.revA, this.regP, this.revP⟩
      · exact (key { id := f, kind := k, waker := f * 4 } rfl rfl).1
    · exact h
  | poll f t i =>
    simp only [step]
    split
    · rename_i fu hfu
      obtain ⟨hmem, hid⟩ := findFut_mem hfu
      have hfl := hw.flags fu hmem
      have hrA := h.regA fu hmem
      have hrP := h.regP fu hmem
      rw [hid] at hrA hrP
      split
      · exact h
      · rename_i hnd
        by_cases hkw : fu.kind = .wait
        · simp only [hkw, if_true]
          obtain ⟨e1, _⟩ := pollWait_word { s with woken := s.woken.filter (· != f) } fu t
          have hh := pollWait_has { s with woken := s.woken.filter (· != f) } fu t hnd
            (hfl.waitNoRun hkw) (by simp [hid, hrP, Fut.onPas, hkw])
          generalize pollWait { s with woken := s.woken.filter (· != f) } fu t = r at *
          simp only [] at e1 hh
          rw [hid] at hh
          have kP := reg_update s hw.nodup f fu hmem hid (upd r.pc t) (fun _ => rfl) s.pas r.s.pas
            Fut.onPas (by rw [hh.1]; simp [Fut.onPas, hkw]) hh.2.1 h.regP h.revP
          have kA := reg_update s hw.nodup f fu hmem hid (upd r.pc t) (fun _ => rfl) s.act r.s.act
            Fut.onAct (by rw [hh.2.2, hrA]; simp [Fut.onAct, hkw]) (fun x _ => hh.2.2 x) h.regA h.revA
          refine ⟨?_, ?_, ?_, ?_⟩
          · show ∀ x ∈ setFut r.s.futs f (upd r.pc t), Ev.has r.s.act x.id = x.onAct
            rw [e1]; exact kA.1
          · show ∀ g, Ev.has r.s.act g = true → ∃ x ∈ setFut r.s.futs f (upd r.pc t), x.id = g
            rw [e1]; exact kA.2
          · show ∀ x ∈ setFut r.s.futs f (upd r.pc t), Ev.has r.s.pas x.id = x.onPas
            rw [e1]; exact kP.1
          · show ∀ g, Ev.has r.s.pas g = true → ∃ x ∈ setFut r.s.futs f (upd r.pc t), x.id = g
            rw [e1]; exact kP.2
        · simp only [hkw, if_false]
          have hkb : (fu.kind != Kind.wait) = true := by simp [hkw]
          have hrs : fu.pc = .running → s.state = 1 := running_state hw hmem
          obtain ⟨e1, _⟩ := pollInit_word { s with woken := s.woken.filter (· != f) } fu t i hw.st hrs
            hw.val hnd
          have hh := pollInit_has { s with woken := s.woken.filter (· != f) } fu t i hnd
            (by simp [hid, hrA, Fut.onAct, hkb])
          generalize pollInit { s with woken := s.woken.filter (· != f) } fu t i = r at *
          simp only [] at e1 hh
          rw [hid] at hh
          have kA := reg_update s hw.nodup f fu hmem hid (upd r.pc t) (fun _ => rfl) s.act r.s.act
            Fut.onAct (by rw [hh.1]; simp [Fut.onAct, hkb]) hh.2.1 h.regA h.revA
          have kP := reg_update s hw.nodup f fu hmem hid (upd r.pc t) (fun _ => rfl) s.pas r.s.pas
            Fut.onPas (by
              have hkf : (fu.kind == Kind.wait) = false := by simp [hkw]
              rw [hh.2.2, hrP]; simp [Fut.onPas, hkf]) (fun x _ => hh.2.2 x) h.regP h.revP
          refine ⟨?_, ?_, ?_, ?_⟩
          · show ∀ x ∈ setFut r.s.futs f (upd r.pc t), Ev.has r.s.act x.id = x.onAct
            rw [e1]; exact kA.1
          · show ∀ g, Ev.has r.s.act g = true → ∃ x ∈ setFut r.s.futs f (upd r.pc t), x.id = g
            rw [e1]; exact kA.2
          · show ∀ x ∈ setFut r.s.futs f (upd r.pc t), Ev.has r.s.pas x.id = x.onPas
            rw [e1]; exact kP.1
          · show ∀ g, Ev.has r.s.pas g = true → ∃ x ∈ setFut r.s.futs f (upd r.pc t), x.id = g
            rw [e1]; exact kP.2
    · exact h
  | dropFut f =>
    simp only [step]
    split
    · rename_i fu hfu
      obtain ⟨hmem, hid⟩ := findFut_mem hfu
      have hfl := hw.flags fu hmem
      have hrA := h.regA fu hmem
      have hrP := h.regP fu hmem
      rw [hid] at hrA hrP
      -- after the drop: every queue has lost exactly f's registration
      have hq : (∀ g, Ev.has (dropFutS { s with woken := s.woken.filter (· != f) } fu).act g
            = (Ev.has s.act g && g != f)) ∧
          (∀ g, Ev.has (dropFutS { s with woken := s.woken.filter (· != f) } fu).pas g
            = (Ev.has s.pas g && g != f)) ∧
          (dropFutS { s with woken := s.woken.filter (· != f) } fu).futs = s.futs := by
        have nA : fu.onAct = false → ∀ g, Ev.has s.act g = (Ev.has s.act g && g != f) := by
          intro h0 g
          by_cases hg : g = f
          · subst hg; simp [hrA, h0]
          · simp [hg]
        have nP : fu.onPas = false → ∀ g, Ev.has s.pas g = (Ev.has s.pas g && g != f) := by
          intro h0 g
          by_cases hg : g = f
          · subst hg; simp [hrP, h0]
          · simp [hg]
        have hfuts : (dropFutS { s with woken := s.woken.filter (· != f) } fu).futs = s.futs := by
          unfold dropFutS
          cases hk : fu.kind <;> cases hp : fu.pc <;> rfl
        refine ⟨?_, ?_, hfuts⟩
        · intro g
          unfold dropFutS
          cases hk : fu.kind <;> cases hp : fu.pc <;>
            simp only [dropPas_act, dropAct_act, guardDrop_act, Ev.has_drop, Ev.has_notify, hid] <;>
            first
              | exact nA (by simp [Fut.onAct, hk, hp]) g
              | rfl
        · intro g
          unfold dropFutS
          cases hk : fu.kind <;> cases hp : fu.pc <;>
            simp only [dropPas_pas, dropAct_pas, guardDrop_pas, Ev.has_drop, Ev.has_notify, hid] <;>
            first
              | exact nP (by simp [Fut.onPas, hk, hp]) g
              | rfl
      refine ⟨?_, ?_, ?_, ?_⟩
      · intro x hx
        simp only [hq.2.2] at hx
        have hx' := List.mem_filter.mp hx
        have hb : (x.id != f) = true := hx'.2
        rw [hq.1, hb, Bool.and_true]; exact h.regA x hx'.1
      · intro g hg
        rw [hq.1] at hg
        simp only [Bool.and_eq_true] at hg
        obtain ⟨y, hy, hyi⟩ := h.revA g hg.1
        exact ⟨y, by simp only [hq.2.2]; exact List.mem_filter.mpr ⟨hy, by rw [hyi]; exact hg.2⟩, hyi⟩
      · intro x hx
        simp only [hq.2.2] at hx
        have hx' := List.mem_filter.mp hx
        have hb : (x.id != f) = true := hx'.2
        rw [hq.2.1, hb, Bool.and_true]; exact h.regP x hx'.1
      · intro g hg
        rw [hq.2.1] at hg
        simp only [Bool.and_eq_true] at hg
        obtain ⟨y, hy, hyi⟩ := h.revP g hg.1
        exact ⟨y, by simp only [hq.2.2]; exact List.mem_filter.mpr ⟨hy, by rw [hyi]; exact hg.2⟩, hyi⟩
    · exact h
  | get => simp only [step]; (repeat' split) <;> exact h
  | take =>
    simp only [step]
    split
    · split
      · exact ⟨h.regA, h.revA, h.regP, h.revP⟩
      · exact h
    · exact h
  | dropCell =>
    simp only [step]
    split
    · split
      · exact ⟨h.regA, h.revA, h.regP, h.revP⟩
      · exact ⟨h.regA, h.revA, h.regP, h.revP⟩
    · exact h

end ALock.Once

namespace ALock.Once

/-! ### wake-up invariant -/

structure WT (s : Sys) : Prop where
  wa : WakeOK s.act s.woken
  wp : WakeOK s.pas s.woken
  ta : AllTask s.act
  tp : AllTask s.pas

structure WTE (f : Nat) (s : Sys) : Prop where
  wa : WakeOKExcept f s.act s.woken
  wp : WakeOKExcept f s.pas s.woken
  ta : AllTask s.act
  tp : AllTask s.pas

structure Live (s : Sys) : Prop where
  /-- once initialised, every registered listener has been notified -/
  allN : s.state = 2 → AllNotified s.act ∧ AllNotified s.pas
  /-- empty again and an initialising caller waits ⇒ one of them holds a notification -/
  baton : s.state = 0 → s.act ≠ [] → 0 < cnt s.act

structure KInv (s : Sys) : Prop where
  wt : WT s
  live : Live s

theorem init_kinv : KInv ({} : Sys) := by
  refine ⟨⟨?_, ?_, ?_, ?_⟩, ⟨?_, ?_⟩⟩
  · intro e he; simp at he
  · intro e he; simp at he
  · intro e he; simp at he
  · intro e he; simp at he
  · intro h; simp at h
  · intro _ h; simp at h

theorem wakeOK_of_except' {f : Nat} {q : List Entry} {w : List Nat} (h : WakeOKExcept f q w)
    (hn : Ev.has q f = false) : WakeOK q w :=
  fun e he hne => h e he hne (Ev.has_false_iff.mp hn e he)

theorem WT.enter {s : Sys} (h : WT s) (f : Nat) : WTE f { s with woken := s.woken.filter (· != f) } :=
  ⟨wakeOKExcept_of_cons (wakeOK_filter _ _ _ h.wa), wakeOKExcept_of_cons (wakeOK_filter _ _ _ h.wp),
   h.ta, h.tp⟩

theorem WT.notifyAct1 {s : Sys} (h : WT s) : WT s.notifyAct1 :=
  ⟨Ev.notify_wakeOK false 1 s.act s.woken h.wa h.ta,
   wakeOK_mono h.wp (fun x hx => List.mem_append_right _ hx), Ev.notify_allTask _ _ _ h.ta, h.tp⟩

theorem WT.guardDrop {s : Sys} (h : WT s) : WT s.guardDrop :=
  (show WT ({ s with state := 0 } : Sys) from ⟨h.wa, h.wp, h.ta, h.tp⟩).notifyAct1

theorem WT.notifyAll {s : Sys} (h : WT s) : WT s.notifyAll := by
  refine ⟨?_, ?_, Ev.notify_allTask _ _ _ h.ta, Ev.notify_allTask _ _ _ h.tp⟩
  · exact wakeOK_mono (Ev.notify_wakeOK true _ s.act s.woken h.wa h.ta)
      (fun x hx => List.mem_append_right _ hx)
  · have := Ev.notify_wakeOK true s.pas.length s.pas (Ev.notifyOwners true s.act.length s.act ++ s.woken)
      (wakeOK_mono h.wp (fun x hx => List.mem_append_right _ hx)) h.tp
    exact this

theorem Live.guardDrop (s : Sys) : Live s.guardDrop := by
  refine ⟨fun h => by simp at h, ?_⟩
  intro _ hq
  simp only [guardDrop_act] at hq ⊢
  have : s.act ≠ [] := by intro hc; apply hq; rw [hc]; exact Ev.notify_nil _ _
  exact Ev.notify_cnt_pos false 1 s.act (by omega) this

theorem Live.notifyAll (s : Sys) (h2 : s.state = 2) : Live s.notifyAll := by
  refine ⟨fun _ => ⟨Ev.notify_all s.act, Ev.notify_all s.pas⟩, ?_⟩
  intro h0; simp only [notifyAll_state] at h0; omega

theorem pend_ok' {f t : Nat} {q : List Entry} {w : List Nat} (h1 : WakeOKExcept f q w)
    (h2 : AllTaskExcept f q) (h3 : Ev.isNotified q f = false) :
    WakeOK (Ev.setTask q f t) w ∧ AllTask (Ev.setTask q f t) :=
  ⟨Ev.setTask_wakeOK_of_except h1 h3, Ev.setTask_allTask_of_except h2⟩

/-- `runInit` in a state whose wake bookkeeping is in order -/
theorem runInit_k (s : Sys) (fu : Fut) (i : Input) (h : WT s) (h1 : s.state = 1) :
    WT (runInit s fu i).s ∧ Live (runInit s fu i).s := by
  have lv1 : Live s := ⟨fun h2 => by omega, fun h0 => by omega⟩
  unfold runInit
  simp only []
  split
  · exact ⟨h, lv1⟩
  · refine ⟨(show WT ({ s with state := 2, value := _, nextSerial := _ } : Sys) from
        ⟨h.wa, h.wp, h.ta, h.tp⟩).notifyAll, Live.notifyAll _ rfl⟩
  · split
    · exact ⟨h.guardDrop, Live.guardDrop s⟩
    · exact ⟨h, lv1⟩
  · exact ⟨h.guardDrop, Live.guardDrop s⟩
  · exact ⟨h, lv1⟩

theorem pollInit_k (s : Sys) (fu : Fut) (t : Nat) (i : Input) (h : WTE fu.id s) (lv : Live s)
    (hst : s.state ≤ 2) (hp : Ev.has s.pas fu.id = false)
    (hreg : Ev.has s.act fu.id = (fu.pc == .waiting)) (hrun : fu.pc = .running → s.state = 1)
    (hnd : fu.pc ≠ .done) :
    WT (pollInit s fu t i).s ∧ Live (pollInit s fu t i).s := by
  have wp := wakeOK_of_except' h.wp hp
  have hte := h.ta.toExcept (f := fu.id)
  unfold pollInit
  cases hpc : fu.pc with
  | start =>
    have hna : Ev.has s.act fu.id = false := by rw [hreg, hpc]; decide
    have wa := wakeOK_of_except' h.wa hna
    simp only []
    split
    · exact ⟨⟨wa, wp, h.ta, h.tp⟩, lv⟩
    · split
      · rename_i h1
        have := pend_ok' (t := t) (Ev.listen_wakeOKExcept h.wa) (Ev.listen_allTaskExcept hte)
          (Ev.isNotified_listen_fresh _ _ hna)
        exact ⟨⟨this.1, wp, this.2, h.tp⟩, ⟨fun h2 => by simp at h2; omega, fun h0 => by simp at h0; omega⟩⟩
      · exact runInit_k _ fu i ⟨wa, wp, h.ta, h.tp⟩ rfl
  | waiting =>
    simp only []
    split
    · rename_i hn; simp only [Bool.not_eq_true'] at hn
      have := pend_ok' (t := t) h.wa hte hn
      refine ⟨⟨this.1, wp, this.2, h.tp⟩, ⟨?_, ?_⟩⟩
      · intro h2
        exact ⟨Ev.setTask_allNotified _ _ (lv.allN h2).1, (lv.allN h2).2⟩
      · intro h0 hq
        simp only [Ev.cnt_setTask]
        exact lv.baton h0 (by intro hc; apply hq; simp [hc, Ev.setTask])
    · have wa' : WakeOK (Ev.erase s.act fu.id) s.woken := Ev.erase_wakeOK_of_except h.wa
      have ta' : AllTask (Ev.erase s.act fu.id) := Ev.erase_allTask_of_except hte
      split
      · refine ⟨⟨wa', wp, ta', h.tp⟩, ⟨?_, fun h0 => by simp at h0; omega⟩⟩
        intro h2
        exact ⟨Ev.erase_allNotified _ (lv.allN h2).1, (lv.allN h2).2⟩
      · split
        · have := pend_ok' (t := t) (Ev.listen_wakeOKExcept (Ev.erase_wakeOKExcept h.wa))
            (Ev.listen_allTaskExcept (Ev.erase_allTaskExcept hte)) (Ev.isNotified_listen_of_erased _ _)
          exact ⟨⟨this.1, wp, this.2, h.tp⟩,
            ⟨fun h2 => by simp at h2; omega, fun h0 => by simp at h0; omega⟩⟩
        · exact runInit_k _ fu i ⟨wa', wp, ta', h.tp⟩ rfl
  | running =>
    have hna : Ev.has s.act fu.id = false := by rw [hreg, hpc]; decide
    exact runInit_k s fu i ⟨wakeOK_of_except' h.wa hna, wp, h.ta, h.tp⟩ (hrun hpc)
  | done => exact absurd hpc hnd

theorem pollWait_k (s : Sys) (fu : Fut) (t : Nat) (h : WTE fu.id s) (lv : Live s)
    (ha : Ev.has s.act fu.id = false) (hreg : Ev.has s.pas fu.id = (fu.pc == .waiting)) :
    WT (pollWait s fu t).s ∧ Live (pollWait s fu t).s := by
  have wa := wakeOK_of_except' h.wa ha
  have hte := h.tp.toExcept (f := fu.id)
  unfold pollWait
  cases hpc : fu.pc with
  | start =>
    have hnp : Ev.has s.pas fu.id = false := by rw [hreg, hpc]; decide
    simp only []
    split
    · exact ⟨⟨wa, wakeOK_of_except' h.wp hnp, h.ta, h.tp⟩, lv⟩
    · rename_i h2
      have := pend_ok' (t := t) (Ev.listen_wakeOKExcept h.wp) (Ev.listen_allTaskExcept hte)
        (Ev.isNotified_listen_fresh _ _ hnp)
      exact ⟨⟨wa, this.1, h.ta, this.2⟩, ⟨fun hc => absurd hc h2, lv.baton⟩⟩
  | waiting =>
    simp only []
    split
    · rename_i hn; simp only [Bool.not_eq_true'] at hn
      have := pend_ok' (t := t) h.wp hte hn
      exact ⟨⟨wa, this.1, h.ta, this.2⟩,
        ⟨fun h2 => ⟨(lv.allN h2).1, Ev.setTask_allNotified _ _ (lv.allN h2).2⟩, lv.baton⟩⟩
    · exact ⟨⟨wa, Ev.erase_wakeOK_of_except h.wp, h.ta, Ev.erase_allTask_of_except hte⟩,
        ⟨fun h2 => ⟨(lv.allN h2).1, Ev.erase_allNotified _ (lv.allN h2).2⟩, lv.baton⟩⟩
  | running =>
    have hnp : Ev.has s.pas fu.id = false := by rw [hreg, hpc]; decide
    exact ⟨⟨wa, wakeOK_of_except' h.wp hnp, h.ta, h.tp⟩, lv⟩
  | done =>
    have hnp : Ev.has s.pas fu.id = false := by rw [hreg, hpc]; decide
    exact ⟨⟨wa, wakeOK_of_except' h.wp hnp, h.ta, h.tp⟩, lv⟩

end ALock.Once

namespace ALock.Once

theorem kinv_of {s s' : Sys} (wt : WT s') (lv : Live s') (ha : s.act = s'.act) (hp : s.pas = s'.pas)
    (hw : s.woken = s'.woken) (hs : s.state = s'.state) : KInv s :=
  ⟨⟨by rw [ha, hw]; exact wt.wa, by rw [hp, hw]; exact wt.wp, ha ▸ wt.ta, hp ▸ wt.tp⟩,
   ⟨by rw [hs, ha, hp]; exact lv.allN, by rw [hs, ha]; exact lv.baton⟩⟩

theorem nil_of_rev {q : List Entry} (h : ∀ g, Ev.has q g = true → False) : q = [] := by
  cases q with
  | nil => rfl
  | cons e t => exact (h e.owner (by simp [Ev.has])).elim

theorem step_kinv (s : Sys) (op : Op) (hw : WInv s) (hr : RInv s) (h : KInv s) : KInv (next s op) := by
  unfold next
  cases op with
  | start f k =>
    simp only [step]
    split
    · split <;> exact kinv_of h.wt h.live rfl rfl rfl rfl
    · exact h
  | poll f t i =>
    simp only [step]
    split
    · rename_i fu hfu
      obtain ⟨hmem, hid⟩ := findFut_mem hfu
      have hfl := hw.flags fu hmem
      have hrA := hr.regA fu hmem
      have hrP := hr.regP fu hmem
      split
      · exact h
      · rename_i hnd
        have wte := h.wt.enter f
        have lv0 : Live { s with woken := s.woken.filter (· != f) } := ⟨h.live.allN, h.live.baton⟩
        rw [← hid] at wte lv0
        by_cases hkw : fu.kind = .wait
        · simp only [hkw, if_true]
          have hkf : (fu.kind != Kind.wait) = false := by simp [hkw]
          have := pollWait_k { s with woken := s.woken.filter (· != fu.id) } fu t wte lv0
            (by simp [hrA, Fut.onAct, hkf]) (by simp [hrP, Fut.onPas, hkw])
          rw [hid] at this
          exact kinv_of this.1 this.2 rfl rfl rfl rfl
        · simp only [hkw, if_false]
          have hkb : (fu.kind != Kind.wait) = true := by simp [hkw]
          have hkf : (fu.kind == Kind.wait) = false := by simp [hkw]
          have := pollInit_k { s with woken := s.woken.filter (· != fu.id) } fu t i wte lv0 hw.st
            (by simp [hrP, Fut.onPas, hkf]) (by simp [hrA, Fut.onAct, hkb])
            (running_state hw hmem) hnd
          rw [hid] at this
          exact kinv_of this.1 this.2 rfl rfl rfl rfl
    · exact h
  | dropFut f =>
    simp only [step]
    split
    · rename_i fu hfu
      obtain ⟨hmem, hid⟩ := findFut_mem hfu
      have hfl := hw.flags fu hmem
      have hrA := hr.regA fu hmem
      have hrP := hr.regP fu hmem
      rw [hid] at hrA hrP
      have wte := h.wt.enter f
      have lv := h.live
      suffices hgoal : WT (dropFutS { s with woken := s.woken.filter (· != f) } fu) ∧
          Live (dropFutS { s with woken := s.woken.filter (· != f) } fu) from
        kinv_of hgoal.1 hgoal.2 rfl rfl rfl rfl
      have full : Ev.has s.act f = false → Ev.has s.pas f = false →
          WT ({ s with woken := s.woken.filter (· != f) } : Sys) :=
        fun h1 h2 => ⟨wakeOK_of_except' wte.wa h1, wakeOK_of_except' wte.wp h2, wte.ta, wte.tp⟩
      have lv0 : Live ({ s with woken := s.woken.filter (· != f) } : Sys) := ⟨lv.allN, lv.baton⟩
      by_cases hpw : fu.pc = .waiting
      · by_cases hkw : fu.kind = .wait
        · -- wait(), registered on passive_waiters
          have hd : dropFutS { s with woken := s.woken.filter (· != f) } fu
              = ({ s with woken := s.woken.filter (· != f) } : Sys).dropPas f := by
            unfold dropFutS; simp [hkw, hpw, hid]
          have hA0 : Ev.has s.act f = false := by simp [hrA, Fut.onAct, hkw]
          rw [hd]
          exact ⟨⟨wakeOK_mono (wakeOK_of_except' wte.wa hA0) (fun x hx => List.mem_append_right _ hx),
            Ev.drop_wakeOK f (wakeOK_cons_of_except wte.wp) wte.tp, wte.ta, Ev.drop_allTask f wte.tp⟩,
            ⟨fun h2 => ⟨(lv.allN h2).1, Ev.drop_allNotified f (lv.allN h2).2⟩, lv.baton⟩⟩
        · -- init-style, registered on active_initializers
          have hd : dropFutS { s with woken := s.woken.filter (· != f) } fu
              = ({ s with woken := s.woken.filter (· != f) } : Sys).dropAct f := by
            unfold dropFutS; cases hk : fu.kind <;> simp_all
          have hkf : (fu.kind == Kind.wait) = false := by simp [hkw]
          have hP0 : Ev.has s.pas f = false := by simp [hrP, Fut.onPas, hkf]
          rw [hd]
          refine ⟨⟨Ev.drop_wakeOK f (wakeOK_cons_of_except wte.wa) wte.ta,
            wakeOK_mono (wakeOK_of_except' wte.wp hP0) (fun x hx => List.mem_append_right _ hx),
            Ev.drop_allTask f wte.ta, wte.tp⟩,
            ⟨fun h2 => ⟨Ev.drop_allNotified f (lv.allN h2).1, (lv.allN h2).2⟩, ?_⟩⟩
          intro h0 hq
          simp only [dropAct_act] at hq ⊢
          have hne : s.act ≠ [] := by
            intro hc; apply hq; simp [hc, Ev.drop, Ev.isNotified, Ev.erase]
          exact Ev.drop_cnt_pos f (lv.baton h0 hne) hq
      · have hpb : (fu.pc == Pc.waiting) = false := by simp [hpw]
        have hA0 : Ev.has s.act f = false := by simp [hrA, Fut.onAct, hpb]
        have hP0 : Ev.has s.pas f = false := by simp [hrP, Fut.onPas, hpb]
        by_cases hpr : fu.pc = .running
        · have hkw : fu.kind ≠ .wait := fun hk => hfl.waitNoRun hk hpr
          have hd : dropFutS { s with woken := s.woken.filter (· != f) } fu
              = ({ s with woken := s.woken.filter (· != f) } : Sys).guardDrop := by
            unfold dropFutS; cases hk : fu.kind <;> simp_all
          rw [hd]
          exact ⟨(full hA0 hP0).guardDrop, Live.guardDrop _⟩
        · have hd : dropFutS { s with woken := s.woken.filter (· != f) } fu
              = ({ s with woken := s.woken.filter (· != f) } : Sys) := by
            unfold dropFutS; cases hk : fu.kind <;> cases hp : fu.pc <;> simp_all
          rw [hd]
          exact ⟨full hA0 hP0, lv0⟩
    · exact h
  | get => simp only [step]; (repeat' split) <;> exact h
  | take =>
    simp only [step]
    split
    · rename_i hc
      simp only [Bool.and_eq_true, List.isEmpty_iff, Bool.not_eq_true'] at hc
      split
      · have hnil : s.act = [] := nil_of_rev (fun g hg => by
          obtain ⟨x, hx, _⟩ := hr.revA g hg; rw [hc.1] at hx; cases hx)
        refine kinv_of (s' := { s with state := 0 }) ⟨h.wt.wa, h.wt.wp, h.wt.ta, h.wt.tp⟩
          ⟨fun h2 => by simp at h2, fun _ hq => absurd hnil hq⟩ rfl rfl rfl rfl
      · exact h
    · exact h
  | dropCell =>
    simp only [step]
    split
    · rename_i hc
      simp only [Bool.and_eq_true, List.isEmpty_iff, Bool.not_eq_true'] at hc
      have hnil : s.act = [] := nil_of_rev (fun g hg => by
        obtain ⟨x, hx, _⟩ := hr.revA g hg; rw [hc.1] at hx; cases hx)
      split
      · refine kinv_of (s' := { s with state := 0 }) ⟨h.wt.wa, h.wt.wp, h.wt.ta, h.wt.tp⟩
          ⟨fun h2 => by simp at h2, fun _ hq => absurd hnil hq⟩ rfl rfl rfl rfl
      · exact kinv_of h.wt h.live rfl rfl rfl rfl
    · exact h

theorem run_all (s : Sys) (ops : List Op) (hw : WInv s) (hr : RInv s) (h : KInv s) :
    WInv (run s ops) ∧ RInv (run s ops) ∧ KInv (run s ops) := by
  induction ops generalizing s with
  | nil => exact ⟨hw, hr, h⟩
  | cons op ops ih => exact ih _ (step_winv s op hw) (step_rinv s op hw hr) (step_kinv s op hw hr h)

theorem reachable_all (ops : List Op) :
    WInv (run {} ops) ∧ RInv (run {} ops) ∧ KInv (run {} ops) :=
  run_all _ ops init_winv init_rinv init_kinv

end ALock.Once

namespace ALock.Once

/-- a notified `passive_waiters` listener exists only while the cell is initialised -/
def PasInv (s : Sys) : Prop := 0 < cnt s.pas → s.state = 2

theorem pollInit_pas (s : Sys) (fu : Fut) (t : Nat) (i : Input) :
    let r := pollInit s fu t i
    (r.s.pas = s.pas ∧ (r.s.state = 2 → s.state = 2)) ∨ r.s.state = 2 := by
  unfold pollInit runInit
  cases fu.pc <;> simp only [] <;> (repeat' split) <;> simp_all [Sys.guardDrop, Sys.notifyAct1]

theorem pollWait_pas (s : Sys) (fu : Fut) (t : Nat) :
    let r := pollWait s fu t
    cnt r.s.pas ≤ cnt s.pas ∧ r.s.state = s.state := by
  unfold pollWait
  cases fu.pc <;> simp only [] <;> (repeat' split) <;>
    simp [Ev.cnt_setTask, Ev.cnt_listen, Ev.cnt_erase_le]

theorem step_pas (s : Sys) (op : Op) (hw : WInv s) (hr : RInv s) (h : PasInv s) : PasInv (next s op) := by
  unfold PasInv at *
  unfold next
  cases op with
  | start f k =>
    simp only [step]; split
    · split <;> exact h
    · exact h
  | poll f t i =>
    simp only [step]
    split
    · rename_i fu hfu
      split
      · exact h
      · by_cases hkw : fu.kind = .wait
        · simp only [hkw, if_true]
          have := pollWait_pas { s with woken := s.woken.filter (· != f) } fu t
          intro hc
          simp only [] at hc this ⊢
          rw [this.2]; exact h (by omega)
        · simp only [hkw, if_false]
          have := pollInit_pas { s with woken := s.woken.filter (· != f) } fu t i
          intro hc
          simp only [] at hc this ⊢
          rcases this with ⟨h1, h2⟩ | h2
          · rw [h1] at hc
            have := h hc
            -- the state was 2, and a poll does not leave state 2
            have hst := pollInit_word { s with woken := s.woken.filter (· != f) } fu t i
            by_cases hnd : fu.pc = .done
            · simp_all
            · obtain ⟨hm, _⟩ := findFut_mem hfu
              have hrs : fu.pc = .running → s.state = 1 := running_state hw hm
              have hnr : fu.pc ≠ .running := fun hc' => by have := hrs hc'; omega
              -- with state 2 and the caller not running the poll keeps state 2
              have : (pollInit { s with woken := s.woken.filter (· != f) } fu t i).s.state = 2 := by
                unfold pollInit
                cases hpc : fu.pc <;> simp only [] <;> (try exact absurd hpc hnd) <;>
                  (try exact absurd hpc hnr) <;> (repeat' split) <;> simp_all
              exact this
          · exact h2
    · exact h
  | dropFut f =>
    simp only [step]
    split
    · rename_i fu hfu
      obtain ⟨hm, _⟩ := findFut_mem hfu
      intro hc
      simp only [] at hc ⊢
      unfold dropFutS at hc ⊢
      cases hk : fu.kind <;> cases hp : fu.pc <;> simp only [hk, hp] at hc ⊢ <;>
        first
          | exact h hc
          | (simp only [dropPas_pas, dropPas_state] at hc ⊢; exact h (Ev.cnt_drop_pos hc))
          | (simp only [dropAct_pas, dropAct_state] at hc ⊢; exact h hc)
          | (-- running: the state was 1, so no passive listener is notified
             exfalso
             simp only [guardDrop_pas] at hc
             have := h hc
             have := running_state hw hm hp
             omega)
    · exact h
  | get => simp only [step]; (repeat' split) <;> exact h
  | take =>
    simp only [step]
    split
    · rename_i hcnd
      simp only [Bool.and_eq_true, List.isEmpty_iff, Bool.not_eq_true'] at hcnd
      have hnil : s.pas = [] := nil_of_rev (fun g hg => by
        obtain ⟨x, hx, _⟩ := hr.revP g hg; rw [hcnd.1] at hx; cases hx)
      split
      · intro hc; simp [hnil, cnt] at hc
      · exact h
    · exact h
  | dropCell =>
    simp only [step]
    split
    · rename_i hcnd
      simp only [Bool.and_eq_true, List.isEmpty_iff, Bool.not_eq_true'] at hcnd
      have hnil : s.pas = [] := nil_of_rev (fun g hg => by
        obtain ⟨x, hx, _⟩ := hr.revP g hg; rw [hcnd.1] at hx; cases hx)
      split
      · intro hc; simp [hnil, cnt] at hc
      · exact h
    · exact h

theorem reachable_pas (ops : List Op) : PasInv (run {} ops) := by
  have : ∀ (s : Sys), WInv s → RInv s → KInv s → PasInv s → PasInv (run s ops) := by
    induction ops with
    | nil => intro s _ _ _ h; exact h
    | cons op ops ih =>
      intro s hw hr hk h
      exact ih _ (step_winv s op hw) (step_rinv s op hw hr) (step_kinv s op hw hr hk) (step_pas s op hw hr h)
  exact this _ init_winv init_rinv init_kinv (by intro h; simp [cnt] at h)

end ALock.Once
