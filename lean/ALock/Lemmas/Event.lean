import ALock.Event

/-! Helper lemmas about the Event model. No property statements live here. -/

set_option linter.unusedSimpArgs false

namespace ALock

/-- Every notified entry's owner has an outstanding wake-up. -/
def WakeOK (q : List Entry) (w : List Nat) : Prop := ∀ e ∈ q, e.notified = true → e.owner ∈ w

/-- Every entry carries a waker (true between polls: a future that registers a listener polls it
before its own poll returns). -/
def AllTask (q : List Entry) : Prop := ∀ e ∈ q, e.task.isSome = true

theorem notifyQ_length (add : Bool) (n : Nat) (q : List Entry) :
    (notifyQ add n q).length = q.length := by
  fun_induction notifyQ add n q <;> simp_all

theorem notifyQ_nil_iff (add : Bool) (n : Nat) (q : List Entry) : notifyQ add n q = [] ↔ q = [] := by
  constructor
  · intro h
    have := notifyQ_length add n q
    rw [h] at this
    exact List.length_eq_zero_iff.mp this.symm
  · intro h; subst h; cases n <;> simp [notifyQ]

theorem notifyQ_allTask (add : Bool) (n : Nat) (q : List Entry) (h : AllTask q) :
    AllTask (notifyQ add n q) := by
  fun_induction notifyQ add n q <;> simp_all [AllTask]

theorem notifyQ_owners (add : Bool) (n : Nat) (q : List Entry) :
    (notifyQ add n q).map (·.owner) = q.map (·.owner) := by
  fun_induction notifyQ add n q <;> simp_all

theorem notify_wake (add : Bool) (n : Nat) (q : List Entry) (w : List Nat)
    (h : WakeOK q w) (ht : AllTask q) :
    WakeOK (notifyQ add n q) (notifyO n q ++ w) := by
  fun_induction notifyQ add n q <;> simp_all [WakeOK, AllTask, notifyO] <;> grind

theorem notifyQ_cnt_pos (add : Bool) (n : Nat) (q : List Entry) (hn : 0 < n) (hq : q ≠ []) :
    0 < cnt (notifyQ add n q) := by
  fun_induction notifyQ add n q <;> simp_all [cnt, List.countP_cons] <;> grind

theorem notifyQ_cnt_mono (add : Bool) (n : Nat) (q : List Entry) :
    cnt q ≤ cnt (notifyQ add n q) := by
  fun_induction notifyQ add n q <;> simp_all [cnt, List.countP_cons] <;> grind

theorem cnt_pos_iff (q : List Entry) : 0 < cnt q ↔ ∃ e ∈ q, e.notified = true := by
  simp [cnt, List.countP_pos_iff]

theorem cnt_le_length (q : List Entry) : cnt q ≤ q.length := by
  simp [cnt, List.countP_le_length]

/-! ### `Ev.notify` -/

theorem Ev.notify_ne_nil (add : Bool) (n : Nat) (q : List Entry) (h : q ≠ []) :
    Ev.notify add n q ≠ [] := by
  unfold Ev.notify; intro hc; exact h ((notifyQ_nil_iff _ _ _).mp hc)

theorem Ev.notify_nil (add : Bool) (n : Nat) : Ev.notify add n [] = [] := by
  unfold Ev.notify; exact (notifyQ_nil_iff _ _ _).mpr rfl

theorem Ev.notify_length (add : Bool) (n : Nat) (q : List Entry) :
    (Ev.notify add n q).length = q.length := notifyQ_length _ _ _

theorem Ev.notify_wakeOK (add : Bool) (n : Nat) (q : List Entry) (w : List Nat)
    (h : WakeOK q w) (ht : AllTask q) :
    WakeOK (Ev.notify add n q) (Ev.notifyOwners add n q ++ w) :=
  notify_wake _ _ _ _ h ht

theorem Ev.notify_allTask (add : Bool) (n : Nat) (q : List Entry) (ht : AllTask q) :
    AllTask (Ev.notify add n q) := notifyQ_allTask _ _ _ ht

theorem Ev.notify_cnt_mono (add : Bool) (n : Nat) (q : List Entry) :
    cnt q ≤ cnt (Ev.notify add n q) := notifyQ_cnt_mono _ _ _

/-- After `notify(n)` with `n ≥ 1` on a non-empty queue, some entry is notified. -/
theorem Ev.notify_cnt_pos (add : Bool) (n : Nat) (q : List Entry) (hn : 0 < n) (hq : q ≠ []) :
    0 < cnt (Ev.notify add n q) := by
  unfold Ev.notify notifyK
  by_cases hk : 0 < (if add = true then n else n - cnt q)
  · exact notifyQ_cnt_pos _ _ _ hk hq
  · have hm := notifyQ_cnt_mono add (if add = true then n else n - cnt q) q
    split at hk <;> omega

theorem Ev.notify_owners (add : Bool) (n : Nat) (q : List Entry) :
    (Ev.notify add n q).map (·.owner) = q.map (·.owner) := notifyQ_owners _ _ _

/-! ### `erase`, `setTask`, `listen` -/

theorem Ev.mem_erase {q : List Entry} {f : Nat} {e : Entry} :
    e ∈ Ev.erase q f ↔ e ∈ q ∧ e.owner ≠ f := by
  simp [Ev.erase]

theorem Ev.has_iff {q : List Entry} {f : Nat} : Ev.has q f = true ↔ ∃ e ∈ q, e.owner = f := by
  simp [Ev.has]

theorem Ev.has_false_iff {q : List Entry} {f : Nat} : Ev.has q f = false ↔ ∀ e ∈ q, e.owner ≠ f := by
  simp [Ev.has]

theorem Ev.isNotified_iff {q : List Entry} {f : Nat} :
    Ev.isNotified q f = true ↔ ∃ e ∈ q, e.owner = f ∧ e.notified = true := by
  simp [Ev.isNotified]

theorem Ev.isNotified_false_iff {q : List Entry} {f : Nat} :
    Ev.isNotified q f = false ↔ ∀ e ∈ q, e.owner = f → e.notified = false := by
  simp [Ev.isNotified]

theorem Ev.has_erase_self (q : List Entry) (f : Nat) : Ev.has (Ev.erase q f) f = false := by
  simp [Ev.has, Ev.erase]

theorem Ev.has_erase_ne (q : List Entry) {f g : Nat} (h : g ≠ f) :
    Ev.has (Ev.erase q f) g = Ev.has q g := by
  induction q with
  | nil => rfl
  | cons a t ih =>
    simp only [Ev.has, Ev.erase] at ih ⊢
    by_cases ha : a.owner = f <;> by_cases hg : a.owner = g <;>
      simp_all [List.filter_cons]

theorem Ev.cnt_erase_of_not_notified (q : List Entry) (f : Nat) (h : Ev.isNotified q f = false) :
    cnt (Ev.erase q f) = cnt q := by
  induction q with
  | nil => rfl
  | cons a t ih =>
    simp only [Ev.isNotified, List.any_cons, Bool.or_eq_false_iff, Bool.and_eq_false_iff] at h
    have iht := ih (by simpa [Ev.isNotified] using h.2)
    simp only [Ev.erase, cnt] at iht ⊢
    by_cases ha : a.owner = f <;> by_cases hn : a.notified <;>
      simp_all [List.filter_cons, List.countP_cons]

theorem Ev.cnt_erase_le (q : List Entry) (f : Nat) : cnt (Ev.erase q f) ≤ cnt q := by
  induction q with
  | nil => simp [Ev.erase]
  | cons a t ih =>
    simp only [Ev.erase, cnt] at ih ⊢
    by_cases ha : a.owner = f <;> by_cases hn : a.notified <;>
      simp_all [List.filter_cons, List.countP_cons] <;> omega

theorem Ev.erase_allTask {q : List Entry} (f : Nat) (h : AllTask q) : AllTask (Ev.erase q f) :=
  fun e he => h e (Ev.mem_erase.mp he).1

theorem Ev.erase_wakeOK {q : List Entry} {w : List Nat} (f : Nat) (h : WakeOK q (f :: w)) :
    WakeOK (Ev.erase q f) w := by
  intro e he hn
  have hm := Ev.mem_erase.mp he
  have h2 := h e hm.1 hn
  simp at h2
  rcases h2 with h2 | h2
  · exact absurd h2 hm.2
  · exact h2

theorem wakeOK_filter (q : List Entry) (w : List Nat) (f : Nat) (h : WakeOK q w) :
    WakeOK q (f :: w.filter (· != f)) := by
  intro e he hn
  have := h e he hn
  by_cases hf : e.owner = f <;> simp_all

theorem wakeOK_mono {q : List Entry} {w w' : List Nat} (h : WakeOK q w) (hs : ∀ x ∈ w, x ∈ w') :
    WakeOK q w' := fun e he hn => hs _ (h e he hn)

theorem Ev.setTask_allTask {q : List Entry} (f t : Nat) (h : AllTask q) :
    AllTask (Ev.setTask q f t) := by
  intro e he
  simp only [Ev.setTask, List.mem_map] at he
  obtain ⟨e0, he0, rfl⟩ := he
  have := h e0 he0
  split <;> simp_all

theorem Ev.setTask_length (q : List Entry) (f t : Nat) : (Ev.setTask q f t).length = q.length := by
  simp [Ev.setTask]

theorem Ev.setTask_owners (q : List Entry) (f t : Nat) :
    (Ev.setTask q f t).map (·.owner) = q.map (·.owner) := by
  simp only [Ev.setTask, List.map_map]
  apply List.map_congr_left
  intro e _
  simp only [Function.comp]
  split <;> rfl

theorem Ev.cnt_setTask (q : List Entry) (f t : Nat) : cnt (Ev.setTask q f t) = cnt q := by
  induction q with
  | nil => rfl
  | cons a l ih =>
    simp only [Ev.setTask, cnt] at ih ⊢
    by_cases ha : a.owner = f <;> by_cases hn : a.notified <;>
      simp_all [List.countP_cons]

/-- `has` in terms of the owner list, the form that survives `notify`/`setTask`. -/
theorem Ev.has_eq_owners (q : List Entry) (f : Nat) : Ev.has q f = (q.map (·.owner)).contains f := by
  induction q with
  | nil => rfl
  | cons a t ih =>
    simp only [Ev.has] at ih
    simp only [Ev.has, List.any_cons, List.map_cons, List.contains_cons, ih]
    by_cases h : a.owner = f
    · simp [h]
    · have h' : ¬ f = a.owner := fun hc => h hc.symm
      have h1 : (a.owner == f) = false := by simp [h]
      have h2 : (f == a.owner) = false := by simp [h']
      simp [h1, h2]

theorem Ev.has_notify (add : Bool) (n : Nat) (q : List Entry) (f : Nat) :
    Ev.has (Ev.notify add n q) f = Ev.has q f := by
  rw [Ev.has_eq_owners, Ev.has_eq_owners, Ev.notify_owners]

theorem Ev.has_setTask (q : List Entry) (f t g : Nat) :
    Ev.has (Ev.setTask q f t) g = Ev.has q g := by
  rw [Ev.has_eq_owners, Ev.has_eq_owners, Ev.setTask_owners]

theorem Ev.has_listen (q : List Entry) (f g : Nat) :
    Ev.has (Ev.listen q f) g = (Ev.has q g || f == g) := by
  simp [Ev.has, Ev.listen]

/-! ### `Ev.drop` -/

theorem Ev.drop_has_self (q : List Entry) (f : Nat) : Ev.has (Ev.drop q f) f = false := by
  unfold Ev.drop; split
  · rw [Ev.has_notify]; exact Ev.has_erase_self q f
  · exact Ev.has_erase_self q f

theorem Ev.drop_has_ne (q : List Entry) {f g : Nat} (h : g ≠ f) :
    Ev.has (Ev.drop q f) g = Ev.has q g := by
  unfold Ev.drop; split
  · rw [Ev.has_notify]; exact Ev.has_erase_ne q h
  · exact Ev.has_erase_ne q h

theorem Ev.drop_allTask {q : List Entry} (f : Nat) (h : AllTask q) : AllTask (Ev.drop q f) := by
  unfold Ev.drop; split
  · exact Ev.notify_allTask _ _ _ (Ev.erase_allTask f h)
  · exact Ev.erase_allTask f h

theorem Ev.drop_wakeOK {q : List Entry} {w : List Nat} (f : Nat) (h : WakeOK q (f :: w))
    (ht : AllTask q) : WakeOK (Ev.drop q f) (Ev.dropOwners q f ++ w) := by
  unfold Ev.drop Ev.dropOwners; split
  · exact Ev.notify_wakeOK _ _ _ _ (Ev.erase_wakeOK f h) (Ev.erase_allTask f ht)
  · simpa using Ev.erase_wakeOK f h

/-- Dropping a listener never leaves a non-empty queue without a notified entry if there was
one before: either the dropped entry was not the notified one, or its notification is forwarded. -/
theorem Ev.drop_cnt_pos {q : List Entry} (f : Nat) (h : 0 < cnt q) (hne : Ev.drop q f ≠ []) :
    0 < cnt (Ev.drop q f) := by
  unfold Ev.drop at hne ⊢; split
  · rename_i hn
    simp only [hn, if_true] at hne
    have : Ev.erase q f ≠ [] := by
      intro hc; apply hne; rw [hc]; exact Ev.notify_nil _ _
    exact Ev.notify_cnt_pos _ 1 _ (by omega) this
  · rename_i hn
    simp only [Bool.not_eq_true] at hn
    rw [Ev.cnt_erase_of_not_notified _ _ hn]; exact h


/-! ### variants that tolerate one owner's fresh, task-less listener (inside a poll) -/

/-- like `WakeOK`, except for entries owned by `f` (the future being polled right now) -/
def WakeOKExcept (f : Nat) (q : List Entry) (w : List Nat) : Prop :=
  ∀ e ∈ q, e.notified = true → e.owner ≠ f → e.owner ∈ w

/-- like `AllTask`, except for entries owned by `f` -/
def AllTaskExcept (f : Nat) (q : List Entry) : Prop := ∀ e ∈ q, e.owner ≠ f → e.task.isSome = true

theorem wakeOKExcept_of_cons {f : Nat} {q : List Entry} {w : List Nat} (h : WakeOK q (f :: w)) :
    WakeOKExcept f q w := by
  intro e he hn hf
  have := h e he hn
  simp at this
  rcases this with h1 | h1
  · exact absurd h1 hf
  · exact h1

theorem WakeOK.toExcept {f : Nat} {q : List Entry} {w : List Nat} (h : WakeOK q w) :
    WakeOKExcept f q w := fun e he hn _ => h e he hn

theorem AllTask.toExcept {f : Nat} {q : List Entry} (h : AllTask q) : AllTaskExcept f q :=
  fun e he _ => h e he

theorem notify_wake_except (f : Nat) (add : Bool) (n : Nat) (q : List Entry) (w : List Nat)
    (h : WakeOKExcept f q w) (ht : AllTaskExcept f q) :
    WakeOKExcept f (notifyQ add n q) (notifyO n q ++ w) := by
  induction q generalizing n with
  | nil => intro x hx; cases n <;> simp [notifyQ] at hx
  | cons e q ih =>
    cases n with
    | zero => simpa [notifyQ, notifyO] using h
    | succ n =>
      have hq : WakeOKExcept f q w := fun x hx => h x (List.mem_cons_of_mem _ hx)
      have htq : AllTaskExcept f q := fun x hx => ht x (List.mem_cons_of_mem _ hx)
      by_cases hn : e.notified = true
      · simp only [notifyQ, notifyO, hn, if_true]
        intro x hx hxn hxf
        rcases List.mem_cons.mp hx with rfl | hx
        · exact List.mem_append_right _ (h x List.mem_cons_self hn hxf)
        · exact ih (n+1) hq htq x hx hxn hxf
      · have hn' : e.notified = false := by simpa using hn
        simp only [notifyQ, notifyO, hn', Bool.false_eq_true, if_false]
        intro x hx hxn hxf
        rcases List.mem_cons.mp hx with rfl | hx
        · have := ht e List.mem_cons_self hxf
          simp [this]
        · have := ih n hq htq x hx hxn hxf
          by_cases ht' : e.task.isSome = true
          · simp only [ht', if_true, List.cons_append]
            exact List.mem_cons_of_mem _ this
          · simp only [ht', if_false]
            exact this

theorem notifyQ_allTaskExcept (f : Nat) (add : Bool) (n : Nat) (q : List Entry)
    (h : AllTaskExcept f q) : AllTaskExcept f (notifyQ add n q) := by
  fun_induction notifyQ add n q <;> simp_all [AllTaskExcept]

theorem Ev.notify_wakeOKExcept (f : Nat) (add : Bool) (n : Nat) (q : List Entry) (w : List Nat)
    (h : WakeOKExcept f q w) (ht : AllTaskExcept f q) :
    WakeOKExcept f (Ev.notify add n q) (Ev.notifyOwners add n q ++ w) :=
  notify_wake_except f _ _ _ _ h ht

theorem Ev.notify_allTaskExcept (f : Nat) (add : Bool) (n : Nat) (q : List Entry)
    (ht : AllTaskExcept f q) : AllTaskExcept f (Ev.notify add n q) :=
  notifyQ_allTaskExcept f _ _ _ ht

theorem Ev.listen_wakeOKExcept {f : Nat} {q : List Entry} {w : List Nat}
    (h : WakeOKExcept f q w) : WakeOKExcept f (Ev.listen q f) w := by
  intro e he hn hf
  simp only [Ev.listen, List.mem_append, List.mem_singleton] at he
  rcases he with he | he
  · exact h e he hn hf
  · subst he; simp at hn

theorem Ev.listen_allTaskExcept {f : Nat} {q : List Entry} (h : AllTaskExcept f q) :
    AllTaskExcept f (Ev.listen q f) := by
  intro e he hf
  simp only [Ev.listen, List.mem_append, List.mem_singleton] at he
  rcases he with he | he
  · exact h e he hf
  · subst he; simp at hf

theorem Ev.erase_wakeOK_of_except {f : Nat} {q : List Entry} {w : List Nat}
    (h : WakeOKExcept f q w) : WakeOK (Ev.erase q f) w := by
  intro e he hn
  have hm := Ev.mem_erase.mp he
  exact h e hm.1 hn hm.2

theorem Ev.erase_allTask_of_except {f : Nat} {q : List Entry} (h : AllTaskExcept f q) :
    AllTask (Ev.erase q f) := by
  intro e he
  have hm := Ev.mem_erase.mp he
  exact h e hm.1 hm.2

theorem Ev.erase_wakeOKExcept {f g : Nat} {q : List Entry} {w : List Nat}
    (h : WakeOKExcept f q w) : WakeOKExcept f (Ev.erase q g) w :=
  fun e he hn hf => h e (Ev.mem_erase.mp he).1 hn hf

theorem Ev.erase_allTaskExcept {f g : Nat} {q : List Entry} (h : AllTaskExcept f q) :
    AllTaskExcept f (Ev.erase q g) :=
  fun e he hf => h e (Ev.mem_erase.mp he).1 hf

/-- `setTask f` on a queue whose `f`-entries are not notified closes the exception -/
theorem Ev.setTask_wakeOK_of_except {f t : Nat} {q : List Entry} {w : List Nat}
    (h : WakeOKExcept f q w) (hn : Ev.isNotified q f = false) : WakeOK (Ev.setTask q f t) w := by
  intro e he hne
  simp only [Ev.setTask, List.mem_map] at he
  obtain ⟨e0, he0, rfl⟩ := he
  by_cases hf : e0.owner = f
  · exfalso
    have h1 := Ev.isNotified_false_iff.mp hn e0 he0 hf
    simp [hf, h1] at hne
  · have hn0 : e0.notified = true := by simpa [hf] using hne
    have := h e0 he0 hn0 hf
    simpa [hf] using this

theorem Ev.setTask_allTask_of_except {f t : Nat} {q : List Entry} (h : AllTaskExcept f q) :
    AllTask (Ev.setTask q f t) := by
  intro e he
  simp only [Ev.setTask, List.mem_map] at he
  obtain ⟨e0, he0, rfl⟩ := he
  by_cases hf : e0.owner = f
  · simp [hf]
  · simpa [hf] using h e0 he0 hf

theorem Ev.isNotified_listen_of_erased (q : List Entry) (f : Nat) :
    Ev.isNotified (Ev.listen (Ev.erase q f) f) f = false := by
  simp only [Ev.isNotified, Ev.listen, Ev.erase, List.any_append, List.any_cons, List.any_nil,
    Bool.or_false, Bool.or_eq_false_iff]
  refine ⟨?_, by simp⟩
  simp only [List.any_eq_false, List.mem_filter, Bool.and_eq_true, beq_iff_eq, not_and, and_imp]
  intro x _ h1 h2
  simp [h2] at h1

theorem Ev.isNotified_listen_fresh (q : List Entry) (f : Nat) (h : Ev.has q f = false) :
    Ev.isNotified (Ev.listen q f) f = false := by
  have := Ev.has_false_iff.mp h
  simp only [Ev.isNotified, Ev.listen, List.any_append, List.any_cons, List.any_nil,
    Bool.or_false, Bool.or_eq_false_iff]
  refine ⟨?_, by simp⟩
  simp only [List.any_eq_false, Bool.and_eq_true, beq_iff_eq, not_and]
  intro e he hf
  exact absurd hf (this e he)

theorem Ev.cnt_listen (q : List Entry) (f : Nat) : cnt (Ev.listen q f) = cnt q := by
  simp [cnt, Ev.listen, List.countP_append]

theorem Ev.listen_ne_nil (q : List Entry) (f : Nat) : Ev.listen q f ≠ [] := by
  simp [Ev.listen]

theorem Ev.setTask_ne_nil {q : List Entry} (f t : Nat) (h : q ≠ []) : Ev.setTask q f t ≠ [] := by
  intro hc
  have := Ev.setTask_length q f t
  rw [hc] at this
  exact h (List.length_eq_zero_iff.mp this.symm)

theorem Ev.setTask_eq_nil_iff (q : List Entry) (f t : Nat) : Ev.setTask q f t = [] ↔ q = [] := by
  simp [Ev.setTask]

theorem Ev.has_erase (q : List Entry) (f g : Nat) :
    Ev.has (Ev.erase q f) g = (Ev.has q g && g != f) := by
  by_cases h : g = f
  · subst h; simp [Ev.has_erase_self]
  · rw [Ev.has_erase_ne q h]; simp [h]

theorem Ev.has_drop (q : List Entry) (f g : Nat) :
    Ev.has (Ev.drop q f) g = (Ev.has q g && g != f) := by
  by_cases h : g = f
  · subst h; simp [Ev.drop_has_self]
  · rw [Ev.drop_has_ne q h]; simp [h]

theorem Ev.setTask_task {q : List Entry} {f t : Nat} {e : Entry}
    (he : e ∈ Ev.setTask q f t) (ho : e.owner = f) : e.task = some t := by
  simp only [Ev.setTask, List.mem_map] at he
  obtain ⟨e0, _, rfl⟩ := he
  by_cases h0 : e0.owner = f
  · simp [h0]
  · simp [h0] at ho

theorem Ev.drop_wake_except {q : List Entry} {w : List Nat} (f : Nat) (h : WakeOKExcept f q w)
    (ht : AllTaskExcept f q) :
    WakeOK (Ev.drop q f) (Ev.dropOwners q f ++ w) ∧ AllTask (Ev.drop q f) := by
  have h1 := Ev.erase_wakeOK_of_except h
  have h2 := Ev.erase_allTask_of_except ht
  unfold Ev.drop Ev.dropOwners; split
  · exact ⟨Ev.notify_wakeOK _ _ _ _ h1 h2, Ev.notify_allTask _ _ _ h2⟩
  · exact ⟨by simpa using h1, h2⟩

theorem allTask_of_except {f : Nat} {q : List Entry} (h : AllTaskExcept f q)
    (hn : Ev.has q f = false) : AllTask q :=
  fun e he => h e he (Ev.has_false_iff.mp hn e he)

theorem Ev.has_ne_nil {q : List Entry} {f : Nat} (h : Ev.has q f = true) : q ≠ [] := by
  obtain ⟨e, he, _⟩ := Ev.has_iff.mp h
  exact List.ne_nil_of_mem he

end ALock

namespace ALock

/-! ### how many wakers a notification can call -/

theorem notifyO_length_le (n : Nat) (q : List Entry) : (notifyO n q).length ≤ n := by
  fun_induction notifyO n q <;> simp_all <;> omega

theorem Ev.notifyOwners_length_le (add : Bool) (n : Nat) (q : List Entry) :
    (Ev.notifyOwners add n q).length ≤ n := by
  unfold Ev.notifyOwners notifyK
  split
  · exact notifyO_length_le n q
  · have := notifyO_length_le (n - cnt q) q
    omega

theorem Ev.dropOwners_length_le (q : List Entry) (f : Nat) : (Ev.dropOwners q f).length ≤ 1 := by
  unfold Ev.dropOwners
  split
  · exact Ev.notifyOwners_length_le _ 1 _
  · simp

theorem filter_ne_length_lt {l : List Nat} {f : Nat} (h : f ∈ l) :
    (l.filter (· != f)).length < l.length := by
  induction l with
  | nil => cases h
  | cons a t ih =>
    by_cases ha : a = f
    · subst ha
      have := List.length_filter_le (· != a) t
      simp [List.filter_cons]; omega
    · have hf : f ∈ t := by
        rcases List.mem_cons.mp h with h | h
        · exact absurd h.symm ha
        · exact h
      have := ih hf
      simp [List.filter_cons, ha]; omega

theorem filter_ne_length_le (l : List Nat) (f : Nat) : (l.filter (· != f)).length ≤ l.length :=
  List.length_filter_le _ _

end ALock

namespace ALock

/-! ### "notify everybody" -/

def AllNotified (q : List Entry) : Prop := ∀ e ∈ q, e.notified = true

theorem notifyQ_all (add : Bool) (n : Nat) (q : List Entry) (h : q.length ≤ n) :
    AllNotified (notifyQ add n q) := by
  induction q generalizing n with
  | nil => intro e he; cases n <;> simp [notifyQ] at he
  | cons a t ih =>
    cases n with
    | zero => simp at h
    | succ n =>
      simp only [List.length_cons] at h
      intro e he
      by_cases ha : a.notified = true
      · simp only [notifyQ, ha, if_true, List.mem_cons] at he
        rcases he with rfl | he
        · exact ha
        · exact ih (n+1) (by omega) e he
      · have ha' : a.notified = false := by simpa using ha
        simp only [notifyQ, ha', Bool.false_eq_true, if_false, List.mem_cons] at he
        rcases he with rfl | he
        · rfl
        · exact ih n (by omega) e he

theorem Ev.notify_all (q : List Entry) : AllNotified (Ev.notify true q.length q) := by
  unfold Ev.notify notifyK
  simp only [if_true]
  exact notifyQ_all true _ q (Nat.le_refl _)

theorem notifyQ_allNotified (add : Bool) (n : Nat) (q : List Entry) (h : AllNotified q) :
    AllNotified (notifyQ add n q) := by
  fun_induction notifyQ add n q <;> simp_all [AllNotified]

theorem Ev.notify_allNotified (add : Bool) (n : Nat) (q : List Entry) (h : AllNotified q) :
    AllNotified (Ev.notify add n q) := notifyQ_allNotified _ _ _ h

theorem Ev.erase_allNotified {q : List Entry} (f : Nat) (h : AllNotified q) :
    AllNotified (Ev.erase q f) := fun e he => h e (Ev.mem_erase.mp he).1

theorem Ev.setTask_allNotified {q : List Entry} (f t : Nat) (h : AllNotified q) :
    AllNotified (Ev.setTask q f t) := by
  intro e he
  simp only [Ev.setTask, List.mem_map] at he
  obtain ⟨e0, he0, rfl⟩ := he
  have := h e0 he0
  split <;> simp [this]

theorem Ev.drop_allNotified {q : List Entry} (f : Nat) (h : AllNotified q) :
    AllNotified (Ev.drop q f) := by
  unfold Ev.drop; split
  · exact Ev.notify_allNotified _ _ _ (Ev.erase_allNotified f h)
  · exact Ev.erase_allNotified f h

theorem allNotified_isNotified {q : List Entry} {f : Nat} (h : AllNotified q) (hh : Ev.has q f = true) :
    Ev.isNotified q f = true := by
  obtain ⟨e, he, ho⟩ := Ev.has_iff.mp hh
  exact Ev.isNotified_iff.mpr ⟨e, he, ho, h e he⟩

theorem wakeOK_cons_of_except {f : Nat} {q : List Entry} {w : List Nat} (h : WakeOKExcept f q w) :
    WakeOK q (f :: w) := by
  intro e he hn
  by_cases hf : e.owner = f
  · simp [hf]
  · exact List.mem_cons_of_mem _ (h e he hn hf)


end ALock

namespace ALock

theorem notifyQ_cnt_of_zero (add : Bool) (q : List Entry) : cnt (notifyQ add 0 q) = cnt q := by
  simp [notifyQ]

theorem Ev.cnt_drop_pos {q : List Entry} {f : Nat} (h : 0 < cnt (Ev.drop q f)) : 0 < cnt q := by
  unfold Ev.drop at h
  split at h
  · rename_i hn
    obtain ⟨e, he, _, hne⟩ := Ev.isNotified_iff.mp hn
    exact (cnt_pos_iff _).mpr ⟨e, he, hne⟩
  · exact Nat.lt_of_lt_of_le h (Ev.cnt_erase_le q f)

theorem wakeOK_of_except_nohas {f : Nat} {q : List Entry} {w : List Nat} (h : WakeOKExcept f q w)
    (hn : Ev.has q f = false) : WakeOK q w :=
  fun e he hne => h e he hne (Ev.has_false_iff.mp hn e he)

end ALock
