import ALock.Event

/-! Helper lemmas about the Event model. No property statements live here. -/

set_option linter.unusedSimpArgs false

namespace ALock

/-- Every notified entry's owner has an outstanding wake-up. -/
def WakeOK (q : List Entry) (w : List Nat) : Prop := ∀ e ∈ q, e.notified = true → e.owner ∈ w

/-- Every entry carries a waker (true between polls: a future that registers a listener polls it
before its own poll returns). -/
def AllTask (q : List Entry) : Prop := ∀ e ∈ q, e.task.isSome = true

theorem notifyQ_length (add : Bool) (n : Nat) (q : List Entry) :
    (notifyQ add n q).length = q.length := by
  fun_induction notifyQ add n q <;> simp_all

theorem notifyQ_nil_iff (add : Bool) (n : Nat) (q : List Entry) : notifyQ add n q = [] ↔ q = [] := by
  constructor
  · intro h
    have := notifyQ_length add n q
    rw [h] at this
    exact List.length_eq_zero_iff.mp this.symm
  · intro h; subst h; cases n <;> simp [notifyQ]

theorem notifyQ_allTask (add : Bool) (n : Nat) (q : List Entry) (h : AllTask q) :
    AllTask (notifyQ add n q) := by
  fun_induction notifyQ add n q <;> simp_all [AllTask]

theorem notifyQ_owners (add : Bool) (n : Nat) (q : List Entry) :
    (notifyQ add n q).map (·.owner) = q.map (·.owner) := by
  fun_induction notifyQ add n q <;> simp_all

theorem notify_wake (add : Bool) (n : Nat) (q : List Entry) (w : List Nat)
    (h : WakeOK q w) (ht : AllTask q) :
    WakeOK (notifyQ add n q) (notifyO n q ++ w) := by
  fun_induction notifyQ add n q <;> simp_all [WakeOK, AllTask, notifyO] <;> grind

theorem notifyQ_cnt_pos (add : Bool) (n : Nat) (q : List Entry) (hn : 0 < n) (hq : q ≠ []) :
    0 < cnt (notifyQ add n q) := by
  fun_induction notifyQ add n q <;> simp_all [cnt, List.countP_cons] <;> grind

theorem notifyQ_cnt_mono (add : Bool) (n : Nat) (q : List Entry) :
    cnt q ≤ cnt (notifyQ add n q) := by
  fun_induction notifyQ add n q <;> simp_all [cnt, List.countP_cons] <;> grind

theorem cnt_pos_iff (q : List Entry) : 0 < cnt q ↔ ∃ e ∈ q, e.notified = true := by
  simp [cnt, List.countP_pos_iff]

theorem cnt_le_length (q : List Entry) : cnt q ≤ q.length := by
  simp [cnt, List.countP_le_length]

/-! ### `Ev.notify` -/

theorem Ev.notify_ne_nil (add : Bool) (n : Nat) (q : List Entry) (h : q ≠ []) :
    Ev.notify add n q ≠ [] := by
  unfold Ev.notify; intro hc; exact h ((notifyQ_nil_iff _ _ _).mp hc)

theorem Ev.notify_nil (add : Bool) (n : Nat) : Ev.notify add n [] = [] := by
  unfold Ev.notify; exact (notifyQ_nil_iff _ _ _).mpr rfl

theorem Ev.notify_length (add : Bool) (n : Nat) (q : List Entry) :
    (Ev.notify add n q).length = q.length := notifyQ_length _ _ _

theorem Ev.notify_wakeOK (add : Bool) (n : Nat) (q : List Entry) (w : List Nat)
    (h : WakeOK q w) (ht : AllTask q) :
    WakeOK (Ev.notify add n q) (Ev.notifyOwners add n q ++ w) :=
  notify_wake _ _ _ _ h ht

theorem Ev.notify_allTask (add : Bool) (n : Nat) (q : List Entry) (ht : AllTask q) :
    AllTask (Ev.notify add n q) := notifyQ_allTask _ _ _ ht

theorem Ev.notify_cnt_mono (add : Bool) (n : Nat) (q : List Entry) :
    cnt q ≤ cnt (Ev.notify add n q) := notifyQ_cnt_mono _ _ _

/-- After `notify(n)` with `n ≥ 1` on a non-empty queue, some entry is notified. -/
theorem Ev.notify_cnt_pos (add : Bool) (n : Nat) (q : List Entry) (hn : 0 < n) (hq : q ≠ []) :
    0 < cnt (Ev.notify add n q) := by
  unfold Ev.notify notifyK
  by_cases hk : 0 < (if add = true then n else n - cnt q)
  · exact notifyQ_cnt_pos _ _ _ hk hq
  · have hm := notifyQ_cnt_mono add (if add = true then n else n - cnt q) q
    split at hk <;> omega

theorem Ev.notify_owners (add : Bool) (n : Nat) (q : List Entry) :
    (Ev.notify add n q).map (·.owner) = q.map (·.owner) := notifyQ_owners _ _ _

/-! ### `erase`, `setTask`, `listen` -/

theorem Ev.mem_erase {q : List Entry} {f : Nat} {e : Entry} :
    e ∈ Ev.erase q f ↔ e ∈ q ∧ e.owner ≠ f := by
  simp [Ev.erase]

theorem Ev.has_iff {q : List Entry} {f : Nat} : Ev.has q f = true ↔ ∃ e ∈ q, e.owner = f := by
  simp [Ev.has]

theorem Ev.has_false_iff {q : List Entry} {f : Nat} : Ev.has q f = false ↔ ∀ e ∈ q, e.owner ≠ f := by
  simp [Ev.has]

theorem Ev.isNotified_iff {q : List Entry} {f : Nat} :
    Ev.isNotified q f = true ↔ ∃ e ∈ q, e.owner = f ∧ e.notified = true := by
  simp [Ev.isNotified]

theorem Ev.isNotified_false_iff {q : List Entry} {f : Nat} :
    Ev.isNotified q f = false ↔ ∀ e ∈ q, e.owner = f → e.notified = false := by
  simp [Ev.isNotified]

theorem Ev.has_erase_self (q : List Entry) (f : Nat) : Ev.has (Ev.erase q f) f = false := by
  simp [Ev.has, Ev.erase]

theorem Ev.has_erase_ne (q : List Entry) {f g : Nat} (h : g ≠ f) :
    Ev.has (Ev.erase q f) g = Ev.has q g := by
  induction q with
  | nil => rfl
  | cons a t ih =>
    simp only [Ev.has, Ev.erase] at ih ⊢
    by_cases ha : a.owner = f <;> by_cases hg : a.owner = g <;>
      simp_all [List.filter_cons]

theorem Ev.cnt_erase_of_not_notified (q : List Entry) (f : Nat) (h : Ev.isNotified q f = false) :
    cnt (Ev.erase q f) = cnt q := by
  induction q with
  | nil => rfl
  | cons a t ih =>
    simp only [Ev.isNotified, List.any_cons, Bool.or_eq_false_iff, Bool.and_eq_false_iff] at h
    have iht := ih (by simpa [Ev.isNotified] using h.2)
    simp only [Ev.erase, cnt] at iht ⊢
    by_cases ha : a.owner = f <;> by_cases hn : a.notified <;>
      simp_all [List.filter_cons, List.countP_cons]

theorem Ev.cnt_erase_le (q : List Entry) (f : Nat) : cnt (Ev.erase q f) ≤ cnt q := by
  induction q with
  | nil => simp [Ev.erase]
  | cons a t ih =>
    simp only [Ev.erase, cnt] at ih ⊢
    by_cases ha : a.owner = f <;> by_cases hn : a.notified <;>
      simp_all [List.filter_cons, List.countP_cons] <;> omega

theorem Ev.erase_allTask {q : List Entry} (f : Nat) (h : AllTask q) : AllTask (Ev.erase q f) :=
  fun e he => h e (Ev.mem_erase.mp he).1

theorem Ev.erase_wakeOK {q : List Entry} {w : List Nat} (f : Nat) (h : WakeOK q (f :: w)) :
    WakeOK (Ev.erase q f) w := by
  intro e he hn
  have hm := Ev.mem_erase.mp he
  have h2 := h e hm.1 hn
  simp at h2
  rcases h2 with h2 | h2
  · exact absurd h2 hm.2
  · exact h2

theorem wakeOK_filter (q : List Entry) (w : List Nat) (f : Nat) (h : WakeOK q w) :
    WakeOK q (f :: w.filter (· != f)) := by
  intro e he hn
  have := h e he hn
  by_cases hf : e.owner = f <;> simp_all

theorem wakeOK_mono {q : List Entry} {w w' : List Nat} (h : WakeOK q w) (hs : ∀ x ∈ w, x ∈ w') :
    WakeOK q w' := fun e he hn => hs _ (h e he hn)

theorem Ev.setTask_allTask {q : List Entry} (f t : Nat) (h : AllTask q) :
    AllTask (Ev.setTask q f t) := by
  intro e he
  simp only [Ev.setTask, List.mem_map] at he
  obtain ⟨e0, he0, rfl⟩ := he
  have := h e0 he0
  split <;> simp_all

theorem Ev.setTask_length (q : List Entry) (f t : Nat) : (Ev.setTask q f t).length = q.length := by
  simp [Ev.setTask]

theorem Ev.setTask_owners (q : List Entry) (f t : Nat) :
    (Ev.setTask q f t).map (·.owner) = q.map (·.owner) := by
  simp only [Ev.setTask, List.map_map]
  apply List.map_congr_left
  intro e _
  simp only [Function.comp]
  split <;> rfl

theorem Ev.cnt_setTask (q : List Entry) (f t : Nat) : cnt (Ev.setTask q f t) = cnt q := by
  induction q with
  | nil => rfl
  | cons a l ih =>
    simp only [Ev.setTask, cnt] at ih ⊢
    by_cases ha : a.owner = f <;> by_cases hn : a.notified <;>
      simp_all [List.countP_cons]

/-- `has` in terms of the owner list, the form that survives `notify`/`setTask`. -/
theorem Ev.has_eq_owners (q : List Entry) (f : Nat) : Ev.has q f = (q.map (·.owner)).contains f := by
  induction q with
  | nil => rfl
  | cons a t ih =>
    simp only [Ev.has] at ih
    simp only [Ev.has, List.any_cons, List.map_cons, List.contains_cons, ih]
    by_cases h : a.owner = f
    · simp [h]
    · have h' : ¬ f = a.owner := fun hc => h hc.symm
      have h1 : (a.owner == f) = false := by simp [h]
      have h2 : (f == a.owner) = false := by simp [h']
      simp [h1, h2]

theorem Ev.has_notify (add : Bool) (n : Nat) (q : List Entry) (f : Nat) :
    Ev.has (Ev.notify add n q) f = Ev.has q f := by
  rw [Ev.has_eq_owners, Ev.has_eq_owners, Ev.notify_owners]

theorem Ev.has_setTask (q : List Entry) (f t g : Nat) :
    Ev.has (Ev.setTask q f t) g = Ev.has q g := by
  rw [Ev.has_eq_owners, Ev.has_eq_owners, Ev.setTask_owners]

theorem Ev.has_listen (q : List Entry) (f g : Nat) :
    Ev.has (Ev.listen q f) g = (Ev.has q g || f == g) := by
  simp [Ev.has, Ev.listen]

/-! ### `Ev.drop` -/

theorem Ev.drop_has_self (q : List Entry) (f : Nat) : Ev.has (Ev.drop q f) f = false := by
  unfold Ev.drop; split
  · rw [Ev.has_notify]; exact Ev.has_erase_self q f
  · exact Ev.has_erase_self q f

theorem Ev.drop_has_ne (q : List Entry) {f g : Nat} (h : g ≠ f) :
    Ev.has (Ev.drop q f) g = Ev.has q g := by
  unfold Ev.drop; split
  · rw [Ev.has_notify]; exact Ev.has_erase_ne q h
  · exact Ev.has_erase_ne q h

theorem Ev.drop_allTask {q : List Entry} (f : Nat) (h : AllTask q) : AllTask (Ev.drop q f) := by
  unfold Ev.drop; split
  · exact Ev.notify_allTask _ _ _ (Ev.erase_allTask f h)
  · exact Ev.erase_allTask f h

theorem Ev.drop_wakeOK {q : List Entry} {w : List Nat} (f : Nat) (h : WakeOK q (f :: w))
    (ht : AllTask q) : WakeOK (Ev.drop q f) (Ev.dropOwners q f ++ w) := by
  unfold Ev.drop Ev.dropOwners; split
  · exact Ev.notify_wakeOK _ _ _ _ (Ev.erase_wakeOK f h) (Ev.erase_allTask f ht)
  · simpa using Ev.erase_wakeOK f h

/-- Dropping a listener never leaves a non-empty queue without a notified entry if there was
one before: either the dropped entry was not the notified one, or its notification is forwarded. -/
theorem Ev.drop_cnt_pos {q : List Entry} (f : Nat) (h : 0 < cnt q) (hne : Ev.drop q f ≠ []) :
    0 < cnt (Ev.drop q f) := by
  unfold Ev.drop at hne ⊢; split
  · rename_i hn
    simp only [hn, if_true] at hne
    have : Ev.erase q f ≠ [] := by
      intro hc; apply hne; rw [hc]; exact Ev.notify_nil _ _
    exact Ev.notify_cnt_pos _ 1 _ (by omega) this
  · rename_i hn
    simp only [Bool.not_eq_true] at hn
    rw [Ev.cnt_erase_of_not_notified _ _ hn]; exact h

end ALock
