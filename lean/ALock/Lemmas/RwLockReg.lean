import ALock.Lemmas.RwLockWord

/-! Registration invariant of the RwLock model: which future owns a listener on which of the
three events. -/

set_option linter.unusedSimpArgs false
set_option linter.unusedVariables false

namespace ALock.RwLock

/-- should future `x` be registered on `no_readers`? -/
def Fut.onNr (x : Fut) : Bool := x.isPW || (x.isPU && x.polled)
/-- should future `x` be registered on `no_writer`? -/
def Fut.onNw (x : Fut) : Bool := x.kind == .read && x.polled && x.stage == .init

structure RegInv (s : Sys) : Prop where
  mreg : ∀ fu ∈ s.futs, Ev.has s.m.q fu.id = fu.l.waiting
  mrev : ∀ g, Ev.has s.m.q g = true → ∃ fu ∈ s.futs, fu.id = g
  nrreg : ∀ fu ∈ s.futs, Ev.has s.nr fu.id = fu.onNr
  nrrev : ∀ g, Ev.has s.nr g = true → ∃ fu ∈ s.futs, fu.id = g
  nwreg : ∀ fu ∈ s.futs, Ev.has s.nw fu.id = fu.onNw
  nwrev : ∀ g, Ev.has s.nw g = true → ∃ fu ∈ s.futs, fu.id = g

theorem init_reg : RegInv ({} : Sys) := by
  refine ⟨by simp, ?_, by simp, ?_, by simp, ?_⟩ <;> (intro g hg; simp [Ev.has] at hg)

/-! ### `has`-effects of the event helpers -/

@[simp] theorem notifyNr_has (s : Sys) (g : Nat) : Ev.has s.notifyNr.nr g = Ev.has s.nr g := by
  simp [Sys.notifyNr, Ev.has_notify]
@[simp] theorem notifyNw_has (s : Sys) (g : Nat) : Ev.has s.notifyNw.nw g = Ev.has s.nw g := by
  simp [Sys.notifyNw, Ev.has_notify]
@[simp] theorem dropNr_has (s : Sys) (f g : Nat) :
    Ev.has (s.dropNr f).nr g = (Ev.has s.nr g && g != f) := by
  simp [Sys.dropNr, Ev.has_drop]
@[simp] theorem dropNw_has (s : Sys) (f g : Nat) :
    Ev.has (s.dropNw f).nw g = (Ev.has s.nw g && g != f) := by
  simp [Sys.dropNw, Ev.has_drop]
@[simp] theorem unlockM_has (s : Sys) (g : Nat) : Ev.has s.unlockM.m.q g = Ev.has s.m.q g := by
  simp [Sys.unlockM, unlock_has]
@[simp] theorem notifyNr_nr_mq (s : Sys) : s.notifyNr.m.q = s.m.q := rfl
@[simp] theorem dropNr_nr (s : Sys) (f : Nat) : (s.dropNr f).nr = Ev.drop s.nr f := rfl
@[simp] theorem dropNw_nw (s : Sys) (f : Nat) : (s.dropNw f).nw = Ev.drop s.nw f := rfl
@[simp] theorem notifyNr_nr (s : Sys) : s.notifyNr.nr = Ev.notify false 1 s.nr := rfl
@[simp] theorem notifyNw_nw (s : Sys) : s.notifyNw.nw = Ev.notify false 1 s.nw := rfl

theorem readUnlock_has (s : Sys) (g : Nat) :
    Ev.has s.readUnlock.m.q g = Ev.has s.m.q g ∧ Ev.has s.readUnlock.nr g = Ev.has s.nr g ∧
    Ev.has s.readUnlock.nw g = Ev.has s.nw g := by
  unfold Sys.readUnlock; split <;> simp [Ev.has_notify]

theorem ureadUnlock_has (s : Sys) (g : Nat) :
    Ev.has s.ureadUnlock.m.q g = Ev.has s.m.q g ∧ Ev.has s.ureadUnlock.nr g = Ev.has s.nr g ∧
    Ev.has s.ureadUnlock.nw g = Ev.has s.nw g := by
  have := readUnlock_has s g
  simp [Sys.ureadUnlock, this]

theorem writeUnlock_has (s : Sys) (g : Nat) :
    Ev.has s.writeUnlock.m.q g = Ev.has s.m.q g ∧ Ev.has s.writeUnlock.nr g = Ev.has s.nr g ∧
    Ev.has s.writeUnlock.nw g = Ev.has s.nw g := by
  simp [Sys.writeUnlock, Ev.has_notify, unlock_has, Sys.unlockM, Sys.notifyNw]

/-! ### `has`-effects of the polls -/

/-- what a poll does to the three registrations of the polled future `f` and of everybody else -/
structure HasEff (s : Sys) (f : Nat) (r : RRes) (mq nr nw : Bool) : Prop where
  mself : Ev.has r.s.m.q f = mq
  nrself : Ev.has r.s.nr f = nr
  nwself : Ev.has r.s.nw f = nw
  mother : ∀ g, g ≠ f → Ev.has r.s.m.q g = Ev.has s.m.q g
  nrother : ∀ g, g ≠ f → Ev.has r.s.nr g = Ev.has s.nr g
  nwother : ∀ g, g ≠ f → Ev.has r.s.nw g = Ev.has s.nw g

theorem bne_of_ne {g f : Nat} (h : g ≠ f) : (g != f) = true := by simp [h]
theorem beq_false_of_ne' {g f : Nat} (h : g ≠ f) : (f == g) = false := by simp [Ne.symm h]

theorem pollRead_has (s : Sys) (fu : Fut) (t : Nat) :
    let r := pollRead s fu t
    HasEff s fu.id r (Ev.has s.m.q fu.id) (Ev.has s.nr fu.id) (!r.ready) := by
  unfold pollRead
  simp only []
  (repeat' split) <;>
    (refine ⟨rfl, rfl, ?_, fun _ _ => rfl, fun _ _ => rfl, ?_⟩ <;>
      first
        | (intro g hg
           have h1 : (g != fu.id) = true := by simp [hg]
           have h2 : (fu.id == g) = false := by simp [Ne.symm hg]
           simp [Ev.has_setTask, Ev.has_listen, Ev.has_erase, Ev.has_notify, Ev.has_drop, h1, h2])
        | simp_all [Ev.has_setTask, Ev.has_listen, Ev.has_erase, Ev.has_notify, Ev.has_drop])

theorem pollWaitReaders_has (s : Sys) (fu : Fut) (t base : Nat) (hh : Ev.has s.nr fu.id = true) :
    let r := pollWaitReaders s fu t base
    HasEff s fu.id r (Ev.has s.m.q fu.id) (!r.ready) (Ev.has s.nw fu.id) := by
  unfold pollWaitReaders
  simp only []
  (repeat' split) <;>
    (refine ⟨rfl, ?_, rfl, fun _ _ => rfl, ?_, fun _ _ => rfl⟩ <;>
      first
        | (intro g hg
           have h1 : (g != fu.id) = true := by simp [hg]
           have h2 : (fu.id == g) = false := by simp [Ne.symm hg]
           simp [Ev.has_setTask, Ev.has_listen, Ev.has_erase, Ev.has_notify, Ev.has_drop, h1, h2])
        | simp_all [Ev.has_setTask, Ev.has_listen, Ev.has_erase, Ev.has_notify, Ev.has_drop])

theorem pollUpgrade_has (s : Sys) (fu : Fut) (t : Nat) :
    let r := pollUpgrade s fu t
    HasEff s fu.id r (Ev.has s.m.q fu.id) (!r.ready) (Ev.has s.nw fu.id) := by
  unfold pollUpgrade
  simp only []
  (repeat' split) <;>
    (refine ⟨rfl, ?_, rfl, fun _ _ => rfl, ?_, fun _ _ => rfl⟩ <;>
      first
        | (intro g hg
           have h1 : (g != fu.id) = true := by simp [hg]
           have h2 : (fu.id == g) = false := by simp [Ne.symm hg]
           simp [Ev.has_setTask, Ev.has_listen, Ev.has_erase, Ev.has_notify, Ev.has_drop, h1, h2])
        | simp_all [Ev.has_setTask, Ev.has_listen, Ev.has_erase, Ev.has_notify, Ev.has_drop])

end ALock.RwLock

namespace ALock.RwLock

theorem pollUread_has (s : Sys) (fu : Fut) (t : Nat) (fire : Bool) (hd : fu.l.done = false)
    (hs : fu.l.starved = true → fu.l.slow = true) (hh : Ev.has s.m.q fu.id = fu.l.waiting) :
    let r := pollUread s fu t fire
    HasEff s fu.id r r.fu.l.waiting (Ev.has s.nr fu.id) (Ev.has s.nw fu.id) := by
  have h1 := lockPoll_has_self s.m fu.l fu.id t fire hd hs hh
  have h2 := lockPoll_has_other s.m fu.l fu.id t fire
  unfold pollUread
  simp only []
  split <;> exact ⟨h1, rfl, rfl, h2, fun _ _ => rfl, fun _ _ => rfl⟩

theorem pollWrite_has (s : Sys) (fu : Fut) (t : Nat) (fire : Bool)
    (hd : fu.stage = .init → fu.l.done = false)
    (hs : fu.l.starved = true → fu.l.slow = true) (hh : Ev.has s.m.q fu.id = fu.l.waiting)
    (hnr : Ev.has s.nr fu.id = (fu.stage != .init)) (hdone : fu.stage ≠ .done) :
    let r := pollWrite s fu t fire
    HasEff s fu.id r
      (if fu.stage = .init then r.fu.l.waiting else Ev.has s.m.q fu.id)
      (if fu.stage = .init then (lockPoll s.m fu.l fu.id t fire).ready && !r.ready else !r.ready)
      (Ev.has s.nw fu.id) := by
  unfold pollWrite
  simp only []
  cases hst : fu.stage with
  | init =>
    have hdn := hd hst
    have h1 := lockPoll_has_self s.m fu.l fu.id t fire hdn hs hh
    have h2 := lockPoll_has_other s.m fu.l fu.id t fire
    simp only [hst, bne_self_eq_false] at hnr
    simp only [if_true]
    generalize lockPoll s.m fu.l fu.id t fire = lp at *
    cases hlp : lp.ready with
    | false =>
      simp only [Bool.false_eq_true, if_false, Bool.false_and]
      exact ⟨h1, hnr, rfl, h2, fun _ _ => rfl, fun _ _ => rfl⟩
    | true =>
      simp only [if_true, Bool.true_and]
      have hw := pollWaitReaders_has
        { s with m := lp.c, state := s.state + (1 - s.state % 2), nr := Ev.listen s.nr fu.id }
        { fu with l := lp.l, stage := .init } t (30 + lp.br) (by simp [Ev.has_listen])
      obtain ⟨E, m1, m2, _⟩ := pollWaitReaders_eff
        { s with m := lp.c, state := s.state + (1 - s.state % 2), nr := Ev.listen s.nr fu.id }
        { fu with l := lp.l, stage := .init } t (30 + lp.br)
      simp only [] at hw
      refine ⟨?_, hw.nrself, ?_, ?_, ?_, ?_⟩
      · rw [hw.mself, m2]; exact h1
      · rw [hw.nwself]
      · intro g hg; rw [hw.mother g hg]; exact h2 g hg
      · intro g hg; rw [hw.nrother g hg]; simp [Ev.has_listen, Ne.symm hg]
      · intro g hg; rw [hw.nwother g hg]
  | waitReaders =>
    simp only [hst] at hnr
    have hw := pollWaitReaders_has s fu t 50 (by rw [hnr]; decide)
    simpa using hw
  | done => exact absurd hst hdone

end ALock.RwLock

namespace ALock.RwLock

theorem afterPoll_queues (r : RRes) (fu : Fut) (f t : Nat) :
    (afterPoll r fu f t).m = r.s.m ∧ (afterPoll r fu f t).nr = r.s.nr ∧
    (afterPoll r fu f t).nw = r.s.nw ∧ (afterPoll r fu f t).state = r.s.state ∧
    (afterPoll r fu f t).futs = setFut r.s.futs f (fun _ => { r.fu with polled := true, waker := t }) := by
  unfold afterPoll; split <;> simp

/-- registration after a poll, from the `has`-effect of the poll and the values the new future
demands -/
theorem reg_after_poll (s : Sys) (h : RegInv s) (f t : Nat) (fu : Fut) (r : RRes)
    (hmem : fu ∈ s.futs) (hid : fu.id = f) (E : PollEff { s with m := s.m.polled f } fu r)
    (mq nr nw : Bool) (HE : HasEff { s with m := s.m.polled f } f r mq nr nw)
    (h1 : mq = r.fu.l.waiting)
    (h2 : nr = ({ r.fu with polled := true, waker := t } : Fut).onNr)
    (h3 : nw = ({ r.fu with polled := true, waker := t } : Fut).onNw) :
    RegInv (afterPoll r fu f t) := by
  obtain ⟨q1, q2, q3, _, q5⟩ := afterPoll_queues r fu f t
  have hfuts : (afterPoll r fu f t).futs
      = setFut s.futs f (fun _ => { r.fu with polled := true, waker := t }) := by
    rw [q5, E.futs]
  have key : ∀ (q' q : List Entry) (v : Bool) (want : Fut → Bool),
      (Ev.has q' f = v) → (∀ g, g ≠ f → Ev.has q' g = Ev.has q g) →
      v = want { r.fu with polled := true, waker := t } →
      (∀ x ∈ s.futs, Ev.has q x.id = want x) → (∀ g, Ev.has q g = true → ∃ x ∈ s.futs, x.id = g) →
      (∀ x ∈ setFut s.futs f (fun _ => { r.fu with polled := true, waker := t }),
        Ev.has q' x.id = want x) ∧
      (∀ g, Ev.has q' g = true →
        ∃ x ∈ setFut s.futs f (fun _ => { r.fu with polled := true, waker := t }), x.id = g) := by
    intro q' q v want hself hother hv hreg hrev
    constructor
    · intro x hx
      obtain ⟨y, hy, rfl⟩ := mem_map_update.mp hx
      by_cases hyf : y.id = f
      · simp only [hyf, beq_self_eq_true, if_true]
        have e1 : Ev.has q' ({ r.fu with polled := true, waker := t } : Fut).id = v := by
          show Ev.has q' r.fu.id = v
          rw [E.id, hid]; exact hself
        rw [e1, hv]
      · simp only [hyf, beq_iff_eq, if_false]
        rw [hother y.id hyf]; exact hreg y hy
    · intro g hg
      by_cases hgf : g = f
      · subst hgf
        exact ⟨_, mem_map_update.mpr ⟨fu, hmem, rfl⟩, by simp [hid, E.id]⟩
      · rw [hother g hgf] at hg
        obtain ⟨y, hy, hyi⟩ := hrev g hg
        refine ⟨_, mem_map_update.mpr ⟨y, hy, rfl⟩, ?_⟩
        have : (y.id == f) = false := by rw [hyi]; simp [hgf]
        simp only [this, Bool.false_eq_true, if_false]; exact hyi
  have km := key r.s.m.q s.m.q mq (fun x => x.l.waiting) HE.mself
    (by intro g hg; have := HE.mother g hg; simpa using this) (by simpa using h1) h.mreg h.mrev
  have kr := key r.s.nr s.nr nr Fut.onNr HE.nrself HE.nrother h2 h.nrreg h.nrrev
  have kw := key r.s.nw s.nw nw Fut.onNw HE.nwself HE.nwother h3 h.nwreg h.nwrev
  refine ⟨?_, ?_, ?_, ?_, ?_, ?_⟩
  · rw [hfuts, q1]; exact km.1
  · rw [hfuts, q1]; exact km.2
  · rw [hfuts, q2]; exact kr.1
  · rw [hfuts, q2]; exact kr.2
  · rw [hfuts, q3]; exact kw.1
  · rw [hfuts, q3]; exact kw.2

end ALock.RwLock

namespace ALock.RwLock

theorem onNr_false_of_kind {x : Fut} (h : x.kind = .read ∨ x.kind = .uread) : x.onNr = false := by
  rcases h with h | h <;> simp [Fut.onNr, Fut.isPW, Fut.isPU, h]

theorem onNw_false_of_kind {x : Fut} (h : x.kind ≠ .read) : x.onNw = false := by
  simp [Fut.onNw, h]

theorem poll_reg (s : Sys) (hw : WordInv s) (h : RegInv s) (f t : Nat) (fire : Bool) (fu : Fut)
    (hf : findFut s f = some fu) (hd : fu.stage ≠ .done) :
    RegInv (afterPoll (pollFut { s with m := s.m.polled f } fu t fire) fu f t) := by
  obtain ⟨hmem, hid⟩ := findFut_mem hf
  have hfl := hw.flags fu hmem
  have hmq := h.mreg fu hmem
  have hnr := h.nrreg fu hmem
  have hnw := h.nwreg fu hmem
  rw [hid] at hmq hnr hnw
  cases hk : fu.kind with
  | read =>
    have hl0 := hfl.lockFree (Or.inl hk)
    have hst : fu.stage = .init := by
      have := hfl.rstage (Or.inl hk)
      cases hs : fu.stage <;> simp_all
    obtain ⟨E, hmst, hl, hrdy, hpend⟩ := pollRead_eff { s with m := s.m.polled f } fu t
    have HE := pollRead_has { s with m := s.m.polled f } fu t
    simp only [pollFut, hk]
    generalize pollRead { s with m := s.m.polled f } fu t = r at *
    rw [hid] at HE
    refine reg_after_poll s h f t fu r hmem hid E _ _ _ HE ?_ ?_ ?_
    · simp only [Core.polled_q, hmq, hl]
    · simp only [hnr]
      rw [onNr_false_of_kind (Or.inl hk), onNr_false_of_kind (by simp [E.kind, hk])]
    · cases hr : r.ready
      · simp [Fut.onNw, E.kind, hk, (hpend hr).2, hst]
      · simp [Fut.onNw, (hrdy hr).2.2]
  | uread =>
    have hus := hfl.ustage hk
    have hdn : fu.l.done = false := by
      cases hdd : fu.l.done
      · rfl
      · exact absurd (hus.1.mpr hdd) hd
    obtain ⟨E, hrd, hmst, hl, hrdy, hpend⟩ := pollUread_eff { s with m := s.m.polled f } fu t fire
    have HE := pollUread_has { s with m := s.m.polled f } fu t fire hdn hfl.starvedSlow
      (by simpa [hid] using hmq)
    simp only [pollFut, hk]
    generalize pollUread { s with m := s.m.polled f } fu t fire = r at *
    rw [hid] at HE
    refine reg_after_poll s h f t fu r hmem hid E _ _ _ HE rfl ?_ ?_
    · simp only [hnr]
      rw [onNr_false_of_kind (Or.inr hk), onNr_false_of_kind (by simp [E.kind, hk])]
    · simp only [hnw]
      rw [onNw_false_of_kind (by simp [hk]), onNw_false_of_kind (by simp [E.kind, hk])]
  | write =>
    have hws := hfl.wstage hk
    have hnr' : Ev.has ({ s with m := s.m.polled f } : Sys).nr fu.id = (fu.stage != .init) := by
      simp only [hid, hnr, Fut.onNr, Fut.isPW, Fut.isPU, hk]
      cases hs : fu.stage <;> simp_all
    obtain ⟨E, hinit, hwait⟩ := pollWrite_eff { s with m := s.m.polled f } fu t fire
    have HE := pollWrite_has { s with m := s.m.polled f } fu t fire (fun h0 => hws.mp h0)
      hfl.starvedSlow (by simpa [hid] using hmq) hnr' hd
    simp only [pollFut, hk]
    generalize pollWrite { s with m := s.m.polled f } fu t fire = r at *
    simp only [] at hinit hwait HE
    rw [hid] at HE hinit
    refine reg_after_poll s h f t fu r hmem hid E _ _ _ HE ?_ ?_ ?_
    · by_cases hst : fu.stage = .init
      · simp [hst]
      · simp only [hst, if_false, Core.polled_q, hmq]
        rw [(hwait hst).2.1]
    · by_cases hst : fu.stage = .init
      · simp only [hst, if_true]
        obtain ⟨hP, hR⟩ := hinit hst
        cases hlr : (lockPoll (s.m.polled f) fu.l f t fire).ready
        · simp [Fut.onNr, Fut.isPW, Fut.isPU, E.kind, hk, (hP hlr).2.2.2.2]
        · obtain ⟨_, _, _, hrd, hpe⟩ := hR hlr
          cases hr : r.ready
          · simp [Fut.onNr, Fut.isPW, Fut.isPU, E.kind, hk, hpe hr]
          · simp [Fut.onNr, Fut.isPW, Fut.isPU, E.kind, hk, (hrd hr).2]
      · simp only [hst, if_false]
        obtain ⟨_, _, _, hrd, hpe⟩ := hwait hst
        cases hr : r.ready
        · simp [Fut.onNr, Fut.isPW, Fut.isPU, E.kind, hk, hpe hr]
        · simp [Fut.onNr, Fut.isPW, Fut.isPU, E.kind, hk, (hrd hr).2]
    · simp only [hnw]
      rw [onNw_false_of_kind (by simp [hk]), onNw_false_of_kind (by simp [E.kind, hk])]
  | upgrade =>
    have hl0 := hfl.lockFree (Or.inr hk)
    have hst : fu.stage = .init := by
      have := hfl.rstage (Or.inr hk)
      cases hs : fu.stage <;> simp_all
    obtain ⟨E, hmst, hl, hsame, hrdy, hpend⟩ := pollUpgrade_eff { s with m := s.m.polled f } fu t
    have HE := pollUpgrade_has { s with m := s.m.polled f } fu t
    simp only [pollFut, hk]
    generalize pollUpgrade { s with m := s.m.polled f } fu t = r at *
    rw [hid] at HE
    refine reg_after_poll s h f t fu r hmem hid E _ _ _ HE ?_ ?_ ?_
    · simp only [Core.polled_q, hmq, hl]
    · cases hr : r.ready
      · simp [Fut.onNr, Fut.isPW, Fut.isPU, E.kind, hk, hpend hr, hst]
      · simp [Fut.onNr, Fut.isPW, Fut.isPU, E.kind, hk, (hrdy hr).2]
    · simp only [hnw]
      rw [onNw_false_of_kind (by simp [hk]), onNw_false_of_kind (by simp [E.kind, hk])]

end ALock.RwLock

namespace ALock.RwLock

/-- registration is insensitive to everything but the three queues and the futures -/
theorem reg_of_eq {s s' : Sys} (h : RegInv s)
    (hm : ∀ g, Ev.has s'.m.q g = Ev.has s.m.q g) (hr : ∀ g, Ev.has s'.nr g = Ev.has s.nr g)
    (hw : ∀ g, Ev.has s'.nw g = Ev.has s.nw g) (hf : s'.futs = s.futs) : RegInv s' := by
  refine ⟨?_, ?_, ?_, ?_, ?_, ?_⟩
  · intro fu hfu; rw [hm]; exact h.mreg fu (hf ▸ hfu)
  · intro g hg; rw [hm] at hg; rw [hf]; exact h.mrev g hg
  · intro fu hfu; rw [hr]; exact h.nrreg fu (hf ▸ hfu)
  · intro g hg; rw [hr] at hg; rw [hf]; exact h.nrrev g hg
  · intro fu hfu; rw [hw]; exact h.nwreg fu (hf ▸ hfu)
  · intro g hg; rw [hw] at hg; rw [hf]; exact h.nwrev g hg

/-- a new future with a fresh id that demands no registration -/
theorem reg_cons_fresh {s s' : Sys} (h : RegInv s) (nf : Fut)
    (hfresh : ∀ x ∈ s.futs, x.id ≠ nf.id)
    (hm : s'.m.q = s.m.q) (hr : s'.nr = s.nr) (hw : s'.nw = s.nw) (hf : s'.futs = nf :: s.futs)
    (d1 : nf.l.waiting = false) (d2 : nf.onNr = false) (d3 : nf.onNw = false) : RegInv s' := by
  have nohas : ∀ q : List Entry, (∀ g, Ev.has q g = true → ∃ x ∈ s.futs, x.id = g) →
      Ev.has q nf.id = false := by
    intro q hrev
    cases hh : Ev.has q nf.id
    · rfl
    · obtain ⟨x, hx, hxi⟩ := hrev _ hh
      exact absurd hxi (hfresh x hx)
  refine ⟨?_, ?_, ?_, ?_, ?_, ?_⟩
  · intro fu hfu; rw [hf] at hfu; rw [hm]
    rcases List.mem_cons.mp hfu with rfl | hfu
    · rw [d1]; exact nohas _ h.mrev
    · exact h.mreg fu hfu
  · intro g hg; rw [hm] at hg; rw [hf]
    obtain ⟨x, hx, hxi⟩ := h.mrev g hg
    exact ⟨x, List.mem_cons_of_mem _ hx, hxi⟩
  · intro fu hfu; rw [hf] at hfu; rw [hr]
    rcases List.mem_cons.mp hfu with rfl | hfu
    · rw [d2]; exact nohas _ h.nrrev
    · exact h.nrreg fu hfu
  · intro g hg; rw [hr] at hg; rw [hf]
    obtain ⟨x, hx, hxi⟩ := h.nrrev g hg
    exact ⟨x, List.mem_cons_of_mem _ hx, hxi⟩
  · intro fu hfu; rw [hf] at hfu; rw [hw]
    rcases List.mem_cons.mp hfu with rfl | hfu
    · rw [d3]; exact nohas _ h.nwrev
    · exact h.nwreg fu hfu
  · intro g hg; rw [hw] at hg; rw [hf]
    obtain ⟨x, hx, hxi⟩ := h.nwrev g hg
    exact ⟨x, List.mem_cons_of_mem _ hx, hxi⟩

/-- dropping future `f`: all its registrations disappear, nobody else's changes -/
theorem reg_filter {s s' : Sys} (h : RegInv s) (f : Nat)
    (hm : ∀ g, Ev.has s'.m.q g = (Ev.has s.m.q g && g != f))
    (hr : ∀ g, Ev.has s'.nr g = (Ev.has s.nr g && g != f))
    (hw : ∀ g, Ev.has s'.nw g = (Ev.has s.nw g && g != f))
    (hf : s'.futs = s.futs.filter (·.id != f)) : RegInv s' := by
  have key : ∀ (q' q : List Entry) (want : Fut → Bool),
      (∀ g, Ev.has q' g = (Ev.has q g && g != f)) →
      (∀ x ∈ s.futs, Ev.has q x.id = want x) → (∀ g, Ev.has q g = true → ∃ x ∈ s.futs, x.id = g) →
      (∀ x ∈ s.futs.filter (·.id != f), Ev.has q' x.id = want x) ∧
      (∀ g, Ev.has q' g = true → ∃ x ∈ s.futs.filter (·.id != f), x.id = g) := by
    intro q' q want hq hreg hrev
    constructor
    · intro x hx
      have hx' := List.mem_filter.mp hx
      have hb : (x.id != f) = true := hx'.2
      rw [hq, hb, Bool.and_true]; exact hreg x hx'.1
    · intro g hg
      rw [hq] at hg
      simp only [Bool.and_eq_true] at hg
      obtain ⟨y, hy, hyi⟩ := hrev g hg.1
      exact ⟨y, List.mem_filter.mpr ⟨hy, by rw [hyi]; exact hg.2⟩, hyi⟩
  have km := key s'.m.q s.m.q (fun x => x.l.waiting) hm h.mreg h.mrev
  have kr := key s'.nr s.nr Fut.onNr hr h.nrreg h.nrrev
  have kw := key s'.nw s.nw Fut.onNw hw h.nwreg h.nwrev
  exact ⟨by rw [hf]; exact km.1, by rw [hf]; exact km.2, by rw [hf]; exact kr.1,
    by rw [hf]; exact kr.2, by rw [hf]; exact kw.1, by rw [hf]; exact kw.2⟩

theorem and_bne_of_false {b : Bool} {g f : Nat} (h : g = f → b = false) : b = (b && g != f) := by
  by_cases hg : g = f
  · simp [h hg]
  · simp [hg]

theorem dropFutS_futs (s : Sys) (fu : Fut) : (dropFutS s fu).futs = s.futs := by
  unfold dropFutS
  cases fu.kind <;> simp only []
  · rfl
  · split <;> rfl
  · cases fu.stage <;> simp [(writeUnlock_fields _).2.2.1]
  · split <;> simp [(writeUnlock_fields _).2.2.1]

theorem dropFut_reg (s : Sys) (hw : WordInv s) (h : RegInv s) (f : Nat) (fu : Fut)
    (hf : findFut s f = some fu) : RegInv (next s (.dropFut f)) := by
  obtain ⟨hmem, hid⟩ := findFut_mem hf
  have hfl := hw.flags fu hmem
  have hmq := h.mreg fu hmem
  have hnr := h.nrreg fu hmem
  have hnw := h.nwreg fu hmem
  rw [hid] at hmq hnr hnw
  simp only [next, step, hf]
  -- facts: which queues can hold an entry of `f`
  have mfalse : fu.l.waiting = false → ∀ g, Ev.has s.m.q g = (Ev.has s.m.q g && g != f) :=
    fun hwf g => and_bne_of_false (fun hg => by rw [hg, hmq]; exact hwf)
  have rfalse : fu.onNr = false → ∀ g, Ev.has s.nr g = (Ev.has s.nr g && g != f) :=
    fun hwf g => and_bne_of_false (fun hg => by rw [hg, hnr]; exact hwf)
  have wfalse : fu.onNw = false → ∀ g, Ev.has s.nw g = (Ev.has s.nw g && g != f) :=
    fun hwf g => and_bne_of_false (fun hg => by rw [hg, hnw]; exact hwf)
  cases hk : fu.kind with
  | read =>
    have hl0 := hfl.lockFree (Or.inl hk)
    refine reg_filter h f ?_ ?_ ?_ (by simp [dropFutS_futs])
    · intro g; simp only [dropFutS, hk, dropNw_mq, Core.polled_q]
      exact mfalse (by simp [hl0, LockSt.waiting]) g
    · intro g; simp only [dropFutS, hk, dropNw_nr]
      exact rfalse (onNr_false_of_kind (Or.inl hk)) g
    · intro g; simp [dropFutS, hk, hid, Ev.has_drop]
  | uread =>
    have hr0 := rfalse (onNr_false_of_kind (Or.inr hk))
    have hw0 := wfalse (onNw_false_of_kind (by simp [hk]))
    by_cases hsd : fu.stage = .done
    · have hld := (hfl.ustage hk).1.mp hsd
      refine reg_filter h f ?_ ?_ ?_ (by simp [dropFutS_futs])
      · intro g; simp only [dropFutS, hk, hsd, if_true, Core.polled_q]
        exact mfalse (by simp [LockSt.waiting, hld]) g
      · intro g; simp only [dropFutS, hk, hsd, if_true]; exact hr0 g
      · intro g; simp only [dropFutS, hk, hsd, if_true]; exact hw0 g
    · refine reg_filter h f ?_ ?_ ?_ (by simp [dropFutS_futs])
      · intro g; simp only [dropFutS, hk, hsd, if_false, lockDrop_has, Core.polled_q, hid]
      · intro g; simp only [dropFutS, hk, hsd, if_false]; exact hr0 g
      · intro g; simp only [dropFutS, hk, hsd, if_false]; exact hw0 g
  | write =>
    have hw0 := wfalse (onNw_false_of_kind (by simp [hk]))
    cases hsg : fu.stage with
    | init =>
      have hr0 := rfalse (by simp [Fut.onNr, Fut.isPW, Fut.isPU, hk, hsg])
      refine reg_filter h f ?_ ?_ ?_ (by simp [dropFutS_futs])
      · intro g; simp only [dropFutS, hk, hsg, lockDrop_has, Core.polled_q, hid]
      · intro g; simp only [dropFutS, hk, hsg]; exact hr0 g
      · intro g; simp only [dropFutS, hk, hsg]; exact hw0 g
    | waitReaders =>
      have hld : fu.l.done = true := by
        cases hdd : fu.l.done
        · have := (hfl.wstage hk).mpr hdd; rw [hsg] at this; cases this
        · rfl
      have hm0 := mfalse (by simp [LockSt.waiting, hld])
      refine reg_filter h f ?_ ?_ ?_ ?_
      · intro g
        have := (writeUnlock_has { s with m := s.m.polled f } g).1
        simp only [dropFutS, hk, hsg, dropNr_mq, this, Core.polled_q]; exact hm0 g
      · intro g
        have := (writeUnlock_has { s with m := s.m.polled f } g).2.1
        simp only [dropFutS, hk, hsg, dropNr_has, this, hid]
      · intro g
        have := (writeUnlock_has { s with m := s.m.polled f } g).2.2
        simp only [dropFutS, hk, hsg, dropNr_nw, this]; exact hw0 g
      · simp [dropFutS_futs]
    | done =>
      have hld : fu.l.done = true := by
        cases hdd : fu.l.done
        · have := (hfl.wstage hk).mpr hdd; rw [hsg] at this; cases this
        · rfl
      have hm0 := mfalse (by simp [LockSt.waiting, hld])
      have hr0 := rfalse (by simp [Fut.onNr, Fut.isPW, Fut.isPU, hk, hsg])
      refine reg_filter h f ?_ ?_ ?_ (by simp [dropFutS_futs])
      · intro g; simp only [dropFutS, hk, hsg, Core.polled_q]; exact hm0 g
      · intro g; simp only [dropFutS, hk, hsg]; exact hr0 g
      · intro g; simp only [dropFutS, hk, hsg]; exact hw0 g
  | upgrade =>
    have hl0 := hfl.lockFree (Or.inr hk)
    have hm0 := mfalse (by simp [hl0, LockSt.waiting])
    have hw0 := wfalse (onNw_false_of_kind (by simp [hk]))
    by_cases hsd : fu.stage = .done
    · have hr0 := rfalse (by simp [Fut.onNr, Fut.isPW, Fut.isPU, hk, hsd])
      refine reg_filter h f ?_ ?_ ?_ (by simp [dropFutS_futs])
      · intro g; simp only [dropFutS, hk, hsd, if_true, Core.polled_q]; exact hm0 g
      · intro g; simp only [dropFutS, hk, hsd, if_true]; exact hr0 g
      · intro g; simp only [dropFutS, hk, hsd, if_true]; exact hw0 g
    · refine reg_filter h f ?_ ?_ ?_ ?_
      · intro g
        have := (writeUnlock_has { s with m := s.m.polled f } g).1
        simp only [dropFutS, hk, hsd, if_false, dropNr_mq, this, Core.polled_q]; exact hm0 g
      · intro g
        have := (writeUnlock_has { s with m := s.m.polled f } g).2.1
        simp only [dropFutS, hk, hsd, if_false, dropNr_has, this, hid]
      · intro g
        have := (writeUnlock_has { s with m := s.m.polled f } g).2.2
        simp only [dropFutS, hk, hsd, if_false, dropNr_nw, this]; exact hw0 g
      · simp [dropFutS_futs]

end ALock.RwLock

namespace ALock.RwLock

theorem step_reg (s : Sys) (op : Op) (hw : WordInv s) (h : RegInv s) : RegInv (next s op) := by
  cases op with
  | start f k arc =>
    simp only [next, step]
    split
    · rename_i hc
      simp only [Bool.and_eq_true, decide_eq_true_eq, bne_iff_ne, ne_eq] at hc
      have hfresh := fresh_fut hc.1.1
      refine reg_cons_fresh h { id := f, kind := k, arc := arc, seen := s.state, waker := f * 4 }
        hfresh rfl rfl rfl rfl (by simp [LockSt.waiting]) ?_ (by simp [Fut.onNw])
      simp [Fut.onNr, Fut.isPW, Fut.isPU]
    · exact h
  | poll f t fire =>
    cases hf : findFut s f with
    | none => simp only [next, step, hf]; exact h
    | some fu =>
      by_cases hd : fu.stage = .done
      · simp only [next, step, hf, hd, if_true]; exact h
      · rw [step_poll_eq s f t fire fu hf hd]
        exact poll_reg s hw h f t fire fu hf hd
  | dropFut f =>
    cases hf : findFut s f with
    | none => simp only [next, step, hf]; exact h
    | some fu => exact dropFut_reg s hw h f fu hf
  | try_ g k arc =>
    simp only [next, step]
    split
    · cases k with
      | read =>
        simp only []
        split
        · exact reg_of_eq h (fun _ => rfl) (fun _ => rfl) (fun _ => rfl) rfl
        · exact h
      | uread =>
        simp only []
        split
        · exact reg_of_eq h (fun _ => rfl) (fun _ => rfl) (fun _ => rfl) rfl
        · exact h
      | write =>
        simp only []
        split
        · split
          · exact reg_of_eq h (fun _ => rfl) (fun _ => rfl) (fun _ => rfl) rfl
          · exact reg_of_eq h (fun g => by simp [unlock_has]) (fun _ => rfl) (fun _ => rfl) rfl
        · exact h
    · exact h
  | dropGuard g =>
    cases hg : findGuard s g with
    | none => simp only [next, step, hg]; exact h
    | some gu =>
      simp only [next, step, hg]
      cases gu.kind with
      | read =>
        exact reg_of_eq h (fun g => (readUnlock_has s g).1) (fun g => (readUnlock_has s g).2.1)
          (fun g => (readUnlock_has s g).2.2) (readUnlock_fields s).2.2.1
      | uread =>
        exact reg_of_eq h (fun g => (ureadUnlock_has s g).1) (fun g => (ureadUnlock_has s g).2.1)
          (fun g => (ureadUnlock_has s g).2.2) (ureadUnlock_fields s).2.2.1
      | write =>
        exact reg_of_eq h (fun g => (writeUnlock_has s g).1) (fun g => (writeUnlock_has s g).2.1)
          (fun g => (writeUnlock_has s g).2.2) (writeUnlock_fields s).2.2.1
  | conv g c =>
    cases hg : findGuard s g with
    | none => simp only [next, step, hg]; exact h
    | some gu =>
      simp only [next, step, hg]
      cases gu.kind <;> cases c <;> simp only [] <;> (try exact h)
      · exact reg_of_eq h (fun g => by simp) (fun _ => rfl) (fun _ => rfl) rfl
      · split
        · exact reg_of_eq h (fun _ => rfl) (fun _ => rfl) (fun _ => rfl) rfl
        · exact h
      · exact reg_of_eq h (fun g => by simp [Sys.unlockM, unlock_has]) (fun _ => rfl)
          (fun g => by simp [Sys.unlockM, Ev.has_notify]) rfl
      · exact reg_of_eq h (fun _ => rfl) (fun _ => rfl) (fun g => by simp [Ev.has_notify]) rfl
  | upgrade g f =>
    cases hg : findGuard s g with
    | none => simp only [next, step, hg]; exact h
    | some gu =>
      simp only [next, step, hg]
      split
      · rename_i hc
        simp only [Bool.and_eq_true, decide_eq_true_eq] at hc
        have hfresh := fresh_fut hc.2
        exact reg_cons_fresh h { id := f, kind := .upgrade, arc := gu.arc, waker := f * 4 }
          hfresh rfl rfl rfl rfl (by simp [LockSt.waiting]) (by simp [Fut.onNr, Fut.isPW, Fut.isPU])
          (by simp [Fut.onNw])
      · exact h
  | hclone =>
    simp only [next, step]; split
    · exact reg_of_eq h (fun _ => rfl) (fun _ => rfl) (fun _ => rfl) rfl
    · exact h
  | hdrop =>
    simp only [next, step]; split
    · exact reg_of_eq h (fun _ => rfl) (fun _ => rfl) (fun _ => rfl) rfl
    · exact h

theorem run_word_reg (s : Sys) (ops : List Op) (hw : WordInv s) (h : RegInv s) :
    WordInv (run s ops) ∧ RegInv (run s ops) := by
  induction ops generalizing s with
  | nil => exact ⟨hw, h⟩
  | cons op ops ih => exact ih _ (step_word s op hw) (step_reg s op hw h)

theorem reachable_reg (ops : List Op) : RegInv (run {} ops) :=
  (run_word_reg _ ops init_word init_reg).2

end ALock.RwLock
