/-!
# Model of `event_listener::Event` (the `std` list implementation, event-listener 5.4.2)

The real structure is an intrusive FIFO list of listeners protected by a `std::sync::Mutex`;
every operation below is one critical section of that mutex, hence atomic.

Modelling decisions (all exercised by the differential run, because the real dependency
executes in-process):

* An entry is keyed by its *owner* (the id of the future that called `listen()`): in async-lock a
  future owns at most one listener per `Event`, so listener identities are not needed.
* `notified = true` corresponds to `State::Notified { additional, .. }`; `task = some w` to
  `State::Task(waker w)`; `task = none ∧ ¬notified` to `State::Created`.
* `Event::notify(n)` (non-additional): `if n < notified { return }; n -= notified`, then the first
  `n` un-notified entries become notified and a stored waker is called. `notify_additional(n)`
  skips the subtraction. In the real list the notified entries always form a prefix, so "the
  first un-notified entry" is the list's `next` pointer.
* polling a listener: notified ⇒ the entry is removed *without* propagation and the poll is
  `Ready`; otherwise the waker is stored (replacing an older one) and the poll is `Pending`.
* dropping a listener removes the entry; if it was notified, `notify(1, additional)` is re-issued
  under the same subtraction rule.

Core Lean only; no Mathlib.
-/

namespace ALock

/-- One registered listener. -/
structure Entry where
  owner : Nat
  notified : Bool := false
  additional : Bool := false
  task : Option Nat := none
deriving DecidableEq, Repr, Inhabited

/-- Number of notified entries (`Inner::notified`). -/
def cnt (q : List Entry) : Nat := q.countP (·.notified)

/-- Queue after notifying the first `n` un-notified entries. -/
def notifyQ (add : Bool) : Nat → List Entry → List Entry
  | 0, q => q
  | _, [] => []
  | n+1, e :: q =>
    if e.notified then e :: notifyQ add (n+1) q
    else { e with notified := true, additional := add } :: notifyQ add n q

/-- Owners whose stored waker is called by that notification. -/
def notifyO : Nat → List Entry → List Nat
  | 0, _ => []
  | _, [] => []
  | n+1, e :: q =>
    if e.notified then notifyO (n+1) q
    else if e.task.isSome then e.owner :: notifyO n q else notifyO n q

/-- The waker ids called by that notification (same traversal as `notifyO`). -/
def notifyT : Nat → List Entry → List Nat
  | 0, _ => []
  | _, [] => []
  | n+1, e :: q =>
    if e.notified then notifyT (n+1) q
    else match e.task with
      | some t => t :: notifyT n q
      | none => notifyT n q

/-- How many entries `notify(n)` tries to notify: the subtraction rule for the non-additional
kind (`n - cnt q` is truncated subtraction, i.e. `0` when `n < cnt q`). -/
def notifyK (add : Bool) (n : Nat) (q : List Entry) : Nat :=
  if add then n else n - cnt q

namespace Ev

def listen (q : List Entry) (f : Nat) : List Entry := q ++ [{ owner := f }]

def has (q : List Entry) (f : Nat) : Bool := q.any (·.owner == f)

def isNotified (q : List Entry) (f : Nat) : Bool := q.any (fun e => e.owner == f && e.notified)

/-- `additional` flag of `f`'s notified entry (false if none). -/
def addOf (q : List Entry) (f : Nat) : Bool :=
  q.any (fun e => e.owner == f && e.notified && e.additional)

def erase (q : List Entry) (f : Nat) : List Entry := q.filter (·.owner != f)

def setTask (q : List Entry) (f t : Nat) : List Entry :=
  q.map fun e => if e.owner == f then { e with task := some t } else e

/-- `Event::notify(n)` / `notify_additional(n)`: the queue afterwards. -/
def notify (add : Bool) (n : Nat) (q : List Entry) : List Entry := notifyQ add (notifyK add n q) q

/-- owners woken by `notify` -/
def notifyOwners (add : Bool) (n : Nat) (q : List Entry) : List Nat := notifyO (notifyK add n q) q

/-- waker ids called by `notify` -/
def notifyTasks (add : Bool) (n : Nat) (q : List Entry) : List Nat := notifyT (notifyK add n q) q

/-- Dropping `f`'s listener: the queue afterwards (forwarding a notification it held). -/
def drop (q : List Entry) (f : Nat) : List Entry :=
  if isNotified q f then notify (addOf q f) 1 (erase q f) else erase q f

def dropOwners (q : List Entry) (f : Nat) : List Nat :=
  if isNotified q f then notifyOwners (addOf q f) 1 (erase q f) else []

def dropTasks (q : List Entry) (f : Nat) : List Nat :=
  if isNotified q f then notifyTasks (addOf q f) 1 (erase q f) else []

end Ev

/-- `usize::MAX`, the argument of `notify(usize::MAX)` / `notify_additional(usize::MAX)`. -/
def usizeMax : Nat := 2^64 - 1

/-- The value of `Event::total_listeners()`. -/
def total (q : List Entry) : Nat := q.length

end ALock
