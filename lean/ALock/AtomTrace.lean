import ALock.MutexCore

/-!
# The atomic operations each model step stands for

A poll-granular step (`lockPoll`, `unlock`, …) abbreviates a short sequence of atomic operations on
the state word.  `…Atoms` lists that sequence, with the operands, the `Ordering`s and the value each
operation returns, for every branch.  The differential run compares it with the log of atomic
operations the real crate performed during the same call (hook `record_atomics`), so the branch
structure of the models is tied to the code operation by operation; `Atom.run` / `Atom.consistent`
replay a sequence on a word, and the `*_atoms_word` theorems state that the model's new word is the
result of exactly these operations, each seeing the value its predecessor left.
-/

namespace ALock

inductive AOp
  | load | store | cas | casw | fadd | fsub | for_ | fand
  deriving DecidableEq, Repr

/-- what an atomic operation returned -/
inductive ARet
  | none                 -- store
  | val (v : Nat)        -- load, fetch_*: the previous value
  | ok (v : Nat)         -- successful CAS: the previous value
  | err (v : Nat)        -- failed CAS: the value found
  deriving DecidableEq, Repr

structure Atom where
  /-- which word of the primitive (0 = its own state word, 1 = the inner mutex of an RwLock) -/
  w : Nat := 0
  op : AOp
  a : Int := 0
  b : Int := 0
  ord : String
  ret : ARet
  deriving DecidableEq, Repr

/-- the value an operation saw -/
def Atom.seen (x : Atom) : Option Nat :=
  match x.ret with
  | .none => none
  | .val v | .ok v | .err v => some v

/-- the word after the operation -/
def Atom.apply (x : Atom) (st : Nat) : Nat :=
  match x.op, x.ret with
  | .load, _ => st
  | .store, _ => x.a.toNat
  | .cas, .ok _ | .casw, .ok _ => x.b.toNat
  | .cas, _ | .casw, _ => st
  | .fadd, _ => st + x.a.toNat
  | .fsub, _ => st - x.a.toNat
  | .for_, _ => if x.a = 1 then (if st % 2 = 0 then st + 1 else st) else st ||| x.a.toNat
  | .fand, _ => if x.a = -2 then st - st % 2 else st &&& x.a.toNat

/-- the operation is possible on a word holding `st`: it returns `st`, and a CAS succeeds exactly
when `st` is the expected value -/
def Atom.okOn (x : Atom) (st : Nat) : Bool :=
  (x.w == 0) &&
  match x.op, x.ret with
  | .store, .none => true
  | .cas, .ok v | .casw, .ok v => v == st && x.a == st
  | .cas, .err v => v == st && x.a != st
  | .casw, .err v => v == st
  | .load, .val v | .fadd, .val v | .fsub, .val v | .for_, .val v | .fand, .val v => v == st
  | _, _ => false

/-- replay on one word -/
def Atom.run (st : Nat) : List Atom → Nat
  | [] => st
  | x :: xs => Atom.run (x.apply st) xs

def Atom.consistent (st : Nat) : List Atom → Bool
  | [] => true
  | x :: xs => x.okOn st && Atom.consistent (x.apply st) xs

/-! ### Mutex core -/

def cas01 (st : Nat) : Atom :=
  { op := .cas, a := 0, b := 1, ord := "Acquire/Acquire", ret := if st = 0 then .ok 0 else .err st }
def cas23 (st : Nat) : Atom :=
  { op := .cas, a := 2, b := 3, ord := "Acquire/Acquire", ret := if st = 2 then .ok 2 else .err st }
def fadd2 (st : Nat) : Atom := { op := .fadd, a := 2, ord := "Release", ret := .val st }
def fsub2 (st : Nat) : Atom := { op := .fsub, a := 2, ord := "Release", ret := .val st }
def fsub1 (st : Nat) : Atom := { op := .fsub, a := 1, ord := "Release", ret := .val st }
def for1 (st : Nat) : Atom := { op := .for_, a := 1, ord := "Acquire", ret := .val st }

/-- the atomic operations of one poll of a lock future, by branch of `lockPoll` -/
def atomsOfBr (st : Nat) (br : Nat) : List Atom :=
  match br with
  | 1 => [cas01 st]                                   -- try_lock succeeds
  | 2 => [cas01 st, cas01 st]                         -- try_lock fails; listen; CAS fails; Pending
  | 3 => [cas01 st, cas01 st, fadd2 st]               -- ... somebody is starved: fetch_add(2)
  | 5 => [cas01 st]                                   -- notified: CAS(0,1) succeeds
  | 6 => [cas01 st, fadd2 st, cas23 (st + 2)]         -- notified, held, timed out: starve; CAS(2,3) fails
  | 7 => [cas01 st, cas01 st]                         -- notified, held: listen again; CAS fails
  | 8 => [cas01 st, fadd2 st, cas23 (st + 2)]
  | 9 => [cas01 st, fadd2 st, cas23 (st + 2), for1 (st + 2), fsub2 (st + 3)]
  | 10 => [cas01 st, fadd2 st, cas23 (st + 2)]
  | 12 => [for1 st, fsub2 (st + 1)]                   -- starved, notified: fetch_or acquires; take_mutex
  | 13 => [for1 st, cas23 st]                         -- starved, notified, held: listen again
  | _ => []                                           -- 4, 11: the listener is not notified

def lockAtoms (c : Core) (l : LockSt) (f t : Nat) (fire : Bool) : List Atom :=
  atomsOfBr c.st (lockPoll c l f t fire).br

def lockDropAtoms (c : Core) (l : LockSt) : List Atom :=
  if l.slow && !l.done && l.starved then [fsub2 c.st] else []

def tryLockAtoms (c : Core) : List Atom := [cas01 c.st]
def unlockAtoms (c : Core) : List Atom := [fsub1 c.st]

end ALock
