import ALock.Atomic.RwLock
import ALock.Lemmas.AtomicRwLock

/-!
# RwLock: happens-before on top of the atomic-granularity word protocol

`SysV` decorates the agents of `Atomic/RwLock.lean` with views (release/acquire semantics, as in
`Atomic/Mutex.lean`); its projection `proj` is a state of that model and every step projects to a
step of it (`proj_stepV`), so the word invariant `Inv` is available.  Ghost steps `wcrit` / `rcrit`
are one critical section under a write guard / under shared access (read guard, upgradable guard,
write guard being downgraded).

Which operations acquire and which release is read from the site table (`ords`); the inner mutex
is not used for synchronisation here (an under-approximation: it only adds edges).
-/

namespace ALock.Atomic.RwLock

structure AgV where
  pc : Pc := .idle
  view : List Nat := []
  deriving Repr

/-- the synchronising sites: is the ordering the code passes at least Acquire / Release? -/
structure Ords where
  /-- `compare_exchange(state, state + ONE_READER)` of readers and upgradable readers (success) -/
  acqReaderCas : Bool
  /-- `try_write`: `compare_exchange(0, WRITER_BIT)` -/
  acqWCas0 : Bool
  /-- `RawWrite`: `fetch_or(WRITER_BIT)` -/
  acqFetchOr : Bool
  /-- the `state.load(..) == WRITER_BIT` checks of `RawWrite` / `RawUpgrade` -/
  acqCheck : Bool
  /-- `try_upgrade`: `compare_exchange(ONE_READER, WRITER_BIT)` acquires and releases -/
  acqTryUpgrade : Bool
  relTryUpgrade : Bool
  /-- `read_unlock` / `upgradable_read_unlock`: `fetch_sub(ONE_READER)` -/
  relReadUnlock : Bool
  /-- `write_unlock`: `fetch_and(!WRITER_BIT)` -/
  relWriteUnlock : Bool
  /-- `downgrade_write` / `downgrade_to_upgradable`: `fetch_add(ONE_READER - WRITER_BIT)` -/
  relDowngrade : Bool
  /-- `upgrade`: `fetch_sub(ONE_READER - WRITER_BIT)` -/
  relUpgrade : Bool
  deriving DecidableEq, Repr

def Ords.ok (o : Ords) : Prop :=
  o.acqReaderCas = true ∧ o.acqWCas0 = true ∧ o.acqFetchOr = true ∧ o.acqCheck = true ∧
  o.acqTryUpgrade = true ∧ o.relTryUpgrade = true ∧ o.relReadUnlock = true ∧
  o.relWriteUnlock = true ∧ o.relDowngrade = true ∧ o.relUpgrade = true

structure SysV where
  state : Nat := 0
  ags : List AgV := []
  /-- view of the word's release sequence (every write to `state` is a read-modify-write) -/
  wview : List Nat := []
  /-- ghost: completed critical sections under a write guard / under shared access -/
  doneW : List Nat := []
  doneR : List Nat := []
  deriving Repr

def proj (s : SysV) : Sys := { state := s.state, ags := s.ags.map (·.pc) }

def Step.agent : Step → Nat
  | .spawn => 0
  | .rLoad i | .rCas i | .rUnlock i | .mLock i | .mUnlock i | .uLoad i | .uCas i | .wCas0 i
  | .wFetchOr i | .wCheck i | .wUnlock1 i | .tryUpgrade i | .upgrade i | .dgU i | .dgW1 i | .dgW2 i
  | .dgWU i | .uUnlock1 i => i

def Step.isAcq (o : Ords) : Step → Bool
  | .rCas _ | .uCas _ => o.acqReaderCas
  | .wCas0 _ => o.acqWCas0
  | .wFetchOr _ => o.acqFetchOr
  | .wCheck _ => o.acqCheck
  | .tryUpgrade _ => o.acqTryUpgrade
  | _ => false

def Step.isRel (o : Ords) : Step → Bool
  | .rUnlock _ | .uUnlock1 _ => o.relReadUnlock
  | .wUnlock1 _ => o.relWriteUnlock
  | .dgW1 _ | .dgWU _ => o.relDowngrade
  | .upgrade _ => o.relUpgrade
  | .tryUpgrade _ => o.relTryUpgrade
  | _ => false

inductive StepV
  | op (st : Step)
  /-- one critical section under a write guard -/
  | wcrit (i : Nat)
  /-- one critical section under shared access -/
  | rcrit (i : Nat)
  deriving DecidableEq, Repr

def fresh (s : SysV) : Nat := s.doneW.length + s.doneR.length

def stepV (o : Ords) (s : SysV) : StepV → SysV
  | .op .spawn => { s with ags := s.ags ++ [{}] }
  | .op st =>
    let p' := step (proj s) st
    let i := st.agent
    match s.ags[i]? with
    | none => s
    | some a =>
      if p' = proj s then s
      else
        { s with
          state := p'.state,
          wview := if st.isRel o then s.wview ++ a.view else s.wview,
          ags := s.ags.modify i fun a =>
            { pc := (p'.ags[i]?).getD a.pc, view := if st.isAcq o then a.view ++ s.wview else a.view } }
  | .wcrit i =>
    match s.ags[i]? with
    | some a =>
      if a.pc = .w then
        { s with doneW := fresh s :: s.doneW,
                 ags := s.ags.modify i fun a => { a with view := fresh s :: a.view } }
      else s
    | none => s
  | .rcrit i =>
    match s.ags[i]? with
    | some a =>
      if a.pc.sh = 1 then
        { s with doneR := fresh s :: s.doneR,
                 ags := s.ags.modify i fun a => { a with view := fresh s :: a.view } }
      else s
    | none => s

def runV (o : Ords) (s : SysV) (l : List StepV) : SysV := l.foldl (stepV o) s

end ALock.Atomic.RwLock

namespace ALock.Atomic.RwLock

/-- success ordering of every site with this operation and one of these operand lists -/
def succOrds (op : String) (argss : List (List String)) : List Ord :=
  (sites.filter fun s => s.op == op && argss.contains s.args).map fun s => s.ord.headD .relaxed

/-- every ordering alternative of the `state.load` checks in `RawWrite` / `RawUpgrade` -/
def checkOrds : List Ord :=
  (sites.filter fun s => s.op == "load" && (s.ty == "RawWrite" || s.ty == "RawUpgrade")).flatMap (·.ord)

/-- the orderings the code passes at the synchronising sites, read from the generated table -/
def ords : Ords where
  acqReaderCas := (succOrds "compare_exchange"
    [["state", "state + ONE_READER"], ["*this.state", "*this.state + ONE_READER"]]).all Ord.isAcq
  acqWCas0 := (succOrds "compare_exchange" [["0", "WRITER_BIT"]]).all Ord.isAcq
  acqFetchOr := (succOrds "fetch_or" [["WRITER_BIT"]]).all Ord.isAcq
  acqCheck := checkOrds.all Ord.isAcq && !checkOrds.isEmpty
  acqTryUpgrade := (succOrds "compare_exchange" [["ONE_READER", "WRITER_BIT"]]).all Ord.isAcq
  relTryUpgrade := (succOrds "compare_exchange" [["ONE_READER", "WRITER_BIT"]]).all Ord.isRel
  relReadUnlock := (succOrds "fetch_sub" [["ONE_READER"]]).all Ord.isRel
  relWriteUnlock := (succOrds "fetch_and" [["!WRITER_BIT"]]).all Ord.isRel
  relDowngrade := (succOrds "fetch_add" [["ONE_READER - WRITER_BIT"]]).all Ord.isRel
  relUpgrade := (succOrds "fetch_sub" [["ONE_READER - WRITER_BIT"]]).all Ord.isRel

end ALock.Atomic.RwLock
