import ALock.Atomic.Site
import ALock.Atomic.Lists
import ALock.Generated.Atomics

/-!
# OnceCell: the `state` word and the value slot at the granularity of single atomic operations

One step = one atomic operation of `src/once_cell.rs` on `OnceCell::state` (or the plain write of
the value, `ptr::write`, which only the agent that won the CAS performs), by any of any number of
agents in any interleaving.  Views as in `Atomic/Mutex.lean`; here `state.store(Initialized,
Release)` is a plain store, which *replaces* the view carried by the word.

`state`: 0 uninitialised, 1 initialising, 2 initialised.
-/

namespace ALock.Atomic.Once

structure Ag where
  /-- won `compare_exchange(Uninitialized, Initializing)` and holds the `Guard` -/
  running : Bool := false
  /-- id of the value write (`ptr::write`) this agent has performed in its current attempt -/
  wrote : Option Nat := none
  /-- has read `state == Initialized` (so it goes on to read the value) -/
  seen2 : Bool := false
  /-- value writes that happen-before this agent's next action -/
  view : List Nat := []
  deriving Repr

structure Ords where
  /-- `state.store(Initialized, _)` is at least Release -/
  relStore : Bool
  /-- every `state.load(_)` is at least Acquire -/
  acqLoad : Bool
  deriving DecidableEq, Repr

structure Sys where
  state : Nat := 0
  ags : List Ag := []
  /-- view carried by the last store to `state` -/
  wview : List Nat := []
  /-- ghost: number of value writes so far -/
  writes : Nat := 0
  /-- ghost: the write that produced the value now in the cell -/
  cur : Option Nat := none
  deriving Repr

inductive Step
  | spawn
  /-- `compare_exchange(Uninitialized, Initializing, AcqRel, Acquire)` -/
  | cas01 (i : Nat)
  /-- `ptr::write(value)` by the agent holding the `Guard` -/
  | writeVal (i : Nat)
  /-- `forget(guard); state.store(Initialized, Release)` -/
  | store2 (i : Nat)
  /-- `Guard::drop`: `state.store(Uninitialized, Release)` (the initialiser failed or was cancelled) -/
  | fail (i : Nat)
  /-- `state.load(Acquire)` (in `get`, `is_initialized`, `wait`, `initialize_or_wait`) -/
  | load (i : Nat)
  deriving DecidableEq, Repr

def step (o : Ords) (s : Sys) : Step → Sys
  | .spawn => { s with ags := s.ags ++ [{}] }
  | .cas01 i =>
    match s.ags[i]? with
    | some a =>
      if !a.running && s.state = 0 then
        { s with state := 1, ags := s.ags.modify i fun a => { a with running := true, wrote := none } }
      else s
    | none => s
  | .writeVal i =>
    match s.ags[i]? with
    | some a =>
      if a.running && a.wrote.isNone then
        { s with writes := s.writes + 1,
                 ags := s.ags.modify i fun a => { a with wrote := some s.writes, view := s.writes :: a.view } }
      else s
    | none => s
  | .store2 i =>
    match s.ags[i]? with
    | some a =>
      if a.running && a.wrote.isSome then
        { s with state := 2, cur := a.wrote, wview := if o.relStore then a.view else [],
                 ags := s.ags.modify i fun a => { a with running := false } }
      else s
    | none => s
  | .fail i =>
    match s.ags[i]? with
    | some a =>
      if a.running && a.wrote.isNone then
        { s with state := 0, wview := a.view, ags := s.ags.modify i fun a => { a with running := false } }
      else s
    | none => s
  | .load i =>
    match s.ags[i]? with
    | some _ =>
      if s.state = 2 then
        { s with ags := s.ags.modify i fun a =>
            { a with seen2 := true, view := if o.acqLoad then a.view ++ s.wview else a.view } }
      else s
    | none => s

def run (o : Ords) (s : Sys) (l : List Step) : Sys := l.foldl (step o) s

def runners (l : List Ag) : Nat := (l.map fun a => ind a.running).sum

structure Inv (s : Sys) : Prop where
  /-- the cell is in the initialising state exactly while one agent holds the guard -/
  runA : s.state = 1 → runners s.ags = 1
  runB : s.state ≠ 1 → runners s.ags = 0
  st : s.state ≤ 2
  /-- once initialised, the word's view contains the write of the stored value -/
  pub : s.state = 2 → ∃ k, s.cur = some k ∧ k ∈ s.wview
  /-- the writer has its own write in its view (program order) -/
  own : ∀ a ∈ s.ags, ∀ k, a.wrote = some k → k ∈ a.view
  /-- who has seen "initialised" has the write of the stored value in its view -/
  seen : ∀ a ∈ s.ags, a.seen2 = true → s.state = 2 ∧ ∃ k, s.cur = some k ∧ k ∈ a.view

def Ords.ok (o : Ords) : Prop := o.relStore = true ∧ o.acqLoad = true

theorem step_inv (o : Ords) (ho : o.ok) (s : Sys) (st : Step) (h : Inv s) : Inv (step o s st) := by
  obtain ⟨o1, o2⟩ := ho
  obtain ⟨hrA, hrB, hst, hp, hown, hseen⟩ := h
  cases st with
  | spawn =>
    refine ⟨?_, ?_, hst, hp, ?_, ?_⟩
    · intro h1; have := hrA h1; simpa [step, runners] using this
    · intro h1; have := hrB h1; simpa [step, runners] using this
    · intro a ha k hk
      simp only [step, List.mem_append, List.mem_singleton] at ha
      rcases ha with ha | rfl
      · exact hown a ha k hk
      · cases hk
    · intro a ha hs
      simp only [step, List.mem_append, List.mem_singleton] at ha
      rcases ha with ha | rfl
      · exact hseen a ha hs
      · cases hs
  | cas01 i =>
    simp only [step]; split
    · rename_i a ha
      split
      · rename_i hc
        simp only [Bool.and_eq_true, Bool.not_eq_true', decide_eq_true_eq] at hc
        have e := sum_map_modify s.ags i (fun a : Ag => { a with running := true, wrote := none })
          (fun a => ind a.running) a ha
        have hr0 := hrB (by omega)
        refine ⟨?_, by simp, by simp, by simp, ?_, ?_⟩
        · intro _; simp only [runners] at hr0 e ⊢; simp [hc.1] at e; omega
        · intro x hx k hk
          rcases mem_modify hx with hx | ⟨a', _, rfl⟩
          · exact hown x hx k hk
          · cases hk
        · intro x hx hs
          rcases mem_modify hx with hx | ⟨a', ha', rfl⟩
          · have := (hseen x hx hs).1; omega
          · rw [ha] at ha'; cases ha'
            have := (hseen a (List.mem_of_getElem? ha) hs).1; omega
      · exact ⟨hrA, hrB, hst, hp, hown, hseen⟩
    · exact ⟨hrA, hrB, hst, hp, hown, hseen⟩
  | writeVal i =>
    simp only [step]; split
    · rename_i a ha
      split
      · have e := sum_map_modify s.ags i
          (fun a : Ag => { a with wrote := some s.writes, view := s.writes :: a.view })
          (fun a => ind a.running) a ha
        refine ⟨fun h1 => ?_, fun h1 => ?_, hst, hp, ?_, ?_⟩
        · have := hrA h1; simp only [runners] at e this ⊢; omega
        · have := hrB h1; simp only [runners] at e this ⊢; omega
        · intro x hx k hk
          rcases mem_modify hx with hx | ⟨a', ha', rfl⟩
          · exact hown x hx k hk
          · simp only [Option.some.injEq] at hk; subst hk; exact List.mem_cons_self ..
        · intro x hx hs
          rcases mem_modify hx with hx | ⟨a', ha', rfl⟩
          · exact hseen x hx hs
          · rw [ha] at ha'; cases ha'
            obtain ⟨h2, k, hk, hv⟩ := hseen a (List.mem_of_getElem? ha) hs
            exact ⟨h2, k, hk, List.mem_cons_of_mem _ hv⟩
      · exact ⟨hrA, hrB, hst, hp, hown, hseen⟩
    · exact ⟨hrA, hrB, hst, hp, hown, hseen⟩
  | store2 i =>
    simp only [step]; split
    · rename_i a ha
      split
      · rename_i hc
        simp only [Bool.and_eq_true] at hc
        have e := sum_map_modify s.ags i (fun a : Ag => { a with running := false })
          (fun a => ind a.running) a ha
        have h1 : s.state = 1 := by
          have := sum_ind_pos s.ags (fun a : Ag => a.running) a (List.mem_of_getElem? ha) hc.1
          by_cases h1 : s.state = 1
          · exact h1
          · have := hrB h1; simp only [runners] at *; omega
        have hr1 := hrA h1
        obtain ⟨k, hk⟩ := Option.isSome_iff_exists.mp hc.2
        refine ⟨by simp, ?_, by simp, ?_, ?_, ?_⟩
        · intro _; simp only [runners] at hr1 e ⊢; simp [hc.1] at e; omega
        · intro _
          exact ⟨k, hk, by simpa [o1] using hown a (List.mem_of_getElem? ha) k hk⟩
        · intro x hx k' hk'
          rcases mem_modify hx with hx | ⟨a', ha', rfl⟩
          · exact hown x hx k' hk'
          · rw [ha] at ha'; cases ha'; exact hown a (List.mem_of_getElem? ha) k' hk'
        · intro x hx hs
          rcases mem_modify hx with hx | ⟨a', ha', rfl⟩
          · have := (hseen x hx hs).1; omega
          · rw [ha] at ha'; cases ha'
            have := (hseen a (List.mem_of_getElem? ha) hs).1; omega
      · exact ⟨hrA, hrB, hst, hp, hown, hseen⟩
    · exact ⟨hrA, hrB, hst, hp, hown, hseen⟩
  | fail i =>
    simp only [step]; split
    · rename_i a ha
      split
      · rename_i hc
        simp only [Bool.and_eq_true] at hc
        have e := sum_map_modify s.ags i (fun a : Ag => { a with running := false })
          (fun a => ind a.running) a ha
        have h1 : s.state = 1 := by
          have := sum_ind_pos s.ags (fun a : Ag => a.running) a (List.mem_of_getElem? ha) hc.1
          by_cases h1 : s.state = 1
          · exact h1
          · have := hrB h1; simp only [runners] at *; omega
        have hr1 := hrA h1
        refine ⟨by simp, ?_, by simp, by simp, ?_, ?_⟩
        · intro _; simp only [runners] at hr1 e ⊢; simp [hc.1] at e; omega
        · intro x hx k' hk'
          rcases mem_modify hx with hx | ⟨a', ha', rfl⟩
          · exact hown x hx k' hk'
          · rw [ha] at ha'; cases ha'; exact hown a (List.mem_of_getElem? ha) k' hk'
        · intro x hx hs
          rcases mem_modify hx with hx | ⟨a', ha', rfl⟩
          · have := (hseen x hx hs).1; omega
          · rw [ha] at ha'; cases ha'
            have := (hseen a (List.mem_of_getElem? ha) hs).1; omega
      · exact ⟨hrA, hrB, hst, hp, hown, hseen⟩
    · exact ⟨hrA, hrB, hst, hp, hown, hseen⟩
  | load i =>
    simp only [step]; split
    · rename_i a ha
      split
      · rename_i h2
        have e := sum_map_modify s.ags i
          (fun a : Ag => { a with seen2 := true, view := a.view ++ s.wview })
          (fun a => ind a.running) a ha
        refine ⟨fun h1 => ?_, fun h1 => ?_, hst, hp, ?_, ?_⟩
        · have := hrA h1; simp only [runners] at e this ⊢; omega
        · have := hrB h1; simp only [runners] at e this ⊢; omega
        · intro x hx k hk
          rcases mem_modify hx with hx | ⟨a', ha', rfl⟩
          · exact hown x hx k hk
          · rw [ha] at ha'; cases ha'
            simpa [o2] using Or.inl (hown a (List.mem_of_getElem? ha) k hk)
        · intro x hx hs
          rcases mem_modify hx with hx | ⟨a', ha', rfl⟩
          · exact hseen x hx hs
          · obtain ⟨k, hk, hv⟩ := hp h2
            refine ⟨h2, k, hk, ?_⟩
            simpa [o2] using Or.inr hv
      · exact ⟨hrA, hrB, hst, hp, hown, hseen⟩
    · exact ⟨hrA, hrB, hst, hp, hown, hseen⟩

theorem init_inv : Inv {} := ⟨by simp, by simp [runners], by simp, by simp, by simp, by simp⟩

theorem run_inv (o : Ords) (ho : o.ok) (s : Sys) (l : List Step) (h : Inv s) : Inv (run o s l) := by
  induction l generalizing s with
  | nil => exact h
  | cons x t ih => exact ih _ (step_inv o ho s x h)

/-! ### the table this is a model of -/

def sites : List Site := Gen.sites.filter fun s => s.file == "src/once_cell.rs" && s.recv == "state"

def expectedShapes : List (String × String × String × String × List String) :=
  [("OnceCell", "is_initialized", "state", "load", []),
   ("Strategy", "initialize_or_wait", "state", "load", []),
   ("Strategy", "initialize_or_wait", "state", "compare_exchange",
      ["State::Uninitialized.into()", "State::Initializing.into()"]),
   ("Strategy", "initialize_or_wait", "state", "store", ["State::Initialized.into()"]),
   ("Guard", "drop", "state", "store", ["State::Uninitialized.into()"])]

def ords : Ords where
  relStore := ((sites.filter fun s => s.op == "store" && s.args == ["State::Initialized.into()"]).map
    fun s => s.ord.headD .relaxed).all Ord.isRel
  acqLoad := ((sites.filter fun s => s.op == "load").map fun s => s.ord.headD .relaxed).all Ord.isAcq

end ALock.Atomic.Once
