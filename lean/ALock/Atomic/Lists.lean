/-! List bookkeeping for the agent lists of the interleaving models. -/

namespace ALock.Atomic

def ind (b : Bool) : Nat := if b then 1 else 0
@[simp] theorem ind_true : ind true = 1 := rfl
@[simp] theorem ind_false : ind false = 0 := rfl

theorem sum_map_modify {α : Type} (l : List α) (i : Nat) (f : α → α) (h : α → Nat) (a : α)
    (ha : l[i]? = some a) :
    ((l.modify i f).map h).sum + h a = (l.map h).sum + h (f a) := by
  induction l generalizing i with
  | nil => simp at ha
  | cons x t ih =>
    cases i with
    | zero =>
      simp only [List.getElem?_cons_zero, Option.some.injEq] at ha
      subst ha
      simp only [List.modify_zero_cons, List.map_cons, List.sum_cons]
      omega
    | succ n =>
      simp only [List.getElem?_cons_succ] at ha
      have := ih n ha
      simp only [List.modify_succ_cons, List.map_cons, List.sum_cons]
      omega

theorem mem_modify {α : Type} {l : List α} {i : Nat} {f : α → α} {x : α}
    (hx : x ∈ l.modify i f) : x ∈ l ∨ ∃ a, l[i]? = some a ∧ x = f a := by
  induction l generalizing i with
  | nil => simp at hx
  | cons y t ih =>
    cases i with
    | zero =>
      rw [List.modify_zero_cons] at hx
      rcases List.mem_cons.mp hx with rfl | hx
      · exact Or.inr ⟨y, by simp, rfl⟩
      · exact Or.inl (List.mem_cons_of_mem _ hx)
    | succ n =>
      rw [List.modify_succ_cons] at hx
      rcases List.mem_cons.mp hx with rfl | hx
      · exact Or.inl (List.mem_cons_self ..)
      · rcases ih hx with h | ⟨a, ha, rfl⟩
        · exact Or.inl (List.mem_cons_of_mem _ h)
        · exact Or.inr ⟨a, by simpa using ha, rfl⟩

/-- an element of the modified list is an unmodified element other than the `i`-th, or the image -/
theorem mem_modify' {α : Type} {l : List α} {i : Nat} {f : α → α} {x : α}
    (hx : x ∈ l.modify i f) :
    (∃ j, j ≠ i ∧ l[j]? = some x) ∨ ∃ a, l[i]? = some a ∧ x = f a := by
  induction l generalizing i with
  | nil => simp at hx
  | cons y t ih =>
    cases i with
    | zero =>
      rw [List.modify_zero_cons] at hx
      rcases List.mem_cons.mp hx with rfl | hx
      · exact Or.inr ⟨y, by simp, rfl⟩
      · obtain ⟨j, hj⟩ := List.getElem?_of_mem hx
        exact Or.inl ⟨j + 1, by omega, by simpa using hj⟩
    | succ n =>
      rw [List.modify_succ_cons] at hx
      rcases List.mem_cons.mp hx with rfl | hx
      · exact Or.inl ⟨0, by omega, by simp⟩
      · rcases ih hx with ⟨j, hj, hx⟩ | ⟨a, ha, rfl⟩
        · exact Or.inl ⟨j + 1, by omega, by simpa using hx⟩
        · exact Or.inr ⟨a, by simpa using ha, rfl⟩

theorem sum_ind_zero {α : Type} (l : List α) (p : α → Bool) (h : (l.map fun a => ind (p a)).sum = 0) :
    ∀ a ∈ l, p a = false := by
  induction l with
  | nil => intro a ha; cases ha
  | cons x t ih =>
    simp only [List.map_cons, List.sum_cons] at h
    intro a ha
    rcases List.mem_cons.mp ha with rfl | ha
    · cases hp : p a
      · rfl
      · simp [hp] at h
    · exact ih (by omega) a ha

theorem sum_ind_pos {α : Type} (l : List α) (p : α → Bool) (a : α) (ha : a ∈ l) (hp : p a = true) :
    1 ≤ (l.map fun a => ind (p a)).sum := by
  induction l with
  | nil => cases ha
  | cons x t ih =>
    simp only [List.map_cons, List.sum_cons]
    rcases List.mem_cons.mp ha with rfl | ha
    · simp [hp]
    · have := ih ha; omega

end ALock.Atomic

namespace ALock.Atomic

theorem mem_modify_self {α : Type} {l : List α} {i : Nat} {f : α → α} {a : α}
    (ha : l[i]? = some a) : f a ∈ l.modify i f := by
  induction l generalizing i with
  | nil => simp at ha
  | cons y t ih =>
    cases i with
    | zero =>
      simp only [List.getElem?_cons_zero, Option.some.injEq] at ha
      subst ha; rw [List.modify_zero_cons]; exact List.mem_cons_self ..
    | succ n =>
      rw [List.modify_succ_cons]
      exact List.mem_cons_of_mem _ (ih (by simpa using ha))

theorem sum_ind_two {α : Type} (l : List α) (p : α → Bool) {i j : Nat} {a b : α}
    (hi : l[i]? = some a) (hj : l[j]? = some b) (hij : i ≠ j) (pa : p a = true) (pb : p b = true) :
    2 ≤ (l.map fun a => ind (p a)).sum := by
  induction l generalizing i j with
  | nil => simp at hi
  | cons x t ih =>
    simp only [List.map_cons, List.sum_cons]
    cases i with
    | zero =>
      cases j with
      | zero => exact absurd rfl hij
      | succ m =>
        simp only [List.getElem?_cons_zero, Option.some.injEq] at hi
        simp only [List.getElem?_cons_succ] at hj
        have := sum_ind_pos t p b (List.mem_of_getElem? hj) pb
        subst hi; simp [pa]; omega
    | succ n =>
      cases j with
      | zero =>
        simp only [List.getElem?_cons_zero, Option.some.injEq] at hj
        simp only [List.getElem?_cons_succ] at hi
        have := sum_ind_pos t p a (List.mem_of_getElem? hi) pa
        subst hj; simp [pb]; omega
      | succ m =>
        simp only [List.getElem?_cons_succ] at hi hj
        have := ih hi hj (by omega)
        omega

end ALock.Atomic

namespace ALock.Atomic

theorem le_sum_map_of_getElem? {α : Type} (l : List α) (f : α → Nat) {i : Nat} {a : α}
    (hi : l[i]? = some a) : f a ≤ (l.map f).sum := by
  induction l generalizing i with
  | nil => simp at hi
  | cons x t ih =>
    simp only [List.map_cons, List.sum_cons]
    cases i with
    | zero => simp only [List.getElem?_cons_zero, Option.some.injEq] at hi; subst hi; omega
    | succ n => have := ih (by simpa using hi); omega

theorem sum_map_two {α : Type} (l : List α) (f : α → Nat) {i j : Nat} {a b : α}
    (hi : l[i]? = some a) (hj : l[j]? = some b) (hij : i ≠ j) :
    f a + f b ≤ (l.map f).sum := by
  induction l generalizing i j with
  | nil => simp at hi
  | cons x t ih =>
    simp only [List.map_cons, List.sum_cons]
    cases i with
    | zero =>
      cases j with
      | zero => exact absurd rfl hij
      | succ m =>
        simp only [List.getElem?_cons_zero, Option.some.injEq] at hi
        have := le_sum_map_of_getElem? t f (by simpa using hj : t[m]? = some b)
        subst hi; omega
    | succ n =>
      cases j with
      | zero =>
        simp only [List.getElem?_cons_zero, Option.some.injEq] at hj
        have := le_sum_map_of_getElem? t f (by simpa using hi : t[n]? = some a)
        subst hj; omega
      | succ m =>
        have := ih (by simpa using hi : t[n]? = some a) (by simpa using hj : t[m]? = some b) (by omega)
        omega

theorem sum_map_zero_all {α : Type} (l : List α) (f : α → Nat) (h : (l.map f).sum = 0) :
    ∀ a ∈ l, f a = 0 := by
  induction l with
  | nil => intro a ha; cases ha
  | cons x t ih =>
    simp only [List.map_cons, List.sum_cons] at h
    intro a ha
    rcases List.mem_cons.mp ha with rfl | ha
    · omega
    · exact ih (by omega) a ha

theorem getElem?_modify_other {α : Type} (l : List α) (f : α → α) {i j : Nat} (h : j ≠ i) :
    (l.modify i f)[j]? = l[j]? := by
  rw [List.getElem?_modify]
  simp [Ne.symm h]

end ALock.Atomic
