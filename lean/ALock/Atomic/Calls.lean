import ALock.Atomic.Site
import ALock.Generated.Atomics

/-!
# Where each file touches its state word, the inner mutex and its events — in source order

`fileShapes f` is the sequence of *all* sites of source file `f` in the generated table: atomic
operations on the state word, inner-mutex calls, and `listen` / `notify` calls on the events (also
through the `listener!` macro), function by function.  The expectations below are what the models
were written against: the poll-granular models' branches perform these operations in this order
(the differential run checks their effects), and the wake-up theorems depend on every `notify`
and `listen` being where it is.  A notify that is added, removed, moved or re-targeted changes the
table and fails the corresponding `*_calls_ok` theorem.
-/

namespace ALock.Atomic.Calls

def fileShapes (file : String) : List (String × String × String × String × List String) :=
  (Gen.sites.filter fun s => s.file == file).map Site.shape

def mutexExpected : List (String × String × String × String × List String) :=
  [("Mutex", "try_lock", "state", "compare_exchange", ["0", "1"]),
   ("Mutex", "unlock_unchecked", "state", "fetch_sub", ["1"]),
   ("Mutex", "unlock_unchecked", "lock_ops", "notify", ["1"]),
   ("Mutex", "try_lock_arc", "state", "compare_exchange", ["0", "1"]),
   ("LockInner", "poll_with_strategy", "mutex", "try_lock", []),
   ("AcquireSlow", "take_mutex", "state", "fetch_sub", ["2"]),
   ("AcquireSlow", "poll_with_strategy", "lock_ops", "listen", []),
   ("AcquireSlow", "poll_with_strategy", "state", "compare_exchange", ["0", "1"]),
   ("AcquireSlow", "poll_with_strategy", "state", "compare_exchange", ["0", "1"]),
   ("AcquireSlow", "poll_with_strategy", "lock_ops", "notify", ["1"]),
   ("AcquireSlow", "poll_with_strategy", "state", "fetch_add", ["2"]),
   ("AcquireSlow", "poll_with_strategy", "lock_ops", "listen", []),
   ("AcquireSlow", "poll_with_strategy", "state", "compare_exchange", ["2", "2 | 1"]),
   ("AcquireSlow", "poll_with_strategy", "lock_ops", "notify", ["1"]),
   ("AcquireSlow", "poll_with_strategy", "state", "fetch_or", ["1"])]

def semaphoreExpected : List (String × String × String × String × List String) :=
  [("Semaphore", "try_acquire", "count", "load", []),
   ("Semaphore", "try_acquire", "count", "compare_exchange_weak", ["count", "count - 1"]),
   ("Semaphore", "try_acquire_arc", "count", "load", []),
   ("Semaphore", "try_acquire_arc", "count", "compare_exchange_weak", ["count", "count - 1"]),
   ("Semaphore", "add_permits", "count", "fetch_add", ["n"]),
   ("Semaphore", "add_permits", "event", "notify", ["n"]),
   -- the forwarding of a consumed notification (fix 196e88b; not reachable with atomic polls)
   ("AcquireInner", "poll_with_strategy", "event", "notify", ["1"]),
   ("AcquireInner", "poll_with_strategy", "event", "listen", []),
   ("AcquireArcInner", "poll_with_strategy", "event", "notify", ["1"]),
   ("AcquireArcInner", "poll_with_strategy", "event", "listen", []),
   ("SemaphoreGuard", "drop", "count", "fetch_add", ["1"]),
   ("SemaphoreGuard", "drop", "event", "notify", ["1"]),
   ("SemaphoreGuardArc", "drop", "count", "fetch_add", ["1"]),
   ("SemaphoreGuardArc", "drop", "event", "notify", ["1"])]

def rwlockRawExpected : List (String × String × String × String × List String) :=
  [("RawRwLock", "try_read", "state", "load", []),
   ("RawRwLock", "try_read", "state", "compare_exchange", ["state", "state + ONE_READER"]),
   ("RawRwLock", "read", "state", "load", []),
   ("RawRwLock", "try_upgradable_read", "mutex", "try_lock", []),
   ("RawRwLock", "try_upgradable_read", "state", "load", []),
   ("RawRwLock", "try_upgradable_read", "state", "compare_exchange", ["state", "state + ONE_READER"]),
   ("RawRwLock", "upgradable_read", "mutex", "lock", []),
   ("RawRwLock", "try_write", "mutex", "try_lock", []),
   ("RawRwLock", "try_write", "state", "compare_exchange", ["0", "WRITER_BIT"]),
   ("RawRwLock", "write", "mutex", "lock", []),
   ("RawRwLock", "try_upgrade", "state", "compare_exchange", ["ONE_READER", "WRITER_BIT"]),
   ("RawRwLock", "upgrade", "state", "fetch_sub", ["ONE_READER - WRITER_BIT"]),
   ("RawRwLock", "downgrade_upgradable_read", "mutex", "unlock_unchecked", []),
   ("RawRwLock", "downgrade_write", "state", "fetch_add", ["ONE_READER - WRITER_BIT"]),
   ("RawRwLock", "downgrade_write", "mutex", "unlock_unchecked", []),
   ("RawRwLock", "downgrade_write", "no_writer", "notify", ["1"]),
   ("RawRwLock", "downgrade_to_upgradable", "state", "fetch_add", ["ONE_READER - WRITER_BIT"]),
   ("RawRwLock", "downgrade_to_upgradable", "no_writer", "notify", ["1"]),
   ("RawRwLock", "read_unlock", "state", "fetch_sub", ["ONE_READER"]),
   ("RawRwLock", "read_unlock", "no_readers", "notify", ["1"]),
   ("RawRwLock", "upgradable_read_unlock", "state", "fetch_sub", ["ONE_READER"]),
   ("RawRwLock", "upgradable_read_unlock", "no_readers", "notify", ["1"]),
   ("RawRwLock", "upgradable_read_unlock", "mutex", "unlock_unchecked", []),
   ("RawRwLock", "write_unlock", "state", "fetch_and", ["!WRITER_BIT"]),
   ("RawRwLock", "write_unlock", "no_writer", "notify", ["1"]),
   ("RawRwLock", "write_unlock", "mutex", "unlock_unchecked", []),
   ("RawRead", "poll_with_strategy", "state", "compare_exchange", ["*this.state", "*this.state + ONE_READER"]),
   ("RawRead", "poll_with_strategy", "no_writer", "listen", []),
   ("RawRead", "poll_with_strategy", "state", "load", []),
   ("RawRead", "poll_with_strategy", "no_writer", "notify", ["1"]),
   ("RawRead", "poll_with_strategy", "state", "load", []),
   ("RawUpgradableRead", "poll_with_strategy", "state", "load", []),
   ("RawUpgradableRead", "poll_with_strategy", "state", "compare_exchange", ["state", "state + ONE_READER"]),
   ("RawWrite", "poll_with_strategy", "state", "fetch_or", ["WRITER_BIT"]),
   ("RawWrite", "poll_with_strategy", "no_readers", "listen", []),
   ("RawWrite", "poll_with_strategy", "state", "load", []),
   ("RawWrite", "poll_with_strategy", "no_readers", "listen", []),
   ("RawUpgrade", "poll_with_strategy", "state", "load", []),
   ("RawUpgrade", "poll_with_strategy", "no_readers", "listen", [])]

def onceCellExpected : List (String × String × String × String × List String) :=
  [("OnceCell", "is_initialized", "state", "load", []),
   ("OnceCell", "wait", "passive_waiters", "listen", ["listener!"]),
   ("OnceCell", "wait_blocking", "passive_waiters", "listen", ["listener!"]),
   ("Strategy", "initialize_or_wait", "state", "load", []),
   ("Strategy", "initialize_or_wait", "active_initializers", "listen", []),
   ("Strategy", "initialize_or_wait", "state", "compare_exchange", ["State::Uninitialized.into()", "State::Initializing.into()"]),
   ("Strategy", "initialize_or_wait", "state", "store", ["State::Initialized.into()"]),
   ("Strategy", "initialize_or_wait", "active_initializers", "notify_additional", ["usize::MAX"]),
   ("Strategy", "initialize_or_wait", "passive_waiters", "notify_additional", ["usize::MAX"]),
   ("Guard", "drop", "state", "store", ["State::Uninitialized.into()"]),
   ("Guard", "drop", "active_initializers", "notify", ["1"])]

def barrierExpected : List (String × String × String × String × List String) :=
  [("BarrierWaitInner", "poll_with_strategy", "event", "listen", []),
   ("BarrierWaitInner", "poll_with_strategy", "event", "notify", ["usize::MAX"]),
   ("BarrierWaitInner", "poll_with_strategy", "event", "listen", [])]

end ALock.Atomic.Calls
