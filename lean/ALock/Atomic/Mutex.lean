import ALock.Atomic.Site
import ALock.Generated.Atomics
import ALock.Lemmas.ListAux

/-!
# Mutex: the state-word protocol at the granularity of single atomic operations

Every step below is **one** atomic operation of `src/mutex.rs` on `Mutex::state`, executed by one of
any number of *agents* (a lock operation from its first attempt until the guard it produced is
dropped).  Any agent may take its next step at any time: the runs of this system are all
interleavings of the crate's atomic operations by any number of threads.  What the event-listener
does (who is woken when) is irrelevant for safety: an agent may attempt any operation its own
program state allows, at any time.

| step       | code site (table `Generated/Atomics.lean`)                                      |
|------------|---------------------------------------------------------------------------------|
| `cas01`    | `try_lock`, `try_lock_arc`, both hot-loop sites: `compare_exchange(0, 1, Acquire, Acquire)` |
| `starve`   | `AcquireSlow`: `fetch_add(2, Release)`                                          |
| `cas23`    | fair loop: `compare_exchange(2, 2 | 1, Acquire, Acquire)`                        |
| `fetchOr`  | fair loop: `fetch_or(1, Acquire)`                                               |
| `unstarve` | `take_mutex`: `fetch_sub(2, Release)`                                           |
| `unlock`   | `unlock_unchecked`: `fetch_sub(1, Release)`                                     |
| `crit`     | ghost: the holder touches the protected data                                    |

**Happens-before.** Views in the style of release/acquire semantics: every agent carries the set of
critical sections it has observed, the word carries the view of its release sequence (every
operation on the word is a read-modify-write, so the sequence is never broken).  A successful
acquiring RMW joins the word's view into the agent's *iff its ordering is at least Acquire*; the
unlock joins the agent's view into the word's *iff its ordering is at least Release*.  Which
orderings the code passes is **not** written here: `ords` reads them from the generated table.
-/

namespace ALock.Atomic.Mutex

structure Ag where
  holder : Bool := false
  starved : Bool := false
  /-- critical sections that happen-before this agent's next action -/
  view : List Nat := []
  deriving Repr

/-- which of the four synchronising sites carry the ordering they need -/
structure Ords where
  acq01 : Bool
  acq23 : Bool
  acqOr : Bool
  relUnlock : Bool
  deriving DecidableEq, Repr

structure Sys where
  st : Nat := 0
  ags : List Ag := []
  /-- view of the word's release sequence -/
  wview : List Nat := []
  /-- ghost: critical sections completed so far, newest first -/
  done : List Nat := []
  deriving Repr

inductive Step
  | spawn
  | cas01 (i : Nat) | starve (i : Nat) | cas23 (i : Nat) | fetchOr (i : Nat)
  | unstarve (i : Nat) | unlock (i : Nat) | crit (i : Nat)
  deriving DecidableEq, Repr

def upd (l : List Ag) (i : Nat) (f : Ag → Ag) : List Ag := l.modify i f

def step (o : Ords) (s : Sys) : Step → Sys
  | .spawn => { s with ags := s.ags ++ [{}] }
  | .cas01 i =>
    match s.ags[i]? with
    | some a =>
      if !a.holder && s.st = 0 then
        { s with st := 1, ags := upd s.ags i fun a =>
            { a with holder := true, view := if o.acq01 then a.view ++ s.wview else a.view } }
      else s
    | none => s
  | .starve i =>
    match s.ags[i]? with
    | some a =>
      if !a.holder && !a.starved then
        { s with st := s.st + 2, ags := upd s.ags i fun a => { a with starved := true } }
      else s
    | none => s
  | .cas23 i =>
    match s.ags[i]? with
    | some a =>
      if !a.holder && a.starved && s.st = 2 then
        { s with st := 3, ags := upd s.ags i fun a =>
            { a with holder := true, view := if o.acq23 then a.view ++ s.wview else a.view } }
      else s
    | none => s
  | .fetchOr i =>
    match s.ags[i]? with
    | some a =>
      if !a.holder && a.starved && s.st % 2 = 0 then
        { s with st := s.st + 1, ags := upd s.ags i fun a =>
            { a with holder := true, view := if o.acqOr then a.view ++ s.wview else a.view } }
      else s
    | none => s
  | .unstarve i =>
    match s.ags[i]? with
    | some a =>
      if a.starved then
        { s with st := s.st - 2, ags := upd s.ags i fun a => { a with starved := false } }
      else s
    | none => s
  | .unlock i =>
    match s.ags[i]? with
    | some a =>
      if a.holder then
        { s with st := s.st - 1, ags := upd s.ags i fun a => { a with holder := false },
                 wview := if o.relUnlock then s.wview ++ a.view else s.wview }
      else s
    | none => s
  | .crit i =>
    match s.ags[i]? with
    | some a =>
      if a.holder then
        { s with done := s.done.length :: s.done,
                 ags := upd s.ags i fun a => { a with view := s.done.length :: a.view } }
      else s
    | none => s

def run (o : Ords) (s : Sys) (l : List Step) : Sys := l.foldl (step o) s

/-! ### the table this is a model of -/

def sites : List Site := Gen.sites.filter fun s => s.file == "src/mutex.rs" && s.recv == "state"

def expectedShapes : List (String × String × String × String × List String) :=
  [("Mutex", "try_lock", "state", "compare_exchange", ["0", "1"]),
   ("Mutex", "unlock_unchecked", "state", "fetch_sub", ["1"]),
   ("Mutex", "try_lock_arc", "state", "compare_exchange", ["0", "1"]),
   ("AcquireSlow", "take_mutex", "state", "fetch_sub", ["2"]),
   ("AcquireSlow", "poll_with_strategy", "state", "compare_exchange", ["0", "1"]),
   ("AcquireSlow", "poll_with_strategy", "state", "compare_exchange", ["0", "1"]),
   ("AcquireSlow", "poll_with_strategy", "state", "fetch_add", ["2"]),
   ("AcquireSlow", "poll_with_strategy", "state", "compare_exchange", ["2", "2 | 1"]),
   ("AcquireSlow", "poll_with_strategy", "state", "fetch_or", ["1"])]

/-- the success ordering of every site with this operation and these operands -/
def succOrds (op : String) (args : List String) : List Ord :=
  (sites.filter fun s => s.op == op && s.args == args).map fun s => s.ord.headD .relaxed

/-- the orderings the code passes at the synchronising sites, read from the generated table -/
def ords : Ords where
  acq01 := (succOrds "compare_exchange" ["0", "1"]).all Ord.isAcq
  acq23 := (succOrds "compare_exchange" ["2", "2 | 1"]).all Ord.isAcq
  acqOr := (succOrds "fetch_or" ["1"]).all Ord.isAcq
  relUnlock := (succOrds "fetch_sub" ["1"]).all Ord.isRel

end ALock.Atomic.Mutex
