import ALock.Atomic.Site
import ALock.Atomic.Lists
import ALock.Generated.Atomics

/-!
# RwLock: the word protocol of `src/rwlock/raw.rs` at the granularity of single atomic operations

One step = one atomic operation on `RawRwLock::state`, or one acquisition / release of the inner
`mutex` (whose own exclusion is `C01_interleaved`; here it is the abstract fact "an agent can take
it only while nobody holds it"), by any of any number of agents in any interleaving.  The program
counter of an agent says where it is *inside* an operation: e.g. `dw` is a thread in the middle of
`downgrade_write`, after `fetch_add(ONE_READER - WRITER_BIT)` and before the inner mutex is released.

`state`: bit 0 = `WRITER_BIT`, `state >> 1` = readers (`ONE_READER = 2`).
-/

namespace ALock.Atomic.RwLock

inductive Pc
  | idle
  /-- `try_read` / `RawRead`: loaded `c` (writer bit clear), about to `compare_exchange(c, c + ONE_READER)` -/
  | rSnap (c : Nat)
  /-- holds a read guard -/
  | r
  /-- holds the inner mutex and nothing else (just acquired it) -/
  | mu
  /-- holds the inner mutex, loaded `c`, about to `compare_exchange(c, c + ONE_READER)` -/
  | muSnap (c : Nat)
  /-- holds an upgradable guard (inner mutex + one reader) -/
  | u
  /-- `RawWrite`: holds the inner mutex, has set `WRITER_BIT`, waits for the readers to leave -/
  | ww
  /-- holds a write guard -/
  | w
  /-- `RawUpgrade`: pending upgrade (inner mutex, `WRITER_BIT` set, own reader removed) -/
  | pu
  /-- in `downgrade_write`, between the `fetch_add` and the release of the inner mutex -/
  | dw
  /-- in `write_unlock`, between the `fetch_and` and the release of the inner mutex -/
  | wu1
  /-- in `upgradable_read_unlock`, between the `fetch_sub` and the release of the inner mutex -/
  | uu1
  deriving DecidableEq, Repr

/-- counted in `state >> 1` -/
def Pc.rd : Pc → Nat | .r | .u | .dw => 1 | _ => 0
/-- owes `WRITER_BIT` -/
def Pc.bt : Pc → Nat | .ww | .w | .pu => 1 | _ => 0
/-- holds the inner mutex -/
def Pc.mh : Pc → Nat
  | .mu | .muSnap _ | .u | .ww | .w | .pu | .dw | .wu1 | .uu1 => 1
  | _ => 0
/-- has exclusive access (a write guard) -/
def Pc.wr : Pc → Nat | .w => 1 | _ => 0
/-- has shared access (read or upgradable guard, or a write guard being downgraded) -/
def Pc.sh : Pc → Nat | .r | .u | .dw => 1 | _ => 0

structure Sys where
  state : Nat := 0
  ags : List Pc := []
  deriving DecidableEq, Repr

def readers (l : List Pc) : Nat := (l.map Pc.rd).sum
def bits (l : List Pc) : Nat := (l.map Pc.bt).sum
def mholders (l : List Pc) : Nat := (l.map Pc.mh).sum
def writers (l : List Pc) : Nat := (l.map Pc.wr).sum

inductive Step
  | spawn
  | rLoad (i : Nat) | rCas (i : Nat) | rUnlock (i : Nat)
  | mLock (i : Nat) | mUnlock (i : Nat)
  | uLoad (i : Nat) | uCas (i : Nat)
  | wCas0 (i : Nat) | wFetchOr (i : Nat) | wCheck (i : Nat) | wUnlock1 (i : Nat)
  | tryUpgrade (i : Nat) | upgrade (i : Nat)
  | dgU (i : Nat) | dgW1 (i : Nat) | dgW2 (i : Nat) | dgWU (i : Nat) | uUnlock1 (i : Nat)
  deriving DecidableEq, Repr

def set (l : List Pc) (i : Nat) (p : Pc) : List Pc := l.modify i fun _ => p

/-- `at i pc k`: if agent `i` is at `pc`, continue with `k`, otherwise the step is not enabled -/
def step (s : Sys) : Step → Sys
  | .spawn => { s with ags := s.ags ++ [.idle] }
  -- try_read / RawRead: `state.load(Acquire)`; proceed only if the writer bit is clear
  | .rLoad i =>
    if s.ags[i]? = some .idle ∧ s.state % 2 = 0 then { s with ags := set s.ags i (.rSnap s.state) } else s
  -- `compare_exchange(c, c + ONE_READER, AcqRel, Acquire)`
  | .rCas i =>
    match s.ags[i]? with
    | some (.rSnap c) =>
      if s.state = c then { state := c + 2, ags := set s.ags i .r }
      else if s.state % 2 = 0 then { s with ags := set s.ags i (.rSnap s.state) }
      else { s with ags := set s.ags i .idle }
    | _ => s
  -- read_unlock: `fetch_sub(ONE_READER)`
  | .rUnlock i =>
    if s.ags[i]? = some .r then { state := s.state - 2, ags := set s.ags i .idle } else s
  -- inner mutex acquired (try_lock / lock().await / lock_blocking): only while nobody holds it
  | .mLock i =>
    if s.ags[i]? = some .idle ∧ mholders s.ags = 0 then { s with ags := set s.ags i .mu } else s
  -- inner mutex released: `try_write` that failed, end of write_unlock / upgradable_read_unlock
  | .mUnlock i =>
    if s.ags[i]? = some .mu ∨ s.ags[i]? = some .wu1 ∨ s.ags[i]? = some .uu1 then
      { s with ags := set s.ags i .idle } else s
  -- try_upgradable_read / RawUpgradableRead: load, then CAS loop
  | .uLoad i =>
    if s.ags[i]? = some .mu then { s with ags := set s.ags i (.muSnap s.state) } else s
  | .uCas i =>
    match s.ags[i]? with
    | some (.muSnap c) =>
      if s.state = c then { state := c + 2, ags := set s.ags i .u }
      else { s with ags := set s.ags i (.muSnap s.state) }
    | _ => s
  -- try_write: `compare_exchange(0, WRITER_BIT)`
  | .wCas0 i =>
    if s.ags[i]? = some .mu ∧ s.state = 0 then { state := 1, ags := set s.ags i .w } else s
  -- RawWrite: `fetch_or(WRITER_BIT)`
  | .wFetchOr i =>
    if s.ags[i]? = some .mu then { state := s.state + (1 - s.state % 2), ags := set s.ags i .ww } else s
  -- RawWrite / RawUpgrade: `state.load() == WRITER_BIT`
  | .wCheck i =>
    if (s.ags[i]? = some .ww ∨ s.ags[i]? = some .pu) ∧ s.state = 1 then { s with ags := set s.ags i .w } else s
  -- write_unlock (guard drop, or drop of a RawWrite waiting for readers / of a pending RawUpgrade):
  -- `fetch_and(!WRITER_BIT)`
  | .wUnlock1 i =>
    if s.ags[i]? = some .w ∨ s.ags[i]? = some .ww ∨ s.ags[i]? = some .pu then
      { state := s.state - s.state % 2, ags := set s.ags i .wu1 } else s
  -- try_upgrade: `compare_exchange(ONE_READER, WRITER_BIT)`
  | .tryUpgrade i =>
    if s.ags[i]? = some .u ∧ s.state = 2 then { state := 1, ags := set s.ags i .w } else s
  -- upgrade: `fetch_sub(ONE_READER - WRITER_BIT)`
  | .upgrade i =>
    if s.ags[i]? = some .u then { state := s.state - 1, ags := set s.ags i .pu } else s
  -- downgrade_upgradable_read: release the inner mutex
  | .dgU i =>
    if s.ags[i]? = some .u then { s with ags := set s.ags i .r } else s
  -- downgrade_write: `fetch_add(ONE_READER - WRITER_BIT)`, then (dgU-like) release of the inner mutex
  | .dgW1 i =>
    if s.ags[i]? = some .w then { state := s.state + 1, ags := set s.ags i .dw } else s
  | .dgW2 i =>
    if s.ags[i]? = some .dw then { s with ags := set s.ags i .r } else s
  -- downgrade_to_upgradable: `fetch_add(ONE_READER - WRITER_BIT)`
  | .dgWU i =>
    if s.ags[i]? = some .w then { state := s.state + 1, ags := set s.ags i .u } else s
  -- upgradable_read_unlock: `fetch_sub(ONE_READER)`
  | .uUnlock1 i =>
    if s.ags[i]? = some .u then { state := s.state - 2, ags := set s.ags i .uu1 } else s

def run (s : Sys) (l : List Step) : Sys := l.foldl step s

/-! ### the table this is a model of -/

def sites : List Site := Gen.sites.filter fun s =>
  s.file == "src/rwlock/raw.rs" && (s.recv == "state" || s.recv == "mutex")

def expectedShapes : List (String × String × String × String × List String) :=
  [("RawRwLock", "try_read", "state", "load", []),
   ("RawRwLock", "try_read", "state", "compare_exchange", ["state", "state + ONE_READER"]),
   ("RawRwLock", "read", "state", "load", []),
   ("RawRwLock", "try_upgradable_read", "mutex", "try_lock", []),
   ("RawRwLock", "try_upgradable_read", "state", "load", []),
   ("RawRwLock", "try_upgradable_read", "state", "compare_exchange", ["state", "state + ONE_READER"]),
   ("RawRwLock", "upgradable_read", "mutex", "lock", []),
   ("RawRwLock", "try_write", "mutex", "try_lock", []),
   ("RawRwLock", "try_write", "state", "compare_exchange", ["0", "WRITER_BIT"]),
   ("RawRwLock", "write", "mutex", "lock", []),
   ("RawRwLock", "try_upgrade", "state", "compare_exchange", ["ONE_READER", "WRITER_BIT"]),
   ("RawRwLock", "upgrade", "state", "fetch_sub", ["ONE_READER - WRITER_BIT"]),
   ("RawRwLock", "downgrade_upgradable_read", "mutex", "unlock_unchecked", []),
   ("RawRwLock", "downgrade_write", "state", "fetch_add", ["ONE_READER - WRITER_BIT"]),
   ("RawRwLock", "downgrade_write", "mutex", "unlock_unchecked", []),
   ("RawRwLock", "downgrade_to_upgradable", "state", "fetch_add", ["ONE_READER - WRITER_BIT"]),
   ("RawRwLock", "read_unlock", "state", "fetch_sub", ["ONE_READER"]),
   ("RawRwLock", "upgradable_read_unlock", "state", "fetch_sub", ["ONE_READER"]),
   ("RawRwLock", "upgradable_read_unlock", "mutex", "unlock_unchecked", []),
   ("RawRwLock", "write_unlock", "state", "fetch_and", ["!WRITER_BIT"]),
   ("RawRwLock", "write_unlock", "mutex", "unlock_unchecked", []),
   ("RawRead", "poll_with_strategy", "state", "compare_exchange", ["*this.state", "*this.state + ONE_READER"]),
   ("RawRead", "poll_with_strategy", "state", "load", []),
   ("RawRead", "poll_with_strategy", "state", "load", []),
   ("RawUpgradableRead", "poll_with_strategy", "state", "load", []),
   ("RawUpgradableRead", "poll_with_strategy", "state", "compare_exchange", ["state", "state + ONE_READER"]),
   ("RawWrite", "poll_with_strategy", "state", "fetch_or", ["WRITER_BIT"]),
   ("RawWrite", "poll_with_strategy", "state", "load", []),
   ("RawUpgrade", "poll_with_strategy", "state", "load", [])]

end ALock.Atomic.RwLock
