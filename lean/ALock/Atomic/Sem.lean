import ALock.Atomic.Site
import ALock.Atomic.Lists
import ALock.Generated.Atomics

/-!
# Semaphore: the permit counter at the granularity of single atomic operations

One step = one atomic operation of `src/semaphore.rs` on `Semaphore::count`, by any of any number
of agents, in any interleaving.  `try_acquire` is a load followed by a CAS loop
(`compare_exchange_weak(count, count - 1)`, which may also fail spuriously); `add_permits(n)` and
the guard drops are a single `fetch_add`.
-/

namespace ALock.Atomic.Sem

structure Ag where
  /-- the value of `count` this agent's `try_acquire` last read (its local `count`) -/
  snap : Option Nat := none
  /-- guards this agent holds -/
  held : Nat := 0
  deriving Repr

structure Sys where
  count : Nat
  ags : List Ag := []
  init : Nat
  added : Nat := 0
  forgotten : Nat := 0
  deriving Repr

def Sys.new (n : Nat) : Sys := { count := n, init := n }

inductive Step
  | spawn
  /-- `count.load(Acquire)` at the start of `try_acquire` -/
  | load (i : Nat)
  /-- `compare_exchange_weak(count, count - 1)`; `spurious` = the weak CAS fails although it matches -/
  | cas (i : Nat) (spurious : Bool)
  /-- `if count == 0 { return None }` -/
  | giveUp (i : Nat)
  /-- `add_permits(n)`: `fetch_add(n)` -/
  | add (n : Nat)
  /-- guard drop: `fetch_add(1)` -/
  | release (i : Nat)
  /-- `SemaphoreGuard::forget` -/
  | forget (i : Nat)
  deriving DecidableEq, Repr

def step (s : Sys) : Step → Sys
  | .spawn => { s with ags := s.ags ++ [{}] }
  | .load i =>
    match s.ags[i]? with
    | some _ => { s with ags := s.ags.modify i fun a => { a with snap := some s.count } }
    | none => s
  | .cas i spurious =>
    match s.ags[i]? with
    | some a =>
      match a.snap with
      | some c =>
        if c = 0 then s
        else if s.count = c ∧ spurious = false then
          { s with count := c - 1, ags := s.ags.modify i fun a => { a with snap := none, held := a.held + 1 } }
        else { s with ags := s.ags.modify i fun a => { a with snap := some s.count } }
      | none => s
    | none => s
  | .giveUp i =>
    match s.ags[i]? with
    | some a => if a.snap = some 0 then { s with ags := s.ags.modify i fun a => { a with snap := none } } else s
    | none => s
  | .add n => { s with count := s.count + n, added := s.added + n }
  | .release i =>
    match s.ags[i]? with
    | some a =>
      if 0 < a.held then
        { s with count := s.count + 1, ags := s.ags.modify i fun a => { a with held := a.held - 1 } }
      else s
    | none => s
  | .forget i =>
    match s.ags[i]? with
    | some a =>
      if 0 < a.held then
        { s with forgotten := s.forgotten + 1, ags := s.ags.modify i fun a => { a with held := a.held - 1 } }
      else s
    | none => s

def run (s : Sys) (l : List Step) : Sys := l.foldl step s

def issued (s : Sys) : Nat := (s.ags.map (·.held)).sum

/-- permits are neither lost nor invented -/
def Conserved (s : Sys) : Prop := s.count + issued s + s.forgotten = s.init + s.added

theorem step_conserved (s : Sys) (st : Step) (h : Conserved s) : Conserved (step s st) := by
  unfold Conserved issued at *
  cases st with
  | spawn => simp only [step, List.map_append, List.sum_append]; simpa using h
  | add n => simp only [step]; omega
  | load i =>
    simp only [step]; split
    · rename_i a ha
      have := sum_map_modify s.ags i (fun a => { a with snap := some s.count }) (·.held) a ha
      simp only [] at this ⊢; omega
    · exact h
  | giveUp i =>
    simp only [step]; split
    · rename_i a ha
      split
      · have := sum_map_modify s.ags i (fun a => { a with snap := none }) (·.held) a ha
        simp only [] at this ⊢; omega
      · exact h
    · exact h
  | cas i sp =>
    simp only [step]; split
    · rename_i a ha
      split
      · rename_i c hc
        split
        · exact h
        · split
          · rename_i hne heq
            have := sum_map_modify s.ags i (fun a => { a with snap := none, held := a.held + 1 }) (·.held) a ha
            simp only [] at this ⊢; omega
          · have := sum_map_modify s.ags i (fun a => { a with snap := some s.count }) (·.held) a ha
            simp only [] at this ⊢; omega
      · exact h
    · exact h
  | release i =>
    simp only [step]; split
    · rename_i a ha
      split
      · have := sum_map_modify s.ags i (fun a => { a with held := a.held - 1 }) (·.held) a ha
        simp only [] at this ⊢; omega
      · exact h
    · exact h
  | forget i =>
    simp only [step]; split
    · rename_i a ha
      split
      · have := sum_map_modify s.ags i (fun a => { a with held := a.held - 1 }) (·.held) a ha
        simp only [] at this ⊢; omega
      · exact h
    · exact h

theorem run_conserved (s : Sys) (l : List Step) (h : Conserved s) : Conserved (run s l) := by
  induction l generalizing s with
  | nil => exact h
  | cons x t ih => exact ih _ (step_conserved s x h)

/-! ### the table this is a model of -/

def sites : List Site := Gen.sites.filter fun s => s.file == "src/semaphore.rs" && s.recv == "count"

def expectedShapes : List (String × String × String × String × List String) :=
  [("Semaphore", "try_acquire", "count", "load", []),
   ("Semaphore", "try_acquire", "count", "compare_exchange_weak", ["count", "count - 1"]),
   ("Semaphore", "try_acquire_arc", "count", "load", []),
   ("Semaphore", "try_acquire_arc", "count", "compare_exchange_weak", ["count", "count - 1"]),
   ("Semaphore", "add_permits", "count", "fetch_add", ["n"]),
   ("SemaphoreGuard", "drop", "count", "fetch_add", ["1"]),
   ("SemaphoreGuardArc", "drop", "count", "fetch_add", ["1"])]

end ALock.Atomic.Sem
