/-!
# Atomic sites

One record per operation on a state word — and per call that takes part in the word protocols
(inner-mutex lock / unlock, `Event::listen` / `notify`) — of the crate's sources, in source order.
`Generated/Atomics.lean` is the table extracted from /repo's working tree on every run.
-/

namespace ALock.Atomic

inductive Ord | relaxed | acquire | release | acqRel | seqCst
  deriving DecidableEq, Repr

def Ord.isAcq : Ord → Bool
  | .acquire | .acqRel | .seqCst => true
  | _ => false

def Ord.isRel : Ord → Bool
  | .release | .acqRel | .seqCst => true
  | _ => false

structure Site where
  file : String
  ty : String
  fn : String
  recv : String
  op : String
  args : List String
  /-- the `Ordering` arguments (success, failure for a CAS; every alternative of a computed one) -/
  ord : List Ord
  deriving DecidableEq, Repr

/-- what the interleaving models are models of: function, receiver, operation, operands -/
def Site.shape (s : Site) : String × String × String × String × List String :=
  (s.ty, s.fn, s.recv, s.op, s.args)

end ALock.Atomic
