import ALock.AtomTrace
import ALock.Atomic.Mutex
import ALock.Atomic.Sem
import ALock.Atomic.RwLock
import ALock.Atomic.OnceCell

/-!
# Acceptors: real executions with injected preemptions are runs of the atomic-granularity models

The harness (`harness/src/bin/inject.rs`) runs the real crate with hook H4: immediately before the
`k`-th atomic operation of one call (the *outer* call of agent `A`) it runs complete calls of other
agents, on the same thread.  This is exactly the schedule "A is preempted after `k` atomic
operations, B runs a whole call, A resumes".  Every atomic operation the crate performs on a state
word is recorded (hook H3) and attributed to the agent whose call performed it.

An *acceptor* replays such a trace in the atomic-granularity model of the primitive.  Each recorded
operation must be the model step the agent's program counter allows at that point, and it must
have *observed* what the model says it observes: the value returned equals the model's word, and a
CAS succeeded exactly when the model's step is enabled.  Each return value must be the one the
agent's final program counter stands for.  A trace that is accepted is therefore a run of the
model (`accept_run` below), so every theorem about all runs of the model (`C01_interleaved`,
`C02_interleaved`, `C03_interleaved_*`, `C04_interleaved_single`, …) holds of the execution the
crate actually performed; a trace that is rejected is an execution the model does not have — the
control flow between the atomic sites (retry loops, early returns), which the static site table
cannot see, has changed.
-/

namespace ALock.Accept

/-- one event of a trace -/
inductive TEv
  | beg (i : Nat) (call : String)
  | atom (i : Nat) (x : Atom)
  | ret (i : Nat) (res : String)
  deriving Repr

/-- the Arc-flavoured twin of a call is the same program -/
def norm (c : String) : String := if c.endsWith "Arc" then (c.dropEnd 3).toString else c

def setCall (l : List String) (i : Nat) (c : String) : List String := l.modify i fun _ => norm c

def showRet : ARet → String
  | .none => "()"
  | .val v => s!"{v}"
  | .ok v => s!"Ok({v})"
  | .err v => s!"Err({v})"

def showAtom (x : Atom) : String :=
  let o := match x.op with
    | .load => "load" | .store => "store" | .cas => "cas" | .casw => "casw" | .fadd => "fadd"
    | .fsub => "fsub" | .for_ => "for" | .fand => "fand"
  s!"w{x.w}:{o}({x.a},{x.b})={showRet x.ret}"

/-- the result a CAS must report on a word holding `st` -/
def casRet (st : Nat) (succ : Bool) : ARet := if succ then .ok st else .err st

def expect (c : Bool) (msg : String) : Except String Unit := if c then .ok () else .error msg

/-! ### Mutex -/
namespace Mutex
open ALock.Atomic.Mutex

structure St where
  sys : Sys := {}
  calls : List String := []
  deriving Repr

def init (n : Nat) : St :=
  { sys := { ags := List.replicate n {} }, calls := List.replicate n "" }

/-- the model step an observed atomic operation is, if the model has it -/
def atomStep (s : Sys) (i : Nat) (x : Atom) : Except String Step :=
  match s.ags[i]? with
  | none => .error "no such agent"
  | some a =>
    if x.w != 0 then .error "operation on an unknown word" else
    match x.op, x.a, x.b with
    | .cas, 0, 1 => do
      expect (!a.holder) "a guard holder attempts compare_exchange(0, 1)"
      expect (x.ret == casRet s.st (s.st == 0)) s!"compare_exchange(0, 1) on a word holding {s.st}"
      pure (.cas01 i)
    | .fadd, 2, _ => do
      expect (!a.holder && !a.starved) "fetch_add(2) by a holder or an already starved operation"
      expect (x.ret == .val s.st) s!"fetch_add(2) on a word holding {s.st}"
      pure (.starve i)
    | .cas, 2, 3 => do
      expect (!a.holder && a.starved) "compare_exchange(2, 3) by an operation that is not starved"
      expect (x.ret == casRet s.st (s.st == 2)) s!"compare_exchange(2, 3) on a word holding {s.st}"
      pure (.cas23 i)
    | .for_, 1, _ => do
      expect (!a.holder && a.starved) "fetch_or(1) by an operation that is not starved"
      expect (x.ret == .val s.st) s!"fetch_or(1) on a word holding {s.st}"
      pure (.fetchOr i)
    | .fsub, 2, _ => do
      expect a.starved "fetch_sub(2) by an operation that is not starved"
      expect (x.ret == .val s.st) s!"fetch_sub(2) on a word holding {s.st}"
      pure (.unstarve i)
    | .fsub, 1, _ => do
      expect a.holder "fetch_sub(1) by an agent that does not hold the mutex"
      expect (x.ret == .val s.st) s!"fetch_sub(1) on a word holding {s.st}"
      pure (.unlock i)
    | _, _, _ => .error "the model has no such operation"

/-- what a return value claims about the agent -/
def retOK (s : Sys) (i : Nat) (call res : String) : Except String Unit :=
  match s.ags[i]? with
  | none => .error "no such agent"
  | some a =>
    if res == "some" || res == "ready" then
      expect (a.holder && !a.starved) s!"{call} returned a guard but the agent is not the holder (or still starved)"
    else if res == "none" || res == "pending" then
      expect (!a.holder) s!"{call} returned nothing but the agent acquired the mutex"
    else if call == "cancel" || call == "unlock" then
      expect (!a.holder && !a.starved) s!"after {call} the agent still holds the mutex or a starvation ticket"
    else .error "unknown result"

def accept (st : St) : TEv → Except String St
  | .beg i c => .ok { st with calls := setCall st.calls i c }
  | .atom i x => do
    let stp ← atomStep st.sys i x
    pure { st with sys := step ords st.sys stp }
  | .ret i r => do
    retOK st.sys i (st.calls.getD i "") r
    pure { st with calls := setCall st.calls i "" }

def acceptAll (st : St) : List TEv → Except String St
  | [] => .ok st
  | e :: es => match accept st e with
    | .ok st' => acceptAll st' es
    | .error m => .error m

end Mutex

/-! ### Barrier: its only word is the state mutex's -/
namespace Barrier
open ALock.Atomic.Mutex

/-- a `wait` locks and unlocks the state mutex within a poll: no call returns holding it, and a
cancelled wait has given back its starvation ticket -/
def retOK (s : Sys) (i : Nat) (call : String) : Except String Unit :=
  match s.ags[i]? with
  | none => .error "no such agent"
  | some a => do
    expect (!a.holder) s!"{call} returned while its agent holds the state mutex"
    expect (call != "cancel" || !a.starved) "a cancelled wait keeps a starvation ticket of the state mutex"

def accept (st : Mutex.St) : TEv → Except String Mutex.St
  | .beg i c => .ok { st with calls := setCall st.calls i c }
  | .atom i x => do
    let stp ← Mutex.atomStep st.sys i x
    pure { st with sys := step ords st.sys stp }
  | .ret i _ => do
    retOK st.sys i (st.calls.getD i "")
    pure { st with calls := setCall st.calls i "" }

end Barrier

/-! ### Semaphore -/
namespace Sem
open ALock.Atomic.Sem

structure St where
  sys : Sys
  calls : List String := []
  deriving Repr

def init (n permits : Nat) : St :=
  { sys := { count := permits, init := permits, ags := List.replicate n {} },
    calls := List.replicate n "" }

def atomSteps (s : Sys) (i : Nat) (call : String) (x : Atom) : Except String (List Step) :=
  match s.ags[i]? with
  | none => .error "no such agent"
  | some a =>
    if x.w != 0 then .error "operation on an unknown word" else
    match x.op with
    | .load => do
      expect (x.ret == .val s.count) s!"load of a counter holding {s.count}"
      pure [.load i]
    | .casw =>
      match a.snap with
      | none => .error "compare_exchange_weak without a preceding load"
      | some c => do
        expect (c != 0) "compare_exchange_weak although the value read was 0"
        expect (x.a == (c : Int) && x.b == (c : Int) - 1) s!"compare_exchange_weak({x.a}, {x.b}) after reading {c}"
        match x.ret with
        | .ok v => do
          expect (v == c && s.count == c) s!"compare_exchange_weak({c}, _) succeeded on a counter holding {s.count}"
          pure [.cas i false]
        | .err v => do
          expect (v == s.count) s!"failed compare_exchange_weak returned {v} on a counter holding {s.count}"
          pure [.cas i (s.count == c)]
        | _ => .error "malformed CAS result"
    | .fadd =>
      if call == "release" then do
        expect (x.a == 1) "a guard drop adds more than one permit"
        expect (0 < a.held) "release by an agent that holds no guard"
        expect (x.ret == .val s.count) s!"fetch_add on a counter holding {s.count}"
        pure [.release i]
      else if call == "add1" then do
        expect (x.ret == .val s.count) s!"fetch_add on a counter holding {s.count}"
        pure [.add x.a.toNat]
      else .error s!"fetch_add inside {call}"
    | _ => .error "the model has no such operation"

def retSteps (s : Sys) (i : Nat) (call res : String) : Except String (List Step) :=
  match s.ags[i]? with
  | none => .error "no such agent"
  | some a =>
    if res == "some" || res == "ready" then do
      expect (a.snap.isNone && a.held == 1) s!"{call} returned a guard the model did not issue"
      pure []
    else if res == "none" || res == "pending" then do
      expect (a.snap == some 0 && a.held == 0) s!"{call} gave up although the last value read was not 0"
      pure [.giveUp i]
    else if call == "forget" then do
      expect (0 < a.held) "forget without a guard"
      pure [.forget i]
    else if call == "cancel" then do
      -- the future gave up at its last poll
      expect (a.held == 0) "a cancelled acquire holds a permit"
      pure []
    else if call == "release" || call == "add1" then pure []
    else .error "unknown result"

def accept (st : St) : TEv → Except String St
  | .beg i c => .ok { st with calls := setCall st.calls i c }
  | .atom i x => do
    let l ← atomSteps st.sys i (st.calls.getD i "") x
    pure { st with sys := run st.sys l }
  | .ret i r => do
    let l ← retSteps st.sys i (st.calls.getD i "") r
    pure { st with sys := run st.sys l, calls := setCall st.calls i "" }

def acceptAll (st : St) : List TEv → Except String St
  | [] => .ok st
  | e :: es => match accept st e with
    | .ok st' => acceptAll st' es
    | .error m => .error m

end Sem

/-! ### RwLock -/
namespace RwLock
open ALock.Atomic.RwLock

/-- the RwLock model together with the Mutex model of its inner mutex: operations on the inner
mutex's word (`w = 1`) are steps of the latter; when one of them acquires or releases the inner
mutex, the former takes its abstract `mLock` / `mUnlock` / `dgU` / `dgW2` step -/
structure St where
  sys : Sys := {}
  mx : ALock.Atomic.Mutex.Sys := {}
  calls : List String := []
  deriving Repr

def init (n : Nat) : St :=
  { sys := { ags := List.replicate n .idle }, mx := { ags := List.replicate n {} },
    calls := List.replicate n "" }

def mxHolder (mx : ALock.Atomic.Mutex.Sys) (i : Nat) : Bool :=
  match mx.ags[i]? with
  | some a => a.holder
  | none => false

def mxStarved (mx : ALock.Atomic.Mutex.Sys) (i : Nat) : Bool :=
  match mx.ags[i]? with
  | some a => a.starved
  | none => false

/-- operations on the state word (`w = 0`) -/
def atomSteps (s : Sys) (i : Nat) (call : String) (x : Atom) : Except String (List Step) :=
  match s.ags[i]? with
  | none => .error "no such agent"
  | some pc =>
    if x.w != 0 then .error "operation on an unknown word" else
    match x.op with
    | .load => do
      expect (x.ret == .val s.state) s!"load of a word holding {s.state}"
      match pc with
      | .idle => pure [.rLoad i]
      | .mu => pure [.uLoad i]
      | .ww | .pu => pure [.wCheck i]
      | _ => .error "load at an unexpected point"
    | .cas =>
      match pc with
      | .rSnap c => do
        expect (x.a == (c : Int) && x.b == (c : Int) + 2) s!"compare_exchange({x.a}, {x.b}) after observing {c}"
        expect (x.ret == casRet s.state (s.state == c)) s!"compare_exchange({c}, _) on a word holding {s.state}"
        pure [.rCas i]
      | .muSnap c => do
        expect (x.a == (c : Int) && x.b == (c : Int) + 2) s!"compare_exchange({x.a}, {x.b}) after observing {c}"
        expect (x.ret == casRet s.state (s.state == c)) s!"compare_exchange({c}, _) on a word holding {s.state}"
        pure [.uCas i]
      | .mu => do
        expect (x.a == 0 && x.b == 1) "unexpected compare_exchange while holding only the inner mutex"
        expect (x.ret == casRet s.state (s.state == 0)) s!"compare_exchange(0, 1) on a word holding {s.state}"
        pure [.wCas0 i]
      | .u => do
        expect (x.a == 2 && x.b == 1) "unexpected compare_exchange by an upgradable guard"
        expect (x.ret == casRet s.state (s.state == 2)) s!"compare_exchange(2, 1) on a word holding {s.state}"
        pure [.tryUpgrade i]
      | _ => .error "compare_exchange at an unexpected point (no snapshot with the writer bit clear)"
    | .fsub => do
      expect (x.ret == .val s.state) s!"fetch_sub on a word holding {s.state}"
      match pc, x.a with
      | .r, 2 => pure [.rUnlock i]
      | .u, 2 => pure [.uUnlock1 i]
      | .u, 1 => pure [.upgrade i]
      | _, _ => .error "fetch_sub at an unexpected point"
    | .fadd => do
      expect (x.ret == .val s.state) s!"fetch_add on a word holding {s.state}"
      expect (x.a == 1 && pc == .w) "fetch_add at an unexpected point"
      if call == "dgW" then pure [.dgW1 i]
      else if call == "dgWU" then pure [.dgWU i]
      else .error s!"fetch_add(1) inside {call}"
    | .fand => do
      expect (x.ret == .val s.state) s!"fetch_and on a word holding {s.state}"
      expect (x.a == -2) "fetch_and with an unexpected mask"
      match pc with
      | .w | .ww | .pu => pure [.wUnlock1 i]
      | _ => .error "fetch_and by an agent that does not own the writer bit"
    | .for_ => do
      expect (x.ret == .val s.state) s!"fetch_or on a word holding {s.state}"
      expect (x.a == 1 && pc == .mu) "fetch_or at an unexpected point"
      pure [.wFetchOr i]
    | _ => .error "the model has no such operation"

/-- the RwLock-model step that goes with an acquisition / a release of the inner mutex -/
def innerSteps (s : Sys) (i : Nat) (call : String) (acquired released : Bool) :
    Except String (List Step) :=
  match s.ags[i]? with
  | none => .error "no such agent"
  | some pc =>
    if acquired then do
      expect (pc == .idle) "the inner mutex is acquired by an agent that is not idle"
      expect (mholders s.ags == 0) "the inner mutex was acquired while the model has a holder"
      pure [.mLock i]
    else if released then
      match pc with
      | .mu | .wu1 | .uu1 => pure [.mUnlock i]
      | .u => do
        expect (call == "dgU") s!"the inner mutex is released by an upgradable guard inside {call}"
        pure [.dgU i]
      | .dw => pure [.dgW2 i]
      | _ => .error "inner mutex released by an agent that does not hold it"
    else pure []

/-- the program counters a return value stands for -/
def retPc (call res : String) : Option (List Pc) :=
  if call == "tryRead" || call == "read" || call == "pollR" then
    (if res == "some" || res == "ready" then some [.r] else some [.idle])
  else if call == "tryWrite" then (if res == "some" then some [.w] else some [.idle])
  else if call == "tryUread" || call == "uread" || call == "pollU" then
    (if res == "some" || res == "ready" then some [.u] else some [.idle])
  else if call == "write" || call == "pollW" then
    (if res == "ready" then some [.w] else some [.idle, .ww])
  else if call == "dropR" || call == "dropU" || call == "dropW" || call == "cancelR"
      || call == "cancelUp" || call == "cancelW" || call == "cancelU" then some [.idle]
  else if call == "tryUpgrade" then (if res == "ok" then some [.w] else some [.u])
  else if call == "dgU" || call == "dgW" then some [.r]
  else if call == "dgWU" then some [.u]
  else if call == "upgrade" || call == "pollUp" then (if res == "ready" then some [.w] else some [.pu])
  else none

def retCheck (st : St) (i : Nat) (call res : String) : Except String Unit :=
  match st.sys.ags[i]?, retPc call res with
  | some pc, some l => do
    expect (l.contains pc) s!"{call} returned {res} at a point where the model's agent is elsewhere"
    -- the two models agree on who holds the inner mutex
    expect (mxHolder st.mx i == (pc.mh == 1)) "the inner mutex's holder flag disagrees with the RwLock model"
    -- an agent that is idle again has given back its starvation ticket
    expect (!(pc == .idle && (call.startsWith "cancel" || call.startsWith "drop")) || !mxStarved st.mx i)
      s!"after {call} the agent still holds a starvation ticket of the inner mutex"
  | _, _ => .error "unknown call or agent"

def accept (st : St) : TEv → Except String St
  | .beg i c => .ok { st with calls := setCall st.calls i c }
  | .atom i x =>
    if x.w == 1 then do
      let stp ← Mutex.atomStep st.mx i { x with w := 0 }
      let mx' := ALock.Atomic.Mutex.step ALock.Atomic.Mutex.ords st.mx stp
      let l ← innerSteps st.sys i (st.calls.getD i "")
        (!mxHolder st.mx i && mxHolder mx' i) (mxHolder st.mx i && !mxHolder mx' i)
      pure { st with mx := mx', sys := run st.sys l }
    else do
      let l ← atomSteps st.sys i (st.calls.getD i "") x
      pure { st with sys := run st.sys l }
  | .ret i r => do
    retCheck st i (st.calls.getD i "") r
    pure { st with calls := setCall st.calls i "" }

def acceptAll (st : St) : List TEv → Except String St
  | [] => .ok st
  | e :: es => match accept st e with
    | .ok st' => acceptAll st' es
    | .error m => .error m

end RwLock

/-! ### OnceCell -/
namespace Once
open ALock.Atomic.Once

structure St where
  sys : Sys := {}
  calls : List String := []
  deriving Repr

def init (n : Nat) : St :=
  { sys := { ags := List.replicate n {} }, calls := List.replicate n "" }

def atomSteps (s : Sys) (i : Nat) (x : Atom) : Except String (List Step) :=
  match s.ags[i]? with
  | none => .error "no such agent"
  | some a =>
    if x.w != 0 then .error "operation on an unknown word" else
    match x.op, x.a, x.b with
    | .load, _, _ => do
      expect (x.ret == .val s.state) s!"load of a word holding {s.state}"
      pure [.load i]
    | .cas, 0, 1 => do
      expect (!a.running) "compare_exchange(0, 1) by the agent that is initialising"
      expect (x.ret == casRet s.state (s.state == 0)) s!"compare_exchange(0, 1) on a word holding {s.state}"
      pure [.cas01 i]
    | .store, 2, _ => do
      expect a.running "store(Initialized) by an agent that did not win the CAS"
      -- the value is written (plain write, no atomic operation) before the store
      pure [.writeVal i, .store2 i]
    | .store, 0, _ => do
      expect (a.running && a.wrote.isNone) "store(Uninitialized) by an agent that is not initialising"
      pure [.fail i]
    | _, _, _ => .error "the model has no such operation"

def retSteps (s : Sys) (i : Nat) (_call res : String) : Except String (List Step) :=
  match s.ags[i]? with
  | none => .error "no such agent"
  | some a => do
    -- whatever was returned, the agent does not keep the initialiser's guard across a return
    -- unless its future is still pending inside its initialiser (which the harness never does)
    expect (!a.running) "a call returned while its agent still owns the Initializing state"
    if res == "some" || res == "ready" then
      expect (s.state == 2) "a value was returned from a cell that is not initialised"
    pure []

def accept (st : St) : TEv → Except String St
  | .beg i c => .ok { st with calls := setCall st.calls i c }
  | .atom i x => do
    let l ← atomSteps st.sys i x
    pure { st with sys := run ords st.sys l }
  | .ret i r => do
    let l ← retSteps st.sys i (st.calls.getD i "") r
    pure { st with sys := run ords st.sys l, calls := setCall st.calls i "" }

def acceptAll (st : St) : List TEv → Except String St
  | [] => .ok st
  | e :: es => match accept st e with
    | .ok st' => acceptAll st' es
    | .error m => .error m

end Once

end ALock.Accept
