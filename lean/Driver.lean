import ALock.Drv.Sem

/-!
`alock-driver`: reads op lines on stdin, prints one observation line per input line.
`new <prim> ...` resets the world, `(` saves the current state on a stack, `)` restores it.
The transitions are the `step` functions of the models in `ALock/`, i.e. exactly the
definitions the theorems in `ALock/Props/` quantify over.
-/

open ALock

inductive World where
  | empty
  | sem (s : Sem.Sys)

def World.create (toks : List String) : World × String :=
  match toks with
  | "sem" :: rest =>
    match Drv.Sem.create rest with
    | some s => (.sem s, Drv.obs "ok" [] (Drv.Sem.snapshot s))
    | Option.none => (.empty, "bad-op")
  | _ => (.empty, "bad-op")

def World.exec (w : World) (toks : List String) : World × String :=
  match w with
  | .empty => (w, "bad-op")
  | .sem s => let r := Drv.Sem.exec s toks; (.sem r.1, r.2)

partial def loop (h : IO.FS.Stream) (out : IO.FS.Stream) (w : World) (stack : List World) : IO Unit := do
  let line ← h.getLine
  if line.isEmpty then return ()
  let l := line.trimAscii.toString
  -- accept `op || obs` lines: only the part before `||` is the op
  let l := ((l.splitOn " || ").headD "").trimAscii.toString
  if l.isEmpty then
    loop h out w stack
  else if l == "(" then
    out.putStrLn "("
    loop h out w (w :: stack)
  else if l == ")" then
    out.putStrLn ")"
    match stack with
    | w' :: rest => loop h out w' rest
    | [] => loop h out w []
  else
    let toks := (l.splitOn " ").filter (· ≠ "")
    match toks with
    | "new" :: rest =>
      let (w', o) := World.create rest
      out.putStrLn o
      loop h out w' []
    | _ =>
      let (w', o) := w.exec toks
      out.putStrLn o
      loop h out w' stack

def main : IO Unit := do
  let stdin ← IO.getStdin
  let stdout ← IO.getStdout
  loop stdin stdout .empty []
