import ALock.Drv.Sem
import ALock.Drv.Mutex
import ALock.Drv.RwLock
import ALock.Drv.OnceCell
import ALock.Drv.Barrier

/-!
`alock-driver`: reads op lines on stdin, prints one observation line per input line.
`new <prim> ...` resets the world, `(` saves the current state on a stack, `)` restores it.
The transitions are the `step` functions of the models in `ALock/`, i.e. exactly the
definitions the theorems in `ALock/Props/` quantify over.
-/

open ALock

inductive World where
  | empty
  | sem (s : Sem.Sys)
  | mutex (s : Mutex.Sys)
  | rwlock (s : RwLock.Sys)
  | once (s : Once.Sys)
  | barrier (s : Barrier.Sys)

def World.create (toks : List String) : World × String :=
  match toks with
  | "sem" :: rest =>
    match Drv.Sem.create rest with
    | some s => (.sem s, Drv.obs "ok" [] (Drv.Sem.snapshot s))
    | Option.none => (.empty, "bad-op")
  | "mutex" :: rest =>
    match Drv.Mutex.create rest with
    | some s => (.mutex s, Drv.obs "ok" [] (Drv.Mutex.snapshot s))
    | Option.none => (.empty, "bad-op")
  | "rwlock" :: rest =>
    match Drv.RwLock.create rest with
    | some s => (.rwlock s, Drv.obs "ok" [] (Drv.RwLock.snapshot s))
    | Option.none => (.empty, "bad-op")
  | "once" :: rest =>
    match Drv.Once.create rest with
    | some s => (.once s, Drv.obs "ok" [] (Drv.Once.snapshot s))
    | Option.none => (.empty, "bad-op")
  | "barrier" :: rest =>
    match Drv.Barrier.create rest with
    | some s => (.barrier s, Drv.obs "ok" [] (Drv.Barrier.snapshot s))
    | Option.none => (.empty, "bad-op")
  | _ => (.empty, "bad-op")

def World.exec (w : World) (toks : List String) : World × String :=
  match w with
  | .empty => (w, "bad-op")
  | .sem s => let r := Drv.Sem.exec s toks; (.sem r.1, r.2)
  | .mutex s => let r := Drv.Mutex.exec s toks; (.mutex r.1, r.2)
  | .rwlock s => let r := Drv.RwLock.exec s toks; (.rwlock r.1, r.2)
  | .once s => let r := Drv.Once.exec s toks; (.once r.1, r.2)
  | .barrier s => let r := Drv.Barrier.exec s toks; (.barrier r.1, r.2)

def World.label (w : World) (toks : List String) : Option String :=
  match w with
  | .mutex s => Drv.Mutex.label s toks
  | .rwlock s => Drv.RwLock.label s toks
  | _ => none

def bump (cov : List (String × Nat)) (k : String) : List (String × Nat) :=
  match cov with
  | [] => [(k, 1)]
  | (k', n) :: rest => if k' == k then (k', n + 1) :: rest else (k', n) :: bump rest k

partial def loop (h : IO.FS.Stream) (out : IO.FS.Stream) (w : World) (stack : List World)
    (cov : List (String × Nat)) : IO Unit := do
  let line ← h.getLine
  if line.isEmpty then
    let err ← IO.getStderr
    err.putStrLn ("COV " ++ " ".intercalate (cov.map fun (k, n) => s!"{k}={n}"))
    return ()
  let l := line.trimAscii.toString
  -- accept `op || obs` lines: only the part before `||` is the op
  let l := ((l.splitOn " || ").headD "").trimAscii.toString
  if l.isEmpty then
    loop h out w stack cov
  else if l == "(" then
    out.putStrLn "("
    loop h out w (w :: stack) cov
  else if l == ")" then
    out.putStrLn ")"
    match stack with
    | w' :: rest => loop h out w' rest cov
    | [] => loop h out w [] cov
  else
    let toks := (l.splitOn " ").filter (· ≠ "")
    match toks with
    | "new" :: rest =>
      let (w', o) := World.create rest
      out.putStrLn o
      loop h out w' [] cov
    | _ =>
      let cov := match w.label toks with
        | some k => bump cov k
        | none => cov
      let (w', o) := w.exec toks
      out.putStrLn o
      loop h out w' stack cov

def main : IO Unit := do
  let stdin ← IO.getStdin
  let stdout ← IO.getStdout
  loop stdin stdout .empty [] []
