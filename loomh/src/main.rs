//! Search aid, never a proof: small concurrent scenarios against the real crate under the real
//! `loom` 0.7 model checker (all interleavings up to a preemption bound, C11 memory model).  The
//! payload protected by the lock is a `loom::cell::UnsafeCell`, so an exclusion failure *and* a
//! missing happens-before edge both surface as a causality violation.
//!
//!   loomh <scenario>      exit 0 and print `ok <scenario>`; a violation panics (loom prints why)
//!   loomh list

use async_lock::{
    Barrier, Mutex, OnceCell, RwLock, RwLockUpgradableReadGuard, RwLockWriteGuard, Semaphore,
};
use loom::cell::UnsafeCell;
use loom::sync::atomic::{AtomicUsize, Ordering};
use loom::sync::Arc;
use loom::thread;
use std::future::Future;
use std::pin::pin;
use std::task::{Context, Poll, Wake, Waker};

struct Notifier(loom::sync::Notify);
impl Wake for Notifier {
    fn wake(self: std::sync::Arc<Self>) {
        self.0.notify();
    }
    fn wake_by_ref(self: &std::sync::Arc<Self>) {
        self.0.notify();
    }
}

/// A minimal executor on `loom::sync::Notify` (what `loom::future::block_on` does; that function
/// needs the `futures` feature, whose dependency is not available offline).
fn block_on<F: Future>(f: F) -> F::Output {
    let mut f = pin!(f);
    let n = std::sync::Arc::new(Notifier(loom::sync::Notify::new()));
    let waker = Waker::from(n.clone());
    let mut cx = Context::from_waker(&waker);
    loop {
        if let Poll::Ready(v) = f.as_mut().poll(&mut cx) {
            return v;
        }
        n.0.wait();
    }
}

/// What the mutex's 0.5 ms starvation test answers in this scenario. The wall-clock test would make
/// the executions depend on timing (loom needs them to be deterministic), so every thread of every
/// scenario installs the scripted oracle (hook H1).
static STARVE: std::sync::atomic::AtomicBool = std::sync::atomic::AtomicBool::new(false);

fn install_oracle() {
    async_lock::__verif::set_starvation_oracle(Some(Box::new(|| STARVE.load(std::sync::atomic::Ordering::Relaxed))));
}

/// `loom::thread::spawn` + the oracle
fn spawn<T: 'static>(f: impl FnOnce() -> T + 'static) -> thread::JoinHandle<T> {
    thread::spawn(move || {
        install_oracle();
        f()
    })
}

fn model(bound: usize, f: impl Fn() + Sync + Send + 'static) {
    model_with(false, bound, f)
}

fn model_with(starve: bool, bound: usize, f: impl Fn() + Sync + Send + 'static) {
    STARVE.store(starve, std::sync::atomic::Ordering::Relaxed);
    let f = move || {
        install_oracle();
        f()
    };
    let mut b = loom::model::Builder::new();
    // thorough tier: LOOMH_EXTRA_PREEMPTIONS=1
    let extra: usize = std::env::var("LOOMH_EXTRA_PREEMPTIONS").ok().and_then(|x| x.parse().ok()).unwrap_or(0);
    b.preemption_bound = Some(bound + extra);
    b.check(f);
}

type Cell = UnsafeCell<usize>;
fn bump(c: &Cell) {
    c.with_mut(|p| unsafe { *p += 1 });
}
fn peek(c: &Cell) -> usize {
    c.with(|p| unsafe { *p })
}

// ---------------------------------------------------------------- C01

/// two threads take the mutex with try_lock (spinning) and update the payload
fn c01_try_lock() {
    model(3, || {
        let m = Arc::new(Mutex::new(Cell::new(0)));
        let hs: Vec<_> = (0..2)
            .map(|_| {
                let m = m.clone();
                spawn(move || loop {
                    if let Some(g) = m.try_lock() {
                        bump(&g);
                        break;
                    }
                    thread::yield_now();
                })
            })
            .collect();
        for h in hs {
            h.join().unwrap();
        }
        assert_eq!(peek(&m.try_lock().unwrap()), 2);
    });
}

/// the Arc-flavoured twins (`try_lock_arc`, `lock_arc`) protect the payload as well
fn c01_arc() {
    model(3, || {
        let m = std::sync::Arc::new(Mutex::new(Cell::new(0)));
        let hs: Vec<_> = (0..2)
            .map(|_| {
                let m = m.clone();
                spawn(move || loop {
                    if let Some(g) = m.try_lock_arc() {
                        bump(&g);
                        break;
                    }
                    thread::yield_now();
                })
            })
            .collect();
        for h in hs {
            h.join().unwrap();
        }
        assert_eq!(peek(&m.try_lock_arc().unwrap()), 2);
    });
    model(2, || {
        let m = std::sync::Arc::new(Mutex::new(Cell::new(0)));
        let m2 = m.clone();
        let h = spawn(move || {
            let g = block_on(m2.lock_arc());
            bump(&g);
        });
        {
            let g = block_on(m.lock_arc());
            bump(&g);
        }
        h.join().unwrap();
        assert_eq!(peek(&m.try_lock_arc().unwrap()), 2);
    });
}

/// two threads take the mutex with lock().await (slow path, event-listener) and update the payload
fn c01_lock() {
    model(2, || {
        let m = Arc::new(Mutex::new(Cell::new(0)));
        let m2 = m.clone();
        let h = spawn(move || {
            let g = block_on(m2.lock());
            bump(&g);
        });
        {
            let g = block_on(m.lock());
            bump(&g);
        }
        h.join().unwrap();
        assert_eq!(peek(&m.try_lock().unwrap()), 2);
    });
}

// ---------------------------------------------------------------- C02 / C11

/// a writer and a reader with the try_ forms
fn c02_try() {
    model(3, || {
        let l = Arc::new(RwLock::new(Cell::new(0)));
        let l2 = l.clone();
        let h = spawn(move || loop {
            if let Some(g) = l2.try_write() {
                bump(&g);
                break;
            }
            thread::yield_now();
        });
        loop {
            if let Some(g) = l.try_read() {
                let v = peek(&g);
                assert!(v <= 1);
                break;
            }
            thread::yield_now();
        }
        h.join().unwrap();
        assert_eq!(peek(&l.try_read().unwrap()), 1);
    });
}

/// writer vs upgradable reader that upgrades, try_ forms
fn c02_upgrade() {
    model(3, || {
        let l = Arc::new(RwLock::new(Cell::new(0)));
        let l2 = l.clone();
        let h = spawn(move || loop {
            if let Some(g) = l2.try_write() {
                bump(&g);
                break;
            }
            thread::yield_now();
        });
        loop {
            if let Some(g) = l.try_upgradable_read() {
                let _ = peek(&g);
                match RwLockUpgradableReadGuard::try_upgrade(g) {
                    Ok(w) => {
                        bump(&w);
                        break;
                    }
                    Err(g) => drop(g),
                }
            }
            thread::yield_now();
        }
        h.join().unwrap();
        assert_eq!(peek(&l.try_read().unwrap()), 2);
    });
}

/// write().await against read().await
fn c02_async() {
    model(2, || {
        let l = Arc::new(RwLock::new(Cell::new(0)));
        let l2 = l.clone();
        let h = spawn(move || {
            let g = block_on(l2.write());
            bump(&g);
        });
        {
            let g = block_on(l.read());
            assert!(peek(&g) <= 1);
        }
        h.join().unwrap();
        assert_eq!(peek(&l.try_read().unwrap()), 1);
    });
}

/// a write guard is downgraded while another thread tries to become the next writer / upgradable
/// reader: the downgraded (shared) access must never overlap exclusive access
fn c11_downgrade() {
    model(3, || {
        let l = Arc::new(RwLock::new(Cell::new(0)));
        let l2 = l.clone();
        let h = spawn(move || {
            for _ in 0..2 {
                if let Some(g) = l2.try_write() {
                    bump(&g);
                    return;
                }
                thread::yield_now();
            }
        });
        {
            let g = l.try_write().unwrap_or_else(|| loop {
                thread::yield_now();
                if let Some(g) = l.try_write() {
                    break g;
                }
            });
            bump(&g);
            let r = RwLockWriteGuard::downgrade(g);
            let _ = peek(&r);
            let _ = peek(&r);
        }
        h.join().unwrap();
    });
}

/// a write guard is downgraded while another thread waits in write().await
fn c11_downgrade_async() {
    model(3, || {
        let l = Arc::new(RwLock::new(Cell::new(0)));
        let l2 = l.clone();
        let h = spawn(move || {
            let g = block_on(l2.write());
            bump(&g);
        });
        if let Some(g) = l.try_write() {
            bump(&g);
            let r = RwLockWriteGuard::downgrade(g);
            let _ = peek(&r);
            let _ = peek(&r);
        }
        h.join().unwrap();
    });
}

/// an upgradable guard upgrades (async) while a reader comes and goes and a writer waits
fn c11_upgrade_async() {
    model(2, || {
        let l = Arc::new(RwLock::new(Cell::new(0)));
        let l2 = l.clone();
        let h = spawn(move || {
            if let Some(r) = l2.try_read() {
                let _ = peek(&r);
            }
            let g = block_on(l2.write());
            bump(&g);
        });
        if let Some(u) = l.try_upgradable_read() {
            let _ = peek(&u);
            let w = block_on(RwLockUpgradableReadGuard::upgrade(u));
            bump(&w);
            let u = RwLockWriteGuard::downgrade_to_upgradable(w);
            let _ = peek(&u);
        }
        h.join().unwrap();
    });
}

/// same with downgrade_to_upgradable followed by upgrade
fn c11_to_upgradable() {
    model(3, || {
        let l = Arc::new(RwLock::new(Cell::new(0)));
        let l2 = l.clone();
        let h = spawn(move || {
            for _ in 0..2 {
                if let Some(g) = l2.try_upgradable_read() {
                    let _ = peek(&g);
                    if let Ok(w) = RwLockUpgradableReadGuard::try_upgrade(g) {
                        bump(&w);
                    }
                    return;
                }
                thread::yield_now();
            }
        });
        if let Some(g) = l.try_write() {
            bump(&g);
            let u = RwLockWriteGuard::downgrade_to_upgradable(g);
            let _ = peek(&u);
            if let Ok(w) = RwLockUpgradableReadGuard::try_upgrade(u) {
                bump(&w);
            }
        }
        h.join().unwrap();
    });
}

// ---------------------------------------------------------------- C03

/// concurrent add_permits / release: no permit is lost or invented
fn c03_add() {
    model(3, || {
        let s = Arc::new(Semaphore::new(1));
        let s2 = s.clone();
        let h = spawn(move || {
            s2.add_permits(1);
        });
        let g = s.try_acquire();
        s.add_permits(1);
        drop(g);
        h.join().unwrap();
        // 1 initial + 2 added, all back
        let mut n = 0;
        let mut held = Vec::new();
        while let Some(g) = s.try_acquire() {
            held.push(g);
            n += 1;
            assert!(n <= 3, "more permits than were ever added");
        }
        assert_eq!(n, 3, "a permit was lost");
    });
}

/// one permit, two threads: the permit is a mutual-exclusion token
fn c03_excl() {
    model(3, || {
        let s = Arc::new(Semaphore::new(1));
        let c = Arc::new(Cell::new(0));
        let hs: Vec<_> = (0..2)
            .map(|_| {
                let (s, c) = (s.clone(), c.clone());
                spawn(move || loop {
                    if let Some(g) = s.try_acquire() {
                        bump(&c);
                        drop(g);
                        break;
                    }
                    thread::yield_now();
                })
            })
            .collect();
        for h in hs {
            h.join().unwrap();
        }
        assert_eq!(peek(&c), 2);
    });
}

/// acquire().await on the slow path
fn c03_async() {
    model(2, || {
        let s = Arc::new(Semaphore::new(1));
        let c = Arc::new(Cell::new(0));
        let (s2, c2) = (s.clone(), c.clone());
        let h = spawn(move || {
            let g = block_on(s2.acquire());
            bump(&c2);
            drop(g);
        });
        {
            let g = block_on(s.acquire());
            bump(&c);
            drop(g);
        }
        h.join().unwrap();
        assert_eq!(peek(&c), 2);
    });
}

// ---------------------------------------------------------------- C04

/// two threads race get_or_init_blocking: one closure runs, both see its (fully written) value
fn c04_blocking() {
    model(2, || {
        let cell = Arc::new(OnceCell::<(usize, Cell)>::new());
        let runs = Arc::new(AtomicUsize::new(0));
        let (cell2, runs2) = (cell.clone(), runs.clone());
        let h = spawn(move || {
            let v = cell2.get_or_init_blocking(|| {
                runs2.fetch_add(1, Ordering::Relaxed);
                (7, Cell::new(7))
            });
            assert_eq!(v.0, peek(&v.1));
            v.0
        });
        let v = cell.get_or_init_blocking(|| {
            runs.fetch_add(1, Ordering::Relaxed);
            (9, Cell::new(9))
        });
        assert_eq!(v.0, peek(&v.1));
        let other = h.join().unwrap();
        assert_eq!(v.0, other, "two callers saw different values");
        assert_eq!(runs.load(Ordering::Relaxed), 1, "more than one initialiser ran");
    });
}

/// get_or_init().await against get(): a visible value is complete
fn c04_publish() {
    model(3, || {
        let cell = Arc::new(OnceCell::<(usize, Cell)>::new());
        let cell2 = cell.clone();
        let h = spawn(move || {
            if let Some(v) = cell2.get() {
                assert_eq!(v.0, peek(&v.1));
            }
        });
        let v = block_on(cell.get_or_init(|| async { (5, Cell::new(5)) }));
        assert_eq!(v.0, peek(&v.1));
        h.join().unwrap();
    });
}

// ---------------------------------------------------------------- liveness under interleavings
// (a lost wake-up shows as a thread spinning forever: loom aborts with "exceeded maximum number
// of branches")

/// three lock().await in three threads
fn c05_three() {
    model(2, || {
        let m = Arc::new(Mutex::new(Cell::new(0)));
        let hs: Vec<_> = (0..2)
            .map(|_| {
                let m = m.clone();
                spawn(move || {
                    let g = block_on(m.lock());
                    bump(&g);
                })
            })
            .collect();
        {
            let g = block_on(m.lock());
            bump(&g);
        }
        for h in hs {
            h.join().unwrap();
        }
        assert_eq!(peek(&m.try_lock().unwrap()), 3);
    });
}

/// reader, upgradable reader (upgrading) and writer, all async
fn c06_mix() {
    model(2, || {
        let l = Arc::new(RwLock::new(Cell::new(0)));
        let l1 = l.clone();
        let h1 = spawn(move || {
            let g = block_on(l1.write());
            bump(&g);
        });
        let l2 = l.clone();
        let h2 = spawn(move || {
            let g = block_on(l2.read());
            let _ = peek(&g);
        });
        {
            let u = block_on(l.upgradable_read());
            let _ = peek(&u);
            let w = block_on(RwLockUpgradableReadGuard::upgrade(u));
            bump(&w);
        }
        h1.join().unwrap();
        h2.join().unwrap();
        assert_eq!(peek(&l.try_read().unwrap()), 2);
    });
}

/// one permit, three acquire().await
fn c07_three() {
    model(2, || {
        let s = Arc::new(Semaphore::new(1));
        let c = Arc::new(Cell::new(0));
        let hs: Vec<_> = (0..2)
            .map(|_| {
                let (s, c) = (s.clone(), c.clone());
                spawn(move || {
                    let g = block_on(s.acquire());
                    bump(&c);
                    drop(g);
                })
            })
            .collect();
        {
            let g = block_on(s.acquire());
            bump(&c);
            drop(g);
        }
        for h in hs {
            h.join().unwrap();
        }
        assert_eq!(peek(&c), 3);
    });
}

/// a failing initialiser hands over to the other caller; a wait() sees the value
fn c08_handover() {
    model(2, || {
        let cell = Arc::new(OnceCell::<usize>::new());
        let c1 = cell.clone();
        let h1 = spawn(move || {
            let r: Result<&usize, ()> = block_on(c1.get_or_try_init(|| async { Err(()) }));
            if let Ok(v) = r {
                assert_eq!(*v, 3);
            }
        });
        let c2 = cell.clone();
        let h2 = spawn(move || {
            assert_eq!(*block_on(c2.wait()), 3);
        });
        let v = block_on(cell.get_or_init(|| async { 3 }));
        assert_eq!(*v, 3);
        h1.join().unwrap();
        h2.join().unwrap();
    });
}

/// two waits on a barrier of two: both return, exactly one leader
fn c09_barrier() {
    model(2, || {
        let b = Arc::new(Barrier::new(2));
        let b2 = b.clone();
        let h = spawn(move || block_on(b2.wait()).is_leader());
        let me = block_on(b.wait()).is_leader();
        let other = h.join().unwrap();
        assert!(me ^ other, "exactly one leader");
    });
}

// in the `model_with(true, ..)` scenarios the 0.5 ms starvation test answers "yes" at every
// evaluation point (hook H1): all waiters use the fair loop

/// three lock().await, every waiter starved (fair loop)
fn c05_starved() {
    model_with(true, 3, || {
        let m = Arc::new(Mutex::new(Cell::new(0)));
        let hs: Vec<_> = (0..2)
            .map(|_| {
                let m = m.clone();
                spawn(move || {
                    let g = block_on(m.lock());
                    bump(&g);
                })
            })
            .collect();
        {
            let g = block_on(m.lock());
            bump(&g);
        }
        for h in hs {
            h.join().unwrap();
        }
        assert_eq!(peek(&m.try_lock().unwrap()), 3);
    });
}

/// a holder and two starved waiters; the holder unlocks while they are inside their polls
fn c05_starved_held() {
    model_with(true, 3, || {
        let m = Arc::new(Mutex::new(Cell::new(0)));
        let g = m.try_lock().unwrap();
        let hs: Vec<_> = (0..2)
            .map(|_| {
                let m = m.clone();
                spawn(move || {
                    let g = block_on(m.lock());
                    bump(&g);
                })
            })
            .collect();
        bump(&g);
        drop(g);
        for h in hs {
            h.join().unwrap();
        }
        assert_eq!(peek(&m.try_lock().unwrap()), 3);
    });
}

/// a holder that releases, barges in again with try_lock and releases again, against two waiters
/// that turn starved as soon as they lose a race
fn c05_barge() {
    model_with(true, 3, || {
        let m = Arc::new(Mutex::new(Cell::new(0)));
        let g = m.try_lock().unwrap();
        let hs: Vec<_> = (0..2)
            .map(|_| {
                let m = m.clone();
                spawn(move || {
                    let g = block_on(m.lock());
                    bump(&g);
                })
            })
            .collect();
        drop(g);
        if let Some(g2) = m.try_lock() {
            bump(&g2);
        }
        for h in hs {
            h.join().unwrap();
        }
        assert!(peek(&m.try_lock().unwrap()) >= 2);
    });
}

// ---------------------------------------------------------------- blocking forms

/// lock_blocking in two threads
fn c01_blocking() {
    model(2, || {
        let m = Arc::new(Mutex::new(Cell::new(0)));
        let m2 = m.clone();
        let h = spawn(move || {
            let g = m2.lock_blocking();
            bump(&g);
        });
        {
            let g = m.lock_blocking();
            bump(&g);
        }
        h.join().unwrap();
        assert_eq!(peek(&m.try_lock().unwrap()), 2);
    });
}

/// write_blocking against read_blocking
fn c02_blocking() {
    model(2, || {
        let l = Arc::new(RwLock::new(Cell::new(0)));
        let l2 = l.clone();
        let h = spawn(move || {
            let g = l2.write_blocking();
            bump(&g);
        });
        {
            let g = l.read_blocking();
            assert!(peek(&g) <= 1);
        }
        h.join().unwrap();
        assert_eq!(peek(&l.try_read().unwrap()), 1);
    });
}

/// upgradable_read_blocking + upgrade_blocking against a blocking writer
fn c11_blocking() {
    model(2, || {
        let l = Arc::new(RwLock::new(Cell::new(0)));
        let l2 = l.clone();
        let h = spawn(move || {
            let g = l2.write_blocking();
            bump(&g);
        });
        {
            let u = l.upgradable_read_blocking();
            let _ = peek(&u);
            let w = RwLockUpgradableReadGuard::upgrade_blocking(u);
            bump(&w);
            let r = RwLockWriteGuard::downgrade(w);
            let _ = peek(&r);
        }
        h.join().unwrap();
        assert_eq!(peek(&l.try_read().unwrap()), 2);
    });
}

/// acquire_blocking on one permit
fn c03_blocking() {
    model(2, || {
        let s = Arc::new(Semaphore::new(1));
        let c = Arc::new(Cell::new(0));
        let (s2, c2) = (s.clone(), c.clone());
        let h = spawn(move || {
            let g = s2.acquire_blocking();
            bump(&c2);
            drop(g);
        });
        {
            let g = s.acquire_blocking();
            bump(&c);
            drop(g);
        }
        h.join().unwrap();
        assert_eq!(peek(&c), 2);
    });
}

/// wait_blocking on a barrier of two
fn c09_blocking() {
    model(2, || {
        let b = Arc::new(Barrier::new(2));
        let b2 = b.clone();
        let h = spawn(move || b2.wait_blocking().is_leader());
        let me = b.wait_blocking().is_leader();
        let other = h.join().unwrap();
        assert!(me ^ other, "exactly one leader");
    });
}

/// wait_blocking / set_blocking on a OnceCell
fn c08_blocking() {
    model(2, || {
        let cell = Arc::new(OnceCell::<usize>::new());
        let c2 = cell.clone();
        let h = spawn(move || *c2.wait_blocking());
        let _ = cell.set_blocking(4);
        assert_eq!(h.join().unwrap(), 4);
    });
}

/// the Arc twin of try_acquire under contention: with no permit available no form ever succeeds
/// (not even transiently), and with one permit at most one of two racing calls does
fn c03_try_arc() {
    model(3, || {
        let s = std::sync::Arc::new(Semaphore::new(0));
        let s2 = s.clone();
        let h = spawn(move || s2.try_acquire_arc().is_some());
        let mine = s.try_acquire().is_some();
        let theirs = h.join().unwrap();
        assert!(!mine && !theirs, "a permit was handed out while none was available");
        assert!(s.try_acquire().is_none(), "permits appeared from nowhere");
    });
    model(3, || {
        let s = std::sync::Arc::new(Semaphore::new(1));
        let s2 = s.clone();
        let h = spawn(move || s2.try_acquire_arc());
        let mine = s.try_acquire_arc();
        let theirs = h.join().unwrap();
        assert!(!(mine.is_some() && theirs.is_some()), "one permit, two guards");
        assert!(mine.is_some() || theirs.is_some(), "the permit was lost");
        assert!(s.try_acquire().is_none(), "permits appeared from nowhere");
        drop(mine);
        drop(theirs);
        let g = s.try_acquire();
        assert!(g.is_some(), "the permit did not come back");
        assert!(s.try_acquire().is_none(), "more than one permit came back");
    });
}

/// a thread parked in acquire_arc_blocking is first in line, an async waiter second; two permits
/// are released in a row: both must get one (the blocking waiter has to pass the wake-up on)
fn c07_blocking_two() {
    model(2, || {
        let s = std::sync::Arc::new(Semaphore::new(2));
        let g1 = s.try_acquire_arc().unwrap();
        let g2 = s.try_acquire_arc().unwrap();
        let s1 = s.clone();
        let a = spawn(move || s1.acquire_arc_blocking());
        let s2 = s.clone();
        let b = spawn(move || block_on(s2.acquire_arc()));
        drop(g1);
        drop(g2);
        // neither waiter releases before both have a permit
        let ga = a.join().unwrap();
        let gb = b.join().unwrap();
        drop(ga);
        drop(gb);
    });
}

/// the last reader leaves while an upgrade is being polled (between its check and its listen)
fn c06_upgrade_race() {
    model(2, || {
        let l = Arc::new(RwLock::new(Cell::new(0)));
        let r = l.try_read().unwrap();
        let l2 = l.clone();
        let h = spawn(move || {
            if let Some(u) = l2.try_upgradable_read() {
                let w = block_on(RwLockUpgradableReadGuard::upgrade(u));
                bump(&w);
            }
        });
        let _ = peek(&r);
        drop(r);
        h.join().unwrap();
    });
}

/// the last reader leaves while a write() is waiting for the readers
fn c06_write_race() {
    model(2, || {
        let l = Arc::new(RwLock::new(Cell::new(0)));
        let r = l.try_read().unwrap();
        let l2 = l.clone();
        let h = spawn(move || {
            let w = block_on(l2.write());
            bump(&w);
        });
        let _ = peek(&r);
        drop(r);
        h.join().unwrap();
    });
}

/// a thread parked in wait_blocking, a failing initialiser and a second initialiser: the hand-over
/// notification must reach the second initialiser (not the passive waiter), and everybody finishes
fn c08_wait_blocking_handover() {
    model(2, || {
        let cell = std::sync::Arc::new(OnceCell::<usize>::new());
        let c1 = cell.clone();
        let h1 = spawn(move || *c1.wait_blocking());
        let c2 = cell.clone();
        let h2 = spawn(move || {
            let r: Result<&usize, ()> = c2.get_or_try_init_blocking(|| Err(()));
            r.map(|v| *v).unwrap_or(7)
        });
        let v = *cell.get_or_init_blocking(|| 7);
        assert_eq!(v, 7);
        assert_eq!(h1.join().unwrap(), 7);
        assert_eq!(h2.join().unwrap(), 7);
    });
}

/// Barrier of 2. A released-but-unpolled wait of generation 0 is dropped, which forwards its
/// notification to a waiter of generation 1; that waiter re-checks on one thread while the second
/// arrival of generation 1 comes in on another: both must return.
fn c09_cancel_race() {
    model(3, || {
        let b = Arc::new(Barrier::new(2));
        let mut x = Box::pin(b.wait());
        assert!(poll_once(x.as_mut()).is_pending()); // generation 0, first arrival
        let mut y = Box::pin(b.wait());
        assert!(poll_once(y.as_mut()).is_ready()); // leader of generation 0; x is notified
        let mut z = Box::pin(b.wait());
        assert!(poll_once(z.as_mut()).is_pending()); // generation 1, first arrival
        drop(x); // notified, never polled again: the notification goes to z
        let b2 = b.clone();
        let h = spawn(move || {
            block_on(b2.wait()); // second arrival of generation 1, on another thread
        });
        block_on(z.as_mut()); // z re-checks concurrently
        h.join().unwrap();
        drop(z);
        drop(y);
    });
}

// ---------------------------------------------------------------- cancellation races (C10)

fn poll_once<F: Future>(f: std::pin::Pin<&mut F>) -> Poll<F::Output> {
    struct Noop;
    impl Wake for Noop {
        fn wake(self: std::sync::Arc<Self>) {}
    }
    let w = Waker::from(std::sync::Arc::new(Noop));
    f.poll(&mut Context::from_waker(&w))
}

/// a pending lock() is cancelled while another thread unlocks: the wake-up must reach the third
fn c10_mutex_cancel() {
    model(2, || {
        let m = Arc::new(Mutex::new(Cell::new(0)));
        let g = m.try_lock().unwrap();
        let m1 = m.clone();
        let h1 = spawn(move || {
            let mut f = Box::pin(m1.lock());
            if let Poll::Ready(g) = poll_once(f.as_mut()) {
                bump(&g);
            }
            // cancelled here if it was pending
        });
        let m2 = m.clone();
        let h2 = spawn(move || {
            let g = block_on(m2.lock());
            bump(&g);
        });
        bump(&g);
        drop(g);
        h1.join().unwrap();
        h2.join().unwrap();
        assert!(peek(&m.try_lock().unwrap()) >= 2);
    });
}

/// a pending write() is cancelled while a reader leaves and another reader waits behind the bit
fn c10_rw_cancel() {
    model(2, || {
        let l = Arc::new(RwLock::new(Cell::new(0)));
        let r = l.try_read().unwrap();
        let l1 = l.clone();
        let h1 = spawn(move || {
            let mut f = Box::pin(l1.write());
            if let Poll::Ready(g) = poll_once(f.as_mut()) {
                bump(&g);
            }
        });
        let l2 = l.clone();
        let h2 = spawn(move || {
            let g = block_on(l2.read());
            let _ = peek(&g);
        });
        let _ = peek(&r);
        drop(r);
        h1.join().unwrap();
        h2.join().unwrap();
    });
}

/// a pending acquire() is cancelled while the permit is released
fn c10_sem_cancel() {
    model(2, || {
        let s = Arc::new(Semaphore::new(1));
        let g = s.try_acquire().unwrap();
        let s1 = s.clone();
        let h1 = spawn(move || {
            let mut f = Box::pin(s1.acquire());
            let _ = poll_once(f.as_mut());
        });
        let s2 = s.clone();
        let h2 = spawn(move || {
            let _g = block_on(s2.acquire());
        });
        drop(g);
        h1.join().unwrap();
        h2.join().unwrap();
        assert!(s.try_acquire().is_some());
    });
}

const ALL: &[(&str, fn())] = &[
    ("c05_starved", c05_starved),
    ("c05_barge", c05_barge),
    ("c05_starved_held", c05_starved_held),
    ("c01_blocking", c01_blocking),
    ("c02_blocking", c02_blocking),
    ("c11_blocking", c11_blocking),
    ("c03_blocking", c03_blocking),
    ("c03_try_arc", c03_try_arc),
    ("c09_blocking", c09_blocking),
    ("c08_blocking", c08_blocking),
    ("c06_upgrade_race", c06_upgrade_race),
    ("c06_write_race", c06_write_race),
    ("c07_blocking_two", c07_blocking_two),
    ("c08_wait_blocking_handover", c08_wait_blocking_handover),
    ("c09_cancel_race", c09_cancel_race),
    ("c10_mutex_cancel", c10_mutex_cancel),
    ("c10_rw_cancel", c10_rw_cancel),
    ("c10_sem_cancel", c10_sem_cancel),
    ("c05_three", c05_three),
    ("c06_mix", c06_mix),
    ("c07_three", c07_three),
    ("c08_handover", c08_handover),
    ("c09_barrier", c09_barrier),
    ("c01_try_lock", c01_try_lock),
    ("c01_lock", c01_lock),
    ("c01_arc", c01_arc),
    ("c02_try", c02_try),
    ("c02_upgrade", c02_upgrade),
    ("c02_async", c02_async),
    ("c11_downgrade", c11_downgrade),
    ("c11_to_upgradable", c11_to_upgradable),
    ("c11_downgrade_async", c11_downgrade_async),
    ("c11_upgrade_async", c11_upgrade_async),
    ("c03_add", c03_add),
    ("c03_excl", c03_excl),
    ("c03_async", c03_async),
    ("c04_blocking", c04_blocking),
    ("c04_publish", c04_publish),
];

fn main() {
    let which = std::env::args().nth(1).unwrap_or_default();
    if which == "list" {
        for (n, _) in ALL {
            println!("{}", n);
        }
        return;
    }
    match ALL.iter().find(|(n, _)| *n == which) {
        Some((n, f)) => {
            f();
            println!("ok {}", n);
        }
        None => {
            eprintln!("unknown scenario {:?}", which);
            std::process::exit(2);
        }
    }
}
