//! Shared pieces of the differential harness: PRNG, counting wakers, the `World` trait,
//! history generation (exhaustive DFS with trie-structured output, seeded random) and replay.

use std::collections::{BTreeSet, HashMap};
use std::io::Write;
use std::sync::{Arc, Mutex};
use std::task::{Wake, Waker};

/// splitmix64: every random choice of a run derives from one seed.
pub struct Rng(pub u64);

impl Rng {
    pub fn next(&mut self) -> u64 {
        self.0 = self.0.wrapping_add(0x9E37_79B9_7F4A_7C15);
        let mut z = self.0;
        z = (z ^ (z >> 30)).wrapping_mul(0xBF58_476D_1CE4_E5B9);
        z = (z ^ (z >> 27)).wrapping_mul(0x94D0_49BB_1331_11EB);
        z ^ (z >> 31)
    }
    pub fn below(&mut self, n: usize) -> usize {
        (self.next() % (n as u64)) as usize
    }
    pub fn chance(&mut self, num: u64, den: u64) -> bool {
        self.next() % den < num
    }
}

static WAKES: Mutex<Vec<u32>> = Mutex::new(Vec::new());

struct W(u32);

impl Wake for W {
    fn wake(self: Arc<Self>) {
        WAKES.lock().unwrap().push(self.0);
    }
    fn wake_by_ref(self: &Arc<Self>) {
        WAKES.lock().unwrap().push(self.0);
    }
}

/// A waker that records its id when called. Waker id `t` belongs to future `t / 4`.
pub fn waker(id: u32) -> Waker {
    Waker::from(Arc::new(W(id)))
}

pub fn take_wakes() -> Vec<u32> {
    std::mem::take(&mut *WAKES.lock().unwrap())
}

pub fn fmt_list<T: std::fmt::Display>(v: &[T]) -> String {
    v.iter().map(|x| x.to_string()).collect::<Vec<_>>().join(",")
}

pub fn fmt_snapshot(s: &async_lock::__verif::Snapshot) -> String {
    let words = fmt_list(&s.words);
    let ev = s
        .events
        .iter()
        .map(|(n, x)| {
            if *n == 0 {
                "0:-".to_string()
            } else {
                format!("{}:{}", n, if *x { 1 } else { 0 })
            }
        })
        .collect::<Vec<_>>()
        .join(",");
    format!("words={} ev={}", words, ev)
}

/// What every primitive's world provides.
pub trait World {
    /// Execute one op line against the real crate; returns the outcome token(s).
    fn exec(&mut self, op: &str) -> String;
    /// Raw words, listener counts, strong count, ... in the model's print format.
    fn snapshot(&self) -> String;
    /// Ops that are valid now. `rich`: include the less common variants.
    fn candidates(&self, exhaustive: bool) -> Vec<String>;
    /// Canonical key of the implementation-visible state (for pruning in DFS).
    fn key(&self) -> String;
    /// Property monitors violated in the current state (evaluated on the implementation).
    fn monitors(&self, woken: &BTreeSet<u32>) -> Vec<String>;
    /// Called before every op with "every woken task has been polled again".
    fn note_quiescent(&mut self, _q: bool) {}
    /// The op line `settle` (and the woken-biased random choice) uses to re-poll future `f`.
    fn repoll_op(&self, _f: u32) -> Option<String> {
        None
    }
    /// Number of futures that have been polled and have not completed (C17's unit of measure).
    fn pending(&self) -> usize {
        0
    }
    /// Addresses of the primitive's atomic words (index = the `w<i>` of the atomic-operation log).
    fn word_addrs(&self) -> Vec<usize> {
        Vec::new()
    }
    /// The atomic-operation log of the crate call proper, when the world's own observation calls
    /// (which also go through the crate) must be kept out of it.
    fn take_op_atoms(&mut self) -> Option<Vec<async_lock::__verif::AtomicOp>> {
        None
    }
    /// Further contention (guards alive, ...) for the beam search's ranking.
    fn score(&self) -> usize {
        0
    }
}

pub struct Runner {
    pub world: Box<dyn World>,
    /// owners (future ids) whose waker was called and that were not polled since
    pub woken: BTreeSet<u32>,
}

pub type Maker = fn(&str) -> Option<Box<dyn World>>;

/// The atomic operations the crate performed since the last call (hook: `record_atomics`), in the
/// model's print format: `w<i>:<op>(<operands>;<orderings>)=<result>`, comma separated; `-` if none.
pub fn take_atoms(addrs: &[usize], own: Option<Vec<async_lock::__verif::AtomicOp>>) -> String {
    let rest = async_lock::__verif::take_atomic_log();
    let log = own.unwrap_or(rest);
    if log.is_empty() {
        return "-".to_string();
    }
    log.iter()
        .map(|a| {
            let w = addrs.iter().position(|x| *x == a.addr).map(|i| format!("w{}", i)).unwrap_or("w?".into());
            let args = match a.op {
                "load" => String::new(),
                "cas" | "casw" => format!("{},{}", a.args[0] as isize, a.args[1] as isize),
                _ => format!("{}", a.args[0] as isize),
            };
            let ret = match (a.op, a.ret) {
                ("cas", Some(r)) | ("casw", Some(r)) => format!("={}{}", if a.ok { "ok" } else { "err" }, r),
                (_, Some(r)) => format!("={}", r),
                (_, None) => String::new(),
            };
            format!("{}:{}({};{}){}", w, a.op, args, a.ord, ret)
        })
        .collect::<Vec<_>>()
        .join(",")
}

impl Runner {
    pub fn new(new_line: &str, mk: Maker) -> Option<Runner> {
        take_wakes();
        async_lock::__verif::record_atomics(true);
        let _ = async_lock::__verif::take_atomic_log();
        Some(Runner {
            world: mk(new_line)?,
            woken: BTreeSet::new(),
        })
    }

    /// Executes `op`, returns the full observation line (and monitor hits).
    pub fn exec(&mut self, op: &str) -> (String, Vec<String>) {
        let toks: Vec<&str> = op.split_whitespace().collect();
        // before the operation: it may free the primitive
        let addrs = self.world.word_addrs();
        // whatever the harness's own observations did since the last op is not part of this one
        let _ = async_lock::__verif::take_atomic_log();
        let out;
        if toks.first() == Some(&"settle") {
            // run woken futures to quiescence, smallest id first, bounded
            let bound: usize = toks.get(1).and_then(|x| x.parse().ok()).unwrap_or(64);
            let mut polls = 0usize;
            let mut all_wakes = Vec::new();
            let pending0 = self.world.pending();
            while polls < bound {
                let Some(&f) = self.woken.iter().next() else { break };
                match self.world.repoll_op(f) {
                    Some(op) => {
                        self.world.note_quiescent(self.woken.is_empty());
                        self.woken.remove(&f);
                        let _ = self.world.exec(&op);
                        polls += 1;
                        for t in take_wakes() {
                            all_wakes.push(t);
                            self.woken.insert(t / 4);
                        }
                    }
                    None => {
                        self.woken.remove(&f);
                    }
                }
            }
            out = format!("settled {}", polls);
            let own = self.world.take_op_atoms();
        let atoms = take_atoms(&addrs, own);
            let obs = format!("{} | w={} | {} at={}", out, fmt_list(&all_wakes), self.world.snapshot(), atoms);
            let mut mons = self.world.monitors(&self.woken);
            let _ = async_lock::__verif::take_atomic_log();
            // C17: nothing is released, started or cancelled during a settle, so the woken futures
            // must come to rest within a small multiple of the number of pending futures
            if polls > 5 * pending0 || (polls >= bound && !self.woken.is_empty() && bound > 5 * pending0) {
                mons.push(format!("C17:settle-needed-{}-polls-for-{}-pending-futures", polls, pending0));
            }
            return (obs, mons);
        }
        self.world.note_quiescent(self.woken.is_empty());
        if toks.first() == Some(&"poll") || toks.first() == Some(&"dropf") {
            if let Some(f) = toks.get(1).and_then(|x| x.parse::<u32>().ok()) {
                self.woken.remove(&f);
            }
        }
        out = self.world.exec(op);
        let wakes = take_wakes();
        for t in &wakes {
            self.woken.insert(*t / 4);
        }
        // a future that completed or was dropped can no longer be "woken and not re-polled"
        let own = self.world.take_op_atoms();
        let atoms = take_atoms(&addrs, own);
        let obs = format!("{} | w={} | {} at={}", out, fmt_list(&wakes), self.world.snapshot(), atoms);
        let mons = self.world.monitors(&self.woken);
        // the monitors' own probes (try_lock, try_read, ...) are not part of the next operation
        let _ = async_lock::__verif::take_atomic_log();
        (obs, mons)
    }

    pub fn key(&self) -> String {
        format!("{}#{:?}", self.world.key(), self.woken)
    }
}

pub struct Stats {
    pub histories: u64,
    pub ops: u64,
    pub monitor_hits: u64,
    pub op_kinds: HashMap<String, u64>,
    pub outcomes: HashMap<String, u64>,
    pub distinct_states: u64,
}

impl Stats {
    pub fn new() -> Stats {
        Stats {
            histories: 0,
            ops: 0,
            monitor_hits: 0,
            op_kinds: HashMap::new(),
            outcomes: HashMap::new(),
            distinct_states: 0,
        }
    }
    pub fn record(&mut self, op: &str, obs: &str) {
        self.ops += 1;
        let k = op.split_whitespace().next().unwrap_or("").to_string();
        *self.op_kinds.entry(k.clone()).or_insert(0) += 1;
        let o = obs.split(" | ").next().unwrap_or("");
        let o = o.split_whitespace().next().unwrap_or("");
        *self.outcomes.entry(format!("{}:{}", k, o)).or_insert(0) += 1;
    }
    pub fn to_json(&self) -> String {
        let mut kinds: Vec<_> = self.op_kinds.iter().collect();
        kinds.sort();
        let mut outs: Vec<_> = self.outcomes.iter().collect();
        outs.sort();
        let f = |v: Vec<(&String, &u64)>| {
            v.iter()
                .map(|(k, n)| format!("\"{}\":{}", k, n))
                .collect::<Vec<_>>()
                .join(",")
        };
        format!(
            "{{\"histories\":{},\"ops\":{},\"monitor_hits\":{},\"distinct_states\":{},\"op_kinds\":{{{}}},\"outcomes\":{{{}}}}}",
            self.histories,
            self.ops,
            self.monitor_hits,
            self.distinct_states,
            f(kinds),
            f(outs)
        )
    }
}

fn emit(out: &mut dyn Write, op: &str, obs: &str, mons: &[String]) {
    if mons.is_empty() {
        writeln!(out, "{} || {}", op, obs).unwrap();
    } else {
        writeln!(out, "{} || {} M!{}", op, obs, mons.join(",")).unwrap();
    }
}

fn replay_prefix(new_line: &str, mk: Maker, prefix: &[String]) -> Runner {
    let mut r = Runner::new(new_line, mk).expect("bad new line");
    for op in prefix {
        r.exec(op);
    }
    r
}

/// Exhaustive enumeration of all valid op sequences up to `depth`, pruned by state key.
/// Output is trie-structured: `(` saves the model state, `)` restores it.
pub fn dfs(
    new_line: &str,
    mk: Maker,
    depth: usize,
    start_prefix: &[String],
    out: &mut dyn Write,
    stats: &mut Stats,
) {
    let mut r = Runner::new(new_line, mk).expect("bad new line");
    let snap = r.world.snapshot();
    emit(out, new_line, &format!("ok | w= | {}", snap), &[]);
    for op in start_prefix {
        let (obs, mons) = r.exec(op);
        emit(out, op, &obs, &mons);
    }
    let mut visited: HashMap<String, usize> = HashMap::new();
    visited.insert(r.key(), depth);
    let mut prefix: Vec<String> = start_prefix.to_vec();
    drop(r);
    dfs_rec(new_line, mk, depth, &mut prefix, &mut visited, out, stats, &mut None);
    stats.distinct_states += visited.len() as u64;
}

/// Beam search: an exhaustive DFS of depth `depth0` from the initial state, then `rounds` times:
/// take the `width` most contended states seen so far (pending futures, guards, outstanding
/// wake-ups) and run an exhaustive DFS of depth `depth_r` from each.  Reaches the deep, crowded
/// states a plain DFS cannot afford.  Output: one trie per DFS, each starting with the `new` line
/// and its prefix.
#[allow(clippy::too_many_arguments)]
pub fn beam(
    new_line: &str,
    mk: Maker,
    depth0: usize,
    width: usize,
    rounds: usize,
    depth_r: usize,
    out: &mut dyn Write,
    stats: &mut Stats,
) {
    let mut visited: HashMap<String, usize> = HashMap::new();
    let mut frontier: Option<Vec<(usize, Vec<String>)>> = Some(Vec::new());
    let mut starts: Vec<Vec<String>> = vec![vec![]];
    let mut used: std::collections::HashSet<Vec<String>> = std::collections::HashSet::new();
    for round in 0..=rounds {
        let depth = if round == 0 { depth0 } else { depth_r };
        for start in &starts {
            let mut r = Runner::new(new_line, mk).expect("bad new line");
            let snap = r.world.snapshot();
            emit(out, new_line, &format!("ok | w= | {}", snap), &[]);
            for op in start {
                let (obs, mons) = r.exec(op);
                emit(out, op, &obs, &mons);
            }
            // states are re-explored from a beam start even if seen before with less depth left
            visited.insert(r.key(), depth);
            drop(r);
            let mut prefix = start.clone();
            dfs_rec(new_line, mk, depth, &mut prefix, &mut visited, out, stats, &mut frontier);
        }
        if round == rounds {
            break;
        }
        let fr = frontier.as_mut().unwrap();
        // most contended first; among equals the shorter prefix
        fr.sort_by(|a, b| b.0.cmp(&a.0).then(a.1.len().cmp(&b.1.len())));
        starts = Vec::new();
        for (_, p) in fr.iter() {
            if starts.len() >= width {
                break;
            }
            if used.insert(p.clone()) {
                starts.push(p.clone());
            }
        }
        fr.clear();
    }
    stats.distinct_states += visited.len() as u64;
}

#[allow(clippy::too_many_arguments)]
fn dfs_rec(
    new_line: &str,
    mk: Maker,
    remaining: usize,
    prefix: &mut Vec<String>,
    visited: &mut HashMap<String, usize>,
    out: &mut dyn Write,
    stats: &mut Stats,
    frontier: &mut Option<Vec<(usize, Vec<String>)>>,
) {
    if remaining == 0 {
        stats.histories += 1;
        return;
    }
    let cands = replay_prefix(new_line, mk, prefix).world.candidates(true);
    for op in cands {
        let mut r = replay_prefix(new_line, mk, prefix);
        let (obs, mons) = r.exec(&op);
        stats.record(&op, &obs);
        if !mons.is_empty() {
            stats.monitor_hits += 1;
        }
        writeln!(out, "(").unwrap();
        emit(out, &op, &obs, &mons);
        let key = r.key();
        let rem = remaining - 1;
        let fresh = !visited.contains_key(&key);
        let go = match visited.get(&key) {
            Some(&seen) => seen < rem,
            None => true,
        };
        if fresh {
            if let Some(fr) = frontier.as_mut() {
                // contention score of a state first seen here: pending futures count most
                let score = 4 * r.world.pending() + r.world.score() + r.woken.len();
                let mut p = prefix.clone();
                p.push(op.clone());
                fr.push((score, p));
            }
        }
        if go && !r.woken.is_empty() {
            // probe (C17 and the liveness monitors): run the woken futures of this new state to
            // quiescence, as a leaf of the trie
            let (sobs, smons) = r.exec("settle 64");
            stats.record("settle 64", &sobs);
            if !smons.is_empty() {
                stats.monitor_hits += 1;
            }
            writeln!(out, "(").unwrap();
            emit(out, "settle 64", &sobs, &smons);
            writeln!(out, ")").unwrap();
        }
        drop(r);
        if go && rem > 0 {
            visited.insert(key, rem);
            prefix.push(op);
            dfs_rec(new_line, mk, rem, prefix, visited, out, stats, frontier);
            prefix.pop();
        } else {
            stats.histories += 1;
        }
        writeln!(out, ")").unwrap();
    }
}

/// Seeded random histories: `count` histories of up to `len` ops each.
pub fn random(
    new_lines: &[String],
    mk: Maker,
    count: usize,
    len: usize,
    rng: &mut Rng,
    out: &mut dyn Write,
    stats: &mut Stats,
) {
    for _ in 0..count {
        let new_line = &new_lines[rng.below(new_lines.len())];
        let mut r = Runner::new(new_line, mk).expect("bad new line");
        emit(out, new_line, &format!("ok | w= | {}", r.world.snapshot()), &[]);
        stats.histories += 1;
        // per-history bias: keep completed futures alive or drop them quickly
        for _ in 0..len {
            let cands = r.world.candidates(false);
            if cands.is_empty() {
                break;
            }
            // weighted choice by op kind, so that contention and hand-overs are common
            let weight = |op: &str| -> u64 {
                match op.split_whitespace().next().unwrap_or("") {
                    "poll" => 30,
                    "start" => 14,
                    "dropf" => 8,
                    "dropg" => 16,
                    "try" => 8,
                    "forget" => 2,
                    "add" => 4,
                    "conv" | "upgrade" => 12,
                    _ => 3,
                }
            };
            let kinds: BTreeSet<String> =
                cands.iter().map(|c| c.split_whitespace().next().unwrap_or("").to_string()).collect();
            let kinds: Vec<String> = kinds.into_iter().collect();
            let total: u64 = kinds.iter().map(|k| weight(k)).sum();
            let mut pick = rng.next() % total;
            let mut kind = kinds[0].clone();
            for k in &kinds {
                let w = weight(k);
                if pick < w {
                    kind = k.clone();
                    break;
                }
                pick -= w;
            }
            let of_kind: Vec<&String> =
                cands.iter().filter(|c| c.split_whitespace().next() == Some(kind.as_str())).collect();
            let mut op = of_kind[rng.below(of_kind.len())].clone();
            if !r.woken.is_empty() && rng.chance(2, 5) {
                // poll a woken future: any of its poll variants (wakers, starvation test outcome)
                let w: Vec<u32> = r.woken.iter().cloned().collect();
                let f = w[rng.below(w.len())];
                let pre = format!("poll {} ", f);
                let polls: Vec<&String> = cands.iter().filter(|c| c.starts_with(&pre)).collect();
                if !polls.is_empty() {
                    op = polls[rng.below(polls.len())].clone();
                }
            } else if rng.chance(1, 14) {
                op = "settle 64".to_string();
            }
            let (obs, mons) = r.exec(&op);
            stats.record(&op, &obs);
            if !mons.is_empty() {
                stats.monitor_hits += 1;
            }
            emit(out, &op, &obs, &mons);
        }
        // drain suffix: quiesce
        let (obs, mons) = r.exec("settle 64");
        stats.record("settle 64", &obs);
        if !mons.is_empty() {
            stats.monitor_hits += 1;
        }
        emit(out, "settle 64", &obs, &mons);
    }
}

/// Random continuations of a fixed prefix (search after a correspondence break).
pub fn random_from(
    new_line: &str,
    mk: Maker,
    prefix: &[String],
    count: usize,
    len: usize,
    rng: &mut Rng,
    out: &mut dyn Write,
    stats: &mut Stats,
) {
    for _ in 0..count {
        let mut r = Runner::new(new_line, mk).expect("bad new line");
        emit(out, new_line, &format!("ok | w= | {}", r.world.snapshot()), &[]);
        stats.histories += 1;
        for op in prefix {
            let (obs, mons) = r.exec(op);
            emit(out, op, &obs, &mons);
        }
        for _ in 0..len {
            let cands = r.world.candidates(false);
            if cands.is_empty() {
                break;
            }
            let mut op = cands[rng.below(cands.len())].clone();
            if !r.woken.is_empty() && rng.chance(1, 2) {
                let w: Vec<u32> = r.woken.iter().cloned().collect();
                let f = w[rng.below(w.len())];
                let pre = format!("poll {} ", f);
                let polls: Vec<&String> = cands.iter().filter(|c| c.starts_with(&pre)).collect();
                if !polls.is_empty() {
                    op = polls[rng.below(polls.len())].clone();
                }
            }
            let (obs, mons) = r.exec(&op);
            stats.record(&op, &obs);
            let hit = !mons.is_empty();
            emit(out, &op, &obs, &mons);
            if hit {
                stats.monitor_hits += 1;
                break;
            }
        }
    }
}

/// Replay op lines from `input` (supports `new`, `(`, `)` by re-execution of the prefix).
pub fn replay(input: &str, mk: Maker, out: &mut dyn Write) {
    let mut new_line = String::new();
    let mut prefix: Vec<String> = Vec::new();
    let mut stack: Vec<usize> = Vec::new();
    let mut r: Option<Runner> = None;
    for line in input.lines() {
        let op = line.split(" || ").next().unwrap().trim();
        if op.is_empty() {
            continue;
        }
        if op == "(" {
            stack.push(prefix.len());
            writeln!(out, "(").unwrap();
            continue;
        }
        if op == ")" {
            let n = stack.pop().unwrap_or(0);
            prefix.truncate(n);
            r = Some(replay_prefix(&new_line, mk, &prefix));
            writeln!(out, ")").unwrap();
            continue;
        }
        if op.starts_with("new ") {
            new_line = op.to_string();
            prefix.clear();
            stack.clear();
            r = Runner::new(op, mk);
            match &r {
                Some(r) => emit(out, op, &format!("ok | w= | {}", r.world.snapshot()), &[]),
                None => emit(out, op, "bad-op", &[]),
            }
            continue;
        }
        match r.as_mut() {
            Some(r) => {
                let (obs, mons) = r.exec(op);
                emit(out, op, &obs, &mons);
                prefix.push(op.to_string());
            }
            None => emit(out, op, "bad-op", &[]),
        }
    }
}
