//! World for `async_lock::Semaphore`.

use crate::common::*;
use async_lock::futures::{Acquire, AcquireArc};
use async_lock::{Semaphore, SemaphoreGuard, SemaphoreGuardArc};
use std::collections::{BTreeMap, BTreeSet};
use std::future::Future;
use std::pin::Pin;
use std::sync::Arc;
use std::task::{Context, Poll};

enum F {
    B(Pin<Box<Acquire<'static>>>),
    A(Pin<Box<AcquireArc>>),
}

struct Fut {
    f: F,
    arc: bool,
    polled: bool,
    done: bool,
    last_waker: u32,
}

enum G {
    B(SemaphoreGuard<'static>),
    A(SemaphoreGuardArc),
}

pub struct SemWorld {
    // declaration order = drop order: futures and guards before the handles
    futs: BTreeMap<u32, Fut>,
    guards: BTreeMap<u32, (G, bool)>,
    extra: Vec<Arc<Semaphore>>,
    root: Arc<Semaphore>,
    init: usize,
    added: usize,
    forgotten: usize,
}

pub fn make(line: &str) -> Option<Box<dyn World>> {
    let t: Vec<&str> = line.split_whitespace().collect();
    if t.len() == 3 && t[0] == "new" && t[1] == "sem" {
        let n: usize = t[2].parse().ok()?;
        return Some(Box::new(SemWorld {
            futs: BTreeMap::new(),
            guards: BTreeMap::new(),
            extra: Vec::new(),
            root: Arc::new(Semaphore::new(n)),
            init: n,
            added: 0,
            forgotten: 0,
        }));
    }
    None
}

impl SemWorld {
    fn sref(&self) -> &'static Semaphore {
        // SAFETY: `root` outlives every borrowed future and guard (field drop order).
        unsafe { &*Arc::as_ptr(&self.root) }
    }
    fn fresh(&self, i: u32) -> bool {
        !self.futs.contains_key(&i) && !self.guards.contains_key(&i)
    }
    fn next_id(&self) -> u32 {
        (0..).find(|i| self.fresh(*i)).unwrap()
    }
}

impl World for SemWorld {
    fn exec(&mut self, op: &str) -> String {
        let t: Vec<&str> = op.split_whitespace().collect();
        let num = |i: usize| -> Option<u32> { t.get(i).and_then(|x| x.parse().ok()) };
        match t.first().copied() {
            Some("start") => {
                let (Some(f), Some(arc)) = (num(1), num(2)) else { return "bad-op".into() };
                if !self.fresh(f) {
                    return "bad-op".into();
                }
                let fut = if arc == 1 {
                    F::A(Box::pin(self.root.acquire_arc()))
                } else {
                    F::B(Box::pin(self.sref().acquire()))
                };
                self.futs.insert(
                    f,
                    Fut { f: fut, arc: arc == 1, polled: false, done: false, last_waker: f * 4 },
                );
                "ok".into()
            }
            Some("poll") => {
                let (Some(f), Some(w)) = (num(1), num(2)) else { return "bad-op".into() };
                let Some(fu) = self.futs.get_mut(&f) else { return "bad-op".into() };
                if fu.done {
                    return "bad-op".into();
                }
                let wk = waker(w);
                let mut cx = Context::from_waker(&wk);
                fu.polled = true;
                fu.last_waker = w;
                let res = match &mut fu.f {
                    F::B(p) => p.as_mut().poll(&mut cx).map(G::B),
                    F::A(p) => p.as_mut().poll(&mut cx).map(G::A),
                };
                match res {
                    Poll::Ready(g) => {
                        fu.done = true;
                        let arc = fu.arc;
                        self.guards.insert(f, (g, arc));
                        "ready".into()
                    }
                    Poll::Pending => "pending".into(),
                }
            }
            Some("dropf") => {
                let Some(f) = num(1) else { return "bad-op".into() };
                match self.futs.remove(&f) {
                    Some(fu) => {
                        drop(fu);
                        "ok".into()
                    }
                    None => "bad-op".into(),
                }
            }
            Some("try") => {
                let (Some(g), Some(arc)) = (num(1), num(2)) else { return "bad-op".into() };
                if !self.fresh(g) {
                    return "bad-op".into();
                }
                let r = if arc == 1 {
                    self.root.try_acquire_arc().map(G::A)
                } else {
                    self.sref().try_acquire().map(G::B)
                };
                match r {
                    Some(gu) => {
                        self.guards.insert(g, (gu, arc == 1));
                        "some".into()
                    }
                    None => "none".into(),
                }
            }
            Some("dropg") => {
                let Some(g) = num(1) else { return "bad-op".into() };
                match self.guards.remove(&g) {
                    Some(gu) => {
                        drop(gu);
                        "ok".into()
                    }
                    None => "bad-op".into(),
                }
            }
            Some("forget") => {
                let Some(g) = num(1) else { return "bad-op".into() };
                match self.guards.remove(&g) {
                    Some((G::B(gu), _)) => {
                        gu.forget();
                        self.forgotten += 1;
                        "ok".into()
                    }
                    Some((G::A(gu), _)) => {
                        gu.forget();
                        self.forgotten += 1;
                        "ok".into()
                    }
                    None => "bad-op".into(),
                }
            }
            Some("add") => {
                let Some(n) = num(1) else { return "bad-op".into() };
                self.root.add_permits(n as usize);
                self.added += n as usize;
                "ok".into()
            }
            Some("hclone") => {
                self.extra.push(self.root.clone());
                "ok".into()
            }
            Some("hdrop") => match self.extra.pop() {
                Some(h) => {
                    drop(h);
                    "ok".into()
                }
                None => "bad-op".into(),
            },
            _ => "bad-op".into(),
        }
    }

    fn snapshot(&self) -> String {
        format!(
            "{} strong={}",
            fmt_snapshot(&self.root.__verif_snapshot()),
            Arc::strong_count(&self.root)
        )
    }

    fn candidates(&self, exhaustive: bool) -> Vec<String> {
        let mut v = Vec::new();
        let max_f = 4;
        let live = self.futs.len();
        let id = self.next_id();
        if live < max_f {
            v.push(format!("start {} 0", id));
            v.push(format!("start {} 1", id));
        }
        for (f, fu) in &self.futs {
            if !fu.done {
                v.push(format!("poll {} {}", f, f * 4));
                if fu.polled && !exhaustive {
                    v.push(format!("poll {} {}", f, f * 4 + 1));
                }
                if fu.polled && exhaustive && fu.last_waker == f * 4 {
                    v.push(format!("poll {} {}", f, f * 4 + 1));
                }
            }
            v.push(format!("dropf {}", f));
        }
        if self.guards.len() < 4 {
            v.push(format!("try {} 0", id));
            if !exhaustive || self.guards.is_empty() {
                v.push(format!("try {} 1", id));
            }
        }
        for (g, _) in &self.guards {
            v.push(format!("dropg {}", g));
            if self.forgotten < 2 {
                v.push(format!("forget {}", g));
            }
        }
        if self.added < 4 {
            v.push("add 1".into());
            v.push("add 2".into());
            if !exhaustive {
                v.push("add 0".into());
                v.push("add 3".into());
            }
        }
        if !exhaustive {
            if self.extra.len() < 2 {
                v.push("hclone".into());
            }
            if !self.extra.is_empty() {
                v.push("hdrop".into());
            }
        }
        v
    }

    fn key(&self) -> String {
        let f: Vec<String> = self
            .futs
            .iter()
            .map(|(i, f)| format!("{}{}{}{}{}", i, f.arc as u8, f.polled as u8, f.done as u8, f.last_waker))
            .collect();
        let g: Vec<String> = self.guards.iter().map(|(i, g)| format!("{}{}", i, g.1 as u8)).collect();
        format!("{}|{}|{}|{}|{}", f.join(","), g.join(","), self.snapshot(), self.added, self.forgotten)
    }

    fn monitors(&self, woken: &BTreeSet<u32>) -> Vec<String> {
        let mut m = Vec::new();
        let snap = self.root.__verif_snapshot();
        let count = snap.words[0];
        let alive = self.guards.len();
        // C03: conservation / no over-issue
        if count + alive + self.forgotten != self.init + self.added {
            m.push("C03".to_string());
        }
        // C07: permit available, everybody woken has been re-polled, yet a polled future pends
        let pending = self.futs.values().filter(|f| f.polled && !f.done).count();
        if woken.is_empty() && count > 0 && pending > 0 {
            m.push("C07".to_string());
        }
        // C14: try_acquire is exact (idle probe: only when nobody is registered; restores state)
        if snap.events[0].0 == 0 && pending == 0 {
            match self.sref().try_acquire() {
                Some(g) => {
                    drop(g);
                    if count == 0 {
                        m.push("C14".to_string());
                    }
                }
                None => {
                    if count > 0 {
                        m.push("C14".to_string());
                    }
                }
            }
        }
        // C10: no stale listeners: listeners registered <= pending polled futures
        if snap.events[0].0 > pending {
            m.push("C10".to_string());
        }
        // C15: strong = handles + arc futures + arc guards
        let arc_f = self.futs.values().filter(|f| f.arc).count();
        let arc_g = self.guards.values().filter(|g| g.1).count();
        if Arc::strong_count(&self.root) != 1 + self.extra.len() + arc_f + arc_g {
            m.push("C15".to_string());
        }
        m
    }

    fn word_addrs(&self) -> Vec<usize> {
        self.root.__verif_snapshot().addrs
    }

    fn pending(&self) -> usize {
        self.futs.values().filter(|x| x.polled && !x.done).count()
    }

    fn repoll_op(&self, f: u32) -> Option<String> {
        self.futs.get(&f).filter(|x| !x.done).map(|x| format!("poll {} {}", f, x.last_waker))
    }
}
