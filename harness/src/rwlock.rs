//! World for `async_lock::RwLock`.

use crate::common::*;
use crate::mutex::Payload;
use async_lock::futures::{
    Read, ReadArc, UpgradableRead, UpgradableReadArc, Upgrade, UpgradeArc, Write, WriteArc,
};
use async_lock::{
    RwLock, RwLockReadGuard, RwLockReadGuardArc, RwLockUpgradableReadGuard,
    RwLockUpgradableReadGuardArc, RwLockWriteGuard, RwLockWriteGuardArc,
};
use std::collections::{BTreeMap, BTreeSet};
use std::future::Future;
use std::pin::Pin;
use std::sync::atomic::{AtomicUsize, Ordering};
use std::sync::Arc;
use std::task::{Context, Poll};

type L = RwLock<Payload>;

enum F {
    Read(Pin<Box<Read<'static, Payload>>>),
    ReadArc(Pin<Box<ReadArc<'static, Payload>>>),
    URead(Pin<Box<UpgradableRead<'static, Payload>>>),
    UReadArc(Pin<Box<UpgradableReadArc<'static, Payload>>>),
    Write(Pin<Box<Write<'static, Payload>>>),
    WriteArc(Pin<Box<WriteArc<'static, Payload>>>),
    Upgrade(Pin<Box<Upgrade<'static, Payload>>>),
    UpgradeArc(Pin<Box<UpgradeArc<Payload>>>),
}

#[derive(Clone, Copy, PartialEq, Eq, Debug)]
enum K {
    Read,
    URead,
    Write,
    Upgrade,
}

struct Fut {
    f: F,
    kind: K,
    arc: bool,
    polled: bool,
    done: bool,
    last_waker: u32,
}

enum G {
    R(RwLockReadGuard<'static, Payload>),
    RA(RwLockReadGuardArc<Payload>),
    U(RwLockUpgradableReadGuard<'static, Payload>),
    UA(RwLockUpgradableReadGuardArc<Payload>),
    W(RwLockWriteGuard<'static, Payload>),
    WA(RwLockWriteGuardArc<Payload>),
}

impl G {
    fn kind(&self) -> K {
        match self {
            G::R(_) | G::RA(_) => K::Read,
            G::U(_) | G::UA(_) => K::URead,
            G::W(_) | G::WA(_) => K::Write,
        }
    }
    fn arc(&self) -> bool {
        matches!(self, G::RA(_) | G::UA(_) | G::WA(_))
    }
}

pub struct RwWorld {
    futs: BTreeMap<u32, Fut>,
    guards: BTreeMap<u32, G>,
    /// boxed so that `&'static Arc<L>` handed to the Arc futures stays valid
    handles: Vec<Box<Arc<L>>>,
    raw: *const L,
    dropped: Arc<AtomicUsize>,
    quiescent: bool,
    /// a read() future completed although a writer had announced itself (C12)
    overtaken: bool,
}

pub fn make(line: &str) -> Option<Box<dyn World>> {
    let t: Vec<&str> = line.split_whitespace().collect();
    if t.len() == 2 && t[0] == "new" && t[1] == "rwlock" {
        let dropped = Arc::new(AtomicUsize::new(0));
        let m = Arc::new(RwLock::new(Payload { v: 0, dropped: dropped.clone() }));
        let raw = Arc::as_ptr(&m);
        return Some(Box::new(RwWorld {
            futs: BTreeMap::new(),
            guards: BTreeMap::new(),
            handles: vec![Box::new(m)],
            raw,
            dropped,
            quiescent: true,
            overtaken: false,
        }));
    }
    None
}

fn kind_of(s: &str) -> Option<K> {
    match s {
        "read" => Some(K::Read),
        "uread" => Some(K::URead),
        "write" => Some(K::Write),
        _ => None,
    }
}

impl RwWorld {
    fn alive(&self) -> bool {
        self.dropped.load(Ordering::SeqCst) == 0
    }
    fn lref(&self) -> &'static L {
        // SAFETY: only used while some Arc keeps the lock alive.
        unsafe { &*self.raw }
    }
    fn aref(&self) -> &'static Arc<L> {
        // SAFETY: handles[0] is boxed and is only dropped when nothing borrows it.
        unsafe { &*(&*self.handles[0] as *const Arc<L>) }
    }
    fn fresh(&self, i: u32) -> bool {
        !self.futs.contains_key(&i) && !self.guards.contains_key(&i)
    }
    fn next_id(&self) -> u32 {
        (0..).find(|i| self.fresh(*i)).unwrap()
    }
    /// anything that borrows the lock or a handle (everything except owned guards and UpgradeArc)
    fn borrowed_alive(&self) -> bool {
        self.futs.values().any(|f| !(f.arc && f.kind == K::Upgrade))
            || self.guards.values().any(|g| !g.arc())
    }
    fn strong(&self) -> usize {
        if !self.alive() {
            return 0;
        }
        unsafe {
            let tmp = std::mem::ManuallyDrop::new(Arc::from_raw(self.raw));
            Arc::strong_count(&tmp)
        }
    }
    fn count(&self, k: K) -> usize {
        self.guards.values().filter(|g| g.kind() == k).count()
    }
}

impl World for RwWorld {
    fn exec(&mut self, op: &str) -> String {
        let t: Vec<&str> = op.split_whitespace().collect();
        let num = |i: usize| -> Option<u32> { t.get(i).and_then(|x| x.parse().ok()) };
        match t.first().copied() {
            Some("start") => {
                let (Some(f), Some(k), Some(arc)) = (num(1), t.get(2).and_then(|k| kind_of(k)), num(3))
                else {
                    return "bad-op".into();
                };
                if !self.fresh(f) || self.handles.is_empty() {
                    return "bad-op".into();
                }
                let fut = match (k, arc == 1) {
                    (K::Read, false) => F::Read(Box::pin(self.lref().read())),
                    (K::Read, true) => F::ReadArc(Box::pin(self.aref().read_arc())),
                    (K::URead, false) => F::URead(Box::pin(self.lref().upgradable_read())),
                    (K::URead, true) => F::UReadArc(Box::pin(self.aref().upgradable_read_arc())),
                    (K::Write, false) => F::Write(Box::pin(self.lref().write())),
                    (K::Write, true) => F::WriteArc(Box::pin(self.aref().write_arc())),
                    _ => return "bad-op".into(),
                };
                self.futs.insert(
                    f,
                    Fut { f: fut, kind: k, arc: arc == 1, polled: false, done: false, last_waker: f * 4 },
                );
                "ok".into()
            }
            Some("poll") => {
                let (Some(f), Some(w), Some(fire)) = (num(1), num(2), num(3)) else {
                    return "bad-op".into();
                };
                // C12 precondition, evaluated before the poll: quiescent, a polled write()/upgrade
                    // pending (other than the polled future), no write or upgradable guard alive
                let writer_waiting = self.quiescent
                    && self.count(K::Write) == 0
                    && self.count(K::URead) == 0
                    && self.futs.iter().any(|(i, x)| {
                        *i != f && x.polled && !x.done && (x.kind == K::Write || x.kind == K::Upgrade)
                    });
                let Some(fu) = self.futs.get_mut(&f) else { return "bad-op".into() };
                if fu.done {
                    return "bad-op".into();
                }
                let wk = waker(w);
                let mut cx = Context::from_waker(&wk);
                fu.polled = true;
                fu.last_waker = w;
                let is_read = fu.kind == K::Read;
                async_lock::__verif::set_starvation_oracle(Some(Box::new(move || fire == 1)));
                let res = match &mut fu.f {
                    F::Read(p) => p.as_mut().poll(&mut cx).map(G::R),
                    F::ReadArc(p) => p.as_mut().poll(&mut cx).map(G::RA),
                    F::URead(p) => p.as_mut().poll(&mut cx).map(G::U),
                    F::UReadArc(p) => p.as_mut().poll(&mut cx).map(G::UA),
                    F::Write(p) => p.as_mut().poll(&mut cx).map(G::W),
                    F::WriteArc(p) => p.as_mut().poll(&mut cx).map(G::WA),
                    F::Upgrade(p) => p.as_mut().poll(&mut cx).map(G::W),
                    F::UpgradeArc(p) => p.as_mut().poll(&mut cx).map(G::WA),
                };
                async_lock::__verif::set_starvation_oracle(None);
                match res {
                    Poll::Ready(g) => {
                        fu.done = true;
                        self.guards.insert(f, g);
                        if is_read && writer_waiting {
                            self.overtaken = true;
                        }
                        "ready".into()
                    }
                    Poll::Pending => "pending".into(),
                }
            }
            Some("dropf") => {
                let Some(f) = num(1) else { return "bad-op".into() };
                match self.futs.remove(&f) {
                    Some(fu) => {
                        drop(fu);
                        "ok".into()
                    }
                    None => "bad-op".into(),
                }
            }
            Some("try") => {
                let (Some(g), Some(k), Some(arc)) = (num(1), t.get(2).and_then(|k| kind_of(k)), num(3))
                else {
                    return "bad-op".into();
                };
                if !self.fresh(g) || self.handles.is_empty() {
                    return "bad-op".into();
                }
                let r = match (k, arc == 1) {
                    (K::Read, false) => self.lref().try_read().map(G::R),
                    (K::Read, true) => self.aref().try_read_arc().map(G::RA),
                    (K::URead, false) => self.lref().try_upgradable_read().map(G::U),
                    (K::URead, true) => self.aref().try_upgradable_read_arc().map(G::UA),
                    (K::Write, false) => self.lref().try_write().map(G::W),
                    (K::Write, true) => self.aref().try_write_arc().map(G::WA),
                    _ => return "bad-op".into(),
                };
                match r {
                    Some(gu) => {
                        self.guards.insert(g, gu);
                        "some".into()
                    }
                    None => "none".into(),
                }
            }
            Some("dropg") => {
                let Some(g) = num(1) else { return "bad-op".into() };
                match self.guards.remove(&g) {
                    Some(gu) => {
                        drop(gu);
                        "ok".into()
                    }
                    None => "bad-op".into(),
                }
            }
            Some("conv") => {
                let (Some(g), Some(how)) = (num(1), t.get(2).copied()) else { return "bad-op".into() };
                let Some(gu) = self.guards.remove(&g) else { return "bad-op".into() };
                let (new, out): (G, &str) = match (gu, how) {
                    (G::U(x), "downgrade") => (G::R(RwLockUpgradableReadGuard::downgrade(x)), "ok"),
                    (G::UA(x), "downgrade") => (G::RA(RwLockUpgradableReadGuardArc::downgrade(x)), "ok"),
                    (G::W(x), "downgrade") => (G::R(RwLockWriteGuard::downgrade(x)), "ok"),
                    (G::WA(x), "downgrade") => (G::RA(RwLockWriteGuardArc::downgrade(x)), "ok"),
                    (G::W(x), "toupgradable") => (G::U(RwLockWriteGuard::downgrade_to_upgradable(x)), "ok"),
                    (G::WA(x), "toupgradable") => {
                        (G::UA(RwLockWriteGuardArc::downgrade_to_upgradable(x)), "ok")
                    }
                    (G::U(x), "tryupgrade") => match RwLockUpgradableReadGuard::try_upgrade(x) {
                        Ok(w) => (G::W(w), "ok"),
                        Err(u) => (G::U(u), "err"),
                    },
                    (G::UA(x), "tryupgrade") => match RwLockUpgradableReadGuardArc::try_upgrade(x) {
                        Ok(w) => (G::WA(w), "ok"),
                        Err(u) => (G::UA(u), "err"),
                    },
                    (other, _) => (other, "bad-op"),
                };
                self.guards.insert(g, new);
                out.into()
            }
            Some("upgrade") => {
                let (Some(g), Some(f)) = (num(1), num(2)) else { return "bad-op".into() };
                if !self.fresh(f) {
                    return "bad-op".into();
                }
                let Some(gu) = self.guards.remove(&g) else { return "bad-op".into() };
                let (fut, arc) = match gu {
                    G::U(x) => (F::Upgrade(Box::pin(RwLockUpgradableReadGuard::upgrade(x))), false),
                    G::UA(x) => (F::UpgradeArc(Box::pin(RwLockUpgradableReadGuardArc::upgrade(x))), true),
                    other => {
                        self.guards.insert(g, other);
                        return "bad-op".into();
                    }
                };
                self.futs.insert(
                    f,
                    Fut { f: fut, kind: K::Upgrade, arc, polled: false, done: false, last_waker: f * 4 },
                );
                "ok".into()
            }
            Some("hclone") => {
                if self.handles.is_empty() {
                    return "bad-op".into();
                }
                let h = (*self.handles[0]).clone();
                self.handles.push(Box::new(h));
                "ok".into()
            }
            Some("hdrop") => {
                if self.handles.is_empty() || (self.handles.len() == 1 && self.borrowed_alive()) {
                    return "bad-op".into();
                }
                drop(self.handles.pop());
                "ok".into()
            }
            _ => "bad-op".into(),
        }
    }

    fn snapshot(&self) -> String {
        if !self.alive() {
            return format!("words=- ev=- strong=0 dropped={}", self.dropped.load(Ordering::SeqCst));
        }
        format!("{} strong={} dropped=0", fmt_snapshot(&self.lref().__verif_snapshot()), self.strong())
    }

    fn candidates(&self, exhaustive: bool) -> Vec<String> {
        let mut v = Vec::new();
        let id = self.next_id();
        let have_handle = !self.handles.is_empty();
        let max_f = if exhaustive { 3 } else { 4 };
        if self.futs.len() < max_f && have_handle {
            for k in ["read", "uread", "write"] {
                v.push(format!("start {} {} 0", id, k));
                if !exhaustive {
                    v.push(format!("start {} {} 1", id, k));
                }
            }
        }
        for (f, fu) in &self.futs {
            if !fu.done {
                v.push(format!("poll {} {} 0", f, f * 4));
                if !exhaustive && fu.polled {
                    v.push(format!("poll {} {} 1", f, f * 4));
                    v.push(format!("poll {} {} 0", f, f * 4 + 1));
                }
            }
            v.push(format!("dropf {}", f));
        }
        if have_handle && self.guards.len() < 3 {
            for k in ["read", "uread", "write"] {
                v.push(format!("try {} {} 0", id, k));
                if !exhaustive {
                    v.push(format!("try {} {} 1", id, k));
                }
            }
        }
        for (g, gu) in &self.guards {
            v.push(format!("dropg {}", g));
            match gu.kind() {
                K::URead => {
                    v.push(format!("conv {} downgrade", g));
                    v.push(format!("conv {} tryupgrade", g));
                    if self.futs.len() < max_f {
                        v.push(format!("upgrade {} {}", g, id));
                    }
                }
                K::Write => {
                    v.push(format!("conv {} downgrade", g));
                    v.push(format!("conv {} toupgradable", g));
                }
                _ => {}
            }
        }
        if !exhaustive {
            if have_handle && self.handles.len() < 3 {
                v.push("hclone".into());
            }
            if self.handles.len() > 1 || (self.handles.len() == 1 && !self.borrowed_alive()) {
                v.push("hdrop".into());
            }
        }
        v
    }

    fn key(&self) -> String {
        let f: Vec<String> = self
            .futs
            .iter()
            .map(|(i, f)| {
                format!("{}{:?}{}{}{}{}", i, f.kind, f.arc as u8, f.polled as u8, f.done as u8, f.last_waker)
            })
            .collect();
        let g: Vec<String> =
            self.guards.iter().map(|(i, g)| format!("{}{:?}{}", i, g.kind(), g.arc() as u8)).collect();
        format!("{}|{}|{}|{}", f.join(","), g.join(","), self.snapshot(), self.handles.len())
    }

    fn monitors(&self, woken: &BTreeSet<u32>) -> Vec<String> {
        let mut m = Vec::new();
        if !self.alive() {
            let owners = self.handles.len()
                + self.guards.values().filter(|g| g.arc()).count()
                + self.futs.values().filter(|f| f.arc && f.kind == K::Upgrade && !f.done).count();
            if owners != 0 || self.dropped.load(Ordering::SeqCst) != 1 {
                m.push("C15".to_string());
            }
            return m;
        }
        let snap = self.lref().__verif_snapshot();
        let (state, mst) = (snap.words[0], snap.words[1]);
        let (r, u, w) = (self.count(K::Read), self.count(K::URead), self.count(K::Write));
        // C02: readers xor writer, at most one upgradable
        if w > 1 || (w == 1 && (r > 0 || u > 0)) || u > 1 {
            m.push("C02".to_string());
        }
        // C02/C11 (word level): reader count and writer bit agree with the guards alive
        if state >> 1 != r + u || (w == 1 && state & 1 == 0) {
            m.push("C02".to_string());
        }
        let pend = |k: K| self.futs.values().filter(|f| f.kind == k && f.polled && !f.done).count();
        let (pr, pu, pw, pup) = (pend(K::Read), pend(K::URead), pend(K::Write), pend(K::Upgrade));
        // an upgrade future holds the lock it consumed from its creation on, polled or not
        let pup_live = self.futs.values().filter(|f| f.kind == K::Upgrade && !f.done).count();
        let pup_unpolled = pup_live - pup;
        if woken.is_empty() {
            // C06 (i): no guard alive (and no unpolled upgrade holding one) => nothing pending
            if r + u + w + pup_unpolled == 0 && pr + pu + pw + pup > 0 {
                m.push("C06".to_string());
            }
            // C06 (ii): no write guard, no writer/upgrader waiting => no read() pending
            if w == 0 && pw + pup_live == 0 && pr > 0 {
                m.push("C06".to_string());
            }
            // C06 (iii): no write/upgradable guard, no writer waiting => no upgradable_read() pending
            if w == 0 && u == 0 && pw + pup_live == 0 && pu > 0 {
                m.push("C06".to_string());
            }
            // C06 (iv): no reader left => a pending upgrade has completed
            if r == 0 && pup > 0 {
                m.push("C06".to_string());
            }
            // C12: a polled write()/upgrade is pending, no write/upgradable guard: readers are shut out
            if pw + pup > 0 && w == 0 && u == 0 {
                if state & 1 == 0 {
                    m.push("C12".to_string());
                } else if let Some(g) = self.lref().try_read() {
                    drop(g);
                    m.push("C12".to_string());
                }
            }
        }
        // C14: nothing alive that could conflict => try_write succeeds (idle probe; restores state)
        let listeners: usize = snap.events.iter().map(|e| e.0).sum();
        if r + u + w == 0 && pr + pu + pw + pup_live == 0 && listeners == 0 {
            match self.lref().try_write() {
                Some(g) => drop(g),
                None => m.push("C14".to_string()),
            }
        }
        if self.overtaken {
            m.push("C12".to_string());
        }
        // C10: no stale listeners; nothing left behind once everything is gone
        if listeners > pr + pu + pw + pup {
            m.push("C10".to_string());
        }
        if pr + pu + pw + pup == 0 && r + u + w == 0 && (state != 0 || mst != 0)
            && self.futs.values().all(|f| f.done || !f.polled) && !self.futs.values().any(|f| f.kind == K::Upgrade && !f.done)
        {
            m.push("C10".to_string());
        }
        // C11: the inner mutex (the "slot") is held exactly by W / U / pending upgrade / waiting writer
        if w + u + pup_live > 1 || (w + u + pup_live == 1 && mst & 1 == 0) {
            m.push("C11".to_string());
        }
        // C15: strong = handles + owned guards + uncompleted UpgradeArc futures
        let arc_f = self.futs.values().filter(|f| f.arc && f.kind == K::Upgrade && !f.done).count();
        let arc_g = self.guards.values().filter(|g| g.arc()).count();
        if self.strong() != self.handles.len() + arc_f + arc_g {
            m.push("C15".to_string());
        }
        m
    }

    fn word_addrs(&self) -> Vec<usize> {
        if self.alive() { self.lref().__verif_snapshot().addrs } else { Vec::new() }
    }

    fn pending(&self) -> usize {
        self.futs.values().filter(|x| x.polled && !x.done).count()
    }

    fn score(&self) -> usize {
        self.guards.len()
    }

    fn repoll_op(&self, f: u32) -> Option<String> {
        self.futs.get(&f).filter(|x| !x.done).map(|x| format!("poll {} {} 0", f, x.last_waker))
    }

    fn note_quiescent(&mut self, q: bool) {
        self.quiescent = q;
    }
}

impl Drop for RwWorld {
    fn drop(&mut self) {
        self.futs.clear();
        self.guards.clear();
        self.handles.clear();
    }
}
